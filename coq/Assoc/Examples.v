(* Assoc/Examples -- the hypotheses that REMAIN in the Assoc corollaries (non-zero discriminant, resp.
   completeness, on-curve inputs, well-formed scalars) are satisfiable: the toy curves over F_13 of
   Link/Examples.v and Link/ExamplesTE.v.  No exhaustive associativity check is used here. *)
From V Require Import Base.Field Base.Word Base.ZpField Base.ZpTransfer C03.CurveExec C03.SWProofs C03.TEProofs C03.FieldHyp
  C12.SWSubgroupProofs C12.TESubgroupProofs.
From V Require C05.MsmModel C05.Run.
From V Require Import Link.TEGroup Link.Examples Link.ExamplesTE.
From V Require Import Assoc.SWIdent.
Require Import Lia.

(* y^2 = x^3 + 2 over F_13: 4 a^3 + 27 b^2 = 108 = 4 <> 0 *)
Lemma disc_13 : sw_disc F13 a13 b13 <> f0 F13.
Proof. intro H. apply (f_equal (@fpv 13)) in H. vm_compute in H. discriminate H. Qed.

(* the premises of the MSM theorems, for two scalars [5], [3] (3 bits) *)
Lemma msm_len_13 : Z.min (C05.MsmModel.len [A13; A13]) (C05.MsmModel.len [[5; 0]; [3; 0]]) < 2 ^ 64.
Proof. vm_compute. reflexivity. Qed.
Lemma msm_bases_13 : Forall (aff_on F13 a13 b13) [A13; A13].
Proof. repeat constructor; exact A13_on. Qed.
Lemma msm_scalars_13 :
  Forall (fun s => wf s /\ 3 <= 64 * C05.MsmModel.len s /\ val s < 2 ^ 3) [[5; 0]; [3; 0]].
Proof.
  repeat constructor; try (unfold u64, W64; lia); vm_compute; try reflexivity; intro K; discriminate K.
Qed.

(* the point (0, 12) of 12 x^2 + y^2 = 1 + 6 x^2 y^2 *)
Definition B13te : @te_aff (Fp 13) := (fp_of 13 0, fp_of 13 12).
Lemma B13te_on : te_aff_on F13 ta13 td13 B13te.
Proof. apply (te_onb_on F13 ta13 td13 F13_good). vm_compute. reflexivity. Qed.
Lemma msm_len_13te : Z.min (C05.MsmModel.len [B13te; B13te]) (C05.MsmModel.len [[5; 0]; [3; 0]]) < 2 ^ 64.
Proof. vm_compute. reflexivity. Qed.
Lemma msm_bases_13te : Forall (te_aff_on F13 ta13 td13) [B13te; B13te].
Proof. repeat constructor; exact B13te_on. Qed.
