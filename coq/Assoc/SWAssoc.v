(* Assoc/SWAssoc -- associativity of the chord-and-tangent law [aff_add_sw] on the points of a short
   Weierstrass curve y^2 = x^3 + a x + b with non-zero discriminant 4 a^3 + 27 b^2, over every
   [good_field] (field with decidable Leibniz equality, 1 + 1 <> 0; characteristic 3 is allowed).

   Structure (elementary proof, in the style of Friedl / Thery):
   1. every pair of curve points is in exactly one of the relations: one is O / opposite / equal with
      y <> 0 (tangent) / different x (chord)                                      [classify]
   2. -(A + B) = (-A) + (-B)                                                       [neg_law]
   3. (P + Q) + (-Q) = P  for all curve points (the only place where the discriminant is used:
      when the chord through P, Q is tangent at Q, the point Q must not be singular)   [law_cancel_r]
      hence cancellation  X + A = X + B -> A = B                                   [cancel_l]
   4. the degenerate triples (a point is O; Q = -P; R = -Q; P + Q = -R; Q + R = -P) follow from 2, 3 and
      commutativity (Link_sw_law_comm);
   5. for the remaining triples each of the four additions (P,Q), (Q,R), (P+Q,R), (P,Q+R) is a chord or
      a tangent: 16 configurations.  Eight are trivial by cancellation / commutativity, the
      other eight are the five rational identities of Assoc/SWIdent.v (g1, g2a, g2b, g2c, g3) and their
      mirror images under (P,Q,R) -> (R,Q,P). *)
From V Require Import Base.Field C03.CurveExec C03.SWProofs C03.FieldHyp C12.SWSubgroupProofs Link.SWGroup.
From V Require Import Assoc.SWIdent.
Require Import Coq.setoid_ring.Field Coq.setoid_ring.Ring.

Section SWAssoc.
  Context {T : Type} (F : Fops T) (a b : T).
  Hypothesis GF : good_field F.
  Hypothesis Hdisc : sw_disc F a b <> f0 F.
  Let Fth := gf_th F GF.
  Let Feq := gf_eqb F GF.
  Let Ftwo := gf_two F GF.
  Add Field KfAssocSW : Fth.

  Local Notation "0" := (f0 F).
  Local Notation "1" := (f1 F).
  Local Infix "+" := (fadd F).
  Local Infix "-" := (fsub F).
  Local Infix "*" := (fmul F).
  Local Infix "/" := (fdiv F).
  Local Infix "==" := (feqb F) (at level 70).
  Local Notation "- x" := (fneg F x).

  Local Notation pt := (@sw_aff T).
  Local Notation on := (aff_on F a b).
  Local Notation law := (aff_add_sw F a).
  Local Notation neg := (aff_neg_sw F).

  (* ---------- the law, branch by branch ---------- *)
  Lemma law_chord : forall x1 y1 x2 y2, x2 - x1 <> 0 ->
    law (Some (x1, y1)) (Some (x2, y2)) = Some (chord F x1 y1 x2 y2).
  Proof.
    intros x1 y1 x2 y2 N. cbn [aff_add_sw].
    assert (E : (x1 == x2) = false).
    { apply (eqb_false F Feq). intro E. apply N. rewrite E. ring. }
    rewrite E. reflexivity.
  Qed.
  Lemma law_tang : forall x1 y1, y1 <> 0 -> law (Some (x1, y1)) (Some (x1, y1)) = Some (tang F a x1 y1).
  Proof.
    intros x1 y1 N. cbn [aff_add_sw]. rewrite (eqb_refl F Feq x1).
    assert (E : (y1 == - y1) = false).
    { apply (eqb_false F Feq). intro E. apply N. exact (neg_eq_self F Fth Feq Ftwo y1 E). }
    rewrite E. reflexivity.
  Qed.
  Lemma law_zero_r : forall A : pt, law A None = A.
  Proof. intros [[x y]|]; reflexivity. Qed.
  Lemma neg_neg : forall A : pt, neg (neg A) = A.
  Proof. intros [[x y]|]; [|reflexivity]. cbn [aff_neg_sw]. f_equal. f_equal. ring. Qed.
  Lemma law_neg_r : forall A : pt, law A (neg A) = None.
  Proof. intros A. rewrite <- (neg_neg A) at 1. apply (sw_law_neg_l F a GF). Qed.
  Lemma law_eq_None : forall A B : pt, law A B = None -> B = neg A.
  Proof.
    intros [[x1 y1]|] [[x2 y2]|]; cbn [aff_add_sw aff_neg_sw]; try discriminate; try reflexivity.
    destruct (x1 == x2) eqn:Ex; [|discriminate]. destruct (y1 == - y2) eqn:Ey; [|discriminate].
    intros _. apply Feq in Ex, Ey. subst x2 y1. f_equal. f_equal. ring.
  Qed.

  Lemma law_on : forall A B, on A -> on B -> on (law A B).
  Proof. exact (aff_add_sw_on F a b Fth Feq Ftwo). Qed.
  Lemma neg_on : forall A, on A -> on (neg A).
  Proof. exact (aff_neg_on F a b Fth). Qed.
  Lemma law_comm : forall A B, on A -> on B -> law A B = law B A.
  Proof. exact (sw_law_comm F a b GF). Qed.

  (* ---------- the relation between two curve points ---------- *)
  Definition gen (A B : pt) : Prop :=
    match A, B with Some (x1, _), Some (x2, _) => x2 - x1 <> 0 | _, _ => False end.
  Definition tanp (A : pt) : Prop := match A with Some (_, y) => y <> 0 | None => False end.

  Lemma gen_sym : forall A B, gen A B -> gen B A.
  Proof.
    intros [[x1 y1]|] [[x2 y2]|]; cbn [gen]; try contradiction.
    intros N E. apply N. transitivity (- (x1 - x2)); [ring | rewrite E; ring].
  Qed.

  Lemma classify : forall A B, on A -> on B ->
    A = None \/ B = None \/ B = neg A \/ (B = A /\ tanp A) \/ gen A B.
  Proof.
    intros [[x1 y1]|] [[x2 y2]|] HA HB; auto.
    right. right. cbn [gen tanp aff_neg_sw]. cbn [aff_on] in HA, HB.
    destruct (x1 == x2) eqn:Ex.
    - apply Feq in Ex. subst x2. destruct (y2 == - y1) eqn:Ey.
      + apply Feq in Ey. left. rewrite Ey. reflexivity.
      + apply (eqb_false F Feq) in Ey. right. left.
        assert (E12 : y2 = y1).
        { destruct (y2 == y1) eqn:E; [apply Feq; exact E|]. apply (eqb_false F Feq) in E.
          exfalso. apply Ey. exact (aff_on_opposite F a b Fth Feq x1 y2 y1 HB HA E). }
        subst y2. split; [reflexivity|]. intro E0. apply Ey. rewrite E0. ring.
    - apply (eqb_false F Feq) in Ex. right. right. apply (sub_nz F Fth). congruence.
  Qed.

  (* ---------- -(A + B) = (-A) + (-B) ---------- *)
  Lemma neg_law : forall A B, on A -> on B -> neg (law A B) = law (neg A) (neg B).
  Proof.
    intros A B HA HB. destruct (classify A B HA HB) as [E|[E|[E|[[E NT]|G]]]].
    - subst A. reflexivity.
    - subst B. rewrite law_zero_r. cbn [aff_neg_sw]. rewrite law_zero_r. reflexivity.
    - subst B. rewrite !law_neg_r. reflexivity.
    - subst B. destruct A as [[x y]|]; [|contradiction]. cbn [tanp] in NT. cbn [aff_neg_sw].
      rewrite (law_tang x y NT), (law_tang x (- y) (neg_nz F GF y NT)), (tang_neg F GF a x y NT).
      destruct (tang F a x y) as [xs ys]. reflexivity.
    - destruct A as [[x1 y1]|], B as [[x2 y2]|]; cbn [gen] in G; try contradiction. cbn [aff_neg_sw].
      rewrite (law_chord x1 y1 x2 y2 G), (law_chord x1 (- y1) x2 (- y2) G), (chord_neg F GF x1 y1 x2 y2 G).
      destruct (chord F x1 y1 x2 y2) as [xs ys]. reflexivity.
  Qed.

  (* ---------- (P + Q) + (-Q) = P ---------- *)
  Lemma law_cancel_r : forall P Q, on P -> on Q -> law (law P Q) (neg Q) = P.
  Proof.
    intros P Q HP HQ. destruct (classify P Q HP HQ) as [E|[E|[E|[[E NT]|G]]]].
    - subst P. apply law_neg_r.
    - subst Q. cbn [aff_neg_sw]. rewrite !law_zero_r. reflexivity.
    - subst Q. rewrite law_neg_r, neg_neg. reflexivity.
    - (* P = Q, tangent *)
      subst Q. destruct P as [[x1 y1]|]; [|contradiction]. cbn [tanp] in NT. cbn [aff_neg_sw].
      rewrite (law_tang x1 y1 NT). destruct (tang F a x1 y1) as [xs ys] eqn:ES.
      destruct (xs == x1) eqn:Ex.
      + (* 2P = -P *)
        apply Feq in Ex. subst xs. pose proof (tang_same_x F GF a x1 y1 ys ES) as Ey. subst ys.
        rewrite (law_tang x1 (- y1) (neg_nz F GF y1 NT)), (tang_neg F GF a x1 y1 NT), ES.
        cbn [fst snd]. f_equal. f_equal. ring.
      + apply (eqb_false F Feq) in Ex.
        assert (N : x1 - xs <> 0) by (apply (sub_nz F Fth); congruence).
        rewrite (law_chord xs ys x1 (- y1) N). f_equal. exact (k_tangc F GF a x1 y1 xs ys NT ES N).
    - (* chord *)
      destruct P as [[x1 y1]|], Q as [[x2 y2]|]; cbn [gen] in G; try contradiction. cbn [aff_neg_sw].
      rewrite (law_chord x1 y1 x2 y2 G). destruct (chord F x1 y1 x2 y2) as [xs ys] eqn:ES.
      destruct (xs == x2) eqn:Ex.
      + (* the chord is tangent at Q: P + Q = -Q *)
        apply Feq in Ex. subst xs. cbn [aff_on] in HP, HQ.
        destruct (k_tan F GF a b x1 y1 x2 y2 ys HP HQ G ES) as (Ey & Rel & Tg). subst ys.
        assert (NY : y2 <> 0).
        { intro E0. subst y2. apply (nonsing F GF a b x2 Hdisc HQ). rewrite <- Rel. ring. }
        rewrite (law_tang x2 (- y2) (neg_nz F GF y2 NY)). f_equal. exact (Tg NY).
      + apply (eqb_false F Feq) in Ex.
        assert (N : x2 - xs <> 0) by (apply (sub_nz F Fth); congruence).
        rewrite (law_chord xs ys x2 (- y2) N). f_equal. exact (k_chord F GF x1 y1 x2 y2 xs ys G ES N).
  Qed.

  Lemma cancel_l : forall X A B, on X -> on A -> on B -> law X A = law X B -> A = B.
  Proof.
    intros X A B HX HA HB E.
    rewrite <- (law_cancel_r A X HA HX), <- (law_cancel_r B X HB HX).
    rewrite (law_comm A X HA HX), (law_comm B X HB HX), E. reflexivity.
  Qed.

  (* ---------- the five configurations, at the level of points ---------- *)
  Local Notation assoc P Q R := (law (law P Q) R = law P (law Q R)).

  Lemma pg1 : forall P Q R, on P -> on Q -> on R ->
    gen P Q -> gen Q R -> gen (law P Q) R -> gen P (law Q R) -> assoc P Q R.
  Proof.
    intros [[x1 y1]|] [[x2 y2]|] [[x3 y3]|] H1 H2 H3 N12 N23; cbn [gen] in N12, N23; try contradiction.
    rewrite (law_chord _ _ _ _ N12), (law_chord _ _ _ _ N23).
    destruct (chord F x1 y1 x2 y2) as [xs ys] eqn:ES. destruct (chord F x2 y2 x3 y3) as [xu yu] eqn:EU.
    cbn [gen]. intros NS NU. rewrite (law_chord _ _ _ _ NS), (law_chord _ _ _ _ NU). f_equal.
    exact (g1 F GF a b x1 y1 x2 y2 x3 y3 H1 H2 H3 N12 N23 xs ys xu yu ES EU NS NU).
  Qed.

  Lemma pg2a : forall P R, on P -> on R ->
    tanp P -> gen P R -> gen (law P P) R -> gen P (law P R) -> assoc P P R.
  Proof.
    intros [[x1 y1]|] [[x3 y3]|] H1 H3 NT N13; cbn [gen tanp] in NT, N13; try contradiction.
    rewrite (law_tang _ _ NT), (law_chord _ _ _ _ N13).
    destruct (tang F a x1 y1) as [xs ys] eqn:ES. destruct (chord F x1 y1 x3 y3) as [xu yu] eqn:EU.
    cbn [gen]. intros NS NU. rewrite (law_chord _ _ _ _ NS), (law_chord _ _ _ _ NU). f_equal.
    exact (g2a F GF a b x1 y1 x3 y3 H1 H3 NT N13 xs ys xu yu ES EU NS NU).
  Qed.

  Lemma pg2b : forall P Q, on P -> on Q ->
    gen P Q -> tanp (law P Q) -> gen Q (law P Q) -> gen P (law Q (law P Q)) -> assoc P Q (law P Q).
  Proof.
    intros [[x1 y1]|] [[x2 y2]|] H1 H2 N12; cbn [gen] in N12; try contradiction.
    rewrite (law_chord _ _ _ _ N12). destruct (chord F x1 y1 x2 y2) as [xs ys] eqn:ES.
    cbn [gen tanp]. intros NT NS. rewrite (law_chord _ _ _ _ NS).
    destruct (chord F x2 y2 xs ys) as [xu yu] eqn:EU. cbn [gen]. intros NU.
    rewrite (law_tang _ _ NT), (law_chord _ _ _ _ NU). f_equal.
    exact (g2b F GF a b x1 y1 x2 y2 H1 H2 N12 xs ys xu yu ES NT NS EU NU).
  Qed.

  Lemma pg2c : forall P, on P ->
    tanp P -> tanp (law P P) -> gen P (law P P) -> gen P (law P (law P P)) -> assoc P P (law P P).
  Proof.
    intros [[x1 y1]|] H1 NT; cbn [tanp] in NT; try contradiction.
    rewrite (law_tang _ _ NT). destruct (tang F a x1 y1) as [xs ys] eqn:ES.
    cbn [gen tanp]. intros NTS NS. rewrite (law_chord _ _ _ _ NS).
    destruct (chord F x1 y1 xs ys) as [xu yu] eqn:EU. cbn [gen]. intros NU.
    rewrite (law_tang _ _ NTS), (law_chord _ _ _ _ NU). f_equal.
    exact (g2c F GF a x1 y1 NT xs ys xu yu ES NTS NS EU NU).
  Qed.

  Lemma pg3 : forall P Q, on P -> on Q -> neg Q = Q ->
    gen P Q -> tanp P -> tanp (law P Q) -> law (law P Q) (law P Q) = law P P.
  Proof.
    intros [[x1 y1]|] [[x2 y2]|] H1 H2 EQ N12; cbn [gen] in N12; try contradiction.
    cbn [aff_neg_sw] in EQ. injection EQ as EQ. symmetry in EQ.
    pose proof (neg_eq_self F Fth Feq Ftwo y2 EQ) as E0. subst y2.
    rewrite (law_chord _ _ _ _ N12). destruct (chord F x1 y1 x2 0) as [xs ys] eqn:ES.
    cbn [tanp]. intros NT NTS. rewrite (law_tang _ _ NT), (law_tang _ _ NTS). f_equal.
    exact (g3 F GF a b x1 y1 x2 H1 H2 N12 NT xs ys ES NTS).
  Qed.

  (* ---------- degenerate triples ---------- *)
  Lemma assoc_P_None : forall Q R : pt, assoc None Q R.
  Proof. reflexivity. Qed.
  Lemma assoc_Q_None : forall P R : pt, assoc P None R.
  Proof. intros P R. rewrite law_zero_r. reflexivity. Qed.
  Lemma assoc_R_None : forall P Q : pt, assoc P Q None.
  Proof. intros P Q. rewrite !law_zero_r. reflexivity. Qed.

  (* assoc P Q R follows from assoc R Q P and commutativity *)
  Lemma mirror : forall P Q R, on P -> on Q -> on R -> assoc R Q P -> assoc P Q R.
  Proof.
    intros P Q R HP HQ HR H.
    rewrite (law_comm (law P Q) R (law_on P Q HP HQ) HR), (law_comm P Q HP HQ), <- H.
    rewrite (law_comm (law R Q) P (law_on R Q HR HQ) HP), (law_comm R Q HR HQ). reflexivity.
  Qed.

  (* Q = -P *)
  Lemma assoc_PQ_opp : forall P R, on P -> on R -> assoc P (neg P) R.
  Proof.
    intros P R HP HR. pose proof (neg_on P HP) as HN. rewrite law_neg_r. cbn [aff_add_sw].
    rewrite (law_comm (neg P) R HN HR), (law_comm P (law R (neg P)) HP (law_on R (neg P) HR HN)).
    rewrite <- (neg_neg P) at 2. symmetry. exact (law_cancel_r R (neg P) HR HN).
  Qed.
  (* R = -Q *)
  Lemma assoc_QR_opp : forall P Q, on P -> on Q -> assoc P Q (neg Q).
  Proof. intros P Q HP HQ. rewrite law_neg_r, law_zero_r. exact (law_cancel_r P Q HP HQ). Qed.
  (* R = -(P + Q) *)
  Lemma assoc_SR_opp : forall P Q, on P -> on Q -> assoc P Q (neg (law P Q)).
  Proof.
    intros P Q HP HQ. pose proof (neg_on P HP) as HNP. pose proof (neg_on Q HQ) as HNQ.
    rewrite law_neg_r, (neg_law P Q HP HQ).
    rewrite (law_comm Q (law (neg P) (neg Q)) HQ (law_on _ _ HNP HNQ)).
    rewrite <- (neg_neg Q) at 2. rewrite (law_cancel_r (neg P) (neg Q) HNP HNQ), law_neg_r. reflexivity.
  Qed.
  (* Q + R = -P *)
  Lemma assoc_PU_opp : forall P Q R, on P -> on Q -> on R -> law Q R = neg P -> assoc P Q R.
  Proof.
    intros P Q R HP HQ HR E. apply (mirror P Q R HP HQ HR).
    assert (EP : P = neg (law R Q)) by (rewrite (law_comm R Q HR HQ), E, neg_neg; reflexivity).
    rewrite EP. exact (assoc_SR_opp R Q HR HQ).
  Qed.

  (* ---------- the theorem ---------- *)
  Theorem sw_assoc_pts : forall P Q R, on P -> on Q -> on R -> assoc P Q R.
  Proof.
    intros P Q R HP HQ HR.
    pose proof (law_on P Q HP HQ) as HS. pose proof (law_on Q R HQ HR) as HU.
    destruct (classify P Q HP HQ) as [E|[E|[E|C1]]];
      [subst P; apply assoc_P_None | subst Q; apply assoc_Q_None | subst Q; apply assoc_PQ_opp; assumption |].
    destruct (classify Q R HQ HR) as [E|[E|[E|C2]]];
      [subst Q; apply assoc_Q_None | subst R; apply assoc_R_None | subst R; apply assoc_QR_opp; assumption |].
    destruct (classify (law P Q) R HS HR) as [E|[E|[E|C3]]];
      [apply law_eq_None in E; subst Q; apply assoc_PQ_opp; assumption | subst R; apply assoc_R_None
      | subst R; apply assoc_SR_opp; assumption |].
    destruct (classify P (law Q R) HP HU) as [E|[E|[E|C4]]];
      [subst P; apply assoc_P_None | apply law_eq_None in E; subst R; apply assoc_QR_opp; assumption
      | apply assoc_PU_opp; assumption |].
    destruct C1 as [[E1 T1]|G1], C2 as [[E2 T2]|G2].
    - (* P = Q = R *)
      subst Q. subst R. exact (law_comm (law P P) P HS HP).
    - (* P = Q *)
      subst Q. destruct C4 as [[E4 T4]|G4].
      + (* P + R = P: R = O *)
        assert (ER : R = None).
        { apply (cancel_l P R None HP HR I). rewrite law_zero_r. exact E4. }
        subst R. apply assoc_R_None.
      + destruct C3 as [[E3 T3]|G3].
        * subst R. exact (pg2c P HP T1 T3 G2 G4).
        * exact (pg2a P R HP HR T1 G2 G3 G4).
    - (* Q = R *)
      subst R. destruct C3 as [[E3 T3]|G3].
      + (* P + Q = Q: P = O *)
        assert (EP : P = None).
        { apply (cancel_l Q P None HQ HP I). rewrite law_zero_r, (law_comm Q P HQ HP). symmetry. exact E3. }
        subst P. apply assoc_P_None.
      + apply (mirror P Q Q HP HQ HQ).
        assert (G3' : gen Q (law Q P)) by (rewrite (law_comm Q P HQ HP); apply gen_sym; exact G3).
        destruct C4 as [[E4 T4]|G4].
        * rewrite <- E4 in T4, G1, G3' |- *.
          exact (pg2c Q HQ T2 T4 (gen_sym _ _ G1) G3').
        * exact (pg2a Q P HQ HP T2 (gen_sym _ _ G1) (gen_sym _ _ G4) G3').
    - (* (P,Q) and (Q,R) are chords *)
      destruct C3 as [[E3 T3]|G3], C4 as [[E4 T4]|G4].
      + (* R = P + Q and P = Q + R: Q has order two *)
        assert (EQ : neg Q = Q).
        { apply (cancel_l R (neg Q) Q HR (neg_on Q HQ) HQ).
          rewrite E3 at 1. rewrite (law_cancel_r P Q HP HQ), (law_comm R Q HR HQ). symmetry. exact E4. }
        rewrite E4. rewrite E3.
        exact (pg3 P Q HP HQ EQ G1 T4 T3).
      + subst R. exact (pg2b P Q HP HQ G1 T3 G2 G4).
      + apply (mirror P Q R HP HQ HR).
        assert (EP : law R Q = P) by (rewrite (law_comm R Q HR HQ); exact E4).
        assert (G3' : gen R (law Q P)) by (rewrite (law_comm Q P HQ HP); apply gen_sym; exact G3).
        rewrite <- EP in T4, G1, G3' |- *.
        exact (pg2b R Q HR HQ (gen_sym _ _ G2) T4 (gen_sym _ _ G1) G3').
      + exact (pg1 P Q R HP HQ HR G1 G2 G3 G4).
  Qed.

  (* in the orientation of [sw_law_assoc] (C12) *)
  Theorem sw_assoc : sw_law_assoc F a b.
  Proof. intros A B C HA HB HC. symmetry. exact (sw_assoc_pts A B C HA HB HC). Qed.
End SWAssoc.

(* The discriminant hypothesis cannot be dropped: on the cuspidal cubic y^2 = x^3 (a = b = 0), over every
   field, (0,0) + (0,0) = O (vertical tangent at the singular point) and (0,0) + (1,1) = (0,0), so
   ((0,0) + (0,0)) + (1,1) = (1,1) but (0,0) + ((0,0) + (1,1)) = O. *)
Section SWSingular.
  Context {T : Type} (F : Fops T).
  Hypothesis GF : good_field F.
  Let Fth := gf_th F GF.
  Let Feq := gf_eqb F GF.
  Add Field KfAssocSWS : Fth.
  Local Notation "0" := (f0 F).
  Local Notation "1" := (f1 F).

  Theorem sw_singular_not_assoc : ~ sw_law_assoc F 0 0.
  Proof.
    intros H.
    assert (H0 : aff_on F 0 0 (Some (0, 0))) by (cbn [aff_on]; ring).
    assert (H1 : aff_on F 0 0 (Some (1, 1))) by (cbn [aff_on]; ring).
    specialize (H (Some (0, 0)) (Some (0, 0)) (Some (1, 1)) H0 H0 H1).
    assert (N1 : 1 <> 0) by exact (one_nz F Fth).
    assert (N : fsub F 1 0 <> 0).
    { intro E. apply N1. rewrite <- E. ring. }
    assert (E00 : aff_add_sw F 0 (Some (0, 0)) (Some (0, 0)) = None).
    { cbn [aff_add_sw]. rewrite (eqb_refl F Feq 0).
      assert (E : feqb F 0 (fneg F 0) = true) by (apply Feq; ring). rewrite E. reflexivity. }
    assert (E01 : aff_add_sw F 0 (Some (0, 0)) (Some (1, 1)) = Some (0, 0)).
    { rewrite (law_chord F 0 GF 0 0 1 1 N). unfold chord. cbv zeta. f_equal. f_equal; field; auto. }
    rewrite E01, E00 in H. discriminate H.
  Qed.
End SWSingular.
