(* Assoc/SWIdent -- the rational identities behind associativity of the chord-and-tangent law, at the
   level of coordinates.  No certificate is needed: in each configuration the curve equations are
   ELIMINATED by a rational parametrisation (slopes l1, l2 of the lines as free variables; a, and one
   y-coordinate, are then rational functions of the free variables; b never occurs in the law), after
   which the statement is a plain identity of rational functions, closed by [field]. *)
From V Require Import Base.Field C03.CurveExec C03.SWProofs C03.FieldHyp.
Require Import Coq.setoid_ring.Field Coq.setoid_ring.Ring.

Section SWIdent.
  Context {T : Type} (F : Fops T).
  Hypothesis GF : good_field F.
  Let Fth := gf_th F GF.
  Let Feq := gf_eqb F GF.
  Let Ftwo := gf_two F GF.
  Add Field KfAssocSWI : Fth.

  Local Notation "0" := (f0 F).
  Local Notation "1" := (f1 F).
  Local Infix "+" := (fadd F).
  Local Infix "-" := (fsub F).
  Local Infix "*" := (fmul F).
  Local Infix "/" := (fdiv F).
  Local Notation "- x" := (fneg F x).

  Let mul_eq0 := SWProofs.mul_eq0 F Fth Feq.
  Let mul_nz := SWProofs.mul_nz F Fth Feq.
  Let sub_nz := SWProofs.sub_nz F Fth.

  Definition chord (x1 y1 x2 y2 : T) : T * T :=
    let l := (y2 - y1) / (x2 - x1) in let x3 := l * l - x1 - x2 in (x3, l * (x1 - x3) - y1).
  Definition tang (a x1 y1 : T) : T * T :=
    let l := (x1 * x1 + x1 * x1 + x1 * x1 + a) / (y1 + y1) in let x3 := l * l - x1 - x1 in (x3, l * (x1 - x3) - y1).

  Lemma sub_eq0 : forall p q, p - q = 0 -> p = q.
  Proof. intros p q E. transitivity ((p - q) + q); [ring | rewrite E; ring]. Qed.
  Lemma sub_nz' : forall p q, p - q <> 0 -> p <> q.
  Proof. intros p q H E. apply H. rewrite E. ring. Qed.
  Lemma eq_div : forall y w c, c <> 0 -> y * c = w -> y = w / c.
  Proof. intros y w c Hc E. rewrite <- E. field. exact Hc. Qed.

  (* a side condition of [field] of the form  c <> 0  where c is the numerator of e over the common
     denominator D * D, from HE : e <> 0 and HD : D <> 0 *)
  Ltac by_quot HE HD :=
    let E := fresh "E" in
    intro E; apply HE;
    match type of HD with ?D <> _ =>
      match type of E with ?c = _ => transitivity (c / (D * D)); [field; auto | rewrite E; field; auto] end end.

  (* slope of a chord, from the two curve equations: (y1 + y2) l = x1^2 + x1 x2 + x2^2 + a *)
  Lemma slope_eq : forall a b x1 y1 x2 y2 l,
    y1 * y1 = x1 * x1 * x1 + a * x1 + b -> y2 * y2 = x2 * x2 * x2 + a * x2 + b ->
    x2 - x1 <> 0 -> l * (x2 - x1) = y2 - y1 ->
    (y1 + y2) * l = x1 * x1 + x1 * x2 + x2 * x2 + a.
  Proof.
    intros a b x1 y1 x2 y2 l H1 H2 N E.
    assert (E2 : ((y1 + y2) * l) * (x2 - x1) = (x1 * x1 + x1 * x2 + x2 * x2 + a) * (x2 - x1)).
    { transitivity ((y1 + y2) * (l * (x2 - x1))); [ring|]. rewrite E.
      transitivity (y2 * y2 - y1 * y1); [ring|]. rewrite H1, H2. ring. }
    transitivity (((y1 + y2) * l * (x2 - x1)) / (x2 - x1)); [field; exact N|].
    rewrite E2. field. exact N.
  Qed.

  Lemma chord_comm : forall x1 y1 x2 y2, x2 - x1 <> 0 -> chord x1 y1 x2 y2 = chord x2 y2 x1 y1.
  Proof.
    intros x1 y1 x2 y2 N. assert (N' : x1 - x2 <> 0) by (intro E; apply N; transitivity (- (x1 - x2)); [ring | rewrite E; ring]).
    unfold chord. cbv zeta. f_equal; field; auto.
  Qed.

  (* ---- G1: four chords ---- *)
  Lemma g1 : forall a b x1 y1 x2 y2 x3 y3,
    y1 * y1 = x1 * x1 * x1 + a * x1 + b -> y2 * y2 = x2 * x2 * x2 + a * x2 + b -> y3 * y3 = x3 * x3 * x3 + a * x3 + b ->
    x2 - x1 <> 0 -> x3 - x2 <> 0 ->
    forall xs ys xu yu, chord x1 y1 x2 y2 = (xs, ys) -> chord x2 y2 x3 y3 = (xu, yu) ->
    x3 - xs <> 0 -> xu - x1 <> 0 ->
    chord xs ys x3 y3 = chord x1 y1 xu yu.
  Proof.
    intros a b x1 y1 x2 y2 x3 y3 H1 H2 H3 N12 N23 xs ys xu yu ES EU NS NU.
    unfold chord in ES, EU. cbv zeta in ES, EU.
    set (l1 := (y2 - y1) / (x2 - x1)) in *. set (l2 := (y3 - y2) / (x3 - x2)) in *.
    assert (L1 : l1 * (x2 - x1) = y2 - y1) by (unfold l1; field; exact N12).
    assert (L2 : l2 * (x3 - x2) = y3 - y2) by (unfold l2; field; exact N23).
    pose proof (slope_eq a b x1 y1 x2 y2 l1 H1 H2 N12 L1) as S1.
    pose proof (slope_eq a b x2 y2 x3 y3 l2 H2 H3 N23 L2) as S2.
    assert (Ey1 : y1 = y2 - l1 * (x2 - x1)) by (rewrite L1; ring).
    assert (Ey3 : y3 = y2 + l2 * (x3 - x2)) by (rewrite L2; ring).
    clearbody l1 l2. clear L1 L2 H1 H2 H3.
    injection ES as Exs Eys. injection EU as Exu Eyu.
    subst y1 y3.
    (* the relation left by the three curve equations *)
    assert (Rel : y2 * ((1 + 1) * (l2 - l1)) = (x3 - x1) * (x1 + x2 + x3) - l2 * l2 * (x3 - x2) + l1 * l1 * (x1 - x2)).
    { apply sub_eq0.
      transitivity (((y2 + (y2 + l2 * (x3 - x2))) * l2 - (x2 * x2 + x2 * (x3) + x3 * x3 + a))
                    - ((y2 - l1 * (x2 - x1) + y2) * l1 - (x1 * x1 + x1 * x2 + x2 * x2 + a))); [ring|].
      rewrite S1, S2. ring. }
    clear S1 S2.
    destruct (feqb F l2 l1) eqn:EL.
    - (* the three points are collinear: then R = P (R = -(P+Q) is excluded) *)
      apply Feq in EL. subst l2.
      assert (Z : (x3 - x1) * (x3 - xs) = 0).
      { subst xs. transitivity ((x3 - x1) * (x1 + x2 + x3) - l1 * l1 * (x3 - x2) + l1 * l1 * (x1 - x2)); [ring|].
        rewrite <- Rel. ring. }
      destruct (mul_eq0 _ _ Z) as [Z1|Z1]; [|contradiction].
      assert (E31 : x3 = x1) by (apply sub_eq0; exact Z1). subst x3.
      assert (E : y2 + l1 * (x1 - x2) = y2 - l1 * (x2 - x1)) by ring. rewrite E in *.
      assert (EE : (xu, yu) = (xs, ys)).
      { subst xu yu xs ys. f_equal; ring. }
      injection EE as -> ->. apply chord_comm. exact NS.
    - apply (SWProofs.eqb_false F Feq) in EL. assert (NL : l2 - l1 <> 0) by (apply sub_nz; exact EL).
      assert (N2L : (1 + 1) * (l2 - l1) <> 0) by (apply mul_nz; assumption).
      pose proof (eq_div _ _ _ N2L Rel) as Ey2. clear Rel.
      subst xs ys xu yu. unfold chord. cbv zeta. subst y2.
      f_equal; field; auto.
  Qed.
  Let dbl_nz := SWProofs.dbl_nz F Fth Feq Ftwo.

  (* ---- G2a: (P + P) + R = P + (P + R): tangent, chord | chord, chord ---- *)
  Lemma g2a : forall a b x1 y1 x3 y3,
    y1 * y1 = x1 * x1 * x1 + a * x1 + b -> y3 * y3 = x3 * x3 * x3 + a * x3 + b ->
    y1 <> 0 -> x3 - x1 <> 0 ->
    forall xs ys xu yu, tang a x1 y1 = (xs, ys) -> chord x1 y1 x3 y3 = (xu, yu) ->
    x3 - xs <> 0 -> xu - x1 <> 0 ->
    chord xs ys x3 y3 = chord x1 y1 xu yu.
  Proof.
    intros a b x1 y1 x3 y3 H1 H3 NY N13 xs ys xu yu ES EU NS NU.
    assert (NY2 : y1 + y1 <> 0) by (apply dbl_nz; exact NY).
    unfold chord, tang in ES, EU. cbv zeta in ES, EU.
    set (l1 := (x1 * x1 + x1 * x1 + x1 * x1 + a) / (y1 + y1)) in *. set (l2 := (y3 - y1) / (x3 - x1)) in *.
    assert (Ea : a = l1 * (y1 + y1) - (x1 * x1 + x1 * x1 + x1 * x1)) by (unfold l1; field; exact NY2).
    assert (L2 : l2 * (x3 - x1) = y3 - y1) by (unfold l2; field; exact N13).
    pose proof (slope_eq a b x1 y1 x3 y3 l2 H1 H3 N13 L2) as S2.
    assert (Ey3 : y3 = y1 + l2 * (x3 - x1)) by (rewrite L2; ring).
    clearbody l1 l2. clear L2 H1 H3 NY2.
    injection ES as Exs Eys. injection EU as Exu Eyu.
    subst y3. subst a.
    assert (Rel : y1 * ((1 + 1) * (l2 - l1)) = (x3 - x1) * (x3 + x1 + x1 - l2 * l2)).
    { apply sub_eq0.
      transitivity ((y1 + (y1 + l2 * (x3 - x1))) * l2
                    - (x1 * x1 + x1 * x3 + x3 * x3 + (l1 * (y1 + y1) - (x1 * x1 + x1 * x1 + x1 * x1)))); [ring|].
      rewrite S2. ring. }
    clear S2.
    destruct (feqb F l2 l1) eqn:EL.
    - exfalso. apply Feq in EL. subst l2.
      assert (Z : (x3 - x1) * (x3 - xs) = 0).
      { subst xs. transitivity ((x3 - x1) * (x3 + x1 + x1 - l1 * l1)); [ring|]. rewrite <- Rel. ring. }
      destruct (mul_eq0 _ _ Z); contradiction.
    - apply (SWProofs.eqb_false F Feq) in EL. assert (NL : l2 - l1 <> 0) by (apply sub_nz; exact EL).
      assert (N2L : (1 + 1) * (l2 - l1) <> 0) by (apply mul_nz; assumption).
      pose proof (eq_div _ _ _ N2L Rel) as Ey1. clear Rel NY.
      subst xs ys xu yu. unfold chord. cbv zeta. subst y1.
      f_equal; field; auto.
  Qed.

  (* ---- G2b: (P + Q) + (P + Q) = P + (Q + (P + Q)): chord, tangent | chord, chord ---- *)
  Lemma g2b : forall a b x1 y1 x2 y2,
    y1 * y1 = x1 * x1 * x1 + a * x1 + b -> y2 * y2 = x2 * x2 * x2 + a * x2 + b ->
    x2 - x1 <> 0 ->
    forall xs ys xu yu, chord x1 y1 x2 y2 = (xs, ys) -> ys <> 0 -> xs - x2 <> 0 ->
    chord x2 y2 xs ys = (xu, yu) -> xu - x1 <> 0 ->
    tang a xs ys = chord x1 y1 xu yu.
  Proof.
    intros a b x1 y1 x2 y2 H1 H2 N12 xs ys xu yu ES NYS NS EU NU.
    assert (NY2 : ys + ys <> 0) by (apply dbl_nz; exact NYS).
    unfold chord in ES, EU. cbv zeta in ES, EU.
    set (l1 := (y2 - y1) / (x2 - x1)) in *.
    assert (L1 : l1 * (x2 - x1) = y2 - y1) by (unfold l1; field; exact N12).
    pose proof (slope_eq a b x1 y1 x2 y2 l1 H1 H2 N12 L1) as S1.
    assert (Ey1 : y1 = y2 - l1 * (x2 - x1)) by (rewrite L1; ring).
    clearbody l1. clear L1 H1 H2 NYS.
    assert (Ea : a = (y1 + y2) * l1 - (x1 * x1 + x1 * x2 + x2 * x2)) by (rewrite S1; ring).
    clear S1.
    injection ES as Exs Eys. injection EU as Exu Eyu.
    subst a. subst y1. subst xu yu. subst xs ys. unfold chord, tang. cbv zeta.
    f_equal; field; repeat split; auto; by_quot NU NS.
  Qed.

  (* ---- G2c: (P + P) + (P + P) = P + (P + (P + P)): tangent, tangent | chord, chord (no curve equation needed) ---- *)
  Lemma g2c : forall a x1 y1, y1 <> 0 ->
    forall xs ys xu yu, tang a x1 y1 = (xs, ys) -> ys <> 0 -> xs - x1 <> 0 ->
    chord x1 y1 xs ys = (xu, yu) -> xu - x1 <> 0 ->
    tang a xs ys = chord x1 y1 xu yu.
  Proof.
    intros a x1 y1 NY xs ys xu yu ES NYS NS EU NU.
    assert (NY2 : y1 + y1 <> 0) by (apply dbl_nz; exact NY).
    assert (NYS2 : ys + ys <> 0) by (apply dbl_nz; exact NYS).
    unfold chord, tang in ES, EU. cbv zeta in ES, EU.
    set (l1 := (x1 * x1 + x1 * x1 + x1 * x1 + a) / (y1 + y1)) in *.
    assert (Ea : a = l1 * (y1 + y1) - (x1 * x1 + x1 * x1 + x1 * x1)) by (unfold l1; field; exact NY2).
    clearbody l1.
    injection ES as Exs Eys. injection EU as Exu Eyu. clear NY NYS.
    subst a. subst xu yu. subst xs ys. unfold chord, tang. cbv zeta.
    f_equal; field; repeat split; auto; by_quot NU NS.
  Qed.

  (* ---- G3: Q = (x2, 0) of order two: (P + Q) + (P + Q) = P + P ---- *)
  Lemma g3 : forall a b x1 y1 x2,
    y1 * y1 = x1 * x1 * x1 + a * x1 + b -> 0 * 0 = x2 * x2 * x2 + a * x2 + b ->
    x2 - x1 <> 0 -> y1 <> 0 ->
    forall xs ys, chord x1 y1 x2 0 = (xs, ys) -> ys <> 0 ->
    tang a xs ys = tang a x1 y1.
  Proof.
    intros a b x1 y1 x2 H1 H2 N12 NY xs ys ES NYS.
    assert (NY2 : y1 + y1 <> 0) by (apply dbl_nz; exact NY).
    assert (NYS2 : ys + ys <> 0) by (apply dbl_nz; exact NYS).
    unfold chord in ES. cbv zeta in ES.
    set (l1 := (0 - y1) / (x2 - x1)) in *.
    assert (L1 : l1 * (x2 - x1) = 0 - y1) by (unfold l1; field; exact N12).
    pose proof (slope_eq a b x1 y1 x2 0 l1 H1 H2 N12 L1) as S1.
    assert (Ey1 : y1 = - (l1 * (x2 - x1))) by (rewrite L1; ring).
    clearbody l1. clear L1 H1 H2 NY NYS.
    assert (Ea : a = (y1 + 0) * l1 - (x1 * x1 + x1 * x2 + x2 * x2)) by (rewrite S1; ring).
    clear S1.
    injection ES as Exs Eys.
    subst a. subst y1. subst xs ys. unfold tang. cbv zeta.
    f_equal; field; repeat split; auto.
  Qed.
  (* ---- small identities: negation, and (P + Q) + (-Q) = P ---- *)
  Lemma neg_nz : forall y, y <> 0 -> - y <> 0.
  Proof. intros y H E. apply H. transitivity (- - y); [ring | rewrite E; ring]. Qed.

  Lemma chord_neg : forall x1 y1 x2 y2, x2 - x1 <> 0 ->
    chord x1 (- y1) x2 (- y2) = (fst (chord x1 y1 x2 y2), - snd (chord x1 y1 x2 y2)).
  Proof. intros x1 y1 x2 y2 N. unfold chord. cbv zeta. cbn [fst snd]. f_equal; field; exact N. Qed.

  Lemma tang_neg : forall a x1 y1, y1 <> 0 ->
    tang a x1 (- y1) = (fst (tang a x1 y1), - snd (tang a x1 y1)).
  Proof.
    intros a x1 y1 N. assert (N2 : y1 + y1 <> 0) by (apply dbl_nz; exact N).
    assert (N3 : - y1 + - y1 <> 0) by (apply dbl_nz, neg_nz; exact N).
    unfold tang. cbv zeta. cbn [fst snd]. f_equal; field; auto.
  Qed.

  (* chord, then chord back *)
  Lemma k_chord : forall x1 y1 x2 y2 xs ys, x2 - x1 <> 0 -> chord x1 y1 x2 y2 = (xs, ys) -> x2 - xs <> 0 ->
    chord xs ys x2 (- y2) = (x1, y1).
  Proof.
    intros x1 y1 x2 y2 xs ys N12 ES NS. unfold chord in ES. cbv zeta in ES.
    set (l1 := (y2 - y1) / (x2 - x1)) in *.
    assert (L1 : l1 * (x2 - x1) = y2 - y1) by (unfold l1; field; exact N12).
    assert (Ey1 : y1 = y2 - l1 * (x2 - x1)) by (rewrite L1; ring).
    clearbody l1. clear L1. injection ES as Exs Eys. subst y1. subst xs ys.
    unfold chord. cbv zeta. f_equal; field; auto.
  Qed.

  (* tangent, then chord back *)
  Lemma k_tangc : forall a x1 y1 xs ys, y1 <> 0 -> tang a x1 y1 = (xs, ys) -> x1 - xs <> 0 ->
    chord xs ys x1 (- y1) = (x1, y1).
  Proof.
    intros a x1 y1 xs ys NY ES NS. unfold tang in ES. cbv zeta in ES.
    set (l1 := (x1 * x1 + x1 * x1 + x1 * x1 + a) / (y1 + y1)) in *. clearbody l1.
    injection ES as Exs Eys. subst xs ys. unfold chord. cbv zeta. f_equal; field; auto.
  Qed.

  (* the tangent at P meets the curve again at P itself (3P = O): 2P = -P *)
  Lemma tang_same_x : forall a x1 y1 ys, tang a x1 y1 = (x1, ys) -> ys = - y1.
  Proof.
    intros a x1 y1 ys ES. unfold tang in ES. cbv zeta in ES. injection ES as Exs Eys.
    rewrite Exs in Eys. rewrite <- Eys. ring.
  Qed.

  (* the chord through P and Q meets the curve again at Q: it is the tangent at Q *)
  Lemma k_tan : forall a b x1 y1 x2 y2 ys,
    y1 * y1 = x1 * x1 * x1 + a * x1 + b -> y2 * y2 = x2 * x2 * x2 + a * x2 + b ->
    x2 - x1 <> 0 -> chord x1 y1 x2 y2 = (x2, ys) ->
    ys = - y2 /\ (y2 + y2) * ((y2 - y1) / (x2 - x1)) = x2 * x2 + x2 * x2 + x2 * x2 + a /\
    (y2 <> 0 -> tang a x2 (- y2) = (x1, y1)).
  Proof.
    intros a b x1 y1 x2 y2 ys H1 H2 N12 ES. unfold chord in ES. cbv zeta in ES.
    set (l1 := (y2 - y1) / (x2 - x1)) in *.
    assert (L1 : l1 * (x2 - x1) = y2 - y1) by (unfold l1; field; exact N12).
    pose proof (slope_eq a b x1 y1 x2 y2 l1 H1 H2 N12 L1) as S1.
    assert (Ey1 : y1 = y2 - l1 * (x2 - x1)) by (rewrite L1; ring).
    clearbody l1. clear L1 H1 H2.
    assert (Ea : a = (y1 + y2) * l1 - (x1 * x1 + x1 * x2 + x2 * x2)) by (rewrite S1; ring).
    clear S1. injection ES as Exs Eys.
    assert (Ex1 : x1 = l1 * l1 - x2 - x2) by (rewrite <- Exs at 2; ring).
    clear Exs. subst a. subst y1. subst x1. repeat split.
    - rewrite <- Eys. ring.
    - ring.
    - intros NY. assert (N3 : - y2 + - y2 <> 0) by (apply dbl_nz, neg_nz; exact NY).
      unfold tang. cbv zeta. f_equal; field; auto.
  Qed.

  (* a point with y = 0 is not singular when the discriminant is non-zero *)
  Definition sw_disc (a b : T) : T :=
    (1 + 1) * (1 + 1) * (a * a * a) + (1 + 1 + 1) * ((1 + 1 + 1) * (1 + 1 + 1)) * (b * b).
  Lemma nonsing : forall a b x, sw_disc a b <> 0 -> 0 * 0 = x * x * x + a * x + b ->
    x * x + x * x + x * x + a <> 0.
  Proof.
    intros a b x HD H E. apply HD. unfold sw_disc.
    assert (Ea : a = - (x * x + x * x + x * x)) by (transitivity ((x * x + x * x + x * x + a) - (x * x + x * x + x * x)); [ring | rewrite E; ring]).
    assert (Eb : b = - (x * x * x + a * x)) by (transitivity ((x * x * x + a * x + b) - (x * x * x + a * x)); [ring | rewrite <- H; ring]).
    rewrite Eb, Ea. ring.
  Qed.
  (* [sw_disc a b] is 4 a^3 + 27 b^2 *)
  Lemma sw_disc_def : forall a b, sw_disc a b = fofZ F 4 * (a * a * a) + fofZ F 27 * (b * b).
  Proof. intros a b. unfold sw_disc. cbn [fofZ fscale_pos]. ring. Qed.
End SWIdent.
