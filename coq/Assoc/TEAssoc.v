(* Assoc/TEAssoc -- associativity of the Edwards addition law [aff_add_te] on the points of a twisted
   Edwards curve a x^2 + y^2 = 1 + d x^2 y^2 whose law is complete ([te_law_complete]), over every
   [good_field].  The law is unified: one rational identity per coordinate, modulo the three curve
   equations.  After cross-multiplication (the two outer denominators are non-zero by completeness
   applied to (P+Q, R) and (P, Q+R), which are curve points by closure) the difference of the two sides
   is (q1 h1 + q2 h2 + q3 h3) / ((1+k12)(1-k12)(1+k23)(1-k23)) with h_i the curve equations; the cofactors
   q_i (Assoc/TECert.v, generated with sympy) are only checked here, by [field]. *)
From V Require Import Base.Field C03.CurveExec C03.TEProofs C03.FieldHyp Props.C03 C12.TESubgroupProofs.
From V Require Import Assoc.TECert.
Require Import Coq.setoid_ring.Field Coq.setoid_ring.Ring.

Section TEAssoc.
  Context {T : Type} (F : Fops T) (a d : T).
  Hypothesis GF : good_field F.
  Let Fth := gf_th F GF.
  Add Field KfAssocTE : Fth.

  Local Notation "0" := (f0 F).
  Local Notation "1" := (f1 F).
  Local Infix "+" := (fadd F).
  Local Infix "-" := (fsub F).
  Local Infix "*" := (fmul F).
  Local Infix "/" := (fdiv F).
  Local Notation "- x" := (fneg F x).

  Lemma sub_eq0' : forall p q, p - q = 0 -> p = q.
  Proof. intros p q E. transitivity ((p - q) + q); [ring | rewrite E; ring]. Qed.

  Section Cross.
    Variables x1 y1 x2 y2 x3 y3 : T.
    Hypothesis H1 : a * (x1 * x1) + y1 * y1 = 1 + d * (x1 * x1 * (y1 * y1)).
    Hypothesis H2 : a * (x2 * x2) + y2 * y2 = 1 + d * (x2 * x2 * (y2 * y2)).
    Hypothesis H3 : a * (x3 * x3) + y3 * y3 = 1 + d * (x3 * x3 * (y3 * y3)).
    Let k12 := d * (x1 * x2 * (y1 * y2)).
    Let k23 := d * (x2 * x3 * (y2 * y3)).
    Hypothesis D12p : 1 + k12 <> 0.
    Hypothesis D12m : 1 - k12 <> 0.
    Hypothesis D23p : 1 + k23 <> 0.
    Hypothesis D23m : 1 - k23 <> 0.
    Let xs := (x1 * y2 + y1 * x2) / (1 + k12).
    Let ys := (y1 * y2 - a * (x1 * x2)) / (1 - k12).
    Let xu := (x2 * y3 + y2 * x3) / (1 + k23).
    Let yu := (y2 * y3 - a * (x2 * x3)) / (1 - k23).
    Let h1 := (a * (x1 * x1) + y1 * y1) - (1 + d * (x1 * x1 * (y1 * y1))).
    Let h2 := (a * (x2 * x2) + y2 * y2) - (1 + d * (x2 * x2 * (y2 * y2))).
    Let h3 := (a * (x3 * x3) + y3 * y3) - (1 + d * (x3 * x3 * (y3 * y3))).
    Let E1 : h1 = 0. Proof. unfold h1. rewrite H1. ring. Qed.
    Let E2 : h2 = 0. Proof. unfold h2. rewrite H2. ring. Qed.
    Let E3 : h3 = 0. Proof. unfold h3. rewrite H3. ring. Qed.
    Let DEN := (1 + k12) * (1 - k12) * ((1 + k23) * (1 - k23)).

    Lemma te_cross_x :
      (x1 * yu + y1 * xu) * (1 + d * (xs * x3 * (ys * y3))) = (xs * y3 + ys * x3) * (1 + d * (x1 * xu * (y1 * yu))).
    Proof.
      apply sub_eq0'.
      transitivity ((te_qx1 F a d x1 y1 x2 y2 x3 y3 * h1 + te_qx2 F a d x1 y1 x2 y2 x3 y3 * h2
                     + te_qx3 F a d x1 y1 x2 y2 x3 y3 * h3) / DEN).
      - unfold te_qx1, te_qx2, te_qx3, h1, h2, h3, DEN, xs, ys, xu, yu, k12, k23 in *. field. repeat split; assumption.
      - rewrite E1, E2, E3. unfold DEN, k12, k23 in *. field. repeat split; assumption.
    Qed.

    Lemma te_cross_y :
      (y1 * yu - a * (x1 * xu)) * (1 - d * (xs * x3 * (ys * y3))) = (ys * y3 - a * (xs * x3)) * (1 - d * (x1 * xu * (y1 * yu))).
    Proof.
      apply sub_eq0'.
      transitivity ((te_qy1 F a d x1 y1 x2 y2 x3 y3 * h1 + te_qy2 F a d x1 y1 x2 y2 x3 y3 * h2
                     + te_qy3 F a d x1 y1 x2 y2 x3 y3 * h3) / DEN).
      - unfold te_qy1, te_qy2, te_qy3, h1, h2, h3, DEN, xs, ys, xu, yu, k12, k23 in *. field. repeat split; assumption.
      - rewrite E1, E2, E3. unfold DEN, k12, k23 in *. field. repeat split; assumption.
    Qed.
  End Cross.

  Hypothesis Hcomplete : te_law_complete F a d.

  (* the Edwards law of a complete curve is associative on the curve points *)
  Theorem te_assoc_complete : te_law_assoc F a d.
  Proof.
    intros [x1 y1] [x2 y2] [x3 y3] H1 H2 H3.
    pose proof (Hcomplete _ _ H1 H2) as D12. pose proof (Hcomplete _ _ H2 H3) as D23.
    pose proof (gadd_in F a d GF Hcomplete _ _ H1 H2) as HS.
    pose proof (gadd_in F a d GF Hcomplete _ _ H2 H3) as HU.
    pose proof (Hcomplete _ _ HS H3) as DL. pose proof (Hcomplete _ _ H1 HU) as DR.
    clear HS HU.
    cbv beta iota zeta delta [aff_add_te te_dens_ok te_aff_on] in *.
    destruct D12 as [D12p D12m], D23 as [D23p D23m], DL as [DLp DLm], DR as [DRp DRm].
    f_equal; apply (div_eq_cross F Fth); try assumption.
    - exact (te_cross_x x1 y1 x2 y2 x3 y3 H1 H2 H3 D12p D12m D23p D23m).
    - exact (te_cross_y x1 y1 x2 y2 x3 y3 H1 H2 H3 D12p D12m D23p D23m).
  Qed.
End TEAssoc.
