(* Base/ExtField -- the tower dictionaries of Base/Field.v are fields:
   [QuadOps B nr]  = B[X]/(X^2 - nr) is a field when B is a field and nr is not a square;
   [CubicOps B nr] = B[X]/(X^3 - nr) is a field when B is a field and nr is not a cube.
   "B is a field" = [field_theory] of the dictionary's operations over Leibniz equality plus
   a correct [feqb] (used to decide x = 0).  Carriers are plain pairs / triples, so
   equality is Leibniz again and the construction iterates (Fp2, Fp6 = Fp2[v]/(v^3 - xi),
   Fp12 = Fp6[w]/(w^2 - v), ...).  Depends on Base/Field.v only. *)
From V Require Import Base.Field.
Require Import Coq.setoid_ring.Field Coq.setoid_ring.Ring.

Section Ext.
  Context {T : Type} (B : Fops T) (nr : T).
  Hypothesis Bth : field_theory (f0 B) (f1 B) (fadd B) (fmul B) (fsub B) (fneg B) (fdiv B) (finv B) eq.
  Hypothesis Beqb : forall x y, feqb B x y = true <-> x = y.
  Add Field BField : Bth.

  Local Notation "0" := (f0 B).
  Local Notation "1" := (f1 B).
  Local Infix "+" := (fadd B).
  Local Infix "-" := (fsub B).
  Local Infix "*" := (fmul B).
  Local Infix "/" := (fdiv B).
  Local Notation "- x" := (fneg B x).

  Lemma b_dec : forall x y : T, x = y \/ x <> y.
  Proof.
    intros x y. destruct (feqb B x y) eqn:E.
    - left. apply Beqb. exact E.
    - right. intros H. apply Beqb in H. congruence.
  Qed.
  Lemma b_mul_eq0 : forall x y, x * y = 0 -> x = 0 \/ y = 0.
  Proof.
    intros x y H. destruct (b_dec x 0) as [E|E]; [left; exact E|]. right.
    assert (Hy : y = (x * y) / x) by (field; exact E).
    rewrite Hy, H. field. exact E.
  Qed.
  Lemma b_sq_eq0 : forall x, x * x = 0 -> x = 0.
  Proof. intros x H. destruct (b_mul_eq0 _ _ H); assumption. Qed.
  Lemma b_cube_eq0 : forall x, x * x * x = 0 -> x = 0.
  Proof. intros x H. destruct (b_mul_eq0 _ _ H) as [H1|H1]; [apply b_sq_eq0|]; assumption. Qed.
  Lemma b_sub_eq0 : forall x y, x - y = 0 -> x = y.
  Proof. intros x y H. transitivity ((x - y) + y); [ring | rewrite H; ring]. Qed.

  (* ---------------- quadratic ---------------- *)
  Section QuadField.
    Hypothesis nr_nonsquare : forall w, w * w <> nr.
    Local Notation Q := (QuadOps B nr).

    Theorem QuadOps_ring :
      ring_theory (f0 Q) (f1 Q) (fadd Q) (fmul Q) (fsub Q) (fneg Q) eq.
    Proof.
      constructor; cbn [QuadOps f0 f1 fadd fmul fsub fneg]; unfold qadd, qmul, qsub, qneg;
        intros; repeat match goal with x : (T * T)%type |- _ => destruct x end;
        cbn [fst snd]; f_equal; ring.
    Qed.

    Lemma qnorm_nz : forall a : T * T, a <> f0 Q -> qnorm B nr a <> 0.
    Proof.
      intros [a0 a1] Ha. unfold qnorm. cbn [fst snd]. intros H. apply b_sub_eq0 in H.
      destruct (b_dec a1 0) as [E1|E1].
      - subst a1. apply Ha. cbn. f_equal. apply b_sq_eq0. rewrite H. ring.
      - apply (nr_nonsquare (a0 / a1)).
        transitivity ((a0 * a0) / (a1 * a1)); [field; exact E1|].
        rewrite H. field. exact E1.
    Qed.

    Theorem QuadOps_field :
      field_theory (f0 Q) (f1 Q) (fadd Q) (fmul Q) (fsub Q) (fneg Q) (fdiv Q) (finv Q) eq.
    Proof.
      constructor.
      - exact QuadOps_ring.
      - intros H. apply (f_equal fst) in H. exact (F_1_neq_0 Bth H).
      - reflexivity.
      - intros a Ha. pose proof (qnorm_nz a Ha) as Hn. destruct a as [a0 a1].
        cbn [QuadOps f1 fmul finv]. unfold qmul, qinv, qnorm in *. cbn [fst snd] in *.
        f_equal; field; exact Hn.
    Qed.

    Theorem QuadOps_eqb : forall x y, feqb Q x y = true <-> x = y.
    Proof.
      intros [x0 x1] [y0 y1]. cbn [QuadOps feqb]. unfold qeqb. cbn [fst snd].
      rewrite Bool.andb_true_iff, !Beqb. split.
      - intros [-> ->]. reflexivity.
      - intros H. injection H as -> ->. split; reflexivity.
    Qed.

    Theorem QuadOps_two : 1 + 1 <> 0 -> fadd Q (f1 Q) (f1 Q) <> f0 Q.
    Proof. intros H E. apply (f_equal fst) in E. exact (H E). Qed.
  End QuadField.

  (* ---------------- cubic ---------------- *)
  Section CubicField.
    Hypothesis nr_noncube : forall w, w * w * w <> nr.
    Local Notation C := (CubicOps B nr).

    Lemma triple_eq : forall (a b c a' b' c' : T), a = a' -> b = b' -> c = c' -> (a, b, c) = (a', b', c').
    Proof. intros; subst; reflexivity. Qed.

    Theorem CubicOps_ring :
      ring_theory (f0 C) (f1 C) (fadd C) (fmul C) (fsub C) (fneg C) eq.
    Proof.
      constructor; cbn [CubicOps f0 f1 fadd fmul fsub fneg]; unfold cadd, cmul, csub, cneg, c0, c1, c2;
        intros; repeat match goal with x : (T * T * T)%type |- _ => destruct x as [[? ?] ?] end;
        cbn [fst snd]; apply triple_eq; ring.
    Qed.

    (* the norm  a0^3 + nr a1^3 + nr^2 a2^3 - 3 nr a0 a1 a2  in the shape [cinv] computes it *)
    Definition cnorm (a : T * T * T) : T :=
      let t0 := c0 a * c0 a - nr * (c1 a * c2 a) in
      let t1 := nr * (c2 a * c2 a) - c0 a * c1 a in
      let t2 := c1 a * c1 a - c0 a * c2 a in
      c0 a * t0 + nr * (c2 a * t1 + c1 a * t2).

    Lemma cube_ratio : forall x y, y <> 0 -> x * x * x = nr * (y * y * y) -> False.
    Proof.
      intros x y Hy H. apply (nr_noncube (x / y)).
      transitivity ((x * x * x) / (y * y * y)); [field; exact Hy|].
      rewrite H. field. exact Hy.
    Qed.

    Lemma cnorm_nz : forall a : T * T * T, a <> f0 C -> cnorm a <> 0.
    Proof.
      intros [[a0 a1] a2] Ha. unfold cnorm, c0, c1, c2. cbn [fst snd]. intros H.
      destruct (b_dec a2 0) as [E2|E2].
      - subst a2. destruct (b_dec a1 0) as [E1|E1].
        + subst a1. apply Ha. cbn. apply triple_eq; try reflexivity. apply b_cube_eq0. rewrite <- H. ring.
        + apply (cube_ratio (- a0) a1 E1). apply b_sub_eq0.
          transitivity (- 0); [rewrite <- H; ring | ring].
      - (* multiply by a2 X - a1: the product has no X^2 term *)
        set (t1 := nr * (a2 * a2) - a0 * a1). set (t2 := a1 * a1 - a0 * a2).
        assert (Hid : t1 * t1 * t1 - nr * (t2 * t2 * t2) =
                      (a0 * (a0 * a0 - nr * (a1 * a2)) + nr * (a2 * t1 + a1 * t2)) *
                      (nr * (a2 * a2 * a2) - a1 * a1 * a1)) by (unfold t1, t2; ring).
        fold t1 t2 in H. rewrite H in Hid.
        assert (Hc : t1 * t1 * t1 = nr * (t2 * t2 * t2)) by (apply b_sub_eq0; rewrite Hid; ring).
        destruct (b_dec t2 0) as [Z2|Z2].
        + assert (Z1 : t1 = 0) by (apply b_cube_eq0; rewrite Hc, Z2; ring).
          apply (cube_ratio a1 a2 E2).
          unfold t1 in Z1. unfold t2 in Z2. apply b_sub_eq0 in Z1. apply b_sub_eq0 in Z2.
          transitivity (a1 * (a1 * a1)); [ring|]. rewrite Z2.
          transitivity ((a0 * a1) * a2); [ring|]. rewrite <- Z1. ring.
        + exact (cube_ratio t1 t2 Z2 Hc).
    Qed.

    Theorem CubicOps_field :
      field_theory (f0 C) (f1 C) (fadd C) (fmul C) (fsub C) (fneg C) (fdiv C) (finv C) eq.
    Proof.
      constructor.
      - exact CubicOps_ring.
      - intros H. apply (f_equal (fun t : T * T * T => fst (fst t))) in H. exact (F_1_neq_0 Bth H).
      - reflexivity.
      - intros a Ha. pose proof (cnorm_nz a Ha) as Hn. destruct a as [[a0 a1] a2].
        cbn [CubicOps f1 fmul finv]. unfold cmul, cinv, cnorm, c0, c1, c2 in *. cbn [fst snd] in *.
        apply triple_eq; field; exact Hn.
    Qed.

    Theorem CubicOps_eqb : forall x y, feqb C x y = true <-> x = y.
    Proof.
      intros [[x0 x1] x2] [[y0 y1] y2]. cbn [CubicOps feqb]. unfold ceqb, c0, c1, c2. cbn [fst snd].
      rewrite !Bool.andb_true_iff, !Beqb. split.
      - intros [[-> ->] ->]. reflexivity.
      - intros H. injection H as -> -> ->. repeat split; reflexivity.
    Qed.

    Theorem CubicOps_two : 1 + 1 <> 0 -> fadd C (f1 C) (f1 C) <> f0 C.
    Proof.
      intros H E. apply (f_equal (fun t : T * T * T => fst (fst t))) in E. exact (H E).
    Qed.
  End CubicField.
End Ext.
