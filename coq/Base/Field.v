(* Executable field dictionaries (reference / specification-level arithmetic).
   Zp p : integers modulo p (canonical residues in [0,p)); QuadOps / CubicOps : the
   schoolbook quotient rings B[X]/(X^2 - nr), B[X]/(X^3 - nr).  The *algorithmic* models
   of the Rust code (Montgomery limbs, Karatsuba, Chung-Hasan, ...) live in the property
   directories and are proved equal to these.  No proofs in this file: it must always
   compile so that models run even when a proof elsewhere breaks. *)
Require Export ZArith List Bool.
Export ListNotations.
Open Scope Z_scope.

Record Fops (T : Type) := mkFops {
  f0 : T; f1 : T;
  fadd : T -> T -> T; fsub : T -> T -> T; fmul : T -> T -> T; fneg : T -> T;
  finv : T -> T;                 (* total: 0 |-> 0 *)
  feqb : T -> T -> bool;
  fcoords : T -> list Z;         (* base-prime-field coordinates, canonical residues *)
  fof : list Z -> T;             (* from (at least fdeg) coordinates; reduces mod p *)
  fdeg : nat;                    (* degree over the prime field *)
  fchar : Z                      (* characteristic p *)
}.
Arguments f0 {T}. Arguments f1 {T}. Arguments fadd {T}. Arguments fsub {T}.
Arguments fmul {T}. Arguments fneg {T}. Arguments finv {T}. Arguments feqb {T}.
Arguments fcoords {T}. Arguments fof {T}. Arguments fdeg {T}. Arguments fchar {T}.

Section Generic.
  Context {T : Type} (F : Fops T).
  Definition fdiv (a b : T) : T := fmul F a (finv F b).
  Definition fsqr (a : T) : T := fmul F a a.
  Definition fdbl (a : T) : T := fadd F a a.
  Definition fis0 (a : T) : bool := feqb F a (f0 F).

  Fixpoint fpow_pos (a : T) (e : positive) : T :=
    match e with
    | xH => a
    | xO e' => let h := fpow_pos a e' in fmul F h h
    | xI e' => let h := fpow_pos a e' in fmul F (fmul F h h) a
    end.
  Definition fpow (a : T) (e : Z) : T :=
    match e with Z0 => f1 F | Zpos e' => fpow_pos a e' | Zneg e' => fpow_pos (finv F a) e' end.

  (* n * a for an integer n, by double-and-add *)
  Fixpoint fscale_pos (n : positive) (a : T) : T :=
    match n with
    | xH => a
    | xO n' => let h := fscale_pos n' a in fadd F h h
    | xI n' => let h := fscale_pos n' a in fadd F (fadd F h h) a
    end.
  Definition fofZ (n : Z) : T :=
    match n with Z0 => f0 F | Zpos n' => fscale_pos n' (f1 F) | Zneg n' => fneg F (fscale_pos n' (f1 F)) end.
End Generic.

(* ---------- Z_p ---------- *)

(* extended Euclid with fuel: returns x with a*x = gcd (mod m) when fuel suffices *)
Fixpoint egcd (fuel : nat) (r0 r1 s0 s1 : Z) : Z * Z :=
  match fuel with
  | O => (r0, s0)
  | S f => if r1 =? 0 then (r0, s0)
           else let q := r0 / r1 in egcd f r1 (r0 - q * r1) s1 (s0 - q * s1)
  end.

Definition inv_mod (a p : Z) : Z :=
  let a' := a mod p in
  if a' =? 0 then 0
  else let '(g, s) := egcd (2 * Z.to_nat (Z.log2 p) + 4) a' p 1 0 in s mod p.

Fixpoint pow_mod_pos (a : Z) (e : positive) (p : Z) : Z :=
  match e with
  | xH => a mod p
  | xO e' => let h := pow_mod_pos a e' p in (h * h) mod p
  | xI e' => let h := pow_mod_pos a e' p in ((h * h) mod p * a) mod p
  end.
Definition pow_mod (a e p : Z) : Z :=
  match e with Z0 => 1 mod p | Zpos e' => pow_mod_pos a e' p | Zneg _ => 0 end.

Definition ZpOps (p : Z) : Fops Z :=
  {| f0 := 0; f1 := 1 mod p;
     fadd := fun a b => (a + b) mod p; fsub := fun a b => (a - b) mod p;
     fmul := fun a b => (a * b) mod p; fneg := fun a => (- a) mod p;
     finv := fun a => inv_mod a p;
     feqb := Z.eqb;
     fcoords := fun a => [a];
     fof := fun l => (hd 0 l) mod p;
     fdeg := 1%nat; fchar := p |}.

(* ---------- quadratic extension B[X]/(X^2 - nr) ---------- *)

Section Quad.
  Context {T : Type} (B : Fops T) (nr : T).
  Local Notation "a + b" := (fadd B a b). Local Notation "a - b" := (fsub B a b).
  Local Notation "a * b" := (fmul B a b).
  Definition qadd (a b : T * T) := (fst a + fst b, snd a + snd b).
  Definition qsub (a b : T * T) := (fst a - fst b, snd a - snd b).
  Definition qneg (a : T * T) := (fneg B (fst a), fneg B (snd a)).
  Definition qmul (a b : T * T) :=
    (fst a * fst b + nr * (snd a * snd b), fst a * snd b + snd a * fst b).
  Definition qnorm (a : T * T) : T := fst a * fst a - nr * (snd a * snd a).
  Definition qinv (a : T * T) :=
    let n := finv B (qnorm a) in (fst a * n, fneg B (snd a) * n).
  Definition qeqb (a b : T * T) := feqb B (fst a) (fst b) && feqb B (snd a) (snd b).
  Definition QuadOps : Fops (T * T) :=
    {| f0 := (f0 B, f0 B); f1 := (f1 B, f0 B);
       fadd := qadd; fsub := qsub; fmul := qmul; fneg := qneg; finv := qinv; feqb := qeqb;
       fcoords := fun a => fcoords B (fst a) ++ fcoords B (snd a);
       fof := fun l => (fof B l, fof B (skipn (fdeg B) l));
       fdeg := (2 * fdeg B)%nat; fchar := fchar B |}.
End Quad.

(* ---------- cubic extension B[X]/(X^3 - nr) ---------- *)

Section Cubic.
  Context {T : Type} (B : Fops T) (nr : T).
  Local Notation "a + b" := (fadd B a b). Local Notation "a - b" := (fsub B a b).
  Local Notation "a * b" := (fmul B a b).
  Definition c0 (a : T * T * T) := fst (fst a).
  Definition c1 (a : T * T * T) := snd (fst a).
  Definition c2 (a : T * T * T) := snd a.
  Definition cadd (a b : T * T * T) := (c0 a + c0 b, c1 a + c1 b, c2 a + c2 b).
  Definition csub (a b : T * T * T) := (c0 a - c0 b, c1 a - c1 b, c2 a - c2 b).
  Definition cneg (a : T * T * T) := (fneg B (c0 a), fneg B (c1 a), fneg B (c2 a)).
  Definition cmul (a b : T * T * T) :=
    (c0 a * c0 b + nr * (c1 a * c2 b + c2 a * c1 b),
     c0 a * c1 b + c1 a * c0 b + nr * (c2 a * c2 b),
     c0 a * c2 b + c1 a * c1 b + c2 a * c0 b).
  Definition cinv (a : T * T * T) :=
    let t0 := c0 a * c0 a - nr * (c1 a * c2 a) in
    let t1 := nr * (c2 a * c2 a) - c0 a * c1 a in
    let t2 := c1 a * c1 a - c0 a * c2 a in
    let n := finv B (c0 a * t0 + nr * (c2 a * t1 + c1 a * t2)) in
    (t0 * n, t1 * n, t2 * n).
  Definition ceqb (a b : T * T * T) :=
    feqb B (c0 a) (c0 b) && feqb B (c1 a) (c1 b) && feqb B (c2 a) (c2 b).
  Definition CubicOps : Fops (T * T * T) :=
    {| f0 := (f0 B, f0 B, f0 B); f1 := (f1 B, f0 B, f0 B);
       fadd := cadd; fsub := csub; fmul := cmul; fneg := cneg; finv := cinv; feqb := ceqb;
       fcoords := fun a => fcoords B (c0 a) ++ fcoords B (c1 a) ++ fcoords B (c2 a);
       fof := fun l => (fof B l, fof B (skipn (fdeg B) l), fof B (skipn (2 * fdeg B) l));
       fdeg := (3 * fdeg B)%nat; fchar := fchar B |}.
End Cubic.

(* Frobenius at specification level: x |-> x^(p^k) *)
Definition ffrob {T} (F : Fops T) (k : nat) (x : T) : T := fpow F x (fchar F ^ Z.of_nat k).
