(* Machine words and limb vectors: the conventions shared by every limb-level model. *)
Require Export ZArith List Lia Bool.
Export ListNotations.
Open Scope Z_scope.

Definition W64 : Z := 18446744073709551616.       (* 2^64 *)
Definition W128 : Z := 340282366920938463463374607431768211456.  (* 2^128 *)
Lemma W64_eq : 2^64 = W64. Proof. reflexivity. Qed.
Lemma W128_eq : 2^128 = W128. Proof. reflexivity. Qed.
Lemma W128_sq : W128 = W64 * W64. Proof. reflexivity. Qed.
Lemma W64_pos : 0 < W64. Proof. reflexivity. Qed.

Definition u64 (x : Z) : Prop := 0 <= x < W64.

(* little-endian value of a limb list *)
Fixpoint val (l : list Z) : Z :=
  match l with [] => 0 | x :: r => x + W64 * val r end.

Definition wf (l : list Z) : Prop := Forall u64 l.

(* 2^(64 * length) *)
Definition Wn (n : nat) : Z := W64 ^ Z.of_nat n.

Lemma Wn_0 : Wn 0 = 1. Proof. reflexivity. Qed.
Lemma Wn_S n : Wn (S n) = W64 * Wn n.
Proof. unfold Wn. rewrite Nat2Z.inj_succ, Z.pow_succ_r by lia. reflexivity. Qed.
Lemma Wn_pos n : 0 < Wn n.
Proof. unfold Wn. apply Z.pow_pos_nonneg; [reflexivity | lia]. Qed.
Lemma Wn_add n m : Wn (n + m) = Wn n * Wn m.
Proof. unfold Wn. rewrite Nat2Z.inj_add, Z.pow_add_r by lia. reflexivity. Qed.

Lemma wf_nil : wf []. Proof. constructor. Qed.
Lemma wf_cons x l : wf (x :: l) <-> u64 x /\ wf l.
Proof. split; intro H; [inversion H; auto | constructor; tauto]. Qed.
Lemma wf_app a b : wf (a ++ b) <-> wf a /\ wf b.
Proof. unfold wf. apply Forall_app. Qed.

Lemma val_bound l : wf l -> 0 <= val l < Wn (length l).
Proof.
  induction l as [|x l IH]; intros H; cbn [val length].
  - rewrite Wn_0. lia.
  - apply wf_cons in H as [Hx Hl]. specialize (IH Hl). rewrite Wn_S.
    unfold u64 in Hx. pose proof W64_pos. nia.
Qed.

Lemma val_app a b : val (a ++ b) = val a + Wn (length a) * val b.
Proof.
  induction a as [|x a IH]; cbn [val app length].
  - rewrite Wn_0. lia.
  - rewrite IH, Wn_S. ring.
Qed.

Lemma val_inj a b : wf a -> wf b -> length a = length b -> val a = val b -> a = b.
Proof.
  revert b; induction a as [|x a IH]; intros [|y b] Ha Hb Hl Hv; try discriminate; auto.
  apply wf_cons in Ha as [Hx Ha]. apply wf_cons in Hb as [Hy Hb].
  cbn [val] in Hv. injection Hl as Hl. unfold u64 in *.
  unfold W64 in *. assert (x = y) by lia. subst y.
  f_equal. apply IH; auto. lia.
Qed.

Lemma val_repeat0 n : val (repeat 0 n) = 0.
Proof. induction n; cbn [repeat val]; lia. Qed.
Lemma wf_repeat0 n : wf (repeat 0 n).
Proof. induction n; cbn [repeat]; constructor; auto. unfold u64, W64; lia. Qed.

Lemma mod_u64 x : u64 (x mod W64).
Proof. unfold u64. apply Z.mod_pos_bound. reflexivity. Qed.
