(* Base/ZpField -- the executable dictionary [ZpOps p] (Base/Field.v) is a field on
   canonical residues when p is prime.
   1. [canon p z := 0 <= z < p]; every operation of [ZpOps p] returns a canonical value.
   2. [inv_mod] (extended Euclid with fuel 2*log2 p + 4) is correct: loop invariant
      r_i = s_i * a (mod p), the fuel suffices (two steps at least halve the remainder),
      hence for prime p and a mod p <> 0: (a * inv_mod a p) mod p = 1.
   3. [Fp p] : the subset type of canonical residues (boolean invariant, so equality of
      elements is Leibniz by UIP on bool -- Eqdep_dec, no axiom), [FpOps p : Fops (Fp p)]
      whose operations are those of [ZpOps p] on the underlying integers ([fpv_*]
      equations, all by reflexivity), and [FpOps_field]: for prime p it satisfies
      [field_theory] over Leibniz equality; [feqb] decides equality; 1 + 1 <> 0 for p > 2.
   This file depends on Base/Field.v only.  Instances of the package-level premises
   (good_field, is_field, ...) are in Base/ZpInstances.v, the transfer in Base/ZpTransfer.v. *)
From V Require Import Base.Field.
Require Import Znumtheory Lia Eqdep_dec.
Require Import Coq.setoid_ring.Ring_theory Coq.setoid_ring.Field_theory.

(* ------------------------------------------------------------------ *)
(* 1. canonical residues, closure                                      *)
(* ------------------------------------------------------------------ *)

Definition canon (p z : Z) : Prop := 0 <= z < p.

Lemma canon_mod : forall p z, 0 < p -> canon p (z mod p).
Proof. intros p z Hp. apply Z.mod_pos_bound. exact Hp. Qed.

Lemma canon_small : forall p z, canon p z -> z mod p = z.
Proof. intros p z H. apply Z.mod_small. exact H. Qed.

Lemma inv_mod_canon : forall p a, 0 < p -> canon p (inv_mod a p).
Proof.
  intros p a Hp. unfold inv_mod.
  destruct (a mod p =? 0). { split; lia. }
  destruct (egcd _ _ _ _ _) as [g s]. apply canon_mod. exact Hp.
Qed.

Lemma canon_f0 : forall p, 0 < p -> canon p (f0 (ZpOps p)).
Proof. intros p Hp. cbn. split; lia. Qed.
Lemma canon_f1 : forall p, 0 < p -> canon p (f1 (ZpOps p)).
Proof. intros p Hp. apply canon_mod. exact Hp. Qed.
Lemma canon_fadd : forall p x y, 0 < p -> canon p (fadd (ZpOps p) x y).
Proof. intros p x y Hp. apply canon_mod. exact Hp. Qed.
Lemma canon_fsub : forall p x y, 0 < p -> canon p (fsub (ZpOps p) x y).
Proof. intros p x y Hp. apply canon_mod. exact Hp. Qed.
Lemma canon_fmul : forall p x y, 0 < p -> canon p (fmul (ZpOps p) x y).
Proof. intros p x y Hp. apply canon_mod. exact Hp. Qed.
Lemma canon_fneg : forall p x, 0 < p -> canon p (fneg (ZpOps p) x).
Proof. intros p x Hp. apply canon_mod. exact Hp. Qed.
Lemma canon_finv : forall p x, 0 < p -> canon p (finv (ZpOps p) x).
Proof. intros p x Hp. apply inv_mod_canon. exact Hp. Qed.
Lemma canon_fof : forall p l, 0 < p -> canon p (fof (ZpOps p) l).
Proof. intros p l Hp. apply canon_mod. exact Hp. Qed.
Lemma canon_fdiv : forall p x y, 0 < p -> canon p (fdiv (ZpOps p) x y).
Proof. intros p x y Hp. apply canon_mod. exact Hp. Qed.
Lemma canon_fcoords : forall p x, canon p x -> Forall (canon p) (fcoords (ZpOps p) x).
Proof. intros p x H. constructor; [exact H | constructor]. Qed.

(* ------------------------------------------------------------------ *)
(* 2. extended Euclid                                                  *)
(* ------------------------------------------------------------------ *)

Lemma egcd_zero : forall f r0 s0 s1, egcd (S f) r0 0 s0 s1 = (r0, s0).
Proof. reflexivity. Qed.

Lemma egcd_step : forall f r0 r1 s0 s1, r1 <> 0 ->
  egcd (S f) r0 r1 s0 s1 = egcd f r1 (r0 mod r1) s1 (s0 - r0 / r1 * s1).
Proof.
  intros f r0 r1 s0 s1 H. cbn [egcd].
  destruct (Z.eqb_spec r1 0) as [E|_]; [contradiction|].
  f_equal. rewrite Z.mod_eq by exact H. ring.
Qed.

Section Egcd.
  Variables a p : Z.

  (* the loop invariant: r = s * a (mod p) *)
  Definition einv (r s : Z) : Prop := (p | r - s * a).

  Lemma einv_step : forall r0 r1 s0 s1, r1 <> 0 -> einv r0 s0 -> einv r1 s1 ->
    einv (r0 mod r1) (s0 - r0 / r1 * s1).
  Proof.
    intros r0 r1 s0 s1 Hr [u Hu] [v Hv]. exists (u - r0 / r1 * v).
    rewrite Z.mod_eq by exact Hr.
    replace (r0 - r1 * (r0 / r1) - (s0 - r0 / r1 * s1) * a)
      with ((r0 - s0 * a) - r0 / r1 * (r1 - s1 * a)) by ring.
    rewrite Hu, Hv. ring.
  Qed.

  (* two steps at least halve the remainder: if 0 < r2 < r1 then 2 * (r1 mod r2) < r1 *)
  Lemma mod_halves : forall r1 r2, 0 < r2 < r1 -> 2 * (r1 mod r2) < r1.
  Proof.
    intros r1 r2 H.
    assert (Hb : 0 <= r1 mod r2 < r2) by (apply Z.mod_pos_bound; lia).
    assert (Hq : 1 <= r1 / r2) by (apply Z.div_le_lower_bound; lia).
    pose proof (Z.div_mod r1 r2 ltac:(lia)) as Hd. nia.
  Qed.

  (* invariant + termination: with remainder r1 < 2^k, 2k+1 units of fuel reach r = 0;
     the result is (gcd, s) with gcd = s * a (mod p) *)
  Lemma egcd_spec : forall k fuel r0 r1 s0 s1,
    0 <= r1 < r0 -> r1 < 2 ^ Z.of_nat k -> (2 * k + 1 <= fuel)%nat ->
    einv r0 s0 -> einv r1 s1 ->
    fst (egcd fuel r0 r1 s0 s1) = Z.gcd r0 r1 /\
    einv (fst (egcd fuel r0 r1 s0 s1)) (snd (egcd fuel r0 r1 s0 s1)).
  Proof.
    assert (Base : forall f r0 s0 s1, 0 <= r0 -> einv r0 s0 ->
              fst (egcd (S f) r0 0 s0 s1) = Z.gcd r0 0 /\
              einv (fst (egcd (S f) r0 0 s0 s1)) (snd (egcd (S f) r0 0 s0 s1))).
    { intros f r0 s0 s1 H0 Hi. rewrite egcd_zero. cbn [fst snd].
      rewrite Z.gcd_0_r, Z.abs_eq by exact H0. split; [reflexivity | exact Hi]. }
    induction k as [|k IH]; intros fuel r0 r1 s0 s1 Hr Hk Hf Hi0 Hi1.
    - assert (r1 = 0) by (cbn in Hk; lia). subst r1.
      destruct fuel as [|f]; [lia|]. apply Base; [lia | exact Hi0].
    - destruct (Z.eq_dec r1 0) as [E1|N1].
      { subst r1. destruct fuel as [|f]; [lia|]. apply Base; [lia | exact Hi0]. }
      destruct fuel as [|f1]; [lia|].
      rewrite egcd_step by exact N1.
      assert (Hb2 : 0 <= r0 mod r1 < r1) by (apply Z.mod_pos_bound; lia).
      assert (Hg : Z.gcd r0 r1 = Z.gcd r1 (r0 mod r1)).
      { rewrite (Z.gcd_comm r1 (r0 mod r1)). rewrite Z.gcd_mod by exact N1. apply Z.gcd_comm. }
      rewrite Hg.
      pose proof (einv_step r0 r1 s0 s1 N1 Hi0 Hi1) as Hi2.
      set (r2 := r0 mod r1) in *. set (s2 := s0 - r0 / r1 * s1) in *.
      destruct (Z.eq_dec r2 0) as [E2|N2].
      { rewrite E2. destruct f1 as [|f2]; [lia|]. apply Base; [lia | exact Hi1]. }
      destruct f1 as [|f2]; [lia|].
      rewrite egcd_step by exact N2.
      assert (Hb3 : 0 <= r1 mod r2 < r2) by (apply Z.mod_pos_bound; lia).
      assert (Hg2 : Z.gcd r1 r2 = Z.gcd r2 (r1 mod r2)).
      { rewrite (Z.gcd_comm r2 (r1 mod r2)). rewrite Z.gcd_mod by exact N2. apply Z.gcd_comm. }
      rewrite Hg2.
      apply IH.
      + exact Hb3.
      + pose proof (mod_halves r1 r2 ltac:(lia)) as Hh.
        rewrite Nat2Z.inj_succ, Z.pow_succ_r in Hk by lia. lia.
      + lia.
      + exact Hi2.
      + apply einv_step; assumption.
  Qed.
End Egcd.

(* the fuel of [inv_mod] suffices, and the coefficient returned is an inverse *)
Theorem inv_mod_spec : forall p a, prime p -> a mod p <> 0 ->
  (a * inv_mod a p) mod p = 1 /\ canon p (inv_mod a p).
Proof.
  intros p a Hp Ha.
  assert (Hp1 : 1 < p) by (destruct Hp; assumption).
  split; [| apply inv_mod_canon; lia].
  unfold inv_mod.
  destruct (Z.eqb_spec (a mod p) 0) as [E|_]; [contradiction|].
  set (a' := a mod p) in *.
  assert (Ha' : 0 < a' < p) by (pose proof (Z.mod_pos_bound a p ltac:(lia)); unfold a' in *; lia).
  set (L := Z.to_nat (Z.log2 p)).
  replace (2 * L + 4)%nat with (S (2 * L + 3)) by lia.
  rewrite egcd_step by lia.
  rewrite (Z.mod_small a' p) by lia.
  assert (HL : a' < 2 ^ Z.of_nat (L + 1)).
  { pose proof (Z.log2_spec p ltac:(lia)) as [_ Hs]. pose proof (Z.log2_nonneg p).
    unfold L. rewrite Nat2Z.inj_add, Z2Nat.id by assumption.
    change (Z.of_nat 1) with 1. unfold Z.succ in Hs. lia. }
  destruct (egcd_spec a' p (L + 1) (2 * L + 3) p a' 0 (1 - a' / p * 0)) as [Hg Hi].
  - lia.
  - exact HL.
  - lia.
  - exists 1. ring.
  - exists 0. ring.
  - destruct (egcd (2 * L + 3) p a' 0 (1 - a' / p * 0)) as [g s]. cbn [fst snd] in Hg, Hi.
    assert (Hg1 : g = 1).
    { rewrite Hg. apply Zgcd_1_rel_prime. apply prime_rel_prime; [exact Hp|].
      intros Hd. apply Z.mod_divide in Hd; [| lia]. rewrite Z.mod_small in Hd by lia. lia. }
    subst g. destruct Hi as [t Ht].
    rewrite Zmult_mod_idemp_r. rewrite <- Zmult_mod_idemp_l. fold a'.
    replace (a' * s) with (1 + (- t) * p) by lia.
    rewrite Z_mod_plus_full. apply Z.mod_small. lia.
Qed.

Lemma inv_mod_zero : forall p a, a mod p = 0 -> inv_mod a p = 0.
Proof. intros p a H. unfold inv_mod. rewrite H. reflexivity. Qed.

Lemma inv_mod_0 : forall p, inv_mod 0 p = 0.
Proof. intros p. apply inv_mod_zero. apply Zmod_0_l. Qed.

(* the form asked for: canonical non-zero a *)
Corollary inv_mod_spec_canon : forall p a, prime p -> 0 < a < p ->
  (a * inv_mod a p) mod p = 1 /\ canon p (inv_mod a p).
Proof.
  intros p a Hp Ha. apply inv_mod_spec; [exact Hp|]. rewrite Z.mod_small by lia. lia.
Qed.

(* [inv_mod] depends only on the residue of its argument *)
Lemma inv_mod_mod_arg : forall p a, inv_mod (a mod p) p = inv_mod a p.
Proof.
  intros p a. unfold inv_mod.
  destruct (Z.eq_dec p 0) as [->|Hp]; [rewrite !Zmod_0_r; reflexivity|].
  rewrite Z.mod_mod by exact Hp. reflexivity.
Qed.

(* ------------------------------------------------------------------ *)
(* 3. the subset type of canonical residues                            *)
(* ------------------------------------------------------------------ *)

Record Fp (p : Z) : Type := mkFp { fpv : Z; fp_canon : (fpv mod p =? fpv) = true }.
Arguments mkFp p fpv fp_canon : clear implicits.
Arguments fpv {p} _.
Arguments fp_canon {p} _.

Lemma fp_mod_ok : forall p z, ((z mod p) mod p =? z mod p) = true.
Proof.
  intros p z. apply Z.eqb_eq.
  destruct (Z.eq_dec p 0) as [->|Hp]; [rewrite !Zmod_0_r; reflexivity | apply Z.mod_mod, Hp].
Qed.
Lemma fp_inv_ok : forall p a, (inv_mod a p mod p =? inv_mod a p) = true.
Proof.
  intros p a. unfold inv_mod. destruct (a mod p =? 0).
  - rewrite Zmod_0_l. reflexivity.
  - destruct (egcd _ _ _ _ _) as [g s]. apply fp_mod_ok.
Qed.

Definition fp_of (p z : Z) : Fp p := mkFp p (z mod p) (fp_mod_ok p z).

Lemma fp_eq : forall p (x y : Fp p), fpv x = fpv y -> x = y.
Proof.
  intros p [x Hx] [y Hy]; cbn. intros ->. f_equal. apply UIP_dec. apply Bool.bool_dec.
Qed.
Lemma fpv_mod : forall p (x : Fp p), fpv x mod p = fpv x.
Proof. intros p [x Hx]; cbn. apply Z.eqb_eq. exact Hx. Qed.
Lemma fpv_canon : forall p (x : Fp p), 0 < p -> canon p (fpv x).
Proof. intros p x Hp. rewrite <- fpv_mod. apply canon_mod. exact Hp. Qed.
Lemma canon_ok : forall p z, canon p z -> (z mod p =? z) = true.
Proof. intros p z H. apply Z.eqb_eq. apply Z.mod_small. exact H. Qed.
(* lifting a canonical integer *)
Definition fp_lift (p z : Z) (H : canon p z) : Fp p := mkFp p z (canon_ok p z H).
Lemma fp_of_val : forall p z, canon p z -> fpv (fp_of p z) = z.
Proof. intros p z H. cbn. apply Z.mod_small. exact H. Qed.
Lemma fp_of_fpv : forall p (x : Fp p), fp_of p (fpv x) = x.
Proof. intros p x. apply fp_eq. cbn. apply fpv_mod. Qed.

Definition FpOps (p : Z) : Fops (Fp p) :=
  {| f0 := fp_of p 0; f1 := fp_of p 1;
     fadd := fun a b => fp_of p (fpv a + fpv b);
     fsub := fun a b => fp_of p (fpv a - fpv b);
     fmul := fun a b => fp_of p (fpv a * fpv b);
     fneg := fun a => fp_of p (- fpv a);
     finv := fun a => mkFp p (inv_mod (fpv a) p) (fp_inv_ok p (fpv a));
     feqb := fun a b => fpv a =? fpv b;
     fcoords := fun a => [fpv a];
     fof := fun l => fp_of p (hd 0 l);
     fdeg := 1%nat; fchar := p |}.

(* the operations of FpOps are those of ZpOps on the underlying integers *)
Lemma fpv_f0 : forall p, fpv (f0 (FpOps p)) = f0 (ZpOps p).
Proof. reflexivity. Qed.
Lemma fpv_f1 : forall p, fpv (f1 (FpOps p)) = f1 (ZpOps p).
Proof. reflexivity. Qed.
Lemma fpv_fadd : forall p x y, fpv (fadd (FpOps p) x y) = fadd (ZpOps p) (fpv x) (fpv y).
Proof. reflexivity. Qed.
Lemma fpv_fsub : forall p x y, fpv (fsub (FpOps p) x y) = fsub (ZpOps p) (fpv x) (fpv y).
Proof. reflexivity. Qed.
Lemma fpv_fmul : forall p x y, fpv (fmul (FpOps p) x y) = fmul (ZpOps p) (fpv x) (fpv y).
Proof. reflexivity. Qed.
Lemma fpv_fneg : forall p x, fpv (fneg (FpOps p) x) = fneg (ZpOps p) (fpv x).
Proof. reflexivity. Qed.
Lemma fpv_finv : forall p x, fpv (finv (FpOps p) x) = finv (ZpOps p) (fpv x).
Proof. reflexivity. Qed.
Lemma fpv_fdiv : forall p x y, fpv (fdiv (FpOps p) x y) = fdiv (ZpOps p) (fpv x) (fpv y).
Proof. reflexivity. Qed.
Lemma fpv_feqb : forall p x y, feqb (FpOps p) x y = feqb (ZpOps p) (fpv x) (fpv y).
Proof. reflexivity. Qed.
Lemma fpv_fcoords : forall p x, fcoords (FpOps p) x = fcoords (ZpOps p) (fpv x).
Proof. reflexivity. Qed.
Lemma fpv_fof : forall p l, fpv (fof (FpOps p) l) = fof (ZpOps p) l.
Proof. reflexivity. Qed.

(* commutative ring for every p (no primality needed) *)
Theorem FpOps_ring : forall p,
  ring_theory (f0 (FpOps p)) (f1 (FpOps p)) (fadd (FpOps p)) (fmul (FpOps p))
              (fsub (FpOps p)) (fneg (FpOps p)) eq.
Proof.
  intros p. constructor; intros; apply fp_eq; cbn -[Z.modulo].
  - rewrite Zmod_0_l. cbn. apply fpv_mod.
  - f_equal; ring.
  - rewrite Zplus_mod_idemp_r, Zplus_mod_idemp_l. f_equal; ring.
  - rewrite Zmult_mod_idemp_l. rewrite Z.mul_1_l. apply fpv_mod.
  - f_equal; ring.
  - rewrite Zmult_mod_idemp_r, Zmult_mod_idemp_l. f_equal; ring.
  - rewrite Zmult_mod_idemp_l, Zplus_mod_idemp_l, Zplus_mod_idemp_r. f_equal; ring.
  - rewrite Zplus_mod_idemp_r. f_equal; ring.
  - rewrite Zplus_mod_idemp_r. rewrite Z.add_opp_diag_r. reflexivity.
Qed.

Lemma fp_neq0 : forall p (x : Fp p), x <> f0 (FpOps p) -> fpv x mod p <> 0.
Proof.
  intros p x Hx E. apply Hx. apply fp_eq. rewrite fpv_mod in E. rewrite E. reflexivity.
Qed.

(* a field for prime p *)
Theorem FpOps_field : forall p, prime p ->
  field_theory (f0 (FpOps p)) (f1 (FpOps p)) (fadd (FpOps p)) (fmul (FpOps p))
               (fsub (FpOps p)) (fneg (FpOps p)) (fdiv (FpOps p)) (finv (FpOps p)) eq.
Proof.
  intros p Hp. assert (Hp1 : 1 < p) by (destruct Hp; assumption).
  constructor.
  - apply FpOps_ring.
  - intros E. apply (f_equal fpv) in E. cbn -[Z.modulo] in E.
    rewrite Z.mod_1_l, Zmod_0_l in E by exact Hp1. discriminate E.
  - reflexivity.
  - intros x Hx. apply fp_eq. cbn -[Z.modulo].
    rewrite Z.mul_comm. rewrite (Z.mod_1_l p Hp1).
    apply inv_mod_spec; [exact Hp | apply fp_neq0; exact Hx].
Qed.

Theorem FpOps_eqb : forall p (x y : Fp p), feqb (FpOps p) x y = true <-> x = y.
Proof.
  intros p x y. cbn. split.
  - intros H. apply fp_eq, Z.eqb_eq, H.
  - intros ->. apply Z.eqb_refl.
Qed.

Theorem FpOps_two : forall p, 2 < p -> fadd (FpOps p) (f1 (FpOps p)) (f1 (FpOps p)) <> f0 (FpOps p).
Proof.
  intros p Hp E. apply (f_equal fpv) in E. cbn -[Z.modulo] in E.
  rewrite Z.mod_1_l, Zmod_0_l in E by lia. change (1 + 1) with 2 in E.
  rewrite Z.mod_small in E by lia. discriminate E.
Qed.

(* total inverse: 0 |-> 0 *)
Lemma FpOps_inv0 : forall p, finv (FpOps p) (f0 (FpOps p)) = f0 (FpOps p).
Proof. intros p. apply fp_eq. cbn -[Z.modulo]. rewrite Zmod_0_l. apply inv_mod_0. Qed.

(* restated on the executable dictionary itself: ZpOps p is a field on canonical residues *)
Theorem ZpOps_inv_l : forall p x, prime p -> canon p x -> x <> 0 ->
  fmul (ZpOps p) (finv (ZpOps p) x) x = f1 (ZpOps p).
Proof.
  intros p x Hp Hx Hn. assert (Hp1 : 1 < p) by (destruct Hp; assumption).
  cbn -[Z.modulo]. rewrite Z.mul_comm, (Z.mod_1_l p Hp1).
  apply inv_mod_spec; [exact Hp|]. rewrite Z.mod_small by exact Hx. exact Hn.
Qed.
