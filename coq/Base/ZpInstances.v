(* Base/ZpInstances -- [FpOps p] (Base/ZpField.v) satisfies the named premises of the
   property packages: [good_field] (C03/FieldHyp.v), [is_field] / [eqb_correct]
   (C07/DomainProofs.v), and the bare [ring_theory] / [field_theory] shapes used by C02, C08,
   C11, C17.  So every abstract theorem of those packages can be instantiated at
   [F := FpOps p] for a prime p; Base/ZpTransfer.v carries the result over to [ZpOps p]. *)
From V Require Import Base.Field Base.ZpField Base.ExtField C03.FieldHyp C07.DomainProofs.
Require Import Znumtheory Lia.
Require Import Coq.setoid_ring.Ring_theory Coq.setoid_ring.Field_theory.

(* C03 (and every package stated under good_field) *)
Theorem FpOps_good_field : forall p, prime p -> 2 < p -> good_field (FpOps p).
Proof.
  intros p Hp H2. constructor.
  - apply FpOps_field. exact Hp.
  - apply FpOps_eqb.
  - apply FpOps_two. exact H2.
Qed.

(* C07 *)
Theorem FpOps_is_field : forall p, prime p -> is_field (FpOps p).
Proof. intros p Hp. apply FpOps_field. exact Hp. Qed.
Theorem FpOps_eqb_correct : forall p, eqb_correct (FpOps p).
Proof. intros p x y. apply FpOps_eqb. Qed.

(* C08 shape: division spelled as mul a (inv b) -- convertible to fdiv *)
Theorem FpOps_field_C08 : forall p, prime p ->
  field_theory (f0 (FpOps p)) (f1 (FpOps p)) (fadd (FpOps p)) (fmul (FpOps p))
               (fsub (FpOps p)) (fneg (FpOps p))
               (fun a b => fmul (FpOps p) a (finv (FpOps p) b)) (finv (FpOps p)) eq.
Proof. intros p Hp. exact (FpOps_field p Hp). Qed.

(* C02 / C17 shape: ring_theory (no primality) *)
Theorem FpOps_ring_C17 : forall p,
  ring_theory (f0 (FpOps p)) (f1 (FpOps p)) (fadd (FpOps p)) (fmul (FpOps p))
              (fsub (FpOps p)) (fneg (FpOps p)) (@eq (Fp p)).
Proof. exact FpOps_ring. Qed.

(* good_field is inherited by the towers (iterate: Fp2, Fp6 over Fp2, ...) *)
Theorem Quad_good_field : forall T (B : Fops T) nr, good_field B ->
  (forall w, fmul B w w <> nr) -> good_field (QuadOps B nr).
Proof.
  intros T B nr G Hn. constructor.
  - exact (QuadOps_field B nr (gf_th _ G) (gf_eqb _ G) Hn).
  - exact (QuadOps_eqb B nr (gf_eqb _ G)).
  - exact (QuadOps_two B nr (gf_two _ G)).
Qed.
Theorem Cubic_good_field : forall T (B : Fops T) nr, good_field B ->
  (forall w, fmul B (fmul B w w) w <> nr) -> good_field (CubicOps B nr).
Proof.
  intros T B nr G Hn. constructor.
  - exact (CubicOps_field B nr (gf_th _ G) (gf_eqb _ G) Hn).
  - exact (CubicOps_eqb B nr (gf_eqb _ G)).
  - exact (CubicOps_two B nr (gf_two _ G)).
Qed.

(* the towers over Z/p: Fp2 = Fp[X]/(X^2 - nr) *)
Theorem Fp2_good_field : forall p, prime p -> 2 < p -> forall nr : Fp p,
  (forall w, fmul (FpOps p) w w <> nr) -> good_field (QuadOps (FpOps p) nr).
Proof. intros p Hp H2 nr Hn. apply Quad_good_field; [apply FpOps_good_field; assumption | exact Hn]. Qed.

(* 13 is prime: the instance used by the Examples *)
Lemma prime_13 : prime 13.
Proof.
  apply prime_intro; [lia|]. intros n Hn.
  assert (Hc : n = 1 \/ n = 2 \/ n = 3 \/ n = 4 \/ n = 5 \/ n = 6 \/ n = 7 \/ n = 8 \/
               n = 9 \/ n = 10 \/ n = 11 \/ n = 12) by lia.
  repeat (destruct Hc as [-> | Hc]; [apply Zgcd_1_rel_prime; reflexivity|]).
  subst n. apply Zgcd_1_rel_prime; reflexivity.
Qed.
Lemma prime_17 : prime 17.
Proof.
  apply prime_intro; [lia|]. intros n Hn.
  assert (Hc : n = 1 \/ n = 2 \/ n = 3 \/ n = 4 \/ n = 5 \/ n = 6 \/ n = 7 \/ n = 8 \/
               n = 9 \/ n = 10 \/ n = 11 \/ n = 12 \/ n = 13 \/ n = 14 \/ n = 15 \/ n = 16) by lia.
  repeat (destruct Hc as [-> | Hc]; [apply Zgcd_1_rel_prime; reflexivity|]).
  subst n. apply Zgcd_1_rel_prime; reflexivity.
Qed.

Example FpOps13_good : good_field (FpOps 13).
Proof. apply FpOps_good_field; [exact prime_13 | lia]. Qed.
