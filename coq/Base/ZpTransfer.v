(* Base/ZpTransfer -- transfer of theorems proved for an abstract field dictionary to the
   executable dictionary [ZpOps p] on canonical residues.

   [Rp p x z := fpv x = z] relates the subset-type field [Fp p] (Base/ZpField.v) to the
   integers.  [FpZp_R p] says that every component of [FpOps p] and [ZpOps p] is related
   (the parametricity relation [Fops_R] of the record [Fops]).  For ANY function [fn]
   written against an [Fops] dictionary, Paramcoq generates [fn_R] (a term checked by the
   kernel; the plugin is not trusted) and [fn_R ... (FpZp_R p) ...] says that [fn (FpOps p)]
   and [fn (ZpOps p)] map related inputs to related outputs.  Since [Rp] is the graph of
   the injective function [fpv], "related" means "equal after [fpv]" ([*_val] lemmas), and
   every canonical integer has a lift ([fp_of]).  Hence:  theorem about [fn (FpOps p)]
   (an instance of the abstract theorem, because [FpOps p] is a field) ==> the same
   theorem about [fn (ZpOps p)] on canonical inputs.

   Demonstrated on C03 [sw_add] (Jacobian addition = affine chord-and-tangent law) and on
   C07 [in_order_fft] (= naive DFT on the coset), C11 [sqrt_ts] (soundness). *)
From Param Require Import Param.
From V Require Import Base.Field Base.ZpField Base.ExtField Base.ZpInstances.
From V Require Import C03.SWModel C03.SWProofs C03.FieldHyp.
From V Require Import C07.Dft C07.Radix2 C07.DftProofs C07.Radix2Proofs C07.DomainProofs.
From V Require Import C11.SqrtModel C11.SqrtProofs.
Require Import Znumtheory Lia.

(* ------------------------------------------------------------------ *)
(* the relation and the related dictionaries                           *)
(* ------------------------------------------------------------------ *)

Definition Rp (p : Z) (x : Fp p) (z : Z) : Prop := fpv x = z.

Lemma Rp_fpv : forall p (x : Fp p), Rp p x (fpv x).
Proof. reflexivity. Qed.
Lemma Rp_fun : forall p x z1 z2, Rp p x z1 -> Rp p x z2 -> z1 = z2.
Proof. unfold Rp. intros. congruence. Qed.
Lemma Rp_inj : forall p x1 x2 z, Rp p x1 z -> Rp p x2 z -> x1 = x2.
Proof. unfold Rp. intros. apply fp_eq. congruence. Qed.
Lemma Rp_lift : forall p z, canon p z -> Rp p (fp_of p z) z.
Proof. intros. apply fp_of_val. assumption. Qed.

(* operation by operation *)
Lemma Rp_f0 : forall p, Rp p (f0 (FpOps p)) (f0 (ZpOps p)).
Proof. reflexivity. Qed.
Lemma Rp_f1 : forall p, Rp p (f1 (FpOps p)) (f1 (ZpOps p)).
Proof. reflexivity. Qed.
Lemma Rp_fadd : forall p x1 z1 x2 z2, Rp p x1 z1 -> Rp p x2 z2 ->
  Rp p (fadd (FpOps p) x1 x2) (fadd (ZpOps p) z1 z2).
Proof. unfold Rp. intros; subst. reflexivity. Qed.
Lemma Rp_fsub : forall p x1 z1 x2 z2, Rp p x1 z1 -> Rp p x2 z2 ->
  Rp p (fsub (FpOps p) x1 x2) (fsub (ZpOps p) z1 z2).
Proof. unfold Rp. intros; subst. reflexivity. Qed.
Lemma Rp_fmul : forall p x1 z1 x2 z2, Rp p x1 z1 -> Rp p x2 z2 ->
  Rp p (fmul (FpOps p) x1 x2) (fmul (ZpOps p) z1 z2).
Proof. unfold Rp. intros; subst. reflexivity. Qed.
Lemma Rp_fneg : forall p x1 z1, Rp p x1 z1 -> Rp p (fneg (FpOps p) x1) (fneg (ZpOps p) z1).
Proof. unfold Rp. intros; subst. reflexivity. Qed.
Lemma Rp_finv : forall p x1 z1, Rp p x1 z1 -> Rp p (finv (FpOps p) x1) (finv (ZpOps p) z1).
Proof. unfold Rp. intros; subst. reflexivity. Qed.
Lemma Rp_fdiv : forall p x1 z1 x2 z2, Rp p x1 z1 -> Rp p x2 z2 ->
  Rp p (fdiv (FpOps p) x1 x2) (fdiv (ZpOps p) z1 z2).
Proof. unfold Rp. intros; subst. reflexivity. Qed.
Lemma Rp_feqb : forall p x1 z1 x2 z2, Rp p x1 z1 -> Rp p x2 z2 ->
  feqb (FpOps p) x1 x2 = feqb (ZpOps p) z1 z2.
Proof. unfold Rp. intros; subst. reflexivity. Qed.
(* equality itself transfers, because fpv is injective *)
Lemma Rp_eq : forall p x1 z1 x2 z2, Rp p x1 z1 -> Rp p x2 z2 -> (x1 = x2 <-> z1 = z2).
Proof. unfold Rp. intros; subst. split; [congruence | apply fp_eq]. Qed.

(* ------------------------------------------------------------------ *)
(* Paramcoq: relations of the data types; they coincide with equality  *)
(* ------------------------------------------------------------------ *)

Parametricity Recursive Fops.
Parametricity Recursive option.
Parametricity Recursive prod.

Lemma positive_R_refl : forall x, positive_R x x.
Proof. induction x; constructor; assumption. Qed.
Lemma Z_R_refl : forall z, Z_R z z.
Proof. destruct z; constructor; apply positive_R_refl. Qed.
Lemma nat_R_refl : forall n, nat_R n n.
Proof. induction n; constructor; assumption. Qed.
Lemma bool_R_refl : forall b, bool_R b b.
Proof. destruct b; constructor. Qed.
Lemma positive_R_eq : forall x y, positive_R x y -> x = y.
Proof. induction 1; congruence. Qed.
Lemma Z_R_eq : forall x y, Z_R x y -> x = y.
Proof. destruct 1; try reflexivity; f_equal; apply positive_R_eq; assumption. Qed.
Lemma nat_R_eq : forall x y, nat_R x y -> x = y.
Proof. induction 1; congruence. Qed.
Lemma bool_R_eq : forall x y, bool_R x y -> x = y.
Proof. destruct 1; reflexivity. Qed.
Lemma bool_R_of_eq : forall x y, x = y -> bool_R x y.
Proof. intros x y ->. apply bool_R_refl. Qed.
Lemma listZ_R_refl : forall l, list_R Z Z Z_R l l.
Proof. induction l; constructor; [apply Z_R_refl | assumption]. Qed.
Lemma listZ_R_eq : forall l1 l2, list_R Z Z Z_R l1 l2 -> l1 = l2.
Proof. induction 1 as [|x y Hxy l1 l2 Hl IH]; [reflexivity|]. f_equal; [apply Z_R_eq; exact Hxy | exact IH]. Qed.

(* THE related dictionaries *)
Lemma FpZp_R : forall p, Fops_R (Fp p) Z (Rp p) (FpOps p) (ZpOps p).
Proof.
  intros p. unfold FpOps, ZpOps. constructor.
  - reflexivity.
  - reflexivity.
  - intros; apply Rp_fadd; assumption.
  - intros; apply Rp_fsub; assumption.
  - intros; apply Rp_fmul; assumption.
  - intros; apply Rp_fneg; assumption.
  - intros; apply Rp_finv; assumption.
  - intros x1 z1 H1 x2 z2 H2. apply bool_R_of_eq. unfold Rp in *. subst. reflexivity.
  - intros x z H. unfold Rp in H. subst. apply listZ_R_refl.
  - intros l1 l2 H. apply listZ_R_eq in H. subst. reflexivity.
  - apply nat_R_refl.
  - apply Z_R_refl.
Qed.

(* ------------------------------------------------------------------ *)
(* containers: "related" = "equal after fpv"                           *)
(* ------------------------------------------------------------------ *)

Definition pair_val {p} (A : Fp p * Fp p) : Z * Z := (fpv (fst A), fpv (snd A)).
Definition aff_val {p} (A : option (Fp p * Fp p)) : option (Z * Z) := option_map pair_val A.
Definition jac_val {p} (P : Fp p * Fp p * Fp p) : Z * Z * Z :=
  (fpv (fst (fst P)), fpv (snd (fst P)), fpv (snd P)).
Definition list_val {p} (l : list (Fp p)) : list Z := map fpv l.

Definition canon_aff (p : Z) (A : option (Z * Z)) : Prop :=
  match A with None => True | Some (x, y) => canon p x /\ canon p y end.
Definition canon_jac (p : Z) (P : Z * Z * Z) : Prop :=
  canon p (fst (fst P)) /\ canon p (snd (fst P)) /\ canon p (snd P).

Definition aff_lift (p : Z) (A : option (Z * Z)) : option (Fp p * Fp p) :=
  option_map (fun xy => (fp_of p (fst xy), fp_of p (snd xy))) A.
Definition jac_lift (p : Z) (P : Z * Z * Z) : Fp p * Fp p * Fp p :=
  (fp_of p (fst (fst P)), fp_of p (snd (fst P)), fp_of p (snd P)).
Definition list_lift (p : Z) (l : list Z) : list (Fp p) := map (fp_of p) l.

Lemma aff_lift_val : forall p A, canon_aff p A -> aff_val (aff_lift p A) = A.
Proof.
  intros p [[x y]|] H; [|reflexivity]. destruct H as [Hx Hy].
  unfold aff_val, aff_lift, pair_val. cbn [option_map fst snd].
  rewrite !fp_of_val by assumption. reflexivity.
Qed.
Lemma jac_lift_val : forall p P, canon_jac p P -> jac_val (jac_lift p P) = P.
Proof.
  intros p [[x y] z] (Hx & Hy & Hz). unfold jac_val, jac_lift. cbn [fst snd] in *.
  rewrite !fp_of_val by assumption. reflexivity.
Qed.
Lemma list_lift_val : forall p l, Forall (canon p) l -> list_val (list_lift p l) = l.
Proof.
  intros p l H. unfold list_val, list_lift. induction H as [|z l Hz Hl IH]; [reflexivity|].
  cbn [map]. rewrite fp_of_val by exact Hz. f_equal. exact IH.
Qed.
Lemma list_lift_length : forall p l, length (list_lift p l) = length l.
Proof. intros. apply map_length. Qed.

Lemma aff_R_val : forall p A B,
  option_R _ _ (prod_R _ _ (Rp p) _ _ (Rp p)) A B -> aff_val A = B.
Proof.
  intros p A B H. destruct H as [xy zw H|]; [|reflexivity].
  destruct H as [x z Hx y w Hy]. unfold Rp in *. subst. reflexivity.
Qed.
Lemma aff_val_R : forall p A, option_R _ _ (prod_R _ _ (Rp p) _ _ (Rp p)) A (aff_val A).
Proof. intros p [[x y]|]; repeat constructor. Qed.
Lemma jac_R_val : forall p P Q,
  prod_R _ _ (prod_R _ _ (Rp p) _ _ (Rp p)) _ _ (Rp p) P Q -> jac_val P = Q.
Proof.
  intros p P Q H. destruct H as [xy zw H z' w' Hz]. destruct H as [x z Hx y w Hy].
  unfold Rp in *. subst. reflexivity.
Qed.
Lemma jac_val_R : forall p P, prod_R _ _ (prod_R _ _ (Rp p) _ _ (Rp p)) _ _ (Rp p) P (jac_val P).
Proof. intros p [[x y] z]; repeat constructor. Qed.
Lemma list_R_val : forall p l1 l2, list_R _ _ (Rp p) l1 l2 -> list_val l1 = l2.
Proof.
  induction 1 as [|x z Hxz l1 l2 Hl IH]; [reflexivity|].
  unfold list_val in *. cbn [map]. unfold Rp in Hxz. congruence.
Qed.
Lemma list_val_R : forall p l, list_R _ _ (Rp p) l (list_val l).
Proof. induction l; constructor; [reflexivity | assumption]. Qed.

(* ------------------------------------------------------------------ *)
(* (a) C03: Jacobian addition                                          *)
(* ------------------------------------------------------------------ *)

Parametricity Recursive sw_add.
Parametricity Recursive sw_to_affine.
Parametricity Recursive aff_add_sw.

Lemma sw_add_val : forall p a (P Q : Fp p * Fp p * Fp p),
  jac_val (sw_add (FpOps p) a P Q) = sw_add (ZpOps p) (fpv a) (jac_val P) (jac_val Q).
Proof.
  intros p a P Q. apply jac_R_val.
  apply (sw_add_R _ _ (Rp p) _ _ (FpZp_R p) _ _ (Rp_fpv p a)); apply jac_val_R.
Qed.
Lemma sw_to_affine_val : forall p (P : Fp p * Fp p * Fp p),
  aff_val (sw_to_affine (FpOps p) P) = sw_to_affine (ZpOps p) (jac_val P).
Proof.
  intros p P. apply aff_R_val.
  apply (sw_to_affine_R _ _ (Rp p) _ _ (FpZp_R p)); apply jac_val_R.
Qed.
Lemma aff_add_sw_val : forall p a (A B : option (Fp p * Fp p)),
  aff_val (aff_add_sw (FpOps p) a A B) = aff_add_sw (ZpOps p) (fpv a) (aff_val A) (aff_val B).
Proof.
  intros p a A B. apply aff_R_val.
  apply (aff_add_sw_R _ _ (Rp p) _ _ (FpZp_R p) _ _ (Rp_fpv p a)); apply aff_val_R.
Qed.
(* the curve equation (a Prop about equality of field elements) transfers both ways *)
Lemma aff_on_val : forall p a b (A : option (Fp p * Fp p)),
  aff_on (FpOps p) a b A <-> aff_on (ZpOps p) (fpv a) (fpv b) (aff_val A).
Proof.
  intros p a b [[x y]|]; [|reflexivity]. cbn [aff_val option_map pair_val fst snd aff_on].
  apply Rp_eq; repeat first [apply Rp_fmul | apply Rp_fadd | apply Rp_fpv].
Qed.
Lemma jac_on_val : forall p a b (P : Fp p * Fp p * Fp p),
  jac_on (FpOps p) a b P <-> jac_on (ZpOps p) (fpv a) (fpv b) (jac_val P).
Proof. intros. unfold jac_on. rewrite <- sw_to_affine_val. apply aff_on_val. Qed.

(* C03_sw_add specialised to the executed dictionary *)
Theorem sw_add_Zp : forall p, prime p -> 2 < p ->
  forall a b P Q, canon p a -> canon p b -> canon_jac p P -> canon_jac p Q ->
  jac_on (ZpOps p) a b P -> jac_on (ZpOps p) a b Q ->
  sw_to_affine (ZpOps p) (sw_add (ZpOps p) a P Q) =
  aff_add_sw (ZpOps p) a (sw_to_affine (ZpOps p) P) (sw_to_affine (ZpOps p) Q).
Proof.
  intros p Hp H2 a b P Q Ha Hb HP HQ HonP HonQ.
  pose proof (FpOps_good_field p Hp H2) as G.
  rewrite <- (fp_of_val p a Ha), <- (fp_of_val p b Hb),
          <- (jac_lift_val p P HP), <- (jac_lift_val p Q HQ) in *.
  apply jac_on_val in HonP. apply jac_on_val in HonQ.
  rewrite <- sw_add_val, <- !sw_to_affine_val, <- aff_add_sw_val. f_equal.
  exact (sw_add_correct (FpOps p) _ _ (gf_th _ G) (gf_eqb _ G) (gf_two _ G) _ _ HonP HonQ).
Qed.

(* results of the executed dictionary are canonical (closure), so theorems chain *)
Lemma sw_add_canon : forall p, 0 < p -> forall a P Q, canon p a -> canon_jac p P -> canon_jac p Q ->
  canon_jac p (sw_add (ZpOps p) a P Q).
Proof.
  intros p Hp a P Q Ha HP HQ.
  rewrite <- (fp_of_val p a Ha), <- (jac_lift_val p P HP), <- (jac_lift_val p Q HQ).
  rewrite <- sw_add_val. destruct (sw_add (FpOps p) _ _ _) as [[x y] z].
  repeat split; apply fpv_canon; exact Hp.
Qed.

(* ------------------------------------------------------------------ *)
(* (b) C07: in-order FFT                                               *)
(* ------------------------------------------------------------------ *)

Parametricity Recursive in_order_fft qualified.
Parametricity Recursive dft_coset qualified.

Lemma in_order_fft_val : forall p k w h (x : list (Fp p)),
  list_val (in_order_fft (FpOps p) k w h x) =
  in_order_fft (ZpOps p) k (fpv w) (fpv h) (list_val x).
Proof.
  intros p k w h x. apply list_R_val.
  apply (V_o_C07_o_Radix2_o_in_order_fft_R _ _ (Rp p) _ _ (FpZp_R p) _ _ (nat_R_refl k)
           _ _ (Rp_fpv p w) _ _ (Rp_fpv p h)); apply list_val_R.
Qed.
Lemma dft_coset_val : forall p n h w (c : list (Fp p)),
  list_val (dft_coset (FpOps p) n h w c) = dft_coset (ZpOps p) n (fpv h) (fpv w) (list_val c).
Proof.
  intros p n h w c. apply list_R_val.
  apply (V_o_C07_o_Dft_o_dft_coset_R _ _ (Rp p) _ _ (FpZp_R p) _ _ (nat_R_refl n)
           _ _ (Rp_fpv p h) _ _ (Rp_fpv p w)); apply list_val_R.
Qed.
Lemma pown_val : forall p (x : Fp p) n, fpv (pown (FpOps p) x n) = pown (ZpOps p) (fpv x) n.
Proof. intros p x n. induction n as [|n IH]; [reflexivity|]. cbn [pown]. rewrite <- IH. reflexivity. Qed.
Lemma prim_root_val : forall p k (w : Fp p),
  prim_root (FpOps p) k w <-> prim_root (ZpOps p) k (fpv w).
Proof.
  intros p [|k] w; [reflexivity|]. cbn [prim_root].
  apply Rp_eq; [apply pown_val | reflexivity].
Qed.

(* C07_in_order_fft_spec specialised to the executed dictionary *)
Theorem in_order_fft_Zp : forall p, prime p ->
  forall k w h x, canon p w -> canon p h -> Forall (canon p) x ->
  length x = (2 ^ k)%nat -> prim_root (ZpOps p) k w ->
  in_order_fft (ZpOps p) k w h x = dft_coset (ZpOps p) (2 ^ k) h w x.
Proof.
  intros p Hp k w h x Hw Hh Hx Hlen Hroot.
  rewrite <- (fp_of_val p w Hw), <- (fp_of_val p h Hh), <- (list_lift_val p x Hx) in *.
  apply prim_root_val in Hroot. unfold list_val in Hlen. rewrite map_length in Hlen.
  rewrite <- in_order_fft_val, <- dft_coset_val. f_equal.
  exact (in_order_fft_spec (FpOps p) (FpOps_is_field p Hp) (FpOps_eqb_correct p) k _ _ _ Hlen Hroot).
Qed.

(* ------------------------------------------------------------------ *)
(* (c) C11: Tonelli-Shanks.  Paramcoq leaves proof obligations for     *)
(*     fixpoints whose body does not start with the match on the       *)
(*     structural argument (ts_find_k, ts_loop), so this one is done   *)
(*     by the direct route: the model commutes with any homomorphism.  *)
(* ------------------------------------------------------------------ *)

Section SqrtHom.
  Context {K1 K2 : Type}.
  Variables (zero1 one1 : K1) (mul1 : K1 -> K1 -> K1) (eqb1 : K1 -> K1 -> bool).
  Variables (zero2 one2 : K2) (mul2 : K2 -> K2 -> K2) (eqb2 : K2 -> K2 -> bool).
  Variable phi : K1 -> K2.
  Hypothesis phi_zero : phi zero1 = zero2.
  Hypothesis phi_one : phi one1 = one2.
  Hypothesis phi_mul : forall x y, phi (mul1 x y) = mul2 (phi x) (phi y).
  Hypothesis phi_eqb : forall x y, eqb1 x y = eqb2 (phi x) (phi y).

  Lemma sqr_hom : forall x, phi (sqr mul1 x) = sqr mul2 (phi x).
  Proof. intros. unfold sqr. apply phi_mul. Qed.
  Lemma is_one_hom : forall x, is_one one1 eqb1 x = is_one one2 eqb2 (phi x).
  Proof. intros. unfold is_one. rewrite phi_eqb, phi_one. reflexivity. Qed.
  Lemma pow_pos_hom : forall x e, phi (pow_pos mul1 x e) = pow_pos mul2 (phi x) e.
  Proof.
    intros x e. induction e as [e IH|e IH|]; cbn [pow_pos];
      rewrite ?phi_mul, ?sqr_hom, ?IH; reflexivity.
  Qed.
  Lemma pow_hom : forall x e, phi (pow one1 mul1 x e) = pow one2 mul2 (phi x) e.
  Proof. intros x [|e|e]; cbn [pow]; [exact phi_one | apply pow_pos_hom | exact phi_one]. Qed.
  Lemma sqn_hom : forall n x, phi (sqn mul1 n x) = sqn mul2 n (phi x).
  Proof. induction n as [|n IH]; intros x; cbn [sqn]; [reflexivity|]. rewrite IH, sqr_hom. reflexivity. Qed.
  Lemma ts_find_k_hom : forall f b k,
    ts_find_k one1 mul1 eqb1 f b k = ts_find_k one2 mul2 eqb2 f (phi b) k.
  Proof.
    induction f as [|f IH]; intros b k; cbn [ts_find_k]; rewrite is_one_hom;
      destruct (is_one one2 eqb2 (phi b)); try reflexivity.
    rewrite IH, sqr_hom. reflexivity.
  Qed.
  Lemma ts_loop_hom : forall (leg1 : K1 -> Z) (leg2 : K2 -> Z), (forall x, leg1 x = leg2 (phi x)) ->
    forall f s elem z x b v,
    sq_map phi (ts_loop one1 mul1 eqb1 f s leg1 elem z x b v) =
    ts_loop one2 mul2 eqb2 f s leg2 (phi elem) (phi z) (phi x) (phi b) v.
  Proof.
    intros leg1 leg2 Hleg.
    assert (Hexit : forall elem x,
      sq_map phi (if eqb1 (sqr mul1 x) elem then SqSome x else if leg1 elem =? 1 then SqPanic else SqNone) =
      (if eqb2 (sqr mul2 (phi x)) (phi elem) then SqSome (phi x)
       else if leg2 (phi elem) =? 1 then SqPanic else SqNone)).
    { intros elem x. rewrite phi_eqb, sqr_hom, Hleg.
      destruct (eqb2 _ _); [reflexivity|]. destruct (_ =? 1); reflexivity. }
    induction f as [|f IH]; intros s elem z x b v; cbn [ts_loop]; rewrite is_one_hom;
      destruct (is_one one2 eqb2 (phi b)); try apply Hexit; try reflexivity.
    rewrite ts_find_k_hom. destruct (ts_find_k one2 mul2 eqb2 s (phi b) 0) as [k|]; [|reflexivity].
    destruct (Nat.eqb k s); [reflexivity|]. destruct (Nat.ltb v k); [reflexivity|].
    rewrite IH. rewrite !phi_mul, !sqr_hom, !sqn_hom. reflexivity.
  Qed.
  Theorem sqrt_ts_hom : forall (leg1 : K1 -> Z) (leg2 : K2 -> Z), (forall x, leg1 x = leg2 (phi x)) ->
    forall s z tm elem,
    sq_map phi (sqrt_ts zero1 one1 mul1 eqb1 s z tm leg1 elem) =
    sqrt_ts zero2 one2 mul2 eqb2 s (phi z) tm leg2 (phi elem).
  Proof.
    intros leg1 leg2 Hleg s z tm elem. unfold sqrt_ts, is_zero.
    rewrite phi_eqb, phi_zero. destruct (eqb2 (phi elem) zero2).
    - cbn [sq_map]. rewrite phi_zero. reflexivity.
    - rewrite (ts_loop_hom leg1 leg2 Hleg). rewrite !phi_mul, !pow_hom. reflexivity.
  Qed.
End SqrtHom.

(* C11_tonelli_shanks_exact specialised to the executed dictionary.  The operations are
   passed the way C11/Run.v passes them: f0, f1, fmul, feqb of the dictionary. *)
Theorem sqrt_ts_Zp : forall p, prime p ->
  forall (s : nat) (tm z : Z), (1 <= s)%nat -> 0 <= tm -> canon p z ->
  (forall x, canon p x -> x <> 0 ->
     pow (f1 (ZpOps p)) (fmul (ZpOps p)) x (2 ^ Z.of_nat s * (2 * tm + 1)) = f1 (ZpOps p)) ->
  sqn (fmul (ZpOps p)) (s - 1) z = fneg (ZpOps p) (f1 (ZpOps p)) ->
  forall (leg : Z -> Z) (a : Z), canon p a ->
  (exists y, canon p y /\
     sqrt_ts (f0 (ZpOps p)) (f1 (ZpOps p)) (fmul (ZpOps p)) (feqb (ZpOps p)) s z tm leg a = SqSome y /\
     fmul (ZpOps p) y y = a) \/
  (sqrt_ts (f0 (ZpOps p)) (f1 (ZpOps p)) (fmul (ZpOps p)) (feqb (ZpOps p)) s z tm leg a = SqNone /\
   ~ exists r, fmul (ZpOps p) r r = a).
Proof.
  intros p Hp s tm z Hs Htm Hz Hfermat Hord leg a Ha.
  assert (Hp0 : 0 < p) by (destruct Hp; lia).
  set (F := FpOps p). set (G := ZpOps p).
  assert (Hom : forall (leg1 : Fp p -> Z), (forall x, leg1 x = leg (fpv x)) -> forall s z tm elem,
            sq_map fpv (sqrt_ts (f0 F) (f1 F) (fmul F) (feqb F) s z tm leg1 elem) =
            sqrt_ts (f0 G) (f1 G) (fmul G) (feqb G) s (fpv z) tm leg (fpv elem)).
  { intros leg1 Hleg. apply sqrt_ts_hom; try reflexivity. exact Hleg. }
  pose proof (ts_total (f0 F) (f1 F) (fadd F) (fsub F) (fmul F) (fneg F) (finv F) (fdiv F) (feqb F)
                (FpOps_field p Hp) (FpOps_eqb p) s tm (fp_of p z) Hs Htm) as T.
  assert (HF : forall x : Fp p, x <> f0 F ->
             pow (f1 F) (fmul F) x (2 ^ Z.of_nat s * (2 * tm + 1)) = f1 F).
  { intros x Hx. apply fp_eq.
    rewrite (pow_hom (f1 F) (fmul F) (f1 G) (fmul G) fpv eq_refl (fun _ _ => eq_refl)).
    apply Hfermat; [apply fpv_canon; exact Hp0|].
    intros E. apply Hx. apply fp_eq. rewrite E. reflexivity. }
  assert (HO : sqn (fmul F) (s - 1) (fp_of p z) = fneg F (f1 F)).
  { apply fp_eq. rewrite (sqn_hom (fmul F) (fmul G) fpv (fun _ _ => eq_refl)).
    rewrite (fp_of_val p z Hz). exact Hord. }
  specialize (T HF HO (fun x => leg (fpv x)) (fp_of p a)).
  specialize (Hom (fun x => leg (fpv x)) (fun _ => eq_refl) s (fp_of p z) tm (fp_of p a)).
  rewrite (fp_of_val p z Hz), (fp_of_val p a Ha) in Hom.
  destruct T as [[y [Hy Hyy]] | [Hn Hns]].
  - left. exists (fpv y). split; [apply fpv_canon; exact Hp0|]. split.
    + rewrite <- Hom, Hy. reflexivity.
    + apply (f_equal fpv) in Hyy. rewrite (fp_of_val p a Ha) in Hyy. exact Hyy.
  - right. split.
    + rewrite <- Hom, Hn. reflexivity.
    + intros [r Hr]. apply Hns. exists (fp_of p r). apply fp_eq.
      rewrite (fp_of_val p a Ha), <- Hr. cbn -[Z.modulo].
      rewrite Zmult_mod_idemp_l, Zmult_mod_idemp_r. reflexivity.
Qed.

(* ------------------------------------------------------------------ *)
(* (d) the same transfer, generically and for the towers.              *)
(*     Any pair of related dictionaries whose relation is one-to-one   *)
(*     carries the theorem from the first (a field) to the second.     *)
(*     Paramcoq gives relatedness of QuadOps / CubicOps for free, so   *)
(*     the towers over ZpOps p are covered by iterating.               *)
(* ------------------------------------------------------------------ *)

Parametricity Recursive fmul.
Parametricity Recursive fadd.
Parametricity Recursive QuadOps.
Parametricity Recursive CubicOps.

Section GenericTransfer.
  Context {T1 T2 : Type} (TR : T1 -> T2 -> Type) (F1 : Fops T1) (F2 : Fops T2).
  Hypothesis FR : Fops_R T1 T2 TR F1 F2.
  Hypothesis TR_fun : forall x z1 z2, TR x z1 -> TR x z2 -> z1 = z2.
  Hypothesis TR_inj : forall x1 x2 z, TR x1 z -> TR x2 z -> x1 = x2.
  Hypothesis G : good_field F1.

  Local Notation affR := (option_R _ _ (prod_R _ _ TR _ _ TR)).
  Local Notation jacR := (prod_R _ _ (prod_R _ _ TR _ _ TR) _ _ TR).

  Lemma affR_fun : forall A B1 B2, affR A B1 -> affR A B2 -> B1 = B2.
  Proof.
    intros A B1 B2 H1 H2. destruct H1 as [xy zw H1|].
    - inversion H2 as [xy' zw' H2' E1 E2|]. subst. destruct H1 as [x z Hx y w Hy].
      inversion H2' as [x' z' Hx' y' w' Hy' E1 E2]. subst.
      rewrite (TR_fun _ _ _ Hx Hx'), (TR_fun _ _ _ Hy Hy'). reflexivity.
    - inversion H2. reflexivity.
  Qed.

  Lemma aff_on_transfer : forall a1 a2 b1 b2 A1 A2, TR a1 a2 -> TR b1 b2 -> affR A1 A2 ->
    aff_on F2 a2 b2 A2 -> aff_on F1 a1 b1 A1.
  Proof.
    intros a1 a2 b1 b2 A1 A2 Ha Hb HA H. destruct HA as [xy zw HA|]; [|exact I].
    destruct HA as [x z Hx y w Hy]. cbn [aff_on] in *.
    eapply TR_inj.
    - apply (fmul_R _ _ TR _ _ FR); eassumption.
    - rewrite H.
      apply (fadd_R _ _ TR _ _ FR); [apply (fadd_R _ _ TR _ _ FR)|];
        repeat first [eassumption | apply (fmul_R _ _ TR _ _ FR)].
  Qed.

  Theorem sw_add_transfer : forall a1 a2 b1 b2 P1 P2 Q1 Q2,
    TR a1 a2 -> TR b1 b2 -> jacR P1 P2 -> jacR Q1 Q2 ->
    jac_on F2 a2 b2 P2 -> jac_on F2 a2 b2 Q2 ->
    sw_to_affine F2 (sw_add F2 a2 P2 Q2) =
    aff_add_sw F2 a2 (sw_to_affine F2 P2) (sw_to_affine F2 Q2).
  Proof.
    intros a1 a2 b1 b2 P1 P2 Q1 Q2 Ha Hb HP HQ HonP HonQ.
    pose proof (sw_to_affine_R _ _ TR _ _ FR _ _ HP) as HPa.
    pose proof (sw_to_affine_R _ _ TR _ _ FR _ _ HQ) as HQa.
    assert (On1 : jac_on F1 a1 b1 P1) by (exact (aff_on_transfer _ _ _ _ _ _ Ha Hb HPa HonP)).
    assert (On2 : jac_on F1 a1 b1 Q1) by (exact (aff_on_transfer _ _ _ _ _ _ Ha Hb HQa HonQ)).
    pose proof (sw_add_correct F1 a1 b1 (gf_th _ G) (gf_eqb _ G) (gf_two _ G) P1 Q1 On1 On2) as E.
    pose proof (sw_to_affine_R _ _ TR _ _ FR _ _ (sw_add_R _ _ TR _ _ FR _ _ Ha _ _ HP _ _ HQ)) as L.
    pose proof (aff_add_sw_R _ _ TR _ _ FR _ _ Ha _ _ HPa _ _ HQa) as R.
    rewrite E in L. exact (affR_fun _ _ _ L R).
  Qed.
End GenericTransfer.

(* one-to-one relations are closed under pairing *)
Lemma prodR_fun : forall A1 A2 (AR : A1 -> A2 -> Type) B1 B2 (BR : B1 -> B2 -> Type),
  (forall x z1 z2, AR x z1 -> AR x z2 -> z1 = z2) -> (forall x z1 z2, BR x z1 -> BR x z2 -> z1 = z2) ->
  forall x z1 z2, prod_R _ _ AR _ _ BR x z1 -> prod_R _ _ AR _ _ BR x z2 -> z1 = z2.
Proof.
  intros A1 A2 AR B1 B2 BR HA HB x z1 z2 H1 H2. destruct H1 as [a c Ha b d Hb].
  inversion H2 as [a' c' Ha' b' d' Hb' E1 E2]. subst. f_equal; [eapply HA | eapply HB]; eassumption.
Qed.
Lemma prodR_inj : forall A1 A2 (AR : A1 -> A2 -> Type) B1 B2 (BR : B1 -> B2 -> Type),
  (forall x1 x2 z, AR x1 z -> AR x2 z -> x1 = x2) -> (forall x1 x2 z, BR x1 z -> BR x2 z -> x1 = x2) ->
  forall x1 x2 z, prod_R _ _ AR _ _ BR x1 z -> prod_R _ _ AR _ _ BR x2 z -> x1 = x2.
Proof.
  intros A1 A2 AR B1 B2 BR HA HB x1 x2 z H1 H2. destruct H1 as [a c Ha b d Hb].
  inversion H2 as [a' c' Ha' b' d' Hb' E1 E2]. subst. f_equal; [eapply HA | eapply HB]; eassumption.
Qed.

(* Fp2 = Fp[X]/(X^2 - nr) as executed: QuadOps (ZpOps p) nr on pairs of canonical residues *)
Definition canon2 (p : Z) (x : Z * Z) : Prop := canon p (fst x) /\ canon p (snd x).
Definition lift2 (p : Z) (x : Z * Z) : Fp p * Fp p := (fp_of p (fst x), fp_of p (snd x)).
Lemma lift2_R : forall p x, canon2 p x -> prod_R _ _ (Rp p) _ _ (Rp p) (lift2 p x) x.
Proof. intros p [x y] [Hx Hy]. constructor; apply Rp_lift; assumption. Qed.

Theorem sw_add_Zp2 : forall p, prime p -> 2 < p ->
  forall nr, canon p nr -> (forall w, canon p w -> fmul (ZpOps p) w w <> nr) ->
  forall a b P Q, canon2 p a -> canon2 p b ->
  canon2 p (fst (fst P)) /\ canon2 p (snd (fst P)) /\ canon2 p (snd P) ->
  canon2 p (fst (fst Q)) /\ canon2 p (snd (fst Q)) /\ canon2 p (snd Q) ->
  jac_on (QuadOps (ZpOps p) nr) a b P -> jac_on (QuadOps (ZpOps p) nr) a b Q ->
  sw_to_affine (QuadOps (ZpOps p) nr) (sw_add (QuadOps (ZpOps p) nr) a P Q) =
  aff_add_sw (QuadOps (ZpOps p) nr) a (sw_to_affine (QuadOps (ZpOps p) nr) P)
                                      (sw_to_affine (QuadOps (ZpOps p) nr) Q).
Proof.
  intros p Hp H2 nr Hnr Hns a b [[Px Py] Pz] [[Qx Qy] Qz] Ha Hb (HP1 & HP2 & HP3) (HQ1 & HQ2 & HQ3).
  cbn [fst snd] in *.
  assert (Hp0 : 0 < p) by lia.
  apply (sw_add_transfer (prod_R _ _ (Rp p) _ _ (Rp p)) (QuadOps (FpOps p) (fp_of p nr)) (QuadOps (ZpOps p) nr)
           (QuadOps_R _ _ (Rp p) _ _ (FpZp_R p) _ _ (Rp_lift p nr Hnr))
           (prodR_fun _ _ _ _ _ _ (Rp_fun p) (Rp_fun p)) (prodR_inj _ _ _ _ _ _ (Rp_inj p) (Rp_inj p)))
    with (a1 := lift2 p a) (b1 := lift2 p b) (P1 := (lift2 p Px, lift2 p Py, lift2 p Pz))
         (Q1 := (lift2 p Qx, lift2 p Qy, lift2 p Qz)).
  - apply Quad_good_field; [apply FpOps_good_field; assumption|].
    intros w E. apply (Hns (fpv w)); [apply fpv_canon; exact Hp0|].
    apply (f_equal fpv) in E. rewrite (fp_of_val p nr Hnr) in E. exact E.
  - apply lift2_R; assumption.
  - apply lift2_R; assumption.
  - repeat constructor; apply lift2_R; assumption.
  - repeat constructor; apply lift2_R; assumption.
Qed.

(* ------------------------------------------------------------------ *)
(* the hypotheses are satisfiable: p = 13                              *)
(* ------------------------------------------------------------------ *)

Lemma canon13_cases : forall x, canon 13 x ->
  x = 0 \/ x = 1 \/ x = 2 \/ x = 3 \/ x = 4 \/ x = 5 \/ x = 6 \/ x = 7 \/ x = 8 \/ x = 9 \/
  x = 10 \/ x = 11 \/ x = 12.
Proof. unfold canon. intros. lia. Qed.

(* y^2 = x^3 + 2 over F_13: (1, 4) and (4 : 6 : 2) ~ (1, 4) doubled *)
Lemma ex13_sw_hyps :
  canon 13 0 /\ canon 13 2 /\ canon_jac 13 (1, 4, 1) /\ canon_jac 13 (4, 6, 2) /\
  jac_on (ZpOps 13) 0 2 (1, 4, 1) /\ jac_on (ZpOps 13) 0 2 (4, 6, 2).
Proof.
  unfold canon_jac, canon. cbn [fst snd].
  repeat split; try lia; vm_compute; reflexivity.
Qed.

(* 5 is a primitive 4th root of unity mod 13 (5^2 = -1); coset offset 2 *)
Lemma ex13_fft_hyps :
  canon 13 5 /\ canon 13 2 /\ Forall (canon 13) [1; 2; 3; 4] /\
  length [1; 2; 3; 4] = (2 ^ 2)%nat /\ prim_root (ZpOps 13) 2 5.
Proof.
  unfold canon. repeat split; try lia.
  - repeat constructor; lia.
Qed.

(* 13 - 1 = 2^2 * 3, 8 = 2^3 has order 4 *)
Lemma ex13_ts_hyps :
  (1 <= 2)%nat /\ 0 <= 1 /\ canon 13 8 /\
  (forall x, canon 13 x -> x <> 0 ->
     pow (f1 (ZpOps 13)) (fmul (ZpOps 13)) x (2 ^ Z.of_nat 2 * (2 * 1 + 1)) = f1 (ZpOps 13)) /\
  sqn (fmul (ZpOps 13)) (2 - 1) 8 = fneg (ZpOps 13) (f1 (ZpOps 13)).
Proof.
  unfold canon. repeat split; try lia.
  intros x Hx Hn. apply canon13_cases in Hx.
  repeat (destruct Hx as [-> | Hx]; [try (exfalso; apply Hn; reflexivity); vm_compute; reflexivity|]).
  subst x. vm_compute. reflexivity.
Qed.

(* 2 is not a square mod 13; the points above embedded in F_13[X]/(X^2 - 2) *)
Lemma ex13_fp2_hyps :
  canon 13 2 /\ (forall w, canon 13 w -> fmul (ZpOps 13) w w <> 2) /\
  jac_on (QuadOps (ZpOps 13) 2) (0, 0) (2, 0) ((1, 0), (4, 0), (1, 0)) /\
  jac_on (QuadOps (ZpOps 13) 2) (0, 0) (2, 0) ((4, 0), (6, 0), (2, 0)).
Proof.
  split; [unfold canon; lia|]. split.
  - intros w Hw. apply canon13_cases in Hw.
    repeat (destruct Hw as [-> | Hw]; [vm_compute; discriminate|]). subst w. vm_compute. discriminate.
  - split; vm_compute; reflexivity.
Qed.
