(* Base/ZpTransfer2 -- (1) a small generic toolkit for the transfer recipe of
   props/Bridge/NOTES.md: relations that are graphs of a projection ([is_graph]), lifts of
   canonical values ([lift_ok]), injectivity, closed under list / product / option;
   (2) the recipe applied to the remaining headline theorems of C03 (short Weierstrass:
   madd, double, neg, sub, eqb, normalize_batch, closure; twisted Edwards: add, madd, double,
   neg, eqb, completeness), all for the EXECUTED dictionary [ZpOps p] on canonical inputs. *)
From Param Require Import Param.
From V Require Import Base.Field Base.ZpField Base.ExtField Base.ZpInstances Base.ZpTransfer.
From V Require Import C03.SWModel C03.TEModel C03.SWProofs C03.TEProofs C03.TEComplete C03.FieldHyp.
Require Import Znumtheory Lia.

(* ------------------------------------------------------------------ *)
(* generic toolkit                                                     *)
(* ------------------------------------------------------------------ *)

(* R is the graph of v *)
Definition is_graph {A1 A2 : Type} (R : A1 -> A2 -> Type) (v : A1 -> A2) : Type :=
  ((forall x z, R x z -> v x = z) * (forall x, R x (v x)))%type.
(* canonical values of the second type have a preimage *)
Definition lift_ok {A1 A2 : Type} (v : A1 -> A2) (C : A2 -> Prop) (l : A2 -> A1) : Prop :=
  forall z, C z -> v (l z) = z.
Definition inj {A1 A2 : Type} (v : A1 -> A2) : Prop := forall x y, v x = v y -> x = y.

Definition pmap {A1 A2 B1 B2 : Type} (f : A1 -> A2) (g : B1 -> B2) (x : A1 * B1) : A2 * B2 :=
  (f (fst x), g (snd x)).
Definition pcanon {A B : Type} (CA : A -> Prop) (CB : B -> Prop) (z : A * B) : Prop :=
  CA (fst z) /\ CB (snd z).
Definition ocanon {A : Type} (C : A -> Prop) (z : option A) : Prop :=
  match z with None => True | Some x => C x end.

Lemma graph_Rp : forall p, is_graph (Rp p) fpv.
Proof. intros p. split; [intros x z H; exact H | intros x; reflexivity]. Qed.
Lemma graph_nat : is_graph nat_R (fun n => n).
Proof. split; [intros x z H; apply nat_R_eq, H | apply nat_R_refl]. Qed.
Lemma graph_Z : is_graph Z_R (fun n => n).
Proof. split; [intros x z H; apply Z_R_eq, H | apply Z_R_refl]. Qed.
Lemma graph_bool : is_graph bool_R (fun n => n).
Proof. split; [intros x z H; apply bool_R_eq, H | apply bool_R_refl]. Qed.
Lemma graph_list : forall A1 A2 (R : A1 -> A2 -> Type) v, is_graph R v -> is_graph (list_R A1 A2 R) (map v).
Proof.
  intros A1 A2 R v [Gv Gr]. split.
  - induction 1 as [|x z Hxz l1 l2 Hl IH]; [reflexivity|]. cbn [map]. rewrite (Gv _ _ Hxz), IH. reflexivity.
  - induction x; constructor; [apply Gr | assumption].
Qed.
Lemma graph_prod : forall A1 A2 (RA : A1 -> A2 -> Type) va B1 B2 (RB : B1 -> B2 -> Type) vb,
  is_graph RA va -> is_graph RB vb -> is_graph (prod_R A1 A2 RA B1 B2 RB) (pmap va vb).
Proof.
  intros A1 A2 RA va B1 B2 RB vb [Av Ar] [Bv Br]. split.
  - intros x z H. destruct H as [a c Ha b d Hb]. unfold pmap. cbn [fst snd].
    rewrite (Av _ _ Ha), (Bv _ _ Hb). reflexivity.
  - intros [a b]. constructor; [apply Ar | apply Br].
Qed.
Lemma graph_option : forall A1 A2 (R : A1 -> A2 -> Type) v, is_graph R v -> is_graph (option_R A1 A2 R) (option_map v).
Proof.
  intros A1 A2 R v [Gv Gr]. split.
  - intros x z H. destruct H as [a c Ha|]; [|reflexivity]. cbn. rewrite (Gv _ _ Ha). reflexivity.
  - intros [a|]; constructor. apply Gr.
Qed.

Lemma lift_fp : forall p, lift_ok (@fpv p) (canon p) (fp_of p).
Proof. intros p z H. apply fp_of_val, H. Qed.
Lemma lift_id : forall A, lift_ok (fun x : A => x) (fun _ => True) (fun x => x).
Proof. intros A z _. reflexivity. Qed.
Lemma lift_list : forall A1 A2 (v : A1 -> A2) C l, lift_ok v C l -> lift_ok (map v) (Forall C) (map l).
Proof.
  intros A1 A2 v C l H z Hz. induction Hz as [|x z Hx Hz IH]; [reflexivity|].
  cbn [map]. rewrite (H _ Hx), IH. reflexivity.
Qed.
Lemma lift_prod : forall A1 A2 (va : A1 -> A2) CA la B1 B2 (vb : B1 -> B2) CB lb,
  lift_ok va CA la -> lift_ok vb CB lb -> lift_ok (pmap va vb) (pcanon CA CB) (pmap la lb).
Proof.
  intros A1 A2 va CA la B1 B2 vb CB lb Ha Hb [x y] [Hx Hy]. unfold pmap. cbn [fst snd] in *.
  rewrite (Ha _ Hx), (Hb _ Hy). reflexivity.
Qed.
Lemma lift_option : forall A1 A2 (v : A1 -> A2) C l,
  lift_ok v C l -> lift_ok (option_map v) (ocanon C) (option_map l).
Proof. intros A1 A2 v C l H [x|] Hx; [|reflexivity]. cbn in *. rewrite (H _ Hx). reflexivity. Qed.

Lemma inj_fpv : forall p, inj (@fpv p).
Proof. intros p x y. apply fp_eq. Qed.
Lemma inj_list : forall A1 A2 (v : A1 -> A2), inj v -> inj (map v).
Proof.
  intros A1 A2 v Hv x. induction x as [|a x IH]; intros [|b y] H; try discriminate H; [reflexivity|].
  cbn [map] in H. injection H as H1 H2. f_equal; [apply Hv, H1 | apply IH, H2].
Qed.
Lemma inj_prod : forall A1 A2 (va : A1 -> A2) B1 B2 (vb : B1 -> B2), inj va -> inj vb -> inj (pmap va vb).
Proof.
  intros A1 A2 va B1 B2 vb Ha Hb [a b] [c d] H. unfold pmap in H. cbn [fst snd] in H.
  injection H as H1 H2. f_equal; [apply Ha, H1 | apply Hb, H2].
Qed.
Lemma inj_option : forall A1 A2 (v : A1 -> A2), inj v -> inj (option_map v).
Proof.
  intros A1 A2 v Hv [a|] [b|] H; try discriminate H; [|reflexivity].
  cbn in H. injection H as H. f_equal. apply Hv, H.
Qed.

(* equality of field elements is equality of the underlying integers *)
Lemma fpv_eq_iff : forall p (x y : Fp p), x = y <-> fpv x = fpv y.
Proof. intros p x y. split; [intros ->; reflexivity | apply fp_eq]. Qed.
Lemma fpv_neq_iff : forall p (x y : Fp p), x <> y <-> fpv x <> fpv y.
Proof. intros p x y. rewrite fpv_eq_iff. reflexivity. Qed.

(* values of FpOps are canonical *)
Lemma list_val_canon : forall p (l : list (Fp p)), 0 < p -> Forall (canon p) (list_val l).
Proof. intros p l Hp. unfold list_val. induction l; constructor; [apply fpv_canon, Hp | assumption]. Qed.

(* Paramcoq cannot translate fixpoints whose body is not literally the match on the structural
   argument (it leaves proof obligations that cannot be discharged in batch mode).  For such
   functions the relational term is proved by hand and registered as a [Realizer]; every
   function that merely USES them then translates.  [Nat.sub] and [Nat.max] are of that kind. *)
Lemma nat2_RR (f : nat -> nat -> nat) :
  forall n1 n2, nat_R n1 n2 -> forall m1 m2, nat_R m1 m2 -> nat_R (f n1 m1) (f n2 m2).
Proof. intros n1 n2 Hn m1 m2 Hm. apply nat_R_eq in Hn. apply nat_R_eq in Hm. subst. apply nat_R_refl. Qed.
Realizer Nat.sub as Nat_sub_R := (nat2_RR Nat.sub).
Realizer Nat.max as Nat_max_R := (nat2_RR Nat.max).

(* ------------------------------------------------------------------ *)
(* C03 containers                                                      *)
(* ------------------------------------------------------------------ *)

Definition te_val {p} (P : Fp p * Fp p * Fp p * Fp p) : Z * Z * Z * Z := pmap jac_val fpv P.
Definition te_lift (p : Z) (P : Z * Z * Z * Z) : Fp p * Fp p * Fp p * Fp p := pmap (jac_lift p) (fp_of p) P.
Definition canon_te (p : Z) (P : Z * Z * Z * Z) : Prop := canon_jac p (fst P) /\ canon p (snd P).
Definition canon_pair (p : Z) (A : Z * Z) : Prop := canon p (fst A) /\ canon p (snd A).
Definition pair_lift (p : Z) (A : Z * Z) : Fp p * Fp p := (fp_of p (fst A), fp_of p (snd A)).

Lemma graph_pair : forall p, is_graph (prod_R _ _ (Rp p) _ _ (Rp p)) (@pair_val p).
Proof. intros p. exact (graph_prod _ _ _ _ _ _ _ _ (graph_Rp p) (graph_Rp p)). Qed.
Lemma graph_aff : forall p, is_graph (option_R _ _ (prod_R _ _ (Rp p) _ _ (Rp p))) (@aff_val p).
Proof. intros p. exact (graph_option _ _ _ _ (graph_pair p)). Qed.
Lemma graph_jac : forall p, is_graph (prod_R _ _ (prod_R _ _ (Rp p) _ _ (Rp p)) _ _ (Rp p)) (@jac_val p).
Proof. intros p. exact (graph_prod _ _ _ _ _ _ _ _ (graph_pair p) (graph_Rp p)). Qed.
Lemma graph_te : forall p,
  is_graph (prod_R _ _ (prod_R _ _ (prod_R _ _ (Rp p) _ _ (Rp p)) _ _ (Rp p)) _ _ (Rp p)) (@te_val p).
Proof. intros p. exact (graph_prod _ _ _ _ _ _ _ _ (graph_jac p) (graph_Rp p)). Qed.

Lemma pair_lift_val : forall p A, canon_pair p A -> pair_val (pair_lift p A) = A.
Proof.
  intros p [x y] [Hx Hy]. unfold pair_val, pair_lift. cbn [fst snd] in *.
  rewrite !fp_of_val by assumption. reflexivity.
Qed.
Lemma te_lift_val : forall p P, canon_te p P -> te_val (te_lift p P) = P.
Proof.
  intros p [P z] [HP Hz]. unfold te_val, te_lift, pmap. cbn [fst snd] in *.
  rewrite jac_lift_val, fp_of_val by assumption. reflexivity.
Qed.
Lemma jacs_lift_val : forall p v, Forall (canon_jac p) v -> map jac_val (map (jac_lift p) v) = v.
Proof. intros p. apply lift_list. intros P HP. apply jac_lift_val, HP. Qed.
Lemma jac_val_canon : forall p (P : Fp p * Fp p * Fp p), 0 < p -> canon_jac p (jac_val P).
Proof. intros p [[x y] z] Hp. repeat split; apply fpv_canon, Hp. Qed.
Lemma aff_val_canon : forall p (A : option (Fp p * Fp p)), 0 < p -> canon_aff p (aff_val A).
Proof. intros p [[x y]|] Hp; [|exact I]. split; apply fpv_canon, Hp. Qed.
Lemma te_val_canon : forall p (P : Fp p * Fp p * Fp p * Fp p), 0 < p -> canon_te p (te_val P).
Proof. intros p [[[x y] t] z] Hp. repeat split; apply fpv_canon, Hp. Qed.
Lemma aff_val_inj : forall p, inj (@aff_val p).
Proof. intros p. apply inj_option. exact (inj_prod _ _ _ _ _ _ (inj_fpv p) (inj_fpv p)). Qed.
Lemma pair_val_inj : forall p, inj (@pair_val p).
Proof. intros p. exact (inj_prod _ _ _ _ _ _ (inj_fpv p) (inj_fpv p)). Qed.

(* ------------------------------------------------------------------ *)
(* C03 short Weierstrass: value lemmas                                 *)
(* ------------------------------------------------------------------ *)

Parametricity Recursive sw_madd qualified.
Parametricity Recursive sw_neg qualified.
Parametricity Recursive sw_sub qualified.
Parametricity Recursive sw_msub qualified.
Parametricity Recursive sw_eqb qualified.
Parametricity Recursive sw_normalize_batch qualified.
Parametricity Recursive aff_neg_sw qualified.
Parametricity Recursive sw_of_affine qualified.

Lemma sw_madd_val : forall p a (P : Fp p * Fp p * Fp p) Q,
  jac_val (sw_madd (FpOps p) a P Q) = sw_madd (ZpOps p) (fpv a) (jac_val P) (aff_val Q).
Proof.
  intros p a P Q. apply (fst (graph_jac p)).
  apply (V_o_C03_o_SWModel_o_sw_madd_R _ _ (Rp p) _ _ (FpZp_R p) _ _ (Rp_fpv p a));
    [apply (snd (graph_jac p)) | apply (snd (graph_aff p))].
Qed.
Lemma sw_double_val : forall p a (P : Fp p * Fp p * Fp p),
  jac_val (sw_double (FpOps p) a P) = sw_double (ZpOps p) (fpv a) (jac_val P).
Proof.
  intros p a P. apply (fst (graph_jac p)).
  apply (sw_double_R _ _ (Rp p) _ _ (FpZp_R p) _ _ (Rp_fpv p a)); apply (snd (graph_jac p)).
Qed.
Lemma sw_neg_val : forall p (P : Fp p * Fp p * Fp p),
  jac_val (sw_neg (FpOps p) P) = sw_neg (ZpOps p) (jac_val P).
Proof.
  intros p P. apply (fst (graph_jac p)).
  apply (V_o_C03_o_SWModel_o_sw_neg_R _ _ (Rp p) _ _ (FpZp_R p)); apply (snd (graph_jac p)).
Qed.
Lemma sw_sub_val : forall p a (P Q : Fp p * Fp p * Fp p),
  jac_val (sw_sub (FpOps p) a P Q) = sw_sub (ZpOps p) (fpv a) (jac_val P) (jac_val Q).
Proof.
  intros p a P Q. apply (fst (graph_jac p)).
  apply (V_o_C03_o_SWModel_o_sw_sub_R _ _ (Rp p) _ _ (FpZp_R p) _ _ (Rp_fpv p a)); apply (snd (graph_jac p)).
Qed.
Lemma sw_msub_val : forall p a (P : Fp p * Fp p * Fp p) Q,
  jac_val (sw_msub (FpOps p) a P Q) = sw_msub (ZpOps p) (fpv a) (jac_val P) (aff_val Q).
Proof.
  intros p a P Q. apply (fst (graph_jac p)).
  apply (V_o_C03_o_SWModel_o_sw_msub_R _ _ (Rp p) _ _ (FpZp_R p) _ _ (Rp_fpv p a));
    [apply (snd (graph_jac p)) | apply (snd (graph_aff p))].
Qed.
Lemma sw_eqb_val : forall p (P Q : Fp p * Fp p * Fp p),
  sw_eqb (FpOps p) P Q = sw_eqb (ZpOps p) (jac_val P) (jac_val Q).
Proof.
  intros p P Q. apply bool_R_eq.
  apply (V_o_C03_o_SWModel_o_sw_eqb_R _ _ (Rp p) _ _ (FpZp_R p)); apply (snd (graph_jac p)).
Qed.
Lemma aff_neg_sw_val : forall p (A : option (Fp p * Fp p)),
  aff_val (aff_neg_sw (FpOps p) A) = aff_neg_sw (ZpOps p) (aff_val A).
Proof.
  intros p A. apply (fst (graph_aff p)).
  apply (V_o_C03_o_SWModel_o_aff_neg_sw_R _ _ (Rp p) _ _ (FpZp_R p)); apply (snd (graph_aff p)).
Qed.
Lemma sw_of_affine_val : forall p (A : option (Fp p * Fp p)),
  jac_val (sw_of_affine (FpOps p) A) = sw_of_affine (ZpOps p) (aff_val A).
Proof.
  intros p A. apply (fst (graph_jac p)).
  apply (V_o_C03_o_SWModel_o_sw_of_affine_R _ _ (Rp p) _ _ (FpZp_R p)); apply (snd (graph_aff p)).
Qed.
Lemma sw_normalize_batch_val : forall p (v : list (Fp p * Fp p * Fp p)),
  map aff_val (sw_normalize_batch (FpOps p) v) = sw_normalize_batch (ZpOps p) (map jac_val v).
Proof.
  intros p v. apply (fst (graph_list _ _ _ _ (graph_aff p))).
  apply (V_o_C03_o_SWModel_o_sw_normalize_batch_R _ _ (Rp p) _ _ (FpZp_R p)).
  apply (snd (graph_list _ _ _ _ (graph_jac p))).
Qed.

(* ------------------------------------------------------------------ *)
(* C03 short Weierstrass at the executed dictionary                    *)
(* ------------------------------------------------------------------ *)

Section SWZp.
  Variable p : Z.
  Hypothesis Hp : prime p.
  Hypothesis H2 : 2 < p.
  Let G := FpOps_good_field p Hp H2.
  Local Notation F := (ZpOps p).

  Theorem sw_madd_Zp : forall a b P Q, canon p a -> canon p b -> canon_jac p P -> canon_aff p Q ->
    jac_on F a b P -> aff_on F a b Q ->
    sw_to_affine F (sw_madd F a P Q) = aff_add_sw F a (sw_to_affine F P) Q.
  Proof.
    intros a b P Q Ha Hb HP HQ HonP HonQ.
    rewrite <- (fp_of_val p a Ha), <- (fp_of_val p b Hb),
            <- (jac_lift_val p P HP), <- (aff_lift_val p Q HQ) in *.
    apply jac_on_val in HonP. apply aff_on_val in HonQ.
    rewrite <- sw_madd_val, <- !sw_to_affine_val, <- aff_add_sw_val. f_equal.
    exact (sw_madd_correct (FpOps p) _ _ (gf_th _ G) (gf_eqb _ G) (gf_two _ G) _ _ HonP HonQ).
  Qed.

  Theorem sw_double_Zp : forall a P, canon p a -> canon_jac p P ->
    sw_to_affine F (sw_double F a P) = aff_add_sw F a (sw_to_affine F P) (sw_to_affine F P).
  Proof.
    intros a P Ha HP.
    rewrite <- (fp_of_val p a Ha), <- (jac_lift_val p P HP).
    rewrite <- sw_double_val, <- !sw_to_affine_val, <- aff_add_sw_val. f_equal.
    exact (sw_double_correct (FpOps p) _ (gf_th _ G) (gf_eqb _ G) (gf_two _ G) _).
  Qed.

  Theorem sw_neg_Zp : forall P, canon_jac p P ->
    sw_to_affine F (sw_neg F P) = aff_neg_sw F (sw_to_affine F P).
  Proof.
    intros P HP. rewrite <- (jac_lift_val p P HP).
    rewrite <- sw_neg_val, <- !sw_to_affine_val, <- aff_neg_sw_val. f_equal.
    exact (sw_neg_correct (FpOps p) (gf_th _ G) (gf_eqb _ G) _).
  Qed.

  Theorem sw_sub_Zp : forall a b P Q, canon p a -> canon p b -> canon_jac p P -> canon_jac p Q ->
    jac_on F a b P -> jac_on F a b Q ->
    sw_to_affine F (sw_sub F a P Q) = aff_add_sw F a (sw_to_affine F P) (aff_neg_sw F (sw_to_affine F Q)).
  Proof.
    intros a b P Q Ha Hb HP HQ HonP HonQ.
    rewrite <- (fp_of_val p a Ha), <- (fp_of_val p b Hb),
            <- (jac_lift_val p P HP), <- (jac_lift_val p Q HQ) in *.
    apply jac_on_val in HonP. apply jac_on_val in HonQ.
    rewrite <- sw_sub_val, <- !sw_to_affine_val, <- aff_neg_sw_val, <- aff_add_sw_val. f_equal.
    exact (sw_sub_correct (FpOps p) _ _ (gf_th _ G) (gf_eqb _ G) (gf_two _ G) _ _ HonP HonQ).
  Qed.

  Theorem sw_msub_Zp : forall a b P Q, canon p a -> canon p b -> canon_jac p P -> canon_aff p Q ->
    jac_on F a b P -> aff_on F a b Q ->
    sw_to_affine F (sw_msub F a P Q) = aff_add_sw F a (sw_to_affine F P) (aff_neg_sw F Q).
  Proof.
    intros a b P Q Ha Hb HP HQ HonP HonQ.
    rewrite <- (fp_of_val p a Ha), <- (fp_of_val p b Hb),
            <- (jac_lift_val p P HP), <- (aff_lift_val p Q HQ) in *.
    apply jac_on_val in HonP. apply aff_on_val in HonQ.
    rewrite <- sw_msub_val, <- !sw_to_affine_val, <- aff_neg_sw_val, <- aff_add_sw_val. f_equal.
    exact (sw_msub_correct (FpOps p) _ _ (gf_th _ G) (gf_eqb _ G) (gf_two _ G) _ _ HonP HonQ).
  Qed.

  Theorem sw_eqb_Zp : forall P Q, canon_jac p P -> canon_jac p Q ->
    (sw_eqb F P Q = true <-> sw_to_affine F P = sw_to_affine F Q).
  Proof.
    intros P Q HP HQ. rewrite <- (jac_lift_val p P HP), <- (jac_lift_val p Q HQ).
    rewrite <- sw_eqb_val, <- !sw_to_affine_val.
    rewrite (sw_eqb_spec (FpOps p) (gf_th _ G) (gf_eqb _ G)).
    split; [intros ->; reflexivity | apply aff_val_inj].
  Qed.

  Theorem sw_normalize_batch_Zp : forall v, Forall (canon_jac p) v ->
    sw_normalize_batch F v = map (sw_to_affine F) v.
  Proof.
    intros v Hv. rewrite <- (jacs_lift_val p v Hv).
    rewrite <- sw_normalize_batch_val.
    rewrite (sw_normalize_batch_spec (FpOps p) (gf_th _ G) (gf_eqb _ G)).
    rewrite !map_map. apply map_ext. intros P. apply sw_to_affine_val.
  Qed.

  (* results stay on the curve *)
  Theorem sw_add_on_curve_Zp : forall a b P Q, canon p a -> canon p b -> canon_jac p P -> canon_jac p Q ->
    jac_on F a b P -> jac_on F a b Q -> jac_on F a b (sw_add F a P Q).
  Proof.
    intros a b P Q Ha Hb HP HQ HonP HonQ.
    rewrite <- (fp_of_val p a Ha), <- (fp_of_val p b Hb),
            <- (jac_lift_val p P HP), <- (jac_lift_val p Q HQ) in *.
    apply jac_on_val in HonP. apply jac_on_val in HonQ.
    rewrite <- sw_add_val. apply jac_on_val.
    exact (sw_add_on_curve (FpOps p) _ _ (gf_th _ G) (gf_eqb _ G) (gf_two _ G) _ _ HonP HonQ).
  Qed.
  Theorem sw_madd_on_curve_Zp : forall a b P Q, canon p a -> canon p b -> canon_jac p P -> canon_aff p Q ->
    jac_on F a b P -> aff_on F a b Q -> jac_on F a b (sw_madd F a P Q).
  Proof.
    intros a b P Q Ha Hb HP HQ HonP HonQ.
    rewrite <- (fp_of_val p a Ha), <- (fp_of_val p b Hb),
            <- (jac_lift_val p P HP), <- (aff_lift_val p Q HQ) in *.
    apply jac_on_val in HonP. apply aff_on_val in HonQ.
    rewrite <- sw_madd_val. apply jac_on_val.
    exact (sw_madd_on_curve (FpOps p) _ _ (gf_th _ G) (gf_eqb _ G) (gf_two _ G) _ _ HonP HonQ).
  Qed.
  Theorem sw_double_on_curve_Zp : forall a b P, canon p a -> canon p b -> canon_jac p P ->
    jac_on F a b P -> jac_on F a b (sw_double F a P).
  Proof.
    intros a b P Ha Hb HP HonP.
    rewrite <- (fp_of_val p a Ha), <- (fp_of_val p b Hb), <- (jac_lift_val p P HP) in *.
    apply jac_on_val in HonP. rewrite <- sw_double_val. apply jac_on_val.
    exact (sw_double_on_curve (FpOps p) _ _ (gf_th _ G) (gf_eqb _ G) (gf_two _ G) _ HonP).
  Qed.
End SWZp.

(* closure under canonicity: results of the executed dictionary are canonical *)
Lemma sw_madd_canon : forall p, 0 < p -> forall a P Q, canon p a -> canon_jac p P -> canon_aff p Q ->
  canon_jac p (sw_madd (ZpOps p) a P Q).
Proof.
  intros p Hp a P Q Ha HP HQ.
  rewrite <- (fp_of_val p a Ha), <- (jac_lift_val p P HP), <- (aff_lift_val p Q HQ).
  rewrite <- sw_madd_val. apply jac_val_canon, Hp.
Qed.
Lemma sw_double_canon : forall p, 0 < p -> forall a P, canon p a -> canon_jac p P ->
  canon_jac p (sw_double (ZpOps p) a P).
Proof.
  intros p Hp a P Ha HP. rewrite <- (fp_of_val p a Ha), <- (jac_lift_val p P HP).
  rewrite <- sw_double_val. apply jac_val_canon, Hp.
Qed.
Lemma sw_neg_canon : forall p, 0 < p -> forall P, canon_jac p P -> canon_jac p (sw_neg (ZpOps p) P).
Proof.
  intros p Hp P HP. rewrite <- (jac_lift_val p P HP). rewrite <- sw_neg_val. apply jac_val_canon, Hp.
Qed.
Lemma sw_to_affine_canon : forall p, 0 < p -> forall P, canon_jac p P -> canon_aff p (sw_to_affine (ZpOps p) P).
Proof.
  intros p Hp P HP. rewrite <- (jac_lift_val p P HP). rewrite <- sw_to_affine_val. apply aff_val_canon, Hp.
Qed.

(* ------------------------------------------------------------------ *)
(* C03 twisted Edwards                                                 *)
(* ------------------------------------------------------------------ *)

Parametricity Recursive te_add qualified.
Parametricity Recursive te_madd qualified.
Parametricity Recursive te_double qualified.
Parametricity Recursive te_neg qualified.
Parametricity Recursive te_eqb qualified.
Parametricity Recursive te_to_affine qualified.
Parametricity Recursive aff_add_te qualified.
Parametricity Recursive aff_neg_te qualified.

Local Notation teR p := (prod_R _ _ (prod_R _ _ (prod_R _ _ (Rp p) _ _ (Rp p)) _ _ (Rp p)) _ _ (Rp p)).

Lemma te_add_val : forall p a d (P Q : Fp p * Fp p * Fp p * Fp p),
  te_val (te_add (FpOps p) a d P Q) = te_add (ZpOps p) (fpv a) (fpv d) (te_val P) (te_val Q).
Proof.
  intros p a d P Q. apply (fst (graph_te p)).
  apply (V_o_C03_o_TEModel_o_te_add_R _ _ (Rp p) _ _ (FpZp_R p) _ _ (Rp_fpv p a) _ _ (Rp_fpv p d));
    apply (snd (graph_te p)).
Qed.
Lemma te_madd_val : forall p a d (P : Fp p * Fp p * Fp p * Fp p) (Q : Fp p * Fp p),
  te_val (te_madd (FpOps p) a d P Q) = te_madd (ZpOps p) (fpv a) (fpv d) (te_val P) (pair_val Q).
Proof.
  intros p a d P Q. apply (fst (graph_te p)).
  apply (V_o_C03_o_TEModel_o_te_madd_R _ _ (Rp p) _ _ (FpZp_R p) _ _ (Rp_fpv p a) _ _ (Rp_fpv p d));
    [apply (snd (graph_te p)) | apply (snd (graph_pair p))].
Qed.
Lemma te_double_val : forall p a (P : Fp p * Fp p * Fp p * Fp p),
  te_val (te_double (FpOps p) a P) = te_double (ZpOps p) (fpv a) (te_val P).
Proof.
  intros p a P. apply (fst (graph_te p)).
  apply (V_o_C03_o_TEModel_o_te_double_R _ _ (Rp p) _ _ (FpZp_R p) _ _ (Rp_fpv p a)); apply (snd (graph_te p)).
Qed.
Lemma te_neg_val : forall p (P : Fp p * Fp p * Fp p * Fp p),
  te_val (te_neg (FpOps p) P) = te_neg (ZpOps p) (te_val P).
Proof.
  intros p P. apply (fst (graph_te p)).
  apply (V_o_C03_o_TEModel_o_te_neg_R _ _ (Rp p) _ _ (FpZp_R p)); apply (snd (graph_te p)).
Qed.
Lemma te_eqb_val : forall p (P Q : Fp p * Fp p * Fp p * Fp p),
  te_eqb (FpOps p) P Q = te_eqb (ZpOps p) (te_val P) (te_val Q).
Proof.
  intros p P Q. apply bool_R_eq.
  apply (V_o_C03_o_TEModel_o_te_eqb_R _ _ (Rp p) _ _ (FpZp_R p)); apply (snd (graph_te p)).
Qed.
Lemma te_to_affine_val : forall p (P : Fp p * Fp p * Fp p * Fp p),
  pair_val (te_to_affine (FpOps p) P) = te_to_affine (ZpOps p) (te_val P).
Proof.
  intros p P. apply (fst (graph_pair p)).
  apply (V_o_C03_o_TEModel_o_te_to_affine_R _ _ (Rp p) _ _ (FpZp_R p)); apply (snd (graph_te p)).
Qed.
Lemma aff_add_te_val : forall p a d (A B : Fp p * Fp p),
  pair_val (aff_add_te (FpOps p) a d A B) = aff_add_te (ZpOps p) (fpv a) (fpv d) (pair_val A) (pair_val B).
Proof.
  intros p a d A B. apply (fst (graph_pair p)).
  apply (V_o_C03_o_TEModel_o_aff_add_te_R _ _ (Rp p) _ _ (FpZp_R p) _ _ (Rp_fpv p a) _ _ (Rp_fpv p d));
    apply (snd (graph_pair p)).
Qed.
Lemma aff_neg_te_val : forall p (A : Fp p * Fp p),
  pair_val (aff_neg_te (FpOps p) A) = aff_neg_te (ZpOps p) (pair_val A).
Proof.
  intros p A. apply (fst (graph_pair p)).
  apply (V_o_C03_o_TEModel_o_aff_neg_te_R _ _ (Rp p) _ _ (FpZp_R p)); apply (snd (graph_pair p)).
Qed.

(* the Props of the Edwards theorems: built from = and <> on field elements *)
Lemma te_valid_val : forall p (P : Fp p * Fp p * Fp p * Fp p),
  te_valid (FpOps p) P <-> te_valid (ZpOps p) (te_val P).
Proof.
  intros p [[[x y] t] z]. unfold te_valid, te_val, pmap, jac_val. cbn [fst snd].
  rewrite fpv_neq_iff, fpv_eq_iff. reflexivity.
Qed.
Lemma te_aff_on_val : forall p a d (A : Fp p * Fp p),
  te_aff_on (FpOps p) a d A <-> te_aff_on (ZpOps p) (fpv a) (fpv d) (pair_val A).
Proof.
  intros p a d [x y]. unfold te_aff_on, pair_val. cbn [fst snd]. rewrite fpv_eq_iff. reflexivity.
Qed.
Lemma te_dens_ok_val : forall p d (A B : Fp p * Fp p),
  te_dens_ok (FpOps p) d A B <-> te_dens_ok (ZpOps p) (fpv d) (pair_val A) (pair_val B).
Proof.
  intros p d [x1 y1] [x2 y2]. unfold te_dens_ok, pair_val. cbn [fst snd].
  rewrite !fpv_neq_iff. reflexivity.
Qed.

Section TEZp.
  Variable p : Z.
  Hypothesis Hp : prime p.
  Hypothesis H2 : 2 < p.
  Let G := FpOps_good_field p Hp H2.
  Local Notation F := (ZpOps p).

  Theorem te_add_Zp : forall a d P Q, canon p a -> canon p d -> canon_te p P -> canon_te p Q ->
    te_valid F P -> te_valid F Q -> te_dens_ok F d (te_to_affine F P) (te_to_affine F Q) ->
    te_valid F (te_add F a d P Q) /\
    te_to_affine F (te_add F a d P Q) = aff_add_te F a d (te_to_affine F P) (te_to_affine F Q).
  Proof.
    intros a d P Q Ha Hd HP HQ VP VQ Hden.
    rewrite <- (fp_of_val p a Ha), <- (fp_of_val p d Hd),
            <- (te_lift_val p P HP), <- (te_lift_val p Q HQ) in *.
    apply te_valid_val in VP. apply te_valid_val in VQ.
    rewrite <- !te_to_affine_val in Hden. apply te_dens_ok_val in Hden.
    rewrite <- te_add_val, <- !te_to_affine_val, <- aff_add_te_val.
    destruct (te_add_correct (FpOps p) (fp_of p a) (fp_of p d) (gf_th _ G) (gf_eqb _ G) _ _ VP VQ Hden) as [V E].
    split; [apply te_valid_val; exact V | f_equal; exact E].
  Qed.

  Theorem te_madd_Zp : forall a d P Q, canon p a -> canon p d -> canon_te p P -> canon_pair p Q ->
    te_valid F P -> te_dens_ok F d (te_to_affine F P) Q ->
    te_valid F (te_madd F a d P Q) /\
    te_to_affine F (te_madd F a d P Q) = aff_add_te F a d (te_to_affine F P) Q.
  Proof.
    intros a d P Q Ha Hd HP HQ VP Hden.
    rewrite <- (fp_of_val p a Ha), <- (fp_of_val p d Hd),
            <- (te_lift_val p P HP), <- (pair_lift_val p Q HQ) in *.
    apply te_valid_val in VP.
    rewrite <- !te_to_affine_val in Hden. apply te_dens_ok_val in Hden.
    rewrite <- te_madd_val, <- !te_to_affine_val, <- aff_add_te_val.
    destruct (te_madd_correct (FpOps p) (fp_of p a) (fp_of p d) (gf_th _ G) (gf_eqb _ G) _ _ VP Hden) as [V E].
    split; [apply te_valid_val; exact V | f_equal; exact E].
  Qed.

  Theorem te_double_Zp : forall a d P, canon p a -> canon p d -> canon_te p P ->
    te_valid F P -> te_aff_on F a d (te_to_affine F P) ->
    te_dens_ok F d (te_to_affine F P) (te_to_affine F P) ->
    te_valid F (te_double F a P) /\
    te_to_affine F (te_double F a P) = aff_add_te F a d (te_to_affine F P) (te_to_affine F P).
  Proof.
    intros a d P Ha Hd HP VP Hon Hden.
    rewrite <- (fp_of_val p a Ha), <- (fp_of_val p d Hd), <- (te_lift_val p P HP) in *.
    apply te_valid_val in VP.
    rewrite <- !te_to_affine_val in Hden, Hon. apply te_dens_ok_val in Hden. apply te_aff_on_val in Hon.
    rewrite <- te_double_val, <- !te_to_affine_val, <- aff_add_te_val.
    destruct (te_double_correct (FpOps p) (fp_of p a) (fp_of p d) (gf_th _ G) (gf_eqb _ G) _ VP Hon Hden) as [V E].
    split; [apply te_valid_val; exact V | f_equal; exact E].
  Qed.

  Theorem te_neg_Zp : forall P, canon_te p P -> te_valid F P ->
    te_valid F (te_neg F P) /\ te_to_affine F (te_neg F P) = aff_neg_te F (te_to_affine F P).
  Proof.
    intros P HP VP. rewrite <- (te_lift_val p P HP) in *. apply te_valid_val in VP.
    rewrite <- te_neg_val, <- !te_to_affine_val, <- aff_neg_te_val.
    destruct (te_neg_correct (FpOps p) (gf_th _ G) (gf_eqb _ G) _ VP) as [V E].
    split; [apply te_valid_val; exact V | f_equal; exact E].
  Qed.

  Theorem te_eqb_Zp : forall P Q, canon_te p P -> canon_te p Q -> te_valid F P -> te_valid F Q ->
    (te_eqb F P Q = true <-> te_to_affine F P = te_to_affine F Q).
  Proof.
    intros P Q HP HQ VP VQ. rewrite <- (te_lift_val p P HP), <- (te_lift_val p Q HQ) in *.
    apply te_valid_val in VP. apply te_valid_val in VQ.
    rewrite <- te_eqb_val, <- !te_to_affine_val.
    rewrite (te_eqb_spec (FpOps p) (gf_th _ G) (gf_eqb _ G) _ _ VP VQ).
    split; [intros ->; reflexivity | apply pair_val_inj].
  Qed.

  (* Bernstein-Lange completeness on the executed dictionary: a = s^2, d a non-square *)
  Theorem te_complete_Zp : forall a d s, canon p a -> canon p d -> canon p s ->
    a = fmul F s s -> (forall w, canon p w -> fmul F w w <> d) ->
    forall A B, canon_pair p A -> canon_pair p B ->
    te_aff_on F a d A -> te_aff_on F a d B -> te_dens_ok F d A B.
  Proof.
    intros a d s Ha Hd Hs Hsq Hns A B HA HB OnA OnB.
    assert (Hp0 : 0 < p) by lia.
    rewrite <- (fp_of_val p a Ha), <- (fp_of_val p d Hd),
            <- (pair_lift_val p A HA), <- (pair_lift_val p B HB) in *.
    apply te_aff_on_val in OnA. apply te_aff_on_val in OnB. apply te_dens_ok_val.
    apply (te_complete (FpOps p) (fp_of p a) (fp_of p d) (gf_th _ G) (gf_eqb _ G) (gf_two _ G) (fp_of p s)).
    - apply fp_eq. rewrite Hsq. cbn [fpv fmul FpOps]. rewrite (fp_of_val p s Hs). reflexivity.
    - intros w E. apply (Hns (fpv w)); [apply fpv_canon; exact Hp0|].
      apply (f_equal fpv) in E. exact E.
    - exact OnA.
    - exact OnB.
  Qed.

  (* hence: on a complete curve the unified addition is correct for ALL pairs of valid on-curve points *)
  Theorem te_add_complete_Zp : forall a d s, canon p a -> canon p d -> canon p s ->
    a = fmul F s s -> (forall w, canon p w -> fmul F w w <> d) ->
    forall P Q, canon_te p P -> canon_te p Q -> te_valid F P -> te_valid F Q ->
    te_aff_on F a d (te_to_affine F P) -> te_aff_on F a d (te_to_affine F Q) ->
    te_valid F (te_add F a d P Q) /\
    te_to_affine F (te_add F a d P Q) = aff_add_te F a d (te_to_affine F P) (te_to_affine F Q).
  Proof.
    intros a d s Ha Hd Hs Hsq Hns P Q HP HQ VP VQ OnP OnQ.
    assert (Hp0 : 0 < p) by lia.
    apply te_add_Zp; try assumption.
    apply (te_complete_Zp a d s); try assumption.
    - rewrite <- (te_lift_val p P HP), <- te_to_affine_val.
      destruct (te_to_affine (FpOps p) (te_lift p P)) as [x y]. split; apply fpv_canon, Hp0.
    - rewrite <- (te_lift_val p Q HQ), <- te_to_affine_val.
      destruct (te_to_affine (FpOps p) (te_lift p Q)) as [x y]. split; apply fpv_canon, Hp0.
  Qed.
End TEZp.

(* ------------------------------------------------------------------ *)
(* the hypotheses are satisfiable: p = 13                              *)
(* ------------------------------------------------------------------ *)

(* 12 x^2 + y^2 = 1 + 6 x^2 y^2 over F_13: a = 12 = 5^2, d = 6 a non-square *)
Lemma ex13_te_hyps :
  canon 13 12 /\ canon 13 6 /\ canon 13 5 /\ 12 = fmul (ZpOps 13) 5 5 /\
  (forall w, canon 13 w -> fmul (ZpOps 13) w w <> 6).
Proof.
  unfold canon. repeat split; try lia.
  intros w Hw. apply canon13_cases in Hw.
  repeat (destruct Hw as [-> | Hw]; [vm_compute; discriminate|]). subst w. vm_compute. discriminate.
Qed.
(* two valid representatives of curve points: (1, 6) with Z = 2 and (3, 4) with Z = 1 *)
Lemma ex13_te_points :
  canon_te 13 (2, 12, 12, 2) /\ canon_te 13 (3, 4, 12, 1) /\
  te_valid (ZpOps 13) (2, 12, 12, 2) /\ te_valid (ZpOps 13) (3, 4, 12, 1) /\
  te_aff_on (ZpOps 13) 12 6 (te_to_affine (ZpOps 13) (2, 12, 12, 2)) /\
  te_aff_on (ZpOps 13) 12 6 (te_to_affine (ZpOps 13) (3, 4, 12, 1)).
Proof.
  unfold canon_te, canon_jac, canon. cbn [fst snd].
  repeat split; try lia; try (vm_compute; discriminate); vm_compute; reflexivity.
Qed.
(* the theorem instantiated: unified addition on ALL valid on-curve pairs of this curve *)
Lemma te_add_Zp13 : forall P Q, canon_te 13 P -> canon_te 13 Q ->
  te_valid (ZpOps 13) P -> te_valid (ZpOps 13) Q ->
  te_aff_on (ZpOps 13) 12 6 (te_to_affine (ZpOps 13) P) -> te_aff_on (ZpOps 13) 12 6 (te_to_affine (ZpOps 13) Q) ->
  te_valid (ZpOps 13) (te_add (ZpOps 13) 12 6 P Q) /\
  te_to_affine (ZpOps 13) (te_add (ZpOps 13) 12 6 P Q) =
  aff_add_te (ZpOps 13) 12 6 (te_to_affine (ZpOps 13) P) (te_to_affine (ZpOps 13) Q).
Proof.
  destruct ex13_te_hyps as (Ha & Hd & Hs & Hsq & Hns).
  exact (te_add_complete_Zp 13 prime_13 eq_refl 12 6 5 Ha Hd Hs Hsq Hns).
Qed.
(* y^2 = x^3 + 2 over F_13: the affine point (1, 4) *)
Lemma ex13_sw_aff_hyps : canon_aff 13 (Some (1, 4)) /\ aff_on (ZpOps 13) 0 2 (Some (1, 4)) /\
  Forall (canon_jac 13) [(4, 6, 2); (1, 4, 1); (1, 1, 0)].
Proof.
  split; [split; unfold canon; lia|]. split; [vm_compute; reflexivity|].
  repeat constructor; unfold canon; cbn [fst snd]; lia.
Qed.
