(* Base/ZpTransfer3 -- the transfer recipe (props/Bridge/NOTES.md) applied to C08: dense
   polynomial +, -, naive_mul, mul and divide_with_q_and_r for the EXECUTED dictionary
   [ZpOps p] on canonical coefficient lists.
   Paramcoq cannot translate fixpoints whose body is not literally the match on the structural
   argument ([Nat.sub], [Nat.max], [zip_into], [add_at]): their relational terms are proved by hand
   (induction on the relation) and registered as [Realizer]s, after which every C08 function
   translates.
   The conclusions are literally the C08 statements at [F := ZpOps p]: the inner "for every x"
   ranges over ALL integers, because [eval (ZpOps p) l x] only depends on [x mod p]. *)
From Param Require Import Param.
From V Require Import Base.Field Base.ZpField Base.ExtField Base.ZpInstances Base.ZpTransfer Base.ZpTransfer2.
From V Require Import C08.Model C08.Common C08.DenseProofs C08.Division.
Require Import Znumtheory Lia.

(* ------------------------------------------------------------------ *)
(* realizers for the functions Paramcoq cannot translate               *)
(* ------------------------------------------------------------------ *)


Lemma zip_into_RR : forall (K1 K2 : Type) (K_R : K1 -> K2 -> Type)
  (f1 : K1 -> K1 -> K1) (f2 : K2 -> K2 -> K2),
  (forall x1 x2, K_R x1 x2 -> forall y1 y2, K_R y1 y2 -> K_R (f1 x1 y1) (f2 x2 y2)) ->
  forall a1 a2, list_R K1 K2 K_R a1 a2 -> forall b1 b2, list_R K1 K2 K_R b1 b2 ->
  list_R K1 K2 K_R (zip_into f1 a1 b1) (zip_into f2 a2 b2).
Proof.
  intros K1 K2 K_R f1 f2 Hf a1 a2 Ha. induction Ha as [|x1 x2 Hx a1 a2 Ha IH]; intros b1 b2 Hb.
  - constructor.
  - destruct Hb as [|y1 y2 Hy b1 b2 Hb]; cbn [zip_into].
    + constructor; assumption.
    + constructor; [apply Hf; assumption | apply IH; assumption].
Qed.
Realizer (@zip_into) as zip_into_R := zip_into_RR.

Lemma add_at_RR : forall (K1 K2 : Type) (K_R : K1 -> K2 -> Type) (F1 : Fops K1) (F2 : Fops K2),
  Fops_R K1 K2 K_R F1 F2 ->
  forall acc1 acc2, list_R K1 K2 K_R acc1 acc2 -> forall i1 i2, nat_R i1 i2 ->
  forall v1 v2, list_R K1 K2 K_R v1 v2 ->
  list_R K1 K2 K_R (add_at F1 acc1 i1 v1) (add_at F2 acc2 i2 v2).
Proof.
  intros K1 K2 K_R F1 F2 FR acc1 acc2 Hacc i1 i2 Hi. revert acc1 acc2 Hacc.
  induction Hi as [|i1 i2 Hi IH]; intros acc1 acc2 Hacc v1 v2 Hv.
  - destruct Hacc; cbn [add_at]; apply zip_into_RR; try assumption; try (constructor; assumption);
      intros; apply (fadd_R _ _ K_R _ _ FR); assumption.
  - destruct Hacc as [|x1 x2 Hx a1 a2 Ha]; cbn [add_at]; constructor; [assumption | apply IH; assumption].
Qed.
Realizer (@add_at) as add_at_R := add_at_RR.

Parametricity Recursive d_add qualified.
Parametricity Recursive d_sub qualified.
Parametricity Recursive d_naive_mul qualified.
Parametricity Recursive d_mul qualified.
Parametricity Recursive divide qualified.
Parametricity Recursive eval qualified.
Parametricity Recursive seval qualified.
Parametricity Recursive dos_degree qualified.
Parametricity Recursive dos_is_zero qualified.

(* ------------------------------------------------------------------ *)
(* containers: res, dos, sparse term lists                             *)
(* ------------------------------------------------------------------ *)

Definition res_map {A B : Type} (f : A -> B) (r : res A) : res B :=
  match r with ROk a => ROk (f a) | RPanic => RPanic | RFuel => RFuel end.
Lemma graph_res : forall A1 A2 (R : A1 -> A2 -> Type) v,
  is_graph R v -> is_graph (V_o_C08_o_Model_o_res_R A1 A2 R) (res_map v).
Proof.
  intros A1 A2 R v [Gv Gr]. split.
  - intros x z H. destruct H as [a c Ha| |]; try reflexivity. cbn. rewrite (Gv _ _ Ha). reflexivity.
  - intros [a| |]; constructor. apply Gr.
Qed.

Definition sp_val {p} (s : list (nat * Fp p)) : list (nat * Z) := map (pmap (fun n : nat => n) fpv) s.
Definition sp_lift (p : Z) (s : list (nat * Z)) : list (nat * Fp p) := map (pmap (fun n : nat => n) (fp_of p)) s.
Definition canon_sp (p : Z) (s : list (nat * Z)) : Prop := Forall (fun t => ZpField.canon p (snd t)) s.
Definition dos_val {p} (a : dos (Fp p)) : dos Z :=
  match a with DP l => DP (list_val l) | SP s => SP (sp_val s) end.
Definition dos_lift (p : Z) (a : dos Z) : dos (Fp p) :=
  match a with DP l => DP (list_lift p l) | SP s => SP (sp_lift p s) end.
Definition canon_dos (p : Z) (a : dos Z) : Prop :=
  match a with DP l => Forall (ZpField.canon p) l | SP s => canon_sp p s end.

Lemma graph_lst : forall p, is_graph (list_R _ _ (Rp p)) (@list_val p).
Proof. intros p. exact (graph_list _ _ _ _ (graph_Rp p)). Qed.
Lemma graph_sp : forall p, is_graph (list_R _ _ (prod_R _ _ nat_R _ _ (Rp p))) (@sp_val p).
Proof. intros p. exact (graph_list _ _ _ _ (graph_prod _ _ _ _ _ _ _ _ graph_nat (graph_Rp p))). Qed.
Lemma graph_dos : forall p, is_graph (V_o_C08_o_Model_o_dos_R _ _ (Rp p)) (@dos_val p).
Proof.
  intros p. split.
  - intros x z H. destruct H as [l1 l2 Hl | s1 s2 Hs]; cbn [dos_val]; f_equal.
    + apply (fst (graph_lst p)), Hl.
    + apply (fst (graph_sp p)), Hs.
  - intros [l|s]; constructor; [apply (snd (graph_lst p)) | apply (snd (graph_sp p))].
Qed.
Lemma sp_lift_val : forall p s, canon_sp p s -> sp_val (sp_lift p s) = s.
Proof.
  intros p s H. unfold sp_val, sp_lift. induction H as [|[i c] s Hc Hs IH]; [reflexivity|].
  cbn [map snd] in *. rewrite IH. unfold pmap. cbn [fst snd]. rewrite fp_of_val by exact Hc. reflexivity.
Qed.
Lemma dos_lift_val : forall p a, canon_dos p a -> dos_val (dos_lift p a) = a.
Proof.
  intros p [l|s] H; cbn [dos_val dos_lift]; f_equal; [apply list_lift_val | apply sp_lift_val]; exact H.
Qed.
Lemma res_nat_R_eq : forall r1 r2 : res nat, V_o_C08_o_Model_o_res_R nat nat nat_R r1 r2 -> r1 = r2.
Proof. intros r1 r2 H. destruct H as [a c Ha| |]; try reflexivity. f_equal. apply nat_R_eq, Ha. Qed.

(* ------------------------------------------------------------------ *)
(* value lemmas                                                        *)
(* ------------------------------------------------------------------ *)

Lemma d_add_val : forall p (P Q : list (Fp p)),
  res_map list_val (d_add (FpOps p) P Q) = d_add (ZpOps p) (list_val P) (list_val Q).
Proof.
  intros p P Q. apply (fst (graph_res _ _ _ _ (graph_lst p))).
  apply (V_o_C08_o_Model_o_d_add_R _ _ (Rp p) _ _ (FpZp_R p)); apply (snd (graph_lst p)).
Qed.
Lemma d_sub_val : forall p (P Q : list (Fp p)),
  res_map list_val (d_sub (FpOps p) P Q) = d_sub (ZpOps p) (list_val P) (list_val Q).
Proof.
  intros p P Q. apply (fst (graph_res _ _ _ _ (graph_lst p))).
  apply (V_o_C08_o_Model_o_d_sub_R _ _ (Rp p) _ _ (FpZp_R p)); apply (snd (graph_lst p)).
Qed.
Lemma d_naive_mul_val : forall p (P Q : list (Fp p)),
  res_map list_val (d_naive_mul (FpOps p) P Q) = d_naive_mul (ZpOps p) (list_val P) (list_val Q).
Proof.
  intros p P Q. apply (fst (graph_res _ _ _ _ (graph_lst p))).
  apply (V_o_C08_o_Model_o_d_naive_mul_R _ _ (Rp p) _ _ (FpZp_R p)); apply (snd (graph_lst p)).
Qed.
Lemma d_mul_val : forall p (P Q : list (Fp p)),
  res_map list_val (d_mul (FpOps p) P Q) = d_mul (ZpOps p) (list_val P) (list_val Q).
Proof.
  intros p P Q. apply (fst (graph_res _ _ _ _ (graph_lst p))).
  apply (V_o_C08_o_Model_o_d_mul_R _ _ (Rp p) _ _ (FpZp_R p)); apply (snd (graph_lst p)).
Qed.
Lemma divide_val : forall p (a b : dos (Fp p)),
  res_map (pmap list_val list_val) (divide (FpOps p) a b) = divide (ZpOps p) (dos_val a) (dos_val b).
Proof.
  intros p a b.
  apply (fst (graph_res _ _ _ _ (graph_prod _ _ _ _ _ _ _ _ (graph_lst p) (graph_lst p)))).
  apply (V_o_C08_o_Model_o_divide_R _ _ (Rp p) _ _ (FpZp_R p)); apply (snd (graph_dos p)).
Qed.
Lemma eval_val : forall p (l : list (Fp p)) x,
  fpv (eval (FpOps p) l x) = eval (ZpOps p) (list_val l) (fpv x).
Proof.
  intros p l x.
  apply (V_o_C08_o_Model_o_eval_R _ _ (Rp p) _ _ (FpZp_R p)); [apply (snd (graph_lst p)) | reflexivity].
Qed.
Lemma seval_val : forall p (s : list (nat * Fp p)) x,
  fpv (seval (FpOps p) s x) = seval (ZpOps p) (sp_val s) (fpv x).
Proof.
  intros p s x.
  apply (V_o_C08_o_Model_o_seval_R _ _ (Rp p) _ _ (FpZp_R p)); [apply (snd (graph_sp p)) | reflexivity].
Qed.
Lemma dos_eval_val : forall p (a : dos (Fp p)) x,
  fpv (dos_eval (FpOps p) a x) = dos_eval (ZpOps p) (dos_val a) (fpv x).
Proof. intros p [l|s] x; cbn [dos_eval dos_val]; [apply eval_val | apply seval_val]. Qed.
Lemma dos_degree_val : forall p (a : dos (Fp p)), dos_degree (FpOps p) a = dos_degree (ZpOps p) (dos_val a).
Proof.
  intros p a. apply res_nat_R_eq.
  apply (V_o_C08_o_Model_o_dos_degree_R _ _ (Rp p) _ _ (FpZp_R p)); apply (snd (graph_dos p)).
Qed.
Lemma dos_is_zero_val : forall p (a : dos (Fp p)), dos_is_zero (FpOps p) a = dos_is_zero (ZpOps p) (dos_val a).
Proof.
  intros p a. apply bool_R_eq.
  apply (V_o_C08_o_Model_o_dos_is_zero_R _ _ (Rp p) _ _ (FpZp_R p)); apply (snd (graph_dos p)).
Qed.

(* canonical forms (Props built from = / <> on coefficients) *)
Lemma last_list_val : forall p (l : list (Fp p)) d, last (list_val l) (fpv d) = fpv (last l d).
Proof.
  intros p l d. unfold list_val. induction l as [|a l IH]; [reflexivity|].
  destruct l as [|b l]; [reflexivity|]. exact IH.
Qed.
Lemma dcanon_val : forall p (l : list (Fp p)),
  Common.canon (FpOps p) l <-> Common.canon (ZpOps p) (list_val l).
Proof.
  intros p l. unfold Common.canon.
  change (f0 (ZpOps p)) with (fpv (f0 (FpOps p))). rewrite last_list_val, <- fpv_neq_iff.
  destruct l; cbn [list_val map]; split; intros [H|H]; try (left; reflexivity); try discriminate H;
    right; exact H.
Qed.
Lemma sorted_from_val : forall p (s : list (nat * Fp p)) lo,
  sorted_from (FpOps p) lo s <-> sorted_from (ZpOps p) lo (sp_val s).
Proof.
  intros p s. induction s as [|[i c] s IH]; intros lo; [reflexivity|].
  cbn [sp_val map pmap sorted_from fst snd]. rewrite fpv_neq_iff. rewrite (IH (S i)). reflexivity.
Qed.
Lemma dos_canon_val : forall p (a : dos (Fp p)),
  dos_canon (FpOps p) a <-> dos_canon (ZpOps p) (dos_val a).
Proof. intros p [l|s]; cbn [dos_canon dos_val]; [apply dcanon_val | apply sorted_from_val]. Qed.

(* evaluation in ZpOps p only depends on the residue of the point *)
Lemma pown_Zp_mod : forall p x n, pown (ZpOps p) (x mod p) n = pown (ZpOps p) x n.
Proof.
  intros p x n. induction n as [|n IH]; [reflexivity|]. cbn [pown]. rewrite IH.
  cbn [fmul ZpOps]. apply Zmult_mod_idemp_l.
Qed.
Lemma eval_Zp_mod : forall p l x, eval (ZpOps p) l (x mod p) = eval (ZpOps p) l x.
Proof.
  intros p l x. induction l as [|c l IH]; [reflexivity|]. cbn [eval]. rewrite IH.
  cbn [fmul fadd ZpOps]. rewrite Zmult_mod_idemp_l. reflexivity.
Qed.
Lemma seval_Zp_mod : forall p s x, seval (ZpOps p) s (x mod p) = seval (ZpOps p) s x.
Proof.
  intros p s x. induction s as [|[i c] s IH]; [reflexivity|]. cbn [seval]. rewrite IH, pown_Zp_mod. reflexivity.
Qed.
Lemma dos_eval_Zp_mod : forall p a x, dos_eval (ZpOps p) a (x mod p) = dos_eval (ZpOps p) a x.
Proof. intros p [l|s] x; cbn [dos_eval]; [apply eval_Zp_mod | apply seval_Zp_mod]. Qed.

(* ------------------------------------------------------------------ *)
(* C08 at the executed dictionary                                      *)
(* ------------------------------------------------------------------ *)

Section C08Zp.
  Variable p : Z.
  Hypothesis Hp : prime p.
  Local Notation F := (ZpOps p).
  Let Fth := FpOps_field_C08 p Hp.
  Let Feq := FpOps_eqb p.

  (* okd transfers, given that the right-hand side commutes with fpv *)
  Lemma okd_transfer : forall (r : res (list (Fp p))) (f : Fp p -> Fp p) (g : Z -> Z),
    (forall x : Z, g x = fpv (f (fp_of p x))) ->
    okd (FpOps p) r f -> okd F (res_map list_val r) g.
  Proof.
    intros r f g Hg (v & Hr & Hc & He). exists (list_val v). split; [rewrite Hr; reflexivity|].
    split; [apply dcanon_val; exact Hc|].
    intros x. rewrite Hg, <- He, eval_val. cbn [fpv fp_of]. apply eq_sym, eval_Zp_mod.
  Qed.

  Theorem d_add_Zp : forall P Q, Forall (ZpField.canon p) P -> Forall (ZpField.canon p) Q ->
    Common.canon F P -> Common.canon F Q ->
    okd F (d_add F P Q) (fun x => fadd F (eval F P x) (eval F Q x)).
  Proof.
    intros P Q HP HQ CP CQ.
    rewrite <- (list_lift_val p P HP), <- (list_lift_val p Q HQ) in *.
    apply dcanon_val in CP. apply dcanon_val in CQ.
    rewrite <- d_add_val.
    apply (okd_transfer _ (fun x => fadd (FpOps p) (eval (FpOps p) (list_lift p P) x) (eval (FpOps p) (list_lift p Q) x))).
    - intros x. rewrite fpv_fadd, !eval_val. cbn [fpv fp_of]. rewrite !eval_Zp_mod. reflexivity.
    - exact (d_add_spec (FpOps p) Fth Feq _ _ CP CQ).
  Qed.

  Theorem d_sub_Zp : forall P Q, Forall (ZpField.canon p) P -> Forall (ZpField.canon p) Q ->
    Common.canon F P -> Common.canon F Q ->
    okd F (d_sub F P Q) (fun x => fsub F (eval F P x) (eval F Q x)).
  Proof.
    intros P Q HP HQ CP CQ.
    rewrite <- (list_lift_val p P HP), <- (list_lift_val p Q HQ) in *.
    apply dcanon_val in CP. apply dcanon_val in CQ.
    rewrite <- d_sub_val.
    apply (okd_transfer _ (fun x => fsub (FpOps p) (eval (FpOps p) (list_lift p P) x) (eval (FpOps p) (list_lift p Q) x))).
    - intros x. rewrite fpv_fsub, !eval_val. cbn [fpv fp_of]. rewrite !eval_Zp_mod. reflexivity.
    - exact (d_sub_spec (FpOps p) Fth Feq _ _ CP CQ).
  Qed.

  Theorem d_naive_mul_Zp : forall P Q, Forall (ZpField.canon p) P -> Forall (ZpField.canon p) Q ->
    Common.canon F P -> Common.canon F Q ->
    okd F (d_naive_mul F P Q) (fun x => fmul F (eval F P x) (eval F Q x)).
  Proof.
    intros P Q HP HQ CP CQ.
    rewrite <- (list_lift_val p P HP), <- (list_lift_val p Q HQ) in *.
    apply dcanon_val in CP. apply dcanon_val in CQ.
    rewrite <- d_naive_mul_val.
    apply (okd_transfer _ (fun x => fmul (FpOps p) (eval (FpOps p) (list_lift p P) x) (eval (FpOps p) (list_lift p Q) x))).
    - intros x. rewrite fpv_fmul, !eval_val. cbn [fpv fp_of]. rewrite !eval_Zp_mod. reflexivity.
    - exact (d_naive_mul_spec (FpOps p) Fth Feq _ _ CP CQ).
  Qed.

  Theorem d_mul_Zp : forall P Q, Forall (ZpField.canon p) P -> Forall (ZpField.canon p) Q ->
    Common.canon F P -> Common.canon F Q ->
    okd F (d_mul F P Q) (fun x => fmul F (eval F P x) (eval F Q x)).
  Proof.
    intros P Q HP HQ CP CQ.
    rewrite <- (list_lift_val p P HP), <- (list_lift_val p Q HQ) in *.
    apply dcanon_val in CP. apply dcanon_val in CQ.
    rewrite <- d_mul_val.
    apply (okd_transfer _ (fun x => fmul (FpOps p) (eval (FpOps p) (list_lift p P) x) (eval (FpOps p) (list_lift p Q) x))).
    - intros x. rewrite fpv_fmul, !eval_val. cbn [fpv fp_of]. rewrite !eval_Zp_mod. reflexivity.
    - exact (d_mul_spec (FpOps p) Fth Feq _ _ CP CQ).
  Qed.

  Theorem divide_Zp : forall a b, canon_dos p a -> canon_dos p b ->
    dos_canon F a -> dos_canon F b -> dos_is_zero F b = false ->
    exists q r db, divide F a b = ROk (q, r) /\ dos_degree F b = ROk db /\
      Common.canon F q /\ Common.canon F r /\ (length r <= db)%nat /\
      forall x, dos_eval F a x = fadd F (fmul F (eval F q x) (dos_eval F b x)) (eval F r x).
  Proof.
    intros a b Ha Hb Ca Cb Hz.
    rewrite <- (dos_lift_val p a Ha), <- (dos_lift_val p b Hb) in *.
    apply dos_canon_val in Ca. apply dos_canon_val in Cb. rewrite <- dos_is_zero_val in Hz.
    destruct (divide_spec (FpOps p) Fth Feq _ _ Ca Cb Hz) as (q & r & db & Hd & Hdb & Cq & Cr & Hlen & He).
    exists (list_val q), (list_val r), db.
    split; [rewrite <- divide_val, Hd; reflexivity|].
    split; [rewrite <- dos_degree_val; exact Hdb|].
    split; [apply dcanon_val; exact Cq|].
    split; [apply dcanon_val; exact Cr|].
    split; [unfold list_val; rewrite map_length; exact Hlen|].
    intros x. specialize (He (fp_of p x)). apply (f_equal fpv) in He.
    rewrite fpv_fadd, fpv_fmul, !eval_val, !dos_eval_val in He. cbn [fpv fp_of] in He.
    rewrite !eval_Zp_mod, !dos_eval_Zp_mod in He. exact He.
  Qed.
End C08Zp.

(* the hypotheses are satisfiable: p = 13, (1 + 2x + 3x^2 + 4x^3) / (1 + 3x^2) *)
Lemma ex13_c08_hyps :
  Forall (ZpField.canon 13) [1; 2; 3] /\ Forall (ZpField.canon 13) [1; 2; 10] /\
  Common.canon (ZpOps 13) [1; 2; 3] /\ Common.canon (ZpOps 13) [1; 2; 10] /\
  canon_dos 13 (DP [1; 2; 3; 4]) /\ canon_dos 13 (SP [(0%nat, 1); (2%nat, 3)]) /\
  dos_canon (ZpOps 13) (DP [1; 2; 3; 4]) /\ dos_canon (ZpOps 13) (SP [(0%nat, 1); (2%nat, 3)]) /\
  dos_is_zero (ZpOps 13) (SP [(0%nat, 1); (2%nat, 3)]) = false.
Proof.
  unfold ZpField.canon, canon_dos, canon_sp.
  repeat split; try (repeat constructor; cbn; lia); try (right; cbn; discriminate);
    cbn; try lia; try discriminate.
Qed.
