(* Base/ZpTransfer4 -- the transfer recipe applied to C17 (dense multilinear extensions):
   evaluate = hypercube sum, fix_variables = partial hypercube sums, for the EXECUTED
   dictionary [ZpOps p] on canonical tables / points.  The C17 premise is only the
   commutative-ring laws, which [FpOps p] satisfies for EVERY modulus p (no primality). *)
From Param Require Import Param.
From V Require Import Base.Field Base.ZpField Base.ExtField Base.ZpInstances Base.ZpTransfer Base.ZpTransfer2.
From V Require Import C17.Mle C17.Spec C17.DenseProofs.
Require Import Lia.

Parametricity Recursive d_eval qualified.
Parametricity Recursive d_fix qualified.
Parametricity Recursive hsum qualified.
Parametricity Recursive tab qualified.
Parametricity Recursive sumf qualified.
Parametricity Recursive eqpoly qualified.

Definition dm_val {p} (P : dmle (Fp p)) : dmle Z := mkD (d_nv P) (list_val (d_ev P)).
Definition dm_lift (p : Z) (P : dmle Z) : dmle (Fp p) := mkD (d_nv P) (list_lift p (d_ev P)).
Definition canon_dm (p : Z) (P : dmle Z) : Prop := Forall (canon p) (d_ev P).
Definition res17_map {A B : Type} (f : A -> B) (r : res A) : res B :=
  match r with Ok a => Ok (f a) | Panic => Panic | OutOfFuel => OutOfFuel end.

Lemma graph_res17 : forall A1 A2 (R : A1 -> A2 -> Type) v,
  is_graph R v -> is_graph (V_o_C17_o_Mle_o_res_R A1 A2 R) (res17_map v).
Proof.
  intros A1 A2 R v [Gv Gr]. split.
  - intros x z H. destruct H as [a c Ha| |]; try reflexivity. cbn. rewrite (Gv _ _ Ha). reflexivity.
  - intros [a| |]; constructor. apply Gr.
Qed.
Lemma graph_dm : forall p, is_graph (V_o_C17_o_Mle_o_dmle_R _ _ (Rp p)) (@dm_val p).
Proof.
  intros p. split.
  - intros x z H. destruct H as [n1 n2 Hn l1 l2 Hl]. unfold dm_val. cbn [d_nv d_ev].
    rewrite (nat_R_eq _ _ Hn), (list_R_val _ _ _ Hl). reflexivity.
  - intros [n l]. constructor; [apply nat_R_refl | apply list_val_R].
Qed.
Lemma dm_lift_val : forall p P, canon_dm p P -> dm_val (dm_lift p P) = P.
Proof.
  intros p [n l] H. unfold dm_val, dm_lift, canon_dm in *. cbn [d_nv d_ev] in *.
  rewrite list_lift_val by exact H. reflexivity.
Qed.

Lemma d_eval_val : forall p (P : dmle (Fp p)) x,
  res17_map fpv (d_eval (FpOps p) P x) = d_eval (ZpOps p) (dm_val P) (list_val x).
Proof.
  intros p P x. apply (fst (graph_res17 _ _ _ _ (graph_Rp p))).
  apply (V_o_C17_o_Mle_o_d_eval_R _ _ (Rp p) _ _ (FpZp_R p)); [apply (snd (graph_dm p)) | apply list_val_R].
Qed.
Lemma d_fix_val : forall p (P : dmle (Fp p)) x,
  res17_map dm_val (d_fix (FpOps p) P x) = d_fix (ZpOps p) (dm_val P) (list_val x).
Proof.
  intros p P x. apply (fst (graph_res17 _ _ _ _ (graph_dm p))).
  apply (V_o_C17_o_Mle_o_d_fix_R _ _ (Rp p) _ _ (FpZp_R p)); [apply (snd (graph_dm p)) | apply list_val_R].
Qed.
Lemma tab_val : forall p (P : dmle (Fp p)) i, fpv (tab (FpOps p) P i) = tab (ZpOps p) (dm_val P) i.
Proof.
  intros p P i.
  apply (V_o_C17_o_Spec_o_tab_R _ _ (Rp p) _ _ (FpZp_R p)); [apply (snd (graph_dm p)) | apply nat_R_refl].
Qed.
Lemma eqpoly_val : forall p b (x : list (Fp p)), fpv (eqpoly (FpOps p) b x) = eqpoly (ZpOps p) b (list_val x).
Proof.
  intros p b x.
  apply (V_o_C17_o_Spec_o_eqpoly_R _ _ (Rp p) _ _ (FpZp_R p)); [apply nat_R_refl | apply list_val_R].
Qed.
Lemma hsum_tab_val : forall p (P : dmle (Fp p)) x,
  fpv (hsum (FpOps p) (tab (FpOps p) P) x) = hsum (ZpOps p) (tab (ZpOps p) (dm_val P)) (list_val x).
Proof.
  intros p P x.
  apply (V_o_C17_o_Spec_o_hsum_R _ _ (Rp p) _ _ (FpZp_R p)); [| apply list_val_R].
  intros n1 n2 Hn. apply nat_R_eq in Hn. subst n2. apply tab_val.
Qed.
Lemma sumf_val : forall p (f : nat -> Fp p) (g : nat -> Z) n, (forall b, fpv (f b) = g b) ->
  fpv (sumf (FpOps p) f n) = sumf (ZpOps p) g n.
Proof.
  intros p f g n H.
  apply (V_o_C17_o_Spec_o_sumf_R _ _ (Rp p) _ _ (FpZp_R p)); [| apply nat_R_refl].
  intros n1 n2 Hn. apply nat_R_eq in Hn. subst n2. apply H.
Qed.

Section C17Zp.
  Variable p : Z.
  Local Notation F := (ZpOps p).

  Theorem d_eval_Zp : forall (P : dmle Z) (x : list Z), canon_dm p P -> Forall (canon p) x ->
    d_wf P -> length x = d_nv P -> d_eval F P x = Ok (hsum F (tab F P) x).
  Proof.
    intros P x HP Hx Hwf Hlen.
    rewrite <- (dm_lift_val p P HP), <- (list_lift_val p x Hx) in *.
    rewrite <- d_eval_val, <- hsum_tab_val.
    rewrite (d_eval_spec (FpOps p) (FpOps_ring_C17 p) (dm_lift p P) (list_lift p x)).
    - reflexivity.
    - unfold d_wf in *. cbn [dm_val dm_lift d_ev d_nv] in *. unfold list_val in Hwf. rewrite map_length in Hwf. exact Hwf.
    - unfold list_val in Hlen. rewrite map_length in Hlen. exact Hlen.
  Qed.

  Theorem d_fix_Zp : forall (P : dmle Z) (pp : list Z), canon_dm p P -> Forall (canon p) pp ->
    d_wf P -> (length pp <= d_nv P)%nat ->
    exists q : dmle Z, d_fix F P pp = Ok q /\ d_nv q = (d_nv P - length pp)%nat /\ d_wf q /\
      (forall c : nat, tab F q c =
         sumf F (fun b : nat => fmul F (tab F P (b + pow2 (length pp) * c)) (eqpoly F b pp)) (pow2 (length pp))).
  Proof.
    intros P pp HP Hpp Hwf Hlen.
    rewrite <- (dm_lift_val p P HP), <- (list_lift_val p pp Hpp) in *.
    assert (Hwf' : d_wf (dm_lift p P)).
    { unfold d_wf in *. cbn [dm_val dm_lift d_ev d_nv] in *. unfold list_val in Hwf. rewrite map_length in Hwf. exact Hwf. }
    assert (Hlen' : (length (list_lift p pp) <= d_nv (dm_lift p P))%nat).
    { unfold list_val in Hlen. rewrite map_length in Hlen. exact Hlen. }
    destruct (d_fix_spec (FpOps p) (FpOps_ring_C17 p) _ _ Hwf' Hlen') as (q & Hq & Hnv & Hqwf & Htab).
    exists (dm_val q). split; [rewrite <- d_fix_val, Hq; reflexivity|].
    assert (Hl : length (list_val (list_lift p pp)) = length (list_lift p pp)) by (unfold list_val; apply map_length).
    split; [rewrite Hl; exact Hnv|].
    split; [unfold d_wf in *; cbn [dm_val d_ev d_nv]; unfold list_val; rewrite map_length; exact Hqwf|].
    intros c. rewrite <- tab_val, Htab, Hl. apply sumf_val.
    intros b. rewrite fpv_fmul, tab_val, eqpoly_val. reflexivity.
  Qed.
End C17Zp.

(* the hypotheses are satisfiable: p = 13, 2 variables *)
Lemma ex13_c17_hyps :
  canon_dm 13 (mkD 2 [1; 2; 3; 4]) /\ Forall (canon 13) [5; 6] /\ d_wf (mkD 2 [1; 2; 3; 4]) /\
  length [5; 6] = d_nv (mkD 2 [1; 2; 3; 4]) /\ Forall (canon 13) [5] /\ (length [5] <= d_nv (mkD 2 [1; 2; 3; 4]))%nat.
Proof. unfold canon_dm, canon, d_wf. cbn. repeat split; try lia; repeat constructor; lia. Qed.
