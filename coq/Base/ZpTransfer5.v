(* Base/ZpTransfer5 -- the transfer recipe applied to C07: Radix2EvaluationDomain::fft_in_place
   ([radix2_fft], both sides of the degree-aware threshold) and [serial_mixed_radix_fft], for the
   EXECUTED dictionary [ZpOps p] on canonical inputs.  Realizers (see Base/ZpTransfer2.v) are
   supplied for [oi_aux] (body refers to the matched argument) and the Z-only [k_adicity]. *)
From Param Require Import Param.
From V Require Import Base.Field Base.ZpField Base.ExtField Base.ZpInstances Base.ZpTransfer Base.ZpTransfer2.
From V Require Import C07.Dft C07.Radix2 C07.MixedRadix C07.DftProofs C07.Radix2Proofs C07.DomainProofs
  C07.DegreeAwareFull C07.MixedSpec.
Require Import Znumtheory Lia.

(* ------------------------------------------------------------------ *)
(* realizers                                                           *)
(* ------------------------------------------------------------------ *)

Lemma Z2_RR (f : Z -> Z -> Z) : forall n1 n2, Z_R n1 n2 -> forall m1 m2, Z_R m1 m2 -> Z_R (f n1 m1) (f n2 m2).
Proof. intros n1 n2 Hn m1 m2 Hm. apply Z_R_eq in Hn. apply Z_R_eq in Hm. subst. apply Z_R_refl. Qed.
Realizer k_adicity as k_adicity_R := (Z2_RR k_adicity).

Lemma oi_aux_RR : forall (T1 T2 : Type) (TR : T1 -> T2 -> Type) (F1 : Fops T1) (F2 : Fops T2),
  Fops_R T1 T2 TR F1 F2 ->
  forall k1 k2, nat_R k1 k2 -> forall s1 s2, nat_R s1 s2 -> forall w1 w2, TR w1 w2 ->
  forall x1 x2, list_R T1 T2 TR x1 x2 ->
  list_R T1 T2 TR (oi_aux F1 k1 s1 w1 x1) (oi_aux F2 k2 s2 w2 x2).
Proof.
  intros T1 T2 TR F1 F2 FR k1 k2 Hk s1 s2 Hs.
  apply nat_R_eq in Hk. apply nat_R_eq in Hs. subst k2 s2.
  induction k1 as [|k IH]; intros w1 w2 Hw x1 x2 Hx; [exact Hx|].
  cbn [oi_aux]. destruct (Nat.leb (S k) s1); [exact Hx|].
  assert (Hg : nat_R (2 ^ k) (2 ^ k)) by apply nat_R_refl.
  assert (Hw2 : TR (fmul F1 w1 w1) (fmul F2 w2 w2)) by (apply (fmul_R _ _ TR _ _ FR); assumption).
  assert (Hlo := IH _ _ Hw2 _ _ (Coq_o_Lists_o_List_o_firstn_R _ _ TR _ _ Hg _ _ Hx)).
  assert (Hhi := IH _ _ Hw2 _ _ (Coq_o_Lists_o_List_o_skipn_R _ _ TR _ _ Hg _ _ Hx)).
  assert (Ht := V_o_C07_o_Dft_o_zipw_R _ _ TR _ _ TR _ _ TR _ _ (fmul_R _ _ TR _ _ FR) _ _ Hhi _ _
                  (V_o_C07_o_Dft_o_powers_R _ _ TR _ _ FR _ _ Hg _ _ Hw _ _ (f1_R _ _ TR _ _ FR))).
  apply Coq_o_Init_o_Datatypes_o_app_R.
  - exact (V_o_C07_o_Dft_o_zipw_R _ _ TR _ _ TR _ _ TR _ _ (fadd_R _ _ TR _ _ FR) _ _ Hlo _ _ Ht).
  - exact (V_o_C07_o_Dft_o_zipw_R _ _ TR _ _ TR _ _ TR _ _ (fsub_R _ _ TR _ _ FR) _ _ Hlo _ _ Ht).
Qed.
Realizer (@oi_aux) as oi_aux_R := oi_aux_RR.

Parametricity Recursive radix2_fft qualified.
Parametricity Recursive serial_mixed_radix_fft qualified.
Parametricity Recursive dft qualified.

(* ------------------------------------------------------------------ *)
(* the domain record                                                   *)
(* ------------------------------------------------------------------ *)

Definition dom_val {p} (d : domain (Fp p)) : domain Z :=
  mkDomain (d_mixed d) (d_size d) (d_log d) (fpv (d_size_fe d)) (fpv (d_size_inv d)) (fpv (d_gen d))
    (fpv (d_gen_inv d)) (fpv (d_offset d)) (fpv (d_offset_inv d)) (fpv (d_offset_pow_size d)).
Definition dom_lift (p : Z) (d : domain Z) : domain (Fp p) :=
  mkDomain (d_mixed d) (d_size d) (d_log d) (fp_of p (d_size_fe d)) (fp_of p (d_size_inv d)) (fp_of p (d_gen d))
    (fp_of p (d_gen_inv d)) (fp_of p (d_offset d)) (fp_of p (d_offset_inv d)) (fp_of p (d_offset_pow_size d)).
Definition canon_dom (p : Z) (d : domain Z) : Prop :=
  canon p (d_size_fe d) /\ canon p (d_size_inv d) /\ canon p (d_gen d) /\ canon p (d_gen_inv d) /\
  canon p (d_offset d) /\ canon p (d_offset_inv d) /\ canon p (d_offset_pow_size d).

Lemma graph_dom : forall p, is_graph (V_o_C07_o_Radix2_o_domain_R _ _ (Rp p)) (@dom_val p).
Proof.
  intros p. split.
  - intros x z H. destruct H. unfold dom_val, Rp in *. cbn.
    repeat match goal with H : bool_R _ _ |- _ => apply bool_R_eq in H | H : Z_R _ _ |- _ => apply Z_R_eq in H end.
    subst. reflexivity.
  - intros [m sz lg a b c d e f g]. constructor; try apply bool_R_refl; try apply Z_R_refl; reflexivity.
Qed.
Lemma dom_lift_val : forall p d, canon_dom p d -> dom_val (dom_lift p d) = d.
Proof.
  intros p [m sz lg a b c d e f g] (H1 & H2 & H3 & H4 & H5 & H6 & H7). unfold dom_val, dom_lift. cbn in *.
  rewrite !Z.mod_small by assumption. reflexivity.
Qed.

Lemma radix2_fft_val : forall p (d : domain (Fp p)) c,
  option_map list_val (radix2_fft (FpOps p) d c) = radix2_fft (ZpOps p) (dom_val d) (list_val c).
Proof.
  intros p d c. apply (fst (graph_option _ _ _ _ (graph_list _ _ _ _ (graph_Rp p)))).
  apply (V_o_C07_o_Radix2_o_radix2_fft_R _ _ (Rp p) _ _ (FpZp_R p)); [apply (snd (graph_dom p)) | apply list_val_R].
Qed.
Lemma serial_mixed_radix_fft_val : forall p q (a : list (Fp p)) omega s,
  option_map list_val (serial_mixed_radix_fft (FpOps p) q a omega s) =
  serial_mixed_radix_fft (ZpOps p) q (list_val a) (fpv omega) s.
Proof.
  intros p q a omega s. apply (fst (graph_option _ _ _ _ (graph_list _ _ _ _ (graph_Rp p)))).
  apply (V_o_C07_o_MixedRadix_o_serial_mixed_radix_fft_R _ _ (Rp p) _ _ (FpZp_R p) _ _ (Z_R_refl q));
    [apply list_val_R | reflexivity | apply Z_R_refl].
Qed.
Lemma dft_val : forall p n w (c : list (Fp p)),
  list_val (dft (FpOps p) n w c) = dft (ZpOps p) n (fpv w) (list_val c).
Proof.
  intros p n w c. apply list_R_val.
  apply (V_o_C07_o_Dft_o_dft_R _ _ (Rp p) _ _ (FpZp_R p) _ _ (nat_R_refl n) _ _ (Rp_fpv p w)); apply list_val_R.
Qed.

Section C07Zp.
  Variable p : Z.
  Hypothesis Hp : prime p.
  Local Notation F := (ZpOps p).

  Theorem radix2_fft_Zp : forall (d : domain Z) k (coeffs : list Z),
    canon_dom p d -> Forall (canon p) coeffs ->
    d_size d = Z.of_nat (2 ^ k) -> d_log d = Z.of_nat k -> prim_root F k (d_gen d) ->
    (length coeffs <= 2 ^ k)%nat ->
    radix2_fft F d coeffs = Some (dft_coset F (2 ^ k) (d_offset d) (d_gen d) coeffs).
  Proof.
    intros d k coeffs Hd Hc Hsz Hlg Hroot Hlen.
    rewrite <- (dom_lift_val p d Hd), <- (list_lift_val p coeffs Hc) in *.
    change (d_gen (dom_val (dom_lift p d))) with (fpv (d_gen (dom_lift p d))) in *.
    change (d_offset (dom_val (dom_lift p d))) with (fpv (d_offset (dom_lift p d))).
    apply prim_root_val in Hroot. unfold list_val in Hlen. rewrite map_length in Hlen.
    rewrite <- radix2_fft_val, <- dft_coset_val.
    rewrite (radix2_fft_spec (FpOps p) (FpOps_is_field p Hp) (FpOps_eqb_correct p) (dom_lift p d) k _ Hsz Hlg Hroot Hlen).
    reflexivity.
  Qed.

  Theorem serial_mixed_radix_fft_Zp : forall (q s t : nat) omega (a : list Z),
    canon p omega -> Forall (canon p) a ->
    (3 <= q)%nat -> Z.odd (Z.of_nat q) = true -> length a = (2 ^ s * q ^ t)%nat ->
    pown F omega (2 ^ s * q ^ t) = f1 F ->
    ((1 <= s)%nat -> pown F omega (2 ^ (s - 1) * q ^ t) = fneg F (f1 F)) ->
    serial_mixed_radix_fft F (Z.of_nat q) a omega (Z.of_nat s) = Some (dft F (2 ^ s * q ^ t) omega a).
  Proof.
    intros q s t omega a Hw Ha Hq Hodd Hlen H1 H2.
    rewrite <- (fp_of_val p omega Hw), <- (list_lift_val p a Ha) in *.
    unfold list_val in Hlen. rewrite map_length in Hlen.
    rewrite <- serial_mixed_radix_fft_val, <- dft_val.
    rewrite (serial_mixed_radix_fft_spec (FpOps p) (FpOps_is_field p Hp) q s t _ _ Hq Hodd Hlen).
    - reflexivity.
    - apply fp_eq. rewrite pown_val. exact H1.
    - intros Hs. apply fp_eq. rewrite pown_val. exact (H2 Hs).
  Qed.
End C07Zp.

(* the hypotheses are satisfiable: p = 13.  5 has order 4; 4 = 2^2 has order 6 = 2 * 3 (4^3 = -1) *)
Lemma ex13_c07_hyps :
  canon_dom 13 (mkDomain false 4 2 4 10 5 8 2 7 3) /\ Forall (canon 13) [1; 2; 3] /\
  4 = Z.of_nat (2 ^ 2) /\ 2 = Z.of_nat 2 /\ prim_root (ZpOps 13) 2 5 /\ (length [1; 2; 3] <= 2 ^ 2)%nat /\
  canon 13 4 /\ Forall (canon 13) [1; 2; 3; 4; 5; 6] /\ (3 <= 3)%nat /\ Z.odd (Z.of_nat 3) = true /\
  length [1; 2; 3; 4; 5; 6] = (2 ^ 1 * 3 ^ 1)%nat /\ pown (ZpOps 13) 4 (2 ^ 1 * 3 ^ 1) = f1 (ZpOps 13) /\
  ((1 <= 1)%nat -> pown (ZpOps 13) 4 (2 ^ (1 - 1) * 3 ^ 1) = fneg (ZpOps 13) (f1 (ZpOps 13))).
Proof.
  unfold canon_dom, canon. cbn [d_size_fe d_size_inv d_gen d_gen_inv d_offset d_offset_inv d_offset_pow_size].
  repeat split; try lia; try (repeat constructor; lia); try (vm_compute; reflexivity).
Qed.
