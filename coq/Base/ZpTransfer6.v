(* Base/ZpTransfer6 -- the transfer recipe applied to C11: Case3Mod4 square root, the Legendre
   symbol (Euler's criterion), and the quadratic-extension square root over a Tonelli-Shanks or
   a Case3Mod4 base field, all with the operations of the EXECUTED dictionary [ZpOps p] (the
   way C11/Run.v passes them: f0, f1, fadd, fsub, fmul, finv, feqb of the dictionary), on
   canonical inputs.  The number-theoretic premises (Fermat, the order of z, nr a non-square)
   are carried over, not discharged; the Fermat premise is only required on canonical x. *)
From Param Require Import Param.
From V Require Import Base.Field Base.ZpField Base.ExtField Base.ZpInstances Base.ZpTransfer Base.ZpTransfer2.
From V Require Import C11.SqrtModel C11.SqrtProofs C11.QuadProofs C11.TowerProofs.
Require Import Znumtheory Lia.

Parametricity Recursive sqrt_case3mod4 qualified.
Parametricity Recursive legendre_pow qualified.
Parametricity Recursive quad_sqrt qualified.
Parametricity Recursive quad_legendre qualified.
Parametricity Recursive q_mul qualified.

Lemma graph_sq : forall A1 A2 (R : A1 -> A2 -> Type) v,
  is_graph R v -> is_graph (V_o_C11_o_SqrtModel_o_sqrt_res_R A1 A2 R) (sq_map v).
Proof.
  intros A1 A2 R v [Gv Gr]. split.
  - intros x z H. destruct H as [a c Ha| | |]; try reflexivity. cbn. rewrite (Gv _ _ Ha). reflexivity.
  - intros [a| | |]; constructor. apply Gr.
Qed.

(* the operations of the two dictionaries are related, one by one *)
Lemma Rp_mulR : forall p x1 z1, Rp p x1 z1 -> forall x2 z2, Rp p x2 z2 ->
  Rp p (fmul (FpOps p) x1 x2) (fmul (ZpOps p) z1 z2).
Proof. intros. apply Rp_fmul; assumption. Qed.
Lemma Rp_addR : forall p x1 z1, Rp p x1 z1 -> forall x2 z2, Rp p x2 z2 ->
  Rp p (fadd (FpOps p) x1 x2) (fadd (ZpOps p) z1 z2).
Proof. intros. apply Rp_fadd; assumption. Qed.
Lemma Rp_subR : forall p x1 z1, Rp p x1 z1 -> forall x2 z2, Rp p x2 z2 ->
  Rp p (fsub (FpOps p) x1 x2) (fsub (ZpOps p) z1 z2).
Proof. intros. apply Rp_fsub; assumption. Qed.
Lemma Rp_eqbR : forall p x1 z1, Rp p x1 z1 -> forall x2 z2, Rp p x2 z2 ->
  bool_R (feqb (FpOps p) x1 x2) (feqb (ZpOps p) z1 z2).
Proof. intros. apply bool_R_of_eq. apply Rp_feqb; assumption. Qed.

Section C11Val.
  Variable p : Z.
  Local Notation F1 := (FpOps p).
  Local Notation F2 := (ZpOps p).

  Lemma pow_fpv : forall (x : Fp p) e, fpv (pow (f1 F1) (fmul F1) x e) = pow (f1 F2) (fmul F2) (fpv x) e.
  Proof. intros. apply pow_hom; reflexivity. Qed.
  Lemma sqn_fpv : forall n (x : Fp p), fpv (sqn (fmul F1) n x) = sqn (fmul F2) n (fpv x).
  Proof. intros. apply sqn_hom; reflexivity. Qed.
  Lemma sqrt_ts_fpv : forall (leg1 : Fp p -> Z) (leg2 : Z -> Z), (forall x, leg1 x = leg2 (fpv x)) ->
    forall s z tm x,
    sq_map fpv (sqrt_ts (f0 F1) (f1 F1) (fmul F1) (feqb F1) s z tm leg1 x) =
    sqrt_ts (f0 F2) (f1 F2) (fmul F2) (feqb F2) s (fpv z) tm leg2 (fpv x).
  Proof. intros leg1 leg2 Hleg s z tm x. apply sqrt_ts_hom; try reflexivity. exact Hleg. Qed.
  Lemma case3mod4_fpv : forall e (x : Fp p),
    sq_map fpv (sqrt_case3mod4 (f1 F1) (fmul F1) (feqb F1) e x) =
    sqrt_case3mod4 (f1 F2) (fmul F2) (feqb F2) e (fpv x).
  Proof.
    intros e x. apply (fst (graph_sq _ _ _ _ (graph_Rp p))).
    apply (V_o_C11_o_SqrtModel_o_sqrt_case3mod4_R _ _ (Rp p) _ _ (Rp_f1 p) _ _ (Rp_mulR p) _ _ (Rp_eqbR p)
             _ _ (Z_R_refl e)). reflexivity.
  Qed.
  Lemma legendre_pow_fpv : forall h (x : Fp p),
    legendre_pow (f0 F1) (f1 F1) (fmul F1) (feqb F1) h x =
    legendre_pow (f0 F2) (f1 F2) (fmul F2) (feqb F2) h (fpv x).
  Proof.
    intros h x. apply Z_R_eq.
    apply (V_o_C11_o_SqrtModel_o_legendre_pow_R _ _ (Rp p) _ _ (Rp_f0 p) _ _ (Rp_f1 p) _ _ (Rp_mulR p)
             _ _ (Rp_eqbR p) _ _ (Z_R_refl h)). reflexivity.
  Qed.
  Lemma quad_sqrt_fpv : forall nr two_inv (bsqrt1 : Fp p -> sqrt_res (Fp p)) (bsqrt2 : Z -> sqrt_res Z)
    (bleg1 : Fp p -> Z) (bleg2 : Z -> Z),
    (forall x, sq_map fpv (bsqrt1 x) = bsqrt2 (fpv x)) -> (forall x, bleg1 x = bleg2 (fpv x)) ->
    forall a : Fp p * Fp p,
    sq_map pair_val (quad_sqrt (f0 F1) (fadd F1) (fsub F1) (fmul F1) (finv F1) (feqb F1) nr two_inv bsqrt1 bleg1 a) =
    quad_sqrt (f0 F2) (fadd F2) (fsub F2) (fmul F2) (finv F2) (feqb F2) (fpv nr) (fpv two_inv) bsqrt2 bleg2 (pair_val a).
  Proof.
    intros nr two_inv bsqrt1 bsqrt2 bleg1 bleg2 Hs Hl a.
    apply (fst (graph_sq _ _ _ _ (graph_pair p))).
    apply (V_o_C11_o_SqrtModel_o_quad_sqrt_R _ _ (Rp p) _ _ (Rp_f0 p) _ _ (Rp_addR p) _ _ (Rp_subR p)
             _ _ (Rp_mulR p) _ _ (Rp_finv p) _ _ (Rp_eqbR p) _ _ (Rp_fpv p nr) _ _ (Rp_fpv p two_inv)).
    - intros x z Hx. unfold Rp in Hx. subst z. rewrite <- Hs. apply (snd (graph_sq _ _ _ _ (graph_Rp p))).
    - intros x z Hx. unfold Rp in Hx. subst z. rewrite <- Hl. apply Z_R_refl.
    - apply (snd (graph_pair p)).
  Qed.
  Lemma q_mul_fpv : forall nr (a b : Fp p * Fp p),
    pair_val (q_mul (fadd F1) (fmul F1) nr a b) = q_mul (fadd F2) (fmul F2) (fpv nr) (pair_val a) (pair_val b).
  Proof. intros nr [a0 a1] [b0 b1]. reflexivity. Qed.

  (* squares: over Z every witness can be reduced, so "square" means the same on both sides *)
  Lemma mulZ_mod_l : forall x y, fmul F2 (x mod p) y = fmul F2 x y.
  Proof. intros. cbn [fmul ZpOps]. apply Zmult_mod_idemp_l. Qed.
  Lemma mulZ_mod_r : forall x y, fmul F2 x (y mod p) = fmul F2 x y.
  Proof. intros. cbn [fmul ZpOps]. apply Zmult_mod_idemp_r. Qed.
  Lemma is_sq_val : forall x : Fp p, is_sq (fmul F1) x <-> is_sq (fmul F2) (fpv x).
  Proof.
    intros x. split.
    - intros [r Hr]. exists (fpv r). rewrite <- Hr. reflexivity.
    - intros [r Hr]. exists (fp_of p r). apply fp_eq. rewrite <- Hr.
      change (fpv (fmul F1 (fp_of p r) (fp_of p r))) with (fmul F2 (r mod p) (r mod p)).
      rewrite mulZ_mod_l, mulZ_mod_r. reflexivity.
  Qed.
  Lemma is_sq2_val : forall nr (a : Fp p * Fp p),
    is_sq2 (fadd F1) (fmul F1) nr a <-> is_sq2 (fadd F2) (fmul F2) (fpv nr) (pair_val a).
  Proof.
    intros nr a. split.
    - intros [w Hw]. exists (pair_val w). rewrite <- Hw. apply eq_sym, q_mul_fpv.
    - intros [[w0 w1] Hw]. exists (fp_of p w0, fp_of p w1). apply (pair_val_inj p). rewrite <- Hw, q_mul_fpv.
      unfold pair_val, q_mul. cbn [fst snd fpv fp_of].
      rewrite !mulZ_mod_l, !mulZ_mod_r. reflexivity.
  Qed.
End C11Val.

Section C11Zp.
  Variable p : Z.
  Hypothesis Hp : prime p.
  Local Notation F := (ZpOps p).
  Local Notation F1 := (FpOps p).
  Let Hp0 : 0 < p. Proof. destruct Hp; lia. Qed.

  (* the Fermat-type premise, required on canonical x only, lifts to Fp p *)
  Lemma fermat_lift : forall e, (forall x, canon p x -> x <> 0 -> pow (f1 F) (fmul F) x e = f1 F) ->
    forall x : Fp p, x <> f0 F1 -> pow (f1 F1) (fmul F1) x e = f1 F1.
  Proof.
    intros e H x Hx. apply fp_eq. rewrite pow_fpv. apply H; [apply fpv_canon; exact Hp0|].
    intros E. apply Hx. apply fp_eq. rewrite E. reflexivity.
  Qed.

  (* C11_case3mod4_exact *)
  Theorem case3mod4_Zp : forall m : Z, 0 < m ->
    (forall x, canon p x -> x <> 0 -> pow (f1 F) (fmul F) x (4 * m - 2) = f1 F) ->
    forall a : Z, canon p a ->
    (exists y, canon p y /\ sqrt_case3mod4 (f1 F) (fmul F) (feqb F) m a = SqSome y /\ fmul F y y = a) \/
    (sqrt_case3mod4 (f1 F) (fmul F) (feqb F) m a = SqNone /\ ~ is_sq (fmul F) a).
  Proof.
    intros m Hm Hf a Ha. rewrite <- (fp_of_val p a Ha).
    destruct (@case3mod4_total (Fp p) (f0 F1) (f1 F1) (fadd F1) (fsub F1) (fmul F1) (fneg F1) (finv F1) (fdiv F1)
                (feqb F1) (FpOps_field p Hp) (FpOps_eqb p) m Hm (fermat_lift _ Hf) (fp_of p a))
      as [[y [Hy Hyy]] | [Hn Hns]].
    - left. exists (fpv y). split; [apply fpv_canon; exact Hp0|]. split.
      + rewrite <- case3mod4_fpv, Hy. reflexivity.
      + rewrite <- Hyy. reflexivity.
    - right. split; [rewrite <- case3mod4_fpv, Hn; reflexivity|].
      intros Hsq. apply Hns. apply is_sq_val. exact Hsq.
  Qed.

  (* C11_legendre_euler *)
  Theorem legendre_euler_Zp : forall (s : nat) (tm z : Z), (1 <= s)%nat -> 0 <= tm -> canon p z ->
    (forall x, canon p x -> x <> 0 ->
       pow (f1 F) (fmul F) x (2 ^ Z.of_nat s * (2 * tm + 1)) = f1 F) ->
    sqn (fmul F) (s - 1) z = fneg F (f1 F) ->
    forall x : Z, canon p x ->
    (x = f0 F /\ legendre_pow (f0 F) (f1 F) (fmul F) (feqb F) (2 ^ Z.of_nat (s - 1) * (2 * tm + 1)) x = 0) \/
    (x <> f0 F /\ is_sq (fmul F) x /\
       legendre_pow (f0 F) (f1 F) (fmul F) (feqb F) (2 ^ Z.of_nat (s - 1) * (2 * tm + 1)) x = 1) \/
    (~ is_sq (fmul F) x /\
       legendre_pow (f0 F) (f1 F) (fmul F) (feqb F) (2 ^ Z.of_nat (s - 1) * (2 * tm + 1)) x = -1).
  Proof.
    intros s tm z Hs Htm Hz Hf Hord x Hx.
    assert (HO : sqn (fmul F1) (s - 1) (fp_of p z) = fneg F1 (f1 F1)).
    { apply fp_eq. rewrite sqn_fpv, (fp_of_val p z Hz). exact Hord. }
    rewrite <- (fp_of_val p x Hx).
    destruct (@legendre_euler (Fp p) (f0 F1) (f1 F1) (fadd F1) (fsub F1) (fmul F1) (fneg F1) (finv F1) (fdiv F1)
                (feqb F1) (FpOps_field p Hp) (FpOps_eqb p) s tm (fp_of p z) Hs Htm (fermat_lift _ Hf) HO (fp_of p x))
      as [[E L] | [[N [S L]] | [S L]]].
    - left. split; [rewrite E; reflexivity | rewrite <- legendre_pow_fpv; exact L].
    - right. left. split; [|split].
      + intros E. apply N. apply fp_eq. exact E.
      + apply is_sq_val. exact S.
      + rewrite <- legendre_pow_fpv; exact L.
    - right. right. split; [intros Hsq; apply S, is_sq_val, Hsq | rewrite <- legendre_pow_fpv; exact L].
  Qed.

  (* C11_quad_sqrt_exact_over_tonelli_shanks: Fp2 = Fp[X]/(X^2 - nr) over the executed base dictionary *)
  Theorem quad_sqrt_over_ts_Zp : forall nr two_inv : Z, canon p nr -> canon p two_inv ->
    ~ is_sq (fmul F) nr -> fmul F (fadd F (f1 F) (f1 F)) two_inv = f1 F ->
    forall (s : nat) (tm z : Z), (1 <= s)%nat -> 0 <= tm -> canon p z ->
    (forall x, canon p x -> x <> 0 ->
       pow (f1 F) (fmul F) x (2 ^ Z.of_nat s * (2 * tm + 1)) = f1 F) ->
    sqn (fmul F) (s - 1) z = fneg F (f1 F) ->
    forall a : Z * Z, canon2 p a ->
    let bleg := legendre_pow (f0 F) (f1 F) (fmul F) (feqb F) (2 ^ Z.of_nat (s - 1) * (2 * tm + 1)) in
    let bsqrt := sqrt_ts (f0 F) (f1 F) (fmul F) (feqb F) s z tm bleg in
    (exists y, canon2 p y /\
       quad_sqrt (f0 F) (fadd F) (fsub F) (fmul F) (finv F) (feqb F) nr two_inv bsqrt bleg a = SqSome y /\
       q_mul (fadd F) (fmul F) nr y y = a) \/
    (quad_sqrt (f0 F) (fadd F) (fsub F) (fmul F) (finv F) (feqb F) nr two_inv bsqrt bleg a = SqNone /\
     ~ is_sq2 (fadd F) (fmul F) nr a).
  Proof.
    intros nr two_inv Hnr Hti Hns Htwo s tm z Hs Htm Hz Hf Hord a Ha bleg bsqrt.
    assert (HO : sqn (fmul F1) (s - 1) (fp_of p z) = fneg F1 (f1 F1)).
    { apply fp_eq. rewrite sqn_fpv, (fp_of_val p z Hz). exact Hord. }
    assert (Hns1 : ~ is_sq (fmul F1) (fp_of p nr)).
    { intros Hsq. apply Hns. apply is_sq_val in Hsq. rewrite (fp_of_val p nr Hnr) in Hsq. exact Hsq. }
    assert (Htwo1 : fmul F1 (fadd F1 (f1 F1) (f1 F1)) (fp_of p two_inv) = f1 F1).
    { apply fp_eq. transitivity (fmul F (fadd F (f1 F) (f1 F)) two_inv); [|exact Htwo].
      rewrite fpv_fmul, (fp_of_val p two_inv Hti). reflexivity. }
    set (bleg1 := legendre_pow (f0 F1) (f1 F1) (fmul F1) (feqb F1) (2 ^ Z.of_nat (s - 1) * (2 * tm + 1))).
    set (bsqrt1 := sqrt_ts (f0 F1) (f1 F1) (fmul F1) (feqb F1) s (fp_of p z) tm bleg1).
    assert (Hl : forall x, bleg1 x = bleg (fpv x)) by (intros x; apply legendre_pow_fpv).
    assert (Hsq : forall x, sq_map fpv (bsqrt1 x) = bsqrt (fpv x)).
    { intros x. unfold bsqrt1, bsqrt. rewrite (sqrt_ts_fpv p bleg1 bleg Hl). rewrite (fp_of_val p z Hz). reflexivity. }
    pose proof (quad_sqrt_fpv p (fp_of p nr) (fp_of p two_inv) bsqrt1 bsqrt bleg1 bleg Hsq Hl (lift2 p a)) as QV.
    assert (Hav : pair_val (lift2 p a) = a).
    { destruct a as [a0 a1]. destruct Ha as [H0 H1]. unfold pair_val, lift2. cbn [fst snd] in *.
      rewrite !fp_of_val by assumption. reflexivity. }
    rewrite (fp_of_val p nr Hnr), (fp_of_val p two_inv Hti), Hav in QV.
    subst bsqrt1 bleg1.
    destruct (@quad_over_ts_total (Fp p) (f0 F1) (f1 F1) (fadd F1) (fsub F1) (fmul F1) (fneg F1) (finv F1) (fdiv F1)
                (feqb F1) (FpOps_field p Hp) (FpOps_eqb p) (fp_of p nr) (fp_of p two_inv) Hns1 Htwo1
                s tm (fp_of p z) Hs Htm (fermat_lift _ Hf) HO (lift2 p a))
      as [[y [Hy Hyy]] | [Hn Hnsq]].
    - left. exists (pair_val y). split; [split; apply fpv_canon; exact Hp0|]. split.
      + exact (eq_trans (eq_sym QV) (f_equal (sq_map pair_val) Hy)).
      + rewrite <- Hav. rewrite <- Hyy, q_mul_fpv, (fp_of_val p nr Hnr). reflexivity.
    - right. split; [exact (eq_trans (eq_sym QV) (f_equal (sq_map pair_val) Hn))|].
      intros H2. apply Hnsq. apply is_sq2_val. rewrite (fp_of_val p nr Hnr), Hav. exact H2.
  Qed.

  (* C11_quad_sqrt_exact_over_case3mod4 *)
  Theorem quad_sqrt_over_3mod4_Zp : forall nr two_inv : Z, canon p nr -> canon p two_inv ->
    ~ is_sq (fmul F) nr -> fmul F (fadd F (f1 F) (f1 F)) two_inv = f1 F ->
    forall m : Z, 0 < m ->
    (forall x, canon p x -> x <> 0 -> pow (f1 F) (fmul F) x (4 * m - 2) = f1 F) ->
    forall a : Z * Z, canon2 p a ->
    let bleg := legendre_pow (f0 F) (f1 F) (fmul F) (feqb F) (2 * m - 1) in
    let bsqrt := sqrt_case3mod4 (f1 F) (fmul F) (feqb F) m in
    (exists y, canon2 p y /\
       quad_sqrt (f0 F) (fadd F) (fsub F) (fmul F) (finv F) (feqb F) nr two_inv bsqrt bleg a = SqSome y /\
       q_mul (fadd F) (fmul F) nr y y = a) \/
    (quad_sqrt (f0 F) (fadd F) (fsub F) (fmul F) (finv F) (feqb F) nr two_inv bsqrt bleg a = SqNone /\
     ~ is_sq2 (fadd F) (fmul F) nr a).
  Proof.
    intros nr two_inv Hnr Hti Hns Htwo m Hm Hf a Ha bleg bsqrt.
    assert (Hns1 : ~ is_sq (fmul F1) (fp_of p nr)).
    { intros Hsq. apply Hns. apply is_sq_val in Hsq. rewrite (fp_of_val p nr Hnr) in Hsq. exact Hsq. }
    assert (Htwo1 : fmul F1 (fadd F1 (f1 F1) (f1 F1)) (fp_of p two_inv) = f1 F1).
    { apply fp_eq. transitivity (fmul F (fadd F (f1 F) (f1 F)) two_inv); [|exact Htwo].
      rewrite fpv_fmul, (fp_of_val p two_inv Hti). reflexivity. }
    set (bleg1 := legendre_pow (f0 F1) (f1 F1) (fmul F1) (feqb F1) (2 * m - 1)).
    set (bsqrt1 := sqrt_case3mod4 (f1 F1) (fmul F1) (feqb F1) m).
    assert (Hl : forall x, bleg1 x = bleg (fpv x)) by (intros x; apply legendre_pow_fpv).
    assert (Hsq : forall x, sq_map fpv (bsqrt1 x) = bsqrt (fpv x)) by (intros x; apply case3mod4_fpv).
    pose proof (quad_sqrt_fpv p (fp_of p nr) (fp_of p two_inv) bsqrt1 bsqrt bleg1 bleg Hsq Hl (lift2 p a)) as QV.
    assert (Hav : pair_val (lift2 p a) = a).
    { destruct a as [a0 a1]. destruct Ha as [H0 H1]. unfold pair_val, lift2. cbn [fst snd] in *.
      rewrite !fp_of_val by assumption. reflexivity. }
    rewrite (fp_of_val p nr Hnr), (fp_of_val p two_inv Hti), Hav in QV.
    subst bsqrt1 bleg1.
    destruct (@quad_over_3mod4_total (Fp p) (f0 F1) (f1 F1) (fadd F1) (fsub F1) (fmul F1) (fneg F1) (finv F1) (fdiv F1)
                (feqb F1) (FpOps_field p Hp) (FpOps_eqb p) (fp_of p nr) (fp_of p two_inv) Hns1 Htwo1
                m Hm (fermat_lift _ Hf) (lift2 p a))
      as [[y [Hy Hyy]] | [Hn Hnsq]].
    - left. exists (pair_val y). split; [split; apply fpv_canon; exact Hp0|]. split.
      + exact (eq_trans (eq_sym QV) (f_equal (sq_map pair_val) Hy)).
      + rewrite <- Hav. rewrite <- Hyy, q_mul_fpv, (fp_of_val p nr Hnr). reflexivity.
    - right. split; [exact (eq_trans (eq_sym QV) (f_equal (sq_map pair_val) Hn))|].
      intros H2. apply Hnsq. apply is_sq2_val. rewrite (fp_of_val p nr Hnr), Hav. exact H2.
  Qed.
End C11Zp.

(* ------------------------------------------------------------------ *)
(* the hypotheses are satisfiable: F_13 (s = 2, tm = 1, z = 8, nr = 2, 1/2 = 7) and F_7 (m = 2, nr = 6 = -1, 1/2 = 4) *)
(* ------------------------------------------------------------------ *)

Lemma prime_7 : prime 7.
Proof.
  apply prime_intro; [lia|]. intros n Hn.
  assert (Hc : n = 1 \/ n = 2 \/ n = 3 \/ n = 4 \/ n = 5 \/ n = 6) by lia.
  repeat (destruct Hc as [-> | Hc]; [apply Zgcd_1_rel_prime; reflexivity|]).
  subst n. apply Zgcd_1_rel_prime; reflexivity.
Qed.

Lemma ex13_c11_quad_hyps :
  canon 13 2 /\ canon 13 7 /\ ~ is_sq (fmul (ZpOps 13)) 2 /\
  fmul (ZpOps 13) (fadd (ZpOps 13) (f1 (ZpOps 13)) (f1 (ZpOps 13))) 7 = f1 (ZpOps 13).
Proof.
  split; [unfold canon; lia|]. split; [unfold canon; lia|]. split; [|vm_compute; reflexivity].
  intros [r Hr]. cbn [fmul ZpOps] in Hr. rewrite Zmult_mod in Hr.
  pose proof (Z.mod_pos_bound r 13 ltac:(lia)) as Hb. set (t := r mod 13) in *.
  apply canon13_cases in Hb.
  repeat (destruct Hb as [-> | Hb]; [vm_compute in Hr; discriminate Hr|]). subst t. rewrite Hb in Hr. vm_compute in Hr. discriminate Hr.
Qed.

Lemma ex7_c11_hyps :
  0 < 2 /\ (forall x, canon 7 x -> x <> 0 -> pow (f1 (ZpOps 7)) (fmul (ZpOps 7)) x (4 * 2 - 2) = f1 (ZpOps 7)) /\
  canon 7 6 /\ canon 7 4 /\ ~ is_sq (fmul (ZpOps 7)) 6 /\
  fmul (ZpOps 7) (fadd (ZpOps 7) (f1 (ZpOps 7)) (f1 (ZpOps 7))) 4 = f1 (ZpOps 7).
Proof.
  split; [lia|]. split.
  { intros x Hx Hn. assert (Hc : x = 1 \/ x = 2 \/ x = 3 \/ x = 4 \/ x = 5 \/ x = 6) by (unfold canon in Hx; lia).
    repeat (destruct Hc as [-> | Hc]; [vm_compute; reflexivity|]). subst x. vm_compute. reflexivity. }
  split; [unfold canon; lia|]. split; [unfold canon; lia|]. split; [|vm_compute; reflexivity].
  intros [r Hr]. cbn [fmul ZpOps] in Hr. rewrite Zmult_mod in Hr.
  pose proof (Z.mod_pos_bound r 7 ltac:(lia)) as Hb. set (t := r mod 7) in *.
  assert (Hc : t = 0 \/ t = 1 \/ t = 2 \/ t = 3 \/ t = 4 \/ t = 5 \/ t = 6) by lia.
  repeat (destruct Hc as [Hc | Hc]; [rewrite Hc in Hr; vm_compute in Hr; discriminate Hr|]).
  rewrite Hc in Hr. vm_compute in Hr. discriminate Hr.
Qed.
