(* Base/ZpTransfer7 -- Link composed with the Bridge: the C04 double-and-add and the C05 MSM
   headline theorems for the EXECUTED Jacobian dictionaries [C04.Run.sw_gops (ZpOps p) a] /
   [C05.Run.sw_gops (ZpOps p) a] on canonical on-curve inputs.
   Premises: prime p, 2 < p, canonical coefficients / points, the points on the curve, and
   associativity of the affine chord-and-tangent law -- stated over [FpOps p]
   ([sw_law_assoc (FpOps p) (fp_of p a) (fp_of p b)]) or, equivalently ([sw_assoc_lift]), over
   the executed dictionary on canonical curve points ([sw_law_assoc_Zp]). *)
From Param Require Import Param.
From V Require Import Base.Field Base.Word Base.ZpField Base.ExtField Base.ZpInstances Base.ZpTransfer Base.ZpTransfer2.
From V Require Import C03.SWModel C03.SWProofs C03.FieldHyp C12.SWSubgroupProofs.
From V Require C04.GroupOps C04.GroupTheory C04.ScalarMul C04.Run.
From V Require C05.MsmModel C05.GroupProofs C05.Run.
From V Require Import Link.SWRealises.
From V Require Link.Transfer04 Link.Transfer05 Link.Examples.
Require Import Znumtheory Lia.

(* the functions of the two statements, as functions of the field dictionary *)
Definition sw_dbl_add {T} (F : Fops T) (a : T) (limbs : list Z) (P : sw_jac (T := T)) : sw_jac (T := T) :=
  C04.ScalarMul.mul_bigint_proj (C04.Run.sw_gops F a) limbs P.
Definition sw_smul4 {T} (F : Fops T) (a : T) (k : Z) (A : sw_aff (T := T)) : sw_aff (T := T) :=
  C04.GroupTheory.smul (aff_add_sw F a) (aff_neg_sw F) None k A.
Definition sw_msm_fn {T} (F : Fops T) (a : T) (cheap : bool) (nb : Z) (bases : list (sw_aff (T := T)))
  (scalars : list (list Z)) : C05.MsmModel.outcome (sw_jac (T := T)) :=
  C05.MsmModel.msm_bigint (C05.Run.sw_gops F a) cheap nb bases scalars.
Definition sw_msm_spec {T} (F : Fops T) (a : T) (scalars : list (list Z)) (bases : list (sw_aff (T := T)))
  : sw_aff (T := T) :=
  C05.GroupProofs.msum (aff_add_sw F a) None
    (map (fun q => C05.GroupProofs.smul (aff_add_sw F a) (aff_neg_sw F) None (val (fst q)) (snd q))
         (combine scalars bases)).

Parametricity Recursive sw_dbl_add qualified.
Parametricity Recursive sw_smul4 qualified.
Parametricity Recursive sw_msm_fn qualified.
Parametricity Recursive sw_msm_spec qualified.

Definition out_map {A B : Type} (f : A -> B) (r : C05.MsmModel.outcome A) : C05.MsmModel.outcome B :=
  match r with C05.MsmModel.Ok a => C05.MsmModel.Ok (f a) | C05.MsmModel.Err e => C05.MsmModel.Err e
             | C05.MsmModel.Panic => C05.MsmModel.Panic end.
Lemma graph_out : forall A1 A2 (R : A1 -> A2 -> Type) v,
  is_graph R v -> is_graph (Transfer05.V_o_C05_o_MsmModel_o_outcome_R A1 A2 R) (out_map v).
Proof.
  intros A1 A2 R v [Gv Gr]. split.
  - intros x z H. destruct H as [a c Ha|e1 e2 He|]; try reflexivity; cbn.
    + rewrite (Gv _ _ Ha). reflexivity.
    + rewrite (Z_R_eq _ _ He). reflexivity.
  - intros [a|e|]; constructor; [apply Gr | apply Z_R_refl].
Qed.
Lemma listlistZ_R_refl : forall l : list (list Z), list_R _ _ (list_R Z Z Z_R) l l.
Proof. induction l; constructor; [apply listZ_R_refl | assumption]. Qed.

Lemma sw_dbl_add_val : forall p a limbs (P : Fp p * Fp p * Fp p),
  jac_val (sw_dbl_add (FpOps p) a limbs P) = sw_dbl_add (ZpOps p) (fpv a) limbs (jac_val P).
Proof.
  intros p a limbs P. apply (fst (graph_jac p)).
  apply (V_o_Base_o_ZpTransfer7_o_sw_dbl_add_R _ _ (Rp p) _ _ (FpZp_R p) _ _ (Rp_fpv p a) _ _ (listZ_R_refl limbs)).
  apply (snd (graph_jac p)).
Qed.
Lemma sw_smul4_val : forall p a k (A : option (Fp p * Fp p)),
  aff_val (sw_smul4 (FpOps p) a k A) = sw_smul4 (ZpOps p) (fpv a) k (aff_val A).
Proof.
  intros p a k A. apply (fst (graph_aff p)).
  apply (V_o_Base_o_ZpTransfer7_o_sw_smul4_R _ _ (Rp p) _ _ (FpZp_R p) _ _ (Rp_fpv p a) _ _ (Z_R_refl k)).
  apply (snd (graph_aff p)).
Qed.
Lemma sw_msm_fn_val : forall p a cheap nb (bases : list (option (Fp p * Fp p))) scalars,
  out_map jac_val (sw_msm_fn (FpOps p) a cheap nb bases scalars) =
  sw_msm_fn (ZpOps p) (fpv a) cheap nb (map aff_val bases) scalars.
Proof.
  intros p a cheap nb bases scalars. apply (fst (graph_out _ _ _ _ (graph_jac p))).
  apply (V_o_Base_o_ZpTransfer7_o_sw_msm_fn_R _ _ (Rp p) _ _ (FpZp_R p) _ _ (Rp_fpv p a) _ _ (bool_R_refl cheap)
           _ _ (Z_R_refl nb)); [apply (snd (graph_list _ _ _ _ (graph_aff p))) | apply listlistZ_R_refl].
Qed.
Lemma sw_msm_spec_val : forall p a scalars (bases : list (option (Fp p * Fp p))),
  aff_val (sw_msm_spec (FpOps p) a scalars bases) = sw_msm_spec (ZpOps p) (fpv a) scalars (map aff_val bases).
Proof.
  intros p a scalars bases. apply (fst (graph_aff p)).
  apply (V_o_Base_o_ZpTransfer7_o_sw_msm_spec_R _ _ (Rp p) _ _ (FpZp_R p) _ _ (Rp_fpv p a));
    [apply listlistZ_R_refl | apply (snd (graph_list _ _ _ _ (graph_aff p)))].
Qed.

Lemma affs_lift_val : forall p l, Forall (canon_aff p) l -> map aff_val (map (aff_lift p) l) = l.
Proof. intros p. apply lift_list. intros A HA. apply aff_lift_val, HA. Qed.
Lemma Forall_aff_on_val : forall p a b (l : list (option (Fp p * Fp p))),
  Forall (aff_on (ZpOps p) (fpv a) (fpv b)) (map aff_val l) -> Forall (aff_on (FpOps p) a b) l.
Proof.
  intros p a b l. induction l as [|A l IH]; intros H; [constructor|].
  cbn [map] in H. inversion H as [|x y Hx Hy]; subst. constructor; [apply aff_on_val; exact Hx | apply IH; exact Hy].
Qed.

(* associativity of the affine law on the canonical curve points of the executed dictionary *)
Definition sw_law_assoc_Zp (p a b : Z) : Prop :=
  forall A B C, canon_aff p A -> canon_aff p B -> canon_aff p C ->
  aff_on (ZpOps p) a b A -> aff_on (ZpOps p) a b B -> aff_on (ZpOps p) a b C ->
  aff_add_sw (ZpOps p) a A (aff_add_sw (ZpOps p) a B C) = aff_add_sw (ZpOps p) a (aff_add_sw (ZpOps p) a A B) C.

Lemma sw_assoc_lift : forall p a b, 0 < p -> canon p a -> canon p b ->
  sw_law_assoc_Zp p a b -> sw_law_assoc (FpOps p) (fp_of p a) (fp_of p b).
Proof.
  intros p a b Hp Ha Hb H A B C HA HB HC. apply aff_val_inj. rewrite !aff_add_sw_val.
  apply aff_on_val in HA, HB, HC. rewrite (fp_of_val p a Ha), (fp_of_val p b Hb) in *.
  apply H; try assumption; apply aff_val_canon; exact Hp.
Qed.
Lemma sw_assoc_unlift : forall p a b, canon p a -> canon p b ->
  sw_law_assoc (FpOps p) (fp_of p a) (fp_of p b) -> sw_law_assoc_Zp p a b.
Proof.
  intros p a b Ha Hb H A B C CA CB CC HA HB HC.
  rewrite <- (fp_of_val p a Ha), <- (fp_of_val p b Hb),
          <- (aff_lift_val p A CA), <- (aff_lift_val p B CB), <- (aff_lift_val p C CC) in *.
  apply aff_on_val in HA, HB, HC. rewrite !fp_of_fpv in H. rewrite <- !aff_add_sw_val. f_equal.
  exact (H _ _ _ HA HB HC).
Qed.

Section LinkZp.
  Variable p : Z.
  Hypothesis Hp : prime p.
  Hypothesis H2 : 2 < p.
  Let G := FpOps_good_field p Hp H2.
  Local Notation F := (ZpOps p).

  (* Link_sw_double_and_add at the executed dictionary *)
  Theorem sw_double_and_add_Zp : forall a b, canon p a -> canon p b ->
    sw_law_assoc (FpOps p) (fp_of p a) (fp_of p b) ->
    forall limbs P, wf limbs -> canon_jac p P -> jac_on F a b P ->
    jac_on F a b (C04.ScalarMul.mul_bigint_proj (C04.Run.sw_gops F a) limbs P) /\
    sw_to_affine F (C04.ScalarMul.mul_bigint_proj (C04.Run.sw_gops F a) limbs P)
    = C04.GroupTheory.smul (aff_add_sw F a) (aff_neg_sw F) None (val limbs) (sw_to_affine F P).
  Proof.
    intros a b Ha Hb Hassoc limbs P Hwf HP HonP.
    change (C04.ScalarMul.mul_bigint_proj (C04.Run.sw_gops F a) limbs P) with (sw_dbl_add F a limbs P).
    change (C04.GroupTheory.smul (aff_add_sw F a) (aff_neg_sw F) None (val limbs) (sw_to_affine F P))
      with (sw_smul4 F a (val limbs) (sw_to_affine F P)).
    rewrite <- (fp_of_val p a Ha), <- (fp_of_val p b Hb), <- (jac_lift_val p P HP) in *.
    rewrite !fp_of_fpv in Hassoc. apply jac_on_val in HonP.
    rewrite <- sw_dbl_add_val, <- !sw_to_affine_val, <- sw_smul4_val.
    destruct (sw_double_and_add (FpOps p) (fp_of p a) (fp_of p b) G Hassoc limbs (jac_lift p P) Hwf HonP) as [E1 E2].
    split; [apply jac_on_val; exact E1 | f_equal; exact E2].
  Qed.

  (* Link_sw_msm at the executed dictionary *)
  Theorem sw_msm_Zp : forall a b, canon p a -> canon p b ->
    sw_law_assoc (FpOps p) (fp_of p a) (fp_of p b) ->
    forall cheap nb bases scalars,
    1 <= nb -> Z.min (C05.MsmModel.len bases) (C05.MsmModel.len scalars) < 2 ^ 64 ->
    Forall (canon_aff p) bases -> Forall (aff_on F a b) bases ->
    Forall (fun s => wf s /\ nb <= 64 * C05.MsmModel.len s /\ val s < 2 ^ nb) scalars ->
    exists g, C05.MsmModel.msm_bigint (C05.Run.sw_gops F a) cheap nb bases scalars = C05.MsmModel.Ok g /\
              canon_jac p g /\ jac_on F a b g /\
              sw_to_affine F g = C05.GroupProofs.msum (aff_add_sw F a) None
                (map (fun q => C05.GroupProofs.smul (aff_add_sw F a) (aff_neg_sw F) None (val (fst q)) (snd q))
                     (combine scalars bases)).
  Proof.
    intros a b Ha Hb Hassoc cheap nb bases scalars Hnb Hlen Hcb Hon Hsc.
    assert (Hp0 : 0 < p) by lia.
    change (C05.MsmModel.msm_bigint (C05.Run.sw_gops F a) cheap nb bases scalars)
      with (sw_msm_fn F a cheap nb bases scalars).
    change (C05.GroupProofs.msum (aff_add_sw F a) None
              (map (fun q => C05.GroupProofs.smul (aff_add_sw F a) (aff_neg_sw F) None (val (fst q)) (snd q))
                   (combine scalars bases))) with (sw_msm_spec F a scalars bases).
    rewrite <- (fp_of_val p a Ha), <- (fp_of_val p b Hb), <- (affs_lift_val p bases Hcb) in *.
    rewrite !fp_of_fpv in Hassoc. apply Forall_aff_on_val in Hon.
    assert (Hlen' : Z.min (C05.MsmModel.len (map (aff_lift p) bases)) (C05.MsmModel.len scalars) < 2 ^ 64).
    { unfold C05.MsmModel.len in *. rewrite !map_length in Hlen. rewrite map_length. exact Hlen. }
    destruct (sw_msm (FpOps p) (fp_of p a) (fp_of p b) G Hassoc cheap nb _ scalars Hnb Hlen' Hon Hsc)
      as (g & Hg & Hgon & Hgaff).
    exists (jac_val g). split; [|split; [|split]].
    - rewrite <- sw_msm_fn_val. unfold sw_msm_fn. rewrite Hg. reflexivity.
    - apply jac_val_canon; exact Hp0.
    - apply jac_on_val. exact Hgon.
    - rewrite <- sw_to_affine_val, <- sw_msm_spec_val. f_equal. exact Hgaff.
  Qed.
End LinkZp.

(* ------------------------------------------------------------------ *)
(* no premise left: y^2 = x^3 + 2 over F_13, associativity by exhaustion (Link/Examples.v) *)
(* ------------------------------------------------------------------ *)
Lemma sw_double_and_add_Zp13 : forall limbs, wf limbs ->
  sw_to_affine (ZpOps 13) (C04.ScalarMul.mul_bigint_proj (C04.Run.sw_gops (ZpOps 13) 0) limbs (4, 6, 2))
  = C04.GroupTheory.smul (aff_add_sw (ZpOps 13) 0) (aff_neg_sw (ZpOps 13)) None (val limbs) (Some (1, 4)).
Proof.
  intros limbs Hwf.
  destruct ex13_sw_hyps as (Ha & Hb & _ & HP & _ & HonP).
  exact (proj2 (sw_double_and_add_Zp 13 prime_13 eq_refl 0 2 Ha Hb Examples.sw_assoc_13 limbs (4, 6, 2) Hwf HP HonP)).
Qed.
Lemma sw_assoc_Zp13 : sw_law_assoc_Zp 13 0 2.
Proof.
  destruct ex13_sw_hyps as (Ha & Hb & _). exact (sw_assoc_unlift 13 0 2 Ha Hb Examples.sw_assoc_13).
Qed.
