(* Base/ZpTransfer8 -- the transfer recipe applied to C13: the simplified SWU map ([swu_coded],
   inversion-free variant of swu.rs) with the operations of the EXECUTED dictionary [ZpOps p].
   The oracles [is_qr], [sqrt], [parity] are arbitrary functions on Z; the premises about them are
   only required on canonical arguments, plus: [sqrt] returns canonical roots. *)
From Param Require Import Param.
From V Require Import Base.Field Base.ZpField Base.ExtField Base.ZpInstances Base.ZpTransfer Base.ZpTransfer2.
From V Require Import C13.Maps C13.MapProofs.
Require Import Znumtheory Lia.

Parametricity Recursive swu_coded qualified.

Definition mres_map {A B : Type} (f : A -> B) (r : mres A) : mres B :=
  match r with MOk a => MOk (f a) | MPanic => MPanic end.
Lemma graph_mres : forall A1 A2 (R : A1 -> A2 -> Type) v,
  is_graph R v -> is_graph (V_o_C13_o_Maps_o_mres_R A1 A2 R) (mres_map v).
Proof.
  intros A1 A2 R v [Gv Gr]. split.
  - intros x z H. destruct H as [a c Ha|]; [|reflexivity]. cbn. rewrite (Gv _ _ Ha). reflexivity.
  - intros [a|]; constructor. apply Gr.
Qed.

Section C13Zp.
  Variable p : Z.
  Hypothesis Hp : prime p.
  Local Notation F := (ZpOps p).
  Local Notation F1 := (FpOps p).
  Let Hp0 : 0 < p. Proof. destruct Hp; lia. Qed.

  Variables (is_qr : Z -> bool) (sqrt : Z -> option Z) (parity : Z -> bool).
  (* the oracles seen from Fp p *)
  Let is_qr1 (x : Fp p) : bool := is_qr (fpv x).
  Let sqrt1 (x : Fp p) : option (Fp p) := option_map (fp_of p) (sqrt (fpv x)).
  Let parity1 (x : Fp p) : bool := parity (fpv x).

  Hypothesis sqrt_canon : forall x r, canon p x -> sqrt x = Some r -> canon p r.

  Lemma sqrt1_R : forall (x : Fp p) z, Rp p x z -> option_R _ _ (Rp p) (sqrt1 x) (sqrt z).
  Proof.
    intros x z H. unfold Rp in H. subst z. unfold sqrt1.
    destruct (sqrt (fpv x)) as [r|] eqn:E; constructor.
    apply Rp_lift. apply (sqrt_canon (fpv x)); [apply fpv_canon; exact Hp0 | exact E].
  Qed.

  Lemma swu_coded_val : forall a b zeta u : Fp p,
    mres_map pair_val (swu_coded (f0 F1) (f1 F1) (fadd F1) (fmul F1) (fneg F1) (finv F1) (feqb F1)
                         is_qr1 sqrt1 parity1 a b zeta u) =
    swu_coded (f0 F) (f1 F) (fadd F) (fmul F) (fneg F) (finv F) (feqb F) is_qr sqrt parity
      (fpv a) (fpv b) (fpv zeta) (fpv u).
  Proof.
    intros a b zeta u. apply (fst (graph_mres _ _ _ _ (graph_pair p))).
    apply (V_o_C13_o_Maps_o_swu_coded_R _ _ (Rp p) _ _ (Rp_f0 p) _ _ (Rp_f1 p)); try reflexivity.
    - intros x1 z1 H1 x2 z2 H2. apply Rp_fadd; assumption.
    - intros x1 z1 H1 x2 z2 H2. apply Rp_fmul; assumption.
    - intros x1 z1 H1. apply Rp_fneg; assumption.
    - intros x1 z1 H1. apply Rp_finv; assumption.
    - intros x1 z1 H1 x2 z2 H2. apply bool_R_of_eq. apply Rp_feqb; assumption.
    - intros x z H. unfold Rp in H. subst z. apply bool_R_refl.
    - exact sqrt1_R.
    - intros x z H. unfold Rp in H. subst z. apply bool_R_refl.
  Qed.

  (* C13_swu_correct *)
  Theorem swu_Zp : forall a b zeta : Z, canon p a -> canon p b -> canon p zeta ->
    a <> f0 F -> zeta <> f0 F ->
    (forall x, canon p x -> is_qr x = true -> exists r, sqrt x = Some r /\ fmul F r r = x) ->
    sqrt (f0 F) = Some (f0 F) ->
    (forall x, canon p x -> x <> f0 F -> is_qr x = false -> is_qr (fmul F zeta x) = true) ->
    is_qr (sw_g (fadd F) (fmul F) a b (fmul F b (finv F (fmul F zeta a)))) = true ->
    forall u, canon p u -> exists x y, canon p x /\ canon p y /\
      swu_coded (f0 F) (f1 F) (fadd F) (fmul F) (fneg F) (finv F) (feqb F) is_qr sqrt parity a b zeta u = MOk (x, y) /\
      fmul F y y = fadd F (fadd F (fmul F (fmul F x x) x) (fmul F a x)) b /\
      ((forall z, canon p z -> z <> f0 F -> parity (fneg F z) = negb (parity z)) -> y <> f0 F -> parity y = parity u).
  Proof.
    intros a b zeta Ha Hb Hz Hanz Hznz Hsq Hs0 Hnsq Hexc u Hu.
    assert (Anz : fp_of p a <> f0 F1).
    { intros E. apply Hanz. apply (f_equal fpv) in E. rewrite (fp_of_val p a Ha) in E. exact E. }
    assert (Znz : fp_of p zeta <> f0 F1).
    { intros E. apply Hznz. apply (f_equal fpv) in E. rewrite (fp_of_val p zeta Hz) in E. exact E. }
    assert (S1 : forall x, is_qr1 x = true -> exists r, sqrt1 x = Some r /\ fmul F1 r r = x).
    { intros x Hx. destruct (Hsq (fpv x) (fpv_canon p x Hp0) Hx) as [r [Hr Hrr]].
      exists (fp_of p r). unfold sqrt1. rewrite Hr. split; [reflexivity|].
      apply fp_eq. rewrite fpv_fmul.
      rewrite (fp_of_val p r (sqrt_canon _ _ (fpv_canon p x Hp0) Hr)). exact Hrr. }
    assert (S0 : sqrt1 (f0 F1) = Some (f0 F1)).
    { unfold sqrt1. change (fpv (f0 F1)) with (f0 F). rewrite Hs0. reflexivity. }
    assert (N1 : forall x, x <> f0 F1 -> is_qr1 x = false -> is_qr1 (fmul F1 (fp_of p zeta) x) = true).
    { intros x Hx Hq. unfold is_qr1. rewrite fpv_fmul, (fp_of_val p zeta Hz).
      apply Hnsq; [apply fpv_canon; exact Hp0 | | exact Hq].
      intros E. apply Hx. apply fp_eq. exact E. }
    assert (E1 : is_qr1 (sw_g (fadd F1) (fmul F1) (fp_of p a) (fp_of p b)
                    (fmul F1 (fp_of p b) (finv F1 (fmul F1 (fp_of p zeta) (fp_of p a))))) = true).
    { unfold is_qr1. rewrite <- Hexc. f_equal. unfold sw_g, sq.
      rewrite !fpv_fadd, !fpv_fmul, !fpv_finv, !fpv_fmul, !(fp_of_val p a Ha), !(fp_of_val p b Hb), !(fp_of_val p zeta Hz).
      reflexivity. }
    destruct (@swu_correct (Fp p) (f0 F1) (f1 F1) (fadd F1) (fsub F1) (fmul F1) (fneg F1) (finv F1) (fdiv F1) (feqb F1)
                (FpOps_field p Hp) (FpOps_eqb p) is_qr1 sqrt1 parity1 (fp_of p a) (fp_of p b) (fp_of p zeta)
                Anz Znz S1 S0 N1 E1 (fp_of p u)) as (x & y & Hxy & Hon & Hpar).
    exists (fpv x), (fpv y). split; [apply fpv_canon; exact Hp0|]. split; [apply fpv_canon; exact Hp0|]. split; [|split].
    - pose proof (swu_coded_val (fp_of p a) (fp_of p b) (fp_of p zeta) (fp_of p u)) as V.
      rewrite (fp_of_val p a Ha), (fp_of_val p b Hb), (fp_of_val p zeta Hz), (fp_of_val p u Hu) in V.
      rewrite <- V, Hxy. reflexivity.
    - apply (f_equal fpv) in Hon. rewrite !fpv_fadd, !fpv_fmul, (fp_of_val p a Ha), (fp_of_val p b Hb) in Hon. exact Hon.
    - intros Hpz Hy. unfold parity1 in Hpar. rewrite (fp_of_val p u Hu) in Hpar. apply Hpar.
      + intros z Hznz'. rewrite fpv_fneg. apply Hpz; [apply fpv_canon; exact Hp0|].
        intros E. apply Hznz'. apply fp_eq. exact E.
      + intros E. apply Hy. rewrite E. reflexivity.
  Qed.
End C13Zp.

(* the hypotheses are satisfiable: y^2 = x^3 + x + 1 over F_13, zeta = 2 (a non-square), brute-force oracles *)
Definition sqrt13 (x : Z) : option Z := find (fun r => (r * r) mod 13 =? x) [0; 1; 2; 3; 4; 5; 6].
Definition is_qr13 (x : Z) : bool := match sqrt13 x with Some _ => true | None => false end.
Lemma ex13_c13_hyps :
  (forall x r, canon 13 x -> sqrt13 x = Some r -> canon 13 r) /\
  canon 13 1 /\ canon 13 2 /\ 1 <> f0 (ZpOps 13) /\ 2 <> f0 (ZpOps 13) /\
  (forall x, canon 13 x -> is_qr13 x = true -> exists r, sqrt13 x = Some r /\ fmul (ZpOps 13) r r = x) /\
  sqrt13 (f0 (ZpOps 13)) = Some (f0 (ZpOps 13)) /\
  (forall x, canon 13 x -> x <> f0 (ZpOps 13) -> is_qr13 x = false -> is_qr13 (fmul (ZpOps 13) 2 x) = true) /\
  is_qr13 (sw_g (fadd (ZpOps 13)) (fmul (ZpOps 13)) 1 1
             (fmul (ZpOps 13) 1 (finv (ZpOps 13) (fmul (ZpOps 13) 2 1)))) = true.
Proof.
  split.
  { intros x r Hx. apply canon13_cases in Hx.
    repeat (destruct Hx as [-> | Hx]; [intros E; vm_compute in E; first [discriminate E | injection E as <-; unfold canon; lia]|]).
    subst x. intros E; vm_compute in E; first [discriminate E | injection E as <-; unfold canon; lia]. }
  split; [unfold canon; lia|]. split; [unfold canon; lia|]. split; [discriminate|]. split; [discriminate|].
  split.
  { intros x Hx. apply canon13_cases in Hx.
    repeat (destruct Hx as [-> | Hx]; [intros E; vm_compute in E; first [discriminate E | eexists; split; reflexivity]|]).
    subst x. intros E; vm_compute in E; first [discriminate E | eexists; split; reflexivity]. }
  split; [reflexivity|]. split; [|vm_compute; reflexivity].
  intros x Hx Hn. apply canon13_cases in Hx.
  repeat (destruct Hx as [-> | Hx]; [try (exfalso; apply Hn; reflexivity); intros E; vm_compute in E; first [discriminate E | vm_compute; reflexivity]|]).
  subst x. intros E; vm_compute in E; first [discriminate E | vm_compute; reflexivity].
Qed.
