(* Base/ZpTransfer8Rfc -- the transfer recipe of ZpTransfer8 applied to the second C13 headline,
   C13_swu_equals_rfc (C13/SwuRfc.v): with the operations of the EXECUTED dictionary [ZpOps p]
   the coded simplified SWU map and the map of RFC 9380 6.6.2 return the same canonical point.
   Oracles as in ZpTransfer8: arbitrary functions on Z, premises only on canonical arguments,
   [sqrt] returns canonical roots. *)
From Param Require Import Param.
From V Require Import Base.Field Base.ZpField Base.ExtField Base.ZpInstances Base.ZpTransfer Base.ZpTransfer2
  Base.ZpTransfer8.
From V Require Import C13.Maps C13.MapProofs C13.SwuRfc.
Require Import Znumtheory Lia.

Parametricity Recursive swu_rfc qualified.
Parametricity Recursive swu_rfc_x1 qualified.

Section C13RfcZp.
  Variable p : Z.
  Hypothesis Hp : prime p.
  Local Notation F := (ZpOps p).
  Local Notation F1 := (FpOps p).
  Let Hp0 : 0 < p. Proof. destruct Hp; lia. Qed.

  Variables (is_qr : Z -> bool) (sqrt : Z -> option Z) (parity : Z -> bool).
  Let is_qr1 (x : Fp p) : bool := is_qr (fpv x).
  Let sqrt1 (x : Fp p) : option (Fp p) := option_map (fp_of p) (sqrt (fpv x)).
  Let parity1 (x : Fp p) : bool := parity (fpv x).

  Hypothesis sqrt_canon : forall x r, canon p x -> sqrt x = Some r -> canon p r.

  Lemma swu_rfc_val : forall a b zeta u : Fp p,
    option_map pair_val (swu_rfc (f0 F1) (f1 F1) (fadd F1) (fmul F1) (fneg F1) (finv F1) (feqb F1)
                           is_qr1 sqrt1 parity1 a b zeta u) =
    swu_rfc (f0 F) (f1 F) (fadd F) (fmul F) (fneg F) (finv F) (feqb F) is_qr sqrt parity
      (fpv a) (fpv b) (fpv zeta) (fpv u).
  Proof.
    intros a b zeta u. apply (fst (graph_option _ _ _ _ (graph_pair p))).
    apply (V_o_C13_o_Maps_o_swu_rfc_R _ _ (Rp p) _ _ (Rp_f0 p) _ _ (Rp_f1 p)); try reflexivity.
    - intros x1 z1 H1 x2 z2 H2. apply Rp_fadd; assumption.
    - intros x1 z1 H1 x2 z2 H2. apply Rp_fmul; assumption.
    - intros x1 z1 H1. apply Rp_fneg; assumption.
    - intros x1 z1 H1. apply Rp_finv; assumption.
    - intros x1 z1 H1 x2 z2 H2. apply bool_R_of_eq. apply Rp_feqb; assumption.
    - intros x z H. unfold Rp in H. subst z. apply bool_R_refl.
    - exact (sqrt1_R p Hp sqrt sqrt_canon).
    - intros x z H. unfold Rp in H. subst z. apply bool_R_refl.
  Qed.

  Lemma swu_rfc_x1_val : forall a b zeta u : Fp p,
    fpv (swu_rfc_x1 (f0 F1) (f1 F1) (fadd F1) (fmul F1) (fneg F1) (finv F1) (feqb F1) a b zeta u) =
    swu_rfc_x1 (f0 F) (f1 F) (fadd F) (fmul F) (fneg F) (finv F) (feqb F) (fpv a) (fpv b) (fpv zeta) (fpv u).
  Proof.
    intros a b zeta u.
    apply (V_o_C13_o_SwuRfc_o_swu_rfc_x1_R _ _ (Rp p) _ _ (Rp_f0 p) _ _ (Rp_f1 p)); try reflexivity.
    - intros x1 z1 H1 x2 z2 H2. apply Rp_fadd; assumption.
    - intros x1 z1 H1 x2 z2 H2. apply Rp_fmul; assumption.
    - intros x1 z1 H1. apply Rp_fneg; assumption.
    - intros x1 z1 H1. apply Rp_finv; assumption.
    - intros x1 z1 H1 x2 z2 H2. apply bool_R_of_eq. apply Rp_feqb; assumption.
  Qed.

  (* C13_swu_equals_rfc *)
  Theorem swu_equals_rfc_Zp : forall a b zeta : Z, canon p a -> canon p b -> canon p zeta ->
    a <> f0 F -> zeta <> f0 F ->
    (forall x, canon p x -> is_qr x = true -> exists r, sqrt x = Some r /\ fmul F r r = x) ->
    sqrt (f0 F) = Some (f0 F) ->
    (forall x, canon p x -> x <> f0 F -> is_qr x = false -> is_qr (fmul F zeta x) = true) ->
    is_qr (sw_g (fadd F) (fmul F) a b (fmul F b (finv F (fmul F zeta a)))) = true ->
    (forall z, canon p z -> z <> f0 F -> parity (fneg F z) = negb (parity z)) ->
    (forall x r, canon p r -> r <> f0 F -> fmul F r r = x -> exists s, sqrt x = Some s /\ fmul F s s = x) ->
    forall u, canon p u ->
      sw_g (fadd F) (fmul F) a b
           (swu_rfc_x1 (f0 F) (f1 F) (fadd F) (fmul F) (fneg F) (finv F) (feqb F) a b zeta u) <> f0 F ->
      exists x y, canon p x /\ canon p y /\
        swu_coded (f0 F) (f1 F) (fadd F) (fmul F) (fneg F) (finv F) (feqb F) is_qr sqrt parity a b zeta u = MOk (x, y) /\
        swu_rfc (f0 F) (f1 F) (fadd F) (fmul F) (fneg F) (finv F) (feqb F) is_qr sqrt parity a b zeta u = Some (x, y).
  Proof.
    intros a b zeta Ha Hb Hz Hanz Hznz Hsq Hs0 Hnsq Hexc Hpar Hcomp u Hu Hg.
    assert (Anz : fp_of p a <> f0 F1).
    { intros E. apply Hanz. apply (f_equal fpv) in E. rewrite (fp_of_val p a Ha) in E. exact E. }
    assert (Znz : fp_of p zeta <> f0 F1).
    { intros E. apply Hznz. apply (f_equal fpv) in E. rewrite (fp_of_val p zeta Hz) in E. exact E. }
    assert (S1 : forall x, is_qr1 x = true -> exists r, sqrt1 x = Some r /\ fmul F1 r r = x).
    { intros x Hx. destruct (Hsq (fpv x) (fpv_canon p x Hp0) Hx) as [r [Hr Hrr]].
      exists (fp_of p r). unfold sqrt1. rewrite Hr. split; [reflexivity|].
      apply fp_eq. rewrite fpv_fmul.
      rewrite (fp_of_val p r (sqrt_canon _ _ (fpv_canon p x Hp0) Hr)). exact Hrr. }
    assert (S0 : sqrt1 (f0 F1) = Some (f0 F1)).
    { unfold sqrt1. change (fpv (f0 F1)) with (f0 F). rewrite Hs0. reflexivity. }
    assert (N1 : forall x, x <> f0 F1 -> is_qr1 x = false -> is_qr1 (fmul F1 (fp_of p zeta) x) = true).
    { intros x Hx Hq. unfold is_qr1. rewrite fpv_fmul, (fp_of_val p zeta Hz).
      apply Hnsq; [apply fpv_canon; exact Hp0 | | exact Hq].
      intros E. apply Hx. apply fp_eq. exact E. }
    assert (E1 : is_qr1 (sw_g (fadd F1) (fmul F1) (fp_of p a) (fp_of p b)
                    (fmul F1 (fp_of p b) (finv F1 (fmul F1 (fp_of p zeta) (fp_of p a))))) = true).
    { unfold is_qr1. rewrite <- Hexc. f_equal. unfold sw_g, sq.
      rewrite !fpv_fadd, !fpv_fmul, !fpv_finv, !fpv_fmul, !(fp_of_val p a Ha), !(fp_of_val p b Hb), !(fp_of_val p zeta Hz).
      reflexivity. }
    assert (P1 : forall z, z <> f0 F1 -> parity1 (fneg F1 z) = negb (parity1 z)).
    { intros z Hz'. unfold parity1. rewrite fpv_fneg. apply Hpar; [apply fpv_canon; exact Hp0|].
      intros E. apply Hz'. apply fp_eq. exact E. }
    assert (C1 : forall x r, r <> f0 F1 -> fmul F1 r r = x -> exists s, sqrt1 x = Some s /\ fmul F1 s s = x).
    { intros x r Hr Hrr.
      destruct (Hcomp (fpv x) (fpv r) (fpv_canon p r Hp0)) as [s [Hs Hss]].
      - intros E. apply Hr. apply fp_eq. exact E.
      - rewrite <- Hrr, fpv_fmul. reflexivity.
      - exists (fp_of p s). unfold sqrt1. rewrite Hs. split; [reflexivity|].
        apply fp_eq. rewrite fpv_fmul.
        rewrite (fp_of_val p s (sqrt_canon _ _ (fpv_canon p x Hp0) Hs)). exact Hss. }
    assert (G1 : sw_g (fadd F1) (fmul F1) (fp_of p a) (fp_of p b)
                   (swu_rfc_x1 (f0 F1) (f1 F1) (fadd F1) (fmul F1) (fneg F1) (finv F1) (feqb F1)
                      (fp_of p a) (fp_of p b) (fp_of p zeta) (fp_of p u)) <> f0 F1).
    { intros E. apply Hg. apply (f_equal fpv) in E. unfold sw_g, sq in E |- *.
      rewrite !fpv_fadd, !fpv_fmul, swu_rfc_x1_val,
        !(fp_of_val p a Ha), !(fp_of_val p b Hb), !(fp_of_val p zeta Hz), !(fp_of_val p u Hu) in E.
      exact E. }
    destruct (@swu_coded_equals_rfc (Fp p) (f0 F1) (f1 F1) (fadd F1) (fsub F1) (fmul F1) (fneg F1) (finv F1) (fdiv F1)
                (feqb F1) (FpOps_field p Hp) (FpOps_eqb p) is_qr1 sqrt1 parity1 (fp_of p a) (fp_of p b) (fp_of p zeta)
                Anz Znz S1 S0 N1 E1 P1 C1 (fp_of p u) G1) as (x & y & Hc & Hr).
    exists (fpv x), (fpv y). split; [apply fpv_canon; exact Hp0|]. split; [apply fpv_canon; exact Hp0|]. split.
    - pose proof (swu_coded_val p Hp is_qr sqrt parity sqrt_canon (fp_of p a) (fp_of p b) (fp_of p zeta) (fp_of p u)) as V.
      rewrite (fp_of_val p a Ha), (fp_of_val p b Hb), (fp_of_val p zeta Hz), (fp_of_val p u Hu) in V.
      rewrite <- V. fold is_qr1 sqrt1 parity1. rewrite Hc. reflexivity.
    - pose proof (swu_rfc_val (fp_of p a) (fp_of p b) (fp_of p zeta) (fp_of p u)) as V.
      rewrite (fp_of_val p a Ha), (fp_of_val p b Hb), (fp_of_val p zeta Hz), (fp_of_val p u Hu) in V.
      rewrite <- V, Hr. reflexivity.
  Qed.
End C13RfcZp.

(* the additional hypotheses are satisfiable: the instance of ZpTransfer8.ex13_c13_hyps (y^2 = x^3 + x + 1 over F_13,
   zeta = 2, brute-force oracles, parity = Z.odd = sgn0); g(x1) <> 0 for every u <> 0 (u = 0 gives x1 = 7, a root of g) *)
Lemma ex13_c13_rfc_hyps :
  (forall z, canon 13 z -> z <> f0 (ZpOps 13) -> Z.odd (fneg (ZpOps 13) z) = negb (Z.odd z)) /\
  (forall x r, canon 13 r -> r <> f0 (ZpOps 13) -> fmul (ZpOps 13) r r = x ->
     exists s, sqrt13 x = Some s /\ fmul (ZpOps 13) s s = x) /\
  (forall u, canon 13 u -> u <> f0 (ZpOps 13) ->
     sw_g (fadd (ZpOps 13)) (fmul (ZpOps 13)) 1 1
       (swu_rfc_x1 (f0 (ZpOps 13)) (f1 (ZpOps 13)) (fadd (ZpOps 13)) (fmul (ZpOps 13)) (fneg (ZpOps 13))
          (finv (ZpOps 13)) (feqb (ZpOps 13)) 1 1 2 u) <> f0 (ZpOps 13)).
Proof.
  split; [|split].
  - intros z Hz Hn. apply canon13_cases in Hz.
    repeat (destruct Hz as [-> | Hz]; [try (exfalso; apply Hn; reflexivity); vm_compute; reflexivity|]).
    subst z. vm_compute; reflexivity.
  - intros x r Hr Hn. apply canon13_cases in Hr.
    repeat (destruct Hr as [-> | Hr]; [try (exfalso; apply Hn; reflexivity); intros <-; eexists; split; vm_compute; reflexivity|]).
    subst r. intros <-; eexists; split; vm_compute; reflexivity.
  - intros u Hu Hn. apply canon13_cases in Hu.
    repeat (destruct Hu as [-> | Hu]; [try (exfalso; apply Hn; reflexivity); vm_compute; discriminate|]).
    subst u. vm_compute; discriminate.
Qed.
