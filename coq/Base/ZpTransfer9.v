(* Base/ZpTransfer9 -- Link composed with the Bridge, twisted Edwards: the C04 double-and-add theorem
   for the EXECUTED extended-coordinates dictionary [C04.Run.te_gops (ZpOps p) a d] on canonical valid
   on-curve inputs, for complete curves (a = s^2, d a non-square among the canonical residues).
   Associativity of the Edwards law is a premise, stated over [FpOps p]. *)
From Param Require Import Param.
From V Require Import Base.Field Base.Word Base.ZpField Base.ExtField Base.ZpInstances Base.ZpTransfer Base.ZpTransfer2.
From V Require Import C03.SWModel C03.TEModel C03.TEProofs C03.TEComplete C03.FieldHyp C12.TESubgroupProofs.
From V Require C04.GroupOps C04.GroupTheory C04.ScalarMul C04.Run.
From V Require Import Link.TERealises.
From V Require Link.Transfer04 Link.ExamplesTE.
Require Import Znumtheory Lia.

Definition te_dbl_add {T} (F : Fops T) (a d : T) (limbs : list Z) (P : te_ext (T := T)) : te_ext (T := T) :=
  C04.ScalarMul.mul_bigint_proj (C04.Run.te_gops F a d) limbs P.
Definition te_smul4 {T} (F : Fops T) (a d : T) (k : Z) (A : te_aff (T := T)) : te_aff (T := T) :=
  C04.GroupTheory.smul (aff_add_te F a d) (aff_neg_te F) (te_aff_zero F) k A.
Parametricity Recursive te_dbl_add qualified.
Parametricity Recursive te_smul4 qualified.

Lemma te_dbl_add_val : forall p a d limbs (P : Fp p * Fp p * Fp p * Fp p),
  te_val (te_dbl_add (FpOps p) a d limbs P) = te_dbl_add (ZpOps p) (fpv a) (fpv d) limbs (te_val P).
Proof.
  intros p a d limbs P. apply (fst (graph_te p)).
  apply (V_o_Base_o_ZpTransfer9_o_te_dbl_add_R _ _ (Rp p) _ _ (FpZp_R p) _ _ (Rp_fpv p a) _ _ (Rp_fpv p d)
           _ _ (listZ_R_refl limbs)).
  apply (snd (graph_te p)).
Qed.
Lemma te_smul4_val : forall p a d k (A : Fp p * Fp p),
  pair_val (te_smul4 (FpOps p) a d k A) = te_smul4 (ZpOps p) (fpv a) (fpv d) k (pair_val A).
Proof.
  intros p a d k A. apply (fst (graph_pair p)).
  apply (V_o_Base_o_ZpTransfer9_o_te_smul4_R _ _ (Rp p) _ _ (FpZp_R p) _ _ (Rp_fpv p a) _ _ (Rp_fpv p d)
           _ _ (Z_R_refl k)).
  apply (snd (graph_pair p)).
Qed.
Lemma okR_val : forall p a d (P : Fp p * Fp p * Fp p * Fp p),
  okR (FpOps p) a d P <-> okR (ZpOps p) (fpv a) (fpv d) (te_val P).
Proof.
  intros p a d P. unfold okR. rewrite te_valid_val, te_aff_on_val, te_to_affine_val. reflexivity.
Qed.

Section LinkTEZp.
  Variable p : Z.
  Hypothesis Hp : prime p.
  Hypothesis H2 : 2 < p.
  Let G := FpOps_good_field p Hp H2.
  Local Notation F := (ZpOps p).

  (* completeness over FpOps p from the executed-side premises *)
  Lemma te_complete_lift : forall a d s, canon p a -> canon p d -> canon p s ->
    a = fmul F s s -> (forall w, canon p w -> fmul F w w <> d) ->
    te_law_complete (FpOps p) (fp_of p a) (fp_of p d).
  Proof.
    intros a d s Ha Hd Hs Hsq Hns A B OnA OnB. assert (Hp0 : 0 < p) by lia.
    apply (te_complete (FpOps p) (fp_of p a) (fp_of p d) (gf_th _ G) (gf_eqb _ G) (gf_two _ G) (fp_of p s)).
    - apply fp_eq. rewrite fpv_fmul, (fp_of_val p a Ha), (fp_of_val p s Hs). exact Hsq.
    - intros w E. apply (Hns (fpv w)); [apply fpv_canon; exact Hp0|].
      apply (f_equal fpv) in E. rewrite (fp_of_val p d Hd) in E. exact E.
    - exact OnA.
    - exact OnB.
  Qed.

  (* Link_te_double_and_add at the executed dictionary *)
  Theorem te_double_and_add_Zp : forall a d s, canon p a -> canon p d -> canon p s ->
    a = fmul F s s -> (forall w, canon p w -> fmul F w w <> d) ->
    te_law_assoc (FpOps p) (fp_of p a) (fp_of p d) ->
    forall limbs P, wf limbs -> canon_te p P -> okR F a d P ->
    okR F a d (C04.ScalarMul.mul_bigint_proj (C04.Run.te_gops F a d) limbs P) /\
    te_to_affine F (C04.ScalarMul.mul_bigint_proj (C04.Run.te_gops F a d) limbs P)
    = C04.GroupTheory.smul (aff_add_te F a d) (aff_neg_te F) (te_aff_zero F) (val limbs) (te_to_affine F P).
  Proof.
    intros a d s Ha Hd Hs Hsq Hns Hassoc limbs P Hwf HP Hok.
    pose proof (te_complete_lift a d s Ha Hd Hs Hsq Hns) as Hc.
    change (C04.ScalarMul.mul_bigint_proj (C04.Run.te_gops F a d) limbs P) with (te_dbl_add F a d limbs P).
    change (C04.GroupTheory.smul (aff_add_te F a d) (aff_neg_te F) (te_aff_zero F) (val limbs) (te_to_affine F P))
      with (te_smul4 F a d (val limbs) (te_to_affine F P)).
    rewrite <- (fp_of_val p a Ha), <- (fp_of_val p d Hd), <- (te_lift_val p P HP) in Hok |- *.
    apply okR_val in Hok.
    rewrite <- te_dbl_add_val, <- !te_to_affine_val, <- te_smul4_val.
    destruct (te_double_and_add (FpOps p) (fp_of p a) (fp_of p d) G Hc Hassoc limbs (te_lift p P) Hwf Hok) as [E1 E2].
    split; [apply okR_val; exact E1 | f_equal; exact E2].
  Qed.
End LinkTEZp.

(* no field premise left: 12 x^2 + y^2 = 1 + 6 x^2 y^2 over F_13 (associativity by exhaustion, Link/ExamplesTE.v),
   every limb slice, the representative (2 : 12 : 12 : 2) of (1, 6) *)
Lemma te_double_and_add_Zp13 : forall limbs, wf limbs ->
  te_to_affine (ZpOps 13) (C04.ScalarMul.mul_bigint_proj (C04.Run.te_gops (ZpOps 13) 12 6) limbs (2, 12, 12, 2))
  = C04.GroupTheory.smul (aff_add_te (ZpOps 13) 12 6) (aff_neg_te (ZpOps 13)) (te_aff_zero (ZpOps 13)) (val limbs) (1, 6).
Proof.
  intros limbs Hwf.
  destruct ex13_te_hyps as (Ha & Hd & Hs & Hsq & Hns).
  destruct ex13_te_points as (CP & _ & VP & _ & OnP & _).
  exact (proj2 (te_double_and_add_Zp 13 prime_13 eq_refl 12 6 5 Ha Hd Hs Hsq Hns ExamplesTE.te_assoc_13
                  limbs (2, 12, 12, 2) Hwf CP (conj VP OnP))).
Qed.
