(* Model of ff/src/fields/mod.rs `serial_batch_inversion_and_mul` (Montgomery's trick,
   zero entries skipped), generic in the carrier: the operations are arguments, so the
   same definition runs on Montgomery limbs (Run.v) and is proved over an abstract
   field (BatchProofs.v).  No proofs in this file. *)
Require Import List.
Import ListNotations.

Section Batch.
  Context {T : Type} (one : T) (mul : T -> T -> T) (inv : T -> T) (is0 : T -> bool).

  (* first pass:  for f in v.iter().filter(|f| !f.is_zero()) { tmp *= f; prod.push(tmp) } *)
  Fixpoint bi_prods (v : list T) (tmp : T) : list T * T :=
    match v with
    | [] => ([], tmp)
    | f :: v' =>
        if is0 f then bi_prods v' tmp
        else let t := mul tmp f in
             let '(ps, tf) := bi_prods v' t in (t :: ps, tf)
    end.

  (* second pass over v.iter_mut().rev().filter(nonzero) zipped with ss:
       new_tmp = tmp * f;  f = tmp * s;  tmp = new_tmp
     a zip stops when either side is exhausted: the remaining entries stay untouched *)
  Fixpoint bi_back (rv : list T) (ss : list T) (tmp : T) : list T :=
    match rv with
    | [] => []
    | f :: rv' =>
        if is0 f then f :: bi_back rv' ss tmp
        else match ss with
             | s :: ss' => mul tmp s :: bi_back rv' ss' (mul tmp f)
             | [] => f :: bi_back rv' [] tmp
             end
    end.

  (* tmp = tmp.inverse().unwrap(); tmp *= coeff;
     ss = prod.into_iter().rev().skip(1).chain(Some(one)) *)
  Definition batch_inversion_and_mul (v : list T) (coeff : T) : list T :=
    let '(ps, tmp) := bi_prods v one in
    let tmp1 := mul (inv tmp) coeff in
    rev (bi_back (rev v) (tl (rev ps) ++ [one]) tmp1).
End Batch.
