(* C01: the generic batch-inversion model C01/Batch.v instantiated on Montgomery limb
   lists exactly as Run.v opcode 13 does
     batch_inversion_and_mul (R_of m) (mul_assign d m)
        (fun t => match inverse m t with InvSome r => r | _ => [] end) is_zero v coeff
   computes coeff / v_i (mod p) for every non-zero entry and leaves zero entries
   unchanged.

   Main theorem: batch_inversion_mont_spec (all list lengths, zeros anywhere, any coeff,
   both mul_assign flavours).  The only mathematical premise is [prime (val m)].

   BatchProofs.v proves the same algorithm over an abstract [field_theory]; the limb
   lists are not a field for Leibniz equality on *all* lists (only on canonical ones),
   so the induction is redone here with the invariants expressed through [std]
   modulo p.  The structural part (Pt / SSt, bi_prods_spec) is the same as in
   BatchProofs.v and uses no field law. *)
From V Require Import Base.Word C15.GenArith C15.LeafSpecs C15.BigIntModel C15.BigIntProofs C01.InvModel C01.InvProofs C01.MontModel C01.MontProofs C01.SquareProofs C01.SopProofs C01.InverseProofs C01.InverseStd C01.Batch C01.BatchProofs. Require Import Znumtheory.
Require Import ZArith Lia List.
Import ListNotations.
Local Open Scope Z_scope.

(* the inverse closure used by Run.v opcode 13 *)
(* inv_fn is defined in MontModel.v (used by Run.v opcode 13) *)

Lemma Forall2_rev_rev : forall (A B : Type) (R : A -> B -> Prop) l l',
  Forall2 R l l' -> Forall2 R (rev l) (rev l').
Proof.
  intros A B R l l' H. induction H as [|a b l l' Hab Hl IH]; cbn [rev].
  - constructor.
  - apply Forall2_app; [exact IH | constructor; [exact Hab | constructor]].
Qed.

Lemma Forall2_same_length : forall (A B : Type) (R : A -> B -> Prop) l l',
  Forall2 R l l' -> length l = length l'.
Proof.
  intros A B R l l' H. induction H as [|a b l l' Hab Hl IH]; cbn [length].
  - reflexivity.
  - rewrite IH. reflexivity.
Qed.

Section BatchMont.
  Variable derived : bool.
  Variable m : list Z.
  Hypothesis Hm : wf m.
  Hypothesis Hodd : val m mod 2 = 1.
  Hypothesis Hpr : prime (val m).

  Lemma p_gt_1 : 1 < val m.
  Proof. destruct Hpr as [H1 _]. exact H1. Qed.

  (* ---------------------------------------------------------------- *)
  (* canonical elements                                                *)

  Lemma eo_std_range : forall a, elem_ok m a -> 0 <= std m a < val m.
  Proof.
    intros a (Ha & Hla & Halt). destruct (std_val m Hm Hodd a Ha Hla Halt) as [Hr _]. exact Hr.
  Qed.

  Lemma eo_mul : forall a b, elem_ok m a -> elem_ok m b ->
    elem_ok m (mul_assign derived m a b) /\
    std m (mul_assign derived m a b) = (std m a * std m b) mod val m.
  Proof.
    intros a b (Ha & Hla & Halt) (Hb & Hlb & Hblt). split.
    - destruct (mul_assign_spec derived m a b Hm Ha Hb Hla Hlb Hodd Halt Hblt) as (Hw & Hl & Hlt & _).
      repeat split; assumption.
    - apply std_mul; assumption.
  Qed.

  Lemma eo_one : elem_ok m (R_of m) /\ std m (R_of m) = 1.
  Proof.
    pose proof p_gt_1 as Hp1.
    destruct (R_of_spec m Hm) as (Hw & Hl & Hv); [lia|]. split.
    - repeat split; try assumption. rewrite Hv. apply Z.mod_pos_bound. lia.
    - apply std_one; assumption.
  Qed.

  Lemma eo_val0_iff : forall a, elem_ok m a -> (val a = 0 <-> std m a = 0).
  Proof.
    intros a (Ha & Hla & Halt). pose proof p_gt_1 as Hp1.
    destruct (std_val m Hm Hodd a Ha Hla Halt) as [Hr Ev]. split; intros H0.
    - apply (mont_cancel m); try assumption; [lia|].
      rewrite <- Ev, H0. rewrite Z.mul_0_l, Z.mod_0_l by lia. reflexivity.
    - rewrite Ev, H0. rewrite Z.mul_0_l. apply Z.mod_0_l. lia.
  Qed.

  Lemma eo_is_zero : forall a, elem_ok m a -> is_zero a = (val a =? 0).
  Proof. intros a (Ha & _). apply is_zero_spec. exact Ha. Qed.

  (* p prime: Z_p has no zero divisors *)
  Lemma mulmod_nz : forall x y, 0 <= x < val m -> 0 <= y < val m ->
    x <> 0 -> y <> 0 -> (x * y) mod val m <> 0.
  Proof.
    intros x y Hx Hy Hxnz Hynz H0. pose proof p_gt_1 as Hp1.
    apply Zmod_divide in H0; [|lia].
    destruct (prime_mult (val m) Hpr x y H0) as [Hd|Hd];
      apply Z.divide_pos_le in Hd; lia.
  Qed.

  (* ---------------------------------------------------------------- *)
  (* suffix products of the reversed list, same shape as BatchProofs.v  *)

  Fixpoint Pt (t : list Z) (rv : list (list Z)) : list Z :=
    match rv with
    | [] => t
    | f :: rv' => if is_zero f then Pt t rv' else mul_assign derived m (Pt t rv') f
    end.

  Fixpoint SSt (t : list Z) (rv : list (list Z)) : list (list Z) :=
    match rv with
    | [] => []
    | f :: rv' => if is_zero f then SSt t rv' else Pt t rv' :: SSt t rv'
    end.

  Lemma Pt_snoc : forall l t f,
    Pt t (l ++ [f]) = if is_zero f then Pt t l else Pt (mul_assign derived m t f) l.
  Proof.
    induction l as [|g l IHl]; intros t f; cbn [app Pt].
    - reflexivity.
    - rewrite IHl. destruct (is_zero g), (is_zero f); reflexivity.
  Qed.

  Lemma SSt_snoc : forall l t f,
    SSt t (l ++ [f]) = if is_zero f then SSt t l else SSt (mul_assign derived m t f) l ++ [t].
  Proof.
    induction l as [|g l IHl]; intros t f; cbn [app SSt Pt].
    - destruct (is_zero f); reflexivity.
    - rewrite IHl, Pt_snoc. destruct (is_zero g), (is_zero f); reflexivity.
  Qed.

  Lemma bi_prods_struct : forall v t,
    snd (bi_prods (mul_assign derived m) is_zero v t) = Pt t (rev v) /\
    rev (fst (bi_prods (mul_assign derived m) is_zero v t)) ++ [t] = Pt t (rev v) :: SSt t (rev v).
  Proof.
    induction v as [|f v IHv]; intros t; cbn [bi_prods rev].
    - split; reflexivity.
    - rewrite Pt_snoc, SSt_snoc. destruct (is_zero f) eqn:Hf.
      + apply IHv.
      + destruct (IHv (mul_assign derived m t f)) as [IH1 IH2].
        destruct (bi_prods (mul_assign derived m) is_zero v (mul_assign derived m t f)) as [ps tf] eqn:Hbp.
        cbn [fst snd rev] in *. split.
        * exact IH1.
        * rewrite <- app_assoc. cbn [app].
          change (rev ps ++ [mul_assign derived m t f; t])
            with (rev ps ++ [mul_assign derived m t f] ++ [t]).
          rewrite app_assoc, IH2. reflexivity.
  Qed.

  (* every running product is canonical, and non-zero mod p if the seed is *)
  Lemma Pt_ok : forall rv t, Forall (elem_ok m) rv -> elem_ok m t ->
    elem_ok m (Pt t rv) /\ (std m t <> 0 -> std m (Pt t rv) <> 0).
  Proof.
    induction rv as [|f rv IHrv]; intros t Hrv Ht; cbn [Pt].
    - split; [exact Ht | intros H; exact H].
    - inversion Hrv as [|f' rv' Hf Hrv']; subst f' rv'.
      destruct (IHrv t Hrv' Ht) as [IHok IHnz].
      destruct (is_zero f) eqn:Hz.
      + split; assumption.
      + destruct (eo_mul (Pt t rv) f IHok Hf) as [Hok Hs]. split; [exact Hok|].
        intros Htnz. rewrite Hs.
        apply mulmod_nz; try (apply eo_std_range; assumption).
        * apply IHnz. exact Htnz.
        * intros Hs0. apply (eo_val0_iff f Hf) in Hs0.
          rewrite (eo_is_zero f Hf), Hs0 in Hz. discriminate Hz.
  Qed.

  (* ---------------------------------------------------------------- *)
  (* second pass                                                       *)

  Section Back.
    Variable coeff : list Z.
    Hypothesis Hcoeff : elem_ok m coeff.

    Definition post (a b : list Z) : Prop :=
      elem_ok m b /\
      (if val a =? 0 then b = a else (std m b * std m a) mod val m = std m coeff).

    Lemma bi_back_mont : forall rv extra tmp,
      Forall (elem_ok m) rv -> elem_ok m tmp ->
      (std m tmp * std m (Pt (R_of m) rv)) mod val m = std m coeff ->
      Forall2 post rv
        (bi_back (mul_assign derived m) is_zero rv (SSt (R_of m) rv ++ extra) tmp).
    Proof.
      induction rv as [|f rv IHrv]; intros extra tmp Hrv Htmp Hinv; cbn [bi_back SSt Pt] in *.
      - constructor.
      - inversion Hrv as [|f' rv' Hf Hrv']; subst f' rv'.
        destruct eo_one as [Hone _].
        destruct (Pt_ok rv (R_of m) Hrv' Hone) as [HPok _].
        pose proof (eo_is_zero f Hf) as Hz.
        destruct (is_zero f) eqn:Hzf.
        + constructor.
          * unfold post. rewrite <- Hz. split; [exact Hf | reflexivity].
          * apply IHrv; assumption.
        + cbn [app].
          destruct (eo_mul (Pt (R_of m) rv) f HPok Hf) as [_ HsPf]. rewrite HsPf in Hinv.
          destruct (eo_mul tmp (Pt (R_of m) rv) Htmp HPok) as [Hbok Hbs].
          destruct (eo_mul tmp f Htmp Hf) as [Htok Hts].
          constructor.
          * unfold post. rewrite <- Hz. split; [exact Hbok|].
            rewrite Hbs, Zmult_mod_idemp_l. rewrite <- Hinv, Zmult_mod_idemp_r.
            f_equal. ring.
          * apply IHrv; try assumption.
            rewrite Hts, Zmult_mod_idemp_l. rewrite <- Hinv, Zmult_mod_idemp_r.
            f_equal. ring.
    Qed.
  End Back.

  (* ---------------------------------------------------------------- *)
  (* main theorem (section form)                                       *)

  Lemma batch_inversion_mont_sec : forall v coeff,
    Forall (elem_ok m) v -> elem_ok m coeff ->
    Forall2 (post coeff) v
      (batch_inversion_and_mul (R_of m) (mul_assign derived m) (inv_fn m) is_zero v coeff).
  Proof.
    intros v coeff Hv Hc. unfold batch_inversion_and_mul.
    destruct (bi_prods_struct v (R_of m)) as [Hsnd Hfst].
    destruct (bi_prods (mul_assign derived m) is_zero v (R_of m)) as [ps tf] eqn:Hbp.
    cbn [fst snd] in Hsnd, Hfst.
    assert (Hss : exists extra, tl (rev ps) ++ [R_of m] = SSt (R_of m) (rev v) ++ extra).
    { destruct (rev ps) as [|a l]; cbn [tl app] in *.
      - exists [R_of m]. injection Hfst as _ Hnil. rewrite <- Hnil. reflexivity.
      - exists []. injection Hfst as _ Htl. rewrite app_nil_r. exact Htl. }
    destruct Hss as [extra Hss]. rewrite Hss.
    pose proof (Forall_rev Hv) as Hrv.
    destruct eo_one as [Hone Hs1].
    destruct (Pt_ok (rev v) (R_of m) Hrv Hone) as [Htfok Htfnz]. rewrite <- Hsnd in Htfok, Htfnz.
    assert (Hstf : std m tf <> 0) by (apply Htfnz; rewrite Hs1; lia).
    assert (Hvtf : val tf <> 0).
    { intros H0. apply Hstf. apply (eo_val0_iff tf Htfok). exact H0. }
    destruct Htfok as (Htfw & Htfl & Htflt).
    destruct (inverse_prime m tf Hm Hodd Hpr Htfw Htfl Htflt Hvtf)
      as (r & Hinv & Hrw & Hrl & Hrlt & Hrs).
    assert (Hrok : elem_ok m r) by (repeat split; assumption).
    assert (Hifn : inv_fn m tf = r) by (unfold inv_fn; rewrite Hinv; reflexivity).
    rewrite Hifn.
    destruct (eo_mul r coeff Hrok Hc) as [Ht1ok Ht1s].
    pose proof (eo_std_range coeff Hc) as Hcr.
    rewrite <- (rev_involutive v) at 1.
    apply Forall2_rev_rev.
    apply bi_back_mont; try assumption.
    rewrite <- Hsnd, Ht1s, Zmult_mod_idemp_l.
    replace (std m r * std m coeff * std m tf) with ((std m r * std m tf) * std m coeff) by ring.
    rewrite <- Zmult_mod_idemp_l, Hrs, Z.mul_1_l. apply Z.mod_small. exact Hcr.
  Qed.
End BatchMont.

(* ------------------------------------------------------------------ *)
(* Main theorem: Run.v opcode 13.  Zero entries are returned unchanged;
   every non-zero entry a is replaced by a canonical b with
   std b * std a = std coeff (mod p), i.e. b represents coeff / a.      *)
Theorem batch_inversion_mont_spec : forall (derived : bool) m v coeff,
  wf m -> val m mod 2 = 1 -> prime (val m) ->
  Forall (elem_ok m) v -> elem_ok m coeff ->
  let r := batch_inversion_and_mul (R_of m) (mul_assign derived m) (inv_fn m) is_zero v coeff in
  Forall2 (fun a b => elem_ok m b /\
             (if val a =? 0 then b = a else (std m b * std m a) mod val m = std m coeff)) v r.
Proof.
  intros derived m v coeff Hm Hodd Hpr Hv Hc r.
  exact (batch_inversion_mont_sec derived m Hm Hodd Hpr v coeff Hv Hc).
Qed.

(* consequences in a more familiar shape: same length, and the standard-form value of
   each output is determined (it is THE field quotient) *)
Corollary batch_inversion_mont_length : forall (derived : bool) m v coeff,
  wf m -> val m mod 2 = 1 -> prime (val m) ->
  Forall (elem_ok m) v -> elem_ok m coeff ->
  length (batch_inversion_and_mul (R_of m) (mul_assign derived m) (inv_fn m) is_zero v coeff)
  = length v.
Proof.
  intros derived m v coeff Hm Hodd Hpr Hv Hc.
  pose proof (batch_inversion_mont_spec derived m v coeff Hm Hodd Hpr Hv Hc) as H.
  cbv zeta in H. symmetry. exact (Forall2_same_length _ _ _ _ _ H).
Qed.

(* ------------------------------------------------------------------ *)
(* Example: p = 13 (one limb, R = 2^64 mod 13 = 3), zeros at two positions *)

Lemma prime_13 : prime 13.
Proof.
  apply prime_intro; [lia|]. intros n Hn. apply Zgcd_1_rel_prime.
  assert (H : n = 1 \/ n = 2 \/ n = 3 \/ n = 4 \/ n = 5 \/ n = 6 \/ n = 7 \/ n = 8 \/
              n = 9 \/ n = 10 \/ n = 11 \/ n = 12) by lia.
  repeat (destruct H as [->|H]; [reflexivity|]). subst n. reflexivity.
Qed.

Example batch_inversion_mont_ex :
  let m := [13] in let v := [[1]; [0]; [5]; [12]; [0]] in let coeff := [3] in
  wf m /\ val m mod 2 = 1 /\ prime (val m) /\ Forall (elem_ok m) v /\ elem_ok m coeff /\
  batch_inversion_and_mul (R_of m) (mul_assign false m) (inv_fn m) is_zero v coeff
    = [[9]; [0]; [7]; [4]; [0]] /\
  batch_inversion_and_mul (R_of m) (mul_assign true m) (inv_fn m) is_zero v coeff
    = [[9]; [0]; [7]; [4]; [0]] /\
  map (std m) v = [9; 0; 6; 4; 0] /\ std m coeff = 1 /\
  map (std m) [[9]; [0]; [7]; [4]; [0]] = [3; 0; 11; 10; 0].
Proof.
  cbv zeta.
  assert (Hu : forall x, 0 <= x < 13 -> elem_ok [13] [x]).
  { intros x Hx. repeat split.
    - constructor; [unfold u64, W64; lia | constructor].
    - unfold val. cbn [fold_right]. lia. }
  split; [constructor; [unfold u64, W64; lia | constructor]|].
  split; [reflexivity|].
  split; [exact prime_13|].
  split; [repeat (apply Forall_cons; [apply Hu; lia|]); apply Forall_nil|].
  split; [apply Hu; lia|].
  split; [vm_compute; reflexivity|].
  split; [vm_compute; reflexivity|].
  split; [vm_compute; reflexivity|].
  split; vm_compute; reflexivity.
Qed.
