(* Specification proof for the model C01/Batch.v (Montgomery batch inversion with
   zero entries skipped) over an abstract field.

   Main theorem: batch_inversion_and_mul_spec
     batch_inversion_and_mul one mul inv is0 v coeff
       = map (fun f => if is0 f then f else mul coeff (inv f)) v
   for every list v and every coeff, under a [field_theory] on the carrier and a
   correct zero test.  [inv] is only ever applied by the model to a product of
   non-zero entries, so its value at zero is irrelevant. *)
From V Require Import C01.Batch.
Require Import List Ring Field Setoid Bool.
Import ListNotations.

Section BatchSpec.
  Variable K : Type.
  Variables (zero one : K) (add mul sub : K -> K -> K) (opp : K -> K)
            (div : K -> K -> K) (inv : K -> K).
  Hypothesis Kfield : field_theory zero one add mul sub opp div inv (@eq K).
  Variable is0 : K -> bool.
  Hypothesis is0_spec : forall x, is0 x = true <-> x = zero.
  Add Field Kf : Kfield.

  (* ---------------------------------------------------------------- *)
  (* basic facts                                                      *)

  Lemma is0_false_neq : forall x, is0 x = false -> x <> zero.
  Proof.
    intros x Hx Hz. apply is0_spec in Hz. rewrite Hz in Hx. discriminate Hx.
  Qed.

  Lemma mul_neq_0 : forall a b, a <> zero -> b <> zero -> mul a b <> zero.
  Proof.
    intros a b Ha Hb Hab.
    assert (Hb' : b = mul (inv a) (mul a b)) by (field; exact Ha).
    rewrite Hab in Hb'. apply Hb. rewrite Hb'. ring.
  Qed.

  Lemma one_neq_0 : one <> zero.
  Proof. exact (F_1_neq_0 Kfield). Qed.

  (* ---------------------------------------------------------------- *)
  (* suffix products of a reversed list, scaled by t                   *)
  (* Pt t [f_n; ...; f_1] = ((t * f_1) * ...) * f_n  over the non-zero f_i,
     with exactly the association order produced by bi_prods.           *)

  Fixpoint Pt (t : K) (rv : list K) : K :=
    match rv with
    | [] => t
    | f :: rv' => if is0 f then Pt t rv' else mul (Pt t rv') f
    end.

  Fixpoint SSt (t : K) (rv : list K) : list K :=
    match rv with
    | [] => []
    | f :: rv' => if is0 f then SSt t rv' else Pt t rv' :: SSt t rv'
    end.

  Lemma Pt_snoc : forall l t f,
    Pt t (l ++ [f]) = if is0 f then Pt t l else Pt (mul t f) l.
  Proof.
    induction l as [|g l IHl]; intros t f; cbn [app Pt].
    - reflexivity.
    - rewrite IHl. destruct (is0 g), (is0 f); reflexivity.
  Qed.

  Lemma SSt_snoc : forall l t f,
    SSt t (l ++ [f]) = if is0 f then SSt t l else SSt (mul t f) l ++ [t].
  Proof.
    induction l as [|g l IHl]; intros t f; cbn [app SSt Pt].
    - destruct (is0 f); reflexivity.
    - rewrite IHl, Pt_snoc. destruct (is0 g), (is0 f); reflexivity.
  Qed.

  Lemma Pt_neq_0 : forall rv t, t <> zero -> Pt t rv <> zero.
  Proof.
    induction rv as [|f rv IHrv]; intros t Ht; cbn [Pt].
    - exact Ht.
    - destruct (is0 f) eqn:Hf.
      + apply IHrv; exact Ht.
      + apply mul_neq_0; [apply IHrv; exact Ht | apply is0_false_neq; exact Hf].
  Qed.

  (* ---------------------------------------------------------------- *)
  (* first pass                                                        *)

  Lemma bi_prods_spec : forall v t,
    snd (bi_prods mul is0 v t) = Pt t (rev v) /\
    rev (fst (bi_prods mul is0 v t)) ++ [t] = Pt t (rev v) :: SSt t (rev v).
  Proof.
    induction v as [|f v IHv]; intros t; cbn [bi_prods rev].
    - split; reflexivity.
    - rewrite Pt_snoc, SSt_snoc. destruct (is0 f) eqn:Hf.
      + apply IHv.
      + destruct (IHv (mul t f)) as [IH1 IH2].
        destruct (bi_prods mul is0 v (mul t f)) as [ps tf] eqn:Hbp.
        cbn [fst snd rev] in *. split.
        * exact IH1.
        * rewrite <- app_assoc. cbn [app].
          change (rev ps ++ [mul t f; t]) with (rev ps ++ [mul t f] ++ [t]).
          rewrite app_assoc, IH2. reflexivity.
  Qed.

  (* ---------------------------------------------------------------- *)
  (* second pass                                                       *)

  Section Back.
    Variable coeff : K.

    Definition target (f : K) : K := if is0 f then f else mul coeff (inv f).

    Lemma bi_back_spec : forall rv extra tmp,
      mul tmp (Pt one rv) = coeff ->
      bi_back mul is0 rv (SSt one rv ++ extra) tmp = map target rv.
    Proof.
      induction rv as [|f rv IHrv]; intros extra tmp Hinv; cbn [bi_back map SSt Pt] in *.
      - reflexivity.
      - unfold target at 1. destruct (is0 f) eqn:Hf.
        + f_equal. apply IHrv. exact Hinv.
        + cbn [app]. pose proof (is0_false_neq f Hf) as Hfnz. f_equal.
          * rewrite <- Hinv. field. exact Hfnz.
          * apply IHrv. rewrite <- Hinv. ring.
    Qed.
  End Back.

  (* ---------------------------------------------------------------- *)
  (* main theorem                                                      *)

  Theorem batch_inversion_and_mul_spec : forall (v : list K) (coeff : K),
    batch_inversion_and_mul one mul inv is0 v coeff
    = map (fun f => if is0 f then f else mul coeff (inv f)) v.
  Proof.
    intros v coeff. unfold batch_inversion_and_mul.
    destruct (bi_prods_spec v one) as [Hsnd Hfst].
    destruct (bi_prods mul is0 v one) as [ps tf] eqn:Hbp.
    cbn [fst snd] in Hsnd, Hfst.
    assert (Hss : exists extra, tl (rev ps) ++ [one] = SSt one (rev v) ++ extra).
    { destruct (rev ps) as [|a l]; cbn [tl app] in *.
      - exists [one]. injection Hfst as _ Hnil. rewrite <- Hnil. reflexivity.
      - exists []. injection Hfst as _ Htl. rewrite app_nil_r. exact Htl. }
    destruct Hss as [extra Hss]. rewrite Hss.
    rewrite (bi_back_spec coeff (rev v) extra (mul (inv tf) coeff)).
    - unfold target. rewrite map_rev, rev_involutive. reflexivity.
    - rewrite <- Hsnd. field. rewrite Hsnd. apply Pt_neq_0. exact one_neq_0.
  Qed.
End BatchSpec.
