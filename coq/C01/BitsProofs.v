(* The big-endian bit iterator of the exponent (BitIteratorBE::without_leading_zeros, C15 model
   `bits_be_nlz`) spells the value of the limb list; this closes `pow_spec_partial'` into the
   full specification of `pow`. *)
From V Require Import Base.Word C15.GenArith C15.LeafSpecs C15.BigIntModel C15.BigIntProofs
  C01.InvModel C01.InvProofs C01.MontModel C01.MontProofs C01.SquareProofs.

(* ---------- one bit of one limb ---------- *)

Lemma land_shiftl_testbit x bit : 0 <= bit ->
  negb (Z.land x (Z.shiftl 1 bit) =? 0) = Z.testbit x bit.
Proof.
  intros Hbit. rewrite Z.shiftl_1_l.
  destruct (Z.testbit x bit) eqn:Ex.
  - destruct (Z.eqb_spec (Z.land x (2 ^ bit)) 0) as [H0|Hn0]; [|reflexivity].
    exfalso. assert (Hb : Z.testbit (Z.land x (2 ^ bit)) bit = true).
    { rewrite Z.land_spec, Ex, Z.pow2_bits_eqb, Z.eqb_refl by lia. reflexivity. }
    rewrite H0, Z.bits_0 in Hb. discriminate.
  - assert (H0 : Z.land x (2 ^ bit) = 0).
    { apply Z.bits_inj'. intros n Hn. rewrite Z.land_spec, Z.bits_0, Z.pow2_bits_eqb by lia.
      destruct (Z.eqb_spec bit n) as [->|Hne]; [rewrite Ex; reflexivity | apply andb_false_r]. }
    rewrite H0. reflexivity.
Qed.

Lemma limb_bit_cons_lo x a j : 0 <= j < 64 -> limb_bit (x :: a) j = Z.testbit x j.
Proof.
  intros Hj. unfold limb_bit. cbv zeta. rewrite (Z.div_small j 64) by lia.
  change (Z.to_nat 0) with 0%nat. cbn [nth]. rewrite Z.mul_0_r, Z.sub_0_r.
  apply land_shiftl_testbit. lia.
Qed.

Lemma limb_bit_cons_hi x a j : 0 <= j -> limb_bit (x :: a) (64 + j) = limb_bit a j.
Proof.
  intros Hj. unfold limb_bit. cbv zeta.
  assert (Hq : (64 + j) / 64 = 1 + j / 64).
  { replace (64 + j) with (1 * 64 + j) by ring. apply Z.div_add_l. lia. }
  rewrite Hq. pose proof (Z.div_pos j 64 Hj ltac:(lia)) as Hq0.
  replace (Z.to_nat (1 + j / 64)) with (S (Z.to_nat (j / 64))) by lia.
  cbn [nth]. replace (64 + j - 64 * (1 + j / 64)) with (j - 64 * (j / 64)) by ring.
  reflexivity.
Qed.

(* ---------- little-endian bit strings ---------- *)

Definition le_sum (l : list Z) : Z := fold_right (fun b acc => 2 * acc + b) 0 l.

Lemma le_sum_app l1 l2 :
  le_sum (l1 ++ l2) = le_sum l1 + 2 ^ Z.of_nat (length l1) * le_sum l2.
Proof.
  induction l1 as [|b l1 IH]; cbn [app length].
  - change (2 ^ Z.of_nat 0) with 1. unfold le_sum at 2. cbn [fold_right]. lia.
  - unfold le_sum in *. cbn [fold_right]. rewrite IH.
    rewrite Nat2Z.inj_succ, Z.pow_succ_r by lia. ring.
Qed.

(* bits s .. s+n-1 of x *)
Lemma le_sum_testbits x : 0 <= x -> forall n s,
  le_sum (map (fun i => Z.b2z (Z.testbit x (Z.of_nat i))) (seq s n))
  = (x / 2 ^ Z.of_nat s) mod 2 ^ Z.of_nat n.
Proof.
  intros Hx. induction n as [|n IH]; intros s.
  - cbn [seq map]. change (2 ^ Z.of_nat 0) with 1. rewrite Z.mod_1_r. reflexivity.
  - cbn [seq map]. unfold le_sum in *. cbn [fold_right]. rewrite IH.
    rewrite Z.testbit_spec' by lia.
    rewrite !Nat2Z.inj_succ, !Z.pow_succ_r by lia.
    assert (Hs : 0 < 2 ^ Z.of_nat s) by (apply Z.pow_pos_nonneg; lia).
    assert (Hn : 0 < 2 ^ Z.of_nat n) by (apply Z.pow_pos_nonneg; lia).
    rewrite (Z.mul_comm 2 (2 ^ Z.of_nat s)), <- Z.div_div by lia.
    rewrite (Z.rem_mul_r _ 2 (2 ^ Z.of_nat n)) by lia. ring.
Qed.

Definition bits64 (x : Z) : list Z :=
  map (fun i => Z.b2z (Z.testbit x (Z.of_nat i))) (seq 0 64).

Lemma bits64_length x : length (bits64 x) = 64%nat.
Proof. unfold bits64. rewrite map_length, seq_length. reflexivity. Qed.

Lemma bits64_value x : u64 x -> le_sum (bits64 x) = x.
Proof.
  intros Hx. unfold u64 in Hx. unfold bits64. rewrite le_sum_testbits by lia.
  change (2 ^ Z.of_nat 0) with 1. change (Z.of_nat 64) with 64. rewrite Z.div_1_r, W64_eq.
  apply Z.mod_small. exact Hx.
Qed.

Lemma seq_shift_add k : forall n s, seq (k + s) n = map (fun i => (k + i)%nat) (seq s n).
Proof.
  induction n as [|n IH]; intros s; cbn [seq map]; [reflexivity|].
  f_equal. rewrite <- IH. f_equal. lia.
Qed.

Lemma to_bits_le_cons x a : to_bits_le (x :: a) = bits64 x ++ to_bits_le a.
Proof.
  unfold to_bits_le, bits64. cbn [length].
  replace (64 * S (length a))%nat with (64 + 64 * length a)%nat by lia.
  rewrite seq_app, map_app. f_equal.
  - apply map_ext_in. intros i Hi. apply in_seq in Hi. f_equal.
    apply limb_bit_cons_lo. lia.
  - change (0 + 64)%nat with (64 + 0)%nat.
    rewrite (seq_shift_add 64 (64 * length a) 0), map_map.
    apply map_ext. intros i. f_equal. rewrite Nat2Z.inj_add. change (Z.of_nat 64) with 64.
    apply limb_bit_cons_hi. lia.
Qed.

Theorem to_bits_le_value : forall a, wf a -> le_sum (to_bits_le a) = val a.
Proof.
  induction a as [|x a IH]; intros Ha.
  - reflexivity.
  - apply wf_cons in Ha as [Hx Ha]. rewrite to_bits_le_cons, le_sum_app.
    rewrite bits64_length, bits64_value, IH by auto. change (Z.of_nat 64) with 64.
    rewrite W64_eq. cbn [val]. reflexivity.
Qed.

(* ---------- big-endian reading ---------- *)

Lemma fold_be_rev l : fold_left be_step (rev l) 0 = le_sum l.
Proof.
  induction l as [|b l IH]; [reflexivity|].
  cbn [rev]. rewrite fold_left_app. cbn [fold_left]. rewrite IH. reflexivity.
Qed.

Lemma fold_be_skip_zeros l : fold_left be_step (skip_zeros l) 0 = fold_left be_step l 0.
Proof.
  induction l as [|b l IH]; [reflexivity|].
  cbn [skip_zeros]. destruct (Z.eqb_spec b 0) as [->|Hb]; [|reflexivity].
  rewrite IH. cbn [fold_left]. change (be_step 0 0) with 0. reflexivity.
Qed.

Theorem bits_be_nlz_value : forall e, wf e -> fold_left be_step (bits_be_nlz e) 0 = val e.
Proof.
  intros e He. unfold bits_be_nlz, to_bits_be.
  rewrite fold_be_skip_zeros, fold_be_rev. apply to_bits_le_value. exact He.
Qed.

Example bits_be_nlz_value_ex :
  bits_be_nlz [6; 1] = 1 :: repeat 0 61 ++ [1; 1; 0] /\
  fold_left be_step (bits_be_nlz [6; 1]) 0 = val [6; 1].
Proof. split; vm_compute; reflexivity. Qed.

(* ---------- pow ---------- *)

Theorem pow_spec : forall (derived : bool) m a e, wf m -> val m mod 2 = 1 -> 1 < val m ->
  wf a -> length a = length m -> val a < val m -> wf e ->
  let r := pow derived m a e in
  wf r /\ length r = length m /\ val r < val m /\
  std m r = (std m a ^ val e) mod val m.
Proof.
  intros derived m a e Hm Hodd Hgt Ha Hla Halt He.
  pose proof (pow_spec_partial' derived m a e Hm Hodd Hgt Ha Hla Halt) as H.
  cbv zeta in *. rewrite (bits_be_nlz_value e He) in H. exact H.
Qed.

Example pow_spec_ex :
  std [97] (pow false [97] [5] [11; 0]) = (std [97] [5] ^ val [11; 0]) mod val [97].
Proof.
  apply (pow_spec false [97] [5] [11; 0]); try reflexivity;
    repeat constructor; unfold W64; lia.
Qed.
