(* Proofs about the conversion functions of C01.MontModel:
     limbs_of, from_u64_like(_with), from_le/be_bytes_mod_order, from_u128, from_int.
   Conventions: a field element is its raw Montgomery limb list `a` (wf a, length a = length m,
   val a < val m); `std m a = val (into_bigint m a)` is its standard-form value.
   Every theorem concludes  `std m r = <integer> mod val m`  together with canonicity of r. *)
From V Require Import Base.Word C15.GenArith C15.LeafSpecs C15.BigIntModel C15.BigIntProofs C01.InvModel C01.InvProofs C01.MontModel C01.MontProofs.

(* ---------- limbs_of ---------- *)

Theorem limbs_of_spec : forall N v, 0 <= v < Wn N ->
  wf (limbs_of N v) /\ length (limbs_of N v) = N /\ val (limbs_of N v) = v.
Proof.
  induction N as [|n IH]; intros v Hv.
  - rewrite Wn_0 in Hv. cbn [limbs_of length val]. split; [apply wf_nil | split; [reflexivity | lia]].
  - rewrite Wn_S in Hv. pose proof W64_pos as HW.
    assert (Hq : 0 <= v / W64 < Wn n).
    { split; [apply Z.div_pos; lia | apply Z.div_lt_upper_bound; lia]. }
    destruct (IH _ Hq) as (Hw & Hl & Hval).
    cbn [limbs_of length val]. split; [|split].
    + apply wf_cons. split; [apply mod_u64 | exact Hw].
    + rewrite Hl. reflexivity.
    + rewrite Hval. apply divmod_eq.
Qed.

Example limbs_of_ex : limbs_of 2 (W64 + 5) = [5; 1].
Proof. vm_compute. reflexivity. Qed.

(* ---------- shape of the modulus ---------- *)

Lemma Wn_ge_W64 n : W64 <= Wn (S n).
Proof. rewrite Wn_S. pose proof (Wn_pos n). pose proof W64_pos. nia. Qed.

Lemma single_limb_val (m : list Z) : length m = 1%nat -> hd 1 m = val m.
Proof.
  intros Hl. destruct m as [|m0 [|m1 m']]; try discriminate. cbn [hd val]. lia.
Qed.

(* no leading zero limb: the value reaches the top limb *)
Lemma top_nonzero_ge m : wf m -> m <> [] -> last m 0 <> 0 ->
  Wn (length (removelast m)) * last m 0 <= val m.
Proof.
  intros Hm Hne Htop. rewrite (val_split_last m Hne) at 1.
  destruct (wf_removelast m Hm Hne) as [Hw Hu].
  pose proof (val_bound _ Hw). lia.
Qed.

Lemma top_nonzero_multi m : wf m -> last m 0 <> 0 -> (2 <= length m)%nat -> W64 <= val m.
Proof.
  intros Hm Htop Hl. assert (Hne : m <> []) by (intros ->; cbn [length] in Hl; lia).
  pose proof (top_nonzero_ge m Hm Hne Htop) as H.
  destruct (wf_removelast m Hm Hne) as [_ Hu]. unfold u64 in Hu.
  pose proof (length_removelast_S m Hne) as HS.
  destruct (length (removelast m)) as [|k] eqn:E; [lia|].
  pose proof (Wn_ge_W64 k). pose proof W64_pos. nia.
Qed.

(* const_num_bits is the bit length of the modulus: 2^(bits-1) <= val m *)
Lemma const_num_bits_lower m : wf m -> m <> [] -> last m 0 <> 0 ->
  1 <= const_num_bits m /\ 2 ^ (const_num_bits m - 1) <= val m.
Proof.
  intros Hm Hne Htop. pose proof (top_nonzero_ge m Hm Hne Htop) as H.
  destruct (wf_removelast m Hm Hne) as [_ Hu]. unfold u64 in Hu.
  pose proof (length_removelast_S m Hne) as HS.
  unfold const_num_bits, bitlen. destruct (Z.eqb_spec (last m 0) 0) as [E|_]; [contradiction|].
  assert (Hpos : 0 < last m 0) by lia.
  pose proof (Z.log2_nonneg (last m 0)) as Hl0.
  destruct (Z.log2_spec (last m 0) Hpos) as [Hlo _].
  rewrite HS. set (k := length (removelast m)) in *.
  split; [lia|].
  replace ((Z.of_nat (S k) - 1) * 64 + (Z.log2 (last m 0) + 1) - 1)
    with (64 * Z.of_nat k + Z.log2 (last m 0)) by lia.
  rewrite Z.pow_add_r by lia. rewrite <- Wn_pow2.
  pose proof (Wn_pos k). nia.
Qed.

(* ---------- from_u64_like ---------- *)

Theorem from_u64_like_with_spec : forall (d : bool) m r2 x, wf m -> val m mod 2 = 1 ->
  wf r2 -> length r2 = length m -> val r2 = (Wn (length m) * Wn (length m)) mod val m ->
  0 <= x < W64 -> (length m = 1%nat \/ x < val m) ->
  exists r, from_u64_like_with d m r2 x = Some r /\
    wf r /\ length r = length m /\ val r < val m /\ std m r = x mod val m.
Proof.
  intros d m r2 x Hm Hodd Hr2 Hl2 Hv2 Hx Hsmall.
  pose proof (odd_pos m Hm Hodd) as Hp. pose proof (val_bound m Hm) as Hmb.
  pose proof (odd_nonempty m Hodd) as Hne.
  unfold from_u64_like_with. cbv zeta.
  set (x1 := if (length m =? 1)%nat then x mod hd 1 m else x).
  assert (Hx1 : 0 <= x1 < val m /\ x1 mod val m = x mod val m).
  { unfold x1. destruct (Nat.eqb_spec (length m) 1) as [E1|N1].
    - rewrite (single_limb_val m E1). split; [apply Z.mod_pos_bound; lia | apply Z.mod_mod; lia].
    - destruct Hsmall as [E|Hlt]; [contradiction|]. split; [lia | reflexivity]. }
  destruct Hx1 as [Hx1 Hx1m].
  destruct (limbs_of_spec (length m) x1 ltac:(lia)) as (Hlw & Hll & Hlv).
  pose proof (from_bigint_with_spec d m r2 _ Hm Hr2 Hlw Hl2 Hll Hodd Hv2) as H.
  destruct (from_bigint_with d m r2 (limbs_of (length m) x1)) as [r|]; [|lia].
  destruct H as (_ & Hw & Hl & Hlt & Hv). exists r. repeat split; auto.
  rewrite <- Hx1m. apply std_unique; auto. rewrite Hv, Hlv. reflexivity.
Qed.

Theorem from_u64_like_spec : forall (d : bool) m x, wf m -> val m mod 2 = 1 ->
  0 <= x < W64 -> (length m = 1%nat \/ x < val m) ->
  exists r, from_u64_like d m x = Some r /\
    wf r /\ length r = length m /\ val r < val m /\ std m r = x mod val m.
Proof.
  intros d m x Hm Hodd Hx Hsmall. unfold from_u64_like.
  destruct (R2_of_spec m Hm (odd_pos m Hm Hodd)) as (Hw & Hl & Hv).
  apply from_u64_like_with_spec; auto.
Qed.

(* a modulus without a leading zero limb: every u64 converts *)
Lemma u64_fits m x : wf m -> val m mod 2 = 1 -> last m 0 <> 0 -> 0 <= x < W64 ->
  length m = 1%nat \/ x < val m.
Proof.
  intros Hm Hodd Htop Hx. pose proof (odd_nonempty m Hodd) as Hne.
  destruct (Nat.eq_dec (length m) 1) as [E|N1]; [left; exact E | right].
  assert (Hl : (2 <= length m)%nat).
  { destruct m as [|a [|b t]]; [contradiction | cbn [length] in N1; lia | cbn [length]; lia]. }
  pose proof (top_nonzero_multi m Hm Htop Hl). lia.
Qed.

Theorem from_u64_like_spec_top : forall (d : bool) m x, wf m -> val m mod 2 = 1 -> last m 0 <> 0 ->
  0 <= x < W64 ->
  exists r, from_u64_like d m x = Some r /\
    wf r /\ length r = length m /\ val r < val m /\ std m r = x mod val m.
Proof.
  intros d m x Hm Hodd Htop Hx. apply from_u64_like_spec; auto. apply u64_fits; auto.
Qed.

(* 2^64 - 1 into the one-limb field 2^61 - 1 ... and into a two-limb field *)
Example from_u64_like_ex1 : exists r, from_u64_like true [2305843009213693951] (W64 - 1) = Some r /\
  std [2305843009213693951] r = (W64 - 1) mod 2305843009213693951.
Proof.
  destruct (from_u64_like_spec true [2305843009213693951] (W64 - 1)) as (r & Hr & _ & _ & _ & Hs).
  - repeat constructor; unfold u64, W64; lia.
  - reflexivity.
  - unfold W64; lia.
  - left; reflexivity.
  - exists r. split; [exact Hr|]. rewrite Hs. reflexivity.
Qed.

(* ---------- byte strings ---------- *)

Definition bytes_ok (l : list Z) : Prop := Forall (fun b => 0 <= b < 256) l.

Lemma pow256 k : 0 <= k -> 256 ^ k = 2 ^ (8 * k).
Proof. intros Hk. rewrite Z.pow_mul_r by lia. reflexivity. Qed.

Lemma le_val_bound l : bytes_ok l -> 0 <= le_val l < 256 ^ Z.of_nat (length l).
Proof.
  induction 1 as [|b l Hb Hl IH]; cbn [le_val length].
  - rewrite Z.pow_0_r. lia.
  - rewrite Nat2Z.inj_succ, Z.pow_succ_r by lia. lia.
Qed.

Definition horner (l : list Z) (V : Z) : Z := fold_left (fun V b => V * 256 + b) l V.

Lemma le_val_horner : forall lo hi, le_val (lo ++ hi) = horner (rev lo) (le_val hi).
Proof.
  induction lo as [|b lo IH]; intros hi; [reflexivity|].
  cbn [app le_val rev]. unfold horner in *. rewrite fold_left_app. cbn [fold_left].
  rewrite <- IH. ring.
Qed.

Lemma le_val_app a b : le_val (a ++ b) = le_val a + 256 ^ Z.of_nat (length a) * le_val b.
Proof.
  induction a as [|x a IH]; cbn [app le_val length].
  - rewrite Z.pow_0_r. lia.
  - rewrite IH, Nat2Z.inj_succ, Z.pow_succ_r by lia. ring.
Qed.

Lemma bytes_ok_firstn n l : bytes_ok l -> bytes_ok (firstn n l).
Proof.
  unfold bytes_ok. revert l. induction n as [|n IH]; intros [|x l] H; cbn [firstn]; auto.
  inversion H; subst. constructor; auto.
Qed.
Lemma bytes_ok_skipn n l : bytes_ok l -> bytes_ok (skipn n l).
Proof.
  unfold bytes_ok. revert l. induction n as [|n IH]; intros [|x l] H; cbn [skipn]; auto.
  inversion H; subst. auto.
Qed.

Lemma bytes_ok_rev l : bytes_ok l -> bytes_ok (rev l).
Proof. unfold bytes_ok. intros H. apply Forall_rev. exact H. Qed.

(* the Horner loop of from_le_bytes_mod_order *)
Section Fold.
  Variable d : bool.
  Variable m r2 window : list Z.
  Hypothesis Hm : wf m.
  Hypothesis Hodd : val m mod 2 = 1.
  Hypothesis Hr2 : wf r2.
  Hypothesis Hl2 : length r2 = length m.
  Hypothesis Hv2 : val r2 = (Wn (length m) * Wn (length m)) mod val m.
  Hypothesis Hsm : forall x, 0 <= x < W64 -> length m = 1%nat \/ x < val m.
  Hypothesis Hww : wf window.
  Hypothesis Hwl : length window = length m.
  Hypothesis Hwlt : val window < val m.
  Hypothesis Hws : std m window = 256 mod val m.

  Let step := fun (acc : option (list Z)) (byte : Z) =>
    match acc, from_u64_like_with d m r2 byte with
    | Some res, Some fb => Some (add_assign m (mul_assign d m res window) fb)
    | _, _ => None
    end.

  Lemma fold_bytes_spec : forall l acc V, bytes_ok l ->
    wf acc -> length acc = length m -> val acc < val m -> std m acc = V mod val m ->
    exists r, fold_left step l (Some acc) = Some r /\
      wf r /\ length r = length m /\ val r < val m /\ std m r = horner l V mod val m.
  Proof.
    pose proof (odd_pos m Hm Hodd) as Hp. pose proof (odd_nonempty m Hodd) as Hne.
    induction l as [|b l IH]; intros acc V Hb Ha Hal Halt Has.
    - exists acc. cbn [fold_left horner]. unfold horner. cbn [fold_left]. repeat split; auto.
    - inversion Hb as [|b' l' Hb0 Hbl]; subst b' l'.
      assert (Hb64 : 0 <= b < W64) by (unfold W64; lia).
      destruct (from_u64_like_with_spec d m r2 b Hm Hodd Hr2 Hl2 Hv2 Hb64 (Hsm b Hb64))
        as (fb & Hfb & Hfw & Hfl & Hflt & Hfs).
      destruct (mul_assign_spec d m acc window Hm Ha Hww Hal Hwl Hodd Halt Hwlt)
        as (Hpw & Hpl & Hplt & _). cbn zeta in *.
      set (pr := mul_assign d m acc window) in *.
      destruct (add_assign_spec m pr fb Hm Hne Hpw Hfw Hpl Hfl Hplt Hflt)
        as (Hsw & Hsl & Hslt & _). cbn zeta in *.
      cbn [fold_left]. unfold step at 2. rewrite Hfb. fold pr.
      destruct (IH (add_assign m pr fb) (V * 256 + b) Hbl Hsw Hsl Hslt) as (r & Hr & Hrest).
      + rewrite std_add by auto. unfold pr. rewrite std_mul by auto.
        rewrite Has, Hws, Hfs. rewrite <- Z.mul_mod by lia. rewrite <- Z.add_mod by lia. reflexivity.
      + exists r. split; [exact Hr|]. unfold horner in *. cbn [fold_left]. exact Hrest.
  Qed.
End Fold.

Theorem from_le_bytes_mod_order_spec : forall (d : bool) m bytes,
  wf m -> val m mod 2 = 1 -> last m 0 <> 0 -> bytes_ok bytes ->
  exists r, from_le_bytes_mod_order d m bytes = Some r /\
    wf r /\ length r = length m /\ val r < val m /\ std m r = le_val bytes mod val m.
Proof.
  intros d m bytes Hm Hodd Htop Hb.
  pose proof (odd_pos m Hm Hodd) as Hp. pose proof (odd_nonempty m Hodd) as Hne.
  pose proof (val_bound m Hm) as Hmb.
  destruct (R2_of_spec m Hm Hp) as (Hr2 & Hl2 & Hv2).
  destruct (const_num_bits_lower m Hm Hne Htop) as [Hnb1 Hnb].
  unfold from_le_bytes_mod_order. cbv zeta.
  set (nmb := (const_num_bits m + 7) / 8).
  set (len := Z.of_nat (length bytes)).
  set (direct := Z.min (nmb - 1) len).
  set (k := Z.to_nat (len - direct)).
  set (lo := firstn k bytes). set (hi := skipn k bytes).
  assert (Hnmb : 1 <= nmb /\ 8 * (nmb - 1) <= const_num_bits m - 1).
  { unfold nmb. pose proof (Z.div_mod (const_num_bits m + 7) 8 ltac:(lia)).
    pose proof (Z.mod_pos_bound (const_num_bits m + 7) 8 ltac:(lia)). lia. }
  assert (Hdir : 0 <= direct <= nmb - 1 /\ direct <= len) by (unfold direct, len; lia).
  assert (Hsplit : lo ++ hi = bytes) by apply firstn_skipn.
  assert (Hhl : Z.of_nat (length hi) = direct).
  { unfold hi. rewrite skipn_length. unfold k. fold len. lia. }
  assert (Hbhi : bytes_ok hi) by (apply bytes_ok_skipn; exact Hb).
  assert (Hblo : bytes_ok lo) by (apply bytes_ok_firstn; exact Hb).
  assert (Hhv : 0 <= le_val hi < val m).
  { pose proof (le_val_bound hi Hbhi) as H. rewrite Hhl, pow256 in H by lia.
    assert (2 ^ (8 * direct) <= 2 ^ (const_num_bits m - 1)) by (apply Z.pow_le_mono_r; lia).
    lia. }
  destruct (limbs_of_spec (length m) (le_val hi) ltac:(lia)) as (Hlw & Hll & Hlv).
  pose proof (from_bigint_with_spec d m (R2_of m) _ Hm Hr2 Hlw Hl2 Hll Hodd Hv2) as H0.
  destruct (from_bigint_with d m (R2_of m) (limbs_of (length m) (le_val hi))) as [res0|]; [|lia].
  destruct H0 as (_ & H0w & H0l & H0lt & H0v).
  assert (H0s : std m res0 = le_val hi mod val m).
  { apply std_unique; auto. rewrite H0v, Hlv. reflexivity. }
  assert (Hsm : forall x, 0 <= x < W64 -> length m = 1%nat \/ x < val m).
  { intros x Hx. apply u64_fits; auto. }
  destruct (from_u64_like_with_spec d m (R2_of m) 256 Hm Hodd Hr2 Hl2 Hv2 ltac:(unfold W64; lia)
              (Hsm 256 ltac:(unfold W64; lia))) as (window & Hwin & Hww & Hwl & Hwlt & Hws).
  rewrite Hwin.
  destruct (fold_bytes_spec d m (R2_of m) window Hm Hodd Hr2 Hl2 Hv2 Hsm Hww Hwl Hwlt Hws
              (rev lo) res0 (le_val hi) (bytes_ok_rev lo Hblo) H0w H0l H0lt H0s)
    as (r & Hr & Hrw & Hrl & Hrlt & Hrs).
  exists r. split; [exact Hr|]. repeat split; auto.
  rewrite Hrs, <- le_val_horner, Hsplit. reflexivity.
Qed.

(* big-endian: the same on the reversed string *)
Definition be_val (bytes : list Z) : Z := le_val (rev bytes).

Theorem from_be_bytes_mod_order_spec : forall (d : bool) m bytes,
  wf m -> val m mod 2 = 1 -> last m 0 <> 0 -> bytes_ok bytes ->
  exists r, from_be_bytes_mod_order d m bytes = Some r /\
    wf r /\ length r = length m /\ val r < val m /\ std m r = be_val bytes mod val m.
Proof.
  intros d m bytes Hm Hodd Htop Hb. unfold from_be_bytes_mod_order, be_val.
  apply from_le_bytes_mod_order_spec; auto. apply bytes_ok_rev; exact Hb.
Qed.

(* three bytes into the one-limb field p = 251 (< 256: the window itself is reduced) *)
Example from_le_bytes_ex : exists r, from_le_bytes_mod_order false [251] [255; 254; 253] = Some r /\
  std [251] r = (255 + 256 * 254 + 65536 * 253) mod 251.
Proof.
  destruct (from_le_bytes_mod_order_spec false [251] [255; 254; 253]) as (r & Hr & _ & _ & _ & Hs).
  - repeat constructor; unfold u64, W64; lia.
  - reflexivity.
  - cbn [last]; lia.
  - repeat constructor; lia.
  - exists r. split; [exact Hr|]. rewrite Hs. reflexivity.
Qed.

(* ---------- from_u128 / from_int ---------- *)

(* from_bigint of the limbs of any v < p: total, and v is the standard value *)
Lemma from_bigint_limbs_spec : forall (d : bool) m v, wf m -> val m mod 2 = 1 -> 0 <= v < val m ->
  exists r, from_bigint d m (limbs_of (length m) v) = Some r /\
    wf r /\ length r = length m /\ val r < val m /\ std m r = v.
Proof.
  intros d m v Hm Hodd Hv. pose proof (val_bound m Hm) as Hmb.
  destruct (limbs_of_spec (length m) v ltac:(lia)) as (Hlw & Hll & Hlv).
  pose proof (from_bigint_spec d m _ Hm Hlw Hll Hodd) as H.
  destruct (from_bigint d m (limbs_of (length m) v)) as [r|] eqn:E; [|lia].
  destruct H as (_ & Hw & Hl & Hlt & Hval). exists r. repeat split; auto.
  rewrite (std_from_bigint_full d m _ r Hm Hlw Hll Hodd E). exact Hlv.
Qed.

Lemma val_split2 (m : list Z) : (2 <= length m)%nat ->
  val m = nth 0 m 0 + W64 * nth 1 m 0 + W64 * W64 * val (skipn 2 m).
Proof.
  intros Hl. destruct m as [|a [|b t]]; cbn [length] in Hl; try lia.
  cbn [nth skipn val]. ring.
Qed.

Lemma all_zero_val : forall l, forallb (fun x => x =? 0) l = true -> val l = 0.
Proof.
  induction l as [|x l IH]; intros H; [reflexivity|]. cbn [forallb] in H.
  apply andb_prop in H as [Hx Hl]. apply Z.eqb_eq in Hx. cbn [val]. rewrite (IH Hl). lia.
Qed.

Lemma not_all_zero_val : forall l, wf l -> forallb (fun x => x =? 0) l = false -> 1 <= val l.
Proof.
  induction l as [|x l IH]; intros Hw H; [discriminate|]. apply wf_cons in Hw as [Hx Hl].
  cbn [forallb] in H. pose proof (val_bound l Hl) as Hb. unfold u64 in Hx. pose proof W64_pos.
  cbn [val]. destruct (Z.eqb_spec x 0) as [E|NE]; cbn [andb] in H.
  - specialize (IH Hl H). nia.
  - nia.
Qed.

Lemma wf_skipn n : forall l, wf l -> wf (skipn n l).
Proof.
  unfold wf. induction n as [|n IH]; intros [|x l] H; cbn [skipn]; auto.
  inversion H; subst. auto.
Qed.

Theorem from_u128_spec : forall (d : bool) m x, wf m -> val m mod 2 = 1 -> 0 <= x < W128 ->
  exists r, from_u128 d m x = Some r /\
    wf r /\ length r = length m /\ val r < val m /\ std m r = x mod val m.
Proof.
  intros d m x Hm Hodd Hx. pose proof (odd_pos m Hm Hodd) as Hp.
  pose proof (odd_nonempty m Hodd) as Hne.
  unfold from_u128. cbv zeta.
  destruct (Nat.eqb_spec (length m) 1) as [E1|N1].
  - rewrite (single_limb_val m E1). apply from_bigint_limbs_spec; auto. apply Z.mod_pos_bound; lia.
  - assert (Hl : (2 <= length m)%nat).
    { destruct m as [|a [|b t]]; [contradiction | cbn [length] in N1; lia | cbn [length]; lia]. }
    pose proof (val_split2 m Hl) as Hsp.
    destruct ((length m =? 2)%nat || forallb (fun l => l =? 0) (skipn 2 m)) eqn:Ec.
    + assert (Hz : val (skipn 2 m) = 0).
      { apply orb_prop in Ec as [E2|Ez]; [|apply all_zero_val; exact Ez].
        apply Nat.eqb_eq in E2. destruct m as [|a [|b [|c t]]]; try discriminate. reflexivity. }
      rewrite Hz, Z.mul_0_r, Z.add_0_r in Hsp. rewrite <- Hsp.
      apply from_bigint_limbs_spec; auto. apply Z.mod_pos_bound; lia.
    + apply orb_false_elim in Ec as [_ Ez].
      pose proof (not_all_zero_val _ (wf_skipn 2 m Hm) Ez) as H1.
      assert (Hn0 : 0 <= nth 0 m 0 /\ 0 <= nth 1 m 0).
      { destruct m as [|a [|b t]]; cbn [length] in Hl; try lia. cbn [nth].
        apply wf_cons in Hm as [Ha Hm]. apply wf_cons in Hm as [Hb _]. unfold u64 in *. lia. }
      pose proof W64_pos as HW.
      assert (HWW : 0 < W64 * W64) by nia.
      assert (Hge : W64 * W64 * 1 <= W64 * W64 * val (skipn 2 m)) by (apply Z.mul_le_mono_nonneg_l; lia).
      assert (Hn1 : 0 <= W64 * nth 1 m 0) by nia.
      assert (Hlt : x < val m) by (rewrite W128_sq in Hx; lia).
      destruct (from_bigint_limbs_spec d m x Hm Hodd ltac:(lia)) as (r & Hr & Hw & Hlen & Hrlt & Hs).
      exists r. repeat split; auto. rewrite Hs. symmetry. apply Z.mod_small. lia.
Qed.

(* the unsigned conversion selected by the bit width *)
Lemma conv_spec : forall (d : bool) m bits v, wf m -> val m mod 2 = 1 ->
  (1 <= bits <= 64 \/ bits = 128) -> 0 <= v < 2 ^ bits ->
  (bits = 128 \/ length m = 1%nat \/ v < val m) ->
  exists r, (if bits =? 128 then from_u128 d m v else from_u64_like d m v) = Some r /\
    wf r /\ length r = length m /\ val r < val m /\ std m r = v mod val m.
Proof.
  intros d m bits v Hm Hodd Hbits Hv Hsmall.
  destruct (Z.eqb_spec bits 128) as [E|NE].
  - subst bits. rewrite W128_eq in Hv. apply from_u128_spec; auto.
  - destruct Hbits as [Hb|Hb]; [|contradiction]. destruct Hsmall as [H|Hsmall]; [contradiction|].
    assert (2 ^ bits <= 2 ^ 64) by (apply Z.pow_le_mono_r; lia). rewrite W64_eq in *.
    apply from_u64_like_spec; auto. lia.
Qed.

(* From<bool/u8/u16/u32/u64/u128> (signed = false) and From<i8/i16/i32/i64/i128> (signed = true):
   the standard value of the result is x mod p.  For widths <= 64 and N >= 2 the Rust code
   unwraps from_bigint(x), so |x| < p is needed there (automatic when the top limb of the
   modulus is non-zero: from_int_spec_top). *)
Theorem from_int_spec : forall (d : bool) m bits (signed : bool) x, wf m -> val m mod 2 = 1 ->
  (1 <= bits <= 64 \/ bits = 128) ->
  (if signed then - 2 ^ (bits - 1) <= x < 2 ^ (bits - 1) else 0 <= x < 2 ^ bits) ->
  (bits = 128 \/ length m = 1%nat \/ Z.abs x < val m) ->
  exists r, from_int d m bits signed x = Some r /\
    wf r /\ length r = length m /\ val r < val m /\ std m r = x mod val m.
Proof.
  intros d m bits signed x Hm Hodd Hbits Hx Hsmall. pose proof (odd_pos m Hm Hodd) as Hp.
  unfold from_int. cbv beta zeta. destruct signed.
  - assert (Hpow : 2 ^ bits = 2 * 2 ^ (bits - 1)).
    { replace bits with (Z.succ (bits - 1)) at 1 by lia. apply Z.pow_succ_r. lia. }
    assert (Hpp : 0 < 2 ^ (bits - 1)) by (apply Z.pow_pos_nonneg; lia).
    destruct (conv_spec d m bits (Z.abs x) Hm Hodd Hbits ltac:(lia) Hsmall)
      as (r & Hr & Hw & Hl & Hlt & Hs).
    rewrite Hr. destruct (Z.ltb_spec 0 x) as [Hpos|Hneg].
    + exists r. repeat split; auto. rewrite Hs. f_equal. lia.
    + destruct (neg_in_place_spec m r Hm Hw Hl Hlt) as (Hnw & Hnl & Hnlt & _). cbn zeta in *.
      exists (neg_in_place m r). repeat split; auto.
      rewrite std_neg by auto. rewrite Hs.
      replace (- (Z.abs x mod val m)) with (0 - Z.abs x mod val m) by ring.
      rewrite Zminus_mod_idemp_r. f_equal. lia.
  - rewrite Z.abs_eq in Hsmall by lia. apply conv_spec; auto.
Qed.

Theorem from_int_spec_top : forall (d : bool) m bits (signed : bool) x, wf m -> val m mod 2 = 1 ->
  last m 0 <> 0 ->
  (1 <= bits <= 64 \/ bits = 128) ->
  (if signed then - 2 ^ (bits - 1) <= x < 2 ^ (bits - 1) else 0 <= x < 2 ^ bits) ->
  exists r, from_int d m bits signed x = Some r /\
    wf r /\ length r = length m /\ val r < val m /\ std m r = x mod val m.
Proof.
  intros d m bits signed x Hm Hodd Htop Hbits Hx. apply from_int_spec; auto.
  destruct Hbits as [Hb|Hb]; [right | left; exact Hb].
  apply u64_fits; auto.
  assert (2 ^ bits <= 2 ^ 64) by (apply Z.pow_le_mono_r; lia). rewrite W64_eq in *.
  destruct signed; [|lia].
  assert (Hpow : 2 ^ bits = 2 * 2 ^ (bits - 1)).
  { replace bits with (Z.succ (bits - 1)) at 1 by lia. apply Z.pow_succ_r. lia. }
  lia.
Qed.

(* i64::MIN into the one-limb field 2^61 - 1;  u128::MAX into a three-limb modulus whose top
   limb is non-zero (the unreduced branch of from_u128) *)
Example from_int_ex1 : exists r, from_int true [2305843009213693951] 64 true (- 2 ^ 63) = Some r /\
  std [2305843009213693951] r = (- 2 ^ 63) mod 2305843009213693951.
Proof.
  destruct (from_int_spec_top true [2305843009213693951] 64 true (- 2 ^ 63)) as (r & Hr & _ & _ & _ & Hs).
  - repeat constructor; unfold u64, W64; lia.
  - reflexivity.
  - cbn [last]; lia.
  - left; lia.
  - change (64 - 1) with 63. lia.
  - exists r. split; [exact Hr|]. exact Hs.
Qed.

Example from_int_ex2 : exists r, from_int false [1; 0; 1] 128 false (W128 - 1) = Some r /\
  std [1; 0; 1] r = (W128 - 1) mod val [1; 0; 1].
Proof.
  destruct (from_int_spec false [1; 0; 1] 128 false (W128 - 1)) as (r & Hr & _ & _ & _ & Hs).
  - repeat constructor; unfold u64, W64; lia.
  - reflexivity.
  - right; reflexivity.
  - rewrite W128_eq. unfold W128. lia.
  - left; reflexivity.
  - exists r. split; [exact Hr|]. exact Hs.
Qed.

(* ---------- from_biguint / from_str (num-bigint values) ---------- *)

Lemma bytes_of_spec : forall fuel v, 0 <= v < 256 ^ Z.of_nat fuel ->
  bytes_ok (bytes_of fuel v) /\ le_val (bytes_of fuel v) = v.
Proof.
  induction fuel as [|f IH]; intros v Hv.
  - rewrite Z.pow_0_r in Hv. cbn [bytes_of le_val]. split; [constructor | lia].
  - rewrite Nat2Z.inj_succ, Z.pow_succ_r in Hv by lia. cbn [bytes_of].
    destruct (Z.ltb_spec v 256) as [Hs|Hb].
    + cbn [le_val]. split; [repeat constructor; lia | lia].
    + assert (Hq : 0 <= v / 256 < 256 ^ Z.of_nat f).
      { split; [apply Z.div_pos; lia | apply Z.div_lt_upper_bound; lia]. }
      destruct (IH _ Hq) as [Hok Hval]. cbn [le_val]. rewrite Hval. split.
      * constructor; [apply Z.mod_pos_bound; lia | exact Hok].
      * pose proof (Z.div_mod v 256 ltac:(lia)). lia.
Qed.

Theorem from_biguint_spec : forall (d : bool) m v, wf m -> val m mod 2 = 1 -> last m 0 <> 0 -> 0 <= v ->
  exists r, from_biguint d m v = Some r /\
    wf r /\ length r = length m /\ val r < val m /\ std m r = v mod val m.
Proof.
  intros d m v Hm Hodd Htop Hv. unfold from_biguint.
  set (fuel := S (Z.to_nat (Z.log2 (v + 1)))).
  assert (Hf : 0 <= v < 256 ^ Z.of_nat fuel).
  { split; [lia|]. destruct (Z.log2_spec (v + 1) ltac:(lia)) as [_ Hhi].
    pose proof (Z.log2_nonneg (v + 1)) as Hl0.
    unfold fuel. rewrite Nat2Z.inj_succ, Z2Nat.id by lia.
    rewrite pow256 by lia.
    assert (2 ^ Z.succ (Z.log2 (v + 1)) <= 2 ^ (8 * Z.succ (Z.log2 (v + 1)))) by (apply Z.pow_le_mono_r; lia).
    lia. }
  destruct (bytes_of_spec fuel v Hf) as [Hok Hval].
  destruct (from_le_bytes_mod_order_spec d m (bytes_of fuel v) Hm Hodd Htop Hok) as (r & Hr & Hw & Hl & Hlt & Hs).
  exists r. rewrite Hval in Hs. repeat split; auto.
Qed.

(* FromStr: a parsed (signed) decimal v becomes v mod p; unparsable strings are errors *)
Theorem from_str_spec : forall (d : bool) m s, wf m -> val m mod 2 = 1 ->
  match parse_signed s with
  | None => from_str d m s = StrErr
  | Some v => exists r, from_str d m s = StrOk r /\
                wf r /\ length r = length m /\ val r < val m /\ std m r = v mod val m
  end.
Proof.
  intros d m s Hm Hodd. pose proof (odd_pos m Hm Hodd) as Hp. unfold from_str.
  destruct (parse_signed s) as [v|]; [|reflexivity].
  destruct (from_bigint_limbs_spec d m (v mod val m) Hm Hodd ltac:(apply Z.mod_pos_bound; lia))
    as (r & Hr & Hrest).
  rewrite Hr. exists r. split; [reflexivity | exact Hrest].
Qed.

Example from_biguint_ex : exists r, from_biguint false [251] 70000 = Some r /\ std [251] r = 70000 mod 251.
Proof.
  destruct (from_biguint_spec false [251] 70000) as (r & Hr & _ & _ & _ & Hs).
  - repeat constructor; unfold u64, W64; lia.
  - reflexivity.
  - cbn [last]; lia.
  - lia.
  - exists r. split; [exact Hr | exact Hs].
Qed.
