From V Require Import Base.Word C15.GenArith C15.LeafSpecs C15.BigIntModel C15.BigIntProofs C15.DecimalProofs
  C01.InvModel C01.InvProofs C01.MontModel C01.MontProofs C01.SopProofs.

(* Display prints the standard value in decimal; FromStr reads it back *)
Theorem display_fp_spec : forall m a, wf m -> val m mod 2 = 1 -> elem_ok m a ->
  parse_signed (display_fp m a) = Some (std m a).
Proof.
  intros m a Hm Hodd (Ha & Hl & Hlt). unfold display_fp, std.
  destruct (into_bigint_spec m a Hm Ha Hl Hodd Hlt) as (Hw & _).
  destruct (display_spec (into_bigint m a) Hw) as (Hd & Hne & Hp).
  destruct (display (into_bigint m a)) as [|c t]; [congruence|].
  inversion Hd as [|? ? Hc _]; subst. unfold parse_signed.
  unfold is_digit in Hc.
  destruct (Z.eq_dec c 45) as [->|Hn]; [exfalso; lia|].
  destruct c as [|c|c]; try exact Hp.
  repeat (destruct c as [c|c|]; try exact Hp). exfalso. apply Hn. reflexivity.
Qed.

Theorem display_from_str_roundtrip : forall (d : bool) m a, wf m -> val m mod 2 = 1 -> elem_ok m a ->
  from_str d m (display_fp m a) = StrOk a.
Proof.
  intros d m a Hm Hodd Hok. pose proof Hok as (Ha & Hl & Hlt).
  unfold from_str. rewrite (display_fp_spec m a Hm Hodd Hok). unfold std.
  destruct (into_bigint_spec m a Hm Ha Hl Hodd Hlt) as (Hw & Hil & Hilt & _). cbn zeta in *.
  pose proof (val_bound _ Hw) as Hb.
  rewrite Z.mod_small by lia. rewrite <- Hil, limbs_of_val by auto.
  rewrite into_from_bigint by auto. reflexivity.
Qed.
