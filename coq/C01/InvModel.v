(* Model of montgomery_backend.rs `inv::<T, N>()`:  INV = -MODULUS^{-1} mod 2^64, computed by
   63 rounds of  inv = inv.wrapping_mul(inv); inv = inv.wrapping_mul(MODULUS.0[0]);
   followed by wrapping_neg.  No proofs in this file. *)
From V Require Import Base.Word.

Definition inv_step (m0 inv : Z) : Z := (((inv * inv) mod W64) * m0) mod W64.
Definition inv_loop (m0 : Z) (n : nat) : Z := Nat.iter n (inv_step m0) 1.
Definition wrapping_neg (x : Z) : Z := (W64 - x) mod W64.
Definition mont_inv (m0 : Z) : Z := wrapping_neg (inv_loop m0 63).
