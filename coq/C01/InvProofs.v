(* Proofs for C01/InvModel.v: the Montgomery constant INV computed by `inv::<T,N>()`
   satisfies  INV * m0 = -1  (mod 2^64)  for every odd low limb m0.

   Idea: with i_n := inv_loop m0 n, one round gives  i_{n+1} * m0 = (i_n * m0)^2  (mod 2^64),
   and  y = 1 (mod 2^k), k >= 1  implies  y^2 = 1 (mod 2^(k+1)).  Since i_0 * m0 = m0 is odd,
   i_n * m0 = 1 (mod 2^(n+1)) for n <= 63, hence i_63 * m0 = 1 (mod 2^64). *)
From V Require Import Base.Word C01.InvModel.

(* a = r + W64 * q with r a canonical residue *)
Lemma mod_W64_unique a q r : 0 <= r < W64 -> a = W64 * q + r -> a mod W64 = r.
Proof.
  intros Hr Ha. symmetry. apply Z.mod_unique_pos with q; assumption.
Qed.

Lemma inv_loop_0 m0 : inv_loop m0 0 = 1.
Proof. reflexivity. Qed.

Lemma inv_loop_S m0 n : inv_loop m0 (S n) = inv_step m0 (inv_loop m0 n).
Proof. unfold inv_loop. cbn [Nat.iter nat_rect]. reflexivity. Qed.

Lemma inv_loop_range m0 n : 0 <= m0 < W64 -> 0 <= inv_loop m0 n < W64.
Proof.
  intros Hm. destruct n as [|n].
  - rewrite inv_loop_0. unfold W64. lia.
  - rewrite inv_loop_S. unfold inv_step. apply Z.mod_pos_bound. exact W64_pos.
Qed.

(* one round squares inv*m0 modulo 2^64: stated with an explicit quotient *)
Lemma inv_step_mul m0 i :
  exists q, inv_step m0 i * m0 = (i * m0) * (i * m0) - W64 * q.
Proof.
  unfold inv_step.
  pose proof W64_pos as HW.
  assert (HWn : W64 <> 0) by lia.
  pose proof (Z.div_mod (i * i) W64 HWn) as H1.
  pose proof (Z.div_mod (((i * i) mod W64) * m0) W64 HWn) as H2.
  set (r1 := (i * i) mod W64) in *.
  set (q1 := (i * i) / W64) in *.
  set (r2 := (r1 * m0) mod W64) in *.
  set (q2 := (r1 * m0) / W64) in *.
  exists (q1 * m0 * m0 + q2 * m0).
  assert (Hr2 : r2 = r1 * m0 - W64 * q2) by lia.
  assert (Hr1 : r1 = i * i - W64 * q1) by lia.
  rewrite Hr2, Hr1. ring.
Qed.

(* the 2-adic lifting invariant *)
Lemma inv_loop_lift m0 : m0 mod 2 = 1 ->
  forall n, (n <= 63)%nat ->
  exists t, inv_loop m0 n * m0 = 1 + 2 ^ (Z.of_nat n + 1) * t.
Proof.
  intros Hodd n. induction n as [|n IH]; intros Hn.
  - exists (m0 / 2). rewrite inv_loop_0.
    change (2 ^ (Z.of_nat 0 + 1)) with 2.
    pose proof (Z.div_mod m0 2 ltac:(lia)) as Hd. lia.
  - destruct IH as [t Ht]; [lia|].
    rewrite inv_loop_S.
    destruct (inv_step_mul m0 (inv_loop m0 n)) as [q Hq].
    rewrite Hq, Ht.
    set (k := Z.of_nat n) in *.
    assert (Hk : 0 <= k <= 62) by (unfold k; lia).
    replace (Z.of_nat (S n) + 1) with (k + 2) by (unfold k; lia).
    assert (HW : W64 = 2 ^ (k + 2) * 2 ^ (62 - k)).
    { rewrite <- Z.pow_add_r by lia. replace (k + 2 + (62 - k)) with 64 by lia.
      symmetry. exact W64_eq. }
    assert (HP : 2 ^ (k + 2) = 2 * 2 ^ (k + 1)).
    { replace (k + 2) with (Z.succ (k + 1)) by lia. apply Z.pow_succ_r. lia. }
    assert (HP1 : 2 ^ (k + 1) = 2 * 2 ^ k).
    { replace (k + 1) with (Z.succ k) by lia. apply Z.pow_succ_r. lia. }
    exists (t + 2 ^ k * t * t - 2 ^ (62 - k) * q).
    rewrite HW, HP, HP1. ring.
Qed.

Lemma inv_loop_63 m0 : m0 mod 2 = 1 ->
  exists t, inv_loop m0 63 * m0 = 1 + W64 * t.
Proof.
  intros Hodd. destruct (inv_loop_lift m0 Hodd 63%nat (le_n _)) as [t Ht].
  exists t. rewrite Ht. change (Z.of_nat 63 + 1) with 64. rewrite W64_eq. reflexivity.
Qed.

(* INV * m0 = -1 (mod 2^64) *)
Theorem mont_inv_spec : forall m0, 0 <= m0 < W64 -> m0 mod 2 = 1 ->
  0 <= mont_inv m0 < W64 /\ (mont_inv m0 * m0) mod W64 = W64 - 1.
Proof.
  intros m0 Hm Hodd. pose proof W64_pos as HW.
  split.
  - unfold mont_inv, wrapping_neg. apply Z.mod_pos_bound. exact HW.
  - unfold mont_inv, wrapping_neg.
    destruct (inv_loop_63 m0 Hodd) as [t Ht].
    (* abstract the loop result: ring/lia must never try to evaluate the 63-fold iteration *)
    generalize dependent (inv_loop m0 63). intros i Ht.
    rewrite Z.mul_mod_idemp_l by lia.
    apply mod_W64_unique with (q := m0 - t - 1); [lia|].
    replace ((W64 - i) * m0) with (W64 * m0 - i * m0) by ring.
    rewrite Ht. ring.
Qed.

Example mont_inv_goldilocks : mont_inv 18446744069414584321 = 18446744069414584319.
Proof. vm_compute. reflexivity. Qed.

Example mont_inv_spec_goldilocks :
  (mont_inv 18446744069414584321 * 18446744069414584321) mod W64 = W64 - 1.
Proof. vm_compute. reflexivity. Qed.

(* What Montgomery reduction uses: adding k*m0 with k = x*INV mod 2^64 clears the low limb. *)
Corollary mont_inv_kills_low : forall m0 x, 0 <= m0 < W64 -> m0 mod 2 = 1 ->
  (x + ((x * mont_inv m0) mod W64) * m0) mod W64 = 0.
Proof.
  intros m0 x Hm Hodd. pose proof W64_pos as HW.
  assert (HWn : W64 <> 0) by lia.
  destruct (mont_inv_spec m0 Hm Hodd) as [_ Hs].
  (* abstract the constant: ring must never try to evaluate the 63-fold iteration *)
  generalize dependent (mont_inv m0). intros v Hs.
  pose proof (Z.div_mod (v * m0) W64 HWn) as Hd.
  rewrite Hs in Hd.
  set (q := (v * m0) / W64) in *.
  rewrite <- Z.add_mod_idemp_r by lia.
  rewrite Z.mul_mod_idemp_l by lia.
  rewrite Z.add_mod_idemp_r by lia.
  apply mod_W64_unique with (q := x * q + x); [lia|].
  replace (x * v * m0) with (x * (v * m0)) by ring.
  rewrite Hd. ring.
Qed.

Example mont_inv_kills_low_goldilocks :
  (12345678901234567890
   + ((12345678901234567890 * mont_inv 18446744069414584321) mod W64) * 18446744069414584321)
  mod W64 = 0.
Proof. vm_compute. reflexivity. Qed.
