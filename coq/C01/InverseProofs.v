(* Partial correctness of the binary extended Euclid inversion of C01/MontModel.v
   (`inverse` / `inverse_loop` / `strip_even` / `half_mod`, mirroring `MontConfig::inverse`
   in ff/src/fields/models/fp/montgomery_backend.rs), for every limb count and every odd
   modulus (no primality needed for partial correctness).

   Ingredients reused from C15: `div2_spec` (C15.ShiftProofs: val (div2 x) = val x / 2),
   `set_top_bit_spec` (C15.RecodeProofs: adds 2^(64N-1) when the top bit is clear),
   `is_odd_spec` (C15.RecodeProofs). *)
From V Require Import Base.Word C15.GenArith C15.LeafSpecs C15.BigIntModel C15.BigIntProofs C01.InvModel C01.InvProofs C01.MontModel C01.MontProofs.
From V Require Import C15.ShiftProofs C15.RecodeProofs.
Require Import Znumtheory.

(* ---------- congruences as divisibility ---------- *)

Lemma modeq_div p x y : 0 < p -> x mod p = y mod p -> (p | x - y).
Proof.
  intros Hp H. apply Z.mod_divide; [lia|]. rewrite Zminus_mod, H, Z.sub_diag. reflexivity.
Qed.

Lemma div_modeq p x y : 0 < p -> (p | x - y) -> x mod p = y mod p.
Proof.
  intros Hp [q Hq]. replace x with (y + q * p) by lia. apply Z.mod_add. lia.
Qed.

Lemma odd_rel_prime_2 p : p mod 2 = 1 -> rel_prime p 2.
Proof.
  intros Hodd. apply rel_prime_sym. apply prime_rel_prime; [exact prime_2|].
  intros [q Hq]. rewrite Hq in Hodd. rewrite Z.mod_mul in Hodd by lia. discriminate.
Qed.

(* 2 is invertible modulo an odd number *)
Lemma div_cancel2 p z : p mod 2 = 1 -> (p | 2 * z) -> (p | z).
Proof.
  intros Hodd Hd. apply Gauss with (b := 2); [exact Hd | apply odd_rel_prime_2; exact Hodd].
Qed.

(* ---------- parity test, the constant one ---------- *)

Lemma is_even_spec x : is_even x = (val x mod 2 =? 0).
Proof.
  unfold is_even. rewrite is_odd_spec.
  pose proof (Z.mod_pos_bound (val x) 2 ltac:(lia)) as Hb.
  destruct (Z.eqb_spec (val x mod 2) 1), (Z.eqb_spec (val x mod 2) 0); cbn [negb]; try reflexivity; lia.
Qed.

Lemma one_spec (m : list Z) : m <> [] ->
  wf (from_u64 (length m) 1) /\ length (from_u64 (length m) 1) = length m /\
  val (from_u64 (length m) 1) = 1.
Proof.
  intros Hne. destruct m as [|x r]; [congruence|]. cbn [length].
  apply from_u64_spec. unfold u64, W64. lia.
Qed.

Lemma limbs_eqb_spec a b : wf a -> wf b -> length a = length b ->
  limbs_eqb a b = (val a =? val b).
Proof.
  intros Ha Hb Hl. unfold limbs_eqb. rewrite cmp_spec by auto.
  destruct (Z.compare_spec (val a) (val b)); symmetry; [apply Z.eqb_eq | apply Z.eqb_neq | apply Z.eqb_neq]; lia.
Qed.

Lemma Wn_even (l : list Z) : l <> [] -> exists k, Wn (length l) = 2 * k.
Proof.
  intros Hne. destruct l as [|x r]; [congruence|]. cbn [length]. rewrite Wn_S.
  exists (9223372036854775808 * Wn (length r)). unfold W64. ring.
Qed.

(* ---------- half_mod: division by two modulo p ---------- *)

Lemma half_mod_spec m x : wf m -> val m mod 2 = 1 -> wf x -> length x = length m -> val x < val m ->
  let h := half_mod m x in
  wf h /\ length h = length m /\ val h < val m /\ (2 * val h) mod val m = val x mod val m.
Proof.
  intros Hm Hodd Hx Hl Hlt. cbn zeta. unfold half_mod. rewrite is_even_spec.
  pose proof (odd_nonempty m Hodd) as Hne.
  pose proof (val_bound x Hx) as Hxb.
  destruct (Z.eqb_spec (val x mod 2) 0) as [He|Ho].
  - destruct (div2_spec x Hx) as (Hw & Hlen & Hv).
    pose proof (Z.div_mod (val x) 2 ltac:(lia)) as Hd.
    repeat split; auto; try lia. f_equal. lia.
  - pose proof (add_with_carry_spec x m Hx Hm Hl) as H.
    destruct (add_with_carry x m) as [s carry]. destruct H as (Hws & Hls & Heq).
    destruct (div2_spec s Hws) as (Hw & Hlen & Hv).
    pose proof (val_bound s Hws) as Hsb. rewrite Hls in Hsb.
    destruct (Wn_even x ltac:(intros E; subst x; destruct m; [congruence|discriminate])) as [k Hk].
    pose proof (Z.mod_pos_bound (val x) 2 ltac:(lia)) as Hxm.
    pose proof (Z.div_mod (val x) 2 ltac:(lia)) as Hdx.
    pose proof (Z.div_mod (val m) 2 ltac:(lia)) as Hdm.
    assert (Hsev : val s mod 2 = 0).
    { replace (val s) with ((val x / 2 + val m / 2 + 1 - k * Z.b2z carry) * 2) by lia.
      apply Z.mod_mul. lia. }
    pose proof (Z.div_mod (val s) 2 ltac:(lia)) as Hds.
    destruct (has_spare_bit m) eqn:Hs; cbn [negb andb].
    + pose proof (spare_bit_bound m Hm Hne Hs) as Hsp. rewrite <- Hl in Hsp.
      destruct carry; cbn [Z.b2z] in Heq; [exfalso; lia|].
      repeat split; auto; try lia.
      replace (2 * val (div2 s)) with (val x + 1 * val m) by lia. apply Z.mod_add. lia.
    + destruct carry; cbn [Z.b2z] in Heq.
      * destruct (set_top_bit_spec (div2 s) Hw) as (Hw3 & Hl3 & Hv3).
        { intros E. rewrite E in Hlen. cbn [length] in Hlen. destruct m; [congruence|].
          rewrite Hls, Hl in Hlen. discriminate. }
        { rewrite Hlen, Hls. lia. }
        rewrite Hlen, Hls in Hv3.
        repeat split; auto; try lia.
        replace (2 * val (set_top_bit (div2 s))) with (val x + 1 * val m) by lia. apply Z.mod_add. lia.
      * repeat split; auto; try lia.
        replace (2 * val (div2 s)) with (val x + 1 * val m) by lia. apply Z.mod_add. lia.
Qed.

(* ---------- the loop invariant ----------
   A = value of the input (Montgomery form of the element to invert), T = R^2 mod p.
   For both pairs (u, b) and (v, c):   b * A = u * T  (mod p)  and  b < p. *)

Definition Inv (m : list Z) (A T : Z) (u b : list Z) : Prop :=
  wf u /\ wf b /\ length u = length m /\ length b = length m /\ val b < val m /\
  (val m | val b * A - val u * T).

(* halving u and b together *)
Lemma inv_half m A T u b : wf m -> val m mod 2 = 1 -> val u mod 2 = 0 ->
  Inv m A T u b -> Inv m A T (div2 u) (half_mod m b).
Proof.
  intros Hm Hodd Hev (Huw & Hbw & Hul & Hbl & Hblt & Hd).
  destruct (div2_spec u Huw) as (Hw & Hlen & Hv).
  destruct (half_mod_spec m b Hm Hodd Hbw Hbl Hblt) as (Hhw & Hhl & Hhlt & Hhv).
  pose proof (odd_pos m Hm Hodd) as Hp.
  apply modeq_div in Hhv; [|exact Hp].
  pose proof (Z.div_mod (val u) 2 ltac:(lia)) as Hdu.
  unfold Inv. repeat split; auto; try lia.
  apply div_cancel2; [exact Hodd|].
  replace (2 * (val (half_mod m b) * A - val (div2 u) * T))
    with ((2 * val (half_mod m b) - val b) * A + (val b * A - val u * T)).
  - apply Z.divide_add_r; [apply Z.divide_mul_l; exact Hhv | exact Hd].
  - rewrite Hv. replace (val u) with (2 * (val u / 2)) at 1 by lia. ring.
Qed.

Lemma strip_even_spec A T : forall fuel m u b u1 b1, wf m -> val m mod 2 = 1 ->
  Inv m A T u b -> strip_even fuel m u b = Some (u1, b1) ->
  Inv m A T u1 b1 /\ val u1 mod 2 = 1.
Proof.
  induction fuel as [|f IH]; intros m u b u1 b1 Hm Hodd Hinv Hs; [discriminate|].
  cbn [strip_even] in Hs. rewrite is_even_spec in Hs.
  destruct (Z.eqb_spec (val u mod 2) 0) as [He|Ho].
  - apply IH in Hs; auto. apply inv_half; auto.
  - injection Hs as <- <-. split; [exact Hinv|].
    pose proof (Z.mod_pos_bound (val u) 2 ltac:(lia)). lia.
Qed.

(* u -= v; b -= c *)
Lemma inv_sub m A T u v b c : wf m -> Inv m A T u b -> Inv m A T v c -> val v <= val u ->
  Inv m A T (fst (sub_with_borrow u v)) (sub_assign m b c).
Proof.
  intros Hm (Huw & Hbw & Hul & Hbl & Hblt & Hbd) (Hvw & Hcw & Hvl & Hcl & Hclt & Hcd) Hle.
  destruct (sub_fst_spec u v Huw Hvw ltac:(lia) Hle) as (Hw & Hlen & Hv).
  destruct (sub_assign_spec m b c Hm Hbw Hcw Hbl Hcl Hblt Hclt) as (Hsw & Hsl & Hslt & Hsv).
  pose proof (val_bound b Hbw) as Hbb.
  assert (Hdv : (val m | val (sub_assign m b c) - (val b - val c))).
  { rewrite Hsv. exists (- ((val b - val c) / val m)).
    pose proof (Z.div_mod (val b - val c) (val m) ltac:(lia)). lia. }
  unfold Inv. repeat split; auto; try lia.
  replace (val (sub_assign m b c) * A - val (fst (sub_with_borrow u v)) * T)
    with ((val (sub_assign m b c) - (val b - val c)) * A + ((val b * A - val u * T) - (val c * A - val v * T)))
    by (rewrite Hv; ring).
  apply Z.divide_add_r; [apply Z.divide_mul_l; exact Hdv | apply Z.divide_sub_r; assumption].
Qed.

Lemma inverse_loop_spec A T : forall fuel m u v b c r, wf m -> val m mod 2 = 1 ->
  Inv m A T u b -> Inv m A T v c ->
  inverse_loop fuel m u v b c = Some r ->
  wf r /\ length r = length m /\ val r < val m /\ (val m | val r * A - T).
Proof.
  induction fuel as [|f IH]; intros m u v b c r Hm Hodd Hu Hv Hr; [discriminate|].
  pose proof (odd_nonempty m Hodd) as Hne.
  destruct (one_spec m Hne) as (Hw1 & Hl1 & Hv1).
  cbn [inverse_loop] in Hr. cbv zeta in Hr.
  pose proof Hu as (Huw & Hbw & Hul & Hbl & Hblt & Hbd).
  pose proof Hv as (Hvw & Hcw & Hvl & Hcl & Hclt & Hcd).
  rewrite !limbs_eqb_spec in Hr by (auto; lia). rewrite Hv1 in Hr.
  destruct (Z.eqb_spec (val u) 1) as [Eu|Nu].
  { injection Hr as <-. rewrite Eu in Hbd. repeat split; auto.
    replace (val b * A - T) with (val b * A - 1 * T) by ring. exact Hbd. }
  destruct (Z.eqb_spec (val v) 1) as [Ev|Nv].
  { injection Hr as <-. rewrite Ev in Hcd. repeat split; auto.
    replace (val c * A - T) with (val c * A - 1 * T) by ring. exact Hcd. }
  destruct (strip_even _ m u b) as [[u1 b1]|] eqn:Hs1; [|discriminate].
  destruct (strip_even _ m v c) as [[v1 c1]|] eqn:Hs2; [|discriminate].
  apply (strip_even_spec A T) in Hs1 as [Hu1 _]; auto.
  apply (strip_even_spec A T) in Hs2 as [Hv1' _]; auto.
  pose proof Hu1 as (Hu1w & _ & Hu1l & _).
  pose proof Hv1' as (Hv1w & _ & Hv1l & _).
  destruct (cmp v1 u1) eqn:Hc; rewrite cmp_spec in Hc by (auto; lia).
  - apply Z.compare_eq_iff in Hc.
    apply IH in Hr; auto. apply inv_sub; auto. lia.
  - apply -> Z.compare_lt_iff in Hc.
    apply IH in Hr; auto. apply inv_sub; auto. lia.
  - apply -> Z.compare_gt_iff in Hc.
    apply IH in Hr; auto. apply inv_sub; auto. lia.
Qed.

(* ---------- main theorem ----------
   r * a = R^2 (mod p): with a = x R and r = y R (Montgomery forms) this says x y = 1. *)
Theorem inverse_partial : forall m a, wf m -> val m mod 2 = 1 -> wf a -> length a = length m ->
  val a < val m ->
  (val a = 0 -> inverse m a = InvNone) /\
  (val a <> 0 -> inverse m a <> InvNone) /\
  (forall r, inverse m a = InvSome r ->
     wf r /\ length r = length m /\ val r < val m /\
     (val r * val a) mod val m = (Wn (length m) * Wn (length m)) mod val m).
Proof.
  intros m a Hm Hodd Ha Hl Hlt. unfold inverse. rewrite is_zero_spec by auto.
  pose proof (odd_pos m Hm Hodd) as Hp.
  destruct (R2_of_spec m Hm Hp) as (Hrw & Hrl & Hrv).
  split; [|split].
  - intros ->. reflexivity.
  - intros Hnz. destruct (Z.eqb_spec (val a) 0); [contradiction|].
    destruct (inverse_loop _ m a m (R2_of m) (zeros (length m))); discriminate.
  - intros r Hr. destruct (Z.eqb_spec (val a) 0); [discriminate|].
    destruct (inverse_loop _ m a m (R2_of m) (zeros (length m))) as [r'|] eqn:Hloop; [|discriminate].
    injection Hr as ->.
    apply (inverse_loop_spec (val a) (val (R2_of m))) in Hloop; auto.
    + destruct Hloop as (Hw & Hlen & Hrlt & Hd). repeat split; auto.
      rewrite <- Hrv. rewrite <- (Z.mod_small (val (R2_of m)) (val m)) at 1.
      * apply div_modeq; auto.
      * rewrite Hrv. apply Z.mod_pos_bound. lia.
    + unfold Inv. repeat split; auto.
      * rewrite Hrv. apply Z.mod_pos_bound. lia.
      * exists 0. ring.
    + unfold Inv. repeat split; auto using wf_zeros, length_zeros.
      * rewrite val_zeros. lia.
      * rewrite val_zeros. exists (- val (R2_of m)). ring.
Qed.

(* ---------- termination: the fuel 128 N + 3 is enough when gcd(a, p) = 1 ----------
   The control flow depends on (u, v) only.  Measure: the product u * v.  It is < 2^(128 N)
   at the start; apart from the first iteration (u = a may be odd like v = p) one of u, v
   is even at the head of the loop, so stripping at least halves the product and the
   subtraction does not increase it. *)

Lemma odd_sub_even x y : x mod 2 = 1 -> y mod 2 = 1 -> (x - y) mod 2 = 0.
Proof. intros Hx Hy. Z.to_euclidean_division_equations. lia. Qed.

Lemma strip_even_val : forall fuel m u b u1 b1, wf u ->
  strip_even fuel m u b = Some (u1, b1) ->
  wf u1 /\ length u1 = length u /\ (val u1 | val u) /\ val u1 <= val u /\
  (0 < val u -> 0 < val u1) /\ val u1 mod 2 = 1 /\
  (val u mod 2 = 0 -> 2 * val u1 <= val u) /\ (val u mod 2 = 1 -> u1 = u).
Proof.
  induction fuel as [|f IH]; intros m u b u1 b1 Hu Hs; [discriminate|].
  cbn [strip_even] in Hs. rewrite is_even_spec in Hs.
  pose proof (val_bound u Hu) as Hub.
  pose proof (Z.mod_pos_bound (val u) 2 ltac:(lia)) as Hmb.
  destruct (Z.eqb_spec (val u mod 2) 0) as [He|Ho].
  - destruct (div2_spec u Hu) as (Hw & Hlen & Hv).
    apply IH in Hs; auto. destruct Hs as (Hw1 & Hl1 & Hd1 & Hle1 & Hp1 & Ho1 & _ & _).
    pose proof (Z.div_mod (val u) 2 ltac:(lia)) as Hdm. rewrite Hv in *.
    repeat split; auto; try lia.
    apply Z.divide_trans with (val u / 2); [exact Hd1|]. exists 2. lia.
  - injection Hs as <- <-. repeat split; auto; try lia. apply Z.divide_refl.
Qed.

Lemma strip_even_total : forall k fuel m u b, wf u -> 0 < val u < 2 ^ Z.of_nat k -> (k < fuel)%nat ->
  exists u1 b1, strip_even fuel m u b = Some (u1, b1).
Proof.
  induction k as [|k IH]; intros fuel m u b Hu Hb Hf.
  - change (Z.of_nat 0) with 0 in Hb. rewrite Z.pow_0_r in Hb. lia.
  - destruct fuel as [|f]; [lia|]. cbn [strip_even]. rewrite is_even_spec.
    destruct (Z.eqb_spec (val u mod 2) 0) as [He|Ho].
    + destruct (div2_spec u Hu) as (Hw & Hlen & Hv).
      apply IH; auto; [|lia]. rewrite Hv.
      rewrite Nat2Z.inj_succ, Z.pow_succ_r in Hb by lia.
      pose proof (Z.div_mod (val u) 2 ltac:(lia)) as Hdm. lia.
    + eauto.
Qed.

Lemma rel_prime_sub_l u v : rel_prime u v -> rel_prime (u - v) v.
Proof.
  unfold rel_prime. intros [_ _ H]. constructor; try apply Z.divide_1_l.
  intros x Hx Hv. apply H; auto. replace u with ((u - v) + v) by ring. apply Z.divide_add_r; auto.
Qed.

Lemma rel_prime_same u : 0 <= u -> rel_prime u u -> u = 1.
Proof.
  unfold rel_prime. intros Hu [_ _ H]. apply Z.divide_1_r_nonneg; auto. apply H; apply Z.divide_refl.
Qed.

(* state of the (u, v) part *)
Definition Tst (m u v : list Z) : Prop :=
  wf u /\ wf v /\ length u = length m /\ length v = length m /\
  0 < val u /\ 0 < val v /\ rel_prime (val u) (val v).

Lemma Tst_intro m u v : wf u -> wf v -> length u = length m -> length v = length m ->
  0 < val u -> 0 < val v -> rel_prime (val u) (val v) -> Tst m u v.
Proof. unfold Tst. intros. tauto. Qed.

Definition mixed (u v : list Z) : Prop :=
  (val u mod 2 = 0 /\ val v mod 2 = 1) \/ (val u mod 2 = 1 /\ val v mod 2 = 0).

Lemma loop_done m u v b c f : m <> [] -> wf u -> wf v -> length u = length m -> length v = length m ->
  val u = 1 \/ val v = 1 -> inverse_loop (S f) m u v b c <> None.
Proof.
  intros Hne Hu Hv Hul Hvl H1. destruct (one_spec m Hne) as (Hw1 & Hl1 & Hv1).
  cbn [inverse_loop]. cbv zeta. rewrite !limbs_eqb_spec by (auto; lia). rewrite Hv1.
  destruct (Z.eqb_spec (val u) 1); [discriminate|].
  destruct (Z.eqb_spec (val v) 1); [discriminate|]. lia.
Qed.

Lemma loop_step m u v b c : m <> [] -> Tst m u v -> val u <> 1 -> val v <> 1 ->
  (val u mod 2 = 1 \/ val v mod 2 = 1) ->
  exists u' v' b' c',
    (forall f, inverse_loop (S f) m u v b c = inverse_loop f m u' v' b' c') /\
    Tst m u' v' /\ mixed u' v' /\
    val u' * val v' < val u * val v /\
    (val u mod 2 = 0 \/ val v mod 2 = 0 -> 2 * (val u' * val v') < val u * val v).
Proof.
  intros Hne (Huw & Hvw & Hul & Hvl & Hup & Hvp & Hrp) Nu Nv Hpar.
  destruct (one_spec m Hne) as (Hw1 & Hl1 & Hv1).
  pose proof (val_bound u Huw) as Hub. pose proof (val_bound v Hvw) as Hvb.
  rewrite Hul in Hub. rewrite Hvl in Hvb. rewrite Wn_pow2 in Hub, Hvb.
  replace (64 * Z.of_nat (length m)) with (Z.of_nat (64 * length m)) in Hub, Hvb by lia.
  destruct (strip_even_total (64 * length m) (64 * length m + 1) m u b Huw ltac:(lia) ltac:(lia))
    as (u1 & b1 & Hs1).
  destruct (strip_even_total (64 * length m) (64 * length m + 1) m v c Hvw ltac:(lia) ltac:(lia))
    as (v1 & c1 & Hs2).
  destruct (strip_even_val _ _ _ _ _ _ Huw Hs1) as (Hu1w & Hu1l & Hu1d & Hu1le & Hu1p & Hu1o & Hu1h & Hu1e).
  destruct (strip_even_val _ _ _ _ _ _ Hvw Hs2) as (Hv1w & Hv1l & Hv1d & Hv1le & Hv1p & Hv1o & Hv1h & Hv1e).
  specialize (Hu1p Hup). specialize (Hv1p Hvp).
  assert (Hrp1 : rel_prime (val u1) (val v1)).
  { apply rel_prime_sym. apply rel_prime_div with (val v); [|exact Hv1d].
    apply rel_prime_sym. apply rel_prime_div with (val u); [exact Hrp | exact Hu1d]. }
  assert (Hneq : val u1 <> val v1).
  { intros E. assert (E1 : val u1 = 1).
    { apply rel_prime_same; [lia|]. rewrite E at 2. exact Hrp1. }
    destruct Hpar as [Ho|Ho].
    - rewrite (Hu1e Ho) in E1. contradiction.
    - rewrite (Hv1e Ho) in E. lia. }
  assert (Hprod : val u1 * val v1 <= val u * val v) by (apply Z.mul_le_mono_nonneg; lia).
  assert (Hprod2 : val u mod 2 = 0 \/ val v mod 2 = 0 -> 2 * (val u1 * val v1) <= val u * val v).
  { intros [He|He].
    - specialize (Hu1h He). replace (2 * (val u1 * val v1)) with ((2 * val u1) * val v1) by ring.
      apply Z.mul_le_mono_nonneg; lia.
    - specialize (Hv1h He). replace (2 * (val u1 * val v1)) with (val u1 * (2 * val v1)) by ring.
      apply Z.mul_le_mono_nonneg; lia. }
  destruct (Z.lt_ge_cases (val v1) (val u1)) as [Hlt|Hge].
  - destruct (sub_fst_spec u1 v1 Hu1w Hv1w ltac:(lia) ltac:(lia)) as (Hw & Hlen & Hv).
    exists (fst (sub_with_borrow u1 v1)), v1, (sub_assign m b1 c1), c1.
    assert (Hsm : val (fst (sub_with_borrow u1 v1)) * val v1 < val u1 * val v1).
    { rewrite Hv. apply Z.mul_lt_mono_pos_r; lia. }
    split; [|split; [|split; [|split]]].
    + intros f. cbn [inverse_loop]. cbv zeta. rewrite !limbs_eqb_spec by (auto; lia). rewrite Hv1.
      rewrite (proj2 (Z.eqb_neq _ _) Nu), (proj2 (Z.eqb_neq _ _) Nv), Hs1, Hs2.
      rewrite cmp_spec by (auto; lia). rewrite (proj2 (Z.compare_lt_iff _ _) Hlt). reflexivity.
    + apply Tst_intro; auto; try lia. rewrite Hv. apply rel_prime_sub_l. exact Hrp1.
    + left. split; [|exact Hv1o]. rewrite Hv. apply odd_sub_even; auto.
    + lia.
    + intros He. specialize (Hprod2 He). lia.
  - assert (Hgt : val u1 < val v1) by lia.
    destruct (sub_fst_spec v1 u1 Hv1w Hu1w ltac:(lia) ltac:(lia)) as (Hw & Hlen & Hv).
    exists u1, (fst (sub_with_borrow v1 u1)), b1, (sub_assign m c1 b1).
    assert (Hsm : val u1 * val (fst (sub_with_borrow v1 u1)) < val u1 * val v1).
    { rewrite Hv. apply Z.mul_lt_mono_pos_l; lia. }
    split; [|split; [|split; [|split]]].
    + intros f. cbn [inverse_loop]. cbv zeta. rewrite !limbs_eqb_spec by (auto; lia). rewrite Hv1.
      rewrite (proj2 (Z.eqb_neq _ _) Nu), (proj2 (Z.eqb_neq _ _) Nv), Hs1, Hs2.
      rewrite cmp_spec by (auto; lia). rewrite (proj2 (Z.compare_gt_iff _ _) Hgt). reflexivity.
    + apply Tst_intro; auto; try lia. rewrite Hv.
      apply rel_prime_sym. apply rel_prime_sub_l. apply rel_prime_sym. exact Hrp1.
    + right. split; [exact Hu1o|]. rewrite Hv. apply odd_sub_even; auto.
    + lia.
    + intros He. specialize (Hprod2 He). lia.
Qed.

Lemma loop_term : forall k fuel m u v b c, m <> [] -> (k < fuel)%nat -> Tst m u v -> mixed u v ->
  val u * val v < 2 ^ Z.of_nat k -> inverse_loop fuel m u v b c <> None.
Proof.
  induction k as [|k IH]; intros fuel m u v b c Hne Hf Ht Hmix Hlt.
  - destruct Ht as (_ & _ & _ & _ & Hup & Hvp & _).
    change (Z.of_nat 0) with 0 in Hlt. rewrite Z.pow_0_r in Hlt. nia.
  - destruct fuel as [|f]; [lia|].
    pose proof Ht as (Huw & Hvw & Hul & Hvl & _).
    destruct (Z.eq_dec (val u) 1) as [Eu|Nu]; [apply loop_done; auto|].
    destruct (Z.eq_dec (val v) 1) as [Ev|Nv]; [apply loop_done; auto|].
    destruct (loop_step m u v b c Hne Ht Nu Nv ltac:(destruct Hmix; tauto))
      as (u' & v' & b' & c' & Heq & Ht' & Hmix' & _ & Hhalf).
    rewrite Heq. apply IH; auto; [lia|].
    specialize (Hhalf ltac:(destruct Hmix; tauto)).
    rewrite Nat2Z.inj_succ, Z.pow_succ_r in Hlt by lia. lia.
Qed.

Theorem inverse_terminates : forall m a, wf m -> val m mod 2 = 1 -> wf a -> length a = length m ->
  val a < val m -> rel_prime (val a) (val m) -> inverse m a <> InvOutOfFuel.
Proof.
  intros m a Hm Hodd Ha Hl Hlt Hrp. unfold inverse. rewrite is_zero_spec by auto.
  destruct (Z.eqb_spec (val a) 0) as [Ez|Nz]; [discriminate|].
  pose proof (odd_nonempty m Hodd) as Hne.
  pose proof (val_bound a Ha) as Hab. pose proof (val_bound m Hm) as Hmb.
  assert (Ht : Tst m a m) by (apply Tst_intro; auto; lia).
  assert (Hprod : val a * val m < 2 ^ Z.of_nat (128 * length m)).
  { replace (Z.of_nat (128 * length m)) with (64 * Z.of_nat (length m) + 64 * Z.of_nat (length m)) by lia.
    rewrite Z.pow_add_r, <- Wn_pow2 by lia. rewrite Hl in Hab.
    apply Z.le_lt_trans with (val m * val m); [apply Z.mul_le_mono_nonneg_r; lia|].
    apply Z.mul_lt_mono_nonneg; lia. }
  enough (Hloop : inverse_loop (128 * length m + 3) m a m (R2_of m) (zeros (length m)) <> None).
  { destruct (inverse_loop _ m a m (R2_of m) (zeros (length m))); [discriminate | congruence]. }
  pose proof (Z.mod_pos_bound (val a) 2 ltac:(lia)) as Hpar.
  destruct (Z.eq_dec (val a mod 2) 0) as [He|Ho].
  - apply loop_term with (k := (128 * length m)%nat); auto; [lia|]. left. auto.
  - replace (128 * length m + 3)%nat with (S (128 * length m + 2)) by lia.
    destruct (Z.eq_dec (val a) 1) as [E1|N1]; [apply loop_done; auto|].
    destruct (Z.eq_dec (val m) 1) as [E2|N2]; [apply loop_done; auto|].
    destruct (loop_step m a m (R2_of m) (zeros (length m)) Hne Ht N1 N2 ltac:(auto))
      as (u' & v' & b' & c' & Heq & Ht' & Hmix' & Hless & _).
    rewrite Heq. apply loop_term with (k := (128 * length m)%nat); auto; lia.
Qed.

(* total correctness: for gcd(a, p) = 1 (in particular p prime, 0 < a < p) the inverse exists
   in Montgomery form *)
Corollary inverse_total : forall m a, wf m -> val m mod 2 = 1 -> wf a -> length a = length m ->
  val a < val m -> val a <> 0 -> rel_prime (val a) (val m) ->
  exists r, inverse m a = InvSome r /\ wf r /\ length r = length m /\ val r < val m /\
            (val r * val a) mod val m = (Wn (length m) * Wn (length m)) mod val m.
Proof.
  intros m a Hm Hodd Ha Hl Hlt Hnz Hrp.
  destruct (inverse_partial m a Hm Hodd Ha Hl Hlt) as (_ & Hnn & Hsome).
  pose proof (inverse_terminates m a Hm Hodd Ha Hl Hlt Hrp) as Hfuel. specialize (Hnn Hnz).
  destruct (inverse m a) as [|r|] eqn:E; try congruence.
  exists r. split; [reflexivity|]. apply Hsome. reflexivity.
Qed.

(* concrete non-trivial instances of the hypotheses: p = 7 and p = 2^64 - 59 (one limb, no
   spare bit), p = 2^127 - 1 (two limbs, spare bit) *)
Example inverse_ex1 : exists r, inverse [7] [3] = InvSome [r] /\ (r * 3) mod 7 = (W64 * W64) mod 7.
Proof. eexists. split; [vm_compute; reflexivity | vm_compute; reflexivity]. Qed.

Example inverse_ex2 :
  exists r, inverse [18446744073709551557] [12345678901234567] = InvSome [r] /\
            (r * 12345678901234567) mod 18446744073709551557 = (W64 * W64) mod 18446744073709551557.
Proof. eexists. split; [vm_compute; reflexivity | vm_compute; reflexivity]. Qed.

Example inverse_ex3 :
  exists r0 r1, inverse [18446744073709551615; 9223372036854775807] [5; 9] = InvSome [r0; r1] /\
    ((r0 + W64 * r1) * (5 + W64 * 9)) mod (18446744073709551615 + W64 * 9223372036854775807)
    = (W128 * W128) mod (18446744073709551615 + W64 * 9223372036854775807).
Proof. do 2 eexists. split; [vm_compute; reflexivity | vm_compute; reflexivity]. Qed.

Example inverse_zero : inverse [7] [0] = InvNone.
Proof. reflexivity. Qed.
