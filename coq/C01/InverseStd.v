From V Require Import Base.Word C15.GenArith C15.LeafSpecs C15.BigIntModel C15.BigIntProofs
  C01.InvModel C01.InvProofs C01.MontModel C01.MontProofs C01.InverseProofs.
Require Import Znumtheory.

(* r * a = R^2 on the raw representatives  <->  std r * std a = 1 in Z_p *)
Lemma std_inverse_of_raw m a r : wf m -> val m mod 2 = 1 ->
  wf a -> length a = length m -> val a < val m ->
  wf r -> length r = length m -> val r < val m ->
  (val r * val a) mod val m = (Wn (length m) * Wn (length m)) mod val m ->
  (std m r * std m a) mod val m = 1 mod val m.
Proof.
  intros Hm Hodd Ha Hla Halt Hr Hlr Hrlt Hc. pose proof (odd_pos m Hm Hodd) as Hp.
  destruct (std_val m Hm Hodd a Ha Hla Halt) as [_ Ea]. destruct (std_val m Hm Hodd r Hr Hlr Hrlt) as [_ Er].
  set (W := Wn (length m)) in *. set (sr := std m r) in *. set (sa := std m a) in *.
  assert (H1 : (sr * sa * W) mod val m = W mod val m).
  { apply (mont_cancel m); auto; try (apply Z.mod_pos_bound; lia). fold W.
    rewrite !Zmult_mod_idemp_l. rewrite <- Hc. rewrite Er at 1. rewrite Ea at 1.
    rewrite <- Zmult_mod. f_equal. ring. }
  apply (mont_cancel m); auto; try (apply Z.mod_pos_bound; lia). fold W.
  rewrite !Zmult_mod_idemp_l. rewrite H1. f_equal. ring.
Qed.

Theorem inverse_std_partial : forall m a, wf m -> val m mod 2 = 1 -> wf a -> length a = length m ->
  val a < val m ->
  (val a = 0 -> inverse m a = InvNone) /\
  (forall r, inverse m a = InvSome r ->
     wf r /\ length r = length m /\ val r < val m /\ (std m r * std m a) mod val m = 1 mod val m).
Proof.
  intros m a Hm Hodd Ha Hla Halt.
  destruct (inverse_partial m a Hm Hodd Ha Hla Halt) as (H0 & _ & HS).
  split; [exact H0|]. intros r Hr. destruct (HS r Hr) as (Hw & Hl & Hlt & Hc).
  repeat split; auto. apply std_inverse_of_raw; auto.
Qed.

(* for a prime modulus every non-zero element is inverted (termination included) *)
Theorem inverse_prime : forall m a, wf m -> val m mod 2 = 1 -> prime (val m) ->
  wf a -> length a = length m -> val a < val m -> val a <> 0 ->
  exists r, inverse m a = InvSome r /\ wf r /\ length r = length m /\ val r < val m /\
            (std m r * std m a) mod val m = 1.
Proof.
  intros m a Hm Hodd Hpr Ha Hla Halt Hnz. pose proof (val_bound a Ha) as Hab.
  assert (Hrp : rel_prime (val a) (val m)).
  { apply rel_prime_sym. apply prime_rel_prime; auto. intros Hd.
    apply Z.divide_pos_le in Hd; lia. }
  destruct (inverse_total m a Hm Hodd Ha Hla Halt Hnz Hrp) as (r & Hr & Hw & Hl & Hlt & Hc).
  exists r. repeat split; auto.
  rewrite (std_inverse_of_raw m a r) by auto. apply Z.mod_small.
  destruct Hpr as [H1 _]. lia.
Qed.
