(* Proofs about the C01 Montgomery model, for every limb count N (= list length) and every
   odd modulus: add/sub/neg, the final conditional subtraction, the no-carry CIOS loop
   invariant, into_bigint, from_bigint. *)
From V Require Import Base.Word C15.GenArith C15.LeafSpecs C15.BigIntModel C15.BigIntProofs
  C01.InvModel C01.InvProofs C01.MontModel.
Require Import Znumtheory Zpow_facts.

Local Ltac unf := unfold u64, W64 in *.



Lemma mac_carry_u64 a b c k : u64 a -> u64 b -> u64 c -> u64 k -> u64 ((a + b * c + k) / W64).
Proof.
  intros Ha Hb Hc Hk. split; [apply Z.div_pos; unf; nia|].
  apply Z.div_lt_upper_bound; unf; nia.
Qed.

Lemma u64_0 : u64 0. Proof. unf; lia. Qed.

Lemma val_snoc l c : val (l ++ [c]) = val l + Wn (length l) * c.
Proof. rewrite val_app. cbn [val]. ring. Qed.

(* ---------- C15 mac_row ---------- *)
Lemma mac_row_spec : forall ys acc x c, wf ys -> wf acc -> length acc = length ys -> u64 x -> u64 c ->
  let '(row, cf) := mac_row acc x ys c in
  wf row /\ length row = length ys /\ u64 cf /\
  val row + Wn (length ys) * cf = val acc + x * val ys + c.
Proof.
  induction ys as [|y ys IH]; intros [|r acc] x c Hys Hacc Hl Hx Hc; try discriminate.
  - cbn [mac_row val length]. rewrite Wn_0. unfold u64 in *. repeat split; auto using wf_nil; lia.
  - apply wf_cons in Hys as [Hy Hys]. apply wf_cons in Hacc as [Hr Hacc]. injection Hl as Hl.
    cbn [mac_row]. rewrite mac_with_carry_m_spec by auto.
    pose proof (mac_carry_u64 r x y c Hr Hx Hy Hc) as Hc'.
    specialize (IH acc x _ Hys Hacc Hl Hx Hc').
    destruct (mac_row acc x ys ((r + x * y + c) / W64)) as [rs cf].
    destruct IH as (Hw & Hlen & Hcf & Heq).
    repeat split; try (apply Hcf).
    + apply wf_cons. split; [apply mod_u64 | exact Hw].
    + cbn [length]. lia.
    + cbn [val length]. rewrite Wn_S. pose proof (divmod_eq (r + x * y + c)). nia.
Qed.

(* ---------- no-carry CIOS ---------- *)
Lemma nc_inner_spec : forall r a m bi k c1 c2, wf r -> wf a -> wf m ->
  length r = length a -> length a = length m -> u64 bi -> u64 k -> u64 c1 -> u64 c2 ->
  let '(rs, c1f, c2f) := nc_inner r a m bi k c1 c2 in
  wf rs /\ length rs = length r /\ u64 c1f /\ u64 c2f /\
  val rs + Wn (length r) * (c1f + c2f) = val r + bi * val a + k * val m + c1 + c2.
Proof.
  induction r as [|rj r IH]; intros [|aj a] [|mj m] bi k c1 c2 Hr Ha Hm Hl1 Hl2 Hbi Hk Hc1 Hc2;
    try discriminate.
  - cbn [nc_inner val length]. rewrite Wn_0. unfold u64 in *. repeat split; auto using wf_nil; lia.
  - apply wf_cons in Hr as [Hrj Hr]. apply wf_cons in Ha as [Haj Ha]. apply wf_cons in Hm as [Hmj Hm].
    injection Hl1 as Hl1. injection Hl2 as Hl2.
    cbn [nc_inner]. rewrite mac_with_carry_spec by auto.
    pose proof (mac_carry_u64 rj aj bi c1 Hrj Haj Hbi Hc1) as Hc1'.
    pose proof (mod_u64 (rj + aj * bi + c1)) as Hv.
    rewrite mac_with_carry_spec by auto.
    pose proof (mac_carry_u64 _ k mj c2 Hv Hk Hmj Hc2) as Hc2'.
    specialize (IH a m bi k _ _ Hr Ha Hm Hl1 Hl2 Hbi Hk Hc1' Hc2').
    destruct (nc_inner r a m bi k _ _) as [[rs c1f] c2f].
    destruct IH as (Hw & Hlen & Hc1f & Hc2f & Heq).
    repeat split; try (apply Hc1f); try (apply Hc2f).
    + apply wf_cons. split; [apply mod_u64 | exact Hw].
    + cbn [length]. lia.
    + cbn [val length]. rewrite Wn_S.
      pose proof (divmod_eq (rj + aj * bi + c1)) as E1.
      pose proof (divmod_eq ((rj + aj * bi + c1) mod W64 + k * mj + c2)) as E2.
      nia.
Qed.

Section Row.
  Variables (m0 inv : Z).
  Hypothesis Hkill : forall x, (x + ((x * inv) mod W64) * m0) mod W64 = 0.

  Lemma nc_row_spec : forall m' a r bi, wf (m0 :: m') -> wf a -> wf r ->
    length r = length a -> length a = length (m0 :: m') -> u64 bi ->
    let r1 := nc_row (m0 :: m') a inv r bi in
    exists k, u64 k /\ length r1 = length r /\
      W64 * val r1 = val r + bi * val a + k * val (m0 :: m') /\
      (val r1 < Wn (length r) -> wf r1).
  Proof.
    intros m' [|a0 a'] [|r0 r'] bi Hm Ha Hr Hl1 Hl2 Hbi; try discriminate.
    apply wf_cons in Hm as [Hm0 Hm]. apply wf_cons in Ha as [Ha0 Ha]. apply wf_cons in Hr as [Hr0 Hr].
    injection Hl1 as Hl1. injection Hl2 as Hl2.
    cbn zeta. unfold nc_row. rewrite mac_spec by auto. rewrite mac_discard_spec by (auto using mod_u64).
    set (v0 := (r0 + a0 * bi) mod W64). set (k := (v0 * inv) mod W64).
    assert (Hv0 : u64 v0) by apply mod_u64. assert (Hk : u64 k) by apply mod_u64.
    assert (Hc1 : u64 ((r0 + a0 * bi) / W64)).
    { replace (r0 + a0 * bi) with (r0 + a0 * bi + 0) by ring. apply mac_carry_u64; auto using u64_0. }
    assert (Hc2 : u64 ((v0 + k * m0) / W64)).
    { replace (v0 + k * m0) with (v0 + k * m0 + 0) by ring. apply mac_carry_u64; auto using u64_0. }
    pose proof (nc_inner_spec r' a' m' bi k _ _ Hr Ha Hm Hl1 Hl2 Hbi Hk Hc1 Hc2) as H.
    destruct (nc_inner r' a' m' bi k _ _) as [[rs c1f] c2f].
    destruct H as (Hw & Hlen & Hc1f & Hc2f & Heq).
    exists k. split; [exact Hk|]. split; [rewrite app_length; cbn [length]; lia|].
    assert (Hlow : (v0 + k * m0) mod W64 = 0) by (unfold k; apply Hkill).
    pose proof (divmod_eq (r0 + a0 * bi)) as E1. fold v0 in E1.
    pose proof (divmod_eq (v0 + k * m0)) as E2. rewrite Hlow in E2.
    split.
    - rewrite val_snoc, Hlen. cbn [val]. nia.
    - intros Hlt. apply wf_app. split; [exact Hw|]. constructor; [|constructor].
      rewrite val_snoc, Hlen in Hlt. cbn [length] in Hlt. rewrite Wn_S in Hlt.
      pose proof (val_bound rs Hw) as Hb. pose proof (Wn_pos (length r')) as HW.
      unfold u64 in *. split; [lia|]. nia.
  Qed.
End Row.



(* ---------- conditional subtraction ---------- *)
Lemma is_geq_modulus_spec m a : wf m -> wf a -> length a = length m ->
  is_geq_modulus m a = (val m <=? val a).
Proof.
  intros Hm Ha Hl. unfold is_geq_modulus. rewrite cmp_spec by auto.
  destruct (Z.compare_spec (val a) (val m)); symmetry; [apply Z.leb_le|apply Z.leb_gt|apply Z.leb_le]; lia.
Qed.

Lemma sub_fst_spec a b : wf a -> wf b -> length a = length b -> val b <= val a ->
  wf (fst (sub_with_borrow a b)) /\ length (fst (sub_with_borrow a b)) = length a /\
  val (fst (sub_with_borrow a b)) = val a - val b.
Proof.
  intros Ha Hb Hl Hle. pose proof (sub_with_borrow_spec a b Ha Hb Hl) as H.
  destruct (sub_with_borrow a b) as [r c]. destruct H as (Hw & Hlen & Heq). cbn [fst].
  repeat split; auto. pose proof (val_bound r Hw) as Hr. rewrite Hlen in Hr.
  pose proof (val_bound a Ha). pose proof (val_bound b Hb).
  destruct c; cbn [Z.b2z] in Heq; lia.
Qed.

(* subtraction that wraps: value known modulo 2^(64N) *)
Lemma sub_fst_wrap a b : wf a -> wf b -> length a = length b ->
  wf (fst (sub_with_borrow a b)) /\ length (fst (sub_with_borrow a b)) = length a /\
  val (fst (sub_with_borrow a b)) = (val a - val b) mod Wn (length a).
Proof.
  intros Ha Hb Hl. pose proof (sub_with_borrow_spec a b Ha Hb Hl) as H.
  pose proof (sub_with_borrow_mod a b Ha Hb Hl) as [Hv _].
  destruct (sub_with_borrow a b) as [r c]. destruct H as (Hw & Hlen & Heq). cbn [fst] in *.
  repeat split; auto.
Qed.

Lemma subtract_modulus_spec m t : wf m -> wf t -> length t = length m -> val t < 2 * val m ->
  let r := subtract_modulus m t in
  wf r /\ length r = length m /\ val r < val m /\
  (val r = val t \/ val r = val t - val m).
Proof.
  intros Hm Ht Hl Hlt. unfold subtract_modulus. rewrite is_geq_modulus_spec by auto.
  pose proof (val_bound t Ht) as Hb.
  destruct (Z.leb_spec (val m) (val t)) as [Hge|Hlt'].
  - destruct (sub_fst_spec t m Ht Hm Hl Hge) as (Hw & Hlen & Hv). repeat split; auto; lia.
  - repeat split; auto; lia.
Qed.

(* ---------- all rows ---------- *)
Section Rows.
  Variables (m0 inv : Z) (m' a : list Z).
  Hypothesis Hkill : forall x, (x + ((x * inv) mod W64) * m0) mod W64 = 0.
  Let m := m0 :: m'.
  Hypothesis Hm : wf m.
  Hypothesis Ha : wf a.
  Hypothesis Hla : length a = length m.
  Hypothesis Halt : val a < val m.
  Hypothesis Hspare : 2 * val m <= Wn (length m).

  Lemma nc_fold_spec : forall bs r, wf bs -> wf r -> length r = length m -> val r < 2 * val m ->
    let r' := fold_left (nc_row m a inv) bs r in
    wf r' /\ length r' = length m /\ val r' < 2 * val m /\
    exists K, val r' * Wn (length bs) = val r + val a * val bs + K * val m.
  Proof.
    induction bs as [|bi bs IH]; intros r Hbs Hr Hlr Hrlt.
    - cbn [fold_left val length]. rewrite Wn_0. repeat split; auto. exists 0. ring.
    - apply wf_cons in Hbs as [Hbi Hbs]. cbn [fold_left].
      assert (Hl1 : length r = length a) by lia.
      destruct (nc_row_spec m0 inv Hkill m' a r bi Hm Ha Hr Hl1 Hla Hbi) as (k & Hk & Hlen1 & Heq1 & Hwf1).
      fold m in Hlen1, Heq1, Hwf1.
      set (r1 := nc_row m a inv r bi) in *.
      assert (Hr1lt : val r1 < 2 * val m).
      { pose proof (val_bound a Ha). pose proof (val_bound r Hr). unfold u64 in Hbi, Hk.
        assert (0 < W64) by reflexivity. nia. }
      assert (Hr1 : wf r1) by (apply Hwf1; rewrite Hlr; lia).
      specialize (IH r1 Hbs Hr1 ltac:(lia) Hr1lt). cbn zeta in IH.
      destruct IH as (Hw' & Hlen' & Hlt' & K & HK).
      repeat split; auto. exists (k + W64 * K).
      cbn [val length]. rewrite Wn_S.
      replace (val (fold_left (nc_row m a inv) bs r1) * (W64 * Wn (length bs)))
        with (W64 * (val (fold_left (nc_row m a inv) bs r1) * Wn (length bs))) by ring.
      rewrite HK. lia.
  Qed.
End Rows.



(* ---------- shape of the modulus ---------- *)
Lemma val_split_last m : m <> [] -> val m = val (removelast m) + Wn (length (removelast m)) * last m 0.
Proof.
  intros Hne. rewrite (app_removelast_last 0 Hne) at 1. apply val_snoc.
Qed.

Lemma length_removelast_S (m : list Z) : m <> [] -> length m = S (length (removelast m)).
Proof.
  intros Hne. rewrite (app_removelast_last 0 Hne) at 1. rewrite app_length. cbn [length]. lia.
Qed.

Lemma wf_removelast m : wf m -> m <> [] -> wf (removelast m) /\ u64 (last m 0).
Proof.
  intros Hm Hne. rewrite (app_removelast_last 0 Hne) in Hm. apply wf_app in Hm as [H1 H2].
  split; auto. inversion H2; auto.
Qed.

Lemma spare_bit_bound m : wf m -> m <> [] -> has_spare_bit m = true -> 2 * val m <= Wn (length m).
Proof.
  intros Hm Hne Hs. unfold has_spare_bit, top_limb in Hs. apply Z.eqb_eq in Hs.
  rewrite Z.shiftr_div_pow2 in Hs by lia.
  destruct (wf_removelast m Hm Hne) as [Hl Ht].
  rewrite (length_removelast_S m Hne), Wn_S, (val_split_last m Hne).
  pose proof (val_bound _ Hl) as Hb. pose proof (Wn_pos (length (removelast m))) as HW.
  assert (Htop : last m 0 < 2^63).
  { apply Z.div_small_iff in Hs; [|lia]. destruct Hs; lia. }
  change (2^63) with 9223372036854775808 in Htop.
  assert (Wn (length (removelast m)) * last m 0 <= Wn (length (removelast m)) * 9223372036854775807) by nia.
  unf. lia.
Qed.

Lemma nocarry_trait_spare m : nocarry_trait m = true -> has_spare_bit m = true.
Proof. unfold nocarry_trait. intros H. apply andb_prop in H. tauto. Qed.

Lemma nocarry_macro_spare m : wf m -> m <> [] -> nocarry_macro m = true -> has_spare_bit m = true.
Proof.
  intros Hm Hne H. unfold nocarry_macro in H.
  assert (Hlt : top_limb m <? M63 = true).
  { destruct (length m =? 1)%nat; [exact H | apply andb_prop in H; tauto]. }
  apply Z.ltb_lt in Hlt. unfold has_spare_bit. apply Z.eqb_eq.
  rewrite Z.shiftr_div_pow2 by lia. apply Z.div_small.
  destruct (wf_removelast m Hm Hne) as [_ Ht]. unfold top_limb, M63 in *. unfold u64 in Ht. lia.
Qed.

(* ---------- residues ---------- *)
Lemma mod_by_sub x p e : 0 <= x - e * p < p -> x mod p = x - e * p.
Proof. intros H. symmetry. apply Z.mod_unique with (q := e); [left; lia | ring]. Qed.

Lemma val_odd_hd m : val m mod 2 = hd 0 m mod 2.
Proof.
  destruct m as [|x r]; [reflexivity|]. cbn [val hd].
  replace (x + W64 * val r) with (x + (9223372036854775808 * val r) * 2) by (unfold W64; ring).
  apply Z.mod_add. lia.
Qed.

(* the final conditional subtraction, chosen by the spare-bit flag *)
Lemma final_sub_spec m s (c : bool) : wf m -> m <> [] -> wf s -> length s = length m ->
  val s + Wn (length m) * Z.b2z c < 2 * val m ->
  let r := final_sub m s c in
  wf r /\ length r = length m /\ val r < val m /\
  val r = (val s + Wn (length m) * Z.b2z c) mod val m.
Proof.
  intros Hm Hne Hs Hl Hx. cbn zeta. unfold final_sub.
  pose proof (val_bound s Hs) as Hsb. rewrite Hl in Hsb. pose proof (val_bound m Hm) as Hmb.
  pose proof (Wn_pos (length m)) as HW.
  destruct (has_spare_bit m) eqn:Hsp.
  - pose proof (spare_bit_bound m Hm Hne Hsp) as H2.
    assert (c = false) by (destruct c; auto; cbn [Z.b2z] in Hx; lia). subst c. cbn [Z.b2z] in *.
    destruct (subtract_modulus_spec m s Hm Hs Hl ltac:(lia)) as (Hw & Hlen & Hlt & Hv).
    repeat split; auto. rewrite Z.mul_0_r, Z.add_0_r.
    pose proof (val_bound _ Hw).
    destruct Hv as [Hv|Hv]; rewrite Hv.
    + symmetry. apply Z.mod_small. lia.
    + symmetry. replace (val s - val m) with (val s - 1 * val m) by ring. apply mod_by_sub. lia.
  - unfold subtract_modulus_with_carry. rewrite is_geq_modulus_spec by auto.
    destruct c; cbn [orb Z.b2z] in *.
    + destruct (sub_fst_wrap s m Hs Hm Hl) as (Hw & Hlen & Hv). rewrite Hl in Hv.
      assert (Hv' : val (fst (sub_with_borrow s m)) = val s - val m + Wn (length m)).
      { rewrite Hv. symmetry. apply Z.mod_unique with (q := -1); [left; lia | ring]. }
      repeat split; auto; try lia. rewrite Hv'.
      symmetry. replace (val s - val m + Wn (length m)) with (val s + Wn (length m) * 1 - 1 * val m) by ring.
      apply mod_by_sub. lia.
    + rewrite Z.mul_0_r, Z.add_0_r in *.
      destruct (Z.leb_spec (val m) (val s)) as [Hge|Hlt'].
      * destruct (sub_fst_spec s m Hs Hm Hl Hge) as (Hw & Hlen & Hv). repeat split; auto; try lia.
        rewrite Hv. symmetry. replace (val s - val m) with (val s - 1 * val m) by ring. apply mod_by_sub. lia.
      * repeat split; auto. symmetry. apply Z.mod_small. lia.
Qed.

(* ---------- add / sub / neg ---------- *)
Theorem add_assign_spec m a b : wf m -> m <> [] -> wf a -> wf b -> length a = length m -> length b = length m ->
  val a < val m -> val b < val m ->
  let r := add_assign m a b in
  wf r /\ length r = length m /\ val r < val m /\ val r = (val a + val b) mod val m.
Proof.
  intros Hm Hne Ha Hb Hla Hlb Halt Hblt. cbn zeta. unfold add_assign.
  pose proof (add_with_carry_spec a b Ha Hb ltac:(lia)) as H.
  destruct (add_with_carry a b) as [s c]. destruct H as (Hw & Hlen & Heq).
  rewrite Hla in Heq.
  destruct (final_sub_spec m s c Hm Hne Hw ltac:(lia) ltac:(lia)) as (Hrw & Hrl & Hrlt & Hrv).
  repeat split; auto. rewrite Hrv, Heq. reflexivity.
Qed.

Theorem sub_assign_spec m a b : wf m -> wf a -> wf b -> length a = length m -> length b = length m ->
  val a < val m -> val b < val m ->
  let r := sub_assign m a b in
  wf r /\ length r = length m /\ val r < val m /\ val r = (val a - val b) mod val m.
Proof.
  intros Hm Ha Hb Hla Hlb Halt Hblt. cbn zeta. unfold sub_assign.
  rewrite cmp_spec by (auto; lia).
  pose proof (val_bound a Ha) as Hab. pose proof (val_bound b Hb) as Hbb. pose proof (val_bound m Hm) as Hmb.
  rewrite Hla in Hab. rewrite Hlb in Hbb. pose proof (Wn_pos (length m)) as HW.
  destruct (Z.compare_spec (val b) (val a)) as [He|Hlt|Hgt].
  - destruct (sub_fst_spec a b Ha Hb ltac:(lia) ltac:(lia)) as (Hw & Hlen & Hv).
    repeat split; auto; try lia. rewrite Hv. symmetry. apply Z.mod_small. lia.
  - destruct (sub_fst_spec a b Ha Hb ltac:(lia) ltac:(lia)) as (Hw & Hlen & Hv).
    repeat split; auto; try lia. rewrite Hv. symmetry. apply Z.mod_small. lia.
  - pose proof (add_with_carry_spec a m Ha Hm Hla) as H.
    pose proof (add_with_carry_mod a m Ha Hm Hla) as [Hv1 _].
    destruct (add_with_carry a m) as [a1 c]. destruct H as (Hw1 & Hlen1 & _). cbn [fst] in *.
    destruct (sub_fst_wrap a1 b Hw1 Hb ltac:(lia)) as (Hw & Hlen & Hv).
    rewrite Hlen1, Hla in Hv. rewrite Hla in Hv1.
    assert (Hfin : val (fst (sub_with_borrow a1 b)) = val a + val m - val b).
    { rewrite Hv, Hv1, Zminus_mod_idemp_l. apply Z.mod_small. lia. }
    repeat split; auto; try lia. rewrite Hfin.
    symmetry. replace (val a + val m - val b) with (val a - val b - (-1) * val m) by ring.
    apply mod_by_sub. lia.
Qed.

Theorem neg_in_place_spec m a : wf m -> wf a -> length a = length m -> val a < val m ->
  let r := neg_in_place m a in
  wf r /\ length r = length m /\ val r < val m /\ val r = (- val a) mod val m.
Proof.
  intros Hm Ha Hla Halt. cbn zeta. unfold neg_in_place. rewrite is_zero_spec by auto.
  pose proof (val_bound a Ha) as Hab.
  destruct (Z.eqb_spec (val a) 0) as [Hz|Hnz].
  - repeat split; auto. rewrite Hz. reflexivity.
  - destruct (sub_fst_spec m a Hm Ha ltac:(lia) ltac:(lia)) as (Hw & Hlen & Hv).
    repeat split; auto; try lia. rewrite Hv.
    symmetry. replace (val m - val a) with (- val a - (-1) * val m) by ring. apply mod_by_sub. lia.
Qed.



Lemma val_zeros n : val (zeros n) = 0. Proof. apply val_repeat0. Qed.
Lemma wf_zeros n : wf (zeros n). Proof. apply wf_repeat0. Qed.
Lemma length_zeros n : length (zeros n) = n. Proof. apply repeat_length. Qed.

Lemma odd_nonempty m : val m mod 2 = 1 -> m <> [].
Proof. intros H E. subst m. cbn in H. discriminate. Qed.

(* the Montgomery constant computed by the modelled `inv` kills the low limb *)
Lemma inv_of_kills m0 m' : wf (m0 :: m') -> val (m0 :: m') mod 2 = 1 ->
  forall x, (x + ((x * inv_of (m0 :: m')) mod W64) * m0) mod W64 = 0.
Proof.
  intros Hm Hodd x. rewrite val_odd_hd in Hodd. cbn [hd] in Hodd.
  apply wf_cons in Hm as [Hm0 _]. unfold inv_of. cbn [hd].
  apply mont_inv_kills_low; auto.
Qed.

(* ---------- no-carry CIOS: r < p and r * 2^(64N) = a * b (mod p), for every N ---------- *)
Theorem mul_nocarry_spec : forall m a b, wf m -> wf a -> wf b ->
  length a = length m -> length b = length m ->
  val m mod 2 = 1 -> 2 * val m <= Wn (length m) -> val a < val m ->
  let r := mul_nocarry m a b in
  wf r /\ length r = length m /\ val r < val m /\
  (val r * Wn (length m)) mod val m = (val a * val b) mod val m.
Proof.
  intros m a b Hm Ha Hb Hla Hlb Hodd Hsp Halt. cbn zeta.
  pose proof (odd_nonempty m Hodd) as Hne. destruct m as [|m0 m']; [congruence|].
  pose proof (inv_of_kills m0 m' Hm Hodd) as Hkill.
  unfold mul_nocarry, nc_rows.
  pose proof (val_bound a Ha) as Hab.
  destruct (nc_fold_spec m0 (inv_of (m0 :: m')) m' a Hkill Hm Ha Hla Halt Hsp b (zeros (length (m0 :: m')))
              Hb (wf_zeros _) (length_zeros _) ltac:(rewrite val_zeros; lia))
    as (Hw & Hlen & Hlt & K & HK).
  set (t := fold_left _ b _) in *.
  destruct (subtract_modulus_spec (m0 :: m') t Hm Hw Hlen Hlt) as (Hrw & Hrl & Hrlt & Hrv).
  repeat split; auto.
  rewrite val_zeros, Hlb in HK.
  destruct Hrv as [Hrv|Hrv]; rewrite Hrv.
  - rewrite HK. rewrite Z.add_0_l. apply Z.mod_add. lia.
  - replace ((val t - val (m0 :: m')) * Wn (length (m0 :: m')))
      with (val t * Wn (length (m0 :: m')) + (- Wn (length (m0 :: m'))) * val (m0 :: m')) by ring.
    rewrite Z.mod_add by lia. rewrite HK, Z.add_0_l. apply Z.mod_add. lia.
Qed.

(* whichever rule (macro or trait) selects the no-carry loop, the modulus has a spare bit *)
Theorem mul_assign_nocarry_branch_spec : forall (derived : bool) m a b, wf m -> wf a -> wf b ->
  length a = length m -> length b = length m -> val m mod 2 = 1 -> val a < val m ->
  (if derived then nocarry_macro m else nocarry_trait m) = true ->
  let r := mul_assign derived m a b in
  wf r /\ length r = length m /\ val r < val m /\
  (val r * Wn (length m)) mod val m = (val a * val b) mod val m.
Proof.
  intros derived m a b Hm Ha Hb Hla Hlb Hodd Halt Hrule.
  pose proof (odd_nonempty m Hodd) as Hne.
  assert (Hsp : has_spare_bit m = true).
  { destruct derived; [apply nocarry_macro_spare | apply nocarry_trait_spare]; auto. }
  unfold mul_assign. rewrite Hrule.
  apply mul_nocarry_spec; auto. apply spare_bit_bound; auto.
Qed.

(* ---------- into_bigint: N reduction rows, result = a * R^-1 mod p ---------- *)
Section IntoRow.
  Variables (m0 inv : Z).
  Hypothesis Hkill : forall x, (x + ((x * inv) mod W64) * m0) mod W64 = 0.

  Lemma into_row_spec : forall m' t, wf (m0 :: m') -> wf t -> length t = length (m0 :: m') ->
    let t1 := into_row (m0 :: m') inv t in
    exists k, u64 k /\ wf t1 /\ length t1 = length t /\ W64 * val t1 = val t + k * val (m0 :: m').
  Proof.
    intros m' [|t0 t'] Hm Ht Hl; try discriminate.
    apply wf_cons in Hm as [Hm0 Hm]. apply wf_cons in Ht as [Ht0 Ht]. injection Hl as Hl.
    cbn zeta. unfold into_row.
    set (k := (t0 * inv) mod W64). assert (Hk : u64 k) by apply mod_u64.
    rewrite mac_with_carry_spec by (auto using u64_0).
    pose proof (mac_carry_u64 t0 k m0 0 Ht0 Hk Hm0 u64_0) as Hc.
    pose proof (mac_row_spec m' t' k _ Hm Ht Hl Hk Hc) as H.
    destruct (mac_row t' k m' _) as [row cf]. destruct H as (Hw & Hlen & Hcf & Heq).
    exists k. split; [exact Hk|]. split.
    { apply wf_app. split; [exact Hw|]. constructor; [exact Hcf|constructor]. }
    split; [rewrite app_length; cbn [length]; lia|].
    assert (Hlow : (t0 + k * m0) mod W64 = 0) by (unfold k; apply Hkill).
    pose proof (divmod_eq (t0 + k * m0 + 0)) as E. rewrite Z.add_0_r in E at 1. rewrite Hlow in E.
    rewrite val_snoc, Hlen. cbn [val]. nia.
  Qed.

  Lemma into_iter_spec : forall m' n t, wf (m0 :: m') -> wf t -> length t = length (m0 :: m') ->
    val t < val (m0 :: m') ->
    let t' := Nat.iter n (into_row (m0 :: m') inv) t in
    wf t' /\ length t' = length t /\ val t' < val (m0 :: m') /\
    exists K, val t' * Wn n = val t + K * val (m0 :: m').
  Proof.
    intros m' n t Hm Ht Hl Hlt. induction n as [|n IH].
    - cbn [Nat.iter nat_rect]. rewrite Wn_0. repeat split; auto. exists 0. ring.
    - cbn zeta in *.
      replace (Nat.iter (S n) (into_row (m0 :: m') inv) t)
        with (into_row (m0 :: m') inv (Nat.iter n (into_row (m0 :: m') inv) t)) by reflexivity.
      destruct IH as (Hw & Hlen & Hlt' & K & HK).
      set (tn := Nat.iter n _ t) in *.
      destruct (into_row_spec m' tn Hm Hw ltac:(lia)) as (k & Hk & Hw1 & Hl1 & He1).
      cbn zeta in *. set (t1 := into_row _ inv tn) in *.
      pose proof (val_bound tn Hw). pose proof (val_bound t1 Hw1).
      repeat split; auto; try lia.
      + unfold u64 in Hk. assert (0 < W64) by reflexivity. nia.
      + exists (K + k * Wn n). rewrite Wn_S.
        replace (val t1 * (W64 * Wn n)) with (W64 * val t1 * Wn n) by ring. rewrite He1.
        replace ((val tn + k * val (m0 :: m')) * Wn n) with (val tn * Wn n + k * val (m0 :: m') * Wn n) by ring.
        rewrite HK.
        ring.
  Qed.
End IntoRow.

Theorem into_bigint_spec : forall m a, wf m -> wf a -> length a = length m ->
  val m mod 2 = 1 -> val a < val m ->
  let r := into_bigint m a in
  wf r /\ length r = length m /\ val r < val m /\
  (val r * Wn (length m)) mod val m = val a mod val m.
Proof.
  intros m a Hm Ha Hla Hodd Halt. cbn zeta.
  pose proof (odd_nonempty m Hodd) as Hne. destruct m as [|m0 m']; [congruence|].
  pose proof (inv_of_kills m0 m' Hm Hodd) as Hkill.
  unfold into_bigint.
  destruct (into_iter_spec m0 (inv_of (m0 :: m')) Hkill m' (length (m0 :: m')) a Hm Ha Hla Halt)
    as (Hw & Hlen & Hlt & K & HK).
  repeat split; auto; try lia. rewrite HK. apply Z.mod_add.
  pose proof (val_bound a Ha). lia.
Qed.

(* ---------- from_bigint ---------- *)
(* the constant R2 is computed by C15's montgomery_r2 (const_modulo! long division), whose
   specification val r2 = 2^(128N) mod p is a C15 obligation; here it is a premise on the value *)
Theorem from_bigint_with_spec_partial : forall (derived : bool) m r2 x, wf m -> wf r2 -> wf x ->
  length r2 = length m -> length x = length m -> val m mod 2 = 1 ->
  (if derived then nocarry_macro m else nocarry_trait m) = true ->
  val r2 = (Wn (length m) * Wn (length m)) mod val m ->
  match from_bigint_with derived m r2 x with
  | None => val m <= val x
  | Some r => val x < val m /\ wf r /\ length r = length m /\ val r < val m /\
              val r = (val x * Wn (length m)) mod val m
  end.
Proof.
  intros derived m r2 x Hm Hr2 Hx Hl2 Hlx Hodd Hrule Hv2.
  pose proof (odd_nonempty m Hodd) as Hne.
  pose proof (val_bound m Hm) as Hmb. pose proof (val_bound x Hx) as Hxb.
  assert (Hp : 0 < val m).
  { destruct (Z.eq_dec (val m) 0) as [E|]; [rewrite E in Hodd; discriminate | lia]. }
  unfold from_bigint_with. rewrite is_zero_spec by auto.
  destruct (Z.eqb_spec (val x) 0) as [Hz|Hnz].
  - repeat split; auto; try lia. rewrite Hz. reflexivity.
  - rewrite is_geq_modulus_spec by auto.
    destruct (Z.leb_spec (val m) (val x)) as [Hge|Hlt]; [exact Hge|].
    destruct (mul_assign_nocarry_branch_spec derived m x r2 Hm Hx Hr2 Hlx Hl2 Hodd Hlt Hrule)
      as (Hw & Hlen & Hrlt & Hcong).
    cbn zeta in *. set (r := mul_assign derived m x r2) in *.
    repeat split; auto.
    (* r * W = x * r2 = x * W * W (mod p), W invertible mod p  ==>  r = x * W (mod p) *)
    pose proof (val_bound r Hw) as Hrb.
    assert (Hc2 : (val r * Wn (length m)) mod val m = ((val x * Wn (length m)) mod val m * Wn (length m)) mod val m).
    { rewrite Hcong, Hv2. rewrite Zmult_mod_idemp_r, Zmult_mod_idemp_l. f_equal. ring. }
    (* cancel W: gcd(W, p) = 1 because p is odd *)
    assert (Hcop : Znumtheory.rel_prime (Wn (length m)) (val m)).
    { unfold Wn, W64. change 18446744073709551616 with (2 ^ 64). rewrite <- Z.pow_mul_r by lia.
      apply rel_prime_sym. apply rel_prime_Zpower_r; [lia|]. apply rel_prime_sym.
      apply Znumtheory.prime_rel_prime; [exact Znumtheory.prime_2|].
      intros [q Hq]. rewrite Hq in Hodd. rewrite Z.mod_mul in Hodd by lia. discriminate. }
    set (y := (val x * Wn (length m)) mod val m) in *.
    assert (Hyb : 0 <= y < val m) by (apply Z.mod_pos_bound; lia).
    assert (Hdiv : (val m | (val r - y) * Wn (length m))).
    { apply Z.mod_divide; [lia|].
      replace ((val r - y) * Wn (length m)) with (val r * Wn (length m) - y * Wn (length m)) by ring.
      rewrite Zminus_mod, Hc2, Z.sub_diag. reflexivity. }
    rewrite Z.mul_comm in Hdiv. apply Gauss in Hdiv; [|apply rel_prime_sym; exact Hcop].
    destruct Hdiv as [q Hq].
    assert (q = 0) by nia. subst q. lia.
Qed.



(* ---------- mul2 (portable branch) and double_in_place ---------- *)
Lemma lor_even_bit y b : 0 <= y -> (b = 0 \/ b = 1) -> Z.lor (2 * y) b = 2 * y + b.
Proof.
  intros Hy [->| ->].
  - rewrite Z.lor_0_r. lia.
  - destruct y as [|q|q]; [reflexivity| |lia].
    change (2 * Z.pos q) with (Z.pos q~0). reflexivity.
Qed.

Lemma mul2_limb x last : u64 x -> (last = 0 \/ last = 1) ->
  let x' := Z.lor ((Z.shiftl x 1) mod W64) last in
  let t := Z.shiftr x 63 in
  u64 x' /\ (t = 0 \/ t = 1) /\ x' + W64 * t = 2 * x + last.
Proof.
  intros Hx Hl. cbn zeta.
  rewrite Z.shiftl_mul_pow2 by lia. rewrite Z.shiftr_div_pow2 by lia.
  change (2 ^ 1) with 2. change (2 ^ 63) with 9223372036854775808.
  replace (x * 2) with (2 * x) by ring.
  replace W64 with (2 * 9223372036854775808) by reflexivity.
  rewrite Z.mul_mod_distr_l by lia.
  pose proof (Z.mod_pos_bound x 9223372036854775808 ltac:(lia)) as Hm.
  rewrite lor_even_bit by (try lia; auto).
  pose proof (Z.div_mod x 9223372036854775808 ltac:(lia)) as Hd.
  assert (Hq : 0 <= x / 9223372036854775808 <= 1).
  { split; [apply Z.div_pos; unf; lia|].
    assert (x / 9223372036854775808 < 2) by (apply Z.div_lt_upper_bound; unf; lia). lia. }
  unfold u64. replace W64 with (2 * 9223372036854775808) by reflexivity.
  repeat split; try lia.
Qed.

Lemma mul2_chain_spec : forall a last, wf a -> (last = 0 \/ last = 1) ->
  let '(r, l) := mul2_chain a last in
  wf r /\ length r = length a /\ (l = 0 \/ l = 1) /\ val r + Wn (length a) * l = 2 * val a + last.
Proof.
  induction a as [|x a IH]; intros last Ha Hl.
  - cbn [mul2_chain val length]. rewrite Wn_0. repeat split; auto using wf_nil. lia.
  - apply wf_cons in Ha as [Hx Ha]. cbn [mul2_chain].
    destruct (mul2_limb x last Hx Hl) as (Hx' & Ht & He). cbn zeta in *.
    specialize (IH (Z.shiftr x 63) Ha Ht).
    destruct (mul2_chain a (Z.shiftr x 63)) as [rs l]. destruct IH as (Hw & Hlen & Hl' & Heq).
    repeat split; auto.
    + apply wf_cons. split; auto.
    + cbn [length]. lia.
    + cbn [val length]. rewrite Wn_S. nia.
Qed.

Theorem double_in_place_spec m a : wf m -> m <> [] -> wf a -> length a = length m -> val a < val m ->
  let r := double_in_place m a in
  wf r /\ length r = length m /\ val r < val m /\ val r = (2 * val a) mod val m.
Proof.
  intros Hm Hne Ha Hla Halt. cbn zeta. unfold double_in_place, mul2.
  pose proof (mul2_chain_spec a 0 Ha ltac:(auto)) as H.
  destruct (mul2_chain a 0) as [s l]. destruct H as (Hw & Hlen & Hl & Heq).
  rewrite Hla in Heq.
  assert (Hb : Z.b2z (negb (l =? 0)) = l) by (destruct Hl as [-> | ->]; reflexivity).
  destruct (final_sub_spec m s (negb (l =? 0)) Hm Hne Hw ltac:(lia) ltac:(rewrite Hb; lia))
    as (Hrw & Hrl & Hrlt & Hrv).
  repeat split; auto. rewrite Hrv, Hb. f_equal. lia.
Qed.



(* mac_row only reads the first |ys| limbs of the accumulator *)
Lemma mac_row_prefix : forall ys a1 a2 x c, length a1 = length ys ->
  mac_row (a1 ++ a2) x ys c = mac_row a1 x ys c.
Proof.
  induction ys as [|y ys IH]; intros [|r a1] a2 x c Hl; try discriminate.
  - destruct a2; reflexivity.
  - injection Hl as Hl. cbn [mac_row app].
    destruct (mac_with_carry_m r x y c) as [v c']. rewrite IH by auto. reflexivity.
Qed.

Lemma skipn_app_exact {A} (a b : list A) n : length a = n -> skipn n (a ++ b) = b.
Proof. intros <-. rewrite skipn_app, skipn_all, Nat.sub_diag. reflexivity. Qed.

Lemma val_app_zeros l k : val (l ++ zeros k) = val l.
Proof. rewrite val_app. unfold zeros. rewrite val_repeat0. lia. Qed.

(* ---------- full product: C15 mul_rows on a zeroed 2N buffer ---------- *)
Lemma mul_rows_spec : forall xs y ys' lo, wf xs -> wf (y :: ys') -> wf lo ->
  length lo = length (y :: ys') ->
  let r := mul_rows xs (y :: ys') (lo ++ zeros (length xs)) in
  wf r /\ length r = (length lo + length xs)%nat /\
  val r = val lo + val xs * val (y :: ys').
Proof.
  induction xs as [|x xs IH]; intros y ys' lo Hxs Hys Hlo Hl; cbn zeta.
  - cbn [mul_rows length zeros repeat]. rewrite app_nil_r. cbn [val]. repeat split; auto; lia.
  - apply wf_cons in Hxs as [Hx Hxs]. set (ys := y :: ys') in *.
    cbn [mul_rows].
    rewrite mac_row_prefix by auto.
    pose proof (mac_row_spec ys lo x 0 Hys Hlo Hl Hx u64_0) as H.
    destruct (mac_row lo x ys 0) as [row c]. destruct H as (Hw & Hlen & Hc & Heq).
    rewrite (skipn_app_exact lo _ (length ys)) by auto.
    cbn [length zeros repeat set_first]. fold (zeros (length xs)).
    destruct row as [|l0 row']; [unfold ys in Hlen; discriminate|].
    cbn [app]. apply wf_cons in Hw as [Hl0 Hw'].
    assert (Hshape : row' ++ c :: zeros (length xs) = (row' ++ [c]) ++ zeros (length xs))
      by (rewrite <- app_assoc; reflexivity).
    rewrite Hshape.
    assert (Hlo2 : wf (row' ++ [c])) by (apply wf_app; split; auto; constructor; auto; constructor).
    assert (Hl2 : length (row' ++ [c]) = length ys) by (rewrite app_length; cbn [length] in *; lia).
    specialize (IH y ys' (row' ++ [c]) Hxs Hys Hlo2 Hl2). cbn zeta in IH. fold ys in IH.
    destruct IH as (Hwr & Hlr & Hvr).
    repeat split.
    + apply wf_cons. split; auto.
    + cbn [length]. rewrite Hlr, Hl2. cbn [length] in Hlen. lia.
    + subst ys. cbn [val length] in *. rewrite Hvr, val_snoc. rewrite Wn_S in Heq.
      assert (Hrl : length row' = length ys') by lia. rewrite Hrl. nia.
Qed.



Lemma adc_carry01 a b c : u64 a -> u64 b -> (c = 0 \/ c = 1) ->
  (a + b + c) / W64 = 0 \/ (a + b + c) / W64 = 1.
Proof.
  intros Ha Hb Hc.
  assert (0 <= (a + b + c) / W64) by (apply Z.div_pos; unf; lia).
  assert ((a + b + c) / W64 < 2) by (apply Z.div_lt_upper_bound; unf; lia). lia.
Qed.

Section Red.
  Variables (m0 inv : Z) (m' : list Z).
  Hypothesis Hkill : forall x, (x + ((x * inv) mod W64) * m0) mod W64 = 0.
  Let m := m0 :: m'.
  Hypothesis Hm : wf m.
  Let N := length m.

  (* one reduction row: the window moves up one limb, value is divided exactly by 2^64 *)
  Lemma red_rows_spec : forall n buf carry2, wf buf -> length buf = (N + n)%nat ->
    (carry2 = 0 \/ carry2 = 1) ->
    let '(hi, c2) := red_rows n m inv buf carry2 in
    wf hi /\ length hi = N /\ (c2 = 0 \/ c2 = 1) /\
    exists K, 0 <= K < Wn n /\
      Wn n * (val hi + Wn N * c2) = val buf + Wn N * carry2 + K * val m.
  Proof.
    induction n as [|n IH]; intros buf carry2 Hbuf Hlen Hc2.
    - cbn [red_rows]. rewrite Wn_0. repeat split; auto; try lia. exists 0. lia.
    - cbn [red_rows]. destruct buf as [|s0 buf']; [unfold N, m in Hlen; cbn [length] in Hlen; lia|].
      apply wf_cons in Hbuf as [Hs0 Hbuf']. unfold m at 1.
      pose proof Hm as Hm2. unfold m in Hm2. apply wf_cons in Hm2 as [Hm0 Hm'].
      set (tmp := (s0 * inv) mod W64). assert (Htmp : u64 tmp) by apply mod_u64.
      rewrite mac_spec by auto.
      assert (Hc : u64 ((s0 + tmp * m0) / W64)).
      { replace (s0 + tmp * m0) with (s0 + tmp * m0 + 0) by ring. apply mac_carry_u64; auto using u64_0. }
      (* split the rest of the window: N-1 limbs touched by the row, then h, then the rest *)
      assert (Hlb : length buf' = (length m' + S n)%nat).
      { unfold N, m in Hlen. cbn [length] in Hlen. lia. }
      assert (Hex : exists mid h rest, buf' = mid ++ h :: rest /\ length mid = length m' /\ length rest = n).
      { exists (firstn (length m') buf'). destruct (skipn (length m') buf') as [|h rest] eqn:Esk.
        - exfalso. pose proof (f_equal (@length Z) Esk) as E. rewrite skipn_length in E. cbn [length] in E. lia.
        - exists h, rest. split; [rewrite <- Esk; symmetry; apply firstn_skipn|].
          split; [rewrite firstn_length; lia|].
          pose proof (f_equal (@length Z) Esk) as E. rewrite skipn_length in E. cbn [length] in E. lia. }
      destruct Hex as (mid & h & rest & -> & Hlmid & Hlrest).
      apply wf_app in Hbuf' as [Hmid Htl]. apply wf_cons in Htl as [Hh Hrest].
      rewrite mac_row_prefix by auto. rewrite (skipn_app_exact mid _ (length m')) by auto.
      pose proof (mac_row_spec m' mid tmp _ Hm' Hmid Hlmid Htmp Hc) as H.
      destruct (mac_row mid tmp m' _) as [row c']. destruct H as (Hrow & Hlrow & Hc' & Heq).
      assert (Hc2u : u64 carry2) by (destruct Hc2 as [-> | ->]; unf; lia).
      rewrite adc_spec by auto.
      pose proof (adc_carry01 h c' carry2 Hh Hc' Hc2) as Hc2'.
      assert (Hnb : wf (row ++ (h + c' + carry2) mod W64 :: rest)).
      { apply wf_app. split; auto. apply wf_cons. split; auto using mod_u64. }
      assert (Hnl : length (row ++ (h + c' + carry2) mod W64 :: rest) = (N + n)%nat).
      { rewrite app_length. cbn [length] in *. unfold N, m. cbn [length]. lia. }
      specialize (IH _ _ Hnb Hnl Hc2').
      destruct (red_rows n m inv _ _) as [hi c2]. destruct IH as (Hhi & Hlhi & Hc2f & K & HK & HE).
      repeat split; auto.
      exists (tmp + W64 * K). split.
      { rewrite Wn_S. unfold u64 in Htmp. assert (0 < W64) by reflexivity. nia. }
      rewrite Wn_S.
      replace (W64 * Wn n * (val hi + Wn N * c2)) with (W64 * (Wn n * (val hi + Wn N * c2))) by ring.
      rewrite HE.
      (* value bookkeeping *)
      assert (Hlow : (s0 + tmp * m0) mod W64 = 0) by (unfold tmp; apply Hkill).
      pose proof (divmod_eq (s0 + tmp * m0)) as E1. rewrite Hlow in E1.
      pose proof (divmod_eq (h + c' + carry2)) as E2.
      rewrite val_app. cbn [val]. rewrite Hlrow.
      rewrite val_app. cbn [val]. rewrite Hlmid.
      assert (HN : Wn N = W64 * Wn (length m')) by (unfold N, m; cbn [length]; apply Wn_S).
      rewrite HN. unfold m. cbn [val].
      set (Wk := Wn (length m')) in *.
      set (q1 := (s0 + tmp * m0) / W64) in *. set (q2 := (h + c' + carry2) / W64) in *.
      set (v := (h + c' + carry2) mod W64) in *.
      nia.
  Qed.
End Red.



Lemma zeros_add a b : zeros (a + b) = zeros a ++ zeros b.
Proof. unfold zeros. apply repeat_app. Qed.

(* ---------- plain CIOS (full product + Montgomery reduction + carry-aware subtraction) ---------- *)
Theorem mul_cios_spec : forall m a b, wf m -> wf a -> wf b ->
  length a = length m -> length b = length m ->
  val m mod 2 = 1 -> val a < val m -> val b < val m ->
  let r := mul_cios m a b in
  wf r /\ length r = length m /\ val r < val m /\
  (val r * Wn (length m)) mod val m = (val a * val b) mod val m.
Proof.
  intros m a b Hm Ha Hb Hla Hlb Hodd Halt Hblt. cbn zeta.
  pose proof (odd_nonempty m Hodd) as Hne. destruct m as [|m0 m']; [congruence|].
  pose proof (inv_of_kills m0 m' Hm Hodd) as Hkill.
  set (m := m0 :: m') in *. set (N := length m) in *.
  unfold mul_cios, mul_without_cond_subtract. fold N.
  destruct b as [|y ys']; [unfold N, m in Hlb; discriminate|].
  assert (Hz : zeros (N + N) = zeros N ++ zeros (length a)) by (rewrite Hla; apply zeros_add).
  rewrite Hz.
  destruct (mul_rows_spec a y ys' (zeros N) Ha Hb (wf_zeros N) ltac:(rewrite length_zeros; lia))
    as (Hpw & Hpl & Hpv).
  cbn zeta in *. set (prod := mul_rows a (y :: ys') (zeros N ++ zeros (length a))) in *.
  rewrite val_zeros, length_zeros, Z.add_0_l in *.
  pose proof (red_rows_spec m0 (inv_of m) m' Hkill Hm N prod 0 Hpw ltac:(fold m; fold N; lia) ltac:(auto)) as H.
  fold m in H. destruct (red_rows N m (inv_of m) prod 0) as [hi c2].
  fold N in H. destruct H as (Hhi & Hlhi & Hc2 & K & HK & HE).
  assert (Hb2 : Z.b2z (negb (c2 =? 0)) = c2) by (destruct Hc2 as [-> | ->]; reflexivity).
  pose proof (val_bound a Ha) as Hab. pose proof (val_bound (y :: ys') Hb) as Hbb.
  pose proof (val_bound m Hm) as Hmb. fold N in Hmb. pose proof (Wn_pos N) as HW.
  pose proof (val_bound hi Hhi) as Hhb.
  assert (HT : val hi + Wn N * c2 < 2 * val m).
  { rewrite Hpv, Z.mul_0_r, Z.add_0_r in HE.
    assert (val a * val (y :: ys') < val m * Wn N) by nia.
    assert (K * val m < Wn N * val m) by nia.
    nia. }
  destruct (final_sub_spec m hi (negb (c2 =? 0)) Hm Hne Hhi Hlhi ltac:(fold N; rewrite Hb2; lia))
    as (Hrw & Hrl & Hrlt & Hrv).
  cbn zeta in *. fold N in Hrv. rewrite Hb2 in Hrv.
  repeat split; auto.
  rewrite Hrv, Zmult_mod_idemp_l.
  replace ((val hi + Wn N * c2) * Wn N) with (Wn N * (val hi + Wn N * c2)) by ring.
  rewrite HE, Hpv, Z.mul_0_r, Z.add_0_r. apply Z.mod_add. lia.
Qed.

(* mul_assign, both flavours, every modulus shape *)
Theorem mul_assign_spec : forall (derived : bool) m a b, wf m -> wf a -> wf b ->
  length a = length m -> length b = length m ->
  val m mod 2 = 1 -> val a < val m -> val b < val m ->
  let r := mul_assign derived m a b in
  wf r /\ length r = length m /\ val r < val m /\
  (val r * Wn (length m)) mod val m = (val a * val b) mod val m.
Proof.
  intros derived m a b Hm Ha Hb Hla Hlb Hodd Halt Hblt.
  destruct (if derived then nocarry_macro m else nocarry_trait m) eqn:Hrule.
  - apply mul_assign_nocarry_branch_spec; auto.
  - cbn zeta. unfold mul_assign. rewrite Hrule. apply mul_cios_spec; auto.
Qed.

(* cancelling R = 2^(64N) modulo an odd p *)
Lemma mont_cancel m x y : wf m -> val m mod 2 = 1 -> 0 <= x < val m -> 0 <= y < val m ->
  (x * Wn (length m)) mod val m = (y * Wn (length m)) mod val m -> x = y.
Proof.
  intros Hm Hodd Hx Hy Hc.
  assert (Hcop : rel_prime (Wn (length m)) (val m)).
  { unfold Wn, W64. change 18446744073709551616 with (2 ^ 64). rewrite <- Z.pow_mul_r by lia.
    apply rel_prime_sym. apply rel_prime_Zpower_r; [lia|]. apply rel_prime_sym.
    apply prime_rel_prime; [exact prime_2|].
    intros [q Hq]. rewrite Hq in Hodd. rewrite Z.mod_mul in Hodd by lia. discriminate. }
  assert (Hdiv : (val m | (x - y) * Wn (length m))).
  { apply Z.mod_divide; [lia|].
    replace ((x - y) * Wn (length m)) with (x * Wn (length m) - y * Wn (length m)) by ring.
    rewrite Zminus_mod, Hc, Z.sub_diag. reflexivity. }
  rewrite Z.mul_comm in Hdiv. apply Gauss in Hdiv; [|apply rel_prime_sym; exact Hcop].
  destruct Hdiv as [q Hq]. assert (q = 0) by nia. subst q. lia.
Qed.

(* from_bigint for every odd modulus and both flavours (R2 still a premise on the value) *)
Theorem from_bigint_with_spec : forall (derived : bool) m r2 x, wf m -> wf r2 -> wf x ->
  length r2 = length m -> length x = length m -> val m mod 2 = 1 ->
  val r2 = (Wn (length m) * Wn (length m)) mod val m ->
  match from_bigint_with derived m r2 x with
  | None => val m <= val x
  | Some r => val x < val m /\ wf r /\ length r = length m /\ val r < val m /\
              val r = (val x * Wn (length m)) mod val m
  end.
Proof.
  intros derived m r2 x Hm Hr2 Hx Hl2 Hlx Hodd Hv2.
  pose proof (val_bound m Hm) as Hmb. pose proof (val_bound x Hx) as Hxb.
  assert (Hp : 0 < val m).
  { destruct (Z.eq_dec (val m) 0) as [E|]; [rewrite E in Hodd; discriminate | lia]. }
  unfold from_bigint_with. rewrite is_zero_spec by auto.
  destruct (Z.eqb_spec (val x) 0) as [Hz|Hnz].
  - repeat split; auto; try lia. rewrite Hz. reflexivity.
  - rewrite is_geq_modulus_spec by auto.
    destruct (Z.leb_spec (val m) (val x)) as [Hge|Hlt]; [exact Hge|].
    assert (Hr2lt : val r2 < val m) by (rewrite Hv2; apply Z.mod_pos_bound; lia).
    destruct (mul_assign_spec derived m x r2 Hm Hx Hr2 Hlx Hl2 Hodd Hlt Hr2lt)
      as (Hw & Hlen & Hrlt & Hcong).
    cbn zeta in *. set (r := mul_assign derived m x r2) in *.
    repeat split; auto.
    pose proof (val_bound r Hw) as Hrb.
    apply (mont_cancel m); auto; try lia.
    + apply Z.mod_pos_bound; lia.
    + rewrite Hcong, Hv2. rewrite Zmult_mod_idemp_r, Zmult_mod_idemp_l. f_equal. ring.
Qed.

(* round trip: into_bigint (from_bigint x) = x *)
Theorem into_from_roundtrip : forall (derived : bool) m r2 x r, wf m -> wf r2 -> wf x ->
  length r2 = length m -> length x = length m -> val m mod 2 = 1 ->
  val r2 = (Wn (length m) * Wn (length m)) mod val m ->
  from_bigint_with derived m r2 x = Some r ->
  into_bigint m r = x.
Proof.
  intros derived m r2 x r Hm Hr2 Hx Hl2 Hlx Hodd Hv2 Hf.
  pose proof (from_bigint_with_spec derived m r2 x Hm Hr2 Hx Hl2 Hlx Hodd Hv2) as H.
  rewrite Hf in H. destruct H as (Hxlt & Hw & Hlen & Hrlt & Hv).
  destruct (into_bigint_spec m r Hm Hw Hlen Hodd Hrlt) as (Hiw & Hil & Hilt & Hic).
  cbn zeta in *. pose proof (val_bound x Hx). pose proof (val_bound _ Hiw).
  apply val_inj; auto; try lia.
  apply (mont_cancel m); auto; try lia.
  rewrite Hic, Hv. rewrite Z.mod_mod by lia. reflexivity.
Qed.


(* ---------- standard form: into_bigint is a ring homomorphism onto Z_p ---------- *)
Section Std.
  Variable m : list Z.
  Hypothesis Hm : wf m.
  Hypothesis Hodd : val m mod 2 = 1.
  Let p := val m.
  Let W := Wn (length m).
  Definition std (a : list Z) : Z := val (into_bigint m a).

  Lemma p_pos : 0 < p.
  Proof.
    pose proof (val_bound m Hm). unfold p.
    destruct (Z.eq_dec (val m) 0) as [E|]; [rewrite E in Hodd; discriminate | lia].
  Qed.

  Lemma std_val a : wf a -> length a = length m -> val a < p ->
    0 <= std a < p /\ val a = (std a * W) mod p.
  Proof.
    intros Ha Hl Hlt. destruct (into_bigint_spec m a Hm Ha Hl Hodd Hlt) as (Hw & Hlen & Hilt & Hc).
    cbn zeta in *. pose proof (val_bound _ Hw). pose proof (val_bound a Ha).
    unfold std. split; [unfold p; lia|]. fold W p in Hc. rewrite Hc. symmetry. apply Z.mod_small. unfold p; lia.
  Qed.

  Lemma std_unique a z : wf a -> length a = length m -> val a < p ->
    val a = (z * W) mod p -> std a = z mod p.
  Proof.
    intros Ha Hl Hlt Hz. destruct (std_val a Ha Hl Hlt) as [Hb Hv].
    pose proof p_pos as Hp.
    apply (mont_cancel m); auto; fold p; try lia.
    - apply Z.mod_pos_bound; lia.
    - fold W. rewrite <- Hv, Hz. rewrite Zmult_mod_idemp_l. reflexivity.
  Qed.

  Theorem std_add a b : wf a -> wf b -> length a = length m -> length b = length m ->
    val a < p -> val b < p -> std (add_assign m a b) = (std a + std b) mod p.
  Proof.
    intros Ha Hb Hla Hlb Halt Hblt. pose proof p_pos as Hp.
    assert (Hne : m <> []) by (apply odd_nonempty; auto).
    destruct (add_assign_spec m a b Hm Hne Ha Hb Hla Hlb Halt Hblt) as (Hw & Hl & Hlt & Hv).
    destruct (std_val a Ha Hla Halt) as [_ Ea]. destruct (std_val b Hb Hlb Hblt) as [_ Eb].
    apply std_unique; auto. cbn zeta in Hv. rewrite Hv. fold p. rewrite Ea at 1. rewrite Eb at 1.
    rewrite <- Zplus_mod. f_equal. ring.
  Qed.

  Theorem std_sub a b : wf a -> wf b -> length a = length m -> length b = length m ->
    val a < p -> val b < p -> std (sub_assign m a b) = (std a - std b) mod p.
  Proof.
    intros Ha Hb Hla Hlb Halt Hblt. pose proof p_pos as Hp.
    destruct (sub_assign_spec m a b Hm Ha Hb Hla Hlb Halt Hblt) as (Hw & Hl & Hlt & Hv).
    destruct (std_val a Ha Hla Halt) as [_ Ea]. destruct (std_val b Hb Hlb Hblt) as [_ Eb].
    apply std_unique; auto. cbn zeta in Hv. rewrite Hv. fold p. rewrite Ea at 1. rewrite Eb at 1.
    rewrite <- Zminus_mod. f_equal. ring.
  Qed.

  Theorem std_neg a : wf a -> length a = length m -> val a < p ->
    std (neg_in_place m a) = (- std a) mod p.
  Proof.
    intros Ha Hla Halt. pose proof p_pos as Hp.
    destruct (neg_in_place_spec m a Hm Ha Hla Halt) as (Hw & Hl & Hlt & Hv).
    destruct (std_val a Ha Hla Halt) as [_ Ea].
    apply std_unique; auto. cbn zeta in Hv. rewrite Hv. fold p. rewrite Ea at 1.
    replace (- ((std a * W) mod p)) with (0 - (std a * W) mod p) by ring.
    rewrite Zminus_mod_idemp_r. f_equal. ring.
  Qed.

  Theorem std_double a : wf a -> length a = length m -> val a < p ->
    std (double_in_place m a) = (2 * std a) mod p.
  Proof.
    intros Ha Hla Halt. pose proof p_pos as Hp.
    assert (Hne : m <> []) by (apply odd_nonempty; auto).
    destruct (double_in_place_spec m a Hm Hne Ha Hla Halt) as (Hw & Hl & Hlt & Hv).
    destruct (std_val a Ha Hla Halt) as [_ Ea].
    apply std_unique; auto. cbn zeta in Hv. rewrite Hv. fold p. rewrite Ea at 1.
    rewrite Zmult_mod_idemp_r. f_equal. ring.
  Qed.

  Theorem std_mul (derived : bool) a b : wf a -> wf b -> length a = length m -> length b = length m ->
    val a < p -> val b < p -> std (mul_assign derived m a b) = (std a * std b) mod p.
  Proof.
    intros Ha Hb Hla Hlb Halt Hblt. pose proof p_pos as Hp.
    destruct (mul_assign_spec derived m a b Hm Ha Hb Hla Hlb Hodd Halt Hblt) as (Hw & Hl & Hlt & Hc).
    destruct (std_val a Ha Hla Halt) as [_ Ea]. destruct (std_val b Hb Hlb Hblt) as [_ Eb].
    cbn zeta in *. set (r := mul_assign derived m a b) in *. pose proof (val_bound r Hw) as Hrb.
    apply std_unique; auto.
    apply (mont_cancel m); auto; fold p; try lia.
    - apply Z.mod_pos_bound; lia.
    - fold W. fold W p in Hc. rewrite Hc. rewrite Ea at 1. rewrite Eb at 1.
      rewrite <- Zmult_mod. rewrite Zmult_mod_idemp_l. f_equal. ring.
  Qed.

  (* from_bigint is the inverse of into_bigint: std (from_bigint x) = x *)
  Theorem std_from_bigint (derived : bool) r2 x r : wf r2 -> wf x ->
    length r2 = length m -> length x = length m ->
    val r2 = (W * W) mod p ->
    from_bigint_with derived m r2 x = Some r -> std r = val x /\ val x < p.
  Proof.
    intros Hr2 Hx Hl2 Hlx Hv2 Hf.
    pose proof (into_from_roundtrip derived m r2 x r Hm Hr2 Hx Hl2 Hlx Hodd Hv2 Hf) as E.
    pose proof (from_bigint_with_spec derived m r2 x Hm Hr2 Hx Hl2 Hlx Hodd Hv2) as H.
    rewrite Hf in H. unfold std. rewrite E. split; [reflexivity | unfold p; tauto].
  Qed.
End Std.



(* ---------- R and R2: C15's const_modulo! long division ---------- *)
Fixpoint bits_val (bit : nat -> bool) (i : nat) : Z :=
  match i with O => 0 | S j => Z.b2z (bit j) * 2 ^ Z.of_nat j + bits_val bit j end.

Lemma lor_even x b : 0 <= x -> x mod 2 = 0 -> (b = 0 \/ b = 1) -> Z.lor x b = x + b.
Proof.
  intros Hx He Hb. pose proof (Z.div_mod x 2 ltac:(lia)) as Hd. rewrite He, Z.add_0_r in Hd.
  rewrite Hd at 1. rewrite lor_even_bit; auto; [lia|]. apply Z.div_pos; lia.
Qed.

(* the low limb after mul2 is even *)
Lemma mul2_chain_even : forall a, wf a ->
  match fst (mul2_chain a 0) with [] => True | x :: _ => x mod 2 = 0 end.
Proof.
  intros [|x a] Ha; [exact I|]. apply wf_cons in Ha as [Hx Ha]. cbn [mul2_chain].
  destruct (mul2_limb x 0 Hx ltac:(auto)) as (Hx' & Ht & He). cbn zeta in *.
  destruct (mul2_chain a (Z.shiftr x 63)) as [rs l]. cbn [fst].
  assert (E : Z.lor (Z.shiftl x 1 mod W64) 0 = 2 * x - W64 * Z.shiftr x 63) by lia.
  rewrite E. replace (2 * x - W64 * Z.shiftr x 63) with (0 + (x - 9223372036854775808 * Z.shiftr x 63) * 2)
    by (unfold W64; ring).
  rewrite Z.mod_add by lia. reflexivity.
Qed.

Lemma b2z_01 b : Z.b2z b = 0 \/ Z.b2z b = 1. Proof. destruct b; auto. Qed.

Lemma const_modulo_loop_spec : forall bit d, wf d -> 0 < val d ->
  forall i rem, wf rem -> length rem = length d -> val rem < val d ->
  exists r, const_modulo_loop bit i rem d = Some r /\ wf r /\ length r = length d /\
    val r = (val rem * 2 ^ Z.of_nat i + bits_val bit i) mod val d.
Proof.
  intros bit d Hd Hpos. induction i as [|j IH]; intros rem Hrem Hl Hlt.
  - exists rem. cbn [const_modulo_loop bits_val]. repeat split; auto.
    pose proof (val_bound rem Hrem). rewrite Z.pow_0_r, Z.mul_1_r, Z.add_0_r. symmetry. apply Z.mod_small. lia.
  - cbn [const_modulo_loop]. unfold mul2.
    pose proof (mul2_chain_spec rem 0 Hrem ltac:(auto)) as H.
    pose proof (mul2_chain_even rem Hrem) as Hev.
    destruct (mul2_chain rem 0) as [r1 l]. cbn [fst] in Hev. destruct H as (Hw1 & Hl1 & Hl01 & Heq1).
    set (b := Z.b2z (bit j)). pose proof (b2z_01 (bit j)) as Hb. fold b in Hb.
    set (r2 := match r1 with [] => [] | x :: t => Z.lor x b :: t end).
    assert (Hr2 : wf r2 /\ length r2 = length r1 /\ val r2 = val r1 + b).
    { unfold r2. destruct r1 as [|x t].
      - exfalso. destruct d; [cbn in Hpos; lia|]. cbn [length] in *. lia.
      - apply wf_cons in Hw1 as [Hx Ht]. unfold u64 in Hx.
        rewrite lor_even by (auto; lia). split; [|split; [reflexivity | cbn [val]; ring]].
        apply wf_cons. split; auto. unfold u64.
        assert (x <> W64 - 1).
        { intros E. rewrite E in Hev. vm_compute in Hev. discriminate. }
        lia. }
    destruct Hr2 as (Hw2 & Hl2 & Hv2).
    pose proof (val_bound rem Hrem) as Hrb. pose proof (val_bound d Hd) as Hdb.
    pose proof (val_bound r2 Hw2) as Hr2b. rewrite Hl2, Hl1, Hl in Hr2b. rewrite Hl in Heq1.
    pose proof (Wn_pos (length d)) as HW.
    remember (negb (l =? 0)) as c eqn:Ec0.
    assert (Hc : Z.b2z c = l) by (subst c; destruct Hl01 as [-> | ->]; reflexivity).
    (* true value x = 2*rem + bit = val r2 + W * l < 2d *)
    assert (Hx : val r2 + Wn (length d) * l = 2 * val rem + b) by lia.
    assert (Hmod : forall r3, val r3 < val d -> 0 <= val r3 ->
               (val r3 - (2 * val rem + b)) mod val d = 0 ->
               (val r3 * 2 ^ Z.of_nat j + bits_val bit j) mod val d =
               (val rem * 2 ^ Z.of_nat (S j) + bits_val bit (S j)) mod val d).
    { intros r3 _ _ Hz. cbn [bits_val]. fold b. rewrite Nat2Z.inj_succ, Z.pow_succ_r by lia.
      apply Z.mod_divide in Hz; [|lia]. destruct Hz as [q Hq].
      replace (val r3) with (2 * val rem + b + q * val d) by lia.
      replace ((2 * val rem + b + q * val d) * 2 ^ Z.of_nat j + bits_val bit j)
        with (val rem * (2 * 2 ^ Z.of_nat j) + (b * 2 ^ Z.of_nat j + bits_val bit j) + (q * 2 ^ Z.of_nat j) * val d) by ring.
      apply Z.mod_add. lia. }
    change (const_geq r2 d) with (is_geq_modulus d r2).
    rewrite is_geq_modulus_spec by (auto; lia).
    destruct (Z.leb_spec (val d) (val r2)) as [Hge|Hlt2]; cbn [orb].
    + (* no carry possible here unless ... both handled by the borrow test *)
      pose proof (sub_with_borrow_spec r2 d Hw2 Hd ltac:(lia)) as Hs.
      pose proof (sub_with_borrow_mod r2 d Hw2 Hd ltac:(lia)) as [_ Hbw].
      destruct (sub_with_borrow r2 d) as [r3 borrow]. destruct Hs as (Hw3 & Hl3 & Heq3). cbn [snd] in Hbw.
      assert (Hbf : borrow = false) by (rewrite Hbw; apply Z.ltb_ge; lia). clear Hbw. subst borrow. cbn [Z.b2z] in Heq3.
      assert (Hl0 : l = 0) by (destruct Hl01 as [-> | ->]; [reflexivity | exfalso; nia]).
      rewrite Hl0, Z.mul_0_r, Z.add_0_r in Hx.
      assert (Hcf : c = false) by (rewrite Ec0, Hl0; reflexivity).
      rewrite Hcf. cbn [Bool.eqb].
      destruct (IH r3 Hw3 ltac:(lia) ltac:(lia)) as (r & Hr & Hwr & Hlr & Hvr).
      exists r. repeat split; auto. rewrite Hvr. pose proof (val_bound r3 Hw3). apply Hmod; try lia.
      replace (val r3 - (2 * val rem + b)) with ((-1) * val d) by lia. apply Z.mod_mul. lia.
    + destruct c eqn:Ec.
      * (* carry out of mul2: wrapped subtraction *)
        assert (Hl1' : l = 1) by (rewrite <- Hc; reflexivity). rewrite Hl1', Z.mul_1_r in Hx.
        pose proof (sub_with_borrow_spec r2 d Hw2 Hd ltac:(lia)) as Hs.
        pose proof (sub_with_borrow_mod r2 d Hw2 Hd ltac:(lia)) as [_ Hbw].
        destruct (sub_with_borrow r2 d) as [r3 borrow]. destruct Hs as (Hw3 & Hl3 & Heq3). cbn [snd] in Hbw.
        assert (Hbt : borrow = true) by (rewrite Hbw; apply Z.ltb_lt; lia). clear Hbw. subst borrow. cbn [Z.b2z Bool.eqb] in *.
        rewrite Hl2, Hl1, Hl in Heq3.
        destruct (IH r3 Hw3 ltac:(lia) ltac:(nia)) as (r & Hr & Hwr & Hlr & Hvr).
        exists r. repeat split; auto. rewrite Hvr. pose proof (val_bound r3 Hw3). apply Hmod; try lia.
        replace (val r3 - (2 * val rem + b)) with ((-1) * val d) by lia. apply Z.mod_mul. lia.
      * assert (Hl0 : l = 0) by (rewrite <- Hc; reflexivity). rewrite Hl0, Z.mul_0_r, Z.add_0_r in Hx.
        destruct (IH r2 Hw2 ltac:(lia) ltac:(lia)) as (r & Hr & Hwr & Hlr & Hvr).
        exists r. repeat split; auto. rewrite Hvr. apply Hmod; try lia.
        replace (val r2 - (2 * val rem + b)) with 0 by lia. reflexivity.
Qed.

Lemma bits_val_single k : forall n, bits_val (fun i => Nat.eqb i k) n = if (k <? n)%nat then 2 ^ Z.of_nat k else 0.
Proof.
  induction n as [|n IH]; [reflexivity|]. cbn [bits_val]. rewrite IH.
  destruct (Nat.eqb_spec n k) as [->|Hne].
  - rewrite Nat.ltb_irrefl. replace (k <? S k)%nat with true by (symmetry; apply Nat.ltb_lt; lia).
    cbn [Z.b2z]. lia.
  - cbn [Z.b2z]. destruct (Nat.ltb_spec k n), (Nat.ltb_spec k (S n)); lia.
Qed.

Lemma Wn_pow2 n : Wn n = 2 ^ (64 * Z.of_nat n).
Proof. unfold Wn, W64. change 18446744073709551616 with (2 ^ 64). rewrite <- Z.pow_mul_r by lia. reflexivity. Qed.

Lemma is_zero_false_pos m : wf m -> is_zero m = false -> 0 < val m.
Proof.
  intros Hm H. rewrite is_zero_spec in H by auto. apply Z.eqb_neq in H.
  pose proof (val_bound m Hm). lia.
Qed.

Theorem R2_of_spec m : wf m -> 0 < val m ->
  wf (R2_of m) /\ length (R2_of m) = length m /\
  val (R2_of m) = (Wn (length m) * Wn (length m)) mod val m.
Proof.
  intros Hm Hp. unfold R2_of, montgomery_r2.
  assert (Hz : is_zero m = false).
  { rewrite is_zero_spec by auto. apply Z.eqb_neq. lia. }
  rewrite Hz.
  destruct (const_modulo_loop_spec (fun i => Nat.eqb i (128 * length m)) m Hm Hp (128 * length m + 1)
              (zeros (length m)) (wf_zeros _) (length_zeros _) ltac:(rewrite val_zeros; lia))
    as (r & Hr & Hw & Hl & Hv).
  rewrite Hr. repeat split; auto. rewrite Hv, val_zeros, Z.mul_0_l, Z.add_0_l, bits_val_single.
  replace (128 * length m <? 128 * length m + 1)%nat with true by (symmetry; apply Nat.ltb_lt; lia).
  f_equal. rewrite !Wn_pow2, <- Z.pow_add_r by lia. f_equal. lia.
Qed.

Theorem R_of_spec m : wf m -> 0 < val m ->
  wf (R_of m) /\ length (R_of m) = length m /\ val (R_of m) = Wn (length m) mod val m.
Proof.
  intros Hm Hp. unfold R_of, montgomery_r.
  assert (Hz : is_zero m = false).
  { rewrite is_zero_spec by auto. apply Z.eqb_neq. lia. }
  rewrite Hz.
  destruct (const_modulo_loop_spec (fun i => Nat.eqb i (64 * length m)) m Hm Hp (64 * length m + 1)
              (zeros (length m)) (wf_zeros _) (length_zeros _) ltac:(rewrite val_zeros; lia))
    as (r & Hr & Hw & Hl & Hv).
  rewrite Hr. repeat split; auto. rewrite Hv, val_zeros, Z.mul_0_l, Z.add_0_l, bits_val_single.
  replace (64 * length m <? 64 * length m + 1)%nat with true by (symmetry; apply Nat.ltb_lt; lia).
  f_equal. rewrite Wn_pow2. f_equal. lia.
Qed.


Lemma odd_pos m : wf m -> val m mod 2 = 1 -> 0 < val m.
Proof.
  intros Hm Hodd. pose proof (val_bound m Hm).
  destruct (Z.eq_dec (val m) 0) as [E|]; [rewrite E in Hodd; discriminate | lia].
Qed.

(* from_bigint with the modelled constant R2: None iff x >= p, else the canonical x*R mod p *)
Theorem from_bigint_spec : forall (derived : bool) m x, wf m -> wf x -> length x = length m ->
  val m mod 2 = 1 ->
  match from_bigint derived m x with
  | None => val m <= val x
  | Some r => val x < val m /\ wf r /\ length r = length m /\ val r < val m /\
              val r = (val x * Wn (length m)) mod val m
  end.
Proof.
  intros derived m x Hm Hx Hlx Hodd. unfold from_bigint.
  destruct (R2_of_spec m Hm (odd_pos m Hm Hodd)) as (Hw & Hl & Hv).
  apply from_bigint_with_spec; auto.
Qed.

Theorem from_into_roundtrip : forall (derived : bool) m x r, wf m -> wf x -> length x = length m ->
  val m mod 2 = 1 -> from_bigint derived m x = Some r -> into_bigint m r = x.
Proof.
  intros derived m x r Hm Hx Hlx Hodd Hf. unfold from_bigint in Hf.
  destruct (R2_of_spec m Hm (odd_pos m Hm Hodd)) as (Hw & Hl & Hv).
  eapply into_from_roundtrip; eauto.
Qed.

(* into_bigint then from_bigint is the identity on canonical elements *)
Theorem into_from_bigint : forall (derived : bool) m a, wf m -> wf a -> length a = length m ->
  val m mod 2 = 1 -> val a < val m -> from_bigint derived m (into_bigint m a) = Some a.
Proof.
  intros derived m a Hm Ha Hla Hodd Halt.
  destruct (into_bigint_spec m a Hm Ha Hla Hodd Halt) as (Hw & Hl & Hlt & Hc). cbn zeta in *.
  pose proof (from_bigint_spec derived m (into_bigint m a) Hm Hw Hl Hodd) as H.
  destruct (from_bigint derived m (into_bigint m a)) as [r|]; [|lia].
  destruct H as (_ & Hrw & Hrl & Hrlt & Hrv). f_equal.
  pose proof (val_bound a Ha). pose proof (val_bound r Hrw).
  apply val_inj; auto; try lia. rewrite Hrv, Hc. apply Z.mod_small. lia.
Qed.

(* ONE = R: its standard value is 1 *)
Theorem std_one : forall m, wf m -> val m mod 2 = 1 -> 1 < val m -> std m (R_of m) = 1.
Proof.
  intros m Hm Hodd Hgt. destruct (R_of_spec m Hm ltac:(lia)) as (Hw & Hl & Hv).
  transitivity (1 mod val m); [|apply Z.mod_small; lia].
  apply std_unique; auto.
  - rewrite Hv. apply Z.mod_pos_bound. lia.
  - rewrite Hv. f_equal. ring.
Qed.

Theorem std_from_bigint_full : forall (derived : bool) m x r, wf m -> wf x -> length x = length m ->
  val m mod 2 = 1 -> from_bigint derived m x = Some r -> std m r = val x.
Proof.
  intros derived m x r Hm Hx Hlx Hodd Hf. unfold std.
  rewrite (from_into_roundtrip derived m x r Hm Hx Hlx Hodd Hf). reflexivity.
Qed.

Theorem square_N1 : forall (derived : bool) m a, length m = 1%nat ->
  square_in_place derived m a = mul_assign derived m a a.
Proof. intros derived m a H. unfold square_in_place. rewrite H. reflexivity. Qed.
