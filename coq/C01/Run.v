(* Uniform case interpreter for the C01 model.
   args: a0 = [cfg_id; flavour] (flavour 0 = #[derive(MontConfig)], 1 = hand-written impl
   inheriting the trait defaults), a1 = modulus limbs, a2.. = operands.
   A field element is passed as raw Montgomery limbs and returned as two lists:
   raw Montgomery limbs, then standard-form limbs (into_bigint). *)
From V Require Import Base.Word C15.GenArith C15.BigIntModel C01.InvModel C01.MontModel C01.Batch.

Definition ok (r : list (list Z)) : list (list Z) := [0] :: r.
Definition err (k : Z) : list (list Z) := [[1; k]].
Definition panic : list (list Z) := [[2]].
Definition unsupported : list (list Z) := [[9]].

Definition arg (n : nat) (a : list (list Z)) : list Z := nth n a [].
Definition arg0 (n : nat) (a : list (list Z)) : Z := hd 0 (arg n a).

Definition elem (m x : list Z) : list (list Z) := [x; into_bigint m x].
Definition opt_elem (m : list Z) (o : option (list Z)) : list (list Z) :=
  match o with Some x => ok (elem m x) | None => panic end.

Definition split_elems (N : nat) (l : list Z) : list (list Z) := chunks_of (S (length l)) N l.

Definition run_C01 (op : Z) (a : list (list Z)) : list (list Z) :=
  let d := nth 1 (arg 0 a) 0 =? 0 in
  let m := arg 1 a in
  let N := length m in
  let x := arg 2 a in
  let y := arg 3 a in
  match op with
  | 1 => ok [m; R_of m; R2_of m; [inv_of m];
             [Z.b2z (has_spare_bit m); Z.b2z (nocarry_trait m); const_num_bits m]; R_of m]
  | 2 => ok (elem m (add_assign m x y))
  | 3 => ok (elem m (sub_assign m x y))
  | 4 => ok (elem m (neg_in_place m x))
  | 5 => ok (elem m (double_in_place m x))
  | 6 => ok (elem m (mul_assign d m x y))
  | 7 => ok (elem m (square_in_place d m x))
  | 8 => match inverse m x with
         | InvNone => ok [[0]]
         | InvSome r => ok ([1] :: elem m r)
         | InvOutOfFuel => panic
         end
  | 9 => match from_bigint d m x with
         | Some r => ok ([1] :: elem m r)
         | None => ok [[0]]
         end
  | 10 => ok [into_bigint m x]
  | 11 => ok (elem m (pow d m x y))
  | 12 => let ab := combine (split_elems N y) (split_elems N (arg 4 a)) in
          ok (elem m (sum_of_products d m ab))
  | 13 => let v := split_elems N x in
          let r := batch_inversion_and_mul (R_of m) (mul_assign d m) (inv_fn m) is_zero v y in
          ok [concat r; concat (map (into_bigint m) r)]
  | 14 => opt_elem m (from_int d m (nth 0 x 0) (negb (nth 1 x 0 =? 0)) (hd 0 y))
  | 15 => opt_elem m (from_le_bytes_mod_order d m x)
  | 16 => opt_elem m (from_be_bytes_mod_order d m x)
  | 17 => opt_elem m (from_biguint d m (hd 0 x))
  | 18 => match from_str d m x with StrOk r => ok (elem m r) | StrErr => err 0 end
  | 19 => ok [display_fp m x]
  | _ => unsupported
  end.
