From V Require Import Base.Word C15.GenArith C15.LeafSpecs C15.BigIntModel C15.BigIntProofs
  C01.InvModel C01.InvProofs C01.MontModel C01.MontProofs C01.SquareProofs.

(* ---------- sum_of_products: the naive / fallback path ---------- *)
Definition elem_ok (m a : list Z) : Prop := wf a /\ length a = length m /\ val a < val m.

Definition dot (m : list Z) (ab : list (list Z * list Z)) (s0 : Z) : Z :=
  fold_left (fun acc p => acc + std m (fst p) * std m (snd p)) ab s0.

Lemma std_zeros m : wf m -> val m mod 2 = 1 -> std m (zeros (length m)) = 0.
Proof.
  intros Hm Hodd. pose proof (odd_pos m Hm Hodd) as Hp.
  transitivity (0 mod val m); [|apply Z.mod_0_l; lia].
  apply std_unique; auto using wf_zeros, length_zeros; rewrite val_zeros; [lia|].
  rewrite Z.mul_0_l. symmetry. apply Z.mod_0_l. lia.
Qed.

Lemma sop_naive_fold : forall (derived : bool) m, wf m -> val m mod 2 = 1 ->
  forall ab acc s, Forall (fun p => elem_ok m (fst p) /\ elem_ok m (snd p)) ab ->
  elem_ok m acc -> std m acc = s mod val m ->
  let r := fold_left (fun acc p => add_assign m acc (mul_assign derived m (fst p) (snd p))) ab acc in
  elem_ok m r /\ std m r = dot m ab s mod val m.
Proof.
  intros derived m Hm Hodd. pose proof (odd_nonempty m Hodd) as Hne.
  induction ab as [|[a b] ab IH]; intros acc s Hab Hacc Hs; cbn zeta.
  - cbn [fold_left dot]. auto.
  - inversion Hab as [|p' ab' [Ha Hb] Hab']; subst p' ab'. cbn [fst snd] in *.
    destruct Ha as (Haw & Hal & Halt). destruct Hb as (Hbw & Hbl & Hblt). destruct Hacc as (Hcw & Hcl & Hclt).
    cbn [fold_left dot fst snd].
    destruct (mul_assign_spec derived m a b Hm Haw Hbw Hal Hbl Hodd Halt Hblt) as (Hmw & Hml & Hmlt & _).
    cbn zeta in *. set (ab1 := mul_assign derived m a b) in *.
    destruct (add_assign_spec m acc ab1 Hm Hne Hcw Hmw Hcl Hml Hclt Hmlt) as (Hsw & Hsl & Hslt & _).
    cbn zeta in *.
    apply IH; auto.
    + repeat split; auto.
    + rewrite std_add by auto. unfold ab1. rewrite std_mul by auto. rewrite Hs.
      rewrite <- Zplus_mod. reflexivity.
Qed.

Theorem sop_naive_spec : forall (derived : bool) m ab, wf m -> val m mod 2 = 1 ->
  Forall (fun p => elem_ok m (fst p) /\ elem_ok m (snd p)) ab ->
  let r := sop_naive derived m ab in
  elem_ok m r /\ std m r = dot m ab 0 mod val m.
Proof.
  intros derived m ab Hm Hodd Hab. unfold sop_naive.
  pose proof (odd_pos m Hm Hodd) as Hp.
  apply sop_naive_fold; auto.
  - repeat split; auto using wf_zeros, length_zeros. rewrite val_zeros. lia.
  - rewrite std_zeros by auto. symmetry. apply Z.mod_0_l. lia.
Qed.

(* the branch `modulus_size >= 64N - 1` of sum_of_products, both flavours.
   _partial: the interleaved branches (carry_a/carry_b, chunking) are tied by correspondence only;
   full statement: the same conclusion without the premise on const_num_bits. *)
Theorem sum_of_products_fallback_partial : forall (derived : bool) m ab, wf m -> val m mod 2 = 1 ->
  Forall (fun p => elem_ok m (fst p) /\ elem_ok m (snd p)) ab ->
  64 * Z.of_nat (length m) - 1 <= const_num_bits m ->
  let r := sum_of_products derived m ab in
  elem_ok m r /\ std m r = dot m ab 0 mod val m.
Proof.
  intros derived m ab Hm Hodd Hab Hbits. cbn zeta. unfold sum_of_products.
  replace (64 * Z.of_nat (length m) - 1 <=? const_num_bits m) with true
    by (symmetry; apply Z.leb_le; lia).
  apply sop_naive_spec; auto.
Qed.


Local Ltac unf := unfold u64, W64 in *.



(* ---------- interleaved sum_of_products ---------- *)
Definition zsum (l : list Z) : Z := fold_right Z.add 0 l.
Definition Xj (j : nat) (ab : list (list Z * list Z)) : Z :=
  zsum (map (fun p => nth j (fst p) 0 * val (snd p)) ab).
Definition Dn (i : nat) (ab : list (list Z * list Z)) : Z :=
  zsum (map (fun p => val (firstn i (fst p)) * val (snd p)) ab).
Definition okpair (m : list Z) (p : list Z * list Z) : Prop := elem_ok m (fst p) /\ elem_ok m (snd p).

Lemma wf_nth a j : wf a -> u64 (nth j a 0).
Proof.
  intros Ha. destruct (Nat.lt_ge_cases j (length a)) as [Hlt|Hge].
  - unfold wf in Ha. rewrite Forall_forall in Ha. apply Ha. apply nth_In; auto.
  - rewrite nth_overflow by auto. apply u64_0.
Qed.

Lemma Xj_nonneg m j ab : Forall (okpair m) ab -> 0 <= Xj j ab.
Proof.
  induction ab as [|p ab IH]; intros H; cbn [Xj zsum map fold_right]; [lia|].
  inversion H as [|p' ab' Hp Hab]; subst. specialize (IH Hab). unfold Xj, zsum in IH.
  destruct Hp as [(Haw & _ & _) (Hbw & _ & _)].
  pose proof (wf_nth (fst p) j Haw) as Hx. pose proof (val_bound (snd p) Hbw). unfold u64 in Hx. nia.
Qed.

Lemma Xj_bound m j ab : Forall (okpair m) ab ->
  Xj j ab <= Z.of_nat (length ab) * ((W64 - 1) * val m).
Proof.
  induction ab as [|p ab IH]; intros H; cbn [Xj zsum map fold_right length]; [lia|].
  inversion H as [|p' ab' Hp Hab]; subst. specialize (IH Hab). unfold Xj, zsum in IH.
  destruct Hp as [(Haw & _ & _) (Hbw & _ & Hblt)].
  pose proof (wf_nth (fst p) j Haw) as Hx. pose proof (val_bound (snd p) Hbw). unfold u64 in Hx.
  rewrite Nat2Z.inj_succ. nia.
Qed.

Definition step_ab (j : nat) (st : list Z * Z * Z) (p : list Z * list Z) : list Z * Z * Z :=
  let '(res, ca, cb) := st in
  let '(row, c2) := mac_row res (nth j (fst p) 0) (snd p) 0 in
  let '(ca', cb') := adc ca cb c2 in (row, ca', cb').

Definition step_single (j : nat) (st : list Z * Z) (p : list Z * list Z) : list Z * Z :=
  let '(tmp, carry) := st in
  let '(row, c2) := mac_row tmp (nth j (fst p) 0) (snd p) 0 in
  (row, adc_no_carry carry 0 c2).

Section Inner.
  Variable m : list Z.
  Let N := length m.
  Variable j : nat.

  Lemma inner_ab_spec : forall ab res ca, wf res -> length res = N -> u64 ca ->
    Forall (okpair m) ab -> val res + Wn N * ca + Xj j ab < Wn N * W64 ->
    exists res' ca', fold_left (step_ab j) ab (res, ca, 0) = (res', ca', 0) /\
      wf res' /\ length res' = N /\ u64 ca' /\
      val res' + Wn N * ca' = val res + Wn N * ca + Xj j ab.
  Proof.
    induction ab as [|p ab IH]; intros res ca Hres Hl Hca Hab Hb.
    - exists res, ca. cbn [fold_left Xj zsum map fold_right]. repeat split; auto; try apply Hca. lia.
    - inversion Hab as [|p' ab' Hp Hab']; subst p' ab'.
      pose proof (Xj_nonneg m j ab Hab') as Hnn.
      destruct Hp as [(Haw & Hal & Halt) (Hbw & Hbl & Hblt)].
      cbn [fold_left]. unfold step_ab at 2.
      pose proof (wf_nth (fst p) j Haw) as Hx.
      pose proof (mac_row_spec (snd p) res (nth j (fst p) 0) 0 Hbw Hres ltac:(unfold N in Hl; lia) Hx u64_0) as H.
      destruct (mac_row res (nth j (fst p) 0) (snd p) 0) as [row c2]. destruct H as (Hrw & Hrl & Hc2 & Hreq).
      rewrite Hbl in Hreq. fold N in Hreq.
      change (Xj j (p :: ab)) with (nth j (fst p) 0 * val (snd p) + Xj j ab) in Hb.
      pose proof (val_bound row Hrw) as Hrb. pose proof (Wn_pos N) as HW.
      assert (Hsum : ca + c2 < W64) by (unfold u64 in *; nia).
      rewrite adc_spec by (auto using u64_0).
      rewrite Z.add_0_r. rewrite (Z.mod_small (ca + c2)) by (unfold u64 in *; lia).
      rewrite (Z.div_small (ca + c2)) by (unfold u64 in *; lia).
      destruct (IH row (ca + c2) Hrw ltac:(unfold N; lia) ltac:(unfold u64 in *; lia) Hab' ltac:(nia))
        as (res' & ca' & Hf & Hw' & Hl' & Hca' & Heq').
      exists res', ca'. split; [exact Hf|]. repeat split; auto; try apply Hca'.
      change (Xj j (p :: ab)) with (nth j (fst p) 0 * val (snd p) + Xj j ab). nia.
  Qed.

  Lemma inner_single_spec : forall ab res ca, wf res -> length res = N -> u64 ca ->
    Forall (okpair m) ab -> val res + Wn N * ca + Xj j ab < Wn N * W64 ->
    exists res' ca', fold_left (step_single j) ab (res, ca) = (res', ca') /\
      wf res' /\ length res' = N /\ u64 ca' /\
      val res' + Wn N * ca' = val res + Wn N * ca + Xj j ab.
  Proof.
    induction ab as [|p ab IH]; intros res ca Hres Hl Hca Hab Hb.
    - exists res, ca. cbn [fold_left Xj zsum map fold_right]. repeat split; auto; try apply Hca. lia.
    - inversion Hab as [|p' ab' Hp Hab']; subst p' ab'.
      pose proof (Xj_nonneg m j ab Hab') as Hnn.
      destruct Hp as [(Haw & Hal & Halt) (Hbw & Hbl & Hblt)].
      cbn [fold_left]. unfold step_single at 2.
      pose proof (wf_nth (fst p) j Haw) as Hx.
      pose proof (mac_row_spec (snd p) res (nth j (fst p) 0) 0 Hbw Hres ltac:(unfold N in Hl; lia) Hx u64_0) as H.
      destruct (mac_row res (nth j (fst p) 0) (snd p) 0) as [row c2]. destruct H as (Hrw & Hrl & Hc2 & Hreq).
      rewrite Hbl in Hreq. fold N in Hreq.
      change (Xj j (p :: ab)) with (nth j (fst p) 0 * val (snd p) + Xj j ab) in Hb.
      pose proof (val_bound row Hrw) as Hrb. pose proof (Wn_pos N) as HW.
      assert (Hsum : ca + c2 < W64) by (unfold u64 in *; nia).
      rewrite adc_no_carry_spec by (auto using u64_0).
      rewrite Z.add_0_r. rewrite (Z.mod_small (ca + c2)) by (unfold u64 in *; lia).
      destruct (IH row (ca + c2) Hrw ltac:(unfold N; lia) ltac:(unfold u64 in *; lia) Hab' ltac:(nia))
        as (res' & ca' & Hf & Hw' & Hl' & Hca' & Heq').
      exists res', ca'. split; [exact Hf|]. repeat split; auto; try apply Hca'.
      change (Xj j (p :: ab)) with (nth j (fst p) 0 * val (snd p) + Xj j ab). nia.
  Qed.
End Inner.



Section SopRow.
  Variables (m0 inv : Z) (m' : list Z).
  Hypothesis Hkill : forall x, (x + ((x * inv) mod W64) * m0) mod W64 = 0.
  Let m := m0 :: m'.
  Hypothesis Hm : wf m.
  Let N := length m.

  Lemma sop_red_spec : forall t, wf t -> length t = N ->
    let '(low, c2) := sop_red m inv t in
    exists k, u64 k /\ wf low /\ length low = length m' /\ u64 c2 /\
      W64 * (val low + Wn (length m') * c2) = val t + k * val m.
  Proof.
    intros [|t0 t'] Ht Hl; [unfold N, m in Hl; discriminate|].
    pose proof Hm as Hm2. unfold m in Hm2. apply wf_cons in Hm2 as [Hm0 Hm'].
    apply wf_cons in Ht as [Ht0 Ht']. unfold N, m in Hl. cbn [length] in Hl.
    unfold sop_red, m. set (k := (t0 * inv) mod W64). assert (Hk : u64 k) by apply mod_u64.
    rewrite mac_discard_spec by auto.
    assert (Hc : u64 ((t0 + k * m0) / W64)).
    { replace (t0 + k * m0) with (t0 + k * m0 + 0) by ring. apply mac_carry_u64; auto using u64_0. }
    pose proof (mac_row_spec m' t' k _ Hm' Ht' ltac:(lia) Hk Hc) as H.
    destruct (mac_row t' k m' _) as [low c2]. destruct H as (Hw & Hlen & Hc2 & Heq).
    exists k. repeat split; auto; try apply Hk; try apply Hc2.
    assert (Hlow : (t0 + k * m0) mod W64 = 0) by (unfold k; apply Hkill).
    pose proof (divmod_eq (t0 + k * m0)) as E. rewrite Hlow in E. cbn [val]. nia.
  Qed.

  (* common tail of both row variants: reduction row + top limb = carry word + carry2 *)
  Lemma sop_row_tail : forall res1 ca T X B, wf res1 -> length res1 = N -> u64 ca ->
    val res1 + Wn N * ca = T + X -> 0 <= T < B -> B <= Wn N ->
    T + X + (W64 - 1) * val m < B * W64 ->
    let '(low, c2) := sop_red m inv res1 in
    let r' := low ++ [adc_no_carry ca 0 c2] in
    wf r' /\ length r' = N /\ val r' < B /\
    exists k, 0 <= k < W64 /\ W64 * val r' = T + X + k * val m.
  Proof.
    intros res1 ca T X B Hres Hl Hca Heq HT HB Hbound.
    pose proof (sop_red_spec res1 Hres Hl) as H.
    destruct (sop_red m inv res1) as [low c2]. destruct H as (k & Hk & Hlw & Hll & Hc2 & He).
    cbn zeta. rewrite adc_no_carry_spec by (auto using u64_0). rewrite Z.add_0_r.
    assert (HN : Wn N = W64 * Wn (length m')) by (unfold N, m; cbn [length]; apply Wn_S).
    pose proof (val_bound low Hlw) as Hlb. rewrite Hll in Hlb. pose proof (Wn_pos (length m')) as HW.
    pose proof (val_bound m Hm) as Hmb.
    (* T' = val low + Wn(N-1) * (ca + c2) *)
    assert (HT' : W64 * (val low + Wn (length m') * (ca + c2)) = T + X + k * val m) by nia.
    assert (HltB : val low + Wn (length m') * (ca + c2) < B) by (unfold u64 in Hk; nia).
    assert (Hsum : ca + c2 < W64) by (unfold u64 in *; nia).
    rewrite (Z.mod_small (ca + c2)) by (unfold u64 in *; lia).
    repeat split.
    - apply wf_app. split; auto. constructor; [unfold u64 in *; lia | constructor].
    - rewrite app_length. cbn [length]. unfold N, m. cbn [length]. lia.
    - rewrite val_snoc, Hll. exact HltB.
    - exists k. split; [exact Hk|]. rewrite val_snoc, Hll. exact HT'.
  Qed.

  Variable ab : list (list Z * list Z).
  Hypothesis Hab : Forall (okpair m) ab.
  Let M := Z.of_nat (length ab).
  Let B := (M + 1) * val m.
  Hypothesis HB : B <= Wn N.

  Lemma row_bounds : forall T j, 0 <= T < B ->
    T + Xj j ab < Wn N * W64 /\ T + Xj j ab + (W64 - 1) * val m < B * W64.
  Proof.
    intros T j HT. pose proof (Xj_bound m j ab Hab) as Hx. fold M in Hx.
    pose proof (val_bound m Hm) as Hmb. assert (0 <= M) by (unfold M; lia).
    assert (HW : 1 < W64) by reflexivity.
    split; unfold B in *; nia.
  Qed.

  Lemma sop_row_ab_spec : forall result j, wf result -> length result = N -> val result < B ->
    let r' := sop_row_ab m inv ab result j in
    wf r' /\ length r' = N /\ val r' < B /\
    exists k, 0 <= k < W64 /\ W64 * val r' = val result + Xj j ab + k * val m.
  Proof.
    intros result j Hr Hl Hlt. cbn zeta. unfold sop_row_ab.
    pose proof (val_bound result Hr) as Hrb.
    destruct (row_bounds (val result) j ltac:(lia)) as [Hb1 Hb2].
    change (fold_left _ ab (result, 0, 0)) with (fold_left (step_ab j) ab (result, 0, 0)).
    destruct (inner_ab_spec m j ab result 0 Hr Hl u64_0 Hab ltac:(fold N; lia))
      as (res1 & ca & Hf & Hw1 & Hl1 & Hca & Heq).
    rewrite Hf. fold N in Heq. rewrite Z.mul_0_r, Z.add_0_r in Heq.
    pose proof (sop_row_tail res1 ca (val result) (Xj j ab) B Hw1 Hl1 Hca Heq ltac:(lia) HB Hb2) as H.
    destruct (sop_red m inv res1) as [low c2]. exact H.
  Qed.

  Lemma sop_row_single_spec : forall result j, wf result -> length result = N -> val result < B ->
    let r' := sop_row_single m inv ab result j in
    wf r' /\ length r' = N /\ val r' < B /\
    exists k, 0 <= k < W64 /\ W64 * val r' = val result + Xj j ab + k * val m.
  Proof.
    intros result j Hr Hl Hlt. cbn zeta. unfold sop_row_single.
    pose proof (val_bound result Hr) as Hrb.
    destruct (row_bounds (val result) j ltac:(lia)) as [Hb1 Hb2].
    change (fold_left _ ab (result, 0)) with (fold_left (step_single j) ab (result, 0)).
    destruct (inner_single_spec m j ab result 0 Hr Hl u64_0 Hab ltac:(fold N; lia))
      as (res1 & ca & Hf & Hw1 & Hl1 & Hca & Heq).
    rewrite Hf. fold N in Heq. rewrite Z.mul_0_r, Z.add_0_r in Heq.
    pose proof (sop_row_tail res1 ca (val result) (Xj j ab) B Hw1 Hl1 Hca Heq ltac:(lia) HB Hb2) as H.
    destruct (sop_red m inv res1) as [low c2]. exact H.
  Qed.
End SopRow.



Lemma val_firstn_S a i : (i < length a)%nat ->
  val (firstn (S i) a) = val (firstn i a) + Wn i * nth i a 0.
Proof.
  revert i. induction a as [|x a IH]; intros i Hi; [cbn [length] in Hi; lia|].
  destruct i as [|i].
  - cbn [firstn val nth]. rewrite Wn_0. lia.
  - cbn [length] in Hi. change (firstn (S (S i)) (x :: a)) with (x :: firstn (S i) a).
    change (firstn (S i) (x :: a)) with (x :: firstn i a). cbn [val nth].
    rewrite IH by lia. rewrite Wn_S. ring.
Qed.

Lemma Dn_S m i ab : Forall (okpair m) ab -> (i < length m)%nat ->
  Dn (S i) ab = Dn i ab + Wn i * Xj i ab.
Proof.
  intros Hab Hi. induction ab as [|p ab IH]; cbn [Dn Xj zsum map fold_right]; [lia|].
  inversion Hab as [|p' ab' Hp Hab']; subst. specialize (IH Hab'). unfold Dn, Xj, zsum in IH.
  destruct Hp as [(Haw & Hal & _) _]. rewrite val_firstn_S by lia. rewrite IH. ring.
Qed.

Lemma Dn_0 ab : Dn 0 ab = 0.
Proof.
  unfold Dn. induction ab as [|p ab IH]; [reflexivity|].
  cbn [map zsum fold_right]. unfold zsum in IH. rewrite IH. reflexivity.
Qed.

Lemma Dn_full m ab : Forall (okpair m) ab ->
  Dn (length m) ab = zsum (map (fun p => val (fst p) * val (snd p)) ab).
Proof.
  intros Hab. induction ab as [|p ab IH]; [reflexivity|].
  inversion Hab as [|p' ab' Hp Hab']; subst. specialize (IH Hab').
  cbn [Dn zsum map fold_right] in *. unfold Dn, zsum in IH. rewrite IH.
  destruct Hp as [(Haw & Hal & _) _]. rewrite <- Hal, firstn_all. reflexivity.
Qed.

Lemma Dn_full_bound m ab : Forall (okpair m) ab ->
  0 <= zsum (map (fun p => val (fst p) * val (snd p)) ab) <= Z.of_nat (length ab) * (val m * val m).
Proof.
  intros Hab. induction ab as [|p ab IH]; cbn [zsum map fold_right length]; [lia|].
  inversion Hab as [|p' ab' Hp Hab']; subst. specialize (IH Hab'). unfold zsum in IH.
  destruct Hp as [(Haw & _ & Halt) (Hbw & _ & Hblt)].
  pose proof (val_bound (fst p) Haw). pose proof (val_bound (snd p) Hbw).
  rewrite Nat2Z.inj_succ. nia.
Qed.

Section SopOuter.
  Variables (m : list Z) (ab : list (list Z * list Z)).
  Hypothesis Hm : wf m.
  Hypothesis Hodd : val m mod 2 = 1.
  Hypothesis Hab : Forall (okpair m) ab.
  Let N := length m.
  Let M := Z.of_nat (length ab).
  Let B := (M + 1) * val m.
  Hypothesis HB : B <= Wn N.

  (* any row function with the row specification *)
  Variable row : list Z -> nat -> list Z.
  Hypothesis row_spec : forall result j, wf result -> length result = N -> val result < B ->
    let r' := row result j in
    wf r' /\ length r' = N /\ val r' < B /\
    exists k, 0 <= k < W64 /\ W64 * val r' = val result + Xj j ab + k * val m.

  Lemma sop_outer_spec : forall n s r, (s + n <= N)%nat -> wf r -> length r = N -> val r < B ->
    forall K, 0 <= K < Wn s -> Wn s * val r = Dn s ab + K * val m ->
    let r' := fold_left row (seq s n) r in
    wf r' /\ length r' = N /\ val r' < B /\
    exists K', 0 <= K' < Wn (s + n) /\ Wn (s + n) * val r' = Dn (s + n) ab + K' * val m.
  Proof.
    induction n as [|n IH]; intros s r Hsn Hr Hl Hlt K HK HE; cbn zeta.
    - cbn [seq fold_left]. rewrite Nat.add_0_r. repeat split; auto. exists K. auto.
    - cbn [seq fold_left].
      destruct (row_spec r s Hr Hl Hlt) as (Hw1 & Hl1 & Hlt1 & k & Hk & He1). cbn zeta in *.
      replace (s + S n)%nat with (S s + n)%nat by lia.
      apply (IH (S s) (row r s) ltac:(lia) Hw1 Hl1 Hlt1 (K + Wn s * k)).
      + rewrite Wn_S. pose proof (Wn_pos s). nia.
      + rewrite Wn_S, (Dn_S m s ab Hab ltac:(unfold N in Hsn; lia)).
        replace (W64 * Wn s * val (row r s)) with (Wn s * (W64 * val (row r s))) by ring.
        rewrite He1. nia.
  Qed.

  Lemma sop_fold_final :
    let t := fold_left row (seq 0 N) (zeros N) in
    let r := subtract_modulus m t in
    elem_ok m r /\
    (val r * Wn N) mod val m = zsum (map (fun p => val (fst p) * val (snd p)) ab) mod val m.
  Proof.
    cbn zeta. pose proof (odd_pos m Hm Hodd) as Hp. assert (HM : 0 <= M) by (unfold M; lia).
    destruct (sop_outer_spec N 0 (zeros N) ltac:(lia) (wf_zeros _) (length_zeros _)
                ltac:(rewrite val_zeros; unfold B; nia) 0 ltac:(rewrite Wn_0; lia)
                ltac:(rewrite val_zeros, Dn_0; ring))
      as (Hw & Hl & Hlt & K & HK & HE).
    cbn zeta in *. cbn [Nat.add] in *. set (t := fold_left row (seq 0 N) (zeros N)) in *.
    unfold N in HE. rewrite (Dn_full m ab Hab) in HE. fold N in HE.
    pose proof (Dn_full_bound m ab Hab) as HD. fold M in HD.
    set (D := zsum (map (fun p => val (fst p) * val (snd p)) ab)) in *.
    pose proof (val_bound t Hw) as Htb. pose proof (Wn_pos N) as HW.
    assert (Ht2 : val t < 2 * val m).
    { assert (D <= Wn N * val m) by (unfold B in HB; nia).
      assert (K * val m < Wn N * val m) by nia. nia. }
    destruct (subtract_modulus_spec m t Hm Hw Hl Ht2) as (Hrw & Hrl & Hrlt & Hrv).
    cbn zeta in *. split; [repeat split; auto|].
    fold N. destruct Hrv as [Hrv|Hrv]; rewrite Hrv.
    - rewrite Z.mul_comm, HE. apply Z.mod_add. lia.
    - replace ((val t - val m) * Wn N) with (Wn N * val t + (- Wn N) * val m) by ring.
      rewrite Z.mod_add by lia. rewrite HE. apply Z.mod_add. lia.
  Qed.
End SopOuter.


Definition Dstd (m : list Z) (ab : list (list Z * list Z)) : Z :=
  zsum (map (fun p => std m (fst p) * std m (snd p)) ab).

Lemma dot_shift m ab : forall s, dot m ab s = s + Dstd m ab.
Proof.
  unfold dot, Dstd. induction ab as [|p ab IH]; intros s; cbn [fold_left map zsum fold_right]; [lia|].
  rewrite IH. unfold zsum. lia.
Qed.

Lemma prod_sum_std m ab : wf m -> val m mod 2 = 1 -> Forall (okpair m) ab ->
  zsum (map (fun p => val (fst p) * val (snd p)) ab) mod val m =
  (Dstd m ab * (Wn (length m) * Wn (length m))) mod val m.
Proof.
  intros Hm Hodd Hab. pose proof (odd_pos m Hm Hodd) as Hp.
  induction ab as [|p ab IH]; [reflexivity|].
  inversion Hab as [|p' ab' Hp' Hab']; subst. specialize (IH Hab').
  destruct Hp' as [(Haw & Hal & Halt) (Hbw & Hbl & Hblt)].
  destruct (std_val m Hm Hodd (fst p) Haw Hal Halt) as [_ Ea].
  destruct (std_val m Hm Hodd (snd p) Hbw Hbl Hblt) as [_ Eb].
  unfold Dstd in *. cbn [map zsum fold_right] in *. fold (zsum (map (fun p0 => val (fst p0) * val (snd p0)) ab)).
  fold (zsum (map (fun p0 => std m (fst p0) * std m (snd p0)) ab)).
  rewrite Zplus_mod, IH. rewrite Ea at 1. rewrite Eb at 1. rewrite <- Zmult_mod, <- Zplus_mod.
  f_equal. ring.
Qed.

Section Final.
  Variables (m : list Z) (ab : list (list Z * list Z)).
  Hypothesis Hm : wf m.
  Hypothesis Hodd : val m mod 2 = 1.
  Hypothesis Hab : Forall (okpair m) ab.
  Hypothesis HB : (Z.of_nat (length ab) + 1) * val m <= Wn (length m).

  Lemma std_of_sum r : elem_ok m r ->
    (val r * Wn (length m)) mod val m = zsum (map (fun p => val (fst p) * val (snd p)) ab) mod val m ->
    std m r = dot m ab 0 mod val m.
  Proof.
    intros (Hrw & Hrl & Hrlt) Hc. pose proof (odd_pos m Hm Hodd) as Hp.
    rewrite dot_shift, Z.add_0_l. pose proof (val_bound r Hrw).
    apply std_unique; auto.
    apply (mont_cancel m); auto; try lia.
    - apply Z.mod_pos_bound; lia.
    - rewrite Hc, prod_sum_std by auto. rewrite Zmult_mod_idemp_l. f_equal. ring.
  Qed.

End Final.

Theorem sop_interleaved_ab_spec : forall m ab, wf m -> val m mod 2 = 1 -> Forall (okpair m) ab ->
  (Z.of_nat (length ab) + 1) * val m <= Wn (length m) ->
  let r := sop_interleaved_ab m ab in elem_ok m r /\ std m r = dot m ab 0 mod val m.
Proof.
  intros m ab Hm Hodd Hab HB. cbn zeta.
  pose proof (odd_nonempty m Hodd) as Hne. destruct m as [|m0 m']; [congruence|].
  pose proof (inv_of_kills m0 m' Hm Hodd) as Hkill.
  unfold sop_interleaved_ab.
  pose proof (sop_fold_final (m0 :: m') ab Hm Hodd Hab HB (sop_row_ab (m0 :: m') (inv_of (m0 :: m')) ab)
                (sop_row_ab_spec m0 (inv_of (m0 :: m')) m' Hkill Hm ab Hab HB)) as H.
  cbn zeta in H. destruct H as [Hok Hc].
  split; [exact Hok|]. apply std_of_sum; auto.
Qed.

Theorem sop_interleaved_single_spec : forall m ab, wf m -> val m mod 2 = 1 -> Forall (okpair m) ab ->
  (Z.of_nat (length ab) + 1) * val m <= Wn (length m) ->
  let r := sop_interleaved_single m ab in elem_ok m r /\ std m r = dot m ab 0 mod val m.
Proof.
  intros m ab Hm Hodd Hab HB. cbn zeta.
  pose proof (odd_nonempty m Hodd) as Hne. destruct m as [|m0 m']; [congruence|].
  pose proof (inv_of_kills m0 m' Hm Hodd) as Hkill.
  unfold sop_interleaved_single.
  pose proof (sop_fold_final (m0 :: m') ab Hm Hodd Hab HB (sop_row_single (m0 :: m') (inv_of (m0 :: m')) ab)
                (sop_row_single_spec m0 (inv_of (m0 :: m')) m' Hkill Hm ab Hab HB)) as H.
  cbn zeta in H. destruct H as [Hok Hc].
  split; [exact Hok|]. apply std_of_sum; auto.
Qed.



(* ---------- bit size of the modulus and the chunk bound ---------- *)
Lemma bitlen_upper x : 0 <= x -> x < 2 ^ bitlen x.
Proof.
  intros Hx. unfold bitlen. destruct (Z.eqb_spec x 0) as [->|Hne]; [reflexivity|].
  pose proof (Z.log2_spec x ltac:(lia)) as [_ H]. rewrite <- Z.add_1_r in H. exact H.
Qed.

Lemma bitlen_nonneg x : 0 <= bitlen x.
Proof. unfold bitlen. destruct (x =? 0); [lia|]. pose proof (Z.log2_nonneg x). lia. Qed.

Lemma const_num_bits_upper m : wf m -> m <> [] -> val m < 2 ^ const_num_bits m.
Proof.
  intros Hm Hne. destruct (wf_removelast m Hm Hne) as [Hl Ht].
  unfold const_num_bits. rewrite (val_split_last m Hne).
  rewrite (length_removelast_S m Hne).
  replace (Z.of_nat (S (length (removelast m))) - 1) with (Z.of_nat (length (removelast m))) by lia.
  pose proof (bitlen_upper (last m 0) ltac:(unfold u64 in Ht; lia)) as Hb.
  pose proof (bitlen_nonneg (last m 0)) as Hbn.
  rewrite Z.pow_add_r by lia.
  replace (Z.of_nat (length (removelast m)) * 64) with (64 * Z.of_nat (length (removelast m))) by lia.
  rewrite <- Wn_pow2.
  pose proof (val_bound _ Hl). pose proof (Wn_pos (length (removelast m))). nia.
Qed.

Lemma two_s_le_pow s : 1 <= s -> 2 * s <= 2 ^ s.
Proof.
  intros Hs. pose proof (Z.pow_gt_lin_r 2 (s - 1) ltac:(lia) ltac:(lia)) as H.
  replace s with (Z.succ (s - 1)) at 2 by lia. rewrite Z.pow_succ_r by lia. lia.
Qed.

Lemma chunk_bound m (M : nat) : wf m -> m <> [] ->
  const_num_bits m < 64 * Z.of_nat (length m) - 1 ->
  (M <= Z.to_nat (2 * (Z.of_nat (length m) * 64 - const_num_bits m) - 1))%nat ->
  (Z.of_nat M + 1) * val m <= Wn (length m).
Proof.
  intros Hm Hne Hbits HM. pose proof (const_num_bits_upper m Hm Hne) as Hup.
  set (bits := const_num_bits m) in *. set (s := Z.of_nat (length m) * 64 - bits) in *.
  assert (Hs : 2 <= s) by (unfold s; lia).
  assert (HM' : Z.of_nat M + 1 <= 2 * s) by lia.
  pose proof (two_s_le_pow s ltac:(lia)) as H2.
  pose proof (val_bound m Hm) as Hmb.
  assert (Hbn : 0 <= bits).
  { unfold bits, const_num_bits. pose proof (bitlen_nonneg (last m 0)).
    destruct m; [congruence|]. cbn [length]. lia. }
  rewrite Wn_pow2. replace (64 * Z.of_nat (length m)) with (s + bits) by (unfold s; lia).
  rewrite Z.pow_add_r by lia.
  assert (0 < 2 ^ bits) by (apply Z.pow_pos_nonneg; lia). nia.
Qed.

(* ---------- chunks ---------- *)
Lemma chunks_of_spec {A} : forall fuel k (l : list A), (1 <= k)%nat -> (length l < fuel)%nat ->
  concat (chunks_of fuel k l) = l /\
  Forall (fun c => (length c <= k)%nat /\ incl c l) (chunks_of fuel k l).
Proof.
  induction fuel as [|fuel IH]; intros k l Hk Hl; [lia|].
  destruct l as [|x l']; [split; [reflexivity | constructor]|].
  cbn [chunks_of].
  assert (Hsk : (length (skipn k (x :: l')) < fuel)%nat).
  { rewrite skipn_length. cbn [length] in *. lia. }
  destruct (IH k (skipn k (x :: l')) Hk Hsk) as [Hc Hf].
  split.
  - cbn [concat]. rewrite Hc. apply firstn_skipn.
  - constructor.
    + split; [rewrite firstn_length; lia|]. intros y Hy. rewrite <- (firstn_skipn k (x :: l')). apply in_or_app; auto.
    + eapply Forall_impl; [|exact Hf]. cbn beta. intros c [Hcl Hci]. split; auto.
      intros y Hy. rewrite <- (firstn_skipn k (x :: l')). apply in_or_app. right. apply Hci; auto.
Qed.

Lemma dot_app m l1 l2 s : dot m (l1 ++ l2) s = dot m l2 (dot m l1 s).
Proof. unfold dot. apply fold_left_app. Qed.

Lemma Forall_incl {A} (P : A -> Prop) l c : Forall P l -> incl c l -> Forall P c.
Proof. intros H Hi. rewrite Forall_forall in *. auto. Qed.

(* summing per-chunk results with add_assign *)
Lemma sum_chunks_spec : forall m (f : list (list Z * list Z) -> list Z), wf m -> val m mod 2 = 1 ->
  forall cs acc s,
  Forall (fun c => elem_ok m (f c) /\ std m (f c) = dot m c 0 mod val m) cs ->
  elem_ok m acc -> std m acc = s mod val m ->
  let r := fold_left (add_assign m) (map f cs) acc in
  elem_ok m r /\ std m r = dot m (concat cs) s mod val m.
Proof.
  intros m f Hm Hodd. pose proof (odd_nonempty m Hodd) as Hne.
  induction cs as [|c cs IH]; intros acc s Hcs Hacc Hs; cbn zeta.
  - cbn [map fold_left concat dot]. auto.
  - inversion Hcs as [|c' cs' [Hok Hstd] Hcs']; subst c' cs'.
    cbn [map fold_left concat]. rewrite dot_app.
    destruct Hacc as (Haw & Hal & Halt). destruct Hok as (Hfw & Hfl & Hflt).
    destruct (add_assign_spec m acc (f c) Hm Hne Haw Hfw Hal Hfl Halt Hflt) as (Hsw & Hsl & Hslt & _).
    cbn zeta in *. apply IH; auto.
    + repeat split; auto.
    + rewrite std_add by auto. rewrite Hs, Hstd. rewrite <- Zplus_mod.
      rewrite (dot_shift m c s), (dot_shift m c 0). f_equal; ring.
Qed.

(* ---------- sum_of_products, every branch, both flavours ---------- *)
Theorem sum_of_products_spec : forall (derived : bool) m ab, wf m -> val m mod 2 = 1 ->
  Forall (okpair m) ab ->
  let r := sum_of_products derived m ab in
  elem_ok m r /\ std m r = dot m ab 0 mod val m.
Proof.
  intros derived m ab Hm Hodd Hab. cbn zeta.
  pose proof (odd_nonempty m Hodd) as Hne. pose proof (odd_pos m Hm Hodd) as Hp.
  unfold sum_of_products.
  destruct (Z.leb_spec (64 * Z.of_nat (length m) - 1) (const_num_bits m)) as [Hfb|Hbits].
  { apply sop_naive_spec; auto. }
  set (chunk := Z.to_nat (2 * (Z.of_nat (length m) * 64 - const_num_bits m) - 1)).
  assert (Hck : (3 <= chunk)%nat) by (unfold chunk; lia).
  assert (Hz : elem_ok m (zeros (length m))).
  { repeat split; auto using wf_zeros, length_zeros. rewrite val_zeros. lia. }
  assert (Hz0 : std m (zeros (length m)) = 0 mod val m).
  { rewrite std_zeros by auto. symmetry. apply Z.mod_0_l. lia. }
  destruct (chunks_of_spec (S (length ab)) chunk ab ltac:(lia) ltac:(lia)) as [Hcat Hchunks].
  destruct derived.
  - destruct (Nat.leb_spec (length ab) chunk) as [Hle|Hgt].
    + apply sop_interleaved_ab_spec; auto. apply chunk_bound; auto.
    + replace (dot m ab 0) with (dot m (concat (chunks_of (S (length ab)) chunk ab)) 0) by (rewrite Hcat; reflexivity).
      apply (sum_chunks_spec m (fun ch => if (length ch =? chunk)%nat then sop_interleaved_ab m ch
                                           else sop_naive true m ch)); auto.
      eapply Forall_impl; [|exact Hchunks]. cbn beta. intros c [Hcl Hci].
      pose proof (Forall_incl _ ab c Hab Hci) as Hcok.
      destruct (length c =? chunk)%nat.
      * apply sop_interleaved_ab_spec; auto. apply chunk_bound; auto.
      * apply sop_naive_spec; auto.
  - destruct (Nat.eqb_spec (length ab) 2) as [H2|Hn2].
    + apply sop_interleaved_ab_spec; auto. apply chunk_bound; auto. lia.
    + replace (dot m ab 0) with (dot m (concat (chunks_of (S (length ab)) chunk ab)) 0) by (rewrite Hcat; reflexivity).
      apply (sum_chunks_spec m (sop_interleaved_single m)); auto.
      eapply Forall_impl; [|exact Hchunks]. cbn beta. intros c [Hcl Hci].
      pose proof (Forall_incl _ ab c Hab Hci) as Hcok.
      apply sop_interleaved_single_spec; auto. apply chunk_bound; auto.
Qed.
