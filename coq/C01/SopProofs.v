From V Require Import Base.Word C15.GenArith C15.LeafSpecs C15.BigIntModel C15.BigIntProofs
  C01.InvModel C01.InvProofs C01.MontModel C01.MontProofs C01.SquareProofs.

(* ---------- sum_of_products: the naive / fallback path ---------- *)
Definition elem_ok (m a : list Z) : Prop := wf a /\ length a = length m /\ val a < val m.

Definition dot (m : list Z) (ab : list (list Z * list Z)) (s0 : Z) : Z :=
  fold_left (fun acc p => acc + std m (fst p) * std m (snd p)) ab s0.

Lemma std_zeros m : wf m -> val m mod 2 = 1 -> std m (zeros (length m)) = 0.
Proof.
  intros Hm Hodd. pose proof (odd_pos m Hm Hodd) as Hp.
  transitivity (0 mod val m); [|apply Z.mod_0_l; lia].
  apply std_unique; auto using wf_zeros, length_zeros; rewrite val_zeros; [lia|].
  rewrite Z.mul_0_l. symmetry. apply Z.mod_0_l. lia.
Qed.

Lemma sop_naive_fold : forall (derived : bool) m, wf m -> val m mod 2 = 1 ->
  forall ab acc s, Forall (fun p => elem_ok m (fst p) /\ elem_ok m (snd p)) ab ->
  elem_ok m acc -> std m acc = s mod val m ->
  let r := fold_left (fun acc p => add_assign m acc (mul_assign derived m (fst p) (snd p))) ab acc in
  elem_ok m r /\ std m r = dot m ab s mod val m.
Proof.
  intros derived m Hm Hodd. pose proof (odd_nonempty m Hodd) as Hne.
  induction ab as [|[a b] ab IH]; intros acc s Hab Hacc Hs; cbn zeta.
  - cbn [fold_left dot]. auto.
  - inversion Hab as [|p' ab' [Ha Hb] Hab']; subst p' ab'. cbn [fst snd] in *.
    destruct Ha as (Haw & Hal & Halt). destruct Hb as (Hbw & Hbl & Hblt). destruct Hacc as (Hcw & Hcl & Hclt).
    cbn [fold_left dot fst snd].
    destruct (mul_assign_spec derived m a b Hm Haw Hbw Hal Hbl Hodd Halt Hblt) as (Hmw & Hml & Hmlt & _).
    cbn zeta in *. set (ab1 := mul_assign derived m a b) in *.
    destruct (add_assign_spec m acc ab1 Hm Hne Hcw Hmw Hcl Hml Hclt Hmlt) as (Hsw & Hsl & Hslt & _).
    cbn zeta in *.
    apply IH; auto.
    + repeat split; auto.
    + rewrite std_add by auto. unfold ab1. rewrite std_mul by auto. rewrite Hs.
      rewrite <- Zplus_mod. reflexivity.
Qed.

Theorem sop_naive_spec : forall (derived : bool) m ab, wf m -> val m mod 2 = 1 ->
  Forall (fun p => elem_ok m (fst p) /\ elem_ok m (snd p)) ab ->
  let r := sop_naive derived m ab in
  elem_ok m r /\ std m r = dot m ab 0 mod val m.
Proof.
  intros derived m ab Hm Hodd Hab. unfold sop_naive.
  pose proof (odd_pos m Hm Hodd) as Hp.
  apply sop_naive_fold; auto.
  - repeat split; auto using wf_zeros, length_zeros. rewrite val_zeros. lia.
  - rewrite std_zeros by auto. symmetry. apply Z.mod_0_l. lia.
Qed.

(* the branch `modulus_size >= 64N - 1` of sum_of_products, both flavours.
   _partial: the interleaved branches (carry_a/carry_b, chunking) are tied by correspondence only;
   full statement: the same conclusion without the premise on const_num_bits. *)
Theorem sum_of_products_fallback_partial : forall (derived : bool) m ab, wf m -> val m mod 2 = 1 ->
  Forall (fun p => elem_ok m (fst p) /\ elem_ok m (snd p)) ab ->
  64 * Z.of_nat (length m) - 1 <= const_num_bits m ->
  let r := sum_of_products derived m ab in
  elem_ok m r /\ std m r = dot m ab 0 mod val m.
Proof.
  intros derived m ab Hm Hodd Hab Hbits. cbn zeta. unfold sum_of_products.
  replace (64 * Z.of_nat (length m) - 1 <=? const_num_bits m) with true
    by (symmetry; apply Z.leb_le; lia).
  apply sop_naive_spec; auto.
Qed.
