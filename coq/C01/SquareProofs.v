(* Squaring (off-diagonal products, doubling pass, diagonal pass, reduction) and pow, for every N. *)
From V Require Import Base.Word C15.GenArith C15.LeafSpecs C15.BigIntModel C15.BigIntProofs
  C01.InvModel C01.InvProofs C01.MontModel C01.MontProofs.

Local Ltac unf := unfold u64, W64 in *.



(* ---------- squaring ---------- *)
Fixpoint offdiag (a : list Z) : Z :=
  match a with [] => 0 | ai :: a' => ai * val a' + W64 * W64 * offdiag a' end.
Fixpoint diag (a : list Z) : Z :=
  match a with [] => 0 | ai :: a' => ai * ai + W64 * W64 * diag a' end.

Lemma square_decomp a : val a * val a = 2 * W64 * offdiag a + diag a.
Proof. induction a as [|x a IH]; cbn [val offdiag diag]; [ring|]. nia. Qed.

Lemma offdiag_nonneg a : wf a -> 0 <= offdiag a.
Proof.
  induction a as [|x a IH]; intros Ha; cbn [offdiag]; [lia|].
  apply wf_cons in Ha as [Hx Ha]. specialize (IH Ha). pose proof (val_bound a Ha). unf. nia.
Qed.
Lemma diag_nonneg a : wf a -> 0 <= diag a.
Proof.
  induction a as [|x a IH]; intros Ha; cbn [diag]; [lia|].
  apply wf_cons in Ha as [Hx Ha]. specialize (IH Ha). unf. nia.
Qed.

Lemma zeros_S n : zeros (S n) = 0 :: zeros n. Proof. reflexivity. Qed.

Lemma sq_offdiag_cons ai aj a'' r : sq_offdiag (ai :: aj :: a'') r =
  let '(row, c) := mac_row r ai (aj :: a'') 0 in
  let r1 := row ++ set_first c (skipn (length (aj :: a'')) r) in
  match r1 with x :: y :: rest => x :: y :: sq_offdiag (aj :: a'') rest | _ => r1 end.
Proof. reflexivity. Qed.

(* off-diagonal rows on a window lo ++ zeros k *)
Lemma sq_offdiag_spec : forall a lo k, wf a -> wf lo -> length lo = pred (length a) ->
  (length a <= k)%nat ->
  let r := sq_offdiag a (lo ++ zeros k) in
  wf r /\ length r = (length lo + k)%nat /\ val r = val lo + offdiag a.
Proof.
  induction a as [|ai a' IH]; intros lo k Ha Hlo Hl Hk; cbn zeta.
  - cbn [sq_offdiag offdiag]. rewrite app_length, length_zeros, val_app_zeros.
    repeat split; auto; try lia. apply wf_app; split; auto using wf_zeros.
  - apply wf_cons in Ha as [Hai Ha']. cbn [length pred] in Hl.
    destruct a' as [|aj a''].
    + cbn [sq_offdiag offdiag val]. rewrite app_length, length_zeros, val_app_zeros.
      repeat split; auto; try lia. apply wf_app; split; auto using wf_zeros.
    + rewrite sq_offdiag_cons. set (a' := aj :: a'') in *.
      destruct k as [|k']; [cbn [length] in Hk; lia|].
      rewrite mac_row_prefix by auto.
      pose proof (mac_row_spec a' lo ai 0 Ha' Hlo Hl Hai u64_0) as H.
      destruct (mac_row lo ai a' 0) as [row c]. destruct H as (Hw & Hlen & Hc & Heq).
      rewrite (skipn_app_exact lo _ (length a')) by auto.
      rewrite zeros_S. cbn [set_first].
      (* row has at least one limb; row ++ c :: zeros k' has at least two *)
      destruct row as [|x row']; [unfold a' in Hlen; discriminate|].
      apply wf_cons in Hw as [Hx Hw'].
      assert (Hshape : (x :: row') ++ c :: zeros k' = x :: (row' ++ [c]) ++ zeros k')
        by (cbn [app]; rewrite <- app_assoc; reflexivity).
      rewrite Hshape.
      assert (Hrc : wf (row' ++ [c])) by (apply wf_app; split; auto; constructor; auto; constructor).
      destruct (row' ++ [c]) as [|y lo2] eqn:Erc.
      { destruct row'; discriminate. }
      cbn [app]. apply wf_cons in Hrc as [Hy Hlo2].
      assert (Hl2 : length lo2 = pred (length a')).
      { pose proof (f_equal (@length Z) Erc) as E. rewrite app_length in E. cbn [length] in *. lia. }
      assert (Hk2 : (length a' <= k')%nat) by (cbn [length] in *; lia).
      specialize (IH lo2 k' Ha' Hlo2 Hl2 Hk2). cbn zeta in IH. destruct IH as (Hwr & Hlr & Hvr).
      repeat split.
      * apply wf_cons; split; auto. apply wf_cons; split; auto.
      * cbn [length]. rewrite Hlr. cbn [length] in *. lia.
      * subst a'. cbn [val offdiag length] in *. rewrite Hvr.
        assert (Ev : val (row' ++ [c]) = y + W64 * val lo2) by (rewrite Erc; reflexivity).
        rewrite val_snoc in Ev. rewrite Wn_S in Heq.
        assert (Hrl : length row' = length a'') by lia.
        rewrite Hrl in Ev. nia.
Qed.



(* the doubling pass is the mul2 chain *)
Lemma shl1_chain_mul2 : forall l b, shl1_chain l b = fst (mul2_chain l b).
Proof.
  induction l as [|x l IH]; intros b; [reflexivity|].
  cbn [shl1_chain mul2_chain]. rewrite IH. destruct (mul2_chain l (Z.shiftr x 63)). reflexivity.
Qed.

Lemma shl1_chain_spec l : wf l -> 2 * val l < Wn (length l) ->
  wf (shl1_chain l 0) /\ length (shl1_chain l 0) = length l /\ val (shl1_chain l 0) = 2 * val l.
Proof.
  intros Hl Hlt. rewrite shl1_chain_mul2.
  pose proof (mul2_chain_spec l 0 Hl ltac:(auto)) as H.
  destruct (mul2_chain l 0) as [r c]. destruct H as (Hw & Hlen & Hc & Heq). cbn [fst].
  repeat split; auto. pose proof (val_bound r Hw) as Hb. rewrite Hlen in Hb.
  pose proof (Wn_pos (length l)). destruct Hc as [-> | ->]; lia.
Qed.

(* diagonal pass with its carry made explicit *)
Fixpoint sq_diag_c (a r : list Z) (carry : Z) : list Z * Z :=
  match a, r with
  | ai :: a', x :: y :: rest =>
      let '(v, c) := mac_with_carry x ai ai carry in
      let '(w, c') := adc y 0 c in
      let '(l, cf) := sq_diag_c a' rest c' in (v :: w :: l, cf)
  | _, _ => (r, carry)
  end.

Lemma sq_diag_fst : forall a r c, sq_diag a r c = fst (sq_diag_c a r c).
Proof.
  induction a as [|ai a IH]; intros r c; [destruct r; reflexivity|].
  destruct r as [|x [|y rest]]; try reflexivity.
  cbn [sq_diag sq_diag_c]. destruct (mac_with_carry x ai ai c) as [v c1].
  destruct (adc y 0 c1) as [w c2]. rewrite IH. destruct (sq_diag_c a rest c2). reflexivity.
Qed.

Lemma sq_diag_c_spec : forall a r c, wf a -> wf r -> length r = (2 * length a)%nat -> u64 c ->
  let '(l, cf) := sq_diag_c a r c in
  wf l /\ length l = length r /\ u64 cf /\
  val l + Wn (length r) * cf = val r + diag a + c.
Proof.
  induction a as [|ai a IH]; intros r c Ha Hr Hl Hc.
  - destruct r; [|discriminate]. cbn [sq_diag_c val length diag]. rewrite Wn_0.
    repeat split; auto; try apply Hc. lia.
  - destruct r as [|x [|y rest]]; try (cbn [length] in Hl; lia).
    apply wf_cons in Ha as [Hai Ha]. apply wf_cons in Hr as [Hx Hr]. apply wf_cons in Hr as [Hy Hr].
    cbn [sq_diag_c]. rewrite mac_with_carry_spec by auto.
    pose proof (mac_carry_u64 x ai ai c Hx Hai Hai Hc) as Hc1.
    rewrite adc_spec by (auto using u64_0).
    assert (Hc2 : u64 ((y + 0 + (x + ai * ai + c) / W64) / W64)).
    { unfold u64 in *. split; [apply Z.div_pos; unf; lia|]. apply Z.div_lt_upper_bound; unf; lia. }
    specialize (IH rest _ Ha Hr ltac:(cbn [length] in Hl; lia) Hc2).
    destruct (sq_diag_c a rest _) as [l cf]. destruct IH as (Hwl & Hll & Hcf & Heq).
    repeat split; try apply Hcf.
    + apply wf_cons; split; [apply mod_u64|]. apply wf_cons; split; [apply mod_u64|]. exact Hwl.
    + cbn [length]. lia.
    + cbn [val length diag]. rewrite !Wn_S.
      pose proof (divmod_eq (x + ai * ai + c)) as E1.
      pose proof (divmod_eq (y + 0 + (x + ai * ai + c) / W64)) as E2.
      nia.
Qed.

(* the squaring reduction loop is the multiplication reduction loop *)
Lemma mac_discard_snd a b c k : mac_discard a b c k = snd (mac a b c k).
Proof. reflexivity. Qed.

Lemma sq_red_rows_eq : forall n m inv buf c2, sq_red_rows n m inv buf c2 = red_rows n m inv buf c2.
Proof.
  induction n as [|n IH]; intros m inv buf c2; [reflexivity|].
  cbn [sq_red_rows red_rows]. destruct buf as [|s0 buf']; [reflexivity|]. destruct m as [|m0 m']; [reflexivity|].
  rewrite mac_discard_snd. destruct (mac s0 ((s0 * inv) mod W64) m0 0) as [lo c]. cbn [snd].
  destruct (mac_row buf' ((s0 * inv) mod W64) m' c) as [row c'].
  destruct (skipn (length m') buf') as [|h rest]; [reflexivity|].
  destruct (adc h c' c2) as [v c2']. apply IH.
Qed.



(* Montgomery reduction of a 2N-limb value below p * 2^(64N), then the final subtraction *)
Lemma redc_final_spec : forall m prod, wf m -> val m mod 2 = 1 -> wf prod ->
  length prod = (length m + length m)%nat -> val prod < val m * Wn (length m) ->
  let '(hi, c2) := red_rows (length m) m (inv_of m) prod 0 in
  let r := final_sub m hi (negb (c2 =? 0)) in
  wf r /\ length r = length m /\ val r < val m /\
  (val r * Wn (length m)) mod val m = val prod mod val m.
Proof.
  intros m prod Hm Hodd Hpw Hpl Hpv.
  pose proof (odd_nonempty m Hodd) as Hne. destruct m as [|m0 m']; [congruence|].
  pose proof (inv_of_kills m0 m' Hm Hodd) as Hkill.
  set (m := m0 :: m') in *. set (N := length m) in *.
  pose proof (red_rows_spec m0 (inv_of m) m' Hkill Hm N prod 0 Hpw ltac:(fold m; fold N; lia) ltac:(auto)) as H.
  fold m in H. destruct (red_rows N m (inv_of m) prod 0) as [hi c2].
  fold N in H. destruct H as (Hhi & Hlhi & Hc2 & K & HK & HE).
  assert (Hb2 : Z.b2z (negb (c2 =? 0)) = c2) by (destruct Hc2 as [-> | ->]; reflexivity).
  pose proof (val_bound prod Hpw) as Hpb.
  pose proof (val_bound m Hm) as Hmb. fold N in Hmb. pose proof (Wn_pos N) as HW.
  pose proof (val_bound hi Hhi) as Hhb.
  assert (HT : val hi + Wn N * c2 < 2 * val m).
  { rewrite Z.mul_0_r, Z.add_0_r in HE.
    assert (K * val m < Wn N * val m) by nia.
    nia. }
  destruct (final_sub_spec m hi (negb (c2 =? 0)) Hm Hne Hhi Hlhi ltac:(fold N; rewrite Hb2; lia))
    as (Hrw & Hrl & Hrlt & Hrv).
  cbn zeta in *. fold N in Hrv. rewrite Hb2 in Hrv.
  repeat split; auto.
  rewrite Hrv, Zmult_mod_idemp_l.
  replace ((val hi + Wn N * c2) * Wn N) with (Wn N * (val hi + Wn N * c2)) by ring.
  rewrite HE, Z.mul_0_r, Z.add_0_r. apply Z.mod_add. lia.
Qed.

Theorem square_full_spec : forall m a, wf m -> wf a -> length a = length m ->
  val m mod 2 = 1 -> val a < val m ->
  let r := square_full m a in
  wf r /\ length r = length m /\ val r < val m /\
  (val r * Wn (length m)) mod val m = (val a * val a) mod val m.
Proof.
  intros m a Hm Ha Hla Hodd Halt. cbn zeta.
  pose proof (odd_nonempty m Hodd) as Hne.
  pose proof (val_bound a Ha) as Hab. pose proof (val_bound m Hm) as Hmb.
  unfold square_full.
  destruct (length m) as [|N'] eqn:EN; [destruct m; [congruence|discriminate]|].
  set (N := S N') in *.
  replace (N + N)%nat with (S (N' + N)) by (unfold N; lia).
  rewrite zeros_S, zeros_add.
  (* off-diagonal pass *)
  destruct (sq_offdiag_spec a (zeros N') N Ha (wf_zeros _) ltac:(rewrite length_zeros, Hla; reflexivity) ltac:(lia))
    as (Hw1 & Hl1 & Hv1).
  cbn zeta in *. set (od := sq_offdiag a (zeros N' ++ zeros N)) in *.
  rewrite val_zeros, length_zeros, Z.add_0_l in *.
  (* doubling pass *)
  pose proof (square_decomp a) as Hsq. pose proof (offdiag_nonneg a Ha) as Ho. pose proof (diag_nonneg a Ha) as Hdg.
  assert (HWW : Wn (N' + N) * W64 = Wn N * Wn N).
  { unfold N. rewrite Wn_add, !Wn_S. ring. }
  assert (Hsqlt : val a * val a < Wn N * Wn N) by (rewrite Hla in Hab; nia).
  destruct (shl1_chain_spec od Hw1 ltac:(rewrite Hl1, Hv1; unfold W64 in *; nia)) as (Hw2 & Hl2 & Hv2).
  set (dbl := shl1_chain od 0) in *.
  (* diagonal pass *)
  rewrite sq_diag_fst.
  assert (Hr2 : wf (0 :: dbl)) by (apply wf_cons; split; auto using u64_0).
  pose proof (sq_diag_c_spec a (0 :: dbl) 0 Ha Hr2 ltac:(cbn [length]; lia) u64_0) as H3.
  destruct (sq_diag_c a (0 :: dbl) 0) as [r3 cf]. cbn [fst]. destruct H3 as (Hw3 & Hl3 & Hcf & Hv3).
  assert (Hlen2 : length (0 :: dbl) = (N + N)%nat) by (cbn [length]; lia).
  rewrite Hlen2 in Hv3, Hl3. rewrite Wn_add in Hv3. cbn [val] in Hv3. rewrite Hv2, Hv1 in Hv3.
  pose proof (val_bound r3 Hw3) as Hr3b. rewrite Hl3, Wn_add in Hr3b.
  assert (Hcf0 : cf = 0).
  { unfold u64 in Hcf. pose proof (Wn_pos N). nia. }
  subst cf.
  assert (Hv3' : val r3 = val a * val a) by lia.
  (* reduction *)
  rewrite sq_red_rows_eq.
  pose proof (redc_final_spec m r3 Hm Hodd Hw3 ltac:(rewrite EN; exact Hl3)
                ltac:(rewrite EN, Hv3'; fold N; nia)) as HF.
  rewrite EN in HF. fold N in HF.
  destruct (red_rows N m (inv_of m) r3 0) as [hi c2]. cbn zeta in HF.
  rewrite Hv3' in HF. exact HF.
Qed.

Theorem square_in_place_spec : forall (derived : bool) m a, wf m -> wf a -> length a = length m ->
  val m mod 2 = 1 -> val a < val m ->
  let r := square_in_place derived m a in
  wf r /\ length r = length m /\ val r < val m /\
  (val r * Wn (length m)) mod val m = (val a * val a) mod val m.
Proof.
  intros derived m a Hm Ha Hla Hodd Halt. cbn zeta. unfold square_in_place.
  destruct (length m =? 1)%nat.
  - apply mul_assign_spec; auto.
  - apply square_full_spec; auto.
Qed.


(* a Montgomery product/square result, read in standard form *)
Lemma std_of_product m a b r : wf m -> val m mod 2 = 1 ->
  wf a -> wf b -> wf r -> length a = length m -> length b = length m -> length r = length m ->
  val a < val m -> val b < val m -> val r < val m ->
  (val r * Wn (length m)) mod val m = (val a * val b) mod val m ->
  std m r = (std m a * std m b) mod val m.
Proof.
  intros Hm Hodd Ha Hb Hr Hla Hlb Hlr Halt Hblt Hrlt Hc.
  pose proof (odd_pos m Hm Hodd) as Hp.
  destruct (std_val m Hm Hodd a Ha Hla Halt) as [_ Ea]. destruct (std_val m Hm Hodd b Hb Hlb Hblt) as [_ Eb].
  pose proof (val_bound r Hr) as Hrb.
  apply std_unique; auto.
  apply (mont_cancel m); auto; try lia.
  - apply Z.mod_pos_bound; lia.
  - rewrite Hc. rewrite Ea at 1. rewrite Eb at 1.
    rewrite <- Zmult_mod. rewrite Zmult_mod_idemp_l. f_equal. ring.
Qed.

Theorem std_square : forall m, wf m -> val m mod 2 = 1 -> forall (derived : bool) a, wf a ->
  length a = length m -> val a < val m ->
  std m (square_in_place derived m a) = (std m a * std m a) mod val m.
Proof.
  intros m Hm Hodd derived a Ha Hla Halt.
  destruct (square_in_place_spec derived m a Hm Ha Hla Hodd Halt) as (Hw & Hl & Hlt & Hc).
  apply std_of_product; auto.
Qed.

(* ---------- pow: square-and-multiply over a big-endian bit list ---------- *)
Definition pow_bits (derived : bool) (m a : list Z) (bits : list Z) (acc : list Z) : list Z :=
  fold_left (fun res bit =>
               let s := square_in_place derived m res in
               if bit =? 0 then s else mul_assign derived m s a) bits acc.

Lemma pow_is_pow_bits derived m a e : pow derived m a e = pow_bits derived m a (bits_be_nlz e) (R_of m).
Proof. reflexivity. Qed.

Definition be_step (v b : Z) : Z := 2 * v + b.

Lemma pow_bits_spec : forall (derived : bool) m a, wf m -> val m mod 2 = 1 -> wf a ->
  length a = length m -> val a < val m ->
  forall bits acc v, Forall (fun b => b = 0 \/ b = 1) bits -> 0 <= v ->
  wf acc -> length acc = length m -> val acc < val m ->
  std m acc = (std m a ^ v) mod val m ->
  let r := pow_bits derived m a bits acc in
  wf r /\ length r = length m /\ val r < val m /\
  std m r = (std m a ^ (fold_left be_step bits v)) mod val m.
Proof.
  intros derived m a Hm Hodd Ha Hla Halt.
  pose proof (odd_pos m Hm Hodd) as Hp.
  induction bits as [|b bits IH]; intros acc v Hbits Hv Hacc Hlacc Haccl Hstd; cbn zeta.
  - cbn [pow_bits fold_left]. repeat split; auto.
  - inversion Hbits as [|b' bits' Hb Hbits']; subst b' bits'.
    unfold pow_bits. cbn [fold_left]. fold (pow_bits derived m a bits).
    destruct (square_in_place_spec derived m acc Hm Hacc Hlacc Hodd Haccl) as (Hsw & Hsl & Hslt & Hsc).
    cbn zeta in *. set (s := square_in_place derived m acc) in *.
    assert (Hss : std m s = (std m a ^ (2 * v)) mod val m).
    { unfold s. rewrite std_square by auto. rewrite Hstd. rewrite <- Zmult_mod.
      f_equal. replace (2 * v) with (v + v) by ring. rewrite Z.pow_add_r by lia. reflexivity. }
    destruct Hb as [-> | ->].
    + cbn [Z.eqb]. apply (IH s (be_step v 0)); auto; unfold be_step; try lia.
      rewrite Z.add_0_r. exact Hss.
    + cbn [Z.eqb].
      destruct (mul_assign_spec derived m s a Hm Hsw Ha Hsl Hla Hodd Hslt Halt) as (Hmw & Hml & Hmlt & Hmc).
      cbn zeta in *.
      apply (IH (mul_assign derived m s a) (be_step v 1)); auto; unfold be_step; try lia.
      rewrite std_mul by auto. rewrite Hss. rewrite Zmult_mod_idemp_l.
      f_equal. rewrite Z.pow_add_r by lia. rewrite Z.pow_1_r. reflexivity.
Qed.

(* pow = a^(value of the exponent bits); the link `fold_left be_step (bits_be_nlz e) 0 = val e`
   is C15's bit-iterator specification *)
Theorem pow_spec_partial : forall (derived : bool) m a e, wf m -> val m mod 2 = 1 -> 1 < val m ->
  wf a -> length a = length m -> val a < val m ->
  Forall (fun b => b = 0 \/ b = 1) (bits_be_nlz e) ->
  let r := pow derived m a e in
  wf r /\ length r = length m /\ val r < val m /\
  std m r = (std m a ^ (fold_left be_step (bits_be_nlz e) 0)) mod val m.
Proof.
  intros derived m a e Hm Hodd Hgt Ha Hla Halt Hbits. cbn zeta. rewrite pow_is_pow_bits.
  destruct (R_of_spec m Hm ltac:(lia)) as (Hw & Hl & Hv).
  apply pow_bits_spec; auto; try lia.
  - rewrite Hv. apply Z.mod_pos_bound. lia.
  - rewrite std_one by auto. rewrite Z.pow_0_r. symmetry. apply Z.mod_small. lia.
Qed.


Lemma skip_zeros_Forall (P : Z -> Prop) l : Forall P l -> Forall P (skip_zeros l).
Proof.
  induction l as [|b l IH]; intros H; cbn [skip_zeros]; auto.
  destruct (b =? 0); auto. apply IH. inversion H; auto.
Qed.

Lemma bits_be_nlz_bits e : Forall (fun b => b = 0 \/ b = 1) (bits_be_nlz e).
Proof.
  unfold bits_be_nlz, to_bits_be, to_bits_le. apply skip_zeros_Forall.
  apply Forall_rev. apply Forall_forall. intros x Hx. apply in_map_iff in Hx as (i & <- & _).
  destruct (limb_bit e (Z.of_nat i)); auto.
Qed.

Theorem pow_spec_partial' : forall (derived : bool) m a e, wf m -> val m mod 2 = 1 -> 1 < val m ->
  wf a -> length a = length m -> val a < val m ->
  let r := pow derived m a e in
  wf r /\ length r = length m /\ val r < val m /\
  std m r = (std m a ^ (fold_left be_step (bits_be_nlz e) 0)) mod val m.
Proof.
  intros derived m a e Hm Hodd Hgt Ha Hla Halt. apply pow_spec_partial; auto. apply bits_be_nlz_bits.
Qed.
