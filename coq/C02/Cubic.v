(* C02 model -- cubic extension template (ff/src/fields/models/cubic_extension.rs).
   Executable definitions only.  `mul_nr` is `mul_base_field_by_nonresidue`. *)
From V Require Import Base.Field.

Section CubicModel.
  Context {T : Type} (B : Fops T).
  Variable mul_nr : T -> T.
  Local Notation "a + b" := (fadd B a b). Local Notation "a - b" := (fsub B a b).
  Local Notation "a * b" := (fmul B a b).

  (* mul_assign: Karatsuba of Devegili-OhEigeartaigh-Scott-Dahab, section 4 *)
  Definition cubic_mul (s o : T * T * T) : T * T * T :=
    let a := c0 o in let b := c1 o in let c := c2 o in
    let d := c0 s in let e := c1 s in let f := c2 s in
    let ad := d * a in
    let be := e * b in
    let cf := f * c in
    let x := ((e + f) * (b + c) - be) - cf in
    let y := ((d + e) * (a + b) - ad) - be in
    let z := (((d + f) * (a + c) - ad) + be) - cf in
    (ad + mul_nr x, y + mul_nr cf, z).

  (* square_in_place: CH-SQR2 *)
  Definition cubic_square (s : T * T * T) : T * T * T :=
    let a := c0 s in let b := c1 s in let c := c2 s in
    let s0 := a * a in
    let ab := a * b in
    let s1 := ab + ab in
    let t := (a - b) + c in
    let s2 := t * t in
    let bc := b * c in
    let s3 := bc + bc in
    let s4 := c * c in
    (mul_nr s3 + s0, mul_nr s4 + s1, (((s1 + s2) + s3) - s0) - s4).

  Definition cubic_is_zero (a : T * T * T) : bool :=
    fis0 B (c0 a) && fis0 B (c1 a) && fis0 B (c2 a).

  (* inverse: Alg. 17 of Beuchat et al.; `t6.inverse().unwrap()` panics when the norm is
     not invertible: modelled by the distinct outcome CubicInvPanic *)
  Inductive cubic_inv_result := CubicInvNone | CubicInvPanic | CubicInvSome (r : T * T * T).
  Definition cubic_inverse (s : T * T * T) : cubic_inv_result :=
    if cubic_is_zero s then CubicInvNone
    else
      let t0 := c0 s * c0 s in
      let t1 := c1 s * c1 s in
      let t2 := c2 s * c2 s in
      let t3 := c0 s * c1 s in
      let t4 := c0 s * c2 s in
      let t5 := c1 s * c2 s in
      let n5 := mul_nr t5 in
      let s0 := t0 - n5 in
      let s1 := mul_nr t2 - t3 in
      let s2 := t1 - t4 in
      let a1 := c2 s * s1 in
      let a2 := c1 s * s2 in
      let a3 := mul_nr (a1 + a2) in
      let n := c0 s * s0 + a3 in
      if fis0 B n then CubicInvPanic
      else let t6 := finv B n in CubicInvSome (t6 * s0, t6 * s1, t6 * s2).

  Definition cubic_mul_by_basefield (a : T * T * T) (e : T) : T * T * T :=
    (c0 a * e, c1 a * e, c2 a * e).

  (* frobenius_map_in_place: coordinates through the base Frobenius, then c1, c2 times the
     table entries (selected by the caller) *)
  Definition cubic_frobenius (frobB : T -> T) (coef1 coef2 : T -> T) (a : T * T * T) : T * T * T :=
    (frobB (c0 a), coef1 (frobB (c1 a)), coef2 (frobB (c2 a))).

  (* norm: self^(q) * (self^(q^2) * self) with q = |base field|; the code asserts that the
     result lies in the base field (None = the assertion fails) *)
  Definition cubic_norm (frob1 frob2 : T * T * T -> T * T * T) (a : T * T * T) : option T :=
    let r := cubic_mul (frob1 a) (cubic_mul (frob2 a) a) in
    if fis0 B (c1 r) && fis0 B (c2 r) then Some (c0 r) else None.

  Definition CubicM : Fops (T * T * T) :=
    {| f0 := (f0 B, f0 B, f0 B); f1 := (f1 B, f0 B, f0 B);
       fadd := cadd B; fsub := csub B; fmul := cubic_mul; fneg := cneg B;
       finv := fun a => match cubic_inverse a with CubicInvSome r => r | _ => (f0 B, f0 B, f0 B) end;
       feqb := ceqb B;
       fcoords := fun a => fcoords B (c0 a) ++ fcoords B (c1 a) ++ fcoords B (c2 a);
       fof := fun l => (fof B l, fof B (skipn (fdeg B) l), fof B (skipn (2 * fdeg B) l));
       fdeg := (3 * fdeg B)%nat; fchar := fchar B |}.
End CubicModel.
