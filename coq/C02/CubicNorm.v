(* C02 proofs -- closed form of the cubic norm.
   CubicExtField::norm computes self^q * (self^(q^2) * self) (q = |base field|) with the
   table-driven Frobenius and then asserts that the result lies in the base field.
   Here: over every commutative ring B, when the two Frobenius maps act as the identity on
   the base (q-th power on F_q) and multiply c1, c2 by (w, w^2) resp. (w^2, w) with
   w^2 + w + 1 = 0, the product is exactly (cnorm a, 0, 0):  the assertion never fires and
   the value is c0^3 + nr c1^3 + nr^2 c2^3 - 3 nr c0 c1 c2.  Plus multiplicativity of cnorm. *)
From V Require Import Base.Field C02.Cubic C02.CubicProofs C02.Towers C02.Inst C02.InstProofs C02.ZpInst.
Require Import Ring.

Section CubicNorm.
  Context {T : Type} (B : Fops T).
  Hypothesis Rth : ring_theory (f0 B) (f1 B) (fadd B) (fmul B) (fsub B) (fneg B) eq.
  Add Ring BRingN : Rth.
  Local Notation zero := (f0 B). Local Notation one := (f1 B).
  Local Notation "a + b" := (fadd B a b). Local Notation "a - b" := (fsub B a b).
  Local Notation "a * b" := (fmul B a b). Local Notation "- a" := (fneg B a).

  Variable nr : T.

  (* (a) the norm is multiplicative *)
  Theorem cnorm_mul a b : cnorm B nr (cmul B nr a b) = cnorm B nr a * cnorm B nr b.
  Proof.
    destruct a as [[a0 a1] a2], b as [[b0 b1] b2].
    unfold cnorm, cmul, c0, c1, c2; cbn [fst snd]. timeout 60 ring.
  Qed.

  (* the expanded closed form *)
  Theorem cnorm_expanded a :
    cnorm B nr a =
    c0 a * c0 a * c0 a + nr * (c1 a * c1 a * c1 a) + nr * nr * (c2 a * c2 a * c2 a)
    - (one + one + one) * nr * (c0 a * c1 a * c2 a).
  Proof.
    destruct a as [[a0 a1] a2]. unfold cnorm, c0, c1, c2; cbn [fst snd]. timeout 60 ring.
  Qed.

  Theorem cnorm_base x : cnorm B nr (x, zero, zero) = x * x * x.
  Proof. unfold cnorm, c0, c1, c2; cbn [fst snd]. timeout 60 ring. Qed.

  Variable mul_nr : T -> T.
  Hypothesis mul_nr_spec : forall y, mul_nr y = nr * y.
  Hypothesis eqb_refl : forall x, feqb B x x = true.

  (* (b)/(c) the two Frobenius maps as cubic_frobenius builds them: base maps f, f' acting as
     the identity (x -> x^q on the base field F_q, whatever its degree over the prime field),
     coefficient functions = multiplication by table entries k1, k2 / k1', k2' *)
  Section ClosedForm.
    Variable f f' : T -> T.
    Variable coef1 coef2 coef1' coef2' : T -> T.
    Variable w k2 k1' k2' : T.
    Hypothesis f_id : forall x, f x = x.
    Hypothesis f'_id : forall x, f' x = x.
    Hypothesis coef1_spec : forall y, coef1 y = y * w.
    Hypothesis coef2_spec : forall y, coef2 y = y * k2.
    Hypothesis coef1'_spec : forall y, coef1' y = y * k1'.
    Hypothesis coef2'_spec : forall y, coef2' y = y * k2'.
    Hypothesis k2_eq : k2 = w * w.
    Hypothesis k1'_eq : k1' = w * w.
    Hypothesis k2'_eq : k2' = w.
    Hypothesis w_root : w * w + w + one = zero.

    Lemma w_sq : w * w = - w - one.
    Proof.
      transitivity ((w * w + w + one) - w - one); [timeout 60 ring|].
      rewrite w_root. timeout 60 ring.
    Qed.

    Theorem cubic_norm_product a :
      cubic_mul B mul_nr (cubic_frobenius f coef1 coef2 a)
                (cubic_mul B mul_nr (cubic_frobenius f' coef1' coef2' a) a)
      = (cnorm B nr a, zero, zero).
    Proof.
      rewrite !(cubic_mul_spec B Rth nr mul_nr mul_nr_spec).
      destruct a as [[a0 a1] a2].
      unfold cubic_frobenius, cmul, cnorm, c0, c1, c2; cbn [fst snd].
      rewrite !f_id, !f'_id, !coef1_spec, !coef2_spec, !coef1'_spec, !coef2'_spec.
      rewrite k2_eq, k1'_eq, k2'_eq.
      pose proof w_sq as Hw.
      f_equal; [f_equal|]; timeout 120 ring [Hw].
    Qed.

    Theorem cubic_norm_closed_form a :
      cubic_norm B mul_nr (cubic_frobenius f coef1 coef2) (cubic_frobenius f' coef1' coef2') a
      = Some (cnorm B nr a).
    Proof.
      unfold cubic_norm. rewrite cubic_norm_product.
      unfold fis0, c0, c1, c2; cbn [fst snd]. rewrite eqb_refl. reflexivity.
    Qed.
  End ClosedForm.
End CubicNorm.

(* ---------------- the shipped tower shapes ---------------- *)
Lemma qeqb_refl {T} (B : Fops T) :
  (forall x, feqb B x x = true) -> forall x, qeqb B x x = true.
Proof. intros H [x0 x1]. unfold qeqb; cbn [fst snd]. rewrite !H. reflexivity. Qed.

Section TowerNorm.
  Variable cid : Z.
  Context {T0 : Type} (Fp : Fops T0).
  Hypothesis Rth : ring_theory (f0 Fp) (f1 Fp) (fadd Fp) (fmul Fp) (fsub Fp) (fneg Fp) eq.
  Add Ring FpRingN : Rth.
  Hypothesis eqb_refl : forall x, feqb Fp x x = true.
  Local Notation zero := (f0 Fp). Local Notation one := (f1 Fp).
  Local Notation "a + b" := (fadd Fp a b). Local Notation "a * b" := (fmul Fp a b).

  (* Fp3 over the prime field: Fp3::norm uses frobenius_map(1), frobenius_map(2); the premise
     speaks about the four table entries they select, FROBENIUS_COEFF_FP3_C1[1..2], _C2[1..2] *)
  Variable nr3 : T0.
  Variable tab3_1 tab3_2 : list T0.
  Definition fp3_norm_tables_ok : Prop :=
    let w := tabsel zero tab3_1 3 1 in
    tabsel zero tab3_2 3 1 = w * w /\
    tabsel zero tab3_1 3 2 = w * w /\
    tabsel zero tab3_2 3 2 = w /\
    w * w + w + one = zero.

  Theorem fp3_norm_closed_form :
    fp3_consts_ok cid Fp nr3 -> fp3_norm_tables_ok ->
    forall x, fp3_norm cid Fp nr3 tab3_1 tab3_2 x = Some (cnorm Fp nr3 x).
  Proof.
    intros C3 (H12 & H21 & H22 & Hw) x. unfold fp3_norm, fp3_frob.
    apply (cubic_norm_closed_form Fp Rth nr3 (fp3_mul_nr cid Fp nr3)
             (fp3_mul_nr_spec cid Fp Rth nr3 C3) eqb_refl
             (fun y => y) (fun y => y) _ _ _ _
             (tabsel zero tab3_1 3 1) (tabsel zero tab3_2 3 1)
             (tabsel zero tab3_1 3 2) (tabsel zero tab3_2 3 2));
      try (intros; reflexivity); assumption.
  Qed.

  (* Fp6 = Fp2[v]/(v^3 - xi): norm to Fp2 uses frobenius_map(2), frobenius_map(4) (indices are
     w.r.t. the prime field); on Fp2 these are fp2_frob 2 = fp2_frob 4 = multiplication of c1 by
     FROBENIUS_COEFF_FP2_C1[0], which must be 1: the p^2-power map is the identity of Fp2 *)
  Variable nr2 : T0.
  Variable tab2 : list T0.
  Variable nr6 : T0 * T0.
  Variable tab6_1 tab6_2 : list (T0 * T0).
  Local Notation K2 := (Fp2 cid Fp nr2).
  Definition fp6a_norm_tables_ok : Prop :=
    let w := tabsel (zero, zero) tab6_1 6 2 in
    tabsel zero tab2 2 0 = one /\
    tabsel (zero, zero) tab6_2 6 2 = fmul K2 w w /\
    tabsel (zero, zero) tab6_1 6 4 = fmul K2 w w /\
    tabsel (zero, zero) tab6_2 6 4 = w /\
    fadd K2 (fadd K2 (fmul K2 w w) w) (f1 K2) = f0 K2.

  Lemma fp2_frob_even_id k : tabsel zero tab2 2 k = one -> forall x, fp2_frob Fp tab2 k x = x.
  Proof.
    intros H [x0 x1]. unfold fp2_frob, Quad.quad_frobenius; cbn [fst snd]. rewrite H.
    f_equal. timeout 60 ring.
  Qed.

  Theorem fp6a_norm_closed_form :
    fp2_consts_ok cid Fp nr2 -> fp6a_consts_ok cid Fp nr6 -> fp6a_norm_tables_ok ->
    forall x, fp6a_norm cid Fp nr2 tab2 nr6 tab6_1 tab6_2 x = Some (cnorm K2 nr6 x).
  Proof.
    intros C2 C6 (H0 & H12 & H21 & H22 & Hw) x. unfold fp6a_norm, fp6a_frob.
    apply (cubic_norm_closed_form K2 (fp2_ring cid Fp Rth nr2 C2) nr6 (fp6a_mul_nr cid Fp nr2 nr6)
             (fp6a_mul_nr_spec cid Fp Rth nr2 C2 nr6 C6) (qeqb_refl Fp eqb_refl)
             (fp2_frob Fp tab2 2) (fp2_frob Fp tab2 4) _ _ _ _
             (tabsel (zero, zero) tab6_1 6 2) (tabsel (zero, zero) tab6_2 6 2)
             (tabsel (zero, zero) tab6_1 6 4) (tabsel (zero, zero) tab6_2 6 4));
      try (intros; reflexivity); try assumption.
    - apply fp2_frob_even_id. exact H0.
    - apply fp2_frob_even_id. exact H0.
  Qed.
End TowerNorm.

(* ---------------- closed corollaries over the integers modulo p ---------------- *)
Lemma ZpS_eqb_refl p (a : Zp p) : feqb (ZpS p) a a = true.
Proof. cbn. apply Z.eqb_refl. Qed.

Section NormOverZp.
  Variable p : Z.
  Variable cid : Z.
  Local Notation K := (ZpS p).

  Theorem zp_fp3_norm nr3 t1 t2 :
    fp3_consts_ok cid K nr3 -> fp3_norm_tables_ok K t1 t2 ->
    forall x, fp3_norm cid K nr3 t1 t2 x = Some (cnorm K nr3 x).
  Proof. exact (fp3_norm_closed_form cid K (ZpS_ring p) (ZpS_eqb_refl p) nr3 t1 t2). Qed.

  Theorem zp_fp6a_norm nr2 t2 nr6 t61 t62 :
    fp2_consts_ok cid K nr2 -> fp6a_consts_ok cid K nr6 -> fp6a_norm_tables_ok cid K nr2 t2 t61 t62 ->
    forall x, fp6a_norm cid K nr2 t2 nr6 t61 t62 x = Some (cnorm (Fp2 cid K nr2) nr6 x).
  Proof. exact (fp6a_norm_closed_form cid K (ZpS_ring p) (ZpS_eqb_refl p) nr2 t2 nr6 t61 t62). Qed.
End NormOverZp.

(* ---------------- executed instances (the toy towers of the correspondence harness) -------- *)
(* toy7c: F_7[v]/(v^3 - 3); w = 3^((7-1)/3), tables FROBENIUS_COEFF_FP3_C1 = [1; w; w^2],
   _C2 = [1; w^2; w^4] computed here by fpow *)
Definition toy7 : Fops (Zp 7) := ZpS 7.
Definition toy7_nr3 : Zp 7 := zp_mk 7 3.
Definition toy7_tab3_1 : list (Zp 7) := map (fun k => fpow toy7 toy7_nr3 ((7 ^ k - 1) / 3)) [0; 1; 2].
Definition toy7_tab3_2 : list (Zp 7) := map (fun k => fpow toy7 toy7_nr3 ((2 * 7 ^ k - 2) / 3)) [0; 1; 2].

Lemma toy7_tables_val :
  map zp_val toy7_tab3_1 = [1; 2; 4] /\ map zp_val toy7_tab3_2 = [1; 4; 2].
Proof. split; vm_compute; reflexivity. Qed.

Lemma toy7_fp3_tables_ok : fp3_norm_tables_ok toy7 toy7_tab3_1 toy7_tab3_2.
Proof. repeat split; apply zp_eq; vm_compute; reflexivity. Qed.

Lemma toy7_fp3_consts_ok : fp3_consts_ok 10 toy7 toy7_nr3.
Proof. split; intros; discriminate. Qed.

Theorem toy7_fp3_norm x :
  fp3_norm 10 toy7 toy7_nr3 toy7_tab3_1 toy7_tab3_2 x = Some (cnorm toy7 toy7_nr3 x).
Proof. exact (zp_fp3_norm 7 10 _ _ _ toy7_fp3_consts_ok toy7_fp3_tables_ok x). Qed.

(* the same configuration on the dictionary Run.v executes (ZpOps 7, plain integers), all 343
   elements evaluated in the kernel: never None, value = cnorm *)
Definition range7 : list Z := [0; 1; 2; 3; 4; 5; 6].
Definition toy7_exec_check : bool :=
  forallb (fun x0 => forallb (fun x1 => forallb (fun x2 =>
    match fp3_norm 10 (ZpOps 7) 3 [1; 2; 4] [1; 4; 2] (x0, x1, x2) with
    | Some n => n =? cnorm (ZpOps 7) 3 (x0, x1, x2)
    | None => false
    end) range7) range7) range7.
Lemma toy7_exec_ok : toy7_exec_check = true.
Proof. vm_compute. reflexivity. Qed.

(* toy7: F_7[u]/(u^2 + 1), [v]/(v^3 - (1 + 2u)): the 3-over-2 shape *)
Definition toy7_nr2 : Zp 7 := zp_mk 7 6.
Definition toy49 : Fops (Zp 7 * Zp 7) := Fp2 10 toy7 toy7_nr2.
Definition toy7_xi : Zp 7 * Zp 7 := (zp_mk 7 1, zp_mk 7 2).
Definition toy7_tab2 : list (Zp 7) := map (fun k => fpow toy7 toy7_nr2 ((7 ^ k - 1) / 2)) [0; 1].
Definition toy7_tab6_1 : list (Zp 7 * Zp 7) :=
  map (fun k => fpow toy49 toy7_xi ((7 ^ k - 1) / 3)) [0; 1; 2; 3; 4; 5].
Definition toy7_tab6_2 : list (Zp 7 * Zp 7) :=
  map (fun k => fpow toy49 toy7_xi ((2 * 7 ^ k - 2) / 3)) [0; 1; 2; 3; 4; 5].

Lemma zp_pair_eq p (a b : Zp p * Zp p) :
  zp_val (fst a) = zp_val (fst b) -> zp_val (snd a) = zp_val (snd b) -> a = b.
Proof. destruct a, b; cbn [fst snd]. intros H1 H2. f_equal; apply zp_eq; assumption. Qed.

Lemma toy7_fp6a_tables_ok : fp6a_norm_tables_ok 10 toy7 toy7_nr2 toy7_tab2 toy7_tab6_1 toy7_tab6_2.
Proof.
  split; [apply zp_eq; vm_compute; reflexivity|].
  repeat split; apply zp_pair_eq; vm_compute; reflexivity.
Qed.

Lemma toy7_fp6a_consts_ok : fp2_consts_ok 10 toy7 toy7_nr2 /\ fp6a_consts_ok 10 toy7 toy7_xi.
Proof. split; repeat split; intros; discriminate. Qed.

Theorem toy7_fp6a_norm x :
  fp6a_norm 10 toy7 toy7_nr2 toy7_tab2 toy7_xi toy7_tab6_1 toy7_tab6_2 x = Some (cnorm toy49 toy7_xi x).
Proof.
  exact (zp_fp6a_norm 7 10 _ _ _ _ _ (proj1 toy7_fp6a_consts_ok) (proj2 toy7_fp6a_consts_ok)
           toy7_fp6a_tables_ok x).
Qed.

(* cnorm_mul on a concrete product in F_7[X]/(X^3 - 3) *)
Lemma cnorm_mul_example :
  cnorm (ZpS 7) toy7_nr3 (cmul (ZpS 7) toy7_nr3 (zp_mk 7 1, zp_mk 7 2, zp_mk 7 3) (zp_mk 7 4, zp_mk 7 5, zp_mk 7 6))
  = fmul (ZpS 7) (cnorm (ZpS 7) toy7_nr3 (zp_mk 7 1, zp_mk 7 2, zp_mk 7 3))
                 (cnorm (ZpS 7) toy7_nr3 (zp_mk 7 4, zp_mk 7 5, zp_mk 7 6)) /\
  zp_val (cnorm (ZpS 7) toy7_nr3 (zp_mk 7 1, zp_mk 7 2, zp_mk 7 3)) = 4.
Proof. split; [apply zp_eq|]; vm_compute; reflexivity. Qed.
