(* C02 proofs -- the cubic template equals schoolbook arithmetic in B[X]/(X^3 - nr),
   for every commutative ring B. *)
From V Require Import Base.Field C02.Cubic.
Require Import Ring.

Section CubicProofs.
  Context {T : Type} (B : Fops T).
  Hypothesis Rth : ring_theory (f0 B) (f1 B) (fadd B) (fmul B) (fsub B) (fneg B) eq.
  Add Ring BRing3 : Rth.
  Local Notation zero := (f0 B). Local Notation one := (f1 B).
  Local Notation "a + b" := (fadd B a b). Local Notation "a - b" := (fsub B a b).
  Local Notation "a * b" := (fmul B a b). Local Notation "- a" := (fneg B a).

  Variable nr : T.
  Variable mul_nr : T -> T.
  Hypothesis mul_nr_spec : forall y, mul_nr y = nr * y.

  Ltac triples :=
    repeat match goal with x : (_ * _)%type |- _ => destruct x end; cbn [fst snd c0 c1 c2].
  Ltac tri_eq := repeat (apply f_equal2); try ring.

  Theorem cubic_mul_spec a b : cubic_mul B mul_nr a b = cmul B nr a b.
  Proof.
    triples. unfold cubic_mul, cmul, c0, c1, c2; cbn [fst snd]. rewrite !mul_nr_spec.
    f_equal; [f_equal|]; ring.
  Qed.

  Theorem cubic_square_spec a : cubic_square B mul_nr a = cmul B nr a a.
  Proof.
    triples. unfold cubic_square, cmul, c0, c1, c2; cbn [fst snd]. rewrite !mul_nr_spec.
    f_equal; [f_equal|]; ring.
  Qed.

  (* the quantity inverted by Alg. 17: the norm of a over B *)
  Definition cnorm (a : T * T * T) : T :=
    let t0 := c0 a * c0 a - nr * (c1 a * c2 a) in
    let t1 := nr * (c2 a * c2 a) - c0 a * c1 a in
    let t2 := c1 a * c1 a - c0 a * c2 a in
    c0 a * t0 + nr * (c2 a * t1 + c1 a * t2).

  Theorem cubic_inverse_spec a r :
    cubic_inverse B mul_nr a = CubicInvSome r ->
    cnorm a * finv B (cnorm a) = one ->
    cmul B nr a r = (one, zero, zero).
  Proof.
    destruct a as [[a0 a1] a2]. unfold cubic_inverse, cmul, c0, c1, c2; cbn [fst snd].
    rewrite !mul_nr_spec.
    destruct (cubic_is_zero B (a0, a1, a2)); [discriminate|].
    match goal with |- context [fis0 B ?v] => set (n := v) end.
    destruct (fis0 B n); [discriminate|].
    intros H Hn. inversion H; subst r; clear H. cbn [fst snd].
    assert (En : cnorm (a0, a1, a2) = n)
      by (unfold cnorm, n, c0, c1, c2; cbn [fst snd]; ring).
    rewrite En in Hn.
    f_equal; [f_equal|].
    - transitivity (n * finv B n); [unfold n; ring | exact Hn].
    - transitivity (zero * finv B n); [unfold n; ring | ring].
    - transitivity (zero * finv B n); [unfold n; ring | ring].
  Qed.

  (* the inverse exists (no None, no panic) as soon as a is non-zero with non-zero norm *)
  Theorem cubic_inverse_total a :
    cubic_is_zero B a = false -> fis0 B (cnorm a) = false ->
    exists r, cubic_inverse B mul_nr a = CubicInvSome r.
  Proof.
    destruct a as [[a0 a1] a2]. unfold cubic_inverse, c0, c1, c2; cbn [fst snd].
    rewrite !mul_nr_spec. intros Hz. rewrite Hz.
    intros Hn.
    match goal with |- context [if fis0 B ?v then _ else _] =>
      replace v with (cnorm (a0, a1, a2)) by (unfold cnorm, c0, c1, c2; cbn [fst snd]; ring) end.
    rewrite Hn. eexists; reflexivity.
  Qed.

  Theorem cubic_mul_by_basefield_spec a e :
    cubic_mul_by_basefield B a e = cmul B nr a (e, zero, zero).
  Proof.
    triples. unfold cubic_mul_by_basefield, cmul, c0, c1, c2; cbn [fst snd].
    f_equal; [f_equal|]; ring.
  Qed.

  Theorem cubicops_ring :
    let Q := CubicOps B nr in
    ring_theory (f0 Q) (f1 Q) (fadd Q) (fmul Q) (fsub Q) (fneg Q) eq.
  Proof.
    cbn. constructor; intros; triples;
      unfold cadd, cmul, csub, cneg, c0, c1, c2; cbn [fst snd]; (f_equal; [f_equal|]); ring.
  Qed.

  Theorem cubicM_ring :
    let Q := CubicM B mul_nr in
    ring_theory (f0 Q) (f1 Q) (fadd Q) (fmul Q) (fsub Q) (fneg Q) eq.
  Proof.
    cbn. pose proof cubicops_ring as R. cbn in R.
    constructor; intros; rewrite ?cubic_mul_spec.
    - apply (Radd_0_l R). - apply (Radd_comm R). - apply (Radd_assoc R).
    - apply (Rmul_1_l R). - apply (Rmul_comm R). - apply (Rmul_assoc R).
    - apply (Rdistr_l R). - apply (Rsub_def R). - apply (Ropp_def R).
  Qed.

  (* ---- Frobenius: ring endomorphism when c1^3 * nr = frobB(nr) and c2 = c1^2 ---- *)
  Section Frobenius.
    Variable frobB : T -> T.
    Variable coef1 coef2 : T -> T.
    Variable k1 k2 : T.
    Hypothesis frobB_add : forall x y, frobB (x + y) = frobB x + frobB y.
    Hypothesis frobB_mul : forall x y, frobB (x * y) = frobB x * frobB y.
    Hypothesis coef1_spec : forall y, coef1 y = y * k1.
    Hypothesis coef2_spec : forall y, coef2 y = y * k2.
    Hypothesis k2_eq : k2 = k1 * k1.
    Hypothesis k1_eq : k1 * k1 * k1 * nr = frobB nr.

    Theorem cubic_frobenius_add a b :
      cubic_frobenius frobB coef1 coef2 (cadd B a b) =
      cadd B (cubic_frobenius frobB coef1 coef2 a) (cubic_frobenius frobB coef1 coef2 b).
    Proof.
      triples. unfold cubic_frobenius, cadd, c0, c1, c2; cbn [fst snd].
      rewrite ?coef1_spec, ?coef2_spec, ?frobB_add. f_equal; [f_equal|]; ring.
    Qed.

    Theorem cubic_frobenius_mul a b :
      cubic_frobenius frobB coef1 coef2 (cmul B nr a b) =
      cmul B nr (cubic_frobenius frobB coef1 coef2 a) (cubic_frobenius frobB coef1 coef2 b).
    Proof.
      triples. unfold cubic_frobenius, cmul, c0, c1, c2; cbn [fst snd].
      rewrite ?coef1_spec, ?coef2_spec.
      repeat rewrite ?frobB_add, ?frobB_mul.
      rewrite <- k1_eq, k2_eq. f_equal; [f_equal|]; ring.
    Qed.
  End Frobenius.
End CubicProofs.
