(* C02 proofs -- Granger-Scott cyclotomic squaring and cyclotomic exponentiation. *)
From V Require Import Base.Field C02.Quad C02.Cubic C02.Towers C02.QuadProofs C02.CubicProofs.
Require Import Ring Lia.

(* ---------------- Granger-Scott ---------------- *)
Section GS.
  Context {T : Type} (B : Fops T).     (* B = Fp2 *)
  Hypothesis Rth : ring_theory (f0 B) (f1 B) (fadd B) (fmul B) (fsub B) (fneg B) eq.
  Add Ring BRingG : Rth.
  Local Notation zero := (f0 B). Local Notation one := (f1 B).
  Local Notation "a + b" := (fadd B a b). Local Notation "a - b" := (fsub B a b).
  Local Notation "a * b" := (fmul B a b). Local Notation "- a" := (fneg B a).
  Variable xi : T.
  Variable fp2_nr : T -> T.
  Hypothesis fp2_nr_spec : forall y, fp2_nr y = xi * y.

  (* Fp4 = B[s]/(s^2 - xi);  Fp12 = Fp4[w]/(w^3 - s) with
     x = (r0 + r1 s) + (r2 + r3 s) w + (r4 + r5 s) w^2, stored as
     c0 = (r0, r4, r3), c1 = (r2, r1, r5) over Fp6 = B[v]/(v^3 - xi), v = w^2. *)
  Local Notation m4 := (qmul B xi).
  Definition gs_a (x : (T * T * T) * (T * T * T)) : T * T := (c0 (fst x), c1 (snd x)).
  Definition gs_b (x : (T * T * T) * (T * T * T)) : T * T := (c0 (snd x), c2 (fst x)).
  Definition gs_c (x : (T * T * T) * (T * T * T)) : T * T := (c1 (fst x), c2 (snd x)).
  Definition s4 : T * T := (zero, one).

  (* the relations satisfied by the elements of the cyclotomic subgroup G_{Phi_6(p^2)}:
     the Fp4-conjugates of the coordinates are the cofactors of x (x^{-1} has coordinates
     (conj a, - conj b, conj c) and Norm_{Fp12/Fp4} x = 1) *)
  Definition gs_cyclotomic (x : (T * T * T) * (T * T * T)) : Prop :=
    let a := gs_a x in let b := gs_b x in let c := gs_c x in
    qsub B (m4 a a) (m4 s4 (m4 b c)) = quad_conjugate B a /\
    qsub B (m4 a b) (m4 s4 (m4 c c)) = quad_conjugate B b /\
    qsub B (m4 b b) (m4 a c) = quad_conjugate B c.

  Local Notation two := (one + one).

  Theorem gs_fp4_sq_spec u v : gs_fp4_sq B fp2_nr u v = m4 (u, v) (u, v).
  Proof. unfold gs_fp4_sq, qmul; cbn [fst snd]. rewrite !fp2_nr_spec. f_equal; ring. Qed.

  Ltac gs_try H :=
      match type of H with ?D = _ =>
        match goal with |- ?L = ?R =>
          first [ transitivity (R + (D + D)); [ring | rewrite H; ring]
                | transitivity (R - (D + D)); [ring | rewrite H; ring] ]
        end
      end.

  (* full statement: for every x of the cyclotomic subgroup of Fp12, cyclotomic_square x = x^2.
     Proved here with subgroup membership expressed by the coordinate relations
     `gs_cyclotomic` (that x^{Phi_12(p)} = 1 implies them needs Frobenius = p-power,
     not proved): hence `_partial`. *)
  Theorem gs_square_partial x :
    gs_cyclotomic x ->
    gs_square B fp2_nr x = qmul (CubicOps B xi) (zero, one, zero) x x.
  Proof.
    destruct x as [[[r0 r4] r3] [[r2 r1] r5]].
    unfold gs_cyclotomic, gs_a, gs_b, gs_c, s4, qsub, qmul, quad_conjugate, c0, c1, c2; cbn [fst snd].
    intros (Ha & Hb & Hc).
    injection Ha as Ha0 Ha1. injection Hb as Hb0 Hb1. injection Hc as Hc0 Hc1.
    unfold gs_square, c0, c1, c2; cbn [fst snd].
    rewrite !gs_fp4_sq_spec. unfold qmul; cbn [fst snd fadd fmul CubicOps].
    unfold cadd, cmul, c0, c1, c2; cbn [fst snd]. rewrite !fp2_nr_spec.
    assert (Za0 := f_equal (fun t => t - r0) Ha0).
    assert (Za1 := f_equal (fun t => t + r1) Ha1).
    assert (Zb0 := f_equal (fun t => t - r2) Hb0).
    assert (Zb1 := f_equal (fun t => t + r3) Hb1).
    assert (Zc0 := f_equal (fun t => t - r4) Hc0).
    assert (Zc1 := f_equal (fun t => t + r5) Hc1).
    cbv beta in *.
    replace (r0 - r0) with zero in Za0 by ring.
    replace (- r1 + r1) with zero in Za1 by ring.
    replace (r2 - r2) with zero in Zb0 by ring.
    replace (- r3 + r3) with zero in Zb1 by ring.
    replace (r4 - r4) with zero in Zc0 by ring.
    replace (- r5 + r5) with zero in Zc1 by ring.
    clear Ha0 Ha1 Hb0 Hb1 Hc0 Hc1.
    f_equal; (f_equal; [f_equal|]);
      first [gs_try Za0 | gs_try Za1 | gs_try Zb0 | gs_try Zb1 | gs_try Zc0 | gs_try Zc1].
  Qed.
End GS.

(* ---------------- cyclotomic exponentiation ---------------- *)
Section CycExpProofs.
  Context {E : Type} (F : Fops E).
  Hypothesis Rth : ring_theory (f0 F) (f1 F) (fadd F) (fmul F) (fsub F) (fneg F) eq.
  Add Ring ERing : Rth.
  Local Notation one := (f1 F).
  Local Notation "a * b" := (fmul F a b).

  Fixpoint npow (x : E) (n : nat) : E := match n with O => one | S k => x * npow x k end.
  Lemma npow_add x n m : npow x (n + m) = npow x n * npow x m.
  Proof. induction n; cbn [npow Nat.add]; [ring | rewrite IHn; ring]. Qed.

  (* specification-level power of Base.Field = iterated product *)
  Lemma fpow_pos_npow x q : fpow_pos F x q = npow x (Pos.to_nat q).
  Proof.
    induction q; cbn [fpow_pos].
    - rewrite IHq, Pos2Nat.inj_xI. cbn [npow]. replace (2 * Pos.to_nat q)%nat with (Pos.to_nat q + Pos.to_nat q)%nat by lia.
      rewrite npow_add. ring.
    - rewrite IHq, Pos2Nat.inj_xO. replace (2 * Pos.to_nat q)%nat with (Pos.to_nat q + Pos.to_nat q)%nat by lia.
      rewrite npow_add. reflexivity.
    - rewrite Pos2Nat.inj_1. cbn [npow]. ring.
  Qed.
  Theorem fpow_npow x e : 0 <= e -> fpow F x e = npow x (Z.to_nat e).
  Proof.
    destruct e; intros H; [reflexivity | | lia].
    unfold fpow. rewrite fpow_pos_npow. reflexivity.
  Qed.

  (* x^z for an integer z, given a candidate inverse xi *)
  Definition zpow (x xi : E) (z : Z) : E :=
    if 0 <=? z then npow x (Z.to_nat z) else npow xi (Z.to_nat (- z)).

  Definition digit_step (acc d : Z) : Z := 2 * acc + d.
  Definition eval_be (ds : list Z) : Z := fold_left digit_step ds 0.

  Section WithBase.
    Variable f fi : E.
    Variable cyc_square : E -> E.
    (* the set on which the fast squaring is valid (the cyclotomic subgroup) *)
    Variable P : E -> Prop.
    Hypothesis P_one : P one.
    Hypothesis P_mul : forall a b, P a -> P b -> P (a * b).
    Hypothesis P_f : P f.
    Hypothesis P_fi : P fi.
    Hypothesis sq_ok : forall y, P y -> cyc_square y = y * y.

    Lemma P_npow x n : P x -> P (npow x n).
    Proof. intros Hx. induction n; cbn [npow]; auto. Qed.
    Lemma P_zpow z : P (zpow f fi z).
    Proof. unfold zpow. destruct (0 <=? z); apply P_npow; assumption. Qed.

    Hypothesis inv_ok : f * fi = one.

    Lemma npow_cancel n : npow f n * npow fi n = one.
    Proof.
      induction n; cbn [npow]; [ring|].
      transitivity ((f * fi) * (npow f n * npow fi n)); [ring | rewrite IHn, inv_ok; ring].
    Qed.

    Lemma zpow_succ z : zpow f fi (z + 1) = zpow f fi z * f.
    Proof.
      unfold zpow. destruct (0 <=? z) eqn:Hz.
      - apply Z.leb_le in Hz. replace (0 <=? z + 1) with true by (symmetry; apply Z.leb_le; lia).
        replace (Z.to_nat (z + 1)) with (S (Z.to_nat z)) by lia. cbn [npow]. ring.
      - apply Z.leb_gt in Hz. destruct (Z.eq_dec z (-1)) as [->|Hn].
        + change (npow f 0 = npow fi 1 * f). cbn [npow].
          transitivity (f * fi); [symmetry; exact inv_ok | ring].
        + replace (0 <=? z + 1) with false by (symmetry; apply Z.leb_gt; lia).
          replace (Z.to_nat (- z)) with (S (Z.to_nat (- (z + 1)))) by lia. cbn [npow].
          transitivity ((f * fi) * npow fi (Z.to_nat (- (z + 1)))); [rewrite inv_ok; ring | ring].
    Qed.
    Lemma zpow_pred z : zpow f fi (z - 1) = zpow f fi z * fi.
    Proof.
      replace z with ((z - 1) + 1) at 2 by lia. rewrite zpow_succ.
      transitivity (zpow f fi (z - 1) * (f * fi)); [rewrite inv_ok; ring | ring].
    Qed.
    Lemma zpow_double z : zpow f fi (2 * z) = zpow f fi z * zpow f fi z.
    Proof.
      unfold zpow. destruct (0 <=? z) eqn:Hz.
      - apply Z.leb_le in Hz. replace (0 <=? 2 * z) with true by (symmetry; apply Z.leb_le; lia).
        replace (Z.to_nat (2 * z)) with (Z.to_nat z + Z.to_nat z)%nat by lia. apply npow_add.
      - apply Z.leb_gt in Hz. replace (0 <=? 2 * z) with false by (symmetry; apply Z.leb_gt; lia).
        replace (Z.to_nat (- (2 * z))) with (Z.to_nat (- z) + Z.to_nat (- z))%nat by lia. apply npow_add.
    Qed.

    Definition naf_digit (d : Z) : Prop := d = -1 \/ d = 0 \/ d = 1.

    Lemma exp_loop_go_spec ds : Forall naf_digit ds ->
      forall acc res found,
        res = zpow f fi acc -> (found = false -> acc = 0) ->
        exp_loop_go F cyc_square f fi true ds res found = zpow f fi (fold_left digit_step ds acc).
    Proof.
      induction 1 as [|d ds Hd Hds IH]; intros acc res found Hres Hfound; cbn [exp_loop_go fold_left].
      - exact Hres.
      - assert (Hres1 : (if found then cyc_square res else res) = zpow f fi (2 * acc)%Z).
        { destruct found.
          - rewrite sq_ok by (rewrite Hres; apply P_zpow). rewrite Hres. symmetry; apply zpow_double.
          - rewrite (Hfound eq_refl) in *. rewrite Hres. reflexivity. }
        rewrite Hres1. unfold digit_step at 2.
        destruct Hd as [-> | [-> | ->]]; cbn [Z.eqb Z.ltb Z.compare].
        + apply IH; [|discriminate]. replace (2 * acc + -1)%Z with (2 * acc - 1)%Z by lia. symmetry; apply zpow_pred.
        + apply IH; [|]. replace (2 * acc + 0)%Z with (2 * acc)%Z by lia. reflexivity.
          intros Hf. rewrite (Hfound Hf). reflexivity.
        + apply IH; [|discriminate]. symmetry; apply zpow_succ.
    Qed.

    (* exp_loop over signed digits (most significant first) computes f^(value of the digits) *)
    Theorem exp_loop_naf_spec ds : Forall naf_digit ds ->
      exp_loop F cyc_square f fi true ds = zpow f fi (eval_be ds).
    Proof.
      intros H. unfold exp_loop, eval_be. apply exp_loop_go_spec; auto.
    Qed.
  End WithBase.

  (* the plain square-and-multiply instance (INVERSE_IS_FAST = false): bits only, no inverse *)
  Section Bits.
    Variable f : E.
    Variable cyc_square : E -> E.
    Hypothesis sq_ok : forall y, cyc_square y = y * y.
    Definition bit_digit (d : Z) : Prop := d = 0 \/ d = 1.

    Lemma exp_loop_go_bits ds : Forall bit_digit ds ->
      forall acc res found junk,
        0 <= acc -> res = npow f (Z.to_nat acc) -> (found = false -> acc = 0) ->
        exp_loop_go F cyc_square f junk false ds res found = npow f (Z.to_nat (fold_left digit_step ds acc)).
    Proof.
      induction 1 as [|d ds Hd Hds IH]; intros acc res found junk Hacc Hres Hfound; cbn [exp_loop_go fold_left].
      - exact Hres.
      - assert (Hres1 : (if found then cyc_square res else res) = npow f (Z.to_nat (2 * acc)%Z)).
        { destruct found.
          - rewrite sq_ok, Hres. replace (Z.to_nat (2 * acc)%Z) with (Z.to_nat acc + Z.to_nat acc)%nat by lia.
            symmetry; apply npow_add.
          - rewrite (Hfound eq_refl) in *. rewrite Hres. reflexivity. }
        rewrite Hres1. unfold digit_step at 2.
        destruct Hd as [-> | ->]; cbn [Z.eqb Z.ltb Z.compare].
        + apply IH; [lia | f_equal; lia |]. intros Hf. rewrite (Hfound Hf). reflexivity.
        + apply IH; [lia | | discriminate].
          replace (Z.to_nat (2 * acc + 1)%Z) with (S (Z.to_nat (2 * acc)%Z)) by lia. cbn [npow]. ring.
    Qed.

    Lemma fold_bits_be_pos q : forall acc,
      fold_left digit_step (bits_be_pos q acc) 0 = fold_left digit_step acc (Zpos q).
    Proof.
      induction q; intros acc; cbn [bits_be_pos].
      - rewrite IHq. cbn [fold_left]. f_equal; try (unfold digit_step; lia).
      - rewrite IHq. cbn [fold_left]. f_equal; try (unfold digit_step; lia).
      - reflexivity.
    Qed.
    Lemma bits_be_pos_digits q : forall acc, Forall bit_digit acc -> Forall bit_digit (bits_be_pos q acc).
    Proof.
      induction q; intros acc H; cbn [bits_be_pos].
      - apply IHq. constructor; [right; reflexivity | exact H].
      - apply IHq. constructor; [left; reflexivity | exact H].
      - constructor; [right; reflexivity | exact H].
    Qed.

    (* exp_loop over BitIteratorBE::without_leading_zeros(e) computes f^e *)
    Theorem exp_loop_bits_spec e junk : 0 <= e ->
      exp_loop F cyc_square f junk false (bits_be e) = npow f (Z.to_nat e).
    Proof.
      intros He. unfold exp_loop. destruct e as [|q|q]; [reflexivity | | lia].
      cbn [bits_be]. rewrite (exp_loop_go_bits (bits_be_pos q []) (bits_be_pos_digits q [] (Forall_nil _)) 0 one false junk);
        [| lia | reflexivity | reflexivity].
      rewrite fold_bits_be_pos. reflexivity.
    Qed.
  End Bits.
End CycExpProofs.
