(* C02 -- concrete instances showing that the hypotheses of the property theorems are
   satisfiable: the ring of integers as base dictionary (Gaussian integers Z[i] as a
   quadratic extension), and a toy 2-3-2 tower over F_7 for the cyclotomic relations. *)
From V Require Import Base.Field C02.Quad C02.Cubic C02.Towers C02.QuadProofs C02.CubicProofs
  C02.TowerProofs C02.CycProofs.
Require Import Ring ZArithRing Lia.

Definition ZOps : Fops Z :=
  {| f0 := 0; f1 := 1; fadd := Z.add; fsub := Z.sub; fmul := Z.mul; fneg := Z.opp;
     finv := fun z => if (z =? 1) || (z =? -1) then z else 0;
     feqb := Z.eqb; fcoords := fun a => [a]; fof := hd 0; fdeg := 1%nat; fchar := 0 |}.

Lemma ZOps_ring : ring_theory (f0 ZOps) (f1 ZOps) (fadd ZOps) (fmul ZOps) (fsub ZOps) (fneg ZOps) eq.
Proof. exact Zth. Qed.
Lemma ZOps_eqb_sound : forall x y, feqb ZOps x y = true -> x = y.
Proof. intros x y H. apply Z.eqb_eq. exact H. Qed.

(* Z[i]: non-residue -1 with the default methods *)
Definition Zi_nrops : nrops Z := default_nrops ZOps (-1) (fun y => -1 * y).
Lemma Zi_nrops_ok : nrops_ok ZOps Zi_nrops.
Proof. apply default_nrops_ok; [exact ZOps_ring | reflexivity]. Qed.

Lemma quad_inverse_example :
  quad_inverse ZOps Zi_nrops (0, 1) = Some (0, -1) /\
  qnorm ZOps (-1) (0, 1) * finv ZOps (qnorm ZOps (-1) (0, 1)) = 1.
Proof. split; reflexivity. Qed.

Lemma cubic_inverse_example :
  cubic_inverse ZOps (fun y => 2 * y) (0, 1, 0) <> CubicInvNone (T := Z) /\
  cnorm ZOps 2 (0, 1, 0) = 2.
Proof. split; [vm_compute; discriminate | reflexivity]. Qed.

(* conj is the inverse on a norm-one element of Z[i] *)
Lemma cyclotomic_inverse_example :
  qmul ZOps (-1) (0, 1) (quad_conjugate ZOps (0, 1)) = (1, 0).
Proof. reflexivity. Qed.

(* Frobenius hypotheses: complex conjugation on Z[i] is the table-driven map with c = -1 *)
Lemma quad_frobenius_example :
  let c := -1 in c * c * -1 = (fun x : Z => x) (-1).
Proof. reflexivity. Qed.

(* toy tower F_7 -> F_49 = F_7[u]/(u^2+1) -> F_49[v]/(v^3 - xi) -> [w]/(w^2 - v), xi = 2 + u *)
Definition T7 : Fops Z := ZpOps 7.
Definition T49 : Fops (Z * Z) := QuadOps T7 6.
Definition toy_xi : Z * Z := (2, 1).
Definition T7_6 := CubicOps T49 toy_xi.
Definition T7_12 := QuadOps T7_6 ((0, 0), (1, 0), (0, 0)).
Definition toy_f : ((Z * Z) * (Z * Z) * (Z * Z)) * ((Z * Z) * (Z * Z) * (Z * Z)) :=
  (((1, 2), (3, 4), (5, 6)), ((0, 1), (2, 0), (3, 3))).
(* (7^12 - 1) / Phi_12(7) = (7^6 - 1)(7^2 + 1) *)
Definition toy_g := fpow T7_12 toy_f ((7 ^ 6 - 1) * (7 ^ 2 + 1)).

Definition pair_eqb (a b : Z * Z) : bool := (fst a =? fst b) && (snd a =? snd b).
Lemma pair_eqb_sound a b : pair_eqb a b = true -> a = b.
Proof.
  destruct a, b; unfold pair_eqb; cbn [fst snd]. intros H.
  apply andb_prop in H. destruct H as [H1 H2]. apply Z.eqb_eq in H1, H2. subst. reflexivity.
Qed.
Lemma pp_eq (a b : (Z * Z) * (Z * Z)) :
  pair_eqb (fst a) (fst b) && pair_eqb (snd a) (snd b) = true -> a = b.
Proof.
  destruct a, b; cbn [fst snd]. intros H. apply andb_prop in H. destruct H as [H1 H2].
  apply pair_eqb_sound in H1, H2. subst. reflexivity.
Qed.

Lemma gs_cyclotomic_example :
  gs_cyclotomic T49 toy_xi toy_g /\ toy_g <> f1 T7_12.
Proof.
  split.
  - unfold gs_cyclotomic. repeat split; apply pp_eq; vm_compute; reflexivity.
  - vm_compute. discriminate.
Qed.
