(* C02 proofs -- "Frobenius by k = raising to p^k", conditional form.
   Full statement wanted: for every shipped tower, frobenius_map(x, k) = x^(p^k).
   What is proved here (for every commutative ring B, every exponent n = p^k):
   the table-driven quadratic map equals x |-> x^n PROVIDED
     (i)   the base map is the n-th power map on B                    (induction over the tower),
     (ii)  (u + v)^n = u^n + v^n in the extension ("freshman's dream": true in
           characteristic p for n = p^k; a theorem of algebra, not re-proved here),
     (iii) X^n = c * X for the table entry c (a closed fact about the shipped constants).
   (ii) and (iii) are explicit premises: hence `_partial`.  The correspondence check closes
   the gap empirically (op frobenius_pow compares the table-driven model, the Rust
   frobenius_map and x^(p^k) computed by repeated squaring on every shipped tower). *)
From V Require Import Base.Field C02.Quad C02.Cubic C02.QuadProofs C02.CubicProofs C02.CycProofs.
Require Import Ring.

Section QuadFrobPow.
  Context {T : Type} (B : Fops T).
  Hypothesis Rth : ring_theory (f0 B) (f1 B) (fadd B) (fmul B) (fsub B) (fneg B) eq.
  Add Ring BRingF : Rth.
  Variable nr : T.
  Local Notation E := (QuadOps B nr).
  Local Notation zero := (f0 B). Local Notation one := (f1 B).
  Local Notation "a * b" := (fmul B a b).
  Lemma Eth : ring_theory (f0 E) (f1 E) (fadd E) (fmul E) (fsub E) (fneg E) eq.
  Proof. exact (quadops_ring B Rth nr). Qed.
  Add Ring ERingF : Eth.

  Lemma npow_embed a n : npow E (a, zero) n = (npow B a n, zero).
  Proof.
    induction n; cbn [npow]; [reflexivity|]. rewrite IHn.
    cbn [fmul QuadOps]. unfold qmul; cbn [fst snd]. f_equal; ring.
  Qed.
  Lemma npow_mul (u v : T * T) n : npow E (fmul E u v) n = fmul E (npow E u n) (npow E v n).
  Proof. induction n; cbn [npow]; [ring | rewrite IHn; ring]. Qed.

  Variable n : nat.
  Variable frobB : T -> T.
  Variable coef : T -> T.
  Variable c : T.
  Hypothesis frobB_pow : forall a, frobB a = npow B a n.
  Hypothesis coef_spec : forall y, coef y = y * c.
  Hypothesis freshman : forall u v, npow E (fadd E u v) n = fadd E (npow E u n) (npow E v n).
  Hypothesis gen_pow : npow E (zero, one) n = (zero, c).

  Theorem quad_frobenius_is_pow_partial x : quad_frobenius frobB coef x = npow E x n.
  Proof.
    destruct x as [a b].
    assert (Hx : (a, b) = fadd E (a, zero) (fmul E (b, zero) (zero, one))).
    { cbn [fadd fmul QuadOps]. unfold qadd, qmul; cbn [fst snd]. f_equal; ring. }
    rewrite Hx at 2. rewrite freshman, npow_mul, !npow_embed, gen_pow.
    unfold quad_frobenius; cbn [fst snd]. rewrite coef_spec, !frobB_pow.
    cbn [fadd fmul QuadOps]. unfold qadd, qmul; cbn [fst snd]. f_equal; ring.
  Qed.
End QuadFrobPow.

Section CubicFrobPow.
  Context {T : Type} (B : Fops T).
  Hypothesis Rth : ring_theory (f0 B) (f1 B) (fadd B) (fmul B) (fsub B) (fneg B) eq.
  Add Ring BRingF3 : Rth.
  Variable nr : T.
  Local Notation E := (CubicOps B nr).
  Local Notation zero := (f0 B). Local Notation one := (f1 B).
  Local Notation "a * b" := (fmul B a b).
  Lemma Eth3 : ring_theory (f0 E) (f1 E) (fadd E) (fmul E) (fsub E) (fneg E) eq.
  Proof. exact (cubicops_ring B Rth nr). Qed.
  Add Ring ERingF3 : Eth3.

  Lemma npow_embed3 a n : npow E (a, zero, zero) n = (npow B a n, zero, zero).
  Proof.
    induction n; cbn [npow]; [reflexivity|]. rewrite IHn.
    cbn [fmul CubicOps]. unfold cmul, c0, c1, c2; cbn [fst snd]. f_equal; [f_equal|]; ring.
  Qed.
  Lemma npow_mul3 (u v : T * T * T) n : npow E (fmul E u v) n = fmul E (npow E u n) (npow E v n).
  Proof. induction n; cbn [npow]; [ring | rewrite IHn; ring]. Qed.

  Variable n : nat.
  Variable frobB : T -> T.
  Variable coef1 coef2 : T -> T.
  Variable k1 k2 : T.
  Hypothesis frobB_pow : forall a, frobB a = npow B a n.
  Hypothesis coef1_spec : forall y, coef1 y = y * k1.
  Hypothesis coef2_spec : forall y, coef2 y = y * k2.
  Hypothesis freshman : forall u v, npow E (fadd E u v) n = fadd E (npow E u n) (npow E v n).
  Hypothesis gen_pow : npow E (zero, one, zero) n = (zero, k1, zero).
  Hypothesis gen2_pow : npow E (zero, zero, one) n = (zero, zero, k2).

  Theorem cubic_frobenius_is_pow_partial x : cubic_frobenius frobB coef1 coef2 x = npow E x n.
  Proof.
    destruct x as [[a b] d].
    assert (Hx : (a, b, d) = fadd E (fadd E (a, zero, zero) (fmul E (b, zero, zero) (zero, one, zero)))
                                    (fmul E (d, zero, zero) (zero, zero, one))).
    { cbn [fadd fmul CubicOps]. unfold cadd, cmul, c0, c1, c2; cbn [fst snd]. f_equal; [f_equal|]; ring. }
    rewrite Hx at 2. rewrite !freshman, !npow_mul3, !npow_embed3, gen_pow, gen2_pow.
    unfold cubic_frobenius, c0, c1, c2; cbn [fst snd]. rewrite coef1_spec, coef2_spec, !frobB_pow.
    cbn [fadd fmul CubicOps]. unfold cadd, cmul, c0, c1, c2; cbn [fst snd]. f_equal; [f_equal|]; ring.
  Qed.
End CubicFrobPow.
