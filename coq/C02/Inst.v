(* C02 model -- the shipped towers as instances of the templates over a prime-field
   dictionary Fp (Run.v passes ZpOps p).
   All constants (modulus, non-residues, Frobenius tables) are *arguments*: the harness
   dumps them from the Rust configurations and every case carries them.
   curve ids: 0 bls12_381, 1 bls12_377, 2 bn254, 3 mnt4_298, 4 mnt4_753, 5 mnt6_298,
              6 mnt6_753, 7 bw6_761, 8 bw6_767, 9 cp6_782 (the id only selects which
              per-curve override bodies are run). *)
From V Require Import Base.Field C15.BigIntModel C02.Quad C02.Cubic C02.Towers.

(* what the interpreter needs to know about one extension level *)
Record level (T0 E : Type) := mkLevel {
  lF : Fops E;                      (* fast-formula dictionary (mul, inverse) *)
  lS : Fops E;                      (* schoolbook dictionary (specification) *)
  lsquare : E -> E;
  linverse : E -> option (option E);   (* None = panic, Some None = None *)
  lfrob : Z -> E -> E;
  lmulfp : E -> T0 -> E;            (* mul_by_base_prime_field *)
  lcyc_square : E -> E;
  lcyc_inverse : E -> option (option E);
  linv_fast : bool                  (* CyclotomicMultSubgroup::INVERSE_IS_FAST *)
}.
Arguments lF {T0 E}. Arguments lS {T0 E}. Arguments lsquare {T0 E}. Arguments linverse {T0 E}.
Arguments lfrob {T0 E}. Arguments lmulfp {T0 E}. Arguments lcyc_square {T0 E}.
Arguments lcyc_inverse {T0 E}. Arguments linv_fast {T0 E}.

Definition tabsel {C : Type} (d : C) (tab : list C) (deg power : Z) : C :=
  nth (Z.to_nat (power mod deg)) tab d.

Fixpoint pairs_of {A} (l : list A) : list (A * A) :=
  match l with a :: b :: l' => (a, b) :: pairs_of l' | _ => [] end.

Section Towers.
  Variable cid : Z.
  Context {T0 : Type} (Fp : Fops T0).     (* the prime field; Run.v instantiates ZpOps p *)

  Definition cubic_inv_out {T} (r : cubic_inv_result (T := T)) : option (option (T * T * T)) :=
    match r with CubicInvNone => Some None | CubicInvPanic => None | CubicInvSome x => Some (Some x) end.

  (* ---------------- Fp2 ---------------- *)
  Variable nr2 : T0.
  Variable tab2 : list T0.
  Definition fp2_nrops : nrops T0 :=
    if cid =? 0 then nrops_bls12_381_fq2 Fp nr2
    else if cid =? 1 then nrops_bls12_377_fq2 Fp nr2
    else if cid =? 2 then nrops_bn254_fq2 Fp nr2
    else default_nrops Fp nr2 (fun fe => fmul Fp fe nr2).
  Definition Fp2 : Fops (T0 * T0) := QuadM Fp fp2_nrops.
  Definition Fp2S : Fops (T0 * T0) := QuadOps Fp nr2.
  Definition fp2_frob (k : Z) (x : T0 * T0) : T0 * T0 :=
    quad_frobenius (fun y => y) (fun y => fmul Fp y (tabsel (f0 Fp) tab2 2 k)) x.
  Definition fp2_mulfp (x : T0 * T0) (e : T0) : T0 * T0 := quad_mul_by_basefield Fp x e.
  Definition L2 : level T0 (T0 * T0) :=
    {| lF := Fp2; lS := Fp2S; lsquare := quad_square Fp fp2_nrops;
       linverse := fun x => Some (quad_inverse Fp fp2_nrops x);
       lfrob := fp2_frob; lmulfp := fp2_mulfp;
       lcyc_square := quad_square Fp fp2_nrops;
       lcyc_inverse := fun x => Some (quad_cyclotomic_inverse Fp x);
       linv_fast := true |}.

  (* ---------------- Fp3 ---------------- *)
  Variable nr3 : T0.
  Variable tab3_1 tab3_2 : list T0.
  Definition fp3_mul_nr : T0 -> T0 :=
    if cid =? 7 then mul_nr_bw6_761_fq3 Fp
    else if cid =? 9 then mul_nr_cp6_782_fq3 Fp
    else fun fe => fmul Fp fe nr3.
  Definition Fp3 : Fops (T0 * T0 * T0) := CubicM Fp fp3_mul_nr.
  Definition Fp3S : Fops (T0 * T0 * T0) := CubicOps Fp nr3.
  Definition fp3_frob (k : Z) (x : T0 * T0 * T0) : T0 * T0 * T0 :=
    cubic_frobenius (fun y => y) (fun y => fmul Fp y (tabsel (f0 Fp) tab3_1 3 k))
                    (fun y => fmul Fp y (tabsel (f0 Fp) tab3_2 3 k)) x.
  Definition fp3_mulfp (x : T0 * T0 * T0) (e : T0) := cubic_mul_by_basefield Fp x e.
  Definition fp3_norm (x : T0 * T0 * T0) : option T0 :=
    cubic_norm Fp fp3_mul_nr (fp3_frob 1) (fp3_frob 2) x.
  Definition L3 : level T0 (T0 * T0 * T0) :=
    {| lF := Fp3; lS := Fp3S; lsquare := cubic_square Fp fp3_mul_nr;
       linverse := fun x => cubic_inv_out (cubic_inverse Fp fp3_mul_nr x);
       lfrob := fp3_frob; lmulfp := fp3_mulfp;
       lcyc_square := cubic_square Fp fp3_mul_nr;
       lcyc_inverse := fun x => cubic_inv_out (cubic_inverse Fp fp3_mul_nr x);
       linv_fast := false |}.

  (* ---------------- Fp4 = Fp2[W]/(W^2 - U) ---------------- *)
  Variable nr4 : T0 * T0.            (* Fp4Config::NONRESIDUE (constant) *)
  Variable tab4 : list T0.
  Definition fp4_nrops : nrops (T0 * T0) :=
    default_nrops Fp2 nr4 (mul_nr_swap (nr_mul fp2_nrops)).
  Definition Fp4 : Fops ((T0 * T0) * (T0 * T0)) := QuadM Fp2 fp4_nrops.
  Definition Fp4S : Fops ((T0 * T0) * (T0 * T0)) := QuadOps Fp2S nr4.
  Definition fp4_frob (k : Z) (x : (T0 * T0) * (T0 * T0)) :=
    quad_frobenius (fp2_frob k) (fun y => quad_mul_by_basefield Fp y (tabsel (f0 Fp) tab4 4 k)) x.
  Definition fp4_mulfp (x : (T0 * T0) * (T0 * T0)) (e : T0) := (fp2_mulfp (fst x) e, fp2_mulfp (snd x) e).
  Definition L4 : level T0 ((T0 * T0) * (T0 * T0)) :=
    {| lF := Fp4; lS := Fp4S; lsquare := quad_square Fp2 fp4_nrops;
       linverse := fun x => Some (quad_inverse Fp2 fp4_nrops x);
       lfrob := fp4_frob; lmulfp := fp4_mulfp;
       lcyc_square := quad_square Fp2 fp4_nrops;
       lcyc_inverse := fun x => Some (quad_cyclotomic_inverse Fp2 x);
       linv_fast := true |}.

  (* ---------------- Fp6 (2 over 3) = Fp3[W]/(W^2 - V) ---------------- *)
  Variable nr6b : T0 * T0 * T0.       (* fp6_2over3::Fp6Config::NONRESIDUE (constant) *)
  Variable tab6b : list T0.
  Definition fp6b_nrops : nrops (T0 * T0 * T0) :=
    default_nrops Fp3 nr6b (mul_nr_rot fp3_mul_nr).
  Definition Fp6b : Fops ((T0 * T0 * T0) * (T0 * T0 * T0)) := QuadM Fp3 fp6b_nrops.
  Definition Fp6bS : Fops ((T0 * T0 * T0) * (T0 * T0 * T0)) := QuadOps Fp3S nr6b.
  Definition fp6b_frob (k : Z) x :=
    quad_frobenius (fp3_frob k) (fun y => cubic_mul_by_basefield Fp y (tabsel (f0 Fp) tab6b 6 k)) x.
  Definition fp6b_mulfp (x : (T0 * T0 * T0) * (T0 * T0 * T0)) (e : T0) := (fp3_mulfp (fst x) e, fp3_mulfp (snd x) e).
  Definition L6b : level T0 ((T0 * T0 * T0) * (T0 * T0 * T0)) :=
    {| lF := Fp6b; lS := Fp6bS; lsquare := quad_square Fp3 fp6b_nrops;
       linverse := fun x => Some (quad_inverse Fp3 fp6b_nrops x);
       lfrob := fp6b_frob; lmulfp := fp6b_mulfp;
       lcyc_square := quad_square Fp3 fp6b_nrops;
       lcyc_inverse := fun x => Some (quad_cyclotomic_inverse Fp3 x);
       linv_fast := true |}.

  (* ---------------- Fp6 (3 over 2) = Fp2[V]/(V^3 - xi) ---------------- *)
  Variable nr6 : T0 * T0.            (* fp6_3over2::Fp6Config::NONRESIDUE *)
  Variable tab6_1 tab6_2 : list (T0 * T0).
  Definition fp6a_mul_nr : T0 * T0 -> T0 * T0 :=
    if cid =? 0 then mul_nr_bls12_381_fq6 Fp
    else if cid =? 1 then mul_nr_bls12_377_fq6 (nr_mul fp2_nrops)
    else if cid =? 2 then mul_nr_bn254_fq6 Fp (nr_mul fp2_nrops)
    else fun fe => fmul Fp2 fe nr6.
  Definition Fp6a : Fops ((T0 * T0) * (T0 * T0) * (T0 * T0)) := CubicM Fp2 fp6a_mul_nr.
  Definition Fp6aS : Fops ((T0 * T0) * (T0 * T0) * (T0 * T0)) := CubicOps Fp2S nr6.
  Definition fp6a_frob (k : Z) x :=
    cubic_frobenius (fp2_frob k) (fun y => fmul Fp2 y (tabsel (f0 Fp, f0 Fp) tab6_1 6 k))
                    (fun y => fmul Fp2 y (tabsel (f0 Fp, f0 Fp) tab6_2 6 k)) x.
  Definition fp6a_mulfp (x : (T0 * T0) * (T0 * T0) * (T0 * T0)) (e : T0) :=
    (fp2_mulfp (c0 x) e, fp2_mulfp (c1 x) e, fp2_mulfp (c2 x) e).
  Definition fp6a_norm x : option (T0 * T0) :=
    cubic_norm Fp2 fp6a_mul_nr (fp6a_frob 2) (fp6a_frob 4) x.
  Definition L6a : level T0 ((T0 * T0) * (T0 * T0) * (T0 * T0)) :=
    {| lF := Fp6a; lS := Fp6aS; lsquare := cubic_square Fp2 fp6a_mul_nr;
       linverse := fun x => cubic_inv_out (cubic_inverse Fp2 fp6a_mul_nr x);
       lfrob := fp6a_frob; lmulfp := fp6a_mulfp;
       lcyc_square := cubic_square Fp2 fp6a_mul_nr;
       lcyc_inverse := fun x => cubic_inv_out (cubic_inverse Fp2 fp6a_mul_nr x);
       linv_fast := false |}.

  (* ---------------- Fp12 = Fp6[W]/(W^2 - V) ---------------- *)
  Definition E6 : Type := ((T0 * T0) * (T0 * T0) * (T0 * T0))%type.
  Variable nr12 : E6.              (* Fp12Config::NONRESIDUE (constant) *)
  Variable tab12 : list (T0 * T0).
  Definition fp12_mul_nr : E6 -> E6 := mul_nr_rot fp6a_mul_nr.
  Definition fp12_nrops : nrops E6 := default_nrops Fp6a nr12 fp12_mul_nr.
  Definition Fp12 : Fops (E6 * E6) := QuadM Fp6a fp12_nrops.
  Definition Fp12S : Fops (E6 * E6) := QuadOps Fp6aS nr12.
  Definition fp12_frob (k : Z) (x : E6 * E6) : E6 * E6 :=
    quad_frobenius (fp6a_frob k)
      (fun y => cubic_mul_by_basefield Fp2 y (tabsel (f0 Fp, f0 Fp) tab12 12 k)) x.
  Definition fp12_mulfp (x : E6 * E6) (e : T0) := (fp6a_mulfp (fst x) e, fp6a_mulfp (snd x) e).
  Definition fp12_cyc_square (x : E6 * E6) : E6 * E6 :=
    if char_sq_mod6_is_one (fchar Fp) then gs_square Fp2 fp6a_mul_nr x
    else quad_square Fp6a fp12_nrops x.
  Definition L12 : level T0 (E6 * E6) :=
    {| lF := Fp12; lS := Fp12S; lsquare := quad_square Fp6a fp12_nrops;
       linverse := fun x => Some (quad_inverse Fp6a fp12_nrops x);
       lfrob := fp12_frob; lmulfp := fp12_mulfp;
       lcyc_square := fp12_cyc_square;
       lcyc_inverse := fun x => Some (quad_cyclotomic_inverse Fp6a x);
       linv_fast := true |}.
End Towers.

(* cyclotomic_exp_in_place *)
Definition cyclotomic_exp {T0 E} (L : level T0 E) (x : E) (e : list Z) : option E :=
  if fis0 (lF L) x then Some x
  else if linv_fast L then
    match find_naf e, lcyc_inverse L x with
    | Some naf, Some (Some xi) => Some (exp_loop (lF L) (lcyc_square L) x xi true (rev naf))
    | _, _ => None
    end
  else Some (exp_loop (lF L) (lcyc_square L) x (f1 (lF L)) false (bits_be (Word.val e))).
