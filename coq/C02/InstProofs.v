(* C02 proofs -- the shipped tower shapes, assembled: at every level the fast-formula
   dictionary multiplies exactly like the schoolbook tower built from the same constants,
   for every prime-field dictionary that is a commutative ring.  The only premises on the
   constants are the ones the per-curve override bodies hard-wire (e.g. bls12_381:
   NONRESIDUE of Fq2 is -1, of Fq6 is 1 + u) and the structural generators
   (Fp4/Fp6(2 over 3)/Fp12 non-residue = generator of the level below). *)
From V Require Import Base.Field C02.Quad C02.Cubic C02.Towers C02.Inst
  C02.QuadProofs C02.CubicProofs C02.TowerProofs C02.CycProofs C02.ZpInst.
Require Import Ring.

Definition dict_eq {T} (A B : Fops T) : Prop :=
  f0 A = f0 B /\ f1 A = f1 B /\
  (forall x y, fadd A x y = fadd B x y) /\ (forall x y, fsub A x y = fsub B x y) /\
  (forall x y, fmul A x y = fmul B x y) /\ (forall x, fneg A x = fneg B x).

Lemma dict_eq_refl {T} (A : Fops T) : dict_eq A A.
Proof. repeat split. Qed.

Lemma qmul_ext {T} (A B : Fops T) nr : dict_eq A B -> forall x y, qmul A nr x y = qmul B nr x y.
Proof. intros (_ & _ & Ha & _ & Hm & _) x y. unfold qmul. rewrite !Hm, !Ha. reflexivity. Qed.
Lemma cmul_ext {T} (A B : Fops T) nr : dict_eq A B -> forall x y, cmul A nr x y = cmul B nr x y.
Proof. intros (_ & _ & Ha & _ & Hm & _) x y. unfold cmul. rewrite !Hm, !Ha. reflexivity. Qed.

Lemma quad_dict_eq {T} (A B : Fops T) (N : nrops T) nr :
  dict_eq A B -> (forall x y, quad_mul A N x y = qmul A nr x y) ->
  dict_eq (QuadM A N) (QuadOps B nr).
Proof.
  intros D Hmul. pose proof D as (H0 & H1 & Ha & Hs & Hm & Hn).
  unfold dict_eq; cbn [f0 f1 fadd fsub fmul fneg QuadM QuadOps].
  repeat split; intros.
  - rewrite H0; reflexivity. - rewrite H0, H1; reflexivity.
  - unfold qadd. rewrite !Ha. reflexivity.
  - unfold qsub. rewrite !Hs. reflexivity.
  - rewrite Hmul. apply qmul_ext, D.
  - unfold qneg. rewrite !Hn. reflexivity.
Qed.
Lemma cubic_dict_eq {T} (A B : Fops T) (mul_nr : T -> T) nr :
  dict_eq A B -> (forall x y, cubic_mul A mul_nr x y = cmul A nr x y) ->
  dict_eq (CubicM A mul_nr) (CubicOps B nr).
Proof.
  intros D Hmul. pose proof D as (H0 & H1 & Ha & Hs & Hm & Hn).
  unfold dict_eq; cbn [f0 f1 fadd fsub fmul fneg CubicM CubicOps].
  repeat split; intros.
  - rewrite H0; reflexivity. - rewrite H0, H1; reflexivity.
  - unfold cadd. rewrite !Ha. reflexivity.
  - unfold csub. rewrite !Hs. reflexivity.
  - rewrite Hmul. apply cmul_ext, D.
  - unfold cneg. rewrite !Hn. reflexivity.
Qed.

Lemma quadops_dict_eq {T} (A B : Fops T) nr : dict_eq A B -> dict_eq (QuadOps A nr) (QuadOps B nr).
Proof.
  intros D. pose proof D as (H0 & H1 & Ha & Hs & Hm & Hn).
  unfold dict_eq; cbn [f0 f1 fadd fsub fmul fneg QuadOps].
  repeat split; intros.
  - rewrite H0; reflexivity. - rewrite H0, H1; reflexivity.
  - unfold qadd. rewrite !Ha. reflexivity.
  - unfold qsub. rewrite !Hs. reflexivity.
  - apply qmul_ext, D.
  - unfold qneg. rewrite !Hn. reflexivity.
Qed.
Lemma cubicops_dict_eq {T} (A B : Fops T) nr : dict_eq A B -> dict_eq (CubicOps A nr) (CubicOps B nr).
Proof.
  intros D. pose proof D as (H0 & H1 & Ha & Hs & Hm & Hn).
  unfold dict_eq; cbn [f0 f1 fadd fsub fmul fneg CubicOps].
  repeat split; intros.
  - rewrite H0; reflexivity. - rewrite H0, H1; reflexivity.
  - unfold cadd. rewrite !Ha. reflexivity.
  - unfold csub. rewrite !Hs. reflexivity.
  - apply cmul_ext, D.
  - unfold cneg. rewrite !Hn. reflexivity.
Qed.

Lemma qeqb_sound {T} (B : Fops T) :
  (forall x y, feqb B x y = true -> x = y) -> forall x y, qeqb B x y = true -> x = y.
Proof.
  intros H [x0 x1] [y0 y1]. unfold qeqb; cbn [fst snd]. intros E.
  apply andb_prop in E. destruct E as [E0 E1]. rewrite (H _ _ E0), (H _ _ E1). reflexivity.
Qed.
Lemma ceqb_sound {T} (B : Fops T) :
  (forall x y, feqb B x y = true -> x = y) -> forall x y, ceqb B x y = true -> x = y.
Proof.
  intros H [[x0 x1] x2] [[y0 y1] y2]. unfold ceqb, c0, c1, c2; cbn [fst snd]. intros E.
  apply andb_prop in E. destruct E as [E E2]. apply andb_prop in E. destruct E as [E0 E1].
  rewrite (H _ _ E0), (H _ _ E1), (H _ _ E2). reflexivity.
Qed.

Section InstProofs.
  Variable cid : Z.
  Context {T0 : Type} (Fp : Fops T0).
  Hypothesis Rth : ring_theory (f0 Fp) (f1 Fp) (fadd Fp) (fmul Fp) (fsub Fp) (fneg Fp) eq.
  Add Ring FpRing : Rth.
  Hypothesis eqb_sound : forall x y, feqb Fp x y = true -> x = y.
  Local Notation zero := (f0 Fp). Local Notation one := (f1 Fp).
  Local Notation "a + b" := (fadd Fp a b). Local Notation "a * b" := (fmul Fp a b).
  Local Notation "- a" := (fneg Fp a).
  Local Notation two := (one + one).
  Local Notation four := (two + two).

  Ltac case_cid c := destruct (cid =? c) eqn:?E;
    [apply Z.eqb_eq in E | clear E].

  (* ---------------- Fp2 ---------------- *)
  Variable nr2 : T0.
  (* what the override bodies of the curve crates hard-wire *)
  Definition fp2_consts_ok : Prop :=
    (cid = 0 -> nr2 = - one) /\ (cid = 1 -> nr2 = - (four + one)) /\ (cid = 2 -> nr2 = - one).
  Hypothesis C2 : fp2_consts_ok.

  Lemma fp2_nr_const : nr_const (fp2_nrops cid Fp nr2) = nr2.
  Proof. unfold fp2_nrops. case_cid 0; [reflexivity|]. case_cid 1; [reflexivity|]. case_cid 2; reflexivity. Qed.
  Theorem fp2_nrops_ok : nrops_ok Fp (fp2_nrops cid Fp nr2).
  Proof.
    destruct C2 as (H0 & H1 & H2). unfold fp2_nrops.
    case_cid 0; [apply nrops_bls12_381_fq2_ok; auto|].
    case_cid 1; [apply nrops_bls12_377_fq2_ok; auto|].
    case_cid 2; [apply nrops_bn254_fq2_ok; auto|].
    apply default_nrops_ok; [exact Rth|]. intros; ring.
  Qed.
  Lemma fp2_nr_mul_spec y : nr_mul (fp2_nrops cid Fp nr2) y = nr2 * y.
  Proof. destruct fp2_nrops_ok as (H & _). rewrite H, fp2_nr_const. reflexivity. Qed.

  Theorem fp2_ring :
    let Q := Fp2 cid Fp nr2 in ring_theory (f0 Q) (f1 Q) (fadd Q) (fmul Q) (fsub Q) (fneg Q) eq.
  Proof. apply quadM_ring; [exact Rth | exact fp2_nrops_ok]. Qed.
  Theorem fp2_mul_spec x y : fmul (Fp2 cid Fp nr2) x y = qmul Fp nr2 x y.
  Proof. cbn [fmul Fp2 QuadM]. rewrite quad_mul_spec by (exact Rth || exact fp2_nrops_ok). rewrite fp2_nr_const. reflexivity. Qed.
  Theorem fp2_dict_eq : dict_eq (Fp2 cid Fp nr2) (Fp2S Fp nr2).
  Proof.
    apply quad_dict_eq; [apply dict_eq_refl|]. intros. rewrite quad_mul_spec by (exact Rth || exact fp2_nrops_ok).
    rewrite fp2_nr_const. reflexivity.
  Qed.

  (* ---------------- Fp4 ---------------- *)
  Theorem fp4_nrops_ok : nrops_ok (Fp2 cid Fp nr2) (fp4_nrops cid Fp nr2 (zero, one)).
  Proof.
    apply default_nrops_ok; [exact fp2_ring|]. intros y.
    rewrite fp2_mul_spec. apply mul_nr_swap_spec; [exact Rth | exact fp2_nr_mul_spec].
  Qed.
  Theorem fp4_mul_spec x y :
    fmul (Fp4 cid Fp nr2 (zero, one)) x y = fmul (Fp4S Fp nr2 (zero, one)) x y.
  Proof.
    cbn [fmul Fp4 Fp4S QuadM QuadOps].
    rewrite quad_mul_spec by (exact fp2_ring || exact fp4_nrops_ok).
    apply qmul_ext, fp2_dict_eq.
  Qed.

  (* ---------------- Fp3, Fp6 (2 over 3) ---------------- *)
  Variable nr3 : T0.
  Definition fp3_consts_ok : Prop :=
    (cid = 7 -> nr3 = - four) /\ (cid = 9 -> nr3 = (four + four + four + one)).
  Hypothesis C3 : fp3_consts_ok.
  Theorem fp3_mul_nr_spec y : fp3_mul_nr cid Fp nr3 y = nr3 * y.
  Proof.
    destruct C3 as (H7 & H9). unfold fp3_mul_nr.
    case_cid 7; [rewrite (H7 E); apply mul_nr_bw6_761_fq3_spec; exact Rth|].
    case_cid 9; [rewrite (H9 E); apply mul_nr_cp6_782_fq3_spec; exact Rth|].
    ring.
  Qed.
  Theorem fp3_ring :
    let Q := Fp3 cid Fp nr3 in ring_theory (f0 Q) (f1 Q) (fadd Q) (fmul Q) (fsub Q) (fneg Q) eq.
  Proof. apply (cubicM_ring Fp Rth nr3); exact fp3_mul_nr_spec. Qed.
  Theorem fp3_mul_spec x y : fmul (Fp3 cid Fp nr3) x y = cmul Fp nr3 x y.
  Proof. cbn [fmul Fp3 CubicM]. apply cubic_mul_spec; [exact Rth | exact fp3_mul_nr_spec]. Qed.
  Theorem fp3_dict_eq : dict_eq (Fp3 cid Fp nr3) (Fp3S Fp nr3).
  Proof. apply cubic_dict_eq; [apply dict_eq_refl|]. intros. apply cubic_mul_spec; [exact Rth | exact fp3_mul_nr_spec]. Qed.

  Theorem fp6b_nrops_ok : nrops_ok (Fp3 cid Fp nr3) (fp6b_nrops cid Fp nr3 (zero, one, zero)).
  Proof.
    apply default_nrops_ok; [exact fp3_ring|]. intros y.
    rewrite fp3_mul_spec. apply mul_nr_rot_spec; [exact Rth | exact fp3_mul_nr_spec].
  Qed.
  Theorem fp6b_mul_spec x y :
    fmul (Fp6b cid Fp nr3 (zero, one, zero)) x y = fmul (Fp6bS Fp nr3 (zero, one, zero)) x y.
  Proof.
    cbn [fmul Fp6b Fp6bS QuadM QuadOps].
    rewrite quad_mul_spec by (exact fp3_ring || exact fp6b_nrops_ok).
    apply qmul_ext, fp3_dict_eq.
  Qed.

  (* ---------------- Fp6 (3 over 2), Fp12 ---------------- *)
  Variable nr6 : T0 * T0.
  Definition fp6a_consts_ok : Prop :=
    (cid = 0 -> nr6 = (one, one)) /\ (cid = 1 -> nr6 = (zero, one)) /\
    (cid = 2 -> nr6 = (four + four + one, one)).
  Hypothesis C6 : fp6a_consts_ok.
  Theorem fp6a_mul_nr_spec y : fp6a_mul_nr cid Fp nr2 nr6 y = fmul (Fp2 cid Fp nr2) nr6 y.
  Proof.
    destruct C6 as (H0 & H1 & H2). destruct C2 as (K0 & K1 & K2). unfold fp6a_mul_nr.
    case_cid 0.
    { rewrite fp2_mul_spec, (H0 E), (K0 E). apply mul_nr_bls12_381_fq6_spec; exact Rth. }
    case_cid 1.
    { rewrite fp2_mul_spec, (H1 E). apply mul_nr_bls12_377_fq6_spec; [exact Rth | exact fp2_nr_mul_spec]. }
    case_cid 2.
    { rewrite fp2_mul_spec, (H2 E). apply mul_nr_bn254_fq6_spec; [exact Rth | exact fp2_nr_mul_spec]. }
    apply (Rmul_comm fp2_ring).
  Qed.
  Theorem fp6a_ring :
    let Q := Fp6a cid Fp nr2 nr6 in ring_theory (f0 Q) (f1 Q) (fadd Q) (fmul Q) (fsub Q) (fneg Q) eq.
  Proof. apply (cubicM_ring (Fp2 cid Fp nr2) fp2_ring nr6); exact fp6a_mul_nr_spec. Qed.
  Theorem fp6a_mul_spec x y : fmul (Fp6a cid Fp nr2 nr6) x y = fmul (Fp6aS Fp nr2 nr6) x y.
  Proof.
    cbn [fmul Fp6a Fp6aS CubicM CubicOps].
    rewrite (cubic_mul_spec (Fp2 cid Fp nr2) fp2_ring nr6) by exact fp6a_mul_nr_spec.
    apply cmul_ext, fp2_dict_eq.
  Qed.
  Theorem fp6a_dict_eq : dict_eq (Fp6a cid Fp nr2 nr6) (Fp6aS Fp nr2 nr6).
  Proof.
    apply cubic_dict_eq; [exact fp2_dict_eq|]. intros.
    apply (cubic_mul_spec (Fp2 cid Fp nr2) fp2_ring nr6); exact fp6a_mul_nr_spec.
  Qed.

  Local Notation z2 := ((zero, zero) : T0 * T0).
  Local Notation o2 := ((one, zero) : T0 * T0).
  Local Notation V6 := ((z2, o2, z2) : (T0 * T0) * (T0 * T0) * (T0 * T0)).
  Theorem fp12_mul_nr_spec y :
    fp12_mul_nr cid Fp nr2 nr6 y = fmul (Fp6a cid Fp nr2 nr6) V6 y.
  Proof.
    unfold fp12_mul_nr. cbn [fmul Fp6a CubicM].
    rewrite (cubic_mul_spec (Fp2 cid Fp nr2) fp2_ring nr6) by exact fp6a_mul_nr_spec.
    apply (mul_nr_rot_spec (Fp2 cid Fp nr2) fp2_ring nr6). exact fp6a_mul_nr_spec.
  Qed.
  Theorem fp12_nrops_ok : nrops_ok (Fp6a cid Fp nr2 nr6) (fp12_nrops cid Fp nr2 nr6 V6).
  Proof. apply default_nrops_ok; [exact fp6a_ring | exact fp12_mul_nr_spec]. Qed.
  Theorem fp12_mul_spec x y :
    fmul (Fp12 cid Fp nr2 nr6 V6) x y = fmul (Fp12S Fp nr2 nr6 V6) x y.
  Proof.
    cbn [fmul Fp12 Fp12S QuadM QuadOps].
    rewrite quad_mul_spec by (exact fp6a_ring || exact fp12_nrops_ok).
    apply qmul_ext, fp6a_dict_eq.
  Qed.

  (* ---------------- squares ---------------- *)
  Theorem fp2_square_spec x : quad_square Fp (fp2_nrops cid Fp nr2) x = qmul Fp nr2 x x.
  Proof. rewrite quad_square_spec by (exact Rth || exact fp2_nrops_ok || exact eqb_sound). rewrite fp2_nr_const. reflexivity. Qed.
  Lemma fp2_eqb_sound : forall x y, feqb (Fp2 cid Fp nr2) x y = true -> x = y.
  Proof. exact (qeqb_sound Fp eqb_sound). Qed.
  Theorem fp4_square_spec x :
    quad_square (Fp2 cid Fp nr2) (fp4_nrops cid Fp nr2 (zero, one)) x = fmul (Fp4S Fp nr2 (zero, one)) x x.
  Proof.
    rewrite quad_square_spec by (exact fp2_ring || exact fp4_nrops_ok || exact fp2_eqb_sound).
    cbn [fmul Fp4S QuadOps]. apply qmul_ext, fp2_dict_eq.
  Qed.
  Theorem fp3_square_spec x : cubic_square Fp (fp3_mul_nr cid Fp nr3) x = cmul Fp nr3 x x.
  Proof. apply cubic_square_spec; [exact Rth | exact fp3_mul_nr_spec]. Qed.
  Lemma fp3_eqb_sound : forall x y, feqb (Fp3 cid Fp nr3) x y = true -> x = y.
  Proof. exact (ceqb_sound Fp eqb_sound). Qed.
  Theorem fp6b_square_spec x :
    quad_square (Fp3 cid Fp nr3) (fp6b_nrops cid Fp nr3 (zero, one, zero)) x =
    fmul (Fp6bS Fp nr3 (zero, one, zero)) x x.
  Proof.
    rewrite quad_square_spec by (exact fp3_ring || exact fp6b_nrops_ok || exact fp3_eqb_sound).
    cbn [fmul Fp6bS QuadOps]. apply qmul_ext, fp3_dict_eq.
  Qed.
  Theorem fp6a_square_spec x :
    cubic_square (Fp2 cid Fp nr2) (fp6a_mul_nr cid Fp nr2 nr6) x = fmul (Fp6aS Fp nr2 nr6) x x.
  Proof.
    rewrite (cubic_square_spec (Fp2 cid Fp nr2) fp2_ring nr6) by exact fp6a_mul_nr_spec.
    cbn [fmul Fp6aS CubicOps]. apply cmul_ext, fp2_dict_eq.
  Qed.
  Lemma fp6a_eqb_sound : forall x y, feqb (Fp6a cid Fp nr2 nr6) x y = true -> x = y.
  Proof. exact (ceqb_sound (Fp2 cid Fp nr2) fp2_eqb_sound). Qed.
  Theorem fp12_square_spec x :
    quad_square (Fp6a cid Fp nr2 nr6) (fp12_nrops cid Fp nr2 nr6 V6) x = fmul (Fp12S Fp nr2 nr6 V6) x x.
  Proof.
    rewrite quad_square_spec by (exact fp6a_ring || exact fp12_nrops_ok || exact fp6a_eqb_sound).
    cbn [fmul Fp12S QuadOps]. apply qmul_ext, fp6a_dict_eq.
  Qed.

  (* ---------------- Fp12 sparse products and cyclotomic square, assembled ---------------- *)
  Lemma fp12_mul_nr_cmul y :
    fp12_mul_nr cid Fp nr2 nr6 y = cmul (Fp2 cid Fp nr2) nr6 V6 y.
  Proof.
    unfold fp12_mul_nr. apply (mul_nr_rot_spec (Fp2 cid Fp nr2) fp2_ring nr6). exact fp6a_mul_nr_spec.
  Qed.
  Lemma fp12S_via_fast x y :
    qmul (CubicOps (Fp2 cid Fp nr2) nr6) V6 x y = fmul (Fp12S Fp nr2 nr6 V6) x y.
  Proof. cbn [fmul Fp12S QuadOps]. apply qmul_ext, cubicops_dict_eq, fp2_dict_eq. Qed.

  Theorem fp12_mul_by_034_inst s e0 e3 e4 :
    fp12_mul_by_034 (Fp2 cid Fp nr2) (fp6a_mul_nr cid Fp nr2 nr6) (Fp6a cid Fp nr2 nr6)
                    (fp12_mul_nr cid Fp nr2 nr6) s e0 e3 e4 =
    fmul (Fp12S Fp nr2 nr6 V6) s ((e0, z2, z2), (e3, e4, z2)).
  Proof.
    rewrite (fp12_mul_by_034_spec (Fp2 cid Fp nr2) fp2_ring nr6 _ fp6a_mul_nr_spec
               (Fp6a cid Fp nr2 nr6) eq_refl eq_refl _ fp12_mul_nr_cmul).
    apply fp12S_via_fast.
  Qed.
  Theorem fp12_mul_by_014_inst s e0 e1 e4 :
    fp12_mul_by_014 (Fp2 cid Fp nr2) (fp6a_mul_nr cid Fp nr2 nr6) (Fp6a cid Fp nr2 nr6)
                    (fp12_mul_nr cid Fp nr2 nr6) s e0 e1 e4 =
    fmul (Fp12S Fp nr2 nr6 V6) s ((e0, e1, z2), (z2, e4, z2)).
  Proof.
    rewrite (fp12_mul_by_014_spec (Fp2 cid Fp nr2) fp2_ring nr6 _ fp6a_mul_nr_spec
               (Fp6a cid Fp nr2 nr6) eq_refl eq_refl _ fp12_mul_nr_cmul).
    apply fp12S_via_fast.
  Qed.

  (* full statement: for x in the cyclotomic subgroup, cyclotomic_square x = x^2; membership is
     expressed by the Granger-Scott coordinate relations (see CycProofs.gs_square_partial) *)
  Theorem fp12_cyc_square_partial x :
    gs_cyclotomic (Fp2 cid Fp nr2) nr6 x ->
    fp12_cyc_square cid Fp nr2 nr6 V6 x = fmul (Fp12S Fp nr2 nr6 V6) x x.
  Proof.
    intros H. unfold fp12_cyc_square. destruct (char_sq_mod6_is_one (fchar Fp)).
    - rewrite (gs_square_partial (Fp2 cid Fp nr2) fp2_ring nr6 _ fp6a_mul_nr_spec x H).
      apply fp12S_via_fast.
    - apply fp12_square_spec.
  Qed.
End InstProofs.

(* ---------------- closed corollaries over the integers modulo p ---------------- *)
Section OverZp.
  Variable p : Z.
  Variable cid : Z.
  Local Notation K := (ZpS p).
  Local Notation zero := (f0 K). Local Notation one := (f1 K).
  Local Notation z2 := ((zero, zero) : Zp p * Zp p).
  Local Notation V6 := ((z2, (one, zero), z2) : (Zp p * Zp p) * (Zp p * Zp p) * (Zp p * Zp p)).

  Theorem zp_fp2_mul nr2 : fp2_consts_ok cid K nr2 ->
    forall x y, fmul (Fp2 cid K nr2) x y = qmul K nr2 x y.
  Proof. intros C. exact (fp2_mul_spec cid K (ZpS_ring p) nr2 C). Qed.
  Theorem zp_fp3_mul nr3 : fp3_consts_ok cid K nr3 ->
    forall x y, fmul (Fp3 cid K nr3) x y = cmul K nr3 x y.
  Proof. intros C. exact (fp3_mul_spec cid K (ZpS_ring p) nr3 C). Qed.
  Theorem zp_fp4_mul nr2 : fp2_consts_ok cid K nr2 ->
    forall x y, fmul (Fp4 cid K nr2 (zero, one)) x y = fmul (Fp4S K nr2 (zero, one)) x y.
  Proof. intros C. exact (fp4_mul_spec cid K (ZpS_ring p) nr2 C). Qed.
  Theorem zp_fp6b_mul nr3 : fp3_consts_ok cid K nr3 ->
    forall x y, fmul (Fp6b cid K nr3 (zero, one, zero)) x y = fmul (Fp6bS K nr3 (zero, one, zero)) x y.
  Proof. intros C. exact (fp6b_mul_spec cid K (ZpS_ring p) nr3 C). Qed.
  Theorem zp_fp6a_mul nr2 nr6 : fp2_consts_ok cid K nr2 -> fp6a_consts_ok cid K nr6 ->
    forall x y, fmul (Fp6a cid K nr2 nr6) x y = fmul (Fp6aS K nr2 nr6) x y.
  Proof. intros C C'. exact (fp6a_mul_spec cid K (ZpS_ring p) nr2 C nr6 C'). Qed.
  Theorem zp_fp12_mul nr2 nr6 : fp2_consts_ok cid K nr2 -> fp6a_consts_ok cid K nr6 ->
    forall x y, fmul (Fp12 cid K nr2 nr6 V6) x y = fmul (Fp12S K nr2 nr6 V6) x y.
  Proof. intros C C'. exact (fp12_mul_spec cid K (ZpS_ring p) nr2 C nr6 C'). Qed.
  Theorem zp_fp12_square nr2 nr6 : fp2_consts_ok cid K nr2 -> fp6a_consts_ok cid K nr6 ->
    forall x, quad_square (Fp6a cid K nr2 nr6) (fp12_nrops cid K nr2 nr6 V6) x = fmul (Fp12S K nr2 nr6 V6) x x.
  Proof. intros C C'. exact (fp12_square_spec cid K (ZpS_ring p) (ZpS_eqb_sound p) nr2 C nr6 C'). Qed.
  Theorem zp_fp12_mul_by_034 nr2 nr6 : fp2_consts_ok cid K nr2 -> fp6a_consts_ok cid K nr6 ->
    forall s e0 e3 e4,
    fp12_mul_by_034 (Fp2 cid K nr2) (fp6a_mul_nr cid K nr2 nr6) (Fp6a cid K nr2 nr6)
                    (fp12_mul_nr cid K nr2 nr6) s e0 e3 e4 =
    fmul (Fp12S K nr2 nr6 V6) s ((e0, z2, z2), (e3, e4, z2)).
  Proof. intros C C'. exact (fp12_mul_by_034_inst cid K (ZpS_ring p) nr2 C nr6 C'). Qed.
  Theorem zp_fp12_mul_by_014 nr2 nr6 : fp2_consts_ok cid K nr2 -> fp6a_consts_ok cid K nr6 ->
    forall s e0 e1 e4,
    fp12_mul_by_014 (Fp2 cid K nr2) (fp6a_mul_nr cid K nr2 nr6) (Fp6a cid K nr2 nr6)
                    (fp12_mul_nr cid K nr2 nr6) s e0 e1 e4 =
    fmul (Fp12S K nr2 nr6 V6) s ((e0, e1, z2), (z2, e4, z2)).
  Proof. intros C C'. exact (fp12_mul_by_014_inst cid K (ZpS_ring p) nr2 C nr6 C'). Qed.
  Theorem zp_fp12_cyc_square_partial nr2 nr6 : fp2_consts_ok cid K nr2 -> fp6a_consts_ok cid K nr6 ->
    forall x, gs_cyclotomic (Fp2 cid K nr2) nr6 x ->
    fp12_cyc_square cid K nr2 nr6 V6 x = fmul (Fp12S K nr2 nr6 V6) x x.
  Proof. intros C C'. exact (fp12_cyc_square_partial cid K (ZpS_ring p) (ZpS_eqb_sound p) nr2 C nr6 C'). Qed.
End OverZp.

(* the constants premises are satisfiable: bls12_381-shaped tower (cid 0) over any p *)
Lemma consts_example p :
  fp2_consts_ok 0 (ZpS p) (fneg (ZpS p) (f1 (ZpS p))) /\
  fp6a_consts_ok 0 (ZpS p) (f1 (ZpS p), f1 (ZpS p)).
Proof. split; repeat split; intros; try reflexivity; discriminate. Qed.
