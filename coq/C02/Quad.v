(* C02 model -- quadratic extension template (ff/src/fields/models/quadratic_extension.rs).
   Executable definitions only (no proofs).  The base field is an `Fops` dictionary B; the
   non-residue comes as the record `nrops`: the constant `P::NONRESIDUE` (used by
   `square_in_place` to choose the complex path) and the four specialisable methods
   `mul_base_field_by_nonresidue_in_place`, `..._and_add`, `..._plus_one_and_add`,
   `sub_and_mul_base_field_by_nonresidue` (curve crates override them). *)
From V Require Import Base.Field.

Record nrops (T : Type) := mkNr {
  nr_const : T;                  (* P::NONRESIDUE *)
  nr_mul : T -> T;               (* mul_base_field_by_nonresidue_in_place(fe) *)
  nr_mul_add : T -> T -> T;      (* (y, x) |-> x + NONRESIDUE * y *)
  nr_p1_add : T -> T -> T;       (* (y, x) |-> x + NONRESIDUE * y + y *)
  nr_sub : T -> T -> T           (* (y, x) |-> x - NONRESIDUE * y *)
}.
Arguments nr_const {T}. Arguments nr_mul {T}. Arguments nr_mul_add {T}.
Arguments nr_p1_add {T}. Arguments nr_sub {T}.

Section QuadModel.
  Context {T : Type} (B : Fops T).
  Local Notation "a + b" := (fadd B a b). Local Notation "a - b" := (fsub B a b).
  Local Notation "a * b" := (fmul B a b).

  (* the trait's default bodies, built from one `mul_nr` function *)
  Definition default_nrops (nr : T) (mul_nr : T -> T) : nrops T :=
    {| nr_const := nr;
       nr_mul := mul_nr;
       nr_mul_add := fun y x => mul_nr y + x;
       nr_p1_add := fun y x => (mul_nr y + x) + y;
       nr_sub := fun y x => x - mul_nr y |}.

  Variable N : nrops T.

  (* Field::sum_of_products on two-element arrays *)
  Definition sop2 (a0 a1 b0 b1 : T) : T := a0 * b0 + a1 * b1.

  (* mul_assign, branch `Self::extension_degree() == 2` *)
  Definition quad_mul_sop (a b : T * T) : T * T :=
    let a1n := nr_mul N (snd a) in
    (sop2 (fst a) a1n (fst b) (snd b), sop2 (fst a) (snd a) (snd b) (fst b)).

  (* mul_assign, Karatsuba branch (Guide to PBC, Alg. 5.16) *)
  Definition quad_mul_karatsuba (a b : T * T) : T * T :=
    let v0 := fst a * fst b in
    let v1 := snd a * snd b in
    let c1 := ((snd a + fst a) * (fst b + snd b) - v0) - v1 in
    (nr_mul_add N v1 v0, c1).

  Definition quad_is_deg2 : bool := Nat.eqb (fdeg B) 1.
  Definition quad_mul (a b : T * T) : T * T :=
    if quad_is_deg2 then quad_mul_sop a b else quad_mul_karatsuba a b.

  (* square_in_place, branch NONRESIDUE == -ONE *)
  Definition quad_square_complex (a : T * T) : T * T :=
    let c0_copy := fst a in
    let v0 := fst a - snd a in
    let c0 := (fst a + snd a) * v0 in
    let c1 := (snd a + snd a) * c0_copy in
    (c0, c1).

  (* square_in_place, general branch *)
  Definition quad_square_general (a : T * T) : T * T :=
    let v0 := fst a - snd a in
    let v3 := nr_sub N (snd a) (fst a) in
    let v2 := fst a * snd a in
    let v0' := v0 * v3 in
    let c1 := v2 + v2 in
    (nr_p1_add N v2 v0', c1).

  Definition quad_nr_is_minus_one : bool := feqb B (nr_const N) (fneg B (f1 B)).
  Definition quad_square (a : T * T) : T * T :=
    if quad_nr_is_minus_one then quad_square_complex a else quad_square_general a.

  (* norm: c0^2 - NONRESIDUE * c1^2 through sub_and_mul_base_field_by_nonresidue *)
  Definition quad_norm (a : T * T) : T :=
    nr_sub N (snd a * snd a) (fst a * fst a).

  Definition quad_is_zero (a : T * T) : bool := fis0 B (fst a) && fis0 B (snd a).

  (* inverse (Guide to PBC, Alg. 5.19): None for zero and when the norm has no inverse *)
  Definition quad_inverse (a : T * T) : option (T * T) :=
    if quad_is_zero a then None
    else
      let v1 := snd a * snd a in
      let v0 := nr_sub N v1 (fst a * fst a) in
      if fis0 B v0 then None
      else let i := finv B v0 in Some (fst a * i, fneg B (snd a * i)).

  Definition quad_conjugate (a : T * T) : T * T := (fst a, fneg B (snd a)).
  Definition quad_mul_by_basefield (a : T * T) (e : T) : T * T := (fst a * e, snd a * e).

  (* frobenius_map_in_place: both coordinates through the base Frobenius, then c1 times
     the coefficient selected by `power mod degree` (the selection is done by the caller,
     which hands over `coef` = multiplication by that table entry) *)
  Definition quad_frobenius (frobB : T -> T) (coef : T -> T) (a : T * T) : T * T :=
    (frobB (fst a), coef (frobB (snd a))).

  (* CyclotomicMultSubgroup for Fp2/Fp4/Fp6(2 over 3)/Fp12: inverse = conjugate, None on 0 *)
  Definition quad_cyclotomic_inverse (a : T * T) : option (T * T) :=
    if quad_is_zero a then None else Some (quad_conjugate a).

  (* the field dictionary whose multiplication / inversion are the fast formulas above;
     additive part and coordinates are those of the schoolbook quotient *)
  Definition QuadM : Fops (T * T) :=
    {| f0 := (f0 B, f0 B); f1 := (f1 B, f0 B);
       fadd := qadd B; fsub := qsub B; fmul := quad_mul; fneg := qneg B;
       finv := fun a => match quad_inverse a with Some r => r | None => (f0 B, f0 B) end;
       feqb := qeqb B;
       fcoords := fun a => fcoords B (fst a) ++ fcoords B (snd a);
       fof := fun l => (fof B l, fof B (skipn (fdeg B) l));
       fdeg := (2 * fdeg B)%nat; fchar := fchar B |}.
End QuadModel.
