(* C02 proofs -- the quadratic template equals schoolbook arithmetic in B[X]/(X^2 - nr),
   for every commutative ring B (so: every level of every tower, all elements). *)
From V Require Import Base.Field C02.Quad.
Require Import Ring.

Section QuadProofs.
  Context {T : Type} (B : Fops T).
  Hypothesis Rth : ring_theory (f0 B) (f1 B) (fadd B) (fmul B) (fsub B) (fneg B) eq.
  Add Ring BRing : Rth.
  Local Notation zero := (f0 B). Local Notation one := (f1 B).
  Local Notation "a + b" := (fadd B a b). Local Notation "a - b" := (fsub B a b).
  Local Notation "a * b" := (fmul B a b). Local Notation "- a" := (fneg B a).

  (* what it means for the four specialisable methods to implement the non-residue nr *)
  Definition nrops_ok (N : nrops T) : Prop :=
    (forall y, nr_mul N y = nr_const N * y) /\
    (forall y x, nr_mul_add N y x = x + nr_const N * y) /\
    (forall y x, nr_p1_add N y x = x + nr_const N * y + y) /\
    (forall y x, nr_sub N y x = x - nr_const N * y).

  Lemma default_nrops_ok nr mul_nr :
    (forall y, mul_nr y = nr * y) -> nrops_ok (default_nrops B nr mul_nr).
  Proof.
    intros H. unfold nrops_ok, default_nrops; cbn [nr_mul nr_mul_add nr_p1_add nr_sub nr_const].
    repeat split; intros; rewrite ?H; ring.
  Qed.

  Variable N : nrops T.
  Hypothesis Nok : nrops_ok N.
  Local Notation nr := (nr_const N).

  Ltac use_nr :=
    pose proof Nok as (Hm & Hma & Hp1 & Hs);
    rewrite ?Hm, ?Hma, ?Hp1, ?Hs.
  Ltac pairs :=
    repeat match goal with x : (_ * _)%type |- _ => destruct x end; cbn [fst snd].

  Lemma quad_mul_sop_spec a b : quad_mul_sop B N a b = qmul B nr a b.
  Proof. pairs. unfold quad_mul_sop, sop2, qmul; cbn [fst snd]. use_nr. f_equal; ring. Qed.

  Lemma quad_mul_karatsuba_spec a b : quad_mul_karatsuba B N a b = qmul B nr a b.
  Proof. pairs. unfold quad_mul_karatsuba, qmul; cbn [fst snd]. use_nr. f_equal; ring. Qed.

  Theorem quad_mul_spec a b : quad_mul B N a b = qmul B nr a b.
  Proof.
    unfold quad_mul. destruct (quad_is_deg2 B).
    - apply quad_mul_sop_spec.
    - apply quad_mul_karatsuba_spec.
  Qed.

  Lemma quad_square_complex_spec a : nr = - one -> quad_square_complex B a = qmul B nr a a.
  Proof. intros H. pairs. unfold quad_square_complex, qmul; cbn [fst snd]. rewrite H. f_equal; ring. Qed.

  Lemma quad_square_general_spec a : quad_square_general B N a = qmul B nr a a.
  Proof. pairs. unfold quad_square_general, qmul; cbn [fst snd]. use_nr. f_equal; ring. Qed.

  (* the complex path is selected by the executable test `NONRESIDUE == -ONE` *)
  Hypothesis eqb_sound : forall x y, feqb B x y = true -> x = y.
  Theorem quad_square_spec a : quad_square B N a = qmul B nr a a.
  Proof.
    unfold quad_square, quad_nr_is_minus_one.
    destruct (feqb B nr (- one)) eqn:E.
    - apply quad_square_complex_spec, eqb_sound, E.
    - apply quad_square_general_spec.
  Qed.

  Theorem quad_norm_spec a : quad_norm B N a = qnorm B nr a.
  Proof. pairs. unfold quad_norm, qnorm; cbn [fst snd]. use_nr. ring. Qed.

  (* Norm(a) = a * conj(a) *)
  Theorem quad_norm_conj a : qmul B nr a (quad_conjugate B a) = (quad_norm B N a, zero).
  Proof. pairs. unfold quad_norm, qmul, quad_conjugate; cbn [fst snd]. use_nr. f_equal; ring. Qed.

  (* inverse: correct whenever the norm is invertible (in a field: whenever a <> zero) *)
  Theorem quad_inverse_spec a r :
    quad_inverse B N a = Some r ->
    qnorm B nr a * finv B (qnorm B nr a) = one ->
    qmul B nr a r = (one, zero).
  Proof.
    destruct a as [a0 a1]. unfold quad_inverse, qnorm, qmul; cbn [fst snd]. use_nr.
    destruct (quad_is_zero B (a0, a1)); [discriminate|].
    set (n := a0 * a0 - nr * (a1 * a1)).
    destruct (fis0 B n); [discriminate|].
    intros H Hn. inversion H; subst r; clear H. cbn [fst snd].
    f_equal.
    - transitivity (n * finv B n); [unfold n; ring | exact Hn].
    - ring.
  Qed.

  (* the model returns None exactly on zero and on a non-invertible (zero) norm *)
  Theorem quad_inverse_none a :
    quad_inverse B N a = None -> quad_is_zero B a = true \/ fis0 B (qnorm B nr a) = true.
  Proof.
    destruct a as [a0 a1]. unfold quad_inverse, qnorm; cbn [fst snd]. use_nr.
    destruct (quad_is_zero B (a0, a1)); [left; reflexivity|].
    destruct (fis0 B (a0 * a0 - nr * (a1 * a1))); [right; reflexivity | discriminate].
  Qed.

  (* cyclotomic inverse: on elements with x * conj(x) = one the conjugate is the inverse *)
  Theorem quad_cyclotomic_inverse_spec a :
    qmul B nr a (quad_conjugate B a) = (one, zero) ->
    forall r, quad_cyclotomic_inverse B a = Some r -> qmul B nr a r = (one, zero).
  Proof.
    intros H r. unfold quad_cyclotomic_inverse. destruct (quad_is_zero B a); [discriminate|].
    intros E; inversion E; subst r; exact H.
  Qed.

  Theorem quad_mul_by_basefield_spec a e :
    quad_mul_by_basefield B a e = qmul B nr a (e, zero).
  Proof. pairs. unfold quad_mul_by_basefield, qmul; cbn [fst snd]. f_equal; ring. Qed.

  (* ---- the schoolbook quotient, and the fast dictionary, are commutative rings ---- *)
  Theorem quadops_ring (c : T) :
    let Q := QuadOps B c in
    ring_theory (f0 Q) (f1 Q) (fadd Q) (fmul Q) (fsub Q) (fneg Q) eq.
  Proof.
    cbn. constructor; intros; pairs;
      unfold qadd, qmul, qsub, qneg; cbn [fst snd]; f_equal; ring.
  Qed.

  Theorem quadM_ring :
    let Q := QuadM B N in
    ring_theory (f0 Q) (f1 Q) (fadd Q) (fmul Q) (fsub Q) (fneg Q) eq.
  Proof.
    cbn. pose proof (quadops_ring nr) as R. cbn in R.
    constructor; intros; rewrite ?quad_mul_spec.
    - apply (Radd_0_l R). - apply (Radd_comm R). - apply (Radd_assoc R).
    - apply (Rmul_1_l R). - apply (Rmul_comm R). - apply (Rmul_assoc R).
    - apply (Rdistr_l R). - apply (Rsub_def R). - apply (Ropp_def R).
  Qed.

  (* ---- Frobenius: the table-driven map is a ring endomorphism of B[X]/(X^2 - nr) as soon
     as the base map is one and the coefficient c satisfies c^2 * nr = frobB(nr) ---- *)
  Section Frobenius.
    Variable frobB : T -> T.
    Variable coef : T -> T.
    Variable c : T.
    Hypothesis frobB_add : forall x y, frobB (x + y) = frobB x + frobB y.
    Hypothesis frobB_mul : forall x y, frobB (x * y) = frobB x * frobB y.
    Hypothesis coef_spec : forall y, coef y = y * c.
    Hypothesis coef_eq : c * c * nr = frobB nr.

    Theorem quad_frobenius_add a b :
      quad_frobenius frobB coef (qadd B a b) = qadd B (quad_frobenius frobB coef a) (quad_frobenius frobB coef b).
    Proof.
      pairs. unfold quad_frobenius, qadd; cbn [fst snd].
      rewrite ?coef_spec, ?frobB_add. f_equal; ring.
    Qed.

    Theorem quad_frobenius_mul a b :
      quad_frobenius frobB coef (qmul B nr a b) = qmul B nr (quad_frobenius frobB coef a) (quad_frobenius frobB coef b).
    Proof.
      pairs. unfold quad_frobenius, qmul; cbn [fst snd].
      rewrite ?coef_spec, ?frobB_add, ?frobB_mul, ?frobB_add, ?frobB_mul, <- coef_eq. f_equal; ring.
    Qed.

    Theorem quad_frobenius_base (e : T) : quad_frobenius frobB coef (e, zero) = (frobB e, frobB zero * c).
    Proof. unfold quad_frobenius; cbn [fst snd]. rewrite coef_spec. reflexivity. Qed.

    (* the generator X is sent to c * X *)
    Theorem quad_frobenius_gen : frobB zero = zero -> frobB one = one -> quad_frobenius frobB coef (zero, one) = (zero, c).
    Proof. intros H0 H1. unfold quad_frobenius; cbn [fst snd]. rewrite coef_spec, H0, H1. f_equal; ring. Qed.
  End Frobenius.
End QuadProofs.
