(* Uniform case interpreter for the C02 model.
   args: a0 = [curve_id; kind], a1 = flat parameter list of the tower (layout per kind,
   see `props/C02/prop.py`), a2.. = operands as base-prime-field coordinate lists.
   kinds: 2 Fp2, 3 Fp3, 4 Fp4, 6 Fp6 (3 over 2), 7 Fp6 (2 over 3), 12 Fp12.
   First result list is the status: [0] ok, [2] panic, [9] unsupported. *)
From V Require Import Base.Word Base.Field C15.BigIntModel C02.Quad C02.Cubic C02.Towers C02.Inst.

Definition Fp (p : Z) : Fops Z := ZpOps p.

Definition ok (r : list (list Z)) : list (list Z) := [0] :: r.
Definition panic : list (list Z) := [[2]].
Definition unsupported : list (list Z) := [[9]].
Definition arg (n : nat) (a : list (list Z)) : list Z := nth n a [].
Definition arg0 (n : nat) (a : list (list Z)) : Z := hd 0 (arg n a).

Definition opt_out {E} (F : Fops E) (r : option (option E)) : option (list (list Z)) :=
  match r with
  | None => None
  | Some None => Some [[0]]
  | Some (Some x) => Some [[1]; fcoords F x]
  end.

Section Common.
  Context {T0 E : Type} (L : level T0 E).
  Let F := lF L.
  Let S := lS L.
  Definition el (l : list Z) : E := fof F l.
  Definition co (x : E) : list Z := fcoords F x.
  Definition pk (k : Z) : Z := fchar F ^ k.

  (* the "easy part": maps a non-zero f into the cyclotomic subgroup.
     quadratic kinds: conj(f) / f [then frobenius(g, j) * g when j > 0];
     cubic kinds: frobenius(f, h) / f [then frobenius(g, j) * g when j > 0] *)
  Variable fof0 : list Z -> T0.      (* prime-field element from an argument list *)
  Variable conj_or_frob : E -> E.
  Variable easy_j : Z.
  Definition easy (f : E) : option E :=
    match linverse L f with
    | Some (Some fi) =>
        let g := fmul F (conj_or_frob f) fi in
        Some (if 0 <? easy_j then fmul F (lfrob L easy_j g) g else g)
    | _ => None
    end.
  Definition cyc_in (mode : Z) (x : E) : option E := if mode =? 0 then Some x else easy x.

  Definition run_common (op : Z) (a : list (list Z)) : list (list Z) :=
    let x := el (arg 2 a) in
    let y := el (arg 3 a) in
    match op with
    | 1 => ok [co (fmul F x y); co (fmul S x y)]
    | 2 => ok [co (lsquare L x); co (fmul S x x)]
    | 3 => match opt_out F (linverse L x) with Some r => ok r | None => panic end
    | 4 => ok [co (fadd F x y)]
    | 5 => ok [co (fsub F x y)]
    | 6 => ok [co (fneg F x)]
    | 7 => ok [co (fadd F x x)]
    | 8 => ok [co (lfrob L (arg0 3 a) x)]
    | 9 => ok [co (lfrob L (arg0 3 a) x); co (fpow S x (pk (arg0 3 a)))]
    | 10 => let e := fof0 (arg 3 a) in ok [co (lmulfp L x e); co (lmulfp L x e)]
    | 11 => (* div: x * y.inverse().unwrap() *)
        match linverse L y with
        | Some (Some yi) => ok [co (fmul F x yi)]
        | _ => panic
        end
    | 20 => (* cyc_square [mode] x *)
        match cyc_in (arg0 3 a) x with
        | Some g => ok [co g; co (lcyc_square L g); co (fmul S g g)]
        | None => panic
        end
    | 21 => (* cyc_inverse [mode] x *)
        match cyc_in (arg0 3 a) x with
        | Some g =>
            match opt_out F (lcyc_inverse L g), opt_out F (linverse L g) with
            | Some r1, Some r2 => ok (co g :: r1 ++ r2)
            | _, _ => panic
            end
        | None => panic
        end
    | 22 => (* cyc_exp [mode] x e *)
        match cyc_in (arg0 3 a) x with
        | Some g =>
            match cyclotomic_exp L g (arg 4 a) with
            | Some r => ok [co g; co r; co (fpow S g (val (arg 4 a)))]
            | None => panic
            end
        | None => panic
        end
    | _ => unsupported
    end.
End Common.

(* ---- parameter decoding ---- *)
Definition take (n : nat) (l : list Z) := firstn n l.
Definition drop (n : nat) (l : list Z) := skipn n l.
Definition pr (l : list Z) : Z * Z := (nth 0 l 0, nth 1 l 0).
Definition tr (l : list Z) : Z * Z * Z := (nth 0 l 0, nth 1 l 0, nth 2 l 0).

Definition run_C02 (op : Z) (a : list (list Z)) : list (list Z) :=
  let cid := arg0 0 a in
  let kind := nth 1 (arg 0 a) 0 in
  let P := arg 1 a in
  let p := nth 0 P 0 in
  let x2 := arg 2 a in
  match kind with
  | 2 =>
      (* [p; nr; c1 x2] *)
      let nr2 := nth 1 P 0 in
      let tab2 := take 2 (drop 2 P) in
      let L := L2 cid (Fp p) nr2 tab2 in
      let N := fp2_nrops cid (Fp p) nr2 in
      let B := Fp p in
      let x := fof (lF L) x2 in
      match op with
      | 30 => ok [fcoords B (quad_norm B N x); fcoords B (qnorm B nr2 x)]
      | 31 => ok [fcoords (lF L) (quad_conjugate B x)]
      | 32 => let e := fof B (arg 3 a) in
              ok [fcoords (lF L) (quad_mul_by_basefield B x e)]
      | 33 => let y := fof B x2 in let z := fof B (arg 3 a) in
              ok [fcoords B (nr_mul N y); fcoords B (nr_mul_add N y z);
                  fcoords B (nr_p1_add N y z); fcoords B (nr_sub N y z)]
      | _ => run_common L (fof (Fp p)) (quad_conjugate B) 0 op a
      end
  | 3 =>
      (* [p; nr; c1 x3; c2 x3] *)
      let nr3 := nth 1 P 0 in
      let t1 := take 3 (drop 2 P) in
      let t2 := take 3 (drop 5 P) in
      let L := L3 cid (Fp p) nr3 t1 t2 in
      let B := Fp p in
      let x := fof (lF L) x2 in
      match op with
      | 30 => match fp3_norm cid (Fp p) nr3 t1 t2 x with Some n => ok [fcoords B n] | None => panic end
      | 32 => let e := fof B (arg 3 a) in
              ok [fcoords (lF L) (cubic_mul_by_basefield B x e)]
      | 33 => ok [fcoords B (fp3_mul_nr cid (Fp p) nr3 (fof B x2))]
      | _ => run_common L (fof (Fp p)) (lfrob L 1) 0 op a
      end
  | 4 =>
      (* [p; nr2; fp2c1 x2; nr4 x2; c1 x4] *)
      let nr2 := nth 1 P 0 in
      let tab2 := take 2 (drop 2 P) in
      let nr4 := pr (drop 4 P) in
      let tab4 := take 4 (drop 6 P) in
      let L := L4 cid (Fp p) nr2 tab2 nr4 tab4 in
      let N := fp4_nrops cid (Fp p) nr2 nr4 in
      let B := Fp2 cid (Fp p) nr2 in
      let BS := Fp2S (Fp p) nr2 in
      let x := fof (lF L) x2 in
      match op with
      | 30 => ok [fcoords B (quad_norm B N x); fcoords B (qnorm BS nr4 x)]
      | 31 => ok [fcoords (lF L) (quad_conjugate B x)]
      | 32 | 34 => let e := fof B (arg 3 a) in
              ok [fcoords (lF L) (quad_mul_by_basefield B x e)]
      | 33 => let y := fof B x2 in let z := fof B (arg 3 a) in
              ok [fcoords B (nr_mul N y); fcoords B (nr_mul_add N y z);
                  fcoords B (nr_p1_add N y z); fcoords B (nr_sub N y z)]
      | _ => run_common L (fof (Fp p)) (quad_conjugate B) 0 op a
      end
  | 7 =>
      (* [p; nr3; fp3c1 x3; fp3c2 x3; nr6 x3; c1 x6] *)
      let nr3 := nth 1 P 0 in
      let t1 := take 3 (drop 2 P) in
      let t2 := take 3 (drop 5 P) in
      let nr6b := tr (drop 8 P) in
      let tab6b := take 6 (drop 11 P) in
      let L := L6b cid (Fp p) nr3 t1 t2 nr6b tab6b in
      let N := fp6b_nrops cid (Fp p) nr3 nr6b in
      let B := Fp3 cid (Fp p) nr3 in
      let BS := Fp3S (Fp p) nr3 in
      let F0 := Fp p in
      let x := fof (lF L) x2 in
      match op with
      | 30 => ok [fcoords B (quad_norm B N x); fcoords B (qnorm BS nr6b x)]
      | 31 => ok [fcoords (lF L) (quad_conjugate B x)]
      | 32 => let e := fof B (arg 3 a) in
              ok [fcoords (lF L) (quad_mul_by_basefield B x e)]
      | 33 => let y := fof B x2 in let z := fof B (arg 3 a) in
              ok [fcoords B (nr_mul N y); fcoords B (nr_mul_add N y z);
                  fcoords B (nr_p1_add N y z); fcoords B (nr_sub N y z)]
      | 40 => (* mul_by_034 x [c0;c3;c4] *)
          let s := arg 3 a in
          let e0 := fof F0 s in let e3 := fof F0 (drop 1 s) in let e4 := fof F0 (drop 2 s) in
          ok [fcoords (lF L) (fp6b_mul_by_034 F0 nr3 x e0 e3 e4);
              fcoords (lF L) (fmul (lS L) x ((e0, 0, 0), (e3, e4, 0)))]
      | 41 => (* mul_by_014 x [c0;c1;c4] *)
          let s := arg 3 a in
          let e0 := fof F0 s in let e1 := fof F0 (drop 1 s) in let e4 := fof F0 (drop 2 s) in
          ok [fcoords (lF L) (fp6b_mul_by_014 F0 nr3 x e0 e1 e4);
              fcoords (lF L) (fmul (lS L) x ((e0, e1, 0), (0, e4, 0)))]
      | _ => run_common L (fof (Fp p)) (quad_conjugate B) 1 op a
      end
  | 6 | 12 =>
      (* [p; nr2; fp2c1 x2; nr6 x2; c1 x12; c2 x12] ++ (kind 12) [nr12 x6; c1 x24] *)
      let nr2 := nth 1 P 0 in
      let tab2 := take 2 (drop 2 P) in
      let nr6 := pr (drop 4 P) in
      let t1 := pairs_of (take 12 (drop 6 P)) in
      let t2 := pairs_of (take 12 (drop 18 P)) in
      let B2 := Fp2 cid (Fp p) nr2 in
      let z2 : Z * Z := (0, 0) in
      if kind =? 6 then
        let L := L6a cid (Fp p) nr2 tab2 nr6 t1 t2 in
        let x := fof (lF L) x2 in
        match op with
        | 30 => match fp6a_norm cid (Fp p) nr2 tab2 nr6 t1 t2 x with
                | Some n => ok [fcoords B2 n] | None => panic end
        | 32 | 34 | 35 => let e := fof B2 (arg 3 a) in
                ok [fcoords (lF L) (cubic_mul_by_basefield B2 x e)]
        | 33 => ok [fcoords B2 (fp6a_mul_nr cid (Fp p) nr2 nr6 (fof B2 x2))]
        | 42 => (* mul_by_1 x c1 *)
            let e1 := fof B2 (arg 3 a) in
            ok [fcoords (lF L) (fp6a_mul_by_1 B2 (fp6a_mul_nr cid (Fp p) nr2 nr6) x e1);
                fcoords (lF L) (fmul (lS L) x (z2, e1, z2))]
        | 43 => (* mul_by_01 x c0 c1 *)
            let e0 := fof B2 (arg 3 a) in let e1 := fof B2 (arg 4 a) in
            ok [fcoords (lF L) (fp6a_mul_by_01 B2 (fp6a_mul_nr cid (Fp p) nr2 nr6) x e0 e1);
                fcoords (lF L) (fmul (lS L) x (e0, e1, z2))]
        | _ => run_common L (fof (Fp p)) (lfrob L 3) 1 op a
        end
      else
        let nr12 : @E6 Z := (pr (drop 30 P), pr (drop 32 P), pr (drop 34 P)) in
        let tab12 := pairs_of (take 24 (drop 36 P)) in
        let L := L12 cid (Fp p) nr2 tab2 nr6 t1 t2 nr12 tab12 in
        let N := fp12_nrops cid (Fp p) nr2 nr6 nr12 in
        let B := Fp6a cid (Fp p) nr2 nr6 in
        let BS := Fp6aS (Fp p) nr2 nr6 in
        let x := fof (lF L) x2 in
        let z6 : @E6 Z := (z2, z2, z2) in
        match op with
        | 30 => ok [fcoords B (quad_norm B N x); fcoords B (qnorm BS nr12 x)]
        | 31 => ok [fcoords (lF L) (quad_conjugate B x)]
        | 32 => let e := fof B (arg 3 a) in
                ok [fcoords (lF L) (quad_mul_by_basefield B x e)]
        | 33 => let y := fof B x2 in let z := fof B (arg 3 a) in
                ok [fcoords B (nr_mul N y); fcoords B (nr_mul_add N y z);
                    fcoords B (nr_p1_add N y z); fcoords B (nr_sub N y z)]
        | 40 => (* mul_by_034 x c0 c3 c4 *)
            let e0 := fof B2 (arg 3 a) in let e3 := fof B2 (arg 4 a) in let e4 := fof B2 (arg 5 a) in
            ok [fcoords (lF L) (fp12_mul_by_034 B2 (fp6a_mul_nr cid (Fp p) nr2 nr6) B
                                  (fp12_mul_nr cid (Fp p) nr2 nr6) x e0 e3 e4);
                fcoords (lF L) (fmul (lS L) x ((e0, z2, z2), (e3, e4, z2)))]
        | 41 => (* mul_by_014 x c0 c1 c4 *)
            let e0 := fof B2 (arg 3 a) in let e1 := fof B2 (arg 4 a) in let e4 := fof B2 (arg 5 a) in
            ok [fcoords (lF L) (fp12_mul_by_014 B2 (fp6a_mul_nr cid (Fp p) nr2 nr6) B
                                  (fp12_mul_nr cid (Fp p) nr2 nr6) x e0 e1 e4);
                fcoords (lF L) (fmul (lS L) x ((e0, e1, z2), (z2, e4, z2)))]
        | _ => run_common L (fof (Fp p)) (quad_conjugate B) 2 op a
        end
  | _ => unsupported
  end.
