(* C02 proofs -- specialised non-residue multiplications, per-curve overrides and sparse
   products, each against schoolbook arithmetic; all by `ring` over a commutative ring. *)
From V Require Import Base.Field C02.Quad C02.Cubic C02.Towers C02.QuadProofs C02.CubicProofs.
Require Import Ring.

Section TowerProofs.
  Context {T : Type} (B : Fops T).
  Hypothesis Rth : ring_theory (f0 B) (f1 B) (fadd B) (fmul B) (fsub B) (fneg B) eq.
  Add Ring BRingT : Rth.
  Local Notation zero := (f0 B). Local Notation one := (f1 B).
  Local Notation "a + b" := (fadd B a b). Local Notation "a - b" := (fsub B a b).
  Local Notation "a * b" := (fmul B a b). Local Notation "- a" := (fneg B a).
  Ltac tup := repeat match goal with x : (_ * _)%type |- _ => destruct x end; cbn [fst snd c0 c1 c2].
  Ltac eq3 := (f_equal; [f_equal|]).

  (* ---------- structural non-residue multiplications ---------- *)
  (* Fp4: multiplying an Fp2 element by the generator U of Fp2 = Fp[U]/(U^2 - nr) *)
  Theorem mul_nr_swap_spec nr mul_nr_below :
    (forall y, mul_nr_below y = nr * y) ->
    forall fe, mul_nr_swap mul_nr_below fe = qmul B nr (zero, one) fe.
  Proof. intros H fe. tup. unfold mul_nr_swap, qmul; cbn [fst snd]. rewrite H. f_equal; ring. Qed.

  (* Fp6 (2 over 3) and Fp12: multiplying by the generator V of the cubic level below *)
  Theorem mul_nr_rot_spec nr mul_nr_below :
    (forall y, mul_nr_below y = nr * y) ->
    forall fe, mul_nr_rot mul_nr_below fe = cmul B nr (zero, one, zero) fe.
  Proof.
    intros H fe. tup. unfold mul_nr_rot, cmul, c0, c1, c2; cbn [fst snd]. rewrite H. eq3; ring.
  Qed.

  (* ---------- per-curve overrides ---------- *)
  Local Notation two := (one + one).
  Local Notation four := (two + two).

  Theorem nrops_bls12_381_fq2_ok nr : nr = - one -> nrops_ok B (nrops_bls12_381_fq2 B nr).
  Proof.
    intros ->. unfold nrops_ok, nrops_bls12_381_fq2; cbn [nr_const nr_mul nr_mul_add nr_p1_add nr_sub].
    repeat split; intros; ring.
  Qed.
  Theorem nrops_bls12_377_fq2_ok nr : nr = - (four + one) -> nrops_ok B (nrops_bls12_377_fq2 B nr).
  Proof.
    intros ->. unfold nrops_ok, nrops_bls12_377_fq2, dbl; cbn [nr_const nr_mul nr_mul_add nr_p1_add nr_sub].
    repeat split; intros; ring.
  Qed.
  Theorem nrops_bn254_fq2_ok nr : nr = - one -> nrops_ok B (nrops_bn254_fq2 B nr).
  Proof. intros ->. apply default_nrops_ok; [exact Rth|]. intros; ring. Qed.
  Theorem mul_nr_bw6_761_fq3_spec fe : mul_nr_bw6_761_fq3 B fe = (- four) * fe.
  Proof. unfold mul_nr_bw6_761_fq3, dbl. ring. Qed.
  Theorem mul_nr_cp6_782_fq3_spec fe :
    mul_nr_cp6_782_fq3 B fe = (four + four + four + one) * fe.
  Proof. unfold mul_nr_cp6_782_fq3, dbl. ring. Qed.

  (* Fq6 non-residues as Fp2 elements; nr2 is the Fp2 non-residue *)
  Theorem mul_nr_bls12_381_fq6_spec fe :
    mul_nr_bls12_381_fq6 B fe = qmul B (- one) (one, one) fe.
  Proof. tup. unfold mul_nr_bls12_381_fq6, qmul; cbn [fst snd]. f_equal; ring. Qed.
  Theorem mul_nr_bls12_377_fq6_spec nr2 fp2_nr_mul :
    (forall y, fp2_nr_mul y = nr2 * y) ->
    forall fe, mul_nr_bls12_377_fq6 fp2_nr_mul fe = qmul B nr2 (zero, one) fe.
  Proof. intros H fe. tup. unfold mul_nr_bls12_377_fq6, qmul; cbn [fst snd]. rewrite H. f_equal; ring. Qed.
  Theorem mul_nr_bn254_fq6_spec nr2 fp2_nr_mul :
    (forall y, fp2_nr_mul y = nr2 * y) ->
    forall fe, mul_nr_bn254_fq6 B fp2_nr_mul fe = qmul B nr2 (four + four + one, one) fe.
  Proof.
    intros H fe. tup. unfold mul_nr_bn254_fq6, dbl, qmul; cbn [fst snd]. rewrite H. f_equal; ring.
  Qed.

  (* ---------- sparse products, Fp6 = Fp3[W]/(W^2 - V), Fp3 = B[V]/(V^3 - nr3) ---------- *)
  Section S2over3.
    Variable nr3 : T.
    Local Notation F3 := (CubicOps B nr3).
    Local Notation V := ((zero, one, zero) : T * T * T).
    Theorem fp6b_mul_by_034_spec s x0 x3 x4 :
      fp6b_mul_by_034 B nr3 s x0 x3 x4 = qmul F3 V s ((x0, zero, zero), (x3, x4, zero)).
    Proof.
      tup. unfold fp6b_mul_by_034, qmul; cbn [fst snd fadd fmul CubicOps].
      unfold cadd, cmul, c0, c1, c2; cbn [fst snd]. f_equal; eq3; ring.
    Qed.
    Theorem fp6b_mul_by_014_spec s x0 x1 x4 :
      fp6b_mul_by_014 B nr3 s x0 x1 x4 = qmul F3 V s ((x0, x1, zero), (zero, x4, zero)).
    Proof.
      tup. unfold fp6b_mul_by_014, qmul; cbn [fst snd fadd fmul CubicOps].
      unfold cadd, cmul, c0, c1, c2; cbn [fst snd]. f_equal; eq3; ring.
    Qed.
  End S2over3.

  (* ---------- sparse products over B = Fp2: Fp6 = B[V]/(V^3 - xi), Fp12 = Fp6[W]/(W^2 - V) ---------- *)
  Section S3over2.
    Variable xi : T.
    Variable mul_nr : T -> T.
    Hypothesis mul_nr_spec : forall y, mul_nr y = xi * y.
    Local Notation F6 := (CubicOps B xi).
    Local Notation V := ((zero, one, zero) : T * T * T).

    Theorem fp6a_mul_by_1_spec s e1 :
      fp6a_mul_by_1 B mul_nr s e1 = cmul B xi s (zero, e1, zero).
    Proof.
      tup. unfold fp6a_mul_by_1, cmul, c0, c1, c2; cbn [fst snd]. rewrite !mul_nr_spec. eq3; ring.
    Qed.
    Theorem fp6a_mul_by_01_spec s e0 e1 :
      fp6a_mul_by_01 B mul_nr s e0 e1 = cmul B xi s (e0, e1, zero).
    Proof.
      tup. unfold fp6a_mul_by_01, cmul, c0, c1, c2; cbn [fst snd]. rewrite !mul_nr_spec. eq3; ring.
    Qed.

    (* any Fp6 dictionary with coordinatewise addition/subtraction (CubicM and CubicOps both) *)
    Variable D6 : Fops (T * T * T).
    Hypothesis D6_add : fadd D6 = cadd B.
    Hypothesis D6_sub : fsub D6 = csub B.
    Variable mul_nr6 : T * T * T -> T * T * T.
    Hypothesis mul_nr6_spec : forall y, mul_nr6 y = cmul B xi V y.

    Theorem fp12_mul_by_034_spec s e0 e3 e4 :
      fp12_mul_by_034 B mul_nr D6 mul_nr6 s e0 e3 e4 =
      qmul F6 V s ((e0, zero, zero), (e3, e4, zero)).
    Proof.
      unfold fp12_mul_by_034. rewrite !fp6a_mul_by_01_spec, mul_nr6_spec, D6_add, D6_sub.
      tup. unfold qmul; cbn [fst snd fadd fmul CubicOps].
      unfold cadd, csub, cmul, c0, c1, c2; cbn [fst snd]. f_equal; eq3; ring.
    Qed.
    Theorem fp12_mul_by_014_spec s e0 e1 e4 :
      fp12_mul_by_014 B mul_nr D6 mul_nr6 s e0 e1 e4 =
      qmul F6 V s ((e0, e1, zero), (zero, e4, zero)).
    Proof.
      unfold fp12_mul_by_014. rewrite !fp6a_mul_by_01_spec, !fp6a_mul_by_1_spec, mul_nr6_spec, D6_add, D6_sub.
      tup. unfold qmul; cbn [fst snd fadd fmul CubicOps].
      unfold cadd, csub, cmul, c0, c1, c2; cbn [fst snd]. f_equal; eq3; ring.
    Qed.
  End S3over2.
End TowerProofs.
