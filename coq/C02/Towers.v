(* C02 model -- tower-specific pieces (fp4.rs, fp6_2over3.rs, fp6_3over2.rs,
   fp12_2over3over2.rs, cyclotomic.rs and the per-curve overrides in curves/*/src/fields).
   Executable definitions only, generic in the base dictionary. *)
From V Require Import Base.Field C02.Quad C02.Cubic.

(* ---------- specialised non-residue multiplications ---------- *)
Section NrShapes.
  Context {T : Type} (B : Fops T).
  (* Fp4Config::mul_fp2_by_nonresidue_in_place: (c0, c1) |-> (nr_fp * c1, c0) *)
  Definition mul_nr_swap (mul_nr_below : T -> T) (fe : T * T) : T * T :=
    (mul_nr_below (snd fe), fst fe).
  (* Fp6Config(2 over 3)::mul_fp3_by_nonresidue_in_place and
     Fp12Config::mul_fp6_by_nonresidue_in_place: (c0, c1, c2) |-> (nr_below * c2, c0, c1) *)
  Definition mul_nr_rot (mul_nr_below : T -> T) (fe : T * T * T) : T * T * T :=
    (mul_nr_below (c2 fe), c0 fe, c1 fe).
End NrShapes.

(* ---------- per-curve overrides of the Fp2 / Fp3 / Fp6 non-residue methods ---------- *)
Section Overrides.
  Context {T : Type} (B : Fops T).
  Local Notation "a + b" := (fadd B a b). Local Notation "a - b" := (fsub B a b).
  Local Notation "a * b" := (fmul B a b). Local Notation "- a" := (fneg B a).
  Definition dbl (a : T) := a + a.

  (* bls12_381 Fq2Config (NONRESIDUE = -1): all four methods overridden *)
  Definition nrops_bls12_381_fq2 (nr : T) : nrops T :=
    {| nr_const := nr;
       nr_mul := fun fe => - fe;
       nr_mul_add := fun y x => (- y) + x;
       nr_p1_add := fun y x => x;
       nr_sub := fun y x => y + x |}.
  (* bls12_377 Fq2Config (NONRESIDUE = -5) *)
  Definition nrops_bls12_377_fq2 (nr : T) : nrops T :=
    {| nr_const := nr;
       nr_mul := fun fe => let n := - fe in n + dbl (dbl n);
       nr_mul_add := fun y x => let o := dbl (dbl y) + y in x - o;
       nr_p1_add := fun y x => (- (dbl (dbl y))) + x;
       nr_sub := fun y x => let o := y + x in dbl (dbl y) + o |}.
  (* bn254 Fq2Config (NONRESIDUE = -1): only the in-place method is overridden *)
  Definition nrops_bn254_fq2 (nr : T) : nrops T := default_nrops B nr (fun fe => - fe).

  (* bw6_761 Fq3Config (NONRESIDUE = -4) *)
  Definition mul_nr_bw6_761_fq3 (fe : T) : T := - (dbl (dbl fe)).
  (* cp6_782 Fq3Config (NONRESIDUE = 13) *)
  Definition mul_nr_cp6_782_fq3 (fe : T) : T :=
    let o := fe in let f := dbl fe + o in dbl (dbl f) + o.

  (* Fq6Config::mul_fp2_by_nonresidue_in_place overrides, on Fp2 elements as pairs over B *)
  (* bls12_381: NONRESIDUE = 1 + u *)
  Definition mul_nr_bls12_381_fq6 (fe : T * T) : T * T := (fst fe - snd fe, snd fe + fst fe).
  (* bls12_377: NONRESIDUE = u *)
  Definition mul_nr_bls12_377_fq6 (fp2_nr_mul : T -> T) (fe : T * T) : T * T :=
    (fp2_nr_mul (snd fe), fst fe).
  (* bn254: NONRESIDUE = 9 + u *)
  Definition mul_nr_bn254_fq6 (fp2_nr_mul : T -> T) (fe : T * T) : T * T :=
    let f0' := dbl (dbl (dbl (fst fe))) in
    let f1' := dbl (dbl (dbl (snd fe))) in
    let c0 := (fp2_nr_mul (snd fe) + f0') + fst fe in
    let c1 := (f1' + snd fe) + fst fe in
    (c0, c1).
End Overrides.

(* ---------- sparse multiplications ---------- *)
Section Sparse2over3.
  (* Fp6 = Fp3[W]/(W^2 - V), Fp3 = Fp[V]/(V^3 - nr3): B is the prime field *)
  Context {T : Type} (B : Fops T) (nr3 : T).
  Local Notation "a + b" := (fadd B a b). Local Notation "a * b" := (fmul B a b).
  Definition fp6b_mul_by_034 (s : (T * T * T) * (T * T * T)) (x0 x3 x4 : T) :=
    let z0 := c0 (fst s) in let z1 := c1 (fst s) in let z2 := c2 (fst s) in
    let z3 := c0 (snd s) in let z4 := c1 (snd s) in let z5 := c2 (snd s) in
    let tmp1 := x3 * nr3 in
    let tmp2 := x4 * nr3 in
    (((x0 * z0 + tmp1 * z5) + tmp2 * z4,
      (x0 * z1 + x3 * z3) + tmp2 * z5,
      (x0 * z2 + x3 * z4) + x4 * z3),
     ((x0 * z3 + x3 * z0) + tmp2 * z2,
      (x0 * z4 + x3 * z1) + x4 * z0,
      (x0 * z5 + x3 * z2) + x4 * z1)).
  Definition fp6b_mul_by_014 (s : (T * T * T) * (T * T * T)) (x0 x1 x4 : T) :=
    let z0 := c0 (fst s) in let z1 := c1 (fst s) in let z2 := c2 (fst s) in
    let z3 := c0 (snd s) in let z4 := c1 (snd s) in let z5 := c2 (snd s) in
    let tmp1 := x1 * nr3 in
    let tmp2 := x4 * nr3 in
    (((x0 * z0 + tmp1 * z2) + tmp2 * z4,
      (x0 * z1 + x1 * z0) + tmp2 * z5,
      (x0 * z2 + x1 * z1) + x4 * z3),
     ((x0 * z3 + tmp1 * z5) + tmp2 * z2,
      (x0 * z4 + x1 * z3) + x4 * z0,
      (x0 * z5 + x1 * z4) + x4 * z1)).
End Sparse2over3.

Section Sparse3over2.
  (* Fp6 = Fp2[V]/(V^3 - xi): B is Fp2, mul_nr = Fp6Config::mul_fp2_by_nonresidue *)
  Context {T : Type} (B : Fops T) (mul_nr : T -> T).
  Local Notation "a + b" := (fadd B a b). Local Notation "a - b" := (fsub B a b).
  Local Notation "a * b" := (fmul B a b).
  Definition fp6a_mul_by_1 (s : T * T * T) (e1 : T) : T * T * T :=
    let b_b := c1 s * e1 in
    let t1 := mul_nr (e1 * (c1 s + c2 s) - b_b) in
    let t2 := e1 * (c0 s + c1 s) - b_b in
    (t1, t2, b_b).
  Definition fp6a_mul_by_01 (s : T * T * T) (e0 e1 : T) : T * T * T :=
    let a_a := c0 s * e0 in
    let b_b := c1 s * e1 in
    let t1 := mul_nr (e1 * (c1 s + c2 s) - b_b) + a_a in
    let t3 := (e0 * (c0 s + c2 s) - a_a) + b_b in
    let t2 := ((e0 + e1) * (c0 s + c1 s) - a_a) - b_b in
    (t1, t2, t3).

  (* Fp12 = Fp6[W]/(W^2 - V): sparse products of fp12_2over3over2.rs.  F6 is the Fp6
     dictionary (its fadd/fsub are used), mul_nr6 = Fp12Config::mul_fp6_by_nonresidue *)
  Variable F6 : Fops (T * T * T).
  Variable mul_nr6 : T * T * T -> T * T * T.
  Definition fp12_mul_by_034 (s : (T * T * T) * (T * T * T)) (e0 e3 e4 : T) :=
    let a := (c0 (fst s) * e0, c1 (fst s) * e0, c2 (fst s) * e0) in
    let b := fp6a_mul_by_01 (snd s) e3 e4 in
    let e0' := e0 + e3 in
    let e := fp6a_mul_by_01 (fadd F6 (fst s) (snd s)) e0' e4 in
    let r1 := fsub F6 e (fadd F6 a b) in
    let r0 := fadd F6 (mul_nr6 b) a in
    (r0, r1).
  Definition fp12_mul_by_014 (s : (T * T * T) * (T * T * T)) (e0 e1 e4 : T) :=
    let aa := fp6a_mul_by_01 (fst s) e0 e1 in
    let bb := fp6a_mul_by_1 (snd s) e4 in
    let o := e1 + e4 in
    let r1 := fp6a_mul_by_01 (fadd F6 (snd s) (fst s)) e0 o in
    let r1 := fsub F6 (fsub F6 r1 aa) bb in
    let r0 := fadd F6 (mul_nr6 bb) aa in
    (r0, r1).
End Sparse3over2.

(* ---------- Granger-Scott cyclotomic squaring in Fp12 ---------- *)
Section GrangerScott.
  Context {T : Type} (B : Fops T) (fp2_nr : T -> T).   (* B = Fp2 *)
  Local Notation "a + b" := (fadd B a b). Local Notation "a - b" := (fsub B a b).
  Local Notation "a * b" := (fmul B a b).
  (* (u + v*y)^2 over Fp4 = Fp2[y]/(y^2 - xi): returns (t_even, t_odd) *)
  Definition gs_fp4_sq (u v : T) : T * T :=
    let tmp := u * v in
    (((u + v) * (fp2_nr v + u) - tmp) - fp2_nr tmp, tmp + tmp).
  Definition gs_square (s : (T * T * T) * (T * T * T)) : (T * T * T) * (T * T * T) :=
    let r0 := c0 (fst s) in let r4 := c1 (fst s) in let r3 := c2 (fst s) in
    let r2 := c0 (snd s) in let r1 := c1 (snd s) in let r5 := c2 (snd s) in
    let '(t0, t1) := gs_fp4_sq r0 r1 in
    let '(t2, t3) := gs_fp4_sq r2 r3 in
    let '(t4, t5) := gs_fp4_sq r4 r5 in
    let z0 := let d := t0 - r0 in (d + d) + t0 in
    let z1 := let d := t1 + r1 in (d + d) + t1 in
    let tmp := fp2_nr t5 in
    let z2 := let d := r2 + tmp in (d + d) + tmp in
    let z3 := let d := t4 - r3 in (d + d) + t4 in
    let z4 := let d := t2 - r4 in (d + d) + t2 in
    let z5 := let d := r5 + t3 in (d + d) + t3 in
    ((z0, z4, z3), (z2, z1, z5)).
  (* characteristic_square_mod_6_is_one: the limb-wise residue computation equals p mod 6 *)
  Definition char_sq_mod6_is_one (p : Z) : bool := ((p mod 6) * (p mod 6)) mod 6 =? 1.
End GrangerScott.

(* ---------- cyclotomic exponentiation (cyclotomic.rs) ---------- *)
Section CycExp.
  Context {E : Type} (F : Fops E).
  Variable cyc_square : E -> E.
  (* exp_loop: digits most significant first, values in {-1, 0, 1} *)
  Fixpoint exp_loop_go (f finv : E) (use_inv : bool) (ds : list Z) (res : E) (found : bool) : E :=
    match ds with
    | [] => res
    | v :: ds' =>
        let res1 := if found then cyc_square res else res in
        if v =? 0 then exp_loop_go f finv use_inv ds' res1 found
        else
          let res2 := if 0 <? v then fmul F res1 f
                      else if use_inv then fmul F res1 finv else res1 in
          exp_loop_go f finv use_inv ds' res2 true
    end.
  Definition exp_loop (f finv : E) (use_inv : bool) (ds : list Z) : E :=
    exp_loop_go f finv use_inv ds (f1 F) false.

  (* BitIteratorBE::without_leading_zeros of a non-negative integer *)
  Fixpoint bits_be_pos (e : positive) (acc : list Z) : list Z :=
    match e with
    | xH => 1 :: acc
    | xO e' => bits_be_pos e' (0 :: acc)
    | xI e' => bits_be_pos e' (1 :: acc)
    end.
  Definition bits_be (e : Z) : list Z := match e with Zpos q => bits_be_pos q [] | _ => [] end.
End CycExp.
