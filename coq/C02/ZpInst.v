(* C02 -- the integers modulo p as a dictionary with Leibniz equality: carrier
   { z | z mod p = z } (canonical residues), proofs of the invariant are unique by UIP on
   bool, no axiom.  It is a commutative ring for every p (a field for prime p; primality is
   not needed by the ring-level theorems of C02).  Its operations are those of
   Base.Field.ZpOps on the underlying integers (`zp_*_val` lemmas), which is what
   C02/Run.v executes. *)
From V Require Import Base.Field.
Require Import Ring Lia Eqdep_dec.

Definition zp_inv (p z : Z) : bool := (z mod p =? z).
Definition Zp (p : Z) : Type := { z : Z | zp_inv p z = true }.

Lemma zp_mod_ok p z : zp_inv p (z mod p) = true.
Proof.
  unfold zp_inv. apply Z.eqb_eq.
  destruct (Z.eq_dec p 0) as [->|Hp]; [rewrite !Zmod_0_r; reflexivity | apply Z.mod_mod, Hp].
Qed.
Definition zp_mk (p z : Z) : Zp p := exist _ (z mod p) (zp_mod_ok p z).
Definition zp_val {p} (a : Zp p) : Z := proj1_sig a.

Lemma zp_eq p (a b : Zp p) : zp_val a = zp_val b -> a = b.
Proof.
  destruct a as [x Hx], b as [y Hy]; cbn. intros ->.
  f_equal. apply UIP_dec. apply Bool.bool_dec.
Qed.
Lemma zp_val_mod p (a : Zp p) : zp_val a mod p = zp_val a.
Proof. destruct a as [x Hx]; cbn. apply Z.eqb_eq. exact Hx. Qed.

Definition ZpS (p : Z) : Fops (Zp p) :=
  {| f0 := zp_mk p 0; f1 := zp_mk p 1;
     fadd := fun a b => zp_mk p (zp_val a + zp_val b);
     fsub := fun a b => zp_mk p (zp_val a - zp_val b);
     fmul := fun a b => zp_mk p (zp_val a * zp_val b);
     fneg := fun a => zp_mk p (- zp_val a);
     finv := fun a => zp_mk p (inv_mod (zp_val a) p);
     feqb := fun a b => zp_val a =? zp_val b;
     fcoords := fun a => [zp_val a];
     fof := fun l => zp_mk p (hd 0 l);
     fdeg := 1%nat; fchar := p |}.

(* agreement with the executable ZpOps on the underlying integers *)
Lemma zp_add_val p a b : zp_val (fadd (ZpS p) a b) = fadd (ZpOps p) (zp_val a) (zp_val b).
Proof. reflexivity. Qed.
Lemma zp_sub_val p a b : zp_val (fsub (ZpS p) a b) = fsub (ZpOps p) (zp_val a) (zp_val b).
Proof. reflexivity. Qed.
Lemma zp_mul_val p a b : zp_val (fmul (ZpS p) a b) = fmul (ZpOps p) (zp_val a) (zp_val b).
Proof. reflexivity. Qed.
Lemma zp_neg_val p a : zp_val (fneg (ZpS p) a) = fneg (ZpOps p) (zp_val a).
Proof. reflexivity. Qed.
Lemma zp_one_val p : zp_val (f1 (ZpS p)) = f1 (ZpOps p).
Proof. reflexivity. Qed.

Theorem ZpS_ring p :
  ring_theory (f0 (ZpS p)) (f1 (ZpS p)) (fadd (ZpS p)) (fmul (ZpS p)) (fsub (ZpS p)) (fneg (ZpS p)) eq.
Proof.
  constructor; intros; apply zp_eq; cbn -[Z.modulo].
  - rewrite Zmod_0_l. cbn. apply zp_val_mod.
  - f_equal; ring.
  - rewrite Zplus_mod_idemp_r, Zplus_mod_idemp_l. f_equal; ring.
  - rewrite Zmult_mod_idemp_l. rewrite Z.mul_1_l. apply zp_val_mod.
  - f_equal; ring.
  - rewrite Zmult_mod_idemp_r, Zmult_mod_idemp_l. f_equal; ring.
  - rewrite Zmult_mod_idemp_l, Zplus_mod_idemp_l, Zplus_mod_idemp_r. f_equal; ring.
  - rewrite Zplus_mod_idemp_r. f_equal; ring.
  - rewrite Zplus_mod_idemp_r. rewrite Z.add_opp_diag_r. reflexivity.
Qed.

Theorem ZpS_eqb_sound p (a b : Zp p) : feqb (ZpS p) a b = true -> a = b.
Proof. cbn. intros H. apply zp_eq, Z.eqb_eq, H. Qed.
