(* C03 -- the executable, dictionary-parameterised curve arithmetic exported to other
   packages (C04 scalar multiplication, C05 MSM, C09/C10 point codecs, C12 subgroup
   checks, C19 equality).  Everything is a plain function of an [Fops T] dictionary
   (Base/Field.v) and the curve coefficients; see props/C03/NOTES.md for the interface
   table.  The definitions are the ones proved correct in SWProofs.v / TEProofs.v
   (for every F satisfying [field_theory] with char <> 2).

   Short Weierstrass  y^2 = x^3 + a x + b            (SWModel.v)
     sw_aff T  = option (T * T)          None = infinity
     sw_jac T  = T * T * T               (X, Y, Z) ~ (X/Z^2, Y/Z^3), identity iff Z = 0
     sw_zero F, sw_is_zero F P, sw_of_affine F A, sw_to_affine F P,
     sw_add F a P Q, sw_madd F a P A, sw_double F a P, sw_neg F P, sw_sub F a P Q,
     sw_msub F a P A, sw_eqb F P Q, sw_sum F a l, sw_normalize_batch F l,
     sw_aff_on_curve F a b A, sw_aff_neg F A, aff_add_sw F a A B (spec), aff_neg_sw F A
   Twisted Edwards  a x^2 + y^2 = 1 + d x^2 y^2       (TEModel.v)
     te_aff T  = T * T                   identity (0, 1)
     te_ext T  = T * T * T * T           (X, Y, T, Z) ~ (X/Z, Y/Z), T = XY/Z
     te_zero F, te_is_zero F P, te_of_affine F A, te_to_affine F P, te_to_affine_opt F P,
     te_add F a d P Q, te_madd F a d P A, te_double F a P, te_neg F P, te_sub F a d P Q,
     te_msub F a d P A, te_eqb F P Q, te_sum F a d l, te_normalize_batch F l,
     te_aff_on_curve F a d A, te_aff_neg F A, aff_add_te F a d A B (spec), aff_neg_te F A
   plus the wire codecs used by every Run.v (coordinates as base-prime-field lists). *)
From V Require Export Base.Field C03.SWModel C03.TEModel.

Section Codec.
  Context {T : Type} (F : Fops T).

  (* i-th field element of a flat coordinate list *)
  Definition el (l : list Z) (i : nat) : T := fof F (skipn (i * fdeg F) l).
  Definition zeros : list Z := fcoords F (f0 F).

  (* SW affine on the wire: x ++ y ++ [infinity]; identity printed with x = y = 0 *)
  Definition sw_aff_of_list (l : list Z) : sw_aff (T := T) :=
    if nth (2 * fdeg F) l 0 =? 0 then Some (el l 0, el l 1) else None.
  Definition sw_aff_to_list (A : sw_aff (T := T)) : list Z :=
    match A with
    | None => zeros ++ zeros ++ [1]
    | Some (x, y) => fcoords F x ++ fcoords F y ++ [0]
    end.
  (* Jacobian point on the wire: X ++ Y ++ Z *)
  Definition sw_jac_of_list (l : list Z) : sw_jac (T := T) := (el l 0, el l 1, el l 2).
  Definition sw_jac_to_list (P : sw_jac (T := T)) : list Z :=
    let '(x, y, z) := P in fcoords F x ++ fcoords F y ++ fcoords F z.

  (* TE affine: x ++ y ; extended: X ++ Y ++ T ++ Z *)
  Definition te_aff_of_list (l : list Z) : te_aff (T := T) := (el l 0, el l 1).
  Definition te_aff_to_list (A : te_aff (T := T)) : list Z :=
    let '(x, y) := A in fcoords F x ++ fcoords F y.
  Definition te_ext_of_list (l : list Z) : te_ext (T := T) := (el l 0, el l 1, el l 2, el l 3).
  Definition te_ext_to_list (P : te_ext (T := T)) : list Z :=
    let '(x, y, t, z) := P in fcoords F x ++ fcoords F y ++ fcoords F t ++ fcoords F z.
End Codec.
