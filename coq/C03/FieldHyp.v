(* C03 -- the hypotheses under which the curve theorems are stated: the dictionary is a
   field (Leibniz equality), its [feqb] decides equality, and 1 + 1 <> 0.  [QcOps] (the
   canonical rationals of the standard library) is a concrete instance, used by the
   [Example]s that show the hypotheses of the theorems are satisfiable. *)
From V Require Import Base.Field C03.SWModel C03.TEModel C03.SWProofs C03.TEProofs.
Require Import Coq.setoid_ring.Field QArith Qcanon.

Record good_field {T : Type} (F : Fops T) : Prop := {
  gf_th : field_theory (f0 F) (f1 F) (fadd F) (fmul F) (fsub F) (fneg F) (fdiv F) (finv F) eq;
  gf_eqb : forall x y, feqb F x y = true <-> x = y;
  gf_two : fadd F (f1 F) (f1 F) <> f0 F }.

Definition QcOps : Fops Qc :=
  {| f0 := 0%Qc; f1 := 1%Qc; fadd := Qcplus; fsub := Qcminus; fmul := Qcmult; fneg := Qcopp;
     finv := Qcinv; feqb := fun x y => if Qc_eq_dec x y then true else false;
     fcoords := fun _ => []; fof := fun _ => 0%Qc; fdeg := 1%nat; fchar := 0 |}.

Lemma QcOps_good : good_field QcOps.
Proof.
  constructor.
  - exact Qcft.
  - intros x y. cbn. destruct (Qc_eq_dec x y); split; congruence.
  - cbn. intro H. apply (f_equal (fun q => Qnum (this q))) in H. vm_compute in H. discriminate H.
Qed.

Definition q (n : Z) : Qc := Q2Qc (inject_Z n).

(* y^2 = x^3 + 1 over Qc: (2, 3) and (0, 1) are on the curve *)
Lemma ex_sw_on : jac_on QcOps (q 0) (q 1) (q 2, q 3, q 1) /\ jac_on QcOps (q 0) (q 1) (q 0, q 1, q 1)
                 /\ aff_on QcOps (q 0) (q 1) (Some (q 2, q 3)).
Proof.
  assert (E : forall x y : Qc, feqb QcOps x y = true <-> x = y) by exact (gf_eqb _ QcOps_good).
  unfold jac_on.
  rewrite !(sw_to_affine_spec QcOps (gf_th _ QcOps_good) E) by (intro H; apply (f_equal (fun q => Qnum (this q))) in H; vm_compute in H; discriminate H).
  cbn [aff_on]. repeat split; apply Qc_is_canon; vm_compute; reflexivity.
Qed.

(* x^2 + y^2 = 1 + 2 x^2 y^2 over Qc... the identity (0,1) and (1, 0)/(0,-1)-type points: (0, 1) + (0, 1) *)
Lemma ex_te_valid : te_valid QcOps (q 0, q 3, q 0, q 3) /\
  te_dens_ok QcOps (q 2) (te_to_affine QcOps (q 0, q 3, q 0, q 3)) (te_to_affine QcOps (q 0, q 3, q 0, q 3)).
Proof.
  assert (E : forall x y : Qc, feqb QcOps x y = true <-> x = y) by exact (gf_eqb _ QcOps_good).
  assert (N3 : q 3 <> f0 QcOps) by (intro H; apply (f_equal (fun q => Qnum (this q))) in H; vm_compute in H; discriminate H).
  split.
  - split; [exact N3 | apply Qc_is_canon; vm_compute; reflexivity].
  - rewrite (te_to_affine_spec QcOps (gf_th _ QcOps_good) E) by exact N3.
    split; intro H; apply (f_equal (fun q => Qnum (this q))) in H; vm_compute in H; discriminate H.
Qed.
