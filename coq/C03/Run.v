(* Uniform case interpreter for C03.  Argument layout of every case:
     a[0] = [cfg_id]          (used by the Rust harness only)
     a[1] = [p; deg; nr]      base field: F_p (deg 1), F_p[u]/(u^2 - nr), F_p[u]/(u^3 - nr)
     a[2] = coefficient a     (coordinates)
     a[3] = coefficient b (SW) / d (TE)
     a[4..] operands.
   Points are given by raw coordinates; results are affine coordinates (+ infinity flag
   for SW). *)
From V Require Import Base.Field C03.CurveExec.

Definition ok (r : list (list Z)) : list (list Z) := [0] :: r.
Definition panic : list (list Z) := [[2]].
Definition unsupported : list (list Z) := [[9]].
Definition b2l (b : bool) : list Z := [Z.b2z b].
Definition arg (n : nat) (a : list (list Z)) : list Z := nth n a [].

Section RunF.
  Context {T : Type} (F : Fops T).

  Definition field_probe : list (list Z) :=
    let e := fof F (2 :: 1 :: repeat 0 (fdeg F)) in
    [fcoords F (fmul F e e); fcoords F (fmul F (fmul F e e) e)].

  Definition run_sw (op : Z) (args : list (list Z)) : list (list Z) :=
    let a := el F (arg 2 args) 0 in
    let b := el F (arg 3 args) 0 in
    let jac n := sw_jac_of_list F (arg n args) in
    let aff n := sw_aff_of_list F (arg n args) in
    let outj P := sw_aff_to_list F (sw_to_affine F P) in
    let outa A := sw_aff_to_list F A in
    match op with
    | 1 => ok ([fchar F; Z.of_nat (fdeg F)] :: fcoords F a :: fcoords F b :: field_probe)
    | 2 => let P := jac 4%nat in let Q := jac 5%nat in
           ok [outj (sw_add F a P Q); outj (sw_sub F a P Q); b2l (sw_eqb F P Q)]
    | 3 => let P := jac 4%nat in let A := aff 5%nat in
           ok [outj (sw_madd F a P A); outj (sw_msub F a P A); outj (sw_madd F a P A);
               b2l (sw_eqb F P (sw_of_affine F A))]
    | 4 => let P := jac 4%nat in
           ok [outj (sw_double F a P); outj (sw_neg F P); outj P; b2l (sw_is_zero F P);
               b2l (sw_aff_on_curve F a b (sw_to_affine F P))]
    | 5 => let A := aff 4%nat in let B := aff 5%nat in
           ok [outj (sw_aff_add_aff F a A B); outj (sw_aff_sub_aff F a A B); outa (sw_aff_neg F A);
               b2l (sw_aff_on_curve F a b A); outj (sw_of_affine F A)]
    | 6 => ok (map outa (sw_normalize_batch F (map (sw_jac_of_list F) (skipn 4 args))))
    | 7 => ok [outj (sw_sum F a (map (sw_aff_of_list F) (skipn 4 args)))]
    | 8 => ok [b2l (sw_aff_on_curve F a b (aff 4%nat))]
    | _ => unsupported
    end.

  Definition te_out (l : list (option (te_aff (T := T)))) (tail : list (list Z)) : list (list Z) :=
    if forallb (fun o => match o with Some _ => true | None => false end) l
    then ok (map (fun o => match o with Some A => te_aff_to_list F A | None => [] end) l ++ tail)
    else panic.

  (* extended coordinates are consistent: T * Z = X * Y (a result with a stale T converts to the right affine point
     and compares equal, but every LATER unified addition on it is wrong) *)
  Definition te_tz (P : T * T * T * T) : bool :=
    let '(x, y, t, z) := P in feqb F (fmul F t z) (fmul F x y).
  Definition tzs (l : list (T * T * T * T)) : list Z := b2l (forallb te_tz l).

  Definition run_te (op : Z) (args : list (list Z)) : list (list Z) :=
    let a := el F (arg 2 args) 0 in
    let d := el F (arg 3 args) 0 in
    let ext n := te_ext_of_list F (arg n args) in
    let aff n := te_aff_of_list F (arg n args) in
    let o P := te_to_affine_opt F P in
    match op with
    | 11 => ok ([fchar F; Z.of_nat (fdeg F)] :: fcoords F a :: fcoords F d :: field_probe)
    | 12 => let P := ext 4%nat in let Q := ext 5%nat in
            te_out [o (te_add F a d P Q); o (te_sub F a d P Q)]
                   [b2l (te_eqb F P Q); tzs [te_add F a d P Q; te_sub F a d P Q]]
    | 13 => let P := ext 4%nat in let A := aff 5%nat in
            te_out [o (te_madd F a d P A); o (te_msub F a d P A); o (te_madd F a d P A)]
                   [b2l (te_eqb F P (te_of_affine F A)); tzs [te_madd F a d P A; te_msub F a d P A]]
    | 14 => let P := ext 4%nat in
            te_out [o (te_double F a P); o (te_neg F P); o P]
                   [b2l (te_is_zero F P);
                    b2l (match o P with Some A => te_aff_on_curve F a d A | None => false end);
                    tzs [te_double F a P; te_neg F P]]
    | 15 => let A := aff 4%nat in let B := aff 5%nat in
            te_out [o (te_aff_add_aff F a d A B); o (te_aff_sub_aff F a d A B); Some (te_aff_neg F A);
                    o (te_of_affine F A)]
                   [b2l (te_aff_on_curve F a d A); b2l (te_aff_is_zero F A);
                    tzs [te_aff_add_aff F a d A B; te_aff_sub_aff F a d A B; te_of_affine F A]]
    | 16 => ok (map (te_aff_to_list F) (te_normalize_batch F (map (te_ext_of_list F) (skipn 4 args))))
    | 17 => te_out [o (te_sum F a d (map (te_aff_of_list F) (skipn 4 args)))]
                   [tzs [te_sum F a d (map (te_aff_of_list F) (skipn 4 args))]]
    | 18 => ok [b2l (te_aff_on_curve F a d (aff 4%nat))]
    | _ => unsupported
    end.

  Definition run_gen (op : Z) (args : list (list Z)) : list (list Z) :=
    if op <? 10 then run_sw op args else run_te op args.
End RunF.

Definition run_C03 (op : Z) (a : list (list Z)) : list (list Z) :=
  let p := nth 0 (arg 1 a) 0 in
  let deg := nth 1 (arg 1 a) 1 in
  let nr := nth 2 (arg 1 a) 0 in
  match deg with
  | 1 => run_gen (ZpOps p) op a
  | 2 => run_gen (QuadOps (ZpOps p) (nr mod p)) op a
  | 3 => run_gen (CubicOps (ZpOps p) (nr mod p)) op a
  | _ => unsupported
  end.
