(* C03 -- short Weierstrass curves  y^2 = x^3 + a x + b : executable model of
   ec/src/models/short_weierstrass/{group,affine}.rs (Jacobian coordinates), branch by
   branch, over an abstract field given as an [Fops] dictionary [F] and the curve
   coefficients [a], [b].  The textbook affine chord-and-tangent law [aff_add_sw] is the
   specification.  No proofs in this file. *)
From V Require Import Base.Field.

Section SW.
  Context {T : Type} (F : Fops T) (a b : T).
  Local Notation "0" := (f0 F).
  Local Notation "1" := (f1 F).
  Local Infix "+" := (fadd F).
  Local Infix "-" := (fsub F).
  Local Infix "*" := (fmul F).
  Local Infix "==" := (feqb F) (at level 70).
  Local Notation "- x" := (fneg F x).

  Definition sq (x : T) : T := x * x.            (* Field::square *)
  Definition dbl (x : T) : T := x + x.           (* Field::double *)

  (* affine point: None = point at infinity (Rust: infinity = true, x = y = 0) *)
  Definition sw_aff : Type := option (T * T).
  (* Jacobian (X, Y, Z): affine (X/Z^2, Y/Z^3); identity iff Z = 0 *)
  Definition sw_jac : Type := (T * T * T)%type.

  (* SWCurveConfig::mul_by_a / add_b (default implementations) *)
  Definition sw_mul_by_a (e : T) : T := if a == 0 then 0 else e * a.
  Definition sw_add_b (e : T) : T := if b == 0 then e else e + b.

  (* ---------------- affine.rs ---------------- *)

  (* Affine::is_on_curve *)
  Definition sw_aff_on_curve (A : sw_aff) : bool :=
    match A with
    | None => true
    | Some (x, y) =>
        let x3b := sw_add_b (sq x * x) in
        let x3b := if negb (a == 0) then x3b + sw_mul_by_a x else x3b in
        sq y == x3b
    end.

  (* Neg for Affine: y.neg_in_place (identity has y = 0 and stays the identity) *)
  Definition sw_aff_neg (A : sw_aff) : sw_aff :=
    match A with None => None | Some (x, y) => Some (x, - y) end.

  Definition sw_zero : sw_jac := (1, 1, 0).
  Definition sw_is_zero (P : sw_jac) : bool := let '(x, y, z) := P in z == 0.

  (* From<Affine> for Projective *)
  Definition sw_of_affine (A : sw_aff) : sw_jac :=
    match A with None => sw_zero | Some (x, y) => (x, y, 1) end.

  (* From<Projective> for Affine: identity / Z = 1 shortcut / inversion *)
  Definition sw_to_affine (P : sw_jac) : sw_aff :=
    let '(x, y, z) := P in
    if z == 0 then None
    else if z == 1 then Some (x, y)
    else
      let zinv := finv F z in
      let zinv_squared := sq zinv in
      Some (x * zinv_squared, y * (zinv_squared * zinv)).

  (* ---------------- group.rs ---------------- *)

  (* double_in_place: identity / a = 0 (dbl-2009-l, two ways of computing D selected by
     the extension degree of the base field) / a <> 0 (dbl-2007-bl) *)
  Definition sw_double (P : sw_jac) : sw_jac :=
    let '(x, y, z) := P in
    if z == 0 then P
    else if a == 0 then
      let A := sq x in
      let B := sq y in
      let C := sq B in
      let D := if (fdeg F <=? 2)%nat
               then dbl (dbl (x * B))
               else dbl (sq (x + B) - A - C) in
      let E := A + dbl A in
      let Z3 := dbl (z * y) in
      let X3 := sq E - dbl D in
      let Y3 := (D - X3) * E - dbl (dbl (dbl C)) in
      (X3, Y3, Z3)
    else
      let XX := sq x in
      let YY := sq y in
      let YYYY := sq YY in
      let ZZ := sq z in
      let S := dbl (sq (x + YY) - XX - YYYY) in
      let M := dbl XX + XX + sw_mul_by_a (sq ZZ) in
      let X3 := sq M - dbl S in
      let Z3 := dbl (z * y) in
      let Y3 := (S - X3) * M - dbl (dbl (dbl YYYY)) in
      (X3, Y3, Z3).

  Definition sw_neg (P : sw_jac) : sw_jac := let '(x, y, z) := P in (x, - y, z).

  (* AddAssign<&Projective> : add-2007-bl with identity / equal / opposite branches *)
  Definition sw_add (P Q : sw_jac) : sw_jac :=
    let '(x1, y1, z1) := P in
    let '(x2, y2, z2) := Q in
    if z1 == 0 then Q
    else if z2 == 0 then P
    else
      let Z1Z1 := sq z1 in
      let Z2Z2 := sq z2 in
      let U1 := x1 * Z2Z2 in
      let U2 := x2 * Z1Z1 in
      let S1 := y1 * z2 * Z2Z2 in
      let S2 := y2 * z1 * Z1Z1 in
      if U1 == U2 then
        if S1 == S2 then sw_double P else sw_zero
      else
        let H := U2 - U1 in
        let I := sq (dbl H) in
        let J := (- H) * I in
        let r := dbl (S2 - S1) in
        let V := U1 * I in
        let X3 := sq r + J - dbl V in
        (* sum_of_products [r, 2*S1] [V - X3, J] *)
        let Y3 := 0 + r * (V - X3) + dbl S1 * J in
        let Z3 := dbl (z1 * z2) * H in
        (X3, Y3, Z3).

  (* AddAssign<Affine> : madd-2007-bl *)
  Definition sw_madd (P : sw_jac) (Q : sw_aff) : sw_jac :=
    match Q with
    | None => P
    | Some (x2, y2) =>
      let '(x1, y1, z1) := P in
      if z1 == 0 then (x2, y2, 1)
      else
        let Z1Z1 := sq z1 in
        let U2 := x2 * Z1Z1 in
        let S2 := z1 * y2 * Z1Z1 in
        if x1 == U2 then
          if y1 == S2 then sw_double P else sw_zero
        else
          let H := U2 - x1 in
          let HH := sq H in
          let I := dbl (dbl HH) in
          let J := (- H) * I in
          let r := dbl (S2 - y1) in
          let V := x1 * I in
          let X3 := sq r + J - dbl V in
          let Y3 := 0 + r * (V - X3) + dbl y1 * J in
          let Z3 := dbl (z1 * H) in
          (X3, Y3, Z3)
    end.

  (* SubAssign: self += -other *)
  Definition sw_sub (P Q : sw_jac) : sw_jac := sw_add P (sw_neg Q).
  Definition sw_msub (P : sw_jac) (Q : sw_aff) : sw_jac := sw_madd P (sw_aff_neg Q).

  (* Affine + Affine, Affine - Affine (into_group, then mixed addition) *)
  Definition sw_aff_add_aff (A B : sw_aff) : sw_jac := sw_madd (sw_of_affine A) B.
  Definition sw_aff_sub_aff (A B : sw_aff) : sw_jac := sw_msub (sw_of_affine A) B.

  (* PartialEq for Projective: cross-multiplied *)
  Definition sw_eqb (P Q : sw_jac) : bool :=
    let '(x1, y1, z1) := P in
    let '(x2, y2, z2) := Q in
    if z1 == 0 then z2 == 0
    else if z2 == 0 then false
    else
      let Z1Z1 := sq z1 in
      let Z2Z2 := sq z2 in
      if x1 * Z2Z2 == x2 * Z1Z1
      then y1 * (Z2Z2 * z2) == y2 * (Z1Z1 * z1)
      else false.

  (* Sum<Affine>: fold from zero with mixed addition *)
  Definition sw_sum (l : list sw_aff) : sw_jac := fold_left sw_madd l sw_zero.

  (* ark_ff::serial_batch_inversion_and_mul.  The Rust code makes a forward pass that
     stores the running products of the non-zero entries, inverts the last product,
     multiplies by [coeff], and walks backwards: f := tmp * s (s = running product
     *before* f, 1 for the first non-zero entry), tmp := tmp * f_old.  The recursion
     below is that algorithm with the vector of running products kept on the call
     stack: [acc] is the running product before the current element; what is returned
     is (tmp after the backward pass reached this position, the rewritten suffix). *)
  Fixpoint binv_aux (coeff acc : T) (v : list T) : T * list T :=
    match v with
    | [] => (finv F acc * coeff, [])
    | f :: v' =>
        if f == 0 then
          let '(t, r) := binv_aux coeff acc v' in (t, f :: r)
        else
          let '(t, r) := binv_aux coeff (acc * f) v' in (t * f, (t * acc) :: r)
    end.
  Definition batch_inversion (v : list T) : list T := snd (binv_aux 1 1 v).

  (* CurveGroup::normalize_batch *)
  Definition sw_normalize_batch (v : list sw_jac) : list sw_aff :=
    let z_s := batch_inversion (map (fun g : sw_jac => snd g) v) in
    map (fun gz : sw_jac * T =>
           let '(g, z) := gz in
           let '(gx, gy, _) := g in
           if sw_is_zero g then None
           else let z2 := sq z in Some (gx * z2, gy * z2 * z))
        (combine v z_s).

  (* ---------------- specification: the textbook affine group law ---------------- *)
  Definition aff_add_sw (A B : sw_aff) : sw_aff :=
    match A, B with
    | None, _ => B
    | _, None => A
    | Some (x1, y1), Some (x2, y2) =>
        if x1 == x2 then
          if y1 == - y2 then None            (* vertical line, includes 2-torsion doubling *)
          else                               (* tangent *)
            let l := fdiv F (x1 * x1 + x1 * x1 + x1 * x1 + a) (y1 + y1) in
            let x3 := l * l - x1 - x2 in
            Some (x3, l * (x1 - x3) - y1)
        else                                 (* chord *)
          let l := fdiv F (y2 - y1) (x2 - x1) in
          let x3 := l * l - x1 - x2 in
          Some (x3, l * (x1 - x3) - y1)
    end.
  Definition aff_neg_sw (A : sw_aff) : sw_aff :=
    match A with None => None | Some (x, y) => Some (x, - y) end.
End SW.
