From V Require Import Base.Field C03.SWModel.
Require Import Coq.setoid_ring.Field Coq.setoid_ring.Ring.

Section SWProofs.
  Context {T : Type} (F : Fops T) (a b : T).
  Hypothesis Fth : field_theory (f0 F) (f1 F) (fadd F) (fmul F) (fsub F) (fneg F) (fdiv F) (finv F) eq.
  Hypothesis feqb_spec : forall x y, feqb F x y = true <-> x = y.
  Hypothesis two_nz : fadd F (f1 F) (f1 F) <> f0 F.
  Add Field Kf : Fth.

  Local Notation "0" := (f0 F).
  Local Notation "1" := (f1 F).
  Local Infix "+" := (fadd F).
  Local Infix "-" := (fsub F).
  Local Infix "*" := (fmul F).
  Local Infix "/" := (fdiv F).
  Local Infix "==" := (feqb F) (at level 70).
  Local Notation "- x" := (fneg F x).

  Lemma eqb_false : forall x y, (x == y) = false <-> x <> y.
  Proof.
    intros x y. split.
    - intros H E. apply feqb_spec in E. congruence.
    - intros H. destruct (x == y) eqn:E; auto. apply feqb_spec in E. contradiction.
  Qed.
  Lemma eqb_refl : forall x, (x == x) = true.
  Proof. intros. apply feqb_spec. reflexivity. Qed.

  Lemma mul_eq0 : forall x y, x * y = 0 -> x = 0 \/ y = 0.
  Proof.
    intros x y H. destruct (x == 0) eqn:E.
    - left. apply feqb_spec. exact E.
    - right. apply eqb_false in E.
      assert (Hy : y = (x * y) / x) by (field; exact E).
      rewrite Hy, H. field. exact E.
  Qed.
  Lemma mul_nz : forall x y, x <> 0 -> y <> 0 -> x * y <> 0.
  Proof. intros x y Hx Hy E. destruct (mul_eq0 _ _ E); contradiction. Qed.
  Lemma sub_nz : forall x y, x <> y -> x - y <> 0.
  Proof. intros x y H E. apply H. transitivity ((x - y) + y); [ring | rewrite E; ring]. Qed.
  Lemma one_nz : 1 <> 0.
  Proof. exact (F_1_neq_0 Fth). Qed.

  Definition aff_on (A : sw_aff (T:=T)) : Prop :=
    match A with None => True | Some (x, y) => y * y = x * x * x + a * x + b end.
  Definition jac_on (P : sw_jac (T:=T)) : Prop := aff_on (sw_to_affine F P).

  Lemma sw_to_affine_spec : forall x y z, z <> 0 ->
    sw_to_affine F (x, y, z) = Some (x / (z * z), y / (z * z * z)).
  Proof.
    intros x y z Hz. unfold sw_to_affine.
    destruct (z == 0) eqn:E0. { apply feqb_spec in E0. contradiction. }
    destruct (z == 1) eqn:E1.
    - apply feqb_spec in E1. subst z. f_equal. f_equal; field; exact one_nz.
    - unfold sq. f_equal. f_equal; field; exact Hz.
  Qed.
  Lemma sw_to_affine_zero : forall x y, sw_to_affine F (x, y, 0) = None.
  Proof. intros. unfold sw_to_affine. rewrite eqb_refl. reflexivity. Qed.

  Lemma sw_to_affine_gen : forall x y z,
    sw_to_affine F (x, y, z) = if z == 0 then None else Some (x / (z * z), y / (z * z * z)).
  Proof.
    intros x y z. destruct (z == 0) eqn:E.
    - apply feqb_spec in E. subst. apply sw_to_affine_zero.
    - apply sw_to_affine_spec, eqb_false, E.
  Qed.
  Lemma dbl_nz : forall x, x <> 0 -> x + x <> 0.
  Proof.
    intros x Hx E. assert (E' : (1 + 1) * x = 0) by (rewrite <- E; ring).
    destruct (mul_eq0 _ _ E'); contradiction.
  Qed.
  Lemma neg_eq_self : forall y, y = - y -> y = 0.
  Proof.
    intros y E. destruct (y == 0) eqn:Ey; [apply feqb_spec; exact Ey|].
    apply eqb_false in Ey. exfalso. apply (dbl_nz y Ey). rewrite E at 1. ring.
  Qed.
  Lemma div_eq0 : forall x z, z <> 0 -> x / z = 0 -> x = 0.
  Proof. intros x z Hz E. transitivity ((x / z) * z); [field; exact Hz | rewrite E; ring]. Qed.

  Ltac nz := repeat split;
    repeat first [ assumption | exact one_nz | exact two_nz | apply mul_nz | apply dbl_nz | apply sub_nz ].

  Theorem sw_double_correct : forall P,
    sw_to_affine F (sw_double F a P) = aff_add_sw F a (sw_to_affine F P) (sw_to_affine F P).
  Proof.
    intros [[x y] z]. unfold sw_double.
    destruct (z == 0) eqn:Ez.
    { apply feqb_spec in Ez. subst z. rewrite sw_to_affine_zero. reflexivity. }
    apply eqb_false in Ez.
    rewrite (sw_to_affine_spec x y z Ez).
    unfold aff_add_sw. rewrite eqb_refl.
    destruct (y == 0) eqn:Ey.
    - apply feqb_spec in Ey. subst y.
      assert (E1 : (0 / (z * z * z) == - (0 / (z * z * z))) = true).
      { apply feqb_spec. field. exact Ez. }
      rewrite E1.
      destruct (a == 0); [destruct (fdeg F <=? 2)%nat|]; cbv zeta; rewrite sw_to_affine_gen;
        (replace (dbl F (z * 0)) with 0 by (unfold dbl; ring)); rewrite eqb_refl; reflexivity.
    - apply eqb_false in Ey.
      assert (E1 : (y / (z * z * z) == - (y / (z * z * z))) = false).
      { apply eqb_false. intro E. apply neg_eq_self in E. apply div_eq0 in E; [contradiction|nz]. }
      rewrite E1.
      assert (HZ3 : dbl F (z * y) <> 0) by (unfold dbl; nz).
      destruct (a == 0) eqn:Ea; [apply feqb_spec in Ea; destruct (fdeg F <=? 2)%nat | ]; cbv zeta;
        rewrite sw_to_affine_spec by exact HZ3; f_equal; f_equal;
        unfold sq, dbl, sw_mul_by_a; try rewrite Ea; field; nz.
  Qed.

  Lemma cross2 : forall x1 z1 x2 z2, z1 <> 0 -> z2 <> 0 ->
    (x1 / z1 = x2 / z2 <-> x1 * z2 = x2 * z1).
  Proof.
    intros x1 z1 x2 z2 H1 H2. split; intro E.
    - transitivity ((x1 / z1) * (z1 * z2)); [field; exact H1|]. rewrite E. field. exact H2.
    - transitivity ((x1 * z2) / (z1 * z2)); [field; nz|]. rewrite E. field. nz.
  Qed.

  Lemma aff_on_opposite : forall X Y1 Y2,
    Y1 * Y1 = X * X * X + a * X + b -> Y2 * Y2 = X * X * X + a * X + b -> Y1 <> Y2 -> Y1 = - Y2.
  Proof.
    intros X Y1 Y2 H1 H2 Hne.
    assert (E : (Y1 - Y2) * (Y1 + Y2) = 0).
    { transitivity (Y1 * Y1 - Y2 * Y2); [ring|]. rewrite H1, H2. ring. }
    destruct (mul_eq0 _ _ E) as [E'|E'].
    - exfalso. apply Hne. transitivity ((Y1 - Y2) + Y2); [ring|]. rewrite E'. ring.
    - transitivity ((Y1 + Y2) - Y2); [ring|]. rewrite E'. ring.
  Qed.

  Theorem sw_add_correct : forall P Q, jac_on P -> jac_on Q ->
    sw_to_affine F (sw_add F a P Q) = aff_add_sw F a (sw_to_affine F P) (sw_to_affine F Q).
  Proof.
    intros [[x1 y1] z1] [[x2 y2] z2] HP HQ. unfold sw_add.
    destruct (z1 == 0) eqn:Ez1.
    { apply feqb_spec in Ez1. subst z1. rewrite sw_to_affine_zero. reflexivity. }
    destruct (z2 == 0) eqn:Ez2.
    { apply feqb_spec in Ez2. subst z2. rewrite (sw_to_affine_zero x2 y2).
      destruct (sw_to_affine F (x1, y1, z1)) as [[? ?]|]; reflexivity. }
    apply eqb_false in Ez1. apply eqb_false in Ez2.
    unfold jac_on in HP, HQ.
    rewrite (sw_to_affine_spec x1 y1 z1 Ez1) in *. rewrite (sw_to_affine_spec x2 y2 z2 Ez2) in *.
    cbn [aff_on] in HP, HQ.
    cbv zeta. unfold sq.
    assert (Hzz1 : z1 * z1 <> 0) by nz. assert (Hzz2 : z2 * z2 <> 0) by nz.
    assert (Hzzz1 : z1 * z1 * z1 <> 0) by nz. assert (Hzzz2 : z2 * z2 * z2 <> 0) by nz.
    destruct (x1 * (z2 * z2) == x2 * (z1 * z1)) eqn:EU.
    - apply feqb_spec in EU.
      assert (EX : x1 / (z1 * z1) = x2 / (z2 * z2)) by (apply (cross2 x1 (z1 * z1) x2 (z2 * z2) Hzz1 Hzz2); assumption).
      destruct (y1 * z2 * (z2 * z2) == y2 * z1 * (z1 * z1)) eqn:ES.
      + apply feqb_spec in ES.
        assert (EY : y1 / (z1 * z1 * z1) = y2 / (z2 * z2 * z2)).
        { apply (cross2 y1 (z1 * z1 * z1) y2 (z2 * z2 * z2) Hzzz1 Hzzz2). transitivity (y1 * z2 * (z2 * z2)); [ring|]. rewrite ES. ring. }
        rewrite <- EX, <- EY. rewrite <- (sw_to_affine_spec x1 y1 z1 Ez1).
        apply sw_double_correct.
      + apply eqb_false in ES.
        unfold sw_zero. rewrite sw_to_affine_zero. unfold aff_add_sw.
        rewrite EX, eqb_refl.
        assert (EY : y1 / (z1 * z1 * z1) = - (y2 / (z2 * z2 * z2))).
        { apply (aff_on_opposite (x2 / (z2 * z2))); [rewrite <- EX; exact HP | exact HQ |].
          intro E. apply (cross2 y1 (z1 * z1 * z1) y2 (z2 * z2 * z2) Hzzz1 Hzzz2) in E. apply ES.
          transitivity (y1 * (z2 * z2 * z2)); [ring | rewrite E; ring]. }
        rewrite EY, eqb_refl. reflexivity.
    - apply eqb_false in EU.
      assert (HH : x2 * (z1 * z1) - x1 * (z2 * z2) <> 0) by (apply sub_nz; congruence).
      assert (EX : (x1 / (z1 * z1) == x2 / (z2 * z2)) = false).
      { apply eqb_false. intro E. apply (cross2 x1 (z1 * z1) x2 (z2 * z2) Hzz1 Hzz2) in E. contradiction. }
      unfold aff_add_sw. rewrite EX.
      rewrite sw_to_affine_spec by (unfold dbl; nz).
      f_equal. f_equal; unfold dbl; field; nz.
  Qed.

  Lemma div1_eq : forall x z y, z <> 0 -> (x / z = y <-> x = y * z).
  Proof.
    intros x z y Hz. split; intro E.
    - rewrite <- E. field. exact Hz.
    - rewrite E. field. exact Hz.
  Qed.

  Theorem sw_madd_correct : forall P Q, jac_on P -> aff_on Q ->
    sw_to_affine F (sw_madd F a P Q) = aff_add_sw F a (sw_to_affine F P) Q.
  Proof.
    intros [[x1 y1] z1] [[x2 y2]|] HP HQ; unfold sw_madd.
    2:{ destruct (sw_to_affine F (x1, y1, z1)) as [[? ?]|]; reflexivity. }
    destruct (z1 == 0) eqn:Ez1.
    { apply feqb_spec in Ez1. subst z1. rewrite sw_to_affine_zero. cbn [aff_add_sw].
      unfold sw_to_affine. rewrite eqb_refl.
      destruct (1 == 0) eqn:E10; [apply feqb_spec in E10; destruct (one_nz E10)|reflexivity]. }
    apply eqb_false in Ez1. unfold jac_on in HP.
    rewrite (sw_to_affine_spec x1 y1 z1 Ez1) in *. cbn [aff_on] in HP, HQ.
    cbv zeta. unfold sq.
    assert (Hzz1 : z1 * z1 <> 0) by nz. assert (Hzzz1 : z1 * z1 * z1 <> 0) by nz.
    destruct (x1 == x2 * (z1 * z1)) eqn:EU.
    - apply feqb_spec in EU.
      assert (EX : x1 / (z1 * z1) = x2) by (apply div1_eq; assumption).
      destruct (y1 == z1 * y2 * (z1 * z1)) eqn:ES.
      + apply feqb_spec in ES.
        assert (EY : y1 / (z1 * z1 * z1) = y2) by (apply div1_eq; [assumption | rewrite ES; ring]).
        rewrite <- EX, <- EY. rewrite <- (sw_to_affine_spec x1 y1 z1 Ez1).
        apply sw_double_correct.
      + apply eqb_false in ES.
        unfold sw_zero. rewrite sw_to_affine_zero. unfold aff_add_sw.
        rewrite EX, eqb_refl.
        assert (EY : y1 / (z1 * z1 * z1) = - y2).
        { apply (aff_on_opposite x2); [rewrite <- EX; exact HP | exact HQ |].
          intro E. apply div1_eq in E; [|assumption]. apply ES. rewrite E. ring. }
        rewrite EY, eqb_refl. reflexivity.
    - apply eqb_false in EU.
      assert (HH : x2 * (z1 * z1) - x1 <> 0) by (apply sub_nz; congruence).
      assert (EX : (x1 / (z1 * z1) == x2) = false).
      { apply eqb_false. intro E. apply div1_eq in E; [|assumption]. contradiction. }
      unfold aff_add_sw. rewrite EX.
      rewrite sw_to_affine_spec by (unfold dbl; nz).
      f_equal. f_equal; unfold dbl; field; nz.
  Qed.

  (* the affine law stays on the curve *)
  Theorem aff_add_sw_on : forall A B, aff_on A -> aff_on B -> aff_on (aff_add_sw F a A B).
  Proof.
    intros [[x1 y1]|] [[x2 y2]|] HA HB; cbn [aff_add_sw]; try assumption.
    cbn [aff_on] in HA, HB.
    destruct (x1 == x2) eqn:EX.
    - apply feqb_spec in EX. subst x2.
      destruct (y1 == - y2) eqn:EY; [exact I|].
      apply eqb_false in EY.
      destruct (y1 == y2) eqn:EY2.
      2:{ apply eqb_false in EY2. destruct EY. apply (aff_on_opposite x1); assumption. }
      apply feqb_spec in EY2. subst y2.
      assert (Hy : y1 <> 0). { intro E. apply EY. rewrite E. ring. }
      cbn [aff_on].
      assert (Hb : b = y1 * y1 - x1 * x1 * x1 - a * x1) by (rewrite HA; ring).
      rewrite Hb. field. nz.
    - apply eqb_false in EX. cbn [aff_on].
      assert (Hd : x1 - x2 <> 0) by (apply sub_nz; exact EX).
      assert (Hd' : x2 - x1 <> 0) by (apply sub_nz; congruence).
      assert (Hb : b = y1 * y1 - x1 * x1 * x1 - a * x1) by (rewrite HA; ring).
      assert (Ha : a = ((y1 * y1 - y2 * y2) - (x1 * x1 * x1 - x2 * x2 * x2)) / (x1 - x2)).
      { rewrite HA, HB. field. exact Hd. }
      rewrite Hb. rewrite Ha. field. nz.
  Qed.

  Theorem sw_add_on_curve : forall P Q, jac_on P -> jac_on Q -> jac_on (sw_add F a P Q).
  Proof. intros P Q HP HQ. unfold jac_on. rewrite sw_add_correct by assumption. apply aff_add_sw_on; assumption. Qed.
  Theorem sw_madd_on_curve : forall P Q, jac_on P -> aff_on Q -> jac_on (sw_madd F a P Q).
  Proof. intros P Q HP HQ. unfold jac_on. rewrite sw_madd_correct by assumption. apply aff_add_sw_on; assumption. Qed.
  Theorem sw_double_on_curve : forall P, jac_on P -> jac_on (sw_double F a P).
  Proof. intros P HP. unfold jac_on. rewrite sw_double_correct. apply aff_add_sw_on; assumption. Qed.

  Theorem sw_neg_correct : forall P, sw_to_affine F (sw_neg F P) = aff_neg_sw F (sw_to_affine F P).
  Proof.
    intros [[x y] z]. unfold sw_neg. rewrite !sw_to_affine_gen.
    destruct (z == 0) eqn:Ez; [reflexivity|]. apply eqb_false in Ez.
    cbn [aff_neg_sw]. f_equal. f_equal. field. nz.
  Qed.
  Lemma aff_neg_on : forall A, aff_on A -> aff_on (aff_neg_sw F A).
  Proof. intros [[x y]|] H; cbn in *; [|exact I]. rewrite <- H. ring. Qed.
  Theorem sw_sub_correct : forall P Q, jac_on P -> jac_on Q ->
    sw_to_affine F (sw_sub F a P Q) = aff_add_sw F a (sw_to_affine F P) (aff_neg_sw F (sw_to_affine F Q)).
  Proof.
    intros P Q HP HQ. unfold sw_sub. rewrite sw_add_correct; [rewrite sw_neg_correct; reflexivity | exact HP |].
    unfold jac_on. rewrite sw_neg_correct. apply aff_neg_on. exact HQ.
  Qed.
  Theorem sw_msub_correct : forall P Q, jac_on P -> aff_on Q ->
    sw_to_affine F (sw_msub F a P Q) = aff_add_sw F a (sw_to_affine F P) (aff_neg_sw F Q).
  Proof. intros P Q HP HQ. unfold sw_msub. apply sw_madd_correct; [exact HP | apply aff_neg_on; exact HQ]. Qed.

  Theorem sw_eqb_spec : forall P Q, sw_eqb F P Q = true <-> sw_to_affine F P = sw_to_affine F Q.
  Proof.
    intros [[x1 y1] z1] [[x2 y2] z2]. unfold sw_eqb. rewrite !sw_to_affine_gen.
    destruct (z1 == 0) eqn:Ez1; destruct (z2 == 0) eqn:Ez2; try (split; congruence).
    apply eqb_false in Ez1. apply eqb_false in Ez2. unfold sq.
    assert (Hzz1 : z1 * z1 <> 0) by nz. assert (Hzz2 : z2 * z2 <> 0) by nz.
    assert (Hzzz1 : z1 * z1 * z1 <> 0) by nz. assert (Hzzz2 : z2 * z2 * z2 <> 0) by nz.
    pose proof (cross2 x1 (z1 * z1) x2 (z2 * z2) Hzz1 Hzz2) as CX.
    pose proof (cross2 y1 (z1 * z1 * z1) y2 (z2 * z2 * z2) Hzzz1 Hzzz2) as CY.
    destruct (x1 * (z2 * z2) == x2 * (z1 * z1)) eqn:EU.
    - apply feqb_spec in EU. apply CX in EU. rewrite feqb_spec. split.
      + intro E. f_equal. f_equal; [exact EU|]. apply CY. rewrite <- E. ring.
      + intro E. injection E as _ E2. apply CY in E2. rewrite E2. ring.
    - apply eqb_false in EU. split; [discriminate|]. intro E. injection E as E1 _. apply CX in E1. contradiction.
  Qed.

  Theorem sw_roundtrip_affine : forall A, sw_to_affine F (sw_of_affine F A) = A.
  Proof.
    intros [[x y]|]; unfold sw_of_affine, sw_zero, sw_to_affine; rewrite ?eqb_refl; [|reflexivity].
    destruct (1 == 0) eqn:E10; [apply feqb_spec in E10; destruct (one_nz E10)|reflexivity].
  Qed.
  Theorem sw_roundtrip_jac : forall P, sw_eqb F (sw_of_affine F (sw_to_affine F P)) P = true.
  Proof. intro P. apply sw_eqb_spec. apply sw_roundtrip_affine. Qed.

  Theorem sw_aff_on_curve_spec : forall A, sw_aff_on_curve F a b A = true <-> aff_on A.
  Proof.
    intros [[x y]|]; cbn [sw_aff_on_curve aff_on]; [|tauto].
    unfold sw_add_b, sw_mul_by_a, sq.
    destruct (a == 0) eqn:Ea; destruct (b == 0) eqn:Eb; cbn [negb]; rewrite feqb_spec;
      try (apply feqb_spec in Ea; rewrite Ea); try (apply feqb_spec in Eb; rewrite Eb);
      split; intro E; rewrite E; ring.
  Qed.

  (* batch inversion: every non-zero entry is inverted, zeros stay *)
  Definition inv0c (c f : T) : T := if f == 0 then f else c / f.
  Lemma binv_aux_spec : forall c v acc, acc <> 0 ->
    binv_aux F c acc v = (c / acc, map (inv0c c) v).
  Proof.
    intros c v. induction v as [|f v IH]; intros acc Hacc; cbn [binv_aux map].
    - f_equal. field. exact Hacc.
    - unfold inv0c at 1. destruct (f == 0) eqn:Ef.
      + rewrite (IH acc Hacc). reflexivity.
      + apply eqb_false in Ef. rewrite (IH (acc * f)) by nz. f_equal; [|f_equal]; field; nz.
  Qed.
  Theorem batch_inversion_spec : forall v, batch_inversion F v = map (inv0c 1) v.
  Proof. intro v. unfold batch_inversion. rewrite binv_aux_spec by exact one_nz. reflexivity. Qed.

  Lemma map_combine_map : forall (A B C : Type) (f : A * B -> C) (g : A -> B) (l : list A),
    map f (combine l (map g l)) = map (fun x => f (x, g x)) l.
  Proof. intros A B C f g l. induction l as [|x l IH]; cbn; [reflexivity | rewrite IH; reflexivity]. Qed.

  Theorem sw_normalize_batch_spec : forall v, sw_normalize_batch F v = map (sw_to_affine F) v.
  Proof.
    intro v. unfold sw_normalize_batch. rewrite batch_inversion_spec, map_map, map_combine_map.
    apply map_ext. intros [[x y] z]. cbn [snd sw_is_zero]. rewrite sw_to_affine_gen. unfold inv0c.
    destruct (z == 0) eqn:Ez; [reflexivity|]. apply eqb_false in Ez.
    unfold sq. f_equal. f_equal; field; nz.
  Qed.

  Theorem sw_sum_correct : forall l P, jac_on P -> Forall aff_on l ->
    sw_to_affine F (fold_left (sw_madd F a) l P) = fold_left (aff_add_sw F a) l (sw_to_affine F P)
    /\ jac_on (fold_left (sw_madd F a) l P).
  Proof.
    induction l as [|A l IH]; intros P HP Hl; cbn [fold_left]; [split; [reflexivity | exact HP]|].
    inversion Hl as [|? ? HA Hl']; subst.
    rewrite <- (sw_madd_correct P A HP HA). apply IH; [apply sw_madd_on_curve; assumption | exact Hl'].
  Qed.
End SWProofs.
