From V Require Import Base.Field C03.SWModel C03.TEModel C03.SWProofs C03.TEProofs.
Require Import Coq.setoid_ring.Field Coq.setoid_ring.Ring Bool.

Section TEComplete.
  Context {T : Type} (F : Fops T) (a d : T).
  Hypothesis Fth : field_theory (f0 F) (f1 F) (fadd F) (fmul F) (fsub F) (fneg F) (fdiv F) (finv F) eq.
  Hypothesis feqb_spec : forall x y, feqb F x y = true <-> x = y.
  Hypothesis two_nz : fadd F (f1 F) (f1 F) <> f0 F.
  Add Field Kf : Fth.

  Local Notation "0" := (f0 F).
  Local Notation "1" := (f1 F).
  Local Infix "+" := (fadd F).
  Local Infix "-" := (fsub F).
  Local Infix "*" := (fmul F).
  Local Infix "/" := (fdiv F).
  Local Notation "- x" := (fneg F x).

  Let mul_eq0 := SWProofs.mul_eq0 F Fth feqb_spec.
  Let mul_nz := SWProofs.mul_nz F Fth feqb_spec.
  Let one_nz := SWProofs.one_nz F Fth.
  Let dbl_nz := SWProofs.dbl_nz F Fth feqb_spec two_nz.
  Ltac nz := repeat split; repeat first [ assumption | exact one_nz | exact two_nz | apply mul_nz | apply dbl_nz ].

  Variable s : T.
  Hypothesis a_square : a = s * s.
  Hypothesis d_nonsquare : forall w, w * w <> d.

  Lemma sq_rel : forall x1 y1 x2 y2 e,
    s * s * (x1 * x1) + y1 * y1 = 1 + d * (x1 * x1 * (y1 * y1)) ->
    s * s * (x2 * x2) + y2 * y2 = 1 + d * (x2 * x2 * (y2 * y2)) ->
    e * e = 1 -> d * (x1 * x2 * (y1 * y2)) = e ->
    (s * x1 + e * y1) * (s * x1 + e * y1) = d * (x1 * x1 * (y1 * y1)) * ((s * x2 + y2) * (s * x2 + y2)).
  Proof.
    intros x1 y1 x2 y2 e H1 H2 Hee E0.
    assert (K1 : d * (x1 * x1 * (y1 * y1)) * (s * s * (x2 * x2) + y2 * y2) = s * s * (x1 * x1) + y1 * y1).
    { rewrite H2.
      replace (d * (x1 * x1 * (y1 * y1)) * (1 + d * (x2 * x2 * (y2 * y2))))
        with (d * (x1 * x1 * (y1 * y1)) + (d * (x1 * x2 * (y1 * y2))) * (d * (x1 * x2 * (y1 * y2)))) by ring.
      rewrite E0, Hee, H1. ring. }
    replace ((s * x1 + e * y1) * (s * x1 + e * y1))
      with (s * s * (x1 * x1) + (e * e) * (y1 * y1) + (1 + 1) * s * x1 * y1 * e) by ring.
    rewrite Hee.
    replace (d * (x1 * x1 * (y1 * y1)) * ((s * x2 + y2) * (s * x2 + y2)))
      with (d * (x1 * x1 * (y1 * y1)) * (s * s * (x2 * x2) + y2 * y2)
            + (1 + 1) * s * x1 * y1 * (d * (x1 * x2 * (y1 * y2)))) by ring.
    rewrite K1, E0. ring.
  Qed.

  Lemma no_unit_k : forall x1 y1 x2 y2 e,
    s * s * (x1 * x1) + y1 * y1 = 1 + d * (x1 * x1 * (y1 * y1)) ->
    s * s * (x2 * x2) + y2 * y2 = 1 + d * (x2 * x2 * (y2 * y2)) ->
    e * e = 1 -> d * (x1 * x2 * (y1 * y2)) <> e.
  Proof.
    intros x1 y1 x2 y2 e H1 H2 Hee E0.
    assert (He : e <> 0). { intro E. rewrite E in Hee. apply one_nz. rewrite <- Hee. ring. }
    assert (Hxy : x1 * y1 <> 0).
    { intro E. apply He. rewrite <- E0. transitivity (d * ((x1 * y1) * (x2 * y2))); [ring | rewrite E; ring]. }
    assert (Hx1 : x1 <> 0) by (intro E; apply Hxy; rewrite E; ring).
    assert (Hy1 : y1 <> 0) by (intro E; apply Hxy; rewrite E; ring).
    pose proof (sq_rel x1 y1 x2 y2 e H1 H2 Hee E0) as KP.
    assert (H1' : s * s * (x1 * x1) + (- y1) * (- y1) = 1 + d * (x1 * x1 * ((- y1) * (- y1)))).
    { transitivity (s * s * (x1 * x1) + y1 * y1); [ring | rewrite H1; ring]. }
    assert (H2' : s * s * (x2 * x2) + (- y2) * (- y2) = 1 + d * (x2 * x2 * ((- y2) * (- y2)))).
    { transitivity (s * s * (x2 * x2) + y2 * y2); [ring | rewrite H2; ring]. }
    assert (E0' : d * (x1 * x2 * ((- y1) * (- y2))) = e) by (rewrite <- E0; ring).
    pose proof (sq_rel x1 (- y1) x2 (- y2) e H1' H2' Hee E0') as KM0.
    assert (KM : (s * x1 - e * y1) * (s * x1 - e * y1) = d * (x1 * x1 * (y1 * y1)) * ((s * x2 - y2) * (s * x2 - y2))).
    { transitivity ((s * x1 + e * - y1) * (s * x1 + e * - y1)); [ring | rewrite KM0; ring]. }
    clear KM0.
    destruct (feqb F (s * x2 + y2) 0) eqn:EP.
    - apply feqb_spec in EP.
      destruct (feqb F (s * x2 - y2) 0) eqn:EM.
      + apply feqb_spec in EM.
        assert (Hy2 : y2 = 0).
        { destruct (mul_eq0 (1 + 1) y2) as [E|E]; [|contradiction|exact E].
          transitivity ((s * x2 + y2) - (s * x2 - y2)); [ring | rewrite EP, EM; ring]. }
        apply He. rewrite <- E0, Hy2. ring.
      + apply (SWProofs.eqb_false F feqb_spec) in EM.
        apply (d_nonsquare ((s * x1 - e * y1) / (x1 * y1 * (s * x2 - y2)))).
        transitivity (((s * x1 - e * y1) * (s * x1 - e * y1)) / ((x1 * y1 * (s * x2 - y2)) * (x1 * y1 * (s * x2 - y2)))); [field; nz|].
        rewrite KM. field. nz.
    - apply (SWProofs.eqb_false F feqb_spec) in EP.
      apply (d_nonsquare ((s * x1 + e * y1) / (x1 * y1 * (s * x2 + y2)))).
      transitivity (((s * x1 + e * y1) * (s * x1 + e * y1)) / ((x1 * y1 * (s * x2 + y2)) * (x1 * y1 * (s * x2 + y2)))); [field; nz|].
      rewrite KP. field. nz.
  Qed.

  (* Bernstein-Lange: a square, d non-square => the addition law is complete *)
  Theorem te_complete : forall A B, te_aff_on F a d A -> te_aff_on F a d B -> te_dens_ok F d A B.
  Proof.
    intros [x1 y1] [x2 y2] H1 H2. cbn [te_aff_on te_dens_ok] in *. rewrite a_square in H1, H2.
    split; intro E.
    - apply (no_unit_k x1 y1 x2 y2 (- (1)) H1 H2); [ring|].
      transitivity ((1 + d * (x1 * x2 * (y1 * y2))) - 1); [ring | rewrite E; ring].
    - apply (no_unit_k x1 y1 x2 y2 1 H1 H2); [ring|].
      transitivity (1 - (1 - d * (x1 * x2 * (y1 * y2)))); [ring | rewrite E; ring].
  Qed.
End TEComplete.
