(* C03 -- twisted Edwards curves  a x^2 + y^2 = 1 + d x^2 y^2 : executable model of
   ec/src/models/twisted_edwards/{group,affine}.rs (extended coordinates, unified
   addition of Hisil-Wong-Carter-Dawson), over an abstract field given as an [Fops]
   dictionary.  Specification: the Edwards addition law [aff_add_te].  No proofs here. *)
From V Require Import Base.Field C03.SWModel.

Section TE.
  Context {T : Type} (F : Fops T) (a d : T).
  Local Notation "0" := (f0 F).
  Local Notation "1" := (f1 F).
  Local Infix "+" := (fadd F).
  Local Infix "-" := (fsub F).
  Local Infix "*" := (fmul F).
  Local Infix "==" := (feqb F) (at level 70).
  Local Notation "- x" := (fneg F x).
  Local Notation sq := (sq F).
  Local Notation dbl := (dbl F).

  (* affine point (x, y); the identity is (0, 1) *)
  Definition te_aff : Type := (T * T)%type.
  (* extended (X, Y, T, Z): affine (X/Z, Y/Z), T = XY/Z *)
  Definition te_ext : Type := (T * T * T * T)%type.

  Definition te_mul_by_a (e : T) : T := e * a.       (* TECurveConfig::mul_by_a default *)

  (* ---------------- affine.rs ---------------- *)
  Definition te_aff_zero : te_aff := (0, 1).
  Definition te_aff_is_zero (A : te_aff) : bool := let '(x, y) := A in (x == 0) && (y == 1).
  Definition te_aff_on_curve (A : te_aff) : bool :=
    let '(x, y) := A in
    let x2 := sq x in
    let y2 := sq y in
    let lhs := y2 + te_mul_by_a x2 in
    let rhs := 1 + d * (x2 * y2) in
    lhs == rhs.
  Definition te_aff_neg (A : te_aff) : te_aff := let '(x, y) := A in (- x, y).

  (* ---------------- group.rs ---------------- *)
  Definition te_zero : te_ext := (0, 1, 0, 1).
  Definition te_is_zero (P : te_ext) : bool :=
    let '(x, y, t, z) := P in
    (x == 0) && (y == z) && negb (y == 0) && (t == 0).

  Definition te_of_affine (A : te_aff) : te_ext := let '(x, y) := A in (x, y, x * y, 1).

  (* From<Projective> for Affine.  The Rust code panics (inverse().unwrap()) when Z = 0
     and the point is not recognised as zero; [te_to_affine] is total (finv 0 = 0) and
     [te_to_affine_opt] returns None exactly where the Rust code panics. *)
  Definition te_to_affine (P : te_ext) : te_aff :=
    let '(x, y, t, z) := P in
    if te_is_zero P then te_aff_zero
    else if z == 1 then (x, y)
    else let z_inv := finv F z in (x * z_inv, y * z_inv).
  Definition te_to_affine_opt (P : te_ext) : option te_aff :=
    let '(x, y, t, z) := P in
    if te_is_zero P then Some te_aff_zero
    else if z == 0 then None
    else Some (te_to_affine P).

  (* double_in_place: dbl-2008-hwcd *)
  Definition te_double (P : te_ext) : te_ext :=
    let '(x, y, t, z) := P in
    let A := sq x in
    let B := sq y in
    let C := dbl (sq z) in
    let D := te_mul_by_a A in
    let E := sq (x + y) - A - B in
    let G := D + B in
    let F' := G - C in
    let H := D - B in
    (E * F', G * H, E * H, F' * G).

  Definition te_neg (P : te_ext) : te_ext := let '(x, y, t, z) := P in (- x, y, - t, z).

  (* AddAssign<&Projective>: unified addition *)
  Definition te_add (P Q : te_ext) : te_ext :=
    let '(x1, y1, t1, z1) := P in
    let '(x2, y2, t2, z2) := Q in
    let A := x1 * x2 in
    let B := y1 * y2 in
    let C := d * t1 * t2 in
    let D := z1 * z2 in
    let H := B - te_mul_by_a A in
    let E := (x1 + y1) * (x2 + y2) - A - B in
    let F' := D - C in
    let G := D + C in
    (E * F', G * H, E * H, F' * G).

  (* AddAssign<Affine>: madd-2008-hwcd *)
  Definition te_madd (P : te_ext) (Q : te_aff) : te_ext :=
    let '(x1, y1, t1, z1) := P in
    let '(x2, y2) := Q in
    let A := x1 * x2 in
    let B := y1 * y2 in
    let C := d * t1 * x2 * y2 in
    let D := z1 in
    let E := (x1 + y1) * (x2 + y2) - A - B in
    let F' := D - C in
    let G := D + C in
    let H := B - te_mul_by_a A in
    (E * F', G * H, E * H, F' * G).

  Definition te_sub (P Q : te_ext) : te_ext := te_add P (te_neg Q).
  Definition te_msub (P : te_ext) (Q : te_aff) : te_ext := te_madd P (te_aff_neg Q).
  Definition te_aff_add_aff (A B : te_aff) : te_ext := te_madd (te_of_affine A) B.
  Definition te_aff_sub_aff (A B : te_aff) : te_ext := te_msub (te_of_affine A) B.

  (* PartialEq for Projective *)
  Definition te_eqb (P Q : te_ext) : bool :=
    let '(x1, y1, t1, z1) := P in
    let '(x2, y2, t2, z2) := Q in
    if te_is_zero P then te_is_zero Q
    else if te_is_zero Q then false
    else (x1 * z2 == x2 * z1) && (y1 * z2 == y2 * z1).

  Definition te_sum (l : list te_aff) : te_ext := fold_left te_madd l te_zero.

  (* CurveGroup::normalize_batch (batch inversion of the Z's, zeros skipped) *)
  Definition te_normalize_batch (v : list te_ext) : list te_aff :=
    let z_s := batch_inversion F (map (fun g : te_ext => snd g) v) in
    map (fun gz : te_ext * T =>
           let '(g, z) := gz in
           let '(gx, gy, _, _) := g in
           if te_is_zero g then te_aff_zero else (gx * z, gy * z))
        (combine v z_s).

  (* ---------------- specification: the Edwards addition law ---------------- *)
  Definition aff_add_te (A B : te_aff) : te_aff :=
    let '(x1, y1) := A in
    let '(x2, y2) := B in
    let k := d * (x1 * x2 * (y1 * y2)) in
    (fdiv F (x1 * y2 + y1 * x2) (1 + k), fdiv F (y1 * y2 - a * (x1 * x2)) (1 - k)).
  Definition aff_neg_te (A : te_aff) : te_aff := let '(x, y) := A in (- x, y).
End TE.
