From V Require Import Base.Field C03.SWModel C03.TEModel C03.SWProofs.
Require Import Coq.setoid_ring.Field Coq.setoid_ring.Ring Bool.

Section TEProofs.
  Context {T : Type} (F : Fops T) (a d : T).
  Hypothesis Fth : field_theory (f0 F) (f1 F) (fadd F) (fmul F) (fsub F) (fneg F) (fdiv F) (finv F) eq.
  Hypothesis feqb_spec : forall x y, feqb F x y = true <-> x = y.
  Hypothesis two_nz : fadd F (f1 F) (f1 F) <> f0 F.
  Add Field Kf : Fth.

  Local Notation "0" := (f0 F).
  Local Notation "1" := (f1 F).
  Local Infix "+" := (fadd F).
  Local Infix "-" := (fsub F).
  Local Infix "*" := (fmul F).
  Local Infix "/" := (fdiv F).
  Local Infix "==" := (feqb F) (at level 70).
  Local Notation "- x" := (fneg F x).

  Let eqb_false := SWProofs.eqb_false F feqb_spec.
  Let eqb_refl := SWProofs.eqb_refl F feqb_spec.
  Let mul_eq0 := SWProofs.mul_eq0 F Fth feqb_spec.
  Let mul_nz := SWProofs.mul_nz F Fth feqb_spec.
  Let sub_nz := SWProofs.sub_nz F Fth.
  Let one_nz := SWProofs.one_nz F Fth.
  Let dbl_nz := SWProofs.dbl_nz F Fth feqb_spec two_nz.
  Let div1_eq := SWProofs.div1_eq F Fth.

  Ltac nz := repeat split;
    repeat first [ assumption | exact one_nz | exact two_nz | apply mul_nz | apply dbl_nz | apply sub_nz ].

  Lemma div_eq_cross : forall p q r s, q <> 0 -> s <> 0 -> p * s = r * q -> p / q = r / s.
  Proof.
    intros p q r s Hq Hs E. transitivity ((p * s) / (q * s)); [field; nz|]. rewrite E. field. nz.
  Qed.

  (* a representative is valid when Z <> 0 and T Z = X Y *)
  Definition te_valid (P : te_ext (T:=T)) : Prop := let '(x, y, t, z) := P in z <> 0 /\ t * z = x * y.
  Definition te_aff_on (A : te_aff (T:=T)) : Prop :=
    let '(x, y) := A in a * (x * x) + y * y = 1 + d * (x * x * (y * y)).
  (* the two denominators of the Edwards law *)
  Definition te_dens_ok (A B : te_aff (T:=T)) : Prop :=
    let '(x1, y1) := A in let '(x2, y2) := B in
    1 + d * (x1 * x2 * (y1 * y2)) <> 0 /\ 1 - d * (x1 * x2 * (y1 * y2)) <> 0.

  Lemma te_is_zero_true : forall x y t z, te_is_zero F (x, y, t, z) = true <-> (x = 0 /\ y = z /\ y <> 0 /\ t = 0).
  Proof.
    intros. unfold te_is_zero. rewrite !andb_true_iff, negb_true_iff, !feqb_spec, eqb_false. tauto.
  Qed.

  Lemma te_to_affine_spec : forall x y t z, z <> 0 -> te_to_affine F (x, y, t, z) = (x / z, y / z).
  Proof.
    intros x y t z Hz. unfold te_to_affine.
    destruct (te_is_zero F (x, y, t, z)) eqn:E0.
    - apply te_is_zero_true in E0. destruct E0 as (Ex & Ey & _ & _). subst x y.
      unfold te_aff_zero. f_equal; field; exact Hz.
    - destruct (z == 1) eqn:E1.
      + apply feqb_spec in E1. subst z. f_equal; field; exact one_nz.
      + f_equal; field; exact Hz.
  Qed.

  Lemma t_of_valid : forall x y t z, z <> 0 -> t * z = x * y -> t = x * y / z.
  Proof. intros x y t z Hz E. symmetry. apply div1_eq; [exact Hz | symmetry; exact E]. Qed.

  Theorem te_add_correct : forall P Q, te_valid P -> te_valid Q ->
    te_dens_ok (te_to_affine F P) (te_to_affine F Q) ->
    te_valid (te_add F a d P Q) /\
    te_to_affine F (te_add F a d P Q) = aff_add_te F a d (te_to_affine F P) (te_to_affine F Q).
  Proof.
    intros [[[x1 y1] t1] z1] [[[x2 y2] t2] z2] [Hz1 Ht1] [Hz2 Ht2] HD.
    rewrite (te_to_affine_spec x1 y1 t1 z1 Hz1), (te_to_affine_spec x2 y2 t2 z2 Hz2) in *.
    cbn [te_dens_ok] in HD. destruct HD as [HD1 HD2].
    apply t_of_valid in Ht1; [|exact Hz1]. apply t_of_valid in Ht2; [|exact Hz2]. subst t1 t2.
    unfold te_add, te_mul_by_a. cbv zeta.
    assert (HG : z1 * z2 + d * (x1 * y1 / z1) * (x2 * y2 / z2) <> 0).
    { replace (z1 * z2 + d * (x1 * y1 / z1) * (x2 * y2 / z2))
        with (z1 * z2 * (1 + d * (x1 / z1 * (x2 / z2) * (y1 / z1 * (y2 / z2))))) by (field; nz). nz. }
    assert (HF : z1 * z2 - d * (x1 * y1 / z1) * (x2 * y2 / z2) <> 0).
    { replace (z1 * z2 - d * (x1 * y1 / z1) * (x2 * y2 / z2))
        with (z1 * z2 * (1 - d * (x1 / z1 * (x2 / z2) * (y1 / z1 * (y2 / z2))))) by (field; nz). nz. }
    split.
    - cbn [te_valid]. split; [nz | ring].
    - rewrite te_to_affine_spec by nz. unfold aff_add_te. f_equal.
      + apply div_eq_cross; [nz | exact HD1 | field; nz].
      + apply div_eq_cross; [nz | exact HD2 | field; nz].
  Qed.

  Theorem te_madd_correct : forall P Q, te_valid P ->
    te_dens_ok (te_to_affine F P) Q ->
    te_valid (te_madd F a d P Q) /\
    te_to_affine F (te_madd F a d P Q) = aff_add_te F a d (te_to_affine F P) Q.
  Proof.
    intros [[[x1 y1] t1] z1] [x2 y2] [Hz1 Ht1] HD.
    rewrite (te_to_affine_spec x1 y1 t1 z1 Hz1) in *.
    cbn [te_dens_ok] in HD. destruct HD as [HD1 HD2].
    apply t_of_valid in Ht1; [|exact Hz1]. subst t1.
    unfold te_madd, te_mul_by_a. cbv zeta.
    assert (HG : z1 + d * (x1 * y1 / z1) * x2 * y2 <> 0).
    { replace (z1 + d * (x1 * y1 / z1) * x2 * y2)
        with (z1 * (1 + d * (x1 / z1 * x2 * (y1 / z1 * y2)))) by (field; nz). nz. }
    assert (HF : z1 - d * (x1 * y1 / z1) * x2 * y2 <> 0).
    { replace (z1 - d * (x1 * y1 / z1) * x2 * y2)
        with (z1 * (1 - d * (x1 / z1 * x2 * (y1 / z1 * y2)))) by (field; nz). nz. }
    split.
    - cbn [te_valid]. split; [nz | ring].
    - rewrite te_to_affine_spec by nz. unfold aff_add_te. f_equal.
      + apply div_eq_cross; [nz | exact HD1 | field; nz].
      + apply div_eq_cross; [nz | exact HD2 | field; nz].
  Qed.

  Lemma sub_eq0 : forall p q, p - q = 0 -> p = q.
  Proof. intros p q E. transitivity ((p - q) + q); [ring | rewrite E; ring]. Qed.

  (* the Edwards law stays on the curve (cofactor certificate computed with sympy.reduced:
     numerator = q1 * h1 + q2 * h2, checked by [field]/[ring]) *)
  Theorem aff_add_te_on : forall A B, te_aff_on A -> te_aff_on B -> te_dens_ok A B ->
    te_aff_on (aff_add_te F a d A B).
  Proof.
    intros [x1 y1] [x2 y2] H1 H2 [HD1 HD2]. cbn [te_aff_on] in *. unfold aff_add_te. cbv zeta.
    apply sub_eq0.
    pose (h1 := (a * (x1 * x1) + y1 * y1) - (1 + d * (x1 * x1 * (y1 * y1)))).
    pose (h2 := (a * (x2 * x2) + y2 * y2) - (1 + d * (x2 * x2 * (y2 * y2)))).
    pose (q1 := (0 + x1*x1*y1*y1*x2*x2*x2*x2*y2*y2*y2*y2*d*d*d + x1*x1*x2*x2*x2*x2*y2*y2*y2*y2*a*d*d - x1*x1*x2*x2*x2*x2*y2*y2*a*a*d - x1*x1*x2*x2*y2*y2*y2*y2*a*d + y1*y1*x2*x2*x2*x2*y2*y2*y2*y2*d*d - y1*y1*x2*x2*x2*x2*y2*y2*a*d - y1*y1*x2*x2*y2*y2*y2*y2*d + (1+1)*x2*x2*x2*x2*y2*y2*y2*y2*a*d - x2*x2*x2*x2*y2*y2*y2*y2*d*d - (1+1)*x2*x2*x2*x2*y2*y2*a*a + x2*x2*x2*x2*a*a - (1+1)*x2*x2*y2*y2*y2*y2*a + (1+1+1+1)*x2*x2*y2*y2*a - (1+1)*x2*x2*y2*y2*d + y2*y2*y2*y2)).
    pose (q2 := (0 + x1*x1*x1*x1*x2*x2*y2*y2*a*a*d + (1+1)*x1*x1*x2*x2*y2*y2*a*a - (1+1)*x1*x1*x2*x2*y2*y2*a*d - x1*x1*x2*x2*a*a - x1*x1*y2*y2*a + y1*y1*y1*y1*x2*x2*y2*y2*d + (1+1)*y1*y1*x2*x2*y2*y2*a - (1+1)*y1*y1*x2*x2*y2*y2*d - y1*y1*x2*x2*a - y1*y1*y2*y2 - (1+1)*x2*x2*y2*y2*a + x2*x2*y2*y2*d + x2*x2*a + y2*y2 + 1)).
    transitivity ((q1 * h1 + q2 * h2) /
                  ((1 + d * (x1 * x2 * (y1 * y2))) * (1 + d * (x1 * x2 * (y1 * y2))) *
                   ((1 - d * (x1 * x2 * (y1 * y2))) * (1 - d * (x1 * x2 * (y1 * y2)))))).
    - unfold q1, q2, h1, h2. field. nz.
    - assert (E1 : h1 = 0) by (unfold h1; rewrite H1; ring).
      assert (E2 : h2 = 0) by (unfold h2; rewrite H2; ring).
      rewrite E1, E2. field. nz.
  Qed.

  Theorem te_double_correct : forall P, te_valid P -> te_aff_on (te_to_affine F P) ->
    te_dens_ok (te_to_affine F P) (te_to_affine F P) ->
    te_valid (te_double F a P) /\
    te_to_affine F (te_double F a P) = aff_add_te F a d (te_to_affine F P) (te_to_affine F P).
  Proof.
    intros [[[X Y] t] Z] [HZ Ht] Hc HD.
    rewrite (te_to_affine_spec X Y t Z HZ) in *.
    remember (X / Z) as x eqn:Ex. remember (Y / Z) as y eqn:Ey.
    assert (HX : X = x * Z) by (subst x; field; exact HZ).
    assert (HY : Y = y * Z) by (subst y; field; exact HZ).
    clear Ex Ey. subst X Y.
    cbn [te_aff_on te_dens_ok] in Hc, HD. destruct HD as [HD1 HD2].
    unfold te_double, te_mul_by_a, sq, dbl. cbv zeta.
    assert (Hk : d * (x * x * (y * y)) = a * (x * x) + y * y - 1) by (rewrite Hc; ring).
    assert (HG : x * Z * (x * Z) * a + y * Z * (y * Z) <> 0).
    { replace (x * Z * (x * Z) * a + y * Z * (y * Z)) with (Z * Z * (1 + d * (x * x * (y * y)))) by (rewrite Hk; ring). nz. }
    assert (HF : x * Z * (x * Z) * a + y * Z * (y * Z) - (Z * Z + Z * Z) <> 0).
    { replace (x * Z * (x * Z) * a + y * Z * (y * Z) - (Z * Z + Z * Z))
        with (- (Z * Z) * (1 - d * (x * x * (y * y)))) by (rewrite Hk; ring).
      apply mul_nz; [|exact HD2]. intro E. apply (mul_nz Z Z HZ HZ). transitivity (- (- (Z * Z))); [ring | rewrite E; ring]. }
    split.
    - cbn [te_valid]. split; [nz | ring].
    - rewrite te_to_affine_spec by nz. unfold aff_add_te. cbv zeta. f_equal.
      + apply div_eq_cross; [nz | exact HD1 |]. rewrite Hk. ring.
      + apply div_eq_cross; [nz | exact HD2 |]. rewrite Hk. ring.
  Qed.

  Theorem te_neg_correct : forall P, te_valid P ->
    te_valid (te_neg F P) /\ te_to_affine F (te_neg F P) = aff_neg_te F (te_to_affine F P).
  Proof.
    intros [[[x y] t] z] [Hz Ht]. unfold te_neg. split.
    - cbn [te_valid]. split; [exact Hz|]. transitivity (- (t * z)); [ring | rewrite Ht; ring].
    - rewrite !te_to_affine_spec by exact Hz. cbn [aff_neg_te]. f_equal. field. exact Hz.
  Qed.

  Theorem te_is_zero_spec : forall P, te_valid P ->
    (te_is_zero F P = true <-> te_to_affine F P = te_aff_zero F).
  Proof.
    intros [[[x y] t] z] [Hz Ht]. rewrite te_is_zero_true, te_to_affine_spec by exact Hz.
    unfold te_aff_zero. split.
    - intros (Ex & Ey & _ & _). subst x y. f_equal; field; exact Hz.
    - intro E. injection E as E1 E2. apply (div1_eq x z 0 Hz) in E1. apply (div1_eq y z 1 Hz) in E2.
      assert (Ex : x = 0) by (rewrite E1; ring). assert (Ey : y = z) by (rewrite E2; ring).
      clear E1 E2. subst x y. repeat split; try exact Hz.
      destruct (mul_eq0 t z) as [E|E]; [rewrite Ht; ring | exact E | contradiction].
  Qed.

  Theorem te_eqb_spec : forall P Q, te_valid P -> te_valid Q ->
    (te_eqb F P Q = true <-> te_to_affine F P = te_to_affine F Q).
  Proof.
    intros P Q HP HQ. pose proof (te_is_zero_spec P HP) as ZP. pose proof (te_is_zero_spec Q HQ) as ZQ.
    destruct P as [[[x1 y1] t1] z1], Q as [[[x2 y2] t2] z2]. destruct HP as [Hz1 _], HQ as [Hz2 _].
    unfold te_eqb.
    destruct (te_is_zero F (x1, y1, t1, z1)) eqn:E1.
    { rewrite ZQ. destruct ZP as [ZP _]. rewrite (ZP eq_refl). split; congruence. }
    destruct (te_is_zero F (x2, y2, t2, z2)) eqn:E2.
    { destruct ZQ as [ZQ _]. rewrite (ZQ eq_refl). split; [discriminate|]. intro E. apply ZP in E. discriminate. }
    rewrite !te_to_affine_spec by assumption. rewrite andb_true_iff, !feqb_spec. split.
    - intros [Ea Eb]. f_equal; (apply div_eq_cross; [assumption | assumption | assumption]).
    - intro E. injection E as Ea Eb. split.
      + apply (div1_eq x1 z1 (x2 / z2) Hz1) in Ea. rewrite Ea. field. exact Hz2.
      + apply (div1_eq y1 z1 (y2 / z2) Hz1) in Eb. rewrite Eb. field. exact Hz2.
  Qed.

  Theorem te_roundtrip_affine : forall A, te_valid (te_of_affine F A) /\ te_to_affine F (te_of_affine F A) = A.
  Proof.
    intros [x y]. unfold te_of_affine. split.
    - cbn [te_valid]. split; [exact one_nz | ring].
    - rewrite te_to_affine_spec by exact one_nz. f_equal; field; exact one_nz.
  Qed.

  Theorem te_aff_on_curve_spec : forall A, te_aff_on_curve F a d A = true <-> te_aff_on A.
  Proof.
    intros [x y]. unfold te_aff_on_curve, te_aff_on, te_mul_by_a, sq. cbv zeta. rewrite feqb_spec.
    split; intro E.
    - transitivity (y * y + x * x * a); [ring | exact E].
    - transitivity (a * (x * x) + y * y); [ring | exact E].
  Qed.

  Theorem te_normalize_batch_spec : forall v,
    Forall (fun P : te_ext (T:=T) => snd P <> 0) v ->
    te_normalize_batch F v = map (te_to_affine F) v.
  Proof.
    intros v Hv. unfold te_normalize_batch.
    rewrite (batch_inversion_spec F Fth feqb_spec), map_map, map_combine_map.
    apply map_ext_in. intros [[[x y] t] z] Hin. cbn [snd].
    rewrite Forall_forall in Hv. specialize (Hv _ Hin). cbn [snd] in Hv.
    unfold te_to_affine, inv0c.
    destruct (te_is_zero F (x, y, t, z)); [reflexivity|].
    destruct (z == 0) eqn:Ez; [apply feqb_spec in Ez; contradiction|].
    destruct (z == 1) eqn:E1.
    - apply feqb_spec in E1. subst z. f_equal; field; exact one_nz.
    - f_equal; field; exact Hv.
  Qed.
End TEProofs.
