(* C04 model: ec/src/scalar_mul/mod.rs  BatchMulPreprocessing::{new,
   with_num_scalars_and_scalar_size, compute_window_size, windowed_mul, batch_mul} and
   ScalarMul::batch_mul.  No proofs in this file. *)
From V Require Import Base.Word C15.BigIntModel C04.GroupOps.

(* ark_std::log2 = ceil(log2 x), 0 for x = 0 *)
Definition ark_log2 (x : Z) : Z := if x <=? 0 then 0 else Z.log2_up x.
(* ln_without_floats(a) = log2(a) * 69 / 100 *)
Definition ln_without_floats (a : Z) : Z := ark_log2 a * 69 / 100.
Definition compute_window_size (num_scalars : Z) : Z :=
  if num_scalars <? 32 then 3 else ln_without_floats num_scalars.

(* usize::div_ceil *)
Definition div_ceil (a b : Z) : Z := (a + b - 1) / b.

Section FixedBase.
  Context {R B : Type} (Ops : Gops R B).

  Record fb_table := mkFb { fb_window : Z; fb_max_scalar_size : Z; fb_rows : list (list B) }.

  (* g_outers: push g_outer, then `window` doublings *)
  Fixpoint fb_outers (outerc : nat) (window : nat) (g : R) : list R :=
    match outerc with
    | O => []
    | S n => g :: fb_outers n window (Nat.iter window (gdbl Ops) g)
    end.

  (* one row: in_window entries, the first cur_in_window are 0, g, 2g, ... (g_inner += &g_outer),
     the rest stay zero *)
  Fixpoint fb_row_aux (cur : nat) (g_inner g_outer : R) : list R :=
    match cur with
    | O => []
    | S n => g_inner :: fb_row_aux n (gadd Ops g_inner g_outer) g_outer
    end.
  Definition fb_row (in_window cur : nat) (g_outer : R) : list R :=
    let filled := fb_row_aux (Nat.min cur in_window) (gzero Ops) g_outer in
    filled ++ repeat (gzero Ops) (in_window - length filled).

  Fixpoint fb_rows_build (in_window last_in_window : nat) (outers : list R) : list (list R) :=
    match outers with
    | [] => []
    | [g] => [fb_row in_window last_in_window g]
    | g :: t => fb_row in_window in_window g :: fb_rows_build in_window last_in_window t
    end.

  (* with_num_scalars_and_scalar_size; max_scalar_size = 0 underflows `outerc - 1` (panic in an
     overflow-checked build) *)
  Definition fb_new (base : R) (num_scalars max_scalar_size : Z) : outcome fb_table :=
    let window := compute_window_size num_scalars in
    let in_window := 2 ^ window in
    let outerc := div_ceil max_scalar_size window in
    if outerc <=? 0 then Panic
    else
      let last_in_window := 2 ^ (max_scalar_size - (outerc - 1) * window) in
      let outers := fb_outers (Z.to_nat outerc) (Z.to_nat window) base in
      let rows := fb_rows_build (Z.to_nat in_window) (Z.to_nat last_in_window) outers in
      Ok (mkFb window max_scalar_size (map (gnorm Ops) rows)).

  (* inner |= 1 << i  for the window bits that lie below MODULUS_BIT_SIZE and are set *)
  Fixpoint fb_inner (bits : list Z) (modbits : Z) (pos : Z) (cnt : nat) (i : Z) : Z :=
    match cnt with
    | O => 0
    | S n =>
        (if (pos <? modbits) && negb (nth (Z.to_nat pos) bits 0 =? 0) then 2 ^ i else 0)
        + fb_inner bits modbits (pos + 1) n (i + 1)
    end.

  Fixpoint fb_windowed_loop (rows : list (list B)) (bits : list Z) (modbits window : Z)
           (outer : Z) (res : R) : option R :=
    match rows with
    | [] => Some res
    | row :: t =>
        let inner := fb_inner bits modbits (outer * window) (Z.to_nat window) 0 in
        match nth_error row (Z.to_nat inner) with
        | None => None
        | Some e => fb_windowed_loop t bits modbits window (outer + 1) (gaddb Ops res e)
        end
    end.

  (* windowed_mul; `limbs` = scalar.into_bigint(); the loop runs over outerc rows (the table has
     exactly outerc rows) *)
  Definition fb_windowed_mul (t : fb_table) (modbits : Z) (limbs : list Z) : outcome R :=
    let outerc := div_ceil (fb_max_scalar_size t) (fb_window t) in
    match fb_rows t with
    | (e0 :: _) :: _ =>
        match fb_windowed_loop (firstn (Z.to_nat outerc) (fb_rows t)) (to_bits_le limbs) modbits
                               (fb_window t) 0 (gofb Ops e0) with
        | Some r => Ok r
        | None => Panic
        end
    | _ => Panic                          (* self.table[0][0] out of bounds *)
    end.

  Fixpoint all_ok {A : Type} (l : list (outcome A)) : option (list A) :=
    match l with
    | [] => Some []
    | Ok a :: t => match all_ok t with Some r => Some (a :: r) | None => None end
    | _ :: _ => None
    end.

  Definition fb_batch_mul (t : fb_table) (modbits : Z) (scalars : list (list Z)) : outcome (list B) :=
    match all_ok (map (fb_windowed_mul t modbits) scalars) with
    | Some rs => Ok (gnorm Ops rs)
    | None => Panic
    end.

  (* ScalarMul::batch_mul(self, v): table = new(self, v.len()) with scalar_size = MODULUS_BIT_SIZE *)
  Definition batch_mul (base : R) (modbits : Z) (scalars : list (list Z)) : outcome (list B) :=
    match fb_new base (Z.of_nat (length scalars)) modbits with
    | Ok t => fb_batch_mul t modbits scalars
    | _ => Panic
    end.
End FixedBase.
