(* C04 proofs: BatchMulPreprocessing -- the table of multiples (shorter last window) and
   windowed_mul = k . B for every table sizing. *)
From V Require Import Base.Word C15.BigIntModel C15.BitsProofs
  C04.GroupOps C04.GroupTheory C04.ScalarMul C04.ScalarMulProofs C04.FixedBase.

Lemma p2pos e : 0 <= e -> 0 < 2 ^ e.
Proof. intros. apply Z.pow_pos_nonneg; lia. Qed.

Lemma compute_window_size_ge3 n : 3 <= compute_window_size n.
Proof.
  unfold compute_window_size. destruct (Z.ltb_spec n 32) as [H|H]; [lia|].
  unfold ln_without_floats, ark_log2. destruct (Z.leb_spec n 0); [lia|].
  pose proof (Z.log2_up_le_mono 32 n H) as Hm. change (Z.log2_up 32) with 5 in Hm.
  apply Z.div_le_lower_bound; lia.
Qed.

Lemma div_ceil_spec a b : 0 < b -> 0 < a -> 0 < div_ceil a b /\ (div_ceil a b - 1) * b < a <= div_ceil a b * b.
Proof.
  intros Hb Ha. unfold div_ceil.
  pose proof (Z.div_mod (a + b - 1) b ltac:(lia)). pose proof (Z.mod_pos_bound (a + b - 1) b Hb).
  assert (0 < (a + b - 1) / b) by (apply Z.div_str_pos; lia). nia.
Qed.

(* the window digit: bits pos .. pos+cnt-1 of k, weighted from 2^i *)
Lemma fb_inner_spec limbs modbits : wf limbs -> 0 <= modbits <= 64 * Z.of_nat (length limbs) ->
  val limbs < 2 ^ modbits ->
  forall cnt pos i, 0 <= pos -> 0 <= i ->
  fb_inner (to_bits_le limbs) modbits pos cnt i = 2 ^ i * ((val limbs / 2 ^ pos) mod 2 ^ Z.of_nat cnt).
Proof.
  intros Hw Hm Hk. destruct (to_bits_le_spec limbs Hw) as (Hl & _ & _ & Hn).
  pose proof (val_bound limbs Hw) as [Hk0 _].
  induction cnt as [|cnt IH]; intros pos i Hp Hi; cbn [fb_inner].
  - change (2 ^ Z.of_nat 0) with 1. rewrite Z.mod_1_r. lia.
  - rewrite IH by lia.
    assert (Hbit : (if (pos <? modbits) && negb (nth (Z.to_nat pos) (to_bits_le limbs) 0 =? 0) then 2 ^ i else 0)
                   = 2 ^ i * ((val limbs / 2 ^ pos) mod 2)).
    { rewrite <- Z.testbit_spec' by lia. destruct (Z.ltb_spec pos modbits) as [Hlt|Hge]; cbn [andb].
      - rewrite Hn by lia. rewrite Z2Nat.id by lia. destruct (Z.testbit (val limbs) pos); cbn [Z.b2z Z.eqb negb]; ring.
      - destruct (Z.eq_dec (val limbs) 0) as [Hz|Hnz].
        + rewrite Hz, Z.bits_0. cbn [Z.b2z]. ring.
        + rewrite Z.bits_above_log2; [cbn [Z.b2z]; ring|lia|].
          assert (Z.log2 (val limbs) < modbits) by (apply Z.log2_lt_pow2; lia). lia. }
    rewrite Hbit. rewrite Nat2Z.inj_succ, Z.pow_succ_r by lia.
    pose proof (p2pos (Z.of_nat cnt) ltac:(lia)). pose proof (p2pos pos Hp). pose proof (p2pos i Hi).
    rewrite (Z.rem_mul_r (val limbs / 2 ^ pos) 2 (2 ^ Z.of_nat cnt)) by lia.
    rewrite Z.div_div by lia.
    replace (2 ^ pos * 2) with (2 ^ (pos + 1)) by (rewrite Z.pow_add_r by lia; reflexivity).
    rewrite (Z.pow_add_r 2 i 1) by lia. change (2 ^ 1) with 2. ring.
Qed.

Section Proofs.
  Context {A : Type} (aadd : A -> A -> A) (aneg : A -> A) (azero : A).
  Hypothesis affine_law_is_group : abelian_group aadd aneg azero.
  Context {R B : Type} (Ops : Gops R B) (phi : R -> A) (phib : B -> A).
  Hypothesis ops_realise : realises aadd aneg azero Ops phi phib.
  Local Notation smul := (smul aadd aneg azero).
  Let G := affine_law_is_group.

  Lemma iter_dbl X : forall n g c, phi g = smul c X -> phi (Nat.iter n (gdbl Ops) g) = smul (2 ^ Z.of_nat n * c) X.
  Proof.
    induction n as [|n IH]; intros g c Hg.
    - change (Nat.iter 0 (gdbl Ops) g) with g. rewrite Hg. f_equal. change (2 ^ Z.of_nat 0) with 1. lia.
    - change (Nat.iter (S n) (gdbl Ops) g) with (gdbl Ops (Nat.iter n (gdbl Ops) g)). rewrite (r_dbl _ _ _ _ _ _ ops_realise), (IH g c Hg), (smul_double _ _ _ G).
      f_equal. rewrite Nat2Z.inj_succ, Z.pow_succ_r by lia. ring.
  Qed.

  (* g_outers[o] = 2^(window o) . base *)
  Lemma fb_outers_spec X (W : nat) : forall outerc g c, phi g = smul c X ->
    length (fb_outers Ops outerc W g) = outerc /\
    forall o go, nth_error (fb_outers Ops outerc W g) o = Some go ->
      phi go = smul (2 ^ (Z.of_nat W * Z.of_nat o) * c) X.
  Proof.
    induction outerc as [|n IH]; intros g c Hg; cbn [fb_outers].
    - split; [reflexivity|]. intros [|o] go H; discriminate.
    - destruct (IH _ _ (iter_dbl X W g c Hg)) as [Hl Hi]. split; [cbn [length]; rewrite Hl; reflexivity|].
      intros [|o] go H; cbn [nth_error] in H.
      + injection H as <-. rewrite Hg. f_equal. rewrite Z.mul_0_r. change (2 ^ 0) with 1. lia.
      + rewrite (Hi o go H). f_equal. rewrite Nat2Z.inj_succ.
        replace (Z.of_nat W * Z.succ (Z.of_nat o)) with (Z.of_nat W * Z.of_nat o + Z.of_nat W) by lia.
        rewrite Z.pow_add_r by lia. ring.
  Qed.

  Lemma fb_row_aux_spec X c g_outer : phi g_outer = smul c X ->
    forall cur g_inner i0, phi g_inner = smul (i0 * c) X ->
    length (fb_row_aux Ops cur g_inner g_outer) = cur /\
    forall i e, nth_error (fb_row_aux Ops cur g_inner g_outer) i = Some e ->
      phi e = smul ((i0 + Z.of_nat i) * c) X.
  Proof.
    intros Hg. induction cur as [|n IH]; intros g_inner i0 Hi; cbn [fb_row_aux].
    - split; [reflexivity|]. intros [|i] e H; discriminate.
    - assert (Hn : phi (gadd Ops g_inner g_outer) = smul ((i0 + 1) * c) X).
      { rewrite (r_add _ _ _ _ _ _ ops_realise), Hi, Hg, <- (smul_add _ _ _ G). f_equal. ring. }
      destruct (IH _ _ Hn) as [Hl Hnth]. split; [cbn [length]; rewrite Hl; reflexivity|].
      intros [|i] e H; cbn [nth_error] in H.
      + injection H as <-. rewrite Hi. f_equal. lia.
      + rewrite (Hnth i e H). f_equal. lia.
  Qed.

  (* a row: in_window entries, entry i = i . g_outer for i < cur *)
  Lemma fb_row_spec X c g_outer inw cur : phi g_outer = smul c X -> (cur <= inw)%nat ->
    length (fb_row Ops inw cur g_outer) = inw /\
    forall i, (i < cur)%nat -> exists e, nth_error (fb_row Ops inw cur g_outer) i = Some e /\
                                          phi e = smul (Z.of_nat i * c) X.
  Proof.
    intros Hg Hle. unfold fb_row. rewrite Nat.min_l by exact Hle.
    destruct (fb_row_aux_spec X c g_outer Hg cur (gzero Ops) 0) as [Hl Hnth].
    { rewrite (r_zero _ _ _ _ _ _ ops_realise). reflexivity. }
    split.
    - rewrite app_length, repeat_length, Hl. lia.
    - intros i Hi. destruct (nth_error (fb_row_aux Ops cur (gzero Ops) g_outer) i) as [e|] eqn:He.
      + exists e. split; [rewrite nth_error_app1 by lia; exact He|]. rewrite (Hnth i e He). f_equal.
      + apply nth_error_None in He. lia.
  Qed.

  Lemma fb_rows_build_spec inw last : forall outers,
    length (fb_rows_build Ops inw last outers) = length outers /\
    forall o row, nth_error (fb_rows_build Ops inw last outers) o = Some row ->
      exists g, nth_error outers o = Some g /\
                row = fb_row Ops inw (if Nat.eqb (S o) (length outers) then last else inw) g.
  Proof.
    induction outers as [|g t IH].
    - split; [reflexivity|]. intros [|o] row H; discriminate.
    - destruct t as [|g' t'].
      + split; [reflexivity|]. intros [|o] row H; cbn in H; [|destruct o; discriminate].
        injection H as <-. exists g. split; reflexivity.
      + destruct IH as [Hl Hi]. change (fb_rows_build Ops inw last (g :: g' :: t'))
          with (fb_row Ops inw inw g :: fb_rows_build Ops inw last (g' :: t')).
        split; [cbn [length] in *; rewrite Hl; reflexivity|].
        intros [|o] row H; cbn [nth_error] in H.
        * injection H as <-. exists g. split; reflexivity.
        * destruct (Hi o row H) as (g0 & Hg0 & Hrow). exists g0. split; [exact Hg0|].
          rewrite Hrow. reflexivity.
  Qed.

  (* what a correct table is: `rows` rows; entry i of row o is (i 2^(w o)) . X for every i below the
     number of entries the construction fills (2^w, or 2^(mss - (rows-1) w) in the last row) *)
  Definition fb_cur (w mss : Z) (rows : nat) (o : nat) : Z :=
    if Nat.eqb (S o) rows then 2 ^ (mss - (Z.of_nat rows - 1) * w) else 2 ^ w.
  Definition fb_rows_ok (X : A) (w mss : Z) (rows : list (list B)) : Prop :=
    forall o row, nth_error rows o = Some row ->
      forall i, 0 <= i < fb_cur w mss (length rows) o ->
        exists e, nth_error row (Z.to_nat i) = Some e /\ phib e = smul (i * 2 ^ (w * Z.of_nat o)) X.
  Definition fb_table_ok (X : A) (ns mss : Z) (t : @fb_table B) : Prop :=
    fb_window t = compute_window_size ns /\ fb_max_scalar_size t = mss /\
    Z.of_nat (length (fb_rows t)) = div_ceil mss (fb_window t) /\
    fb_rows_ok X (fb_window t) mss (fb_rows t).

  Lemma nth_error_map' {X Y : Type} (f : X -> Y) l n : nth_error (map f l) n = option_map f (nth_error l n).
  Proof. revert n; induction l as [|x l IH]; intros [|n]; cbn; auto. Qed.

  (* with_num_scalars_and_scalar_size builds a correct table for every sizing *)
  Theorem fixed_base_table_spec base ns mss : 1 <= mss ->
    exists t, fb_new Ops base ns mss = Ok t /\ fb_table_ok (phi base) ns mss t.
  Proof.
    intros Hmss. unfold fb_new.
    pose proof (compute_window_size_ge3 ns) as Hw. set (w := compute_window_size ns) in *.
    destruct (div_ceil_spec mss w ltac:(lia) ltac:(lia)) as (Hoc & Hlo & Hhi).
    set (outerc := div_ceil mss w) in *.
    destruct (Z.leb_spec outerc 0) as [Hbad|_]; [lia|].
    eexists. split; [reflexivity|]. unfold fb_table_ok. cbn [fb_window fb_max_scalar_size fb_rows].
    destruct (fb_outers_spec (phi base) (Z.to_nat w) (Z.to_nat outerc) base 1) as [Hol Hoi].
    { rewrite (smul_1 _ _ _ G). reflexivity. }
    set (outers := fb_outers Ops (Z.to_nat outerc) (Z.to_nat w) base) in *.
    set (inw := Z.to_nat (2 ^ w)). set (last := Z.to_nat (2 ^ (mss - (outerc - 1) * w))).
    destruct (fb_rows_build_spec inw last outers) as [Hrl Hri].
    split; [reflexivity|]. split; [reflexivity|]. split; [rewrite map_length, Hrl, Hol; lia|].
    intros o row' Hrow' i Hi. rewrite map_length, Hrl, Hol in Hi.
    rewrite nth_error_map' in Hrow'.
    destruct (nth_error (fb_rows_build Ops inw last outers) o) as [row|] eqn:Hrow; [|discriminate].
    injection Hrow' as <-. destruct (Hri o row Hrow) as (g & Hg & ->). rewrite Hol in *.
    pose proof (Hoi o g Hg) as Hphig. rewrite Z.mul_1_r, Z2Nat.id in Hphig by lia.
    assert (Hlast_le : (last <= inw)%nat).
    { unfold last, inw. apply Z2Nat.inj_le; try (apply Z.lt_le_incl, p2pos; lia).
      apply Z.pow_le_mono_r; lia. }
    set (cur := if Nat.eqb (S o) (Z.to_nat outerc) then last else inw) in *.
    assert (Hcur : (cur <= inw)%nat) by (unfold cur; destruct (Nat.eqb _ _); lia).
    destruct (fb_row_spec (phi base) _ g inw cur Hphig Hcur) as [Hlen Hent].
    assert (Hicur : (Z.to_nat i < cur)%nat).
    { unfold fb_cur in Hi. unfold cur. destruct (Nat.eqb (S o) (Z.to_nat outerc)).
      - unfold last. rewrite Z2Nat.id in Hi by lia. apply Z2Nat.inj_lt; lia.
      - unfold inw. apply Z2Nat.inj_lt; lia. }
    destruct (Hent _ Hicur) as (e & He & Hphie).
    pose proof (r_norm _ _ _ _ _ _ ops_realise (fb_row Ops inw cur g)) as Hnorm.
    assert (Hn2 : nth_error (map phib (gnorm Ops (fb_row Ops inw cur g))) (Z.to_nat i) = Some (phi e)).
    { rewrite Hnorm, nth_error_map', He. reflexivity. }
    rewrite nth_error_map' in Hn2.
    destruct (nth_error (gnorm Ops (fb_row Ops inw cur g)) (Z.to_nat i)) as [e'|]; [|discriminate].
    exists e'. split; [reflexivity|]. cbn in Hn2. injection Hn2 as ->. rewrite Hphie.
    f_equal. rewrite Z2Nat.id by lia. reflexivity.
  Qed.
  Lemma fb_loop_spec X w mss limbs modbits nrows :
    1 <= w -> wf limbs -> 0 <= modbits <= 64 * Z.of_nat (length limbs) -> val limbs < 2 ^ modbits ->
    val limbs < 2 ^ mss -> (Z.of_nat nrows - 1) * w < mss ->
    forall rows o0 res, (o0 + length rows = nrows)%nat ->
    (forall j row, nth_error rows j = Some row -> forall i, 0 <= i < fb_cur w mss nrows (o0 + j) ->
       exists e, nth_error row (Z.to_nat i) = Some e /\ phib e = smul (i * 2 ^ (w * Z.of_nat (o0 + j))) X) ->
    phi res = smul (val limbs mod 2 ^ (w * Z.of_nat o0)) X ->
    exists res', fb_windowed_loop Ops rows (to_bits_le limbs) modbits w (Z.of_nat o0) res = Some res' /\
                 phi res' = smul (val limbs mod 2 ^ (w * Z.of_nat nrows)) X.
  Proof.
    intros Hw Hwf Hm Hkm Hk Hlast. pose proof (val_bound limbs Hwf) as [Hk0 _].
    induction rows as [|row rows IH]; intros o0 res Hlen Hrows Hres.
    - cbn [length] in Hlen. replace nrows with o0 by lia. exists res. split; [reflexivity|exact Hres].
    - cbn [length] in Hlen. cbn [fb_windowed_loop].
      rewrite (fb_inner_spec limbs modbits Hwf Hm Hkm) by lia.
      rewrite Z2Nat.id by lia. change (2 ^ 0) with 1. rewrite Z.mul_1_l.
      replace (Z.of_nat o0 * w) with (w * Z.of_nat o0) by lia.
      set (sh := w * Z.of_nat o0). assert (Hsh : 0 <= sh) by (unfold sh; lia).
      set (inner := (val limbs / 2 ^ sh) mod 2 ^ w).
      pose proof (p2pos sh Hsh) as Hpsh. pose proof (p2pos w ltac:(lia)) as Hpw.
      assert (Hin : 0 <= inner < fb_cur w mss nrows (o0 + 0)).
      { pose proof (Z.mod_pos_bound (val limbs / 2 ^ sh) (2 ^ w) Hpw) as Hb. fold inner in Hb.
        split; [lia|]. unfold fb_cur. rewrite Nat.add_0_r.
        destruct (Nat.eqb_spec (S o0) nrows) as [He|Hne]; [|lia].
        assert (Hq : 0 <= val limbs / 2 ^ sh) by (apply Z.div_pos; lia).
        apply Z.le_lt_trans with (val limbs / 2 ^ sh); [apply Z.mod_le; lia|].
        replace (Z.of_nat nrows - 1) with (Z.of_nat o0) by lia.
        replace (Z.of_nat o0 * w) with sh by (unfold sh; lia).
        apply Z.div_lt_upper_bound; [lia|]. rewrite <- Z.pow_add_r by (unfold sh in *; lia).
        replace (sh + (mss - sh)) with mss by lia. exact Hk. }
      destruct (Hrows 0%nat row eq_refl inner Hin) as (e & He & Hphie). rewrite He.
      rewrite Nat.add_0_r in Hphie. fold sh in Hphie.
      replace (Z.of_nat o0 + 1) with (Z.of_nat (S o0)) by lia.
      apply IH; [lia| |].
      + intros j row' Hj i Hi. replace (S o0 + j)%nat with (o0 + S j)%nat in * by lia.
        apply (Hrows (S j) row' Hj i Hi).
      + rewrite (r_addb _ _ _ _ _ _ ops_realise), Hres, Hphie, <- (smul_add _ _ _ G). f_equal.
        fold sh. rewrite Nat2Z.inj_succ. replace (w * Z.succ (Z.of_nat o0)) with (sh + w) by (unfold sh; lia).
        rewrite Z.pow_add_r by lia. rewrite (Z.rem_mul_r (val limbs) (2 ^ sh) (2 ^ w)) by lia.
        fold inner. ring.
  Qed.

  (* windowed_mul on a correct table = k . B, for every k below 2^max_scalar_size *)
  Theorem windowed_mul_spec X ns mss t modbits limbs : fb_table_ok X ns mss t -> 1 <= mss ->
    wf limbs -> 0 <= modbits <= 64 * Z.of_nat (length limbs) -> val limbs < 2 ^ modbits -> val limbs < 2 ^ mss ->
    exists res, fb_windowed_mul Ops t modbits limbs = Ok res /\ phi res = smul (val limbs) X.
  Proof.
    intros (Hw & Hmss & Hlen & Hok) H1 Hwf Hm Hkm Hk.
    pose proof (compute_window_size_ge3 ns) as Hw3. rewrite <- Hw in Hw3.
    destruct (div_ceil_spec mss (fb_window t) ltac:(lia) ltac:(lia)) as (Hoc & Hlo & Hhi).
    rewrite <- Hlen in *. pose proof (val_bound limbs Hwf) as [Hk0 _].
    unfold fb_windowed_mul. rewrite Hmss, <- Hlen, Nat2Z.id, firstn_all.
    destruct (fb_rows t) as [|row0 rows] eqn:Hrows; [cbn [length] in Hoc; lia|].
    assert (Hc0 : 0 <= 0 < fb_cur (fb_window t) mss (length (row0 :: rows)) 0).
    { unfold fb_cur. destruct (Nat.eqb _ _); split; try lia; apply p2pos; lia. }
    destruct (Hok 0%nat row0 eq_refl 0 Hc0) as (e0 & He0 & Hphi0).
    destruct row0 as [|e0' row0']; [discriminate|]. cbn in He0. injection He0 as ->.
    destruct (fb_loop_spec X (fb_window t) mss limbs modbits (length ((e0 :: row0') :: rows)) ltac:(lia) Hwf Hm Hkm Hk
                Hlo ((e0 :: row0') :: rows) 0%nat (gofb Ops e0)) as (res & Hres & Hphi).
    - reflexivity.
    - intros j row Hj i Hi. exact (Hok j row Hj i Hi).
    - rewrite (r_ofb _ _ _ _ _ _ ops_realise), Hphi0. f_equal. rewrite Z.mul_0_r. change (2 ^ 0) with 1.
      rewrite Z.mod_1_r. lia.
    - change (Z.of_nat 0) with 0 in Hres. rewrite Hres. exists res. split; [reflexivity|].
      rewrite Hphi. f_equal. apply Z.mod_small. split; [lia|].
      apply Z.lt_le_trans with (2 ^ mss); [exact Hk|]. apply Z.pow_le_mono_r; lia.
  Qed.

  (* fixed_base_spec: for every table sizing (num_scalars, max_scalar_size >= 1) and every scalar
     k < 2^max_scalar_size (k a canonical field element: k < 2^MODULUS_BIT_SIZE <= 2^(64 N)),
     windowed_mul on the freshly built table returns k . B *)
  Theorem fixed_base_spec base ns mss modbits limbs : 1 <= mss ->
    wf limbs -> 0 <= modbits <= 64 * Z.of_nat (length limbs) -> val limbs < 2 ^ modbits -> val limbs < 2 ^ mss ->
    exists t res, fb_new Ops base ns mss = Ok t /\ fb_windowed_mul Ops t modbits limbs = Ok res /\
                  phi res = smul (val limbs) (phi base).
  Proof.
    intros H1 Hwf Hm Hkm Hk. destruct (fixed_base_table_spec base ns mss H1) as (t & Ht & Hok).
    destruct (windowed_mul_spec (phi base) ns mss t modbits limbs Hok H1 Hwf Hm Hkm Hk) as (res & Hr & Hp).
    exists t, res. auto.
  Qed.

  (* batch_mul: every output is the corresponding multiple *)
  Theorem fixed_base_batch_spec X ns mss t modbits scalars : fb_table_ok X ns mss t -> 1 <= mss ->
    Forall (fun limbs => wf limbs /\ 0 <= modbits <= 64 * Z.of_nat (length limbs) /\
                         val limbs < 2 ^ modbits /\ val limbs < 2 ^ mss) scalars ->
    exists out, fb_batch_mul Ops t modbits scalars = Ok out /\
                map phib out = map (fun limbs => smul (val limbs) X) scalars.
  Proof.
    intros Hok H1 Hs. unfold fb_batch_mul.
    assert (Hall : exists rs, all_ok (map (fb_windowed_mul Ops t modbits) scalars) = Some rs /\
                              map phi rs = map (fun limbs => smul (val limbs) X) scalars).
    { induction Hs as [|l ls (Hwf & Hm & Hkm & Hk) Hls IH].
      - exists []. split; reflexivity.
      - destruct IH as (rs & Hrs & Hmap).
        destruct (windowed_mul_spec X ns mss t modbits l Hok H1 Hwf Hm Hkm Hk) as (r & Hr & Hp).
        exists (r :: rs). cbn [map all_ok]. rewrite Hr, Hrs. split; [reflexivity|].
        cbn [map]. rewrite Hp, Hmap. reflexivity. }
    destruct Hall as (rs & -> & Hmap). eexists. split; [reflexivity|].
    rewrite (r_norm _ _ _ _ _ _ ops_realise). exact Hmap.
  Qed.
End Proofs.
