(* C04 model: ec/src/scalar_mul/glv.rs  GLVConfig::{scalar_decomposition, glv_mul_projective,
   glv_mul_affine} and the curve-crate override
   `mul_projective(p, limbs) = glv_mul_projective(p, from_sign_and_limbs(true, limbs))`.
   No proofs in this file. *)
From V Require Import Base.Word C15.BigIntModel C04.GroupOps.

(* num-bigint div_rem truncates towards zero (remainder has the sign of the dividend); the code
   rounds up only when 2*rem > r, i.e. never for a negative product *)
Definition round_div (a r : Z) : Z :=
  let d := Z.quot a r in
  let rem := Z.rem a r in
  if r <? rem + rem then d + 1 else d.

(* the exact (signed) halves before they are turned into (sign, field element) *)
Definition glv_halves (r n11 n12 n21 n22 k : Z) : Z * Z :=
  let beta1 := round_div (k * n22) r in
  let beta2 := round_div (k * (- n12)) r in
  let b1 := beta1 * n11 + beta2 * n21 in
  let b2 := beta1 * n12 + beta2 * n22 in
  (k - b1, - b2).

(* (k.sign() == Plus, |k| as a field element): zero gets sign `false`; BigUint -> Fp reduces *)
Definition glv_sign_abs (r k : Z) : bool * Z := (0 <? k, Z.abs k mod r).

Definition glv_decomp (r n11 n12 n21 n22 k : Z) : (bool * Z) * (bool * Z) :=
  let '(k1, k2) := glv_halves r n11 n12 n21 n22 k in
  (glv_sign_abs r k1, glv_sign_abs r k2).

(* the integer a (sign, magnitude) pair stands for *)
Definition glv_signed (s : bool * Z) : Z := if fst s then snd s else - snd s.

(* decidable sufficient condition on a GLV configuration (N, (r, lambda), (n11, n12), (n21, n22)):
   both rows in the lattice, determinant r, column sums below r and below 2^(64N-1) *)
Definition glv_basis_ok (c : nat * (Z * Z) * (Z * Z) * (Z * Z)) : bool :=
  let '(N, (r, lambda), (n11, n12), (n21, n22)) := c in
  (0 <? r) && (r <=? Wn N)
  && ((n11 + lambda * n12) mod r =? 0) && ((n21 + lambda * n22) mod r =? 0)
  && (n11 * n22 - n12 * n21 =? r)
  && (Z.abs n11 + Z.abs n21 <? r) && (Z.abs n12 + Z.abs n22 <? r)
  && (Z.abs n11 + Z.abs n21 <? 2 ^ (64 * Z.of_nat N - 1))
  && (Z.abs n12 + Z.abs n22 <? 2 ^ (64 * Z.of_nat N - 1)).

Section Glv.
  Context {R B : Type} (Ops : Gops R B).

  (* the joint loop of glv_mul_projective over the zipped big-endian bit iterators:
       if skip_zeros && pair == (false, false) { skip_zeros = false; continue; }
       res.double_in_place(); match pair { (1,0) => res += b1, (0,1) => res += b2,
                                           (1,1) => res += b1b2, (0,0) => {} }          *)
  Fixpoint glv_loop (b1 b2 b1b2 : R) (pairs : list (Z * Z)) (skip : bool) (res : R) : R :=
    match pairs with
    | [] => res
    | (x, y) :: t =>
        if skip && (x =? 0) && (y =? 0) then glv_loop b1 b2 b1b2 t false res
        else
          let res := gdbl Ops res in
          let res := if x =? 0 then (if y =? 0 then res else gadd Ops res b2)
                     else (if y =? 0 then gadd Ops res b1 else gadd Ops res b1b2) in
          glv_loop b1 b2 b1b2 t skip res
    end.

  (* glv_mul_affine: b1, b2 affine (mixed additions), b1b2 = b1 + b2 projective *)
  Fixpoint glv_loop_aff (b1 b2 : B) (b1b2 : R) (pairs : list (Z * Z)) (skip : bool) (res : R) : R :=
    match pairs with
    | [] => res
    | (x, y) :: t =>
        if skip && (x =? 0) && (y =? 0) then glv_loop_aff b1 b2 b1b2 t false res
        else
          let res := gdbl Ops res in
          let res := if x =? 0 then (if y =? 0 then res else gaddb Ops res b2)
                     else (if y =? 0 then gaddb Ops res b1 else gadd Ops res b1b2) in
          glv_loop_aff b1 b2 b1b2 t skip res
    end.

  (* BitIteratorBE::new(k.into_bigint()): all 64 N bits, most significant first *)
  Definition glv_bits (N : nat) (k : Z) : list Z := to_bits_be (zlimbs N k).

  (* k is the canonical integer of the scalar (0 <= k < r) *)
  Definition glv_mul_proj (endo : R -> R) (N : nat) (r n11 n12 n21 n22 : Z) (p : R) (k : Z) : R :=
    let '((s1, k1), (s2, k2)) := glv_decomp r n11 n12 n21 n22 k in
    let b1 := if s1 then p else gneg Ops p in
    let b2 := if s2 then endo p else gneg Ops (endo p) in
    let b1b2 := gadd Ops b1 b2 in
    glv_loop b1 b2 b1b2 (combine (glv_bits N k1) (glv_bits N k2)) true (gzero Ops).

  Definition glv_mul_aff (endob : B -> B) (N : nat) (r n11 n12 n21 n22 : Z) (p : B) (k : Z) : B :=
    let '((s1, k1), (s2, k2)) := glv_decomp r n11 n12 n21 n22 k in
    let b1 := if s1 then p else gnegb Ops p in
    let b2 := if s2 then endob p else gnegb Ops (endob p) in
    let b1b2 := gaddbb Ops b1 b2 in
    gtob Ops (glv_loop_aff b1 b2 b1b2 (combine (glv_bits N k1) (glv_bits N k2)) true (gzero Ops)).

  (* the override in bls12_381 / bls12_377 / bn254 G1 (and test-curves bls12_381 G1):
     s = from_sign_and_limbs(true, limbs) (= val limbs mod r); glv_mul_projective(p, s).
     The real code asserts limbs.len() <= N (finding F16); the model describes the
     behaviour the property asks for, for every slice length. *)
  Definition mul_bigint_glv (endo : R -> R) (N : nat) (r n11 n12 n21 n22 : Z) (limbs : list Z) (p : R) : R :=
    glv_mul_proj endo N r n11 n12 n21 n22 p (val limbs mod r).
End Glv.
