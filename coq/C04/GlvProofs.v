(* C04 proofs: GLV scalar decomposition and the joint double-and-add loop. *)
From V Require Import Base.Word C15.BigIntModel C15.BitsProofs
  C04.GroupOps C04.GroupTheory C04.ScalarMul C04.ScalarMulProofs C04.Glv.

(* ---------- the decomposition (pure integer arithmetic) ---------- *)

Lemma glv_signed_abs r K : 0 < r -> glv_signed (glv_sign_abs r K) mod r = K mod r.
Proof.
  intros Hr. unfold glv_signed, glv_sign_abs. cbn [fst snd].
  destruct (Z.ltb_spec 0 K) as [Hp|Hn].
  - rewrite Z.abs_eq by lia. apply Z.mod_mod. lia.
  - rewrite Z.abs_neq by lia.
    pose proof (Z.div_mod (- K) r ltac:(lia)) as Hd.
    replace (- ((- K) mod r)) with (K + ((- K) / r) * r) by lia.
    apply Z_mod_plus_full.
Qed.

Lemma glv_halves_congr r lambda n11 n12 n21 n22 k : 0 < r ->
  (n11 + lambda * n12) mod r = 0 -> (n21 + lambda * n22) mod r = 0 ->
  let '(k1, k2) := glv_halves r n11 n12 n21 n22 k in (k1 + lambda * k2) mod r = k mod r.
Proof.
  intros Hr H1 H2. unfold glv_halves.
  set (beta1 := round_div (k * n22) r). set (beta2 := round_div (k * - n12) r).
  apply Z.mod_divide in H1; [|lia]. apply Z.mod_divide in H2; [|lia].
  destruct H1 as [c1 H1]. destruct H2 as [c2 H2].
  replace (k - (beta1 * n11 + beta2 * n21) + lambda * - (beta1 * n12 + beta2 * n22))
    with (k + (- (beta1 * c1 + beta2 * c2)) * r).
  - apply Z_mod_plus_full.
  - replace (k - (beta1 * n11 + beta2 * n21) + lambda * - (beta1 * n12 + beta2 * n22))
      with (k - beta1 * (n11 + lambda * n12) - beta2 * (n21 + lambda * n22)) by ring.
    rewrite H1, H2. ring.
Qed.

(* if both rows of the basis lie in the lattice {(a, b) : a + lambda b = 0 mod r} then the returned
   signed halves recombine to k modulo r -- whatever the rounding did *)
Theorem glv_decomposition_spec r lambda n11 n12 n21 n22 k : 0 < r ->
  (n11 + lambda * n12) mod r = 0 -> (n21 + lambda * n22) mod r = 0 ->
  let '(s1, s2) := glv_decomp r n11 n12 n21 n22 k in
  (glv_signed s1 + lambda * glv_signed s2) mod r = k mod r /\
  0 <= snd s1 < r /\ 0 <= snd s2 < r.
Proof.
  intros Hr H1 H2. unfold glv_decomp.
  pose proof (glv_halves_congr r lambda n11 n12 n21 n22 k Hr H1 H2) as Hc.
  destruct (glv_halves r n11 n12 n21 n22 k) as [k1 k2]. split.
  - rewrite Zplus_mod, <- (Zmult_mod_idemp_r (glv_signed (glv_sign_abs r k2))),
      !glv_signed_abs, Zmult_mod_idemp_r, <- Zplus_mod by exact Hr. exact Hc.
  - unfold glv_sign_abs. cbn [snd]. split; apply Z.mod_pos_bound; exact Hr.
Qed.

(* ---------- size of the halves: |k1| <= |n11| + |n21|, |k2| <= |n12| + |n22| when det = r ---------- *)

Lemma round_div_err a r : 0 < r -> exists rho, a = r * round_div a r + rho /\ - r < rho < r.
Proof.
  intros Hr. unfold round_div.
  pose proof (Z.quot_rem' a r) as Hq. pose proof (Z.rem_bound_abs a r ltac:(lia)) as Hb.
  rewrite (Z.abs_eq r) in Hb by lia.
  destruct (Z.ltb_spec r (Z.rem a r + Z.rem a r)) as [Hup|Hdn].
  - exists (Z.rem a r - r). split; [lia|]. destruct (Z.abs_spec (Z.rem a r)) as [[? E]|[? E]]; lia.
  - exists (Z.rem a r). split; [lia|]. destruct (Z.abs_spec (Z.rem a r)) as [[? E]|[? E]]; lia.
Qed.

Lemma abs_combo_le r p1 p2 x y K : 0 < r -> - r < p1 < r -> - r < p2 < r -> r * K = p1 * x + p2 * y ->
  Z.abs K <= Z.abs x + Z.abs y.
Proof.
  intros Hr H1 H2 HK.
  assert (Ha : r * Z.abs K <= r * (Z.abs x + Z.abs y)).
  { replace (r * Z.abs K) with (Z.abs (r * K)) by (rewrite Z.abs_mul, (Z.abs_eq r) by lia; reflexivity).
    rewrite HK. eapply Z.le_trans; [apply Z.abs_triangle|]. rewrite !Z.abs_mul.
    assert (Z.abs p1 <= r) by lia. assert (Z.abs p2 <= r) by lia.
    pose proof (Z.abs_nonneg x). pose proof (Z.abs_nonneg y).
    assert (Z.abs p1 * Z.abs x <= r * Z.abs x) by (apply Z.mul_le_mono_nonneg_r; lia).
    assert (Z.abs p2 * Z.abs y <= r * Z.abs y) by (apply Z.mul_le_mono_nonneg_r; lia). lia. }
  apply Z.mul_le_mono_pos_l in Ha; lia.
Qed.

(* glv_halves_bound: the rounding error of each beta is below 1, so the halves are bounded by the
   column sums of the basis -- provided the basis has determinant r *)
Theorem glv_halves_bound r n11 n12 n21 n22 k : 0 < r -> n11 * n22 - n12 * n21 = r ->
  let '(k1, k2) := glv_halves r n11 n12 n21 n22 k in
  Z.abs k1 <= Z.abs n11 + Z.abs n21 /\ Z.abs k2 <= Z.abs n12 + Z.abs n22.
Proof.
  intros Hr Hdet. unfold glv_halves.
  destruct (round_div_err (k * n22) r Hr) as (p1 & E1 & B1).
  destruct (round_div_err (k * - n12) r Hr) as (p2 & E2 & B2).
  set (beta1 := round_div (k * n22) r) in *. set (beta2 := round_div (k * - n12) r) in *.
  split.
  - apply (abs_combo_le r p1 p2); auto.
    replace (r * (k - (beta1 * n11 + beta2 * n21)))
      with (r * k - (r * beta1) * n11 - (r * beta2) * n21) by ring.
    replace (r * beta1) with (k * n22 - p1) by lia. replace (r * beta2) with (k * - n12 - p2) by lia.
    rewrite <- Hdet. ring.
  - apply (abs_combo_le r p1 p2); auto.
    replace (r * - (beta1 * n12 + beta2 * n22))
      with (- ((r * beta1) * n12) - (r * beta2) * n22) by ring.
    replace (r * beta1) with (k * n22 - p1) by lia. replace (r * beta2) with (k * - n12 - p2) by lia.
    ring.
Qed.

(* ---------- bit strings with a clear top bit ---------- *)

Lemma to_bits_be_top a : wf a -> 0 <= val a < 2 ^ (64 * Z.of_nat (length a) - 1) ->
  exists t, to_bits_be a = 0 :: t /\ Forall is_bit t /\ bval_be t = val a /\ length t = (64 * length a - 1)%nat.
Proof.
  intros Hw Hv. destruct (to_bits_le_spec a Hw) as (Hl & Hb & _ & Hn).
  destruct (to_bits_be_spec a Hw) as (Hbb & Hvb & Hlb).
  assert (Hlen : (0 < length a)%nat).
  { destruct a as [|x a]; [|cbn [length]; lia]. exfalso. cbn [val length] in Hv.
    assert (2 ^ (64 * Z.of_nat 0 - 1) = 0) by reflexivity. lia. }
  destruct (to_bits_be a) as [|b t] eqn:He; [cbn in Hlb; lia|].
  assert (Hb0 : b = 0).
  { change b with (nth 0 (b :: t) 0). rewrite <- He. unfold to_bits_be.
    rewrite rev_nth by lia. rewrite Hl, Hn by lia.
    replace (Z.of_nat (64 * length a - 1)) with (64 * Z.of_nat (length a) - 1) by lia.
    rewrite Z.bits_above_log2; [reflexivity|lia|].
    destruct (Z.eq_dec (val a) 0) as [Hz|Hnz]; [rewrite Hz; change (Z.log2 0) with 0; lia|].
    apply Z.log2_lt_pow2; lia. }
  subst b. exists t. inversion Hbb; subst. split; [reflexivity|]. split; [assumption|].
  split; [|cbn [length] in Hlb; lia].
  rewrite <- Hvb. unfold bval_be. cbn [fold_left]. reflexivity.
Qed.

Lemma combine_fst_firstn {X Y : Type} : forall (xs : list X) (ys : list Y),
  map fst (combine xs ys) = firstn (length ys) xs.
Proof.
  induction xs as [|x xs IH]; intros [|y ys]; cbn [combine map length firstn fst]; try reflexivity.
  rewrite IH. reflexivity.
Qed.
Lemma combine_snd_firstn {X Y : Type} : forall (xs : list X) (ys : list Y),
  map snd (combine xs ys) = firstn (length xs) ys.
Proof.
  induction xs as [|x xs IH]; intros [|y ys]; cbn [combine map length firstn snd]; try reflexivity.
  rewrite IH. reflexivity.
Qed.

Section Proofs.
  Context {A : Type} (aadd : A -> A -> A) (aneg : A -> A) (azero : A).
  Hypothesis affine_law_is_group : abelian_group aadd aneg azero.
  Context {R B : Type} (Ops : Gops R B) (phi : R -> A) (phib : B -> A).
  Hypothesis ops_realise : realises aadd aneg azero Ops phi phib.
  Local Notation smul := (smul aadd aneg azero).
  Let G := affine_law_is_group.

  Section Lin.
    Variables X1 X2 : A.
    Definition lin (a b : Z) : A := aadd (smul a X1) (smul b X2).
    Lemma lin_double a b : aadd (lin a b) (lin a b) = lin (2 * a) (2 * b).
    Proof. unfold lin. rewrite (add_shuffle _ _ _ G), !(smul_double _ _ _ G). reflexivity. Qed.
    Lemma lin_add1 a b : aadd (lin a b) X1 = lin (a + 1) b.
    Proof.
      unfold lin. rewrite <- (ag_assoc _ _ _ G), (ag_comm _ _ _ G (smul b X2) X1), (ag_assoc _ _ _ G),
        (smul_add_1 _ _ _ G). reflexivity.
    Qed.
    Lemma lin_add2 a b : aadd (lin a b) X2 = lin a (b + 1).
    Proof. unfold lin. rewrite <- (ag_assoc _ _ _ G), (smul_add_1 _ _ _ G). reflexivity. Qed.
    Lemma lin_add12 a b : aadd (lin a b) (aadd X1 X2) = lin (a + 1) (b + 1).
    Proof. unfold lin. rewrite (add_shuffle _ _ _ G), !(smul_add_1 _ _ _ G). reflexivity. Qed.
  End Lin.

  (* the loop once skip_zeros is off *)
  Lemma glv_loop_noskip b1 b2 b1b2 : phi b1b2 = aadd (phi b1) (phi b2) ->
    forall pairs res v1 v2, Forall is_bit (map fst pairs) -> Forall is_bit (map snd pairs) ->
    phi res = lin (phi b1) (phi b2) v1 v2 ->
    phi (glv_loop Ops b1 b2 b1b2 pairs false res)
    = lin (phi b1) (phi b2) (bfold v1 (map fst pairs)) (bfold v2 (map snd pairs)).
  Proof.
    intros H12. induction pairs as [|[x y] t IH]; intros res v1 v2 Hx Hy Hres; [exact Hres|].
    cbn [map fst snd] in Hx, Hy. inversion Hx as [|? ? Hx0 Hx']; inversion Hy as [|? ? Hy0 Hy']; subst.
    cbn [glv_loop andb map fst snd].
    change (bfold v1 (x :: map fst t)) with (bfold (2 * v1 + x) (map fst t)).
    change (bfold v2 (y :: map snd t)) with (bfold (2 * v2 + y) (map snd t)).
    apply IH; [exact Hx'|exact Hy'|].
    assert (Hd : phi (gdbl Ops res) = lin (phi b1) (phi b2) (2 * v1) (2 * v2)).
    { rewrite (r_dbl _ _ _ _ _ _ ops_realise), Hres. apply lin_double. }
    destruct Hx0 as [->| ->]; destruct Hy0 as [->| ->]; cbn [Z.eqb].
    - rewrite Hd. f_equal; lia.
    - rewrite (r_add _ _ _ _ _ _ ops_realise), Hd, lin_add2. f_equal; lia.
    - rewrite (r_add _ _ _ _ _ _ ops_realise), Hd, lin_add1. f_equal; lia.
    - rewrite (r_add _ _ _ _ _ _ ops_realise), Hd, H12, lin_add12. f_equal; lia.
  Qed.

  (* glv_joint_loop_spec: when the top bit of both halves is clear (first pair = (0,0), the one the
     skip_zeros logic drops) the loop returns k1 . B1 + k2 . B2 *)
  Theorem glv_joint_loop_spec b1 b2 b1b2 xs ys : phi b1b2 = aadd (phi b1) (phi b2) ->
    Forall is_bit xs -> Forall is_bit ys ->
    phi (glv_loop Ops b1 b2 b1b2 (combine (0 :: xs) (0 :: ys)) true (gzero Ops))
    = aadd (smul (bval_be (firstn (length ys) xs)) (phi b1)) (smul (bval_be (firstn (length xs) ys)) (phi b2)).
  Proof.
    intros H12 Hx Hy. cbn [combine glv_loop andb Z.eqb].
    rewrite (glv_loop_noskip b1 b2 b1b2 H12 (combine xs ys) (gzero Ops) 0 0).
    - rewrite combine_fst_firstn, combine_snd_firstn. reflexivity.
    - rewrite combine_fst_firstn. apply Forall_firstn. exact Hx.
    - rewrite combine_snd_firstn. apply Forall_firstn. exact Hy.
    - rewrite (r_zero _ _ _ _ _ _ ops_realise). unfold lin. rewrite !(smul_0 aadd aneg azero), (ag_zero_l _ _ _ G).
      reflexivity.
  Qed.
  (* the same loop with affine b1, b2 (glv_mul_affine) *)
  Lemma glv_loop_aff_noskip (b1 b2 : B) b1b2 : phi b1b2 = aadd (phib b1) (phib b2) ->
    forall pairs res v1 v2, Forall is_bit (map fst pairs) -> Forall is_bit (map snd pairs) ->
    phi res = lin (phib b1) (phib b2) v1 v2 ->
    phi (glv_loop_aff Ops b1 b2 b1b2 pairs false res)
    = lin (phib b1) (phib b2) (bfold v1 (map fst pairs)) (bfold v2 (map snd pairs)).
  Proof.
    intros H12. induction pairs as [|[x y] t IH]; intros res v1 v2 Hx Hy Hres; [exact Hres|].
    cbn [map fst snd] in Hx, Hy. inversion Hx as [|? ? Hx0 Hx']; inversion Hy as [|? ? Hy0 Hy']; subst.
    cbn [glv_loop_aff andb map fst snd].
    change (bfold v1 (x :: map fst t)) with (bfold (2 * v1 + x) (map fst t)).
    change (bfold v2 (y :: map snd t)) with (bfold (2 * v2 + y) (map snd t)).
    apply IH; [exact Hx'|exact Hy'|].
    assert (Hd : phi (gdbl Ops res) = lin (phib b1) (phib b2) (2 * v1) (2 * v2)).
    { rewrite (r_dbl _ _ _ _ _ _ ops_realise), Hres. apply lin_double. }
    destruct Hx0 as [->| ->]; destruct Hy0 as [->| ->]; cbn [Z.eqb].
    - rewrite Hd. f_equal; lia.
    - rewrite (r_addb _ _ _ _ _ _ ops_realise), Hd, lin_add2. f_equal; lia.
    - rewrite (r_addb _ _ _ _ _ _ ops_realise), Hd, lin_add1. f_equal; lia.
    - rewrite (r_add _ _ _ _ _ _ ops_realise), Hd, H12, lin_add12. f_equal; lia.
  Qed.

  Lemma glv_joint_loop_aff_spec (b1 b2 : B) b1b2 xs ys : phi b1b2 = aadd (phib b1) (phib b2) ->
    Forall is_bit xs -> Forall is_bit ys ->
    phi (glv_loop_aff Ops b1 b2 b1b2 (combine (0 :: xs) (0 :: ys)) true (gzero Ops))
    = aadd (smul (bval_be (firstn (length ys) xs)) (phib b1)) (smul (bval_be (firstn (length xs) ys)) (phib b2)).
  Proof.
    intros H12 Hx Hy. cbn [combine glv_loop_aff andb Z.eqb].
    rewrite (glv_loop_aff_noskip b1 b2 b1b2 H12 (combine xs ys) (gzero Ops) 0 0).
    - rewrite combine_fst_firstn, combine_snd_firstn. reflexivity.
    - rewrite combine_fst_firstn. apply Forall_firstn. exact Hx.
    - rewrite combine_snd_firstn. apply Forall_firstn. exact Hy.
    - rewrite (r_zero _ _ _ _ _ _ ops_realise). unfold lin. rewrite !(smul_0 aadd aneg azero), (ag_zero_l _ _ _ G).
      reflexivity.
  Qed.

  (* the premise the skip_zeros logic forces: bit 64N-1 of both returned magnitudes is clear *)
  Definition glv_top_bits_clear (N : nat) (r n11 n12 n21 n22 k : Z) : Prop :=
    let '(s1, s2) := glv_decomp r n11 n12 n21 n22 k in
    snd s1 < 2 ^ (64 * Z.of_nat N - 1) /\ snd s2 < 2 ^ (64 * Z.of_nat N - 1).

  Lemma glv_bits_top N r m : 0 < r <= Wn N -> 0 <= m < r -> m < 2 ^ (64 * Z.of_nat N - 1) ->
    exists t, glv_bits N m = 0 :: t /\ Forall is_bit t /\ bval_be t = m /\ length t = (64 * N - 1)%nat.
  Proof.
    intros Hr Hm Ht. unfold glv_bits.
    destruct (to_bits_be_top (zlimbs N m)) as (t & E & Bt & V & L).
    - apply zlimbs_wf.
    - rewrite zlimbs_val_small, zlimbs_length by lia. lia.
    - exists t. rewrite zlimbs_val_small, zlimbs_length in * by lia. auto.
  Qed.

  Lemma glv_recombine r lambda (s1 s2 : bool) m1 m2 k X : smul r X = azero ->
    (glv_signed (s1, m1) + lambda * glv_signed (s2, m2)) mod r = k mod r ->
    aadd (smul m1 (if s1 then X else aneg X)) (smul m2 (if s2 then smul lambda X else aneg (smul lambda X)))
    = smul k X.
  Proof.
    intros Ho Hc.
    assert (E1 : (if s1 then X else aneg X) = smul (if s1 then 1 else -1) X).
    { destruct s1; [rewrite (smul_1 _ _ _ G); reflexivity|].
      rewrite (smul_neg _ _ _ G 1), (smul_1 _ _ _ G). reflexivity. }
    assert (E2 : (if s2 then smul lambda X else aneg (smul lambda X)) = smul (if s2 then lambda else - lambda) X).
    { destruct s2; [reflexivity|]. rewrite (smul_neg _ _ _ G). reflexivity. }
    rewrite E1, E2, <- !(smul_mul _ _ _ G), <- (smul_add _ _ _ G).
    apply (smul_congr _ _ _ G r); [exact Ho|]. rewrite <- Hc. f_equal.
    unfold glv_signed. cbn [fst snd]. destruct s1, s2; ring.
  Qed.

  (* glv_mul_projective = k . P on points where the endomorphism acts as lambda and r P = 0 *)
  Theorem glv_mul_spec endo N r lambda n11 n12 n21 n22 P k :
    0 < r <= Wn N -> 0 <= k < r ->
    (n11 + lambda * n12) mod r = 0 -> (n21 + lambda * n22) mod r = 0 ->
    glv_top_bits_clear N r n11 n12 n21 n22 k ->
    phi (endo P) = smul lambda (phi P) -> smul r (phi P) = azero ->
    phi (glv_mul_proj Ops endo N r n11 n12 n21 n22 P k) = smul k (phi P).
  Proof.
    intros Hr Hk H1 H2 Htop Hendo Ho. unfold glv_mul_proj, glv_top_bits_clear in *.
    pose proof (glv_decomposition_spec r lambda n11 n12 n21 n22 k ltac:(lia) H1 H2) as Hd.
    destruct (glv_decomp r n11 n12 n21 n22 k) as [[s1 m1] [s2 m2]]. cbn [snd] in *.
    destruct Hd as (Hc & Hm1 & Hm2). destruct Htop as [Ht1 Ht2].
    destruct (glv_bits_top N r m1 Hr Hm1 Ht1) as (t1 & E1 & B1 & V1 & L1).
    destruct (glv_bits_top N r m2 Hr Hm2 Ht2) as (t2 & E2 & B2 & V2 & L2).
    rewrite E1, E2, glv_joint_loop_spec by (auto; apply (r_add _ _ _ _ _ _ ops_realise)).
    rewrite L2, <- L1, firstn_all, L1, <- L2, firstn_all, V1, V2.
    replace (phi (if s1 then P else gneg Ops P)) with (if s1 then phi P else aneg (phi P))
      by (destruct s1; [reflexivity|rewrite (r_neg _ _ _ _ _ _ ops_realise); reflexivity]).
    replace (phi (if s2 then endo P else gneg Ops (endo P)))
      with (if s2 then smul lambda (phi P) else aneg (smul lambda (phi P)))
      by (destruct s2; [|rewrite (r_neg _ _ _ _ _ _ ops_realise)]; rewrite Hendo; reflexivity).
    apply (glv_recombine r lambda); assumption.
  Qed.

  (* glv_mul_affine *)
  Theorem glv_mul_affine_spec endob N r lambda n11 n12 n21 n22 (Q : B) k :
    0 < r <= Wn N -> 0 <= k < r ->
    (n11 + lambda * n12) mod r = 0 -> (n21 + lambda * n22) mod r = 0 ->
    glv_top_bits_clear N r n11 n12 n21 n22 k ->
    phib (endob Q) = smul lambda (phib Q) -> smul r (phib Q) = azero ->
    phib (glv_mul_aff Ops endob N r n11 n12 n21 n22 Q k) = smul k (phib Q).
  Proof.
    intros Hr Hk H1 H2 Htop Hendo Ho. unfold glv_mul_aff, glv_top_bits_clear in *.
    pose proof (glv_decomposition_spec r lambda n11 n12 n21 n22 k ltac:(lia) H1 H2) as Hd.
    destruct (glv_decomp r n11 n12 n21 n22 k) as [[s1 m1] [s2 m2]]. cbn [snd] in *.
    destruct Hd as (Hc & Hm1 & Hm2). destruct Htop as [Ht1 Ht2].
    destruct (glv_bits_top N r m1 Hr Hm1 Ht1) as (t1 & E1 & B1 & V1 & L1).
    destruct (glv_bits_top N r m2 Hr Hm2 Ht2) as (t2 & E2 & B2 & V2 & L2).
    rewrite (r_tob _ _ _ _ _ _ ops_realise).
    rewrite E1, E2, glv_joint_loop_aff_spec by (auto; apply (r_addbb _ _ _ _ _ _ ops_realise)).
    rewrite L2, <- L1, firstn_all, L1, <- L2, firstn_all, V1, V2.
    replace (phib (if s1 then Q else gnegb Ops Q)) with (if s1 then phib Q else aneg (phib Q))
      by (destruct s1; [reflexivity|rewrite (r_negb _ _ _ _ _ _ ops_realise); reflexivity]).
    replace (phib (if s2 then endob Q else gnegb Ops (endob Q)))
      with (if s2 then smul lambda (phib Q) else aneg (smul lambda (phib Q)))
      by (destruct s2; [|rewrite (r_negb _ _ _ _ _ _ ops_realise)]; rewrite Hendo; reflexivity).
    apply (glv_recombine r lambda); assumption.
  Qed.

  (* the curve-crate override mul_projective = glv_mul o from_sign_and_limbs, on every limb slice
     (any length, values >= r): = (val limbs) . P *)
  Theorem glv_override_spec endo N r lambda n11 n12 n21 n22 limbs P :
    0 < r <= Wn N ->
    (n11 + lambda * n12) mod r = 0 -> (n21 + lambda * n22) mod r = 0 ->
    glv_top_bits_clear N r n11 n12 n21 n22 (val limbs mod r) ->
    phi (endo P) = smul lambda (phi P) -> smul r (phi P) = azero ->
    phi (mul_bigint_glv Ops endo N r n11 n12 n21 n22 limbs P) = smul (val limbs) (phi P).
  Proof.
    intros Hr H1 H2 Htop Hendo Ho. unfold mul_bigint_glv.
    rewrite (glv_mul_spec endo N r lambda) by (auto; apply Z.mod_pos_bound; lia).
    apply (smul_mod _ _ _ G); exact Ho.
  Qed.
  (* the top-bit premise follows from a numeric fact about the basis alone *)
  Theorem glv_top_bits_clear_of_basis N r n11 n12 n21 n22 k : 0 < r -> n11 * n22 - n12 * n21 = r ->
    Z.abs n11 + Z.abs n21 < r -> Z.abs n12 + Z.abs n22 < r ->
    Z.abs n11 + Z.abs n21 < 2 ^ (64 * Z.of_nat N - 1) -> Z.abs n12 + Z.abs n22 < 2 ^ (64 * Z.of_nat N - 1) ->
    glv_top_bits_clear N r n11 n12 n21 n22 k.
  Proof.
    intros Hr Hdet Hr1 Hr2 Ht1 Ht2. unfold glv_top_bits_clear, glv_decomp.
    pose proof (glv_halves_bound r n11 n12 n21 n22 k Hr Hdet) as Hb.
    destruct (glv_halves r n11 n12 n21 n22 k) as [k1 k2]. destruct Hb as [Hb1 Hb2].
    unfold glv_sign_abs. cbn [snd].
    rewrite !Z.mod_small by (split; [apply Z.abs_nonneg|lia]). lia.
  Qed.
End Proofs.

(* what the boolean check of a configuration buys *)
Theorem glv_basis_ok_sound N r lambda n11 n12 n21 n22 :
  glv_basis_ok (N, (r, lambda), (n11, n12), (n21, n22)) = true ->
  0 < r <= Wn N /\ (n11 + lambda * n12) mod r = 0 /\ (n21 + lambda * n22) mod r = 0 /\
  forall k, glv_top_bits_clear N r n11 n12 n21 n22 k.
Proof.
  unfold glv_basis_ok. rewrite !andb_true_iff.
  intros ((((((((H1 & H2) & H3) & H4) & H5) & H6) & H7) & H8) & H9).
  apply Z.ltb_lt in H1, H6, H7, H8, H9. apply Z.leb_le in H2. apply Z.eqb_eq in H3, H4, H5.
  split; [lia|]. split; [assumption|]. split; [assumption|].
  intros k. apply glv_top_bits_clear_of_basis; assumption.
Qed.
