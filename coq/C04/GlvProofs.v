(* C04 proofs: GLV scalar decomposition and the joint double-and-add loop. *)
From V Require Import Base.Word C15.BigIntModel C15.BitsProofs
  C04.GroupOps C04.GroupTheory C04.ScalarMul C04.ScalarMulProofs C04.Glv.

(* ---------- the decomposition (pure integer arithmetic) ---------- *)

Lemma glv_signed_abs r K : 0 < r -> glv_signed (glv_sign_abs r K) mod r = K mod r.
Proof.
  intros Hr. unfold glv_signed, glv_sign_abs. cbn [fst snd].
  destruct (Z.ltb_spec 0 K) as [Hp|Hn].
  - rewrite Z.abs_eq by lia. apply Z.mod_mod. lia.
  - rewrite Z.abs_neq by lia.
    pose proof (Z.div_mod (- K) r ltac:(lia)) as Hd.
    replace (- ((- K) mod r)) with (K + ((- K) / r) * r) by lia.
    apply Z_mod_plus_full.
Qed.

Lemma glv_halves_congr r lambda n11 n12 n21 n22 k : 0 < r ->
  (n11 + lambda * n12) mod r = 0 -> (n21 + lambda * n22) mod r = 0 ->
  let '(k1, k2) := glv_halves r n11 n12 n21 n22 k in (k1 + lambda * k2) mod r = k mod r.
Proof.
  intros Hr H1 H2. unfold glv_halves.
  set (beta1 := round_div (k * n22) r). set (beta2 := round_div (k * - n12) r).
  apply Z.mod_divide in H1; [|lia]. apply Z.mod_divide in H2; [|lia].
  destruct H1 as [c1 H1]. destruct H2 as [c2 H2].
  replace (k - (beta1 * n11 + beta2 * n21) + lambda * - (beta1 * n12 + beta2 * n22))
    with (k + (- (beta1 * c1 + beta2 * c2)) * r).
  - apply Z_mod_plus_full.
  - replace (k - (beta1 * n11 + beta2 * n21) + lambda * - (beta1 * n12 + beta2 * n22))
      with (k - beta1 * (n11 + lambda * n12) - beta2 * (n21 + lambda * n22)) by ring.
    rewrite H1, H2. ring.
Qed.

(* if both rows of the basis lie in the lattice {(a, b) : a + lambda b = 0 mod r} then the returned
   signed halves recombine to k modulo r -- whatever the rounding did *)
Theorem glv_decomposition_spec r lambda n11 n12 n21 n22 k : 0 < r ->
  (n11 + lambda * n12) mod r = 0 -> (n21 + lambda * n22) mod r = 0 ->
  let '(s1, s2) := glv_decomp r n11 n12 n21 n22 k in
  (glv_signed s1 + lambda * glv_signed s2) mod r = k mod r /\
  0 <= snd s1 < r /\ 0 <= snd s2 < r.
Proof.
  intros Hr H1 H2. unfold glv_decomp.
  pose proof (glv_halves_congr r lambda n11 n12 n21 n22 k Hr H1 H2) as Hc.
  destruct (glv_halves r n11 n12 n21 n22 k) as [k1 k2]. split.
  - rewrite Zplus_mod, <- (Zmult_mod_idemp_r (glv_signed (glv_sign_abs r k2))),
      !glv_signed_abs, Zmult_mod_idemp_r, <- Zplus_mod by exact Hr. exact Hc.
  - unfold glv_sign_abs. cbn [snd]. split; apply Z.mod_pos_bound; exact Hr.
Qed.

(* ---------- bit strings with a clear top bit ---------- *)

Lemma to_bits_be_top a : wf a -> 0 <= val a < 2 ^ (64 * Z.of_nat (length a) - 1) ->
  exists t, to_bits_be a = 0 :: t /\ Forall is_bit t /\ bval_be t = val a /\ length t = (64 * length a - 1)%nat.
Proof.
  intros Hw Hv. destruct (to_bits_le_spec a Hw) as (Hl & Hb & _ & Hn).
  destruct (to_bits_be_spec a Hw) as (Hbb & Hvb & Hlb).
  assert (Hlen : (0 < length a)%nat).
  { destruct a as [|x a]; [|cbn [length]; lia]. exfalso. cbn [val length] in Hv.
    assert (2 ^ (64 * Z.of_nat 0 - 1) = 0) by reflexivity. lia. }
  destruct (to_bits_be a) as [|b t] eqn:He; [cbn in Hlb; lia|].
  assert (Hb0 : b = 0).
  { change b with (nth 0 (b :: t) 0). rewrite <- He. unfold to_bits_be.
    rewrite rev_nth by lia. rewrite Hl, Hn by lia.
    replace (Z.of_nat (64 * length a - 1)) with (64 * Z.of_nat (length a) - 1) by lia.
    rewrite Z.bits_above_log2; [reflexivity|lia|].
    destruct (Z.eq_dec (val a) 0) as [Hz|Hnz]; [rewrite Hz; change (Z.log2 0) with 0; lia|].
    apply Z.log2_lt_pow2; lia. }
  subst b. exists t. inversion Hbb; subst. split; [reflexivity|]. split; [assumption|].
  split; [|cbn [length] in Hlb; lia].
  rewrite <- Hvb. unfold bval_be. cbn [fold_left]. reflexivity.
Qed.

Lemma combine_fst_firstn {X Y : Type} : forall (xs : list X) (ys : list Y),
  map fst (combine xs ys) = firstn (length ys) xs.
Proof.
  induction xs as [|x xs IH]; intros [|y ys]; cbn [combine map length firstn fst]; try reflexivity.
  rewrite IH. reflexivity.
Qed.
Lemma combine_snd_firstn {X Y : Type} : forall (xs : list X) (ys : list Y),
  map snd (combine xs ys) = firstn (length xs) ys.
Proof.
  induction xs as [|x xs IH]; intros [|y ys]; cbn [combine map length firstn snd]; try reflexivity.
  rewrite IH. reflexivity.
Qed.

Section Proofs.
  Context {A : Type} (aadd : A -> A -> A) (aneg : A -> A) (azero : A).
  Hypothesis affine_law_is_group : abelian_group aadd aneg azero.
  Context {R B : Type} (Ops : Gops R B) (phi : R -> A) (phib : B -> A).
  Hypothesis ops_realise : realises aadd aneg azero Ops phi phib.
  Local Notation smul := (smul aadd aneg azero).
  Let G := affine_law_is_group.

  Section Lin.
    Variables X1 X2 : A.
    Definition lin (a b : Z) : A := aadd (smul a X1) (smul b X2).
    Lemma lin_double a b : aadd (lin a b) (lin a b) = lin (2 * a) (2 * b).
    Proof. unfold lin. rewrite (add_shuffle _ _ _ G), !(smul_double _ _ _ G). reflexivity. Qed.
    Lemma lin_add1 a b : aadd (lin a b) X1 = lin (a + 1) b.
    Proof.
      unfold lin. rewrite <- (ag_assoc _ _ _ G), (ag_comm _ _ _ G (smul b X2) X1), (ag_assoc _ _ _ G),
        (smul_add_1 _ _ _ G). reflexivity.
    Qed.
    Lemma lin_add2 a b : aadd (lin a b) X2 = lin a (b + 1).
    Proof. unfold lin. rewrite <- (ag_assoc _ _ _ G), (smul_add_1 _ _ _ G). reflexivity. Qed.
    Lemma lin_add12 a b : aadd (lin a b) (aadd X1 X2) = lin (a + 1) (b + 1).
    Proof. unfold lin. rewrite (add_shuffle _ _ _ G), !(smul_add_1 _ _ _ G). reflexivity. Qed.
  End Lin.

  (* the loop once skip_zeros is off *)
  Lemma glv_loop_noskip b1 b2 b1b2 : phi b1b2 = aadd (phi b1) (phi b2) ->
    forall pairs res v1 v2, Forall is_bit (map fst pairs) -> Forall is_bit (map snd pairs) ->
    phi res = lin (phi b1) (phi b2) v1 v2 ->
    phi (glv_loop Ops b1 b2 b1b2 pairs false res)
    = lin (phi b1) (phi b2) (bfold v1 (map fst pairs)) (bfold v2 (map snd pairs)).
  Proof.
    intros H12. induction pairs as [|[x y] t IH]; intros res v1 v2 Hx Hy Hres; [exact Hres|].
    cbn [map fst snd] in Hx, Hy. inversion Hx as [|? ? Hx0 Hx']; inversion Hy as [|? ? Hy0 Hy']; subst.
    cbn [glv_loop andb map fst snd].
    change (bfold v1 (x :: map fst t)) with (bfold (2 * v1 + x) (map fst t)).
    change (bfold v2 (y :: map snd t)) with (bfold (2 * v2 + y) (map snd t)).
    apply IH; [exact Hx'|exact Hy'|].
    assert (Hd : phi (gdbl Ops res) = lin (phi b1) (phi b2) (2 * v1) (2 * v2)).
    { rewrite (r_dbl _ _ _ _ _ _ ops_realise), Hres. apply lin_double. }
    destruct Hx0 as [->| ->]; destruct Hy0 as [->| ->]; cbn [Z.eqb].
    - rewrite Hd. f_equal; lia.
    - rewrite (r_add _ _ _ _ _ _ ops_realise), Hd, lin_add2. f_equal; lia.
    - rewrite (r_add _ _ _ _ _ _ ops_realise), Hd, lin_add1. f_equal; lia.
    - rewrite (r_add _ _ _ _ _ _ ops_realise), Hd, H12, lin_add12. f_equal; lia.
  Qed.

  (* glv_joint_loop_spec: when the top bit of both halves is clear (first pair = (0,0), the one the
     skip_zeros logic drops) the loop returns k1 . B1 + k2 . B2 *)
  Theorem glv_joint_loop_spec b1 b2 b1b2 xs ys : phi b1b2 = aadd (phi b1) (phi b2) ->
    Forall is_bit xs -> Forall is_bit ys ->
    phi (glv_loop Ops b1 b2 b1b2 (combine (0 :: xs) (0 :: ys)) true (gzero Ops))
    = aadd (smul (bval_be (firstn (length ys) xs)) (phi b1)) (smul (bval_be (firstn (length xs) ys)) (phi b2)).
  Proof.
    intros H12 Hx Hy. cbn [combine glv_loop andb Z.eqb].
    rewrite (glv_loop_noskip b1 b2 b1b2 H12 (combine xs ys) (gzero Ops) 0 0).
    - rewrite combine_fst_firstn, combine_snd_firstn. reflexivity.
    - rewrite combine_fst_firstn. apply Forall_firstn. exact Hx.
    - rewrite combine_snd_firstn. apply Forall_firstn. exact Hy.
    - rewrite (r_zero _ _ _ _ _ _ ops_realise). unfold lin. rewrite !(smul_0 aadd aneg azero), (ag_zero_l _ _ _ G).
      reflexivity.
  Qed.
End Proofs.
