(* C04 -- the operations a scalar-multiplication routine uses on group elements, as a
   dictionary (like Base.Field.Fops for fields).  R = the projective representation the
   Rust code computes with (`Projective<P>`), B = its `MulBase` / `Affine<P>`.
   The models in this directory are functions of such a dictionary; Run.v instantiates it
   with the C03 curve models, the theorems interpret it in an abstract commutative group
   (GroupTheory.v).  No proofs in this file. *)
From V Require Export Base.Word.

Record Gops (R B : Type) := mkGops {
  gzero : R;                    (* Zero::zero() *)
  gadd : R -> R -> R;           (* Projective += &Projective *)
  gsub : R -> R -> R;           (* Projective -= &Projective *)
  gaddb : R -> B -> R;          (* Projective += &Affine  (mixed addition) *)
  gdbl : R -> R;                (* double_in_place / double *)
  gneg : R -> R;                (* -Projective *)
  gnegb : B -> B;               (* -Affine *)
  gofb : B -> R;                (* From<Affine> for Projective / into_group *)
  gtob : R -> B;                (* into_affine *)
  gnorm : list R -> list B;     (* normalize_batch = batch_convert_to_mul_base *)
  gaddbb : B -> B -> R          (* Affine + Affine -> Projective *)
}.
Arguments gzero {R B}. Arguments gadd {R B}. Arguments gsub {R B}. Arguments gaddb {R B}.
Arguments gdbl {R B}. Arguments gneg {R B}. Arguments gnegb {R B}. Arguments gofb {R B}.
Arguments gtob {R B}. Arguments gnorm {R B}. Arguments gaddbb {R B}.

(* what an API call can do besides returning a value *)
Inductive outcome (A : Type) := Ok (a : A) | NoneRes | Panic.
Arguments Ok {A}. Arguments NoneRes {A}. Arguments Panic {A}.

(* the N-limb little-endian representation of an integer (BigInt<N> of a canonical
   field element: `into_bigint`) *)
Fixpoint zlimbs (n : nat) (k : Z) : list Z :=
  match n with
  | O => []
  | S n' => k mod W64 :: zlimbs n' (k / W64)
  end.

(* value of a most-significant-bit-first bit string *)
Definition bval_be (bits : list Z) : Z := fold_left (fun v b => 2 * v + b) bits 0.
