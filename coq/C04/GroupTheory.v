(* C04 -- the specification side: an abstract commutative group (A, add, neg, zero) with Leibniz
   equality, scalar multiplication k . P defined by iteration, and what it means for a dictionary
   of representation-level operations (GroupOps.Gops) to realise that group.

   `abelian_group` is the named hypothesis `affine_law_is_group` of DESIGN section 2: for the curve
   instances A is the set of affine points and add the chord-and-tangent / Edwards law, whose
   associativity is classical and is not re-proved.  `realises` is what C03 proves about the
   projective formulas (to_affine (sw_add P Q) = aff_add (to_affine P) (to_affine Q), ...). *)
From V Require Import Base.Word C04.GroupOps.

Section Group.
  Context {A : Type} (aadd : A -> A -> A) (aneg : A -> A) (azero : A).

  Record abelian_group : Prop := mkAG {
    ag_assoc : forall x y z, aadd x (aadd y z) = aadd (aadd x y) z;
    ag_comm : forall x y, aadd x y = aadd y x;
    ag_zero_l : forall x, aadd azero x = x;
    ag_neg_l : forall x, aadd (aneg x) x = azero
  }.

  (* k . P by iteration *)
  Fixpoint nsmul (n : nat) (P : A) : A :=
    match n with O => azero | S n' => aadd P (nsmul n' P) end.
  Definition smul (k : Z) (P : A) : A :=
    if k <? 0 then aneg (nsmul (Z.to_nat (- k)) P) else nsmul (Z.to_nat k) P.

  Section Laws.
    Hypothesis affine_law_is_group : abelian_group.
    Let assoc := ag_assoc affine_law_is_group.
    Let comm := ag_comm affine_law_is_group.
    Let zero_l := ag_zero_l affine_law_is_group.
    Let neg_l := ag_neg_l affine_law_is_group.

    Lemma zero_r x : aadd x azero = x.
    Proof. rewrite comm. apply zero_l. Qed.
    Lemma neg_r x : aadd x (aneg x) = azero.
    Proof. rewrite comm. apply neg_l. Qed.
    Lemma add_cancel_l x y z : aadd x y = aadd x z -> y = z.
    Proof.
      intros H. rewrite <- (zero_l y), <- (zero_l z), <- (neg_l x), <- !assoc, H. reflexivity.
    Qed.
    Lemma neg_unique x y : aadd x y = azero -> y = aneg x.
    Proof. intros H. apply (add_cancel_l x). rewrite H, neg_r. reflexivity. Qed.
    Lemma neg_zero : aneg azero = azero.
    Proof. symmetry. apply neg_unique. apply zero_l. Qed.
    Lemma neg_neg x : aneg (aneg x) = x.
    Proof. symmetry. apply neg_unique. apply neg_l. Qed.
    Lemma add_shuffle a b c d : aadd (aadd a b) (aadd c d) = aadd (aadd a c) (aadd b d).
    Proof.
      rewrite <- (assoc a b), (assoc b c d), (comm b c), <- (assoc c b d), (assoc a c). reflexivity.
    Qed.
    Lemma neg_add x y : aneg (aadd x y) = aadd (aneg x) (aneg y).
    Proof.
      symmetry. apply neg_unique. rewrite add_shuffle, !neg_r. apply zero_l.
    Qed.

    Lemma smul_0 P : smul 0 P = azero.
    Proof. reflexivity. Qed.
    Lemma smul_1 P : smul 1 P = P.
    Proof. unfold smul. cbn. apply zero_r. Qed.

    Lemma smul_succ k P : smul (k + 1) P = aadd P (smul k P).
    Proof.
      unfold smul. destruct (Z.ltb_spec k 0) as [Hk|Hk].
      - destruct (Z.ltb_spec (k + 1) 0) as [Hk1|Hk1].
        + replace (Z.to_nat (- k)) with (S (Z.to_nat (- (k + 1)))) by lia.
          cbn [nsmul]. rewrite neg_add, assoc, neg_r, zero_l. reflexivity.
        + assert (k = -1) by lia. subst k. change (-1 + 1) with 0. change (Z.to_nat (- -1)) with 1%nat. change (Z.to_nat 0) with 0%nat. cbn [nsmul]. rewrite zero_r, neg_r. reflexivity.
      - destruct (Z.ltb_spec (k + 1) 0) as [Hk1|Hk1]; [lia|].
        replace (Z.to_nat (k + 1)) with (S (Z.to_nat k)) by lia. reflexivity.
    Qed.
    Lemma smul_pred k P : smul (k - 1) P = aadd (aneg P) (smul k P).
    Proof.
      replace k with ((k - 1) + 1) at 2 by lia. rewrite smul_succ, assoc, neg_l, zero_l. reflexivity.
    Qed.

    Lemma smul_add a b P : smul (a + b) P = aadd (smul a P) (smul b P).
    Proof.
      revert a. apply (Z.peano_ind (fun a => smul (a + b) P = aadd (smul a P) (smul b P))).
      - rewrite Z.add_0_l, smul_0, zero_l. reflexivity.
      - intros a IH. unfold Z.succ. replace (a + 1 + b) with ((a + b) + 1) by lia.
        rewrite !smul_succ, IH, assoc. reflexivity.
      - intros a IH. unfold Z.pred. replace (a + -1 + b) with ((a + b) - 1) by lia.
        replace (a + -1) with (a - 1) by lia. rewrite !smul_pred, IH, assoc. reflexivity.
    Qed.
    Lemma smul_neg a P : smul (- a) P = aneg (smul a P).
    Proof.
      apply neg_unique. rewrite <- smul_add. replace (a + - a) with 0 by lia. reflexivity.
    Qed.
    Lemma smul_sub a b P : smul (a - b) P = aadd (smul a P) (aneg (smul b P)).
    Proof. unfold Z.sub. rewrite smul_add, smul_neg. reflexivity. Qed.
    Lemma smul_zero_r k : smul k azero = azero.
    Proof.
      revert k. apply Z.peano_ind.
      - reflexivity.
      - intros k IH. unfold Z.succ. rewrite smul_succ, IH. apply zero_l.
      - intros k IH. unfold Z.pred. replace (k + -1) with (k - 1) by lia.
        rewrite smul_pred, IH, neg_zero. apply zero_l.
    Qed.
    Lemma smul_add_r k P Q : smul k (aadd P Q) = aadd (smul k P) (smul k Q).
    Proof.
      revert k. apply Z.peano_ind.
      - rewrite !smul_0, zero_l. reflexivity.
      - intros k IH. unfold Z.succ. rewrite !smul_succ, IH. apply add_shuffle.
      - intros k IH. unfold Z.pred. replace (k + -1) with (k - 1) by lia.
        rewrite !smul_pred, IH, neg_add. apply add_shuffle.
    Qed.
    Lemma smul_neg_r k P : smul k (aneg P) = aneg (smul k P).
    Proof.
      apply neg_unique. rewrite <- smul_add_r, neg_r. apply smul_zero_r.
    Qed.
    Lemma smul_mul a b P : smul (a * b) P = smul a (smul b P).
    Proof.
      revert a. apply Z.peano_ind.
      - reflexivity.
      - intros a IH. unfold Z.succ. replace ((a + 1) * b) with (b + a * b) by lia.
        rewrite smul_add, smul_succ, IH. reflexivity.
      - intros a IH. unfold Z.pred. replace ((a + -1) * b) with (- b + a * b) by lia.
        replace (a + -1) with (a - 1) by lia. rewrite smul_add, smul_pred, IH, smul_neg. reflexivity.
    Qed.
    Lemma smul_double k P : aadd (smul k P) (smul k P) = smul (2 * k) P.
    Proof. rewrite <- smul_add. f_equal. lia. Qed.
    Lemma smul_add_1 k P : aadd (smul k P) P = smul (k + 1) P.
    Proof. rewrite smul_succ. apply comm. Qed.

    (* scalars act modulo the order of the point *)
    Lemma smul_mod r k P : smul r P = azero -> smul (k mod r) P = smul k P.
    Proof.
      intros Hr. destruct (Z.eq_dec r 0) as [->|Hnz].
      - rewrite Zmod_0_r. reflexivity.
      - rewrite (Z.div_mod k r Hnz) at 2. rewrite smul_add, Z.mul_comm, smul_mul, Hr, smul_zero_r, zero_l.
        reflexivity.
    Qed.
    Lemma smul_congr r a b P : smul r P = azero -> a mod r = b mod r -> smul a P = smul b P.
    Proof. intros Hr H. rewrite <- (smul_mod r a P Hr), <- (smul_mod r b P Hr), H. reflexivity. Qed.
  End Laws.

  (* the representation-level operations compute the group law *)
  Record realises {R B : Type} (Ops : Gops R B) (phi : R -> A) (phib : B -> A) : Prop := mkRealises {
    r_zero : phi (gzero Ops) = azero;
    r_add : forall x y, phi (gadd Ops x y) = aadd (phi x) (phi y);
    r_sub : forall x y, phi (gsub Ops x y) = aadd (phi x) (aneg (phi y));
    r_addb : forall x b, phi (gaddb Ops x b) = aadd (phi x) (phib b);
    r_dbl : forall x, phi (gdbl Ops x) = aadd (phi x) (phi x);
    r_neg : forall x, phi (gneg Ops x) = aneg (phi x);
    r_negb : forall b, phib (gnegb Ops b) = aneg (phib b);
    r_ofb : forall b, phi (gofb Ops b) = phib b;
    r_tob : forall x, phib (gtob Ops x) = phi x;
    r_norm : forall l, map phib (gnorm Ops l) = map phi l;
    r_addbb : forall a b, phi (gaddbb Ops a b) = aadd (phib a) (phib b)
  }.
End Group.

(* the integers under addition: a model of every hypothesis (used by the Examples) *)
Definition ZGops : Gops Z Z :=
  mkGops Z Z 0 Z.add Z.sub Z.add (fun x => x + x) Z.opp Z.opp (fun x => x) (fun x => x) (fun l => l) Z.add.
Lemma Z_abelian_group : abelian_group Z.add Z.opp 0.
Proof. constructor; intros; lia. Qed.
Lemma ZGops_realises : realises Z.add Z.opp 0 ZGops (fun x => x) (fun x => x).
Proof. constructor; intros; cbn; try lia; try reflexivity. Qed.
Lemma Z_smul k P : smul Z.add Z.opp 0 k P = k * P.
Proof.
  revert k. apply Z.peano_ind.
  - reflexivity.
  - intros k IH. unfold Z.succ. rewrite (smul_succ _ _ _ Z_abelian_group), IH. lia.
  - intros k IH. unfold Z.pred. replace (k + -1) with (k - 1) by lia.
    rewrite (smul_pred _ _ _ Z_abelian_group), IH. lia.
Qed.
