(* Uniform case interpreter for C04.  Argument layout of every case:
     a[0] = [cfg_id]                  (used by the Rust harness only)
     a[1] = [p; deg; nr]              base field F_p, F_p[u]/(u^2-nr), F_p[u]/(u^3-nr)
     a[2] = coefficient a             (coordinates)
     a[3] = coefficient b (SW) / d (TE)
     a[4] = [r; N; modbits; ovr]      scalar field: modulus, limbs, MODULUS_BIT_SIZE;
                                      ovr = 1: the curve crate overrides mul_projective with GLV
     a[5] = [lambda; n11; n12; n21; n22]  GLV parameters (signed) or []
     a[6] = beta                      ENDO_COEFFS[0] (coordinates) or []
     a[7..] operands.
   Projective operands are raw coordinates; results are affine coordinates (+ infinity flag for
   short Weierstrass).  Opcodes 1..19: short Weierstrass, 21..39: twisted Edwards. *)
From V Require Import Base.Field C03.CurveExec C15.BigIntModel
  C04.GroupOps C04.ScalarMul C04.Wnaf C04.Glv C04.FixedBase.

Definition ok (r : list (list Z)) : list (list Z) := [0] :: r.
Definition panic : list (list Z) := [[2]].
Definition unsupported : list (list Z) := [[9]].
Definition arg (n : nat) (a : list (list Z)) : list Z := nth n a [].
Definition arg0 (n : nat) (a : list (list Z)) : Z := hd 0 (arg n a).

(* all results present -> ok, some `into_affine` failed -> panic *)
Fixpoint sequence {A : Type} (l : list (option A)) : option (list A) :=
  match l with
  | [] => Some []
  | Some x :: t => match sequence t with Some r => Some (x :: r) | None => None end
  | None :: _ => None
  end.
Definition ok_opt (l : list (option (list Z))) : list (list Z) :=
  match sequence l with Some r => ok r | None => panic end.

Section RunG.
  Context {R B : Type} (Ops : Gops R B).
  Variable parse : list Z -> R.            (* raw projective coordinates *)
  Variable outb : B -> list Z.
  Variable tob : R -> option B.            (* into_affine; None = it panics *)
  Variable endo : R -> R.
  Variable endob : B -> B.

  Definition outr (P : R) : option (list Z) := option_map outb (tob P).

  Definition run_grp (op : Z) (args : list (list Z)) : list (list Z) :=
    let sc := arg 4 args in
    let r := nth 0 sc 0 in
    let N := Z.to_nat (nth 1 sc 0) in
    let modbits := nth 2 sc 0 in
    let ovr := negb (nth 3 sc 0 =? 0) in
    let gl := arg 5 args in
    let n11 := nth 1 gl 0 in let n12 := nth 2 gl 0 in
    let n21 := nth 3 gl 0 in let n22 := nth 4 gl 0 in
    let a7 := arg 7 args in
    match op with
    | 2 => (* mul_scalar: Projective * s, Affine * s *)
        let k := hd 0 a7 in let P := parse (arg 8 args) in
        match tob P with
        | None => panic
        | Some A =>
            let viaproj := if ovr then mul_bigint_glv Ops endo N r n11 n12 n21 n22 (zlimbs N (k mod r)) P
                           else mul_scalar_proj Ops N r k P in
            (* each result is printed twice: the harness prints R and the API expression 2R - R (a product left in a
               non-canonical internal state, e.g. a stale extended coordinate, shows in the second) *)
            ok_opt [outr viaproj; outr viaproj; outr (mul_scalar_aff Ops N r k A); outr (mul_scalar_aff Ops N r k A)]
        end
    | 3 => (* mul_bigint on a raw limb slice *)
        let P := parse (arg 8 args) in
        match tob P with
        | None => panic
        | Some A =>
            let viaproj := if ovr then mul_bigint_glv Ops endo N r n11 n12 n21 n22 a7 P
                           else mul_bigint_proj Ops a7 P in
            ok_opt [outr viaproj; outr viaproj; outr (mul_bigint_aff Ops a7 A); outr (mul_bigint_aff Ops a7 A)]
        end
    | 4 => ok_opt [outr (mul_bits_be Ops a7 (parse (arg 8 args)))]
    | 5 => (* WnafContext::new(w).table(P) *)
        let w := hd 0 a7 in
        if negb (wnaf_window_ok w) then panic
        else ok_opt (map outr (wnaf_table Ops w (parse (arg 8 args))))
    | 6 => (* WnafContext::new(w).mul(P, k) *)
        let w := hd 0 a7 in let k := arg0 8 args in
        match wnaf_mul Ops w (parse (arg 9 args)) (zlimbs N (k mod r)) with
        | Ok res => ok_opt [outr res]
        | _ => panic
        end
    | 7 => (* table = new(wt).table(P) minus `drop` entries; new(w).mul_with_table(&table, k) *)
        let w := nth 0 a7 0 in let wt := nth 1 a7 0 in let drop := nth 2 a7 0 in
        let k := arg0 8 args in
        if negb (wnaf_window_ok wt) then panic
        else
          let full := wnaf_table Ops wt (parse (arg 9 args)) in
          let table := firstn (length full - Z.to_nat drop) full in
          match wnaf_mul_with_table Ops w table (zlimbs N (k mod r)) with
          | Ok res => ok_opt [Some [1]; outr res]
          | NoneRes => ok [[0]; []]
          | Panic => panic
          end
    | 9 => (* GLVConfig::scalar_decomposition *)
        let '((s1, k1), (s2, k2)) := glv_decomp r n11 n12 n21 n22 (hd 0 a7 mod r) in
        ok [[Z.b2z s1; k1; Z.b2z s2; k2]]
    | 10 => (* glv_mul_projective, glv_mul_affine *)
        let k := hd 0 a7 mod r in let P := parse (arg 8 args) in
        match tob P with
        | None => panic
        | Some A =>
            ok_opt [outr (glv_mul_proj Ops endo N r n11 n12 n21 n22 P k);
                    Some (outb (glv_mul_aff Ops endob N r n11 n12 n21 n22 A k))]
        end
    | 11 => (* BatchMulPreprocessing::{new | with_num_scalars_and_scalar_size} + batch_mul *)
        let ns := nth 0 a7 0 in let mss := nth 1 a7 0 in let use_new := negb (nth 2 a7 0 =? 0) in
        let scalars := map (fun k => zlimbs N (k mod r)) (arg 8 args) in
        match fb_new Ops (parse (arg 9 args)) ns (if use_new then modbits else mss) with
        | Ok t =>
            match fb_batch_mul Ops t modbits scalars with
            | Ok rs => ok ([fb_window t; fb_max_scalar_size t; Z.of_nat (length (fb_rows t))] :: map outb rs)
            | _ => panic
            end
        | _ => panic
        end
    | 12 => (* the table itself, one list per row *)
        let ns := nth 0 a7 0 in let mss := nth 1 a7 0 in
        match fb_new Ops (parse (arg 8 args)) ns mss with
        | Ok t => ok ([fb_window t; fb_max_scalar_size t] :: map (fun row => concat (map outb row)) (fb_rows t))
        | _ => panic
        end
    | 13 => (* ScalarMul::batch_mul *)
        let scalars := map (fun k => zlimbs N (k mod r)) a7 in
        match batch_mul Ops (parse (arg 8 args)) modbits scalars with
        | Ok rs => ok (map outb rs)
        | _ => panic
        end
    | _ => unsupported
    end.
End RunG.

Section RunF.
  Context {T : Type} (F : Fops T).

  Definition field_probe : list (list Z) :=
    let e := fof F (2 :: 1 :: repeat 0 (fdeg F)) in
    [fcoords F (fmul F e e); fcoords F (fmul F (fmul F e e) e)].

  Definition sw_gops (a : T) : Gops (sw_jac (T := T)) (sw_aff (T := T)) :=
    mkGops _ _ (sw_zero F) (sw_add F a) (sw_sub F a) (sw_madd F a) (sw_double F a) (sw_neg F)
           (sw_aff_neg F) (sw_of_affine F) (sw_to_affine F) (sw_normalize_batch F) (sw_aff_add_aff F a).
  Definition te_gops (a d : T) : Gops (te_ext (T := T)) (te_aff (T := T)) :=
    mkGops _ _ (te_zero F) (te_add F a d) (te_sub F a d) (te_madd F a d) (te_double F a) (te_neg F)
           (te_aff_neg F) (te_of_affine F) (te_to_affine F) (te_normalize_batch F) (te_aff_add_aff F a d).

  (* GLVConfig::endomorphism / endomorphism_affine of every shipped configuration: x *= ENDO_COEFFS[0] *)
  Definition sw_endo (beta : T) (P : sw_jac (T := T)) : sw_jac (T := T) :=
    let '(x, y, z) := P in (fmul F x beta, y, z).
  Definition sw_endo_aff (beta : T) (A : sw_aff (T := T)) : sw_aff (T := T) :=
    match A with Some (x, y) => Some (fmul F x beta, y) | None => None end.

  Definition params_echo (args : list (list Z)) (c3 : T) : list (list Z) :=
    ok ([fchar F; Z.of_nat (fdeg F)] :: fcoords F (el F (arg 2 args) 0) :: fcoords F c3
        :: field_probe ++ [firstn 3 (arg 4 args)]).

  Definition run_sw (op : Z) (args : list (list Z)) : list (list Z) :=
    let a := el F (arg 2 args) 0 in
    let b := el F (arg 3 args) 0 in
    let beta := el F (arg 6 args) 0 in
    match op with
    | 1 => params_echo args b
    | 8 => ok [arg 5 args; fcoords F beta; [nth 3 (arg 4 args) 0]]
    | _ => run_grp (sw_gops a) (sw_jac_of_list F) (sw_aff_to_list F)
                   (fun P => Some (sw_to_affine F P)) (sw_endo beta) (sw_endo_aff beta) op args
    end.

  Definition run_te (op : Z) (args : list (list Z)) : list (list Z) :=
    let a := el F (arg 2 args) 0 in
    let d := el F (arg 3 args) 0 in
    match op with
    | 1 => params_echo args d
    | 8 | 9 | 10 => unsupported
    | _ => run_grp (te_gops a d) (te_ext_of_list F) (te_aff_to_list F)
                   (te_to_affine_opt F) (fun P => P) (fun A => A) op args
    end.

  Definition run_gen (op : Z) (args : list (list Z)) : list (list Z) :=
    if op <? 20 then run_sw op args else run_te (op - 20) args.
End RunF.

Definition run_C04 (op : Z) (a : list (list Z)) : list (list Z) :=
  let p := nth 0 (arg 1 a) 0 in
  let deg := nth 1 (arg 1 a) 1 in
  let nr := nth 2 (arg 1 a) 0 in
  match deg with
  | 1 => run_gen (ZpOps p) op a
  | 2 => run_gen (QuadOps (ZpOps p) (nr mod p)) op a
  | 3 => run_gen (CubicOps (ZpOps p) (nr mod p)) op a
  | _ => unsupported
  end.
