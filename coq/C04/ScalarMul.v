(* C04 model: MSB-first double-and-add.
   ec/src/scalar_mul/mod.rs  sw_double_and_add_affine / sw_double_and_add_projective,
   ec/src/models/twisted_edwards/mod.rs  TECurveConfig::mul_affine / mul_projective (the same
   loops), ec/src/lib.rs  PrimeGroup::mul_bits_be, and the call chain
   `Projective * scalar` = `mul_bigint(scalar.into_bigint())` = `P::mul_projective`.
   No proofs in this file. *)
From V Require Import Base.Word C15.BigIntModel C04.GroupOps.

Section ScalarMul.
  Context {R B : Type} (Ops : Gops R B).

  (* for b in bits { res.double_in_place(); if b { res += base } }   base : Projective *)
  Definition da_step_proj (P : R) (res : R) (b : Z) : R :=
    let res := gdbl Ops res in if b =? 0 then res else gadd Ops res P.
  Definition double_and_add_proj (bits : list Z) (P : R) : R :=
    fold_left (da_step_proj P) bits (gzero Ops).

  (* the same loop with an affine base: `res += base` is the mixed addition *)
  Definition da_step_aff (A : B) (res : R) (b : Z) : R :=
    let res := gdbl Ops res in if b =? 0 then res else gaddb Ops res A.
  Definition double_and_add_aff (bits : list Z) (A : B) : R :=
    fold_left (da_step_aff A) bits (gzero Ops).

  (* mul_projective / mul_affine on a raw limb slice of any length:
     BitIteratorBE::without_leading_zeros(scalar) *)
  Definition mul_bigint_proj (limbs : list Z) (P : R) : R :=
    double_and_add_proj (bits_be_nlz limbs) P.
  Definition mul_bigint_aff (limbs : list Z) (A : B) : R :=
    double_and_add_aff (bits_be_nlz limbs) A.

  (* PrimeGroup::mul_bits_be: other.skip_while(|b| !b), then the projective loop *)
  Definition mul_bits_be (bits : list Z) (P : R) : R :=
    double_and_add_proj (skip_zeros bits) P.

  (* `P * s` for s : ScalarField given by an integer k: s = k mod r, into_bigint has N limbs *)
  Definition mul_scalar_proj (N : nat) (r k : Z) (P : R) : R :=
    mul_bigint_proj (zlimbs N (k mod r)) P.
  Definition mul_scalar_aff (N : nat) (r k : Z) (A : B) : R :=
    mul_bigint_aff (zlimbs N (k mod r)) A.
End ScalarMul.
