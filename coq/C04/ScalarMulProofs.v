(* C04 proofs: MSB-first double-and-add = k . P for every bit string / limb slice. *)
From V Require Import Base.Word C15.BigIntModel C15.BitsProofs C04.GroupOps C04.GroupTheory C04.ScalarMul.

(* ---------- bit strings and limb vectors ---------- *)

Definition bfold (v : Z) (bits : list Z) : Z := fold_left (fun v b => 2 * v + b) bits v.

Lemma bval_be_fold bits : bval_be bits = bfold 0 bits.
Proof. reflexivity. Qed.

Lemma bfold_app v l1 l2 : bfold v (l1 ++ l2) = bfold (bfold v l1) l2.
Proof. unfold bfold. apply fold_left_app. Qed.

Lemma bfold_shift : forall bits v, bfold v bits = v * 2 ^ Z.of_nat (length bits) + bfold 0 bits.
Proof.
  induction bits as [|b bits IH]; intros v.
  - cbn. lia.
  - change (bfold v (b :: bits)) with (bfold (2 * v + b) bits).
    change (bfold 0 (b :: bits)) with (bfold (2 * 0 + b) bits).
    rewrite (IH (2 * v + b)), (IH (2 * 0 + b)).
    cbn [length]. rewrite Nat2Z.inj_succ, Z.pow_succ_r by lia. ring.
Qed.

Lemma bval_be_rev l : bval_be (rev l) = dval 1 l.
Proof.
  induction l as [|d l IH]; [reflexivity|].
  cbn [rev dval]. rewrite bval_be_fold, bfold_app, <- bval_be_fold, IH.
  cbn. change (2 ^ 1) with 2. lia.
Qed.

Lemma bval_be_skip_zeros l : bval_be (skip_zeros l) = bval_be l.
Proof.
  induction l as [|b l IH]; [reflexivity|].
  cbn [skip_zeros]. destruct (Z.eqb_spec b 0) as [->|Hb]; [|reflexivity].
  rewrite IH. reflexivity.
Qed.

Lemma skip_zeros_bits l : Forall is_bit l -> Forall is_bit (skip_zeros l).
Proof.
  induction l as [|b l IH]; intros H; [constructor|].
  cbn [skip_zeros]. destruct (b =? 0); [apply IH; inversion H; auto|exact H].
Qed.

Lemma bits_be_nlz_spec a : wf a -> Forall is_bit (bits_be_nlz a) /\ bval_be (bits_be_nlz a) = val a.
Proof.
  intros Ha. destruct (to_bits_le_spec a Ha) as (_ & Hb & Hv & _).
  unfold bits_be_nlz, to_bits_be. split.
  - apply skip_zeros_bits. apply Forall_rev. exact Hb.
  - rewrite bval_be_skip_zeros, bval_be_rev. exact Hv.
Qed.

Lemma to_bits_be_spec a : wf a -> Forall is_bit (to_bits_be a) /\ bval_be (to_bits_be a) = val a /\
  length (to_bits_be a) = (64 * length a)%nat.
Proof.
  intros Ha. destruct (to_bits_le_spec a Ha) as (Hl & Hb & Hv & _). unfold to_bits_be.
  split; [apply Forall_rev; exact Hb|]. split; [rewrite bval_be_rev; exact Hv|].
  rewrite rev_length. exact Hl.
Qed.

Lemma zlimbs_length n k : length (zlimbs n k) = n.
Proof. revert k; induction n as [|n IH]; intros k; cbn [zlimbs length]; [reflexivity|]. rewrite IH. reflexivity. Qed.

Lemma zlimbs_wf n k : wf (zlimbs n k).
Proof.
  revert k; induction n as [|n IH]; intros k; cbn [zlimbs]; [constructor|].
  constructor; [apply mod_u64 | apply IH].
Qed.

Lemma zlimbs_val n k : val (zlimbs n k) = k mod Wn n.
Proof.
  revert k; induction n as [|n IH]; intros k; cbn [zlimbs val].
  - rewrite Wn_0, Z.mod_1_r. reflexivity.
  - rewrite IH, Wn_S. pose proof (Wn_pos n). pose proof W64_pos.
    rewrite Z.rem_mul_r by lia. reflexivity.
Qed.

Lemma zlimbs_val_small n k : 0 <= k < Wn n -> val (zlimbs n k) = k.
Proof. intros H. rewrite zlimbs_val. apply Z.mod_small. exact H. Qed.

Section Proofs.
  Context {A : Type} (aadd : A -> A -> A) (aneg : A -> A) (azero : A).
  Hypothesis affine_law_is_group : abelian_group aadd aneg azero.
  Context {R B : Type} (Ops : Gops R B) (phi : R -> A) (phib : B -> A).
  Hypothesis ops_realise : realises aadd aneg azero Ops phi phib.
  Local Notation smul := (smul aadd aneg azero).
  Let G := affine_law_is_group.

  Lemma da_fold_proj P : forall bits res v, Forall is_bit bits -> phi res = smul v (phi P) ->
    phi (fold_left (da_step_proj Ops P) bits res) = smul (bfold v bits) (phi P).
  Proof.
    induction bits as [|b bits IH]; intros res v Hb Hres; [exact Hres|].
    inversion Hb as [|? ? Hb0 Hb']; subst.
    cbn [fold_left]. change (bfold v (b :: bits)) with (bfold (2 * v + b) bits).
    apply IH; [exact Hb'|].
    unfold da_step_proj. destruct Hb0 as [->| ->]; cbn [Z.eqb].
    - rewrite (r_dbl _ _ _ _ _ _ ops_realise), Hres, (smul_double _ _ _ G). f_equal. lia.
    - rewrite (r_add _ _ _ _ _ _ ops_realise), (r_dbl _ _ _ _ _ _ ops_realise), Hres,
        (smul_double _ _ _ G), (smul_add_1 _ _ _ G). reflexivity.
  Qed.

  Lemma da_fold_aff Q : forall bits res v, Forall is_bit bits -> phi res = smul v (phib Q) ->
    phi (fold_left (da_step_aff Ops Q) bits res) = smul (bfold v bits) (phib Q).
  Proof.
    induction bits as [|b bits IH]; intros res v Hb Hres; [exact Hres|].
    inversion Hb as [|? ? Hb0 Hb']; subst.
    cbn [fold_left]. change (bfold v (b :: bits)) with (bfold (2 * v + b) bits).
    apply IH; [exact Hb'|].
    unfold da_step_aff. destruct Hb0 as [->| ->]; cbn [Z.eqb].
    - rewrite (r_dbl _ _ _ _ _ _ ops_realise), Hres, (smul_double _ _ _ G). f_equal. lia.
    - rewrite (r_addb _ _ _ _ _ _ ops_realise), (r_dbl _ _ _ _ _ _ ops_realise), Hres,
        (smul_double _ _ _ G), (smul_add_1 _ _ _ G). reflexivity.
  Qed.

  (* the loop on an arbitrary bit string *)
  Theorem double_and_add_bits_spec bits P : Forall is_bit bits ->
    phi (double_and_add_proj Ops bits P) = smul (bval_be bits) (phi P).
  Proof.
    intros Hb. unfold double_and_add_proj. apply da_fold_proj; [exact Hb|].
    rewrite (r_zero _ _ _ _ _ _ ops_realise). reflexivity.
  Qed.
  Theorem double_and_add_aff_bits_spec bits Q : Forall is_bit bits ->
    phi (double_and_add_aff Ops bits Q) = smul (bval_be bits) (phib Q).
  Proof.
    intros Hb. unfold double_and_add_aff. apply da_fold_aff; [exact Hb|].
    rewrite (r_zero _ _ _ _ _ _ ops_realise). reflexivity.
  Qed.

  (* mul_projective / mul_affine on every limb slice: any length, leading zero limbs, any value *)
  Theorem double_and_add_spec limbs P : wf limbs ->
    phi (mul_bigint_proj Ops limbs P) = smul (val limbs) (phi P).
  Proof.
    intros Hw. destruct (bits_be_nlz_spec limbs Hw) as [Hb Hv].
    unfold mul_bigint_proj. rewrite double_and_add_bits_spec, Hv by exact Hb. reflexivity.
  Qed.
  Theorem double_and_add_affine_spec limbs Q : wf limbs ->
    phi (mul_bigint_aff Ops limbs Q) = smul (val limbs) (phib Q).
  Proof.
    intros Hw. destruct (bits_be_nlz_spec limbs Hw) as [Hb Hv].
    unfold mul_bigint_aff. rewrite double_and_add_aff_bits_spec, Hv by exact Hb. reflexivity.
  Qed.

  Theorem mul_bits_be_spec bits P : Forall is_bit bits ->
    phi (mul_bits_be Ops bits P) = smul (bval_be bits) (phi P).
  Proof.
    intros Hb. unfold mul_bits_be.
    rewrite double_and_add_bits_spec, bval_be_skip_zeros by (apply skip_zeros_bits; exact Hb). reflexivity.
  Qed.

  (* `P * s`, s the field element of the integer k *)
  Theorem mul_scalar_spec N r k P : 0 < r <= Wn N ->
    phi (mul_scalar_proj Ops N r k P) = smul (k mod r) (phi P).
  Proof.
    intros Hr. unfold mul_scalar_proj. rewrite double_and_add_spec by apply zlimbs_wf.
    rewrite zlimbs_val_small; [reflexivity|]. pose proof (Z.mod_pos_bound k r ltac:(lia)). lia.
  Qed.
  Theorem mul_scalar_aff_spec N r k Q : 0 < r <= Wn N ->
    phi (mul_scalar_aff Ops N r k Q) = smul (k mod r) (phib Q).
  Proof.
    intros Hr. unfold mul_scalar_aff. rewrite double_and_add_affine_spec by apply zlimbs_wf.
    rewrite zlimbs_val_small; [reflexivity|]. pose proof (Z.mod_pos_bound k r ltac:(lia)). lia.
  Qed.
  Corollary mul_scalar_order_spec N r k P : 0 < r <= Wn N -> smul r (phi P) = azero ->
    phi (mul_scalar_proj Ops N r k P) = smul k (phi P).
  Proof. intros Hr Ho. rewrite mul_scalar_spec by exact Hr. apply (smul_mod _ _ _ G); exact Ho. Qed.
End Proofs.
