(* C04 model: ec/src/scalar_mul/wnaf.rs  WnafContext::{new, table, mul, mul_with_table}.
   The digit string comes from BigInteger::find_wnaf (model: C15.BigIntModel.find_wnaf).
   No proofs in this file. *)
From V Require Import Base.Word C15.BigIntModel C04.GroupOps.

Section Wnaf.
  Context {R B : Type} (Ops : Gops R B).

  (* WnafContext::new: assert!(window_size >= 2); assert!(window_size < 64) *)
  Definition wnaf_window_ok (w : Z) : bool := (2 <=? w) && (w <? 64).

  (* table: dbl = base.double(); repeat 2^(w-1) times { push(base); base += &dbl } *)
  Fixpoint wnaf_table_aux (n : nat) (base dbl : R) : list R :=
    match n with
    | O => []
    | S n' => base :: wnaf_table_aux n' (gadd Ops base dbl) dbl
    end.
  Definition wnaf_table (w : Z) (base : R) : list R :=
    wnaf_table_aux (Z.to_nat (2 ^ (w - 1))) base (gdbl Ops base).

  (* one iteration of `for n in scalar_wnaf.iter().rev()`; state = (result, found_non_zero);
     None = index out of the table (a Rust panic) *)
  Definition wnaf_step (table : list R) (st : option (R * bool)) (n : Z) : option (R * bool) :=
    match st with
    | None => None
    | Some (res, found) =>
        let res := if found then gdbl Ops res else res in
        if n =? 0 then Some (res, found)
        else
          (* n > 0: base_table[(n / 2) as usize];  n < 0: base_table[((-n) / 2) as usize] *)
          match nth_error table (Z.to_nat (Z.abs n / 2)) with
          | None => None
          | Some t => Some (if 0 <? n then gadd Ops res t else gsub Ops res t, true)
          end
    end.

  Definition wnaf_mul_with_table (w : Z) (table : list R) (limbs : list Z) : outcome R :=
    if negb (wnaf_window_ok w) then Panic
    else if Z.of_nat (length table) <? 2 ^ (w - 1) then NoneRes
    else
      match find_wnaf limbs w with
      | WnafDigits ds =>
          match fold_left (wnaf_step table) (rev ds) (Some (gzero Ops, false)) with
          | Some (res, _) => Ok res
          | None => Panic
          end
      | _ => Panic                       (* find_wnaf(..).unwrap() *)
      end.

  (* WnafContext::mul: table(g) then mul_with_table(..).unwrap() *)
  Definition wnaf_mul (w : Z) (g : R) (limbs : list Z) : outcome R :=
    if negb (wnaf_window_ok w) then Panic
    else
      match wnaf_mul_with_table w (wnaf_table w g) limbs with
      | Ok res => Ok res
      | _ => Panic
      end.
End Wnaf.
