(* C04 proofs: WnafContext::{table, mul_with_table, mul}. *)
From V Require Import Base.Word C15.BigIntModel C15.RecodeProofs
  C04.GroupOps C04.GroupTheory C04.ScalarMul C04.ScalarMulProofs C04.Wnaf.

Definition dfold (v : Z) (ds : list Z) : Z := fold_left (fun v d => 2 * v + d) ds v.

Lemma deval_rev ds : deval ds = dfold 0 (rev ds).
Proof.
  induction ds as [|d ds IH]; [reflexivity|].
  cbn [rev deval]. unfold dfold in *. rewrite fold_left_app. cbn [fold_left]. rewrite <- IH. lia.
Qed.

Lemma pow2_pos e : 0 <= e -> 0 < 2 ^ e.
Proof. intros. apply Z.pow_pos_nonneg; lia. Qed.

Section Proofs.
  Context {A : Type} (aadd : A -> A -> A) (aneg : A -> A) (azero : A).
  Hypothesis affine_law_is_group : abelian_group aadd aneg azero.
  Context {R B : Type} (Ops : Gops R B) (phi : R -> A) (phib : B -> A).
  Hypothesis ops_realise : realises aadd aneg azero Ops phi phib.
  Local Notation smul := (smul aadd aneg azero).
  Let G := affine_law_is_group.

  (* entry i of the table is (2 i + 1) . X *)
  Definition table_ok (X : A) (table : list R) : Prop :=
    forall i t, nth_error table i = Some t -> phi t = smul (2 * Z.of_nat i + 1) X.

  Lemma wnaf_table_aux_spec X : forall n base dbl j, phi base = smul (2 * j + 1) X -> phi dbl = smul 2 X ->
    length (wnaf_table_aux Ops n base dbl) = n /\
    forall i t, nth_error (wnaf_table_aux Ops n base dbl) i = Some t -> phi t = smul (2 * (j + Z.of_nat i) + 1) X.
  Proof.
    induction n as [|n IH]; intros base dbl j Hb Hd; cbn [wnaf_table_aux].
    - split; [reflexivity|]. intros [|i] t H; discriminate.
    - assert (Hn : phi (gadd Ops base dbl) = smul (2 * (j + 1) + 1) X).
      { rewrite (r_add _ _ _ _ _ _ ops_realise), Hb, Hd, <- (smul_add _ _ _ G). f_equal. lia. }
      destruct (IH _ dbl (j + 1) Hn Hd) as [Hl Hi]. split; [cbn [length]; rewrite Hl; reflexivity|].
      intros [|i] t H; cbn [nth_error] in H.
      + injection H as <-. rewrite Hb. f_equal. lia.
      + rewrite (Hi i t H). f_equal. lia.
  Qed.

  (* WnafContext::table: 2^(w-1) entries, the odd multiples 1, 3, 5, ... of the base *)
  Theorem wnaf_table_spec w base : 1 <= w ->
    Z.of_nat (length (wnaf_table Ops w base)) = 2 ^ (w - 1) /\ table_ok (phi base) (wnaf_table Ops w base).
  Proof.
    intros Hw. unfold wnaf_table.
    destruct (wnaf_table_aux_spec (phi base) (Z.to_nat (2 ^ (w - 1))) base (gdbl Ops base) 0) as [Hl Hi].
    - rewrite (smul_1 _ _ _ G). reflexivity.
    - rewrite (r_dbl _ _ _ _ _ _ ops_realise). rewrite <- (smul_1 _ _ _ G (phi base)) at 1 2.
      rewrite (smul_double _ _ _ G). reflexivity.
    - split.
      + rewrite Hl. pose proof (pow2_pos (w - 1) ltac:(lia)). lia.
      + intros i t H. rewrite (Hi i t H). f_equal.
  Qed.

  Lemma digit_index w d : 1 <= w -> digit_ok w d -> d <> 0 ->
    0 <= Z.abs d / 2 < 2 ^ (w - 1) /\ Z.abs d = 2 * (Z.abs d / 2) + 1.
  Proof.
    intros Hw [->|[Hodd Hb]] Hnz; [congruence|].
    pose proof (Z.div_mod (Z.abs d) 2 ltac:(lia)) as H1.
    pose proof (Z.mod_pos_bound (Z.abs d) 2 ltac:(lia)) as H2.
    pose proof (Z.div_mod d 2 ltac:(lia)) as H3.
    assert (Z.abs d mod 2 = 1).
    { destruct (Z.abs_spec d) as [[_ ->]|[_ ->]]; [exact Hodd|].
      replace (- d) with (1 + (- (d / 2) - 1) * 2) by lia. rewrite Z.mod_add by lia. reflexivity. }
    split; [|lia]. split; [apply Z.div_pos; lia|].
    apply Z.div_lt_upper_bound; lia.
  Qed.

  Lemma wnaf_fold w X table : 1 <= w -> 2 ^ (w - 1) <= Z.of_nat (length table) -> table_ok X table ->
    forall l res found v, Forall (digit_ok w) l -> phi res = smul v X -> (found = false -> v = 0) ->
    exists res' f', fold_left (wnaf_step Ops table) l (Some (res, found)) = Some (res', f') /\
                    phi res' = smul (dfold v l) X.
  Proof.
    intros Hw Hlen Htab. induction l as [|d l IH]; intros res found v Hd Hres Hf.
    - exists res, found. split; [reflexivity|exact Hres].
    - inversion Hd as [|? ? Hd0 Hd']; subst. cbn [fold_left].
      change (dfold v (d :: l)) with (dfold (2 * v + d) l).
      set (res1 := if found then gdbl Ops res else res).
      assert (Hres1 : phi res1 = smul (2 * v) X).
      { unfold res1. destruct found.
        - rewrite (r_dbl _ _ _ _ _ _ ops_realise), Hres. apply (smul_double _ _ _ G).
        - rewrite (Hf eq_refl) in *. exact Hres. }
      unfold wnaf_step. fold res1. destruct (Z.eqb_spec d 0) as [->|Hnz].
      + apply IH; [exact Hd'| |].
        * rewrite Hres1. f_equal. lia.
        * intros Hff. specialize (Hf Hff). lia.
      + destruct (digit_index w d Hw Hd0 Hnz) as [Hidx Habs].
        destruct (nth_error table (Z.to_nat (Z.abs d / 2))) as [t|] eqn:Hnth.
        2:{ apply nth_error_None in Hnth. lia. }
        pose proof (Htab _ _ Hnth) as Ht. rewrite Z2Nat.id in Ht by lia. rewrite <- Habs in Ht.
        apply IH; [exact Hd'| |discriminate].
        destruct (Z.ltb_spec 0 d) as [Hpos|Hneg].
        * rewrite (r_add _ _ _ _ _ _ ops_realise), Hres1, Ht, <- (smul_add _ _ _ G). f_equal. lia.
        * rewrite (r_sub _ _ _ _ _ _ ops_realise), Hres1, Ht, <- (smul_sub _ _ _ G). f_equal. lia.
  Qed.

  (* mul_with_table = k . P for every window 2 <= w < 64, every table that is long enough and holds
     the odd multiples (fresh, precomputed, or longer than needed), every scalar *)
  Theorem wnaf_mul_spec w table limbs X : 2 <= w < 64 -> wf limbs ->
    2 ^ (w - 1) <= Z.of_nat (length table) -> table_ok X table ->
    exists res, wnaf_mul_with_table Ops w table limbs = Ok res /\ phi res = smul (val limbs) X.
  Proof.
    intros Hw Hwf Hlen Htab. unfold wnaf_mul_with_table, wnaf_window_ok.
    replace ((2 <=? w) && (w <? 64)) with true by (symmetry; apply andb_true_iff; split; [apply Z.leb_le|apply Z.ltb_lt]; lia).
    cbn [negb]. destruct (Z.ltb_spec (Z.of_nat (length table)) (2 ^ (w - 1))) as [Hlt|_]; [lia|].
    destruct (find_wnaf_spec limbs w Hwf Hw) as (ds & -> & Hval & Hdig & _).
    destruct (wnaf_fold w X table ltac:(lia) Hlen Htab (rev ds) (gzero Ops) false 0) as (res & f & Hfold & Hphi).
    - apply Forall_rev. exact Hdig.
    - rewrite (r_zero _ _ _ _ _ _ ops_realise). reflexivity.
    - reflexivity.
    - rewrite Hfold. exists res. split; [reflexivity|]. rewrite Hphi, <- deval_rev, Hval. reflexivity.
  Qed.

  (* a table shorter than 2^(w-1) entries (e.g. one entry short) is rejected *)
  Theorem wnaf_short_table w table limbs : 2 <= w < 64 -> Z.of_nat (length table) < 2 ^ (w - 1) ->
    wnaf_mul_with_table Ops w table limbs = NoneRes.
  Proof.
    intros Hw Hlen. unfold wnaf_mul_with_table, wnaf_window_ok.
    replace ((2 <=? w) && (w <? 64)) with true by (symmetry; apply andb_true_iff; split; [apply Z.leb_le|apply Z.ltb_lt]; lia).
    cbn [negb]. destruct (Z.ltb_spec (Z.of_nat (length table)) (2 ^ (w - 1))); [reflexivity|lia].
  Qed.

  (* WnafContext::new rejects windows outside [2, 64) *)
  Theorem wnaf_bad_window w table limbs : ~ (2 <= w < 64) -> wnaf_mul_with_table Ops w table limbs = Panic.
  Proof.
    intros Hw. unfold wnaf_mul_with_table, wnaf_window_ok.
    replace ((2 <=? w) && (w <? 64)) with false; [reflexivity|].
    symmetry. apply andb_false_iff. destruct (Z.leb_spec 2 w); [right; apply Z.ltb_ge; lia|left; reflexivity].
  Qed.

  (* WnafContext::mul with a fresh table *)
  Theorem wnaf_mul_fresh_spec w limbs P : 2 <= w < 64 -> wf limbs ->
    exists res, wnaf_mul Ops w P limbs = Ok res /\ phi res = smul (val limbs) (phi P).
  Proof.
    intros Hw Hwf. destruct (wnaf_table_spec w P ltac:(lia)) as [Hl Ht].
    destruct (wnaf_mul_spec w (wnaf_table Ops w P) limbs (phi P) Hw Hwf ltac:(lia) Ht) as (res & He & Hp).
    exists res. split; [|exact Hp]. unfold wnaf_mul, wnaf_window_ok.
    replace ((2 <=? w) && (w <? 64)) with true by (symmetry; apply andb_true_iff; split; [apply Z.leb_le|apply Z.ltb_lt]; lia).
    cbn [negb]. rewrite He. reflexivity.
  Qed.
End Proofs.
