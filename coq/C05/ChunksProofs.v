(* C05 -- msm_chunks: the chunk loop equals one MSM over the scalars and the LAST len(scalars)
   bases, for every chunk size. *)
From V Require Import Base.Word C15.BitsProofs C05.MsmModel C05.GroupProofs C05.DigitsProofs C05.MsmProofs.
Require Import Lia.

Lemma combine_skipn {X Y} n : forall (l : list X) (m : list Y),
  skipn n (combine l m) = combine (skipn n l) (skipn n m).
Proof.
  induction n as [|n IH]; intros [|x l] [|y m]; cbn [skipn combine]; try reflexivity.
  - destruct (skipn n l); reflexivity.
  - apply IH.
Qed.

Section ChunksProofs.
  Context {G B A : Type} (GO : Gops G B) (add : A -> A -> A) (neg : A -> A) (zero : A)
          (den : G -> A) (denB : B -> A).
  Hypothesis grp : group_laws add neg zero.
  Hypothesis hom : gops_hom GO add neg zero den denB.
  Local Notation msm_sum_z := (msm_sum_z add neg zero denB).

  Lemma msm_sum_z_split n ks bs :
    msm_sum_z ks bs = add (msm_sum_z (firstn n ks) (firstn n bs)) (msm_sum_z (skipn n ks) (skipn n bs)).
  Proof.
    unfold MsmProofs.msm_sum_z. rewrite <- (msum_app _ _ _ grp), <- map_app, <- combine_firstn, <- combine_skipn.
    rewrite firstn_skipn. reflexivity.
  Qed.

  Lemma chunks_loop_spec cheap nb N step : 1 <= nb <= 64 * Z.of_nat N -> 0 < step ->
    forall n bs ks res, length bs = length ks -> len ks <= Z.of_nat n * step -> len ks < 2 ^ 64 ->
    Forall (fun k => 0 <= k < 2 ^ nb) ks ->
    exists g, chunks_loop GO cheap nb N step n bs ks res = Ok g /\ den g = add (den res) (msm_sum_z ks bs).
  Proof.
    intros Hnb Hstep. induction n as [|n IH]; intros bs ks res Hl Hn Hb HF; cbn [chunks_loop].
    - exists res. split; [reflexivity|]. destruct ks; [|unfold len in Hn; cbn in Hn; lia].
      unfold MsmProofs.msm_sum_z. cbn. symmetry. apply (add_0_r _ _ _ grp).
    - unfold takeZ, dropZ, len in *. rewrite Hl.
      set (a := Z.to_nat (Z.min step (Z.of_nat (length ks)))).
      destruct (msm_sum_limbs add neg zero denB nb N (firstn a ks) (firstn a bs)) as [Hg Hs]; [lia|apply Forall_firstn; exact HF|].
      destruct (msm_bigint_spec GO add neg zero den denB grp hom cheap nb (firstn a bs) (map (to_limbs N) (firstn a ks)))
        as (m & Hm & Hdm); [lia| |exact Hg|].
      { unfold len. rewrite map_length, !firstn_length. lia. }
      rewrite Hm.
      destruct (IH (skipn a bs) (skipn a ks) (gadd GO res m)) as (g & Hg1 & Hg2).
      + rewrite !skipn_length. lia.
      + rewrite skipn_length. unfold a. lia.
      + rewrite skipn_length. lia.
      + apply Forall_skipn. exact HF.
      + exists g. split; [exact Hg1|]. rewrite Hg2, (h_add _ _ _ _ _ _ hom), Hdm, Hs.
        rewrite (msm_sum_z_split a ks bs). apply eq_sym, (g_assoc _ _ _ grp).
  Qed.

  Theorem msm_chunks_spec cheap nb N step bases ks :
    1 <= nb <= 64 * Z.of_nat N -> 0 < step -> len bases < 2 ^ 64 -> Forall (fun k => 0 <= k < 2 ^ nb) ks ->
    (length ks <= length bases)%nat ->
       exists g, msm_chunks GO cheap nb N step bases ks = Ok g /\
                 den g = msm_sum_z ks (skipn (length bases - length ks) bases).
  Proof.
    intros Hnb Hstep Hb HF Hle. unfold msm_chunks, len in *.
    destruct (Z.ltb_spec (Z.of_nat (length bases)) (Z.of_nat (length ks))); [lia|].
    unfold dropZ, len. replace (Z.to_nat (Z.min (Z.of_nat (length bases) - Z.of_nat (length ks)) (Z.of_nat (length bases))))
      with (length bases - length ks)%nat by lia.
    destruct (chunks_loop_spec cheap nb N step Hnb Hstep (Z.to_nat (div_ceil (Z.of_nat (length ks)) step))
                (skipn (length bases - length ks) bases) ks (gzero GO)) as (g & Hg1 & Hg2); auto.
    - rewrite skipn_length. lia.
    - unfold len. destruct (Nat.eq_dec (length ks) 0) as [E|E]; [rewrite E; cbn; unfold div_ceil; cbn; lia|].
      pose proof (DigitsProofs.div_ceil_bounds (Z.of_nat (length ks)) step ltac:(lia) Hstep).
      pose proof (DigitsProofs.div_ceil_pos (Z.of_nat (length ks)) step ltac:(lia) Hstep). rewrite Z2Nat.id by lia. lia.
    - unfold len. lia.
    - exists g. split; [exact Hg1|]. rewrite Hg2, (h_zero _ _ _ _ _ _ hom). apply (g_0_l _ _ _ grp).
  Qed.

  Theorem msm_chunks_assert cheap nb N step bases ks : (length bases < length ks)%nat ->
    msm_chunks GO cheap nb N step bases ks = Panic.
  Proof.
    intros H. unfold msm_chunks, len. destruct (Z.ltb_spec (Z.of_nat (length bases)) (Z.of_nat (length ks))); [reflexivity|lia].
  Qed.
End ChunksProofs.
