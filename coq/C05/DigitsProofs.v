(* C05 -- make_digits: the signed radix-2^w digits (bit extraction across limb borders,
   recentring with carry, carry folded into the last digit) evaluate to the scalar. *)
From V Require Import Base.Word C15.BitsProofs C05.MsmModel C05.GroupProofs.
Require Import Lia.

Local Ltac dm := Z.div_mod_to_equations.

Lemma len_nonneg {X} (l : list X) : 0 <= len l.
Proof. unfold len. lia. Qed.

Lemma limb_u64 s i : wf s -> u64 (limb s i).
Proof.
  intros H. unfold limb. destruct (nth_in_or_default (Z.to_nat i) s 0) as [Hin | Hd]; [|rewrite Hd].
  - unfold wf in H. rewrite Forall_forall in H. auto.
  - unfold u64, W64. lia.
Qed.

Lemma div_ceil_bounds a b : 1 <= a -> 0 < b -> (div_ceil a b - 1) * b < a <= div_ceil a b * b.
Proof.
  intros Ha Hb. unfold div_ceil. destruct (Z.eqb_spec (a mod b) 0) as [E|E]; dm; nia.
Qed.
Lemma div_ceil_pos a b : 1 <= a -> 0 < b -> 1 <= div_ceil a b.
Proof. intros Ha Hb. pose proof (div_ceil_bounds a b Ha Hb). nia. Qed.

(* the low w bits of bit_buf are bits [i*w, i*w + w) of the scalar *)
Lemma window_bits s w i : wf s -> 1 <= w <= 62 -> 0 <= i -> (i * w) / 64 < len s ->
  Z.land (bit_buf s w i) (2 ^ w - 1) = (val s / 2 ^ (i * w)) mod 2 ^ w.
Proof.
  intros Hwf Hw Hi Hidx.
  replace (2 ^ w - 1) with (Z.ones w) by (rewrite Z.ones_equiv; lia).
  rewrite Z.land_ones by lia.
  assert (Ho : 0 <= i * w) by nia.
  set (o := i * w) in *.
  assert (Hk : 0 <= val s < 2 ^ (64 * len s)).
  { pose proof (val_bound s Hwf) as Hb. unfold Wn in Hb. rewrite <- W64_eq, <- Z.pow_mul_r in Hb by lia.
    exact Hb. }
  apply Z.bits_inj'. intros m Hm.
  destruct (Z.ltb_spec m w) as [Hmw|Hmw];
    [| rewrite !Z.mod_pow2_bits_high by lia; reflexivity].
  rewrite !Z.mod_pow2_bits_low by lia.
  rewrite Z.div_pow2_bits by lia.
  unfold bit_buf. fold o.
  assert (Hu : 0 <= o / 64) by (apply Z.div_pos; lia).
  assert (Hb : 0 <= o mod 64 < 64) by (apply Z.mod_pos_bound; lia).
  assert (Hsplit : o = 64 * (o / 64) + o mod 64) by (apply Z.div_mod; lia).
  set (u := o / 64) in *. set (b := o mod 64) in *.
  pose proof (limb_u64 s u Hwf) as Hlu. pose proof (limb_u64 s (1 + u) Hwf) as Hlu1.
  unfold u64 in Hlu, Hlu1. rewrite <- W64_eq in Hlu, Hlu1.
  assert (Hlow : m + b < 64 -> Z.testbit (val s) (m + o) = Z.testbit (limb s u) (m + b)).
  { intros Hlt. rewrite val_testbit by (auto; lia). unfold limb.
    replace ((m + o) / 64) with u by (dm; lia). replace ((m + o) mod 64) with (m + b) by (dm; lia).
    reflexivity. }
  assert (Hhigh : 64 <= m + b -> Z.testbit (val s) (m + o) = Z.testbit (limb s (1 + u)) (m + b - 64)).
  { intros Hge. rewrite val_testbit by (auto; lia). unfold limb.
    replace ((m + o) / 64) with (1 + u) by (dm; lia). replace ((m + o) mod 64) with (m + b - 64) by (dm; lia).
    reflexivity. }
  destruct ((b <? 64 - w) || (u =? len s - 1)) eqn:Hc.
  - rewrite Z.shiftr_spec by lia.
    destruct (Z.ltb_spec (m + b) 64) as [Hlt|Hge]; [symmetry; auto|].
    rewrite (testbit_above (limb s u) 64 (m + b)) by lia.
    apply Bool.orb_true_iff in Hc. destruct Hc as [Hc|Hc]; [apply Z.ltb_lt in Hc; lia|].
    apply Z.eqb_eq in Hc. symmetry. apply (testbit_above _ (64 * len s)); lia.
  - apply Bool.orb_false_iff in Hc. destruct Hc as [Hc1 Hc2].
    apply Z.ltb_ge in Hc1. apply Z.eqb_neq in Hc2.
    rewrite Z.lor_spec, Z.shiftr_spec by lia. rewrite <- W64_eq.
    rewrite Z.mod_pow2_bits_low by lia. rewrite Z.shiftl_spec by lia.
    destruct (Z.ltb_spec (m + b) 64) as [Hlt|Hge].
    + rewrite (Z.testbit_neg_r _ (m - (64 - b))) by lia. rewrite Bool.orb_false_r. symmetry; auto.
    + rewrite (testbit_above (limb s u) 64 (m + b)) by lia. rewrite Bool.orb_false_l.
      replace (m - (64 - b)) with (m + b - 64) by lia. symmetry; auto.
Qed.

Section Loop.
  Variables (s : list Z) (w dc : Z).
  Hypothesis Hwf : wf s.
  Hypothesis Hw : 1 <= w <= 62.
  Hypothesis Hrange : (dc - 1) * w < 64 * len s.

  Definition digit_ok (d : Z) : Prop := - 2 ^ w <= d <= 2 ^ w.

  Lemma digits_loop_spec : forall n i carry, 0 <= carry <= 1 -> 0 <= i -> i + Z.of_nat n = dc ->
    let ds := digits_loop s w dc n i carry in
    length ds = n /\
    (n <> O -> evalc w ds = carry + (val s / 2 ^ (i * w)) mod 2 ^ (w * Z.of_nat n)) /\
    Forall digit_ok ds.
  Proof.
    induction n as [|n IH]; intros i carry Hc Hi Hn; cbn zeta.
    - cbn [digits_loop]. repeat split; [congruence | constructor].
    - cbn [digits_loop].
      assert (Hpw : 0 < 2 ^ w) by (apply Z.pow_pos_nonneg; lia).
      assert (Hhalf : 2 ^ w / 2 = 2 ^ (w - 1)).
      { replace w with (1 + (w - 1)) at 1 by lia. rewrite Z.pow_add_r by lia.
        change (2 ^ 1) with 2. rewrite Z.mul_comm, Z.div_mul by lia. reflexivity. }
      assert (Hdbl : 2 ^ w = 2 * 2 ^ (w - 1)).
      { replace w with (1 + (w - 1)) at 1 by lia. rewrite Z.pow_add_r by lia. reflexivity. }
      assert (Hidx : (i * w) / 64 < len s) by (apply Z.div_lt_upper_bound; nia).
      rewrite (window_bits s w i Hwf Hw Hi Hidx).
      set (K := val s / 2 ^ (i * w)).
      assert (Hwin : 0 <= K mod 2 ^ w < 2 ^ w) by (apply Z.mod_pos_bound; lia).
      set (coef := carry + K mod 2 ^ w) in *.
      rewrite Z.shiftr_div_pow2 by lia. rewrite Hhalf.
      set (carry' := (coef + 2 ^ (w - 1)) / 2 ^ w).
      assert (Hc' : 0 <= carry' <= 1).
      { unfold carry'. split; [apply Z.div_pos; lia|].
        assert ((coef + 2 ^ (w - 1)) / 2 ^ w < 2); [|lia].
        apply Z.div_lt_upper_bound; lia. }
      assert (Hcd : carry' * 2 ^ w <= coef + 2 ^ (w - 1) < carry' * 2 ^ w + 2 ^ w).
      { unfold carry'. dm. nia. }
      rewrite Z.shiftl_mul_pow2 by lia.
      specialize (IH (i + 1) carry' Hc' ltac:(lia) ltac:(lia)). cbn zeta in IH.
      destruct IH as (IHl & IHe & IHf).
      split; [cbn [length]; congruence|]. split.
      + intros _. cbn [evalc fold_right]. fold (evalc w (digits_loop s w dc n (i + 1) carry')).
        destruct n as [|n'].
        * (* last digit: the carry is folded back *)
          cbn [digits_loop evalc fold_right]. replace (i =? dc - 1) with true by (symmetry; apply Z.eqb_eq; lia).
          replace (w * Z.of_nat 1) with w by lia. unfold coef. lia.
        * replace (i =? dc - 1) with false by (symmetry; apply Z.eqb_neq; lia).
          rewrite IHe by congruence.
          replace (val s / 2 ^ ((i + 1) * w)) with (K / 2 ^ w).
          2:{ unfold K. rewrite Z.div_div by (try apply Z.pow_pos_nonneg; nia).
              rewrite <- Z.pow_add_r by nia. f_equal. f_equal. lia. }
          replace (w * Z.of_nat (S (S n'))) with (w + w * Z.of_nat (S n')) by lia.
          rewrite (Z.pow_add_r 2 w) by nia.
          rewrite (Z.rem_mul_r K (2 ^ w)) by (try apply Z.pow_pos_nonneg; nia).
          unfold coef. ring.
      + constructor; [|exact IHf]. unfold digit_ok.
        destruct (i =? dc - 1); unfold coef in *; lia.
  Qed.
End Loop.

(* make_digits_spec: for every limb count, window width 1..62 and bit length covered by the limbs,
   the digits are exactly ceil(num_bits/w) many, evaluate to the scalar in radix 2^w, and every
   |digit| <= 2^w (so bucket index |d| - 1 is below the 2^w buckets); no out-of-bounds read. *)
Theorem make_digits_spec s w nb : wf s -> 1 <= w <= 62 -> 1 <= nb <= 64 * len s -> val s < 2 ^ nb ->
  make_digits s w nb = Some (make_digits_list s w nb) /\
  len (make_digits_list s w nb) = div_ceil nb w /\
  evalc w (make_digits_list s w nb) = val s /\
  Forall (fun d => - 2 ^ w <= d <= 2 ^ w) (make_digits_list s w nb).
Proof.
  intros Hwf Hw Hnb Hk.
  pose proof (div_ceil_bounds nb w ltac:(lia) ltac:(lia)) as Hdc.
  pose proof (div_ceil_pos nb w ltac:(lia) ltac:(lia)) as Hdc1.
  assert (Hcount : digits_count s w nb = div_ceil nb w).
  { unfold digits_count. destruct (Z.eqb_spec nb 0); [lia|reflexivity]. }
  assert (Hrange : (div_ceil nb w - 1) * w < 64 * len s) by lia.
  pose proof (digits_loop_spec s w (div_ceil nb w) Hwf Hw Hrange (Z.to_nat (div_ceil nb w)) 0 0
                ltac:(lia) ltac:(lia) ltac:(lia)) as H.
  cbn zeta in H. destruct H as (Hl & He & Hf).
  unfold make_digits, make_digits_list, digits_oob. rewrite Hcount.
  split.
  - replace (len s <=? (div_ceil nb w - 1) * w / 64) with false; [rewrite Bool.andb_false_r; reflexivity|].
    symmetry. apply Z.leb_gt. apply Z.div_lt_upper_bound; lia.
  - split; [unfold len; rewrite Hl; lia|]. split; [|exact Hf].
    rewrite He by lia. rewrite Z.mul_0_l, Z.pow_0_r, Z.div_1_r, Z.add_0_l.
    rewrite Z2Nat.id by lia. apply Z.mod_small.
    pose proof (val_bound s Hwf). split; [lia|].
    apply Z.lt_le_trans with (2 ^ nb); [lia|]. apply Z.pow_le_mono_r; lia.
Qed.

Example make_digits_example :
  make_digits [18446744073709551615; 9223372036854775807] 5 127 =
  Some [-1; 0; 0; 0; 0; 0; 0; 0; 0; 0; 0; 0; 0; 0; 0; 0; 0; 0; 0; 0; 0; 0; 0; 0; 0; 4].
Proof. vm_compute. reflexivity. Qed.
