(* C05 -- the accumulator theorems instantiated with the modelled msm_bigint, and the
   non-vacuity instances used by the Examples of Props/C05.v. *)
From V Require Import Base.Word C05.MsmModel C05.StreamModel C05.GroupProofs C05.DigitsProofs
  C05.MsmProofs C05.StreamProofs.
Require Import Lia.

Section Final.
  Context {G B A : Type} (GO : Gops G B) (add : A -> A -> A) (neg : A -> A) (zero : A)
          (den : G -> A) (denB : B -> A).
  Hypothesis grp : group_laws add neg zero.
  Hypothesis hom : gops_hom GO add neg zero den denB.

  Lemma msm_bigint_ok cheap nb : 1 <= nb -> forall bs ss, length bs = length ss -> len ss < 2 ^ 64 ->
    Forall (good_scalar nb) ss ->
    exists g, msm_bigint GO cheap nb bs ss = Ok g /\ den g = msm_sum add neg zero denB ss bs.
  Proof.
    intros Hnb bs ss Hl Hb HF. apply (msm_bigint_spec GO add neg zero den denB grp hom); auto.
    unfold len in *. lia.
  Qed.

  Theorem chunked_msm_refines_sum cheap nb size ops :
    1 <= nb -> len ops < 2 ^ 64 -> Forall (fun p => good_scalar nb (snd p)) ops ->
    exists g, cp_run GO (msm_bigint GO cheap nb) size ops = Ok g /\
              den g = hist add neg zero denB ops.
  Proof.
    intros Hnb Hb HF.
    apply (chunked_refines_sum GO add neg zero den denB grp hom (msm_bigint GO cheap nb) (good_scalar nb)); auto.
    apply msm_bigint_ok. exact Hnb.
  Qed.

  Theorem hashmap_msm_refines_sum cheap nb beq r N size ops :
    1 <= nb <= 64 * Z.of_nat N -> 0 < r <= 2 ^ nb ->
    (forall b b', beq b' b = true -> denB b' = denB b) ->
    len ops < 2 ^ 64 ->
    Forall (fun p => smul add neg zero r (denB (fst p)) = zero /\ 0 <= snd p < r) ops ->
    exists g, hm_run GO (msm_bigint GO cheap nb) beq r N size ops = Ok g /\
              den g = histz add neg zero denB ops.
  Proof.
    intros Hnb Hr Hbeq Hb HF.
    apply (hashmap_refines_sum GO add neg zero den denB grp hom (msm_bigint GO cheap nb) (good_scalar nb)); auto.
    - apply msm_bigint_ok. lia.
    - lia.
    - intros v Hv. apply good_to_limbs; lia.
  Qed.
End Final.

(* ---------- a concrete instance of the hypotheses: the additive group of Z ---------- *)
Definition z_gops : Gops Z Z := mkGops Z Z 0 Z.add Z.add Z.sub (fun x => x + x).
Lemma z_group : group_laws Z.add Z.opp 0.
Proof. constructor; intros; lia. Qed.
Lemma z_hom : gops_hom z_gops Z.add Z.opp 0 (fun x => x) (fun x => x).
Proof. constructor; cbn; intros; lia. Qed.
Lemma good_scalar_example : Forall (good_scalar 5) [[11]; [0]; [31]].
Proof.
  repeat constructor; cbn; unfold u64, W64, len; cbn; lia.
Qed.
