(* C05 -- abstract commutative groups as Z-modules: k.P by iteration on Z, finite sums,
   and the radix-2^c evaluation used by the bucket methods. *)
From V Require Import Base.Word.
Require Import Lia.

(* the laws of a commutative group, bundled (they appear as one premise of every theorem) *)
Record group_laws {A : Type} (add : A -> A -> A) (neg : A -> A) (zero : A) : Prop := mkGroupLaws {
  g_assoc : forall x y z, add x (add y z) = add (add x y) z;
  g_comm : forall x y, add x y = add y x;
  g_0_l : forall x, add zero x = x;
  g_neg_r : forall x, add x (neg x) = zero
}.

Section Group.
  Context {A : Type} (add : A -> A -> A) (neg : A -> A) (zero : A).
  Hypothesis grp : group_laws add neg zero.
  Let add_assoc : forall x y z, add x (add y z) = add (add x y) z := g_assoc _ _ _ grp.
  Let add_comm : forall x y, add x y = add y x := g_comm _ _ _ grp.
  Let add_0_l : forall x, add zero x = x := g_0_l _ _ _ grp.
  Let add_neg_r : forall x, add x (neg x) = zero := g_neg_r _ _ _ grp.

  (* k.P defined by iteration *)
  Definition pmul (p : positive) (P : A) : A := Pos.iter (add P) zero p.
  Definition smul (k : Z) (P : A) : A :=
    match k with Z0 => zero | Zpos p => pmul p P | Zneg p => neg (pmul p P) end.
  Definition msum (l : list A) : A := fold_right add zero l.

  Lemma add_0_r x : add x zero = x.
  Proof. rewrite add_comm. apply add_0_l. Qed.
  Lemma add_neg_l x : add (neg x) x = zero.
  Proof. rewrite add_comm. apply add_neg_r. Qed.
  Lemma add_cancel_l x y z : add x y = add x z -> y = z.
  Proof.
    intros H. rewrite <- (add_0_l y), <- (add_0_l z), <- (add_neg_l x), <- !add_assoc, H. reflexivity.
  Qed.
  Lemma neg_zero : neg zero = zero.
  Proof. apply (add_cancel_l zero). rewrite add_neg_r, add_0_l. reflexivity. Qed.
  Lemma neg_neg x : neg (neg x) = x.
  Proof. apply (add_cancel_l (neg x)). rewrite add_neg_r, add_neg_l. reflexivity. Qed.
  Lemma add_shuffle a b c d : add (add a b) (add c d) = add (add a c) (add b d).
  Proof.
    rewrite <- !add_assoc. f_equal. rewrite !add_assoc. f_equal. apply add_comm.
  Qed.
  Lemma add_rot a b c : add a (add b c) = add b (add a c).
  Proof. rewrite !add_assoc. f_equal. apply add_comm. Qed.
  Lemma neg_add x y : neg (add x y) = add (neg x) (neg y).
  Proof.
    apply (add_cancel_l (add x y)). rewrite add_neg_r, add_shuffle, !add_neg_r, add_0_l. reflexivity.
  Qed.

  Lemma pmul_succ p P : pmul (Pos.succ p) P = add (pmul p P) P.
  Proof. unfold pmul. rewrite Pos.iter_succ. apply add_comm. Qed.
  Lemma pmul_1 P : pmul 1 P = P.
  Proof. unfold pmul. cbn. apply add_0_r. Qed.

  Lemma smul_0_l P : smul 0 P = zero. Proof. reflexivity. Qed.
  Lemma smul_1_l P : smul 1 P = P. Proof. apply pmul_1. Qed.

  Lemma smul_succ k P : smul (Z.succ k) P = add (smul k P) P.
  Proof.
    destruct k as [|p|p].
    - cbn. rewrite add_0_l. apply add_0_r.
    - replace (Z.succ (Z.pos p)) with (Z.pos (Pos.succ p)) by lia. cbn [smul]. apply pmul_succ.
    - destruct (Pos.eq_dec p 1) as [->|Hp].
      + cbn [Z.succ Z.add Z.pos_sub smul]. rewrite pmul_1, add_neg_l. reflexivity.
      + destruct (Pos.succ_pred_or p) as [->|Hs]; [congruence|].
        rewrite <- Hs at 2. replace (Z.succ (Z.neg p)) with (Z.neg (Pos.pred p)) by lia.
        cbn [smul]. rewrite pmul_succ, neg_add, <- add_assoc, add_neg_l, add_0_r. reflexivity.
  Qed.
  Lemma smul_pred k P : smul (Z.pred k) P = add (smul k P) (neg P).
  Proof.
    replace k with (Z.succ (Z.pred k)) at 2 by lia.
    rewrite smul_succ, <- add_assoc, add_neg_r, add_0_r. reflexivity.
  Qed.

  Lemma smul_add_l a b P : smul (a + b) P = add (smul a P) (smul b P).
  Proof.
    revert b. apply Z.peano_ind.
    - rewrite Z.add_0_r, smul_0_l, add_0_r. reflexivity.
    - intros b IH. rewrite Z.add_succ_r, !smul_succ, IH, add_assoc. reflexivity.
    - intros b IH. rewrite Z.add_pred_r, !smul_pred, IH, add_assoc. reflexivity.
  Qed.
  Lemma smul_opp_l k P : smul (- k) P = neg (smul k P).
  Proof.
    destruct k; cbn [Z.opp smul]; [symmetry; apply neg_zero | reflexivity | symmetry; apply neg_neg].
  Qed.
  Lemma smul_0_r k : smul k zero = zero.
  Proof.
    revert k. apply Z.peano_ind; [reflexivity| |]; intros k IH.
    - rewrite smul_succ, IH. apply add_0_l.
    - rewrite smul_pred, IH, neg_zero. apply add_0_l.
  Qed.
  Lemma smul_add_r k P Q : smul k (add P Q) = add (smul k P) (smul k Q).
  Proof.
    revert k. apply Z.peano_ind; [cbn; symmetry; apply add_0_l| |]; intros k IH.
    - rewrite !smul_succ, IH. apply add_shuffle.
    - rewrite !smul_pred, IH, neg_add. apply add_shuffle.
  Qed.
  Lemma smul_neg_r k P : smul k (neg P) = neg (smul k P).
  Proof.
    apply (add_cancel_l (smul k P)). rewrite <- smul_add_r, !add_neg_r. apply smul_0_r.
  Qed.
  Lemma smul_mul a b P : smul (a * b) P = smul a (smul b P).
  Proof.
    revert a. apply Z.peano_ind; [reflexivity| |]; intros a IH.
    - rewrite Z.mul_succ_l, smul_add_l, IH, smul_succ. reflexivity.
    - rewrite Z.mul_pred_l, smul_pred. replace (a * b - b) with (a * b + - b) by lia.
      rewrite smul_add_l, IH, smul_opp_l. reflexivity.
  Qed.
  Lemma smul_2 P : smul 2 P = add P P.
  Proof. change 2 with (Z.succ 1). rewrite smul_succ, smul_1_l. reflexivity. Qed.

  Lemma msum_app l1 l2 : msum (l1 ++ l2) = add (msum l1) (msum l2).
  Proof.
    induction l1 as [|x l1 IH]; cbn [app msum fold_right].
    - symmetry; apply add_0_l.
    - fold (msum (l1 ++ l2)). fold (msum l1). rewrite IH. apply add_assoc.
  Qed.
  Lemma msum_cons x l : msum (x :: l) = add x (msum l).
  Proof. reflexivity. Qed.
  Lemma msum_map_add {X} (f g : X -> A) l :
    msum (map (fun x => add (f x) (g x)) l) = add (msum (map f l)) (msum (map g l)).
  Proof.
    induction l as [|x l IH]; cbn [map]; rewrite ?msum_cons.
    - cbn. symmetry; apply add_0_l.
    - rewrite IH. apply add_shuffle.
  Qed.
  Lemma msum_map_smul {X} k (f : X -> A) l :
    msum (map (fun x => smul k (f x)) l) = smul k (msum (map f l)).
  Proof.
    induction l as [|x l IH]; cbn [map]; rewrite ?msum_cons.
    - cbn. symmetry; apply smul_0_r.
    - rewrite IH, smul_add_r. reflexivity.
  Qed.
  Lemma msum_map_zero {X} (f : X -> A) l : (forall x, In x l -> f x = zero) -> msum (map f l) = zero.
  Proof.
    induction l as [|x l IH]; intros H; cbn [map]; rewrite ?msum_cons; [reflexivity|].
    rewrite H, IH, add_0_l by (try left; auto; intros; apply H; right; auto). reflexivity.
  Qed.
  Lemma msum_filter {X} (f : X -> A) (keep : X -> bool) l :
    (forall x, keep x = false -> f x = zero) -> msum (map f (filter keep l)) = msum (map f l).
  Proof.
    intros H. induction l as [|x l IH]; [reflexivity|]. cbn [filter map].
    destruct (keep x) eqn:E; cbn [map]; rewrite ?msum_cons, IH; [reflexivity|].
    rewrite (H x E), add_0_l. reflexivity.
  Qed.

  (* ---------- radix-2^c evaluation ---------- *)
  (* of integer digit lists ... *)
  Definition evalc (c : Z) (ds : list Z) : Z := fold_right (fun d acc => d + 2 ^ c * acc) 0 ds.
  (* ... and of group elements (Horner form: what "combine the windows by c doublings" computes) *)
  Definition horner (c : Z) (ws : list A) : A := fold_right (fun x acc => add x (smul (2 ^ c) acc)) zero ws.

  Lemma horner_cons c x r : horner c (x :: r) = add x (smul (2 ^ c) (horner c r)).
  Proof. reflexivity. Qed.
  Lemma horner_map_add {X} c (f g : X -> A) idx :
    horner c (map (fun i => add (f i) (g i)) idx) = add (horner c (map f idx)) (horner c (map g idx)).
  Proof.
    induction idx as [|i idx IH]; cbn [map]; rewrite ?horner_cons.
    - cbn. symmetry; apply add_0_l.
    - rewrite IH, smul_add_r. apply add_shuffle.
  Qed.
  Lemma horner_map_zero {X} c (idx : list X) : horner c (map (fun _ => zero) idx) = zero.
  Proof.
    induction idx as [|i idx IH]; cbn [map]; rewrite ?horner_cons; [reflexivity|].
    rewrite IH, smul_0_r. apply add_0_l.
  Qed.
  (* exchanging the sum over windows with the sum over (scalar, base) pairs *)
  Lemma horner_msum {X I} c (f : I -> X -> A) (pairs : list X) (idx : list I) :
    horner c (map (fun i => msum (map (f i) pairs)) idx) =
    msum (map (fun p => horner c (map (fun i => f i p) idx)) pairs).
  Proof.
    induction pairs as [|p pairs IH]; cbn [map].
    - cbn [msum fold_right]. apply horner_map_zero.
    - rewrite msum_cons, <- IH, <- horner_map_add. reflexivity.
  Qed.
  Lemma horner_digits c ds P : horner c (map (fun d => smul d P) ds) = smul (evalc c ds) P.
  Proof.
    induction ds as [|d ds IH]; cbn [map evalc fold_right]; [reflexivity|].
    rewrite horner_cons, IH. fold (evalc c ds). rewrite smul_add_l, smul_mul. reflexivity.
  Qed.
  Lemma map_nth_seq {X} (g : Z -> X) ds : map (fun i => g (nth i ds 0)) (seq 0 (length ds)) = map g ds.
  Proof.
    induction ds as [|d ds IH]; [reflexivity|].
    cbn [length seq map nth]. f_equal. rewrite <- seq_shift, map_map. exact IH.
  Qed.
End Group.
