(* C05 -- the pairing target group (`PairingOutput<P>`, ec/src/pairing.rs) as a group
   dictionary for the generic MSM model: the multiplicative group of the target field,
   whose top level is a quadratic extension Q = B[w]/(w^2 - nr) (Fp12 = Fp6[w]/(w^2 - v),
   Fp4 = Fp2[v]/(v^2 - u)).
     zero()                 = TargetField::one()
     += &other              = self.0 *= other.0
     -= &other              = self.0 *= other.0.cyclotomic_inverse().unwrap()   (= conjugate)
     double_in_place        = cyclotomic_square_in_place  (= square on the cyclotomic subgroup: C02)
   MulBase = Self, so the mixed operations are the same products.
   No proofs in this file. *)
From V Require Import Base.Field C05.MsmModel.

(* conjugation over the quadratic top level: (a, b) |-> (a, -b) *)
Definition gt_conj {T} (B : Fops T) (a : T * T) : T * T := (fst a, fneg B (snd a)).

Definition gt_gops {T} (B : Fops T) (nr : T) : Gops (T * T) (T * T) :=
  let Q := QuadOps B nr in
  mkGops (T * T) (T * T) (f1 Q) (fmul Q) (fmul Q)
         (fun x b => fmul Q x (gt_conj B b)) (fun x => fmul Q x x).

(* membership in the norm-one subgroup { x | x * conj x = 1 } (it contains the cyclotomic
   subgroup, hence every pairing output); conj is the inverse exactly there *)
Definition gt_ok {T} (B : Fops T) (nr : T) (x : T * T) : bool :=
  let Q := QuadOps B nr in feqb Q (fmul Q x (gt_conj B x)) (f1 Q).
