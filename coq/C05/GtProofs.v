(* C05 -- the pairing target group satisfies the premises of the MSM theorems.
   For every commutative ring B with a correct equality test and every nr, the norm-one
   elements { x : B[w]/(w^2 - nr) | x * conj x = 1 } with product, conjugation and 1 form a
   commutative group ([group_laws]); the dictionary [gt_gops] restricted to them is
   homomorphic ([gops_hom], interpretation = identity), so every C05 theorem applies. *)
From V Require Import Base.Field Base.Word C05.MsmModel C05.GtModel C05.GroupProofs C05.DigitsProofs C05.MsmProofs.
Require Import Eqdep_dec Bool Lia.
Require Import Coq.setoid_ring.Ring.

Section Gt.
  Context {T : Type} (B : Fops T) (nr : T).
  Hypothesis Bring : ring_theory (f0 B) (f1 B) (fadd B) (fmul B) (fsub B) (fneg B) eq.
  Hypothesis Beqb : forall x y, feqb B x y = true <-> x = y.
  Add Ring BRing : Bring.

  Local Notation Q := (QuadOps B nr).
  Local Notation mul := (fmul Q).
  Local Notation one := (f1 Q).
  Local Notation conj := (gt_conj B).
  Local Notation ok := (gt_ok B nr).

  Lemma q_eqb (x y : T * T) : feqb Q x y = true <-> x = y.
  Proof.
    destruct x as [x0 x1], y as [y0 y1]. cbn [QuadOps feqb]. unfold qeqb. cbn [fst snd].
    rewrite andb_true_iff, !Beqb. split; [intros [-> ->]; reflexivity | intros E; inversion E; auto].
  Qed.

  Ltac qring := intros; repeat match goal with x : (T * T)%type |- _ => destruct x end;
    cbn [QuadOps f1 fmul]; unfold qmul, gt_conj; cbn [fst snd]; f_equal; ring.

  Lemma q_mul_assoc x y z : mul x (mul y z) = mul (mul x y) z. Proof. qring. Qed.
  Lemma q_mul_comm x y : mul x y = mul y x. Proof. qring. Qed.
  Lemma q_mul_1_l x : mul one x = x. Proof. qring. Qed.
  Lemma conj_mul x y : conj (mul x y) = mul (conj x) (conj y). Proof. qring. Qed.
  Lemma conj_conj x : conj (conj x) = x. Proof. qring. Qed.
  Lemma conj_one : conj one = one. Proof. cbn [QuadOps f1]. unfold gt_conj. cbn [fst snd]. f_equal. ring. Qed.

  Lemma ok_iff x : ok x = true <-> mul x (conj x) = one.
  Proof. unfold gt_ok. apply q_eqb. Qed.
  Lemma ok_one : ok one = true.
  Proof. apply ok_iff. rewrite conj_one. apply q_mul_1_l. Qed.
  Lemma ok_mul x y : ok x = true -> ok y = true -> ok (mul x y) = true.
  Proof.
    rewrite !ok_iff. intros Hx Hy. rewrite conj_mul.
    transitivity (mul (mul x (conj x)) (mul y (conj y))).
    - rewrite !q_mul_assoc. f_equal. rewrite <- !q_mul_assoc. f_equal. apply q_mul_comm.
    - rewrite Hx, Hy. apply q_mul_1_l.
  Qed.
  Lemma ok_conj x : ok x = true -> ok (conj x) = true.
  Proof. rewrite !ok_iff. intros Hx. rewrite conj_conj, q_mul_comm. exact Hx. Qed.

  (* the carrier: norm-one elements (boolean invariant: proof-irrelevant without axioms) *)
  Definition gt_sub : Type := { x : T * T | ok x = true }.
  Definition gt_val (x : gt_sub) : T * T := proj1_sig x.
  Lemma gt_sub_eq (x y : gt_sub) : gt_val x = gt_val y -> x = y.
  Proof.
    destruct x as [x Hx], y as [y Hy]. unfold gt_val; cbn [proj1_sig]. intros E. subst y.
    f_equal. apply (UIP_dec bool_dec).
  Qed.
  Lemma gt_val_ok (x : gt_sub) : ok (gt_val x) = true.
  Proof. exact (proj2_sig x). Qed.

  Definition gt_one : gt_sub := exist _ one ok_one.
  Definition gt_mul (x y : gt_sub) : gt_sub :=
    exist _ (mul (gt_val x) (gt_val y)) (ok_mul _ _ (gt_val_ok x) (gt_val_ok y)).
  Definition gt_inv (x : gt_sub) : gt_sub := exist _ (conj (gt_val x)) (ok_conj _ (gt_val_ok x)).

  (* the dictionary the MSM code sees, on the carrier *)
  Definition gt_sub_gops : Gops gt_sub gt_sub :=
    mkGops gt_sub gt_sub gt_one gt_mul gt_mul (fun x b => gt_mul x (gt_inv b)) (fun x => gt_mul x x).

  Theorem gt_group_laws : group_laws gt_mul gt_inv gt_one.
  Proof.
    constructor; intros; apply gt_sub_eq; unfold gt_val; cbn [gt_mul gt_inv gt_one proj1_sig].
    - apply q_mul_assoc.
    - apply q_mul_comm.
    - apply q_mul_1_l.
    - apply ok_iff. apply gt_val_ok.
  Qed.
  Theorem gt_gops_hom : gops_hom gt_sub_gops gt_mul gt_inv gt_one (fun x => x) (fun x => x).
  Proof. constructor; intros; reflexivity. Qed.

  (* it is the restriction of the executed dictionary [gt_gops B nr] (Run.v) *)
  Theorem gt_gops_restrict :
    gt_val (gzero gt_sub_gops) = gzero (gt_gops B nr) /\
    (forall x y, gt_val (gadd gt_sub_gops x y) = gadd (gt_gops B nr) (gt_val x) (gt_val y)) /\
    (forall x b, gt_val (gmadd gt_sub_gops x b) = gmadd (gt_gops B nr) (gt_val x) (gt_val b)) /\
    (forall x b, gt_val (gmsub gt_sub_gops x b) = gmsub (gt_gops B nr) (gt_val x) (gt_val b)) /\
    (forall x, gt_val (gdbl gt_sub_gops x) = gdbl (gt_gops B nr) (gt_val x)).
  Proof. repeat split. Qed.

  (* k.X and finite sums in the carrier are the raw iterations (powers / products in Q) *)
  Lemma gt_val_pmul p X : gt_val (pmul gt_mul gt_one p X) = pmul mul one p (gt_val X).
  Proof.
    unfold pmul. rewrite !Pos2Nat.inj_iter.
    induction (Pos.to_nat p) as [|n IH]; cbn [nat_rect]; [reflexivity|].
    unfold gt_val in *; cbn [gt_mul proj1_sig]. rewrite <- IH. reflexivity.
  Qed.
  Lemma gt_val_smul k X : gt_val (smul gt_mul gt_inv gt_one k X) = smul mul conj one k (gt_val X).
  Proof.
    destruct k; cbn [smul]; [reflexivity | apply gt_val_pmul |].
    unfold gt_val at 1; cbn [gt_inv proj1_sig]. f_equal. apply gt_val_pmul.
  Qed.
  Lemma gt_val_msum l : gt_val (msum gt_mul gt_one l) = msum mul one (map gt_val l).
  Proof.
    induction l as [|x l IH]; [reflexivity|]. cbn [map]. unfold msum in *. cbn [fold_right].
    unfold gt_val at 1; cbn [gt_mul proj1_sig]. f_equal. exact IH.
  Qed.

  (* the MSM theorem instantiated: the result is the product of the powers base_i ^ k_i *)
  Theorem gt_msm_bigint_spec cheap nb (bases : list gt_sub) scalars :
    1 <= nb -> Z.min (len bases) (len scalars) < 2 ^ 64 ->
    Forall (fun s => wf s /\ nb <= 64 * len s /\ val s < 2 ^ nb) scalars ->
    exists g, msm_bigint gt_sub_gops cheap nb bases scalars = Ok g /\
              gt_val g = msum mul one (map (fun p => smul mul conj one (val (fst p)) (gt_val (snd p)))
                                          (combine scalars bases)).
  Proof.
    intros Hnb Hlen HF.
    destruct (msm_bigint_spec gt_sub_gops gt_mul gt_inv gt_one (fun x => x) (fun x => x)
                gt_group_laws gt_gops_hom cheap nb bases scalars Hnb Hlen HF) as [g [Hg Hd]].
    exists g. split; [exact Hg|]. cbv beta in Hd. rewrite Hd. unfold msm_sum. rewrite gt_val_msum, map_map.
    f_equal. apply map_ext. intros p. apply gt_val_smul.
  Qed.
End Gt.
