(* C05 -- multi-scalar multiplication: executable model of
   ec/src/scalar_mul/variable_base/mod.rs over an abstract group given as a dictionary
   [Gops G B] (G = the projective accumulator type, B = the affine `MulBase` type).
   Big-integer scalars are little-endian limb lists (Base/Word.v), exactly as
   `BigInt<N>`; field-element scalars are their canonical residues.
   No proofs in this file. *)
From V Require Import Base.Word.

(* the operations the MSM code performs on group elements *)
Record Gops (G B : Type) := mkGops {
  gzero : G;                     (* V::zero() *)
  gadd  : G -> G -> G;           (* += &V , + &V *)
  gmadd : G -> B -> G;           (* += &MulBase *)
  gmsub : G -> B -> G;           (* -= &MulBase *)
  gdbl  : G -> G                 (* double_in_place *)
}.
Arguments gzero {G B}. Arguments gadd {G B}. Arguments gmadd {G B}.
Arguments gmsub {G B}. Arguments gdbl {G B}.

Inductive outcome (A : Type) : Type :=
| Ok (a : A)
| Err (e : Z)            (* Result::Err(usize) of the checked entry point *)
| Panic.                 (* index out of bounds / unwrap on None / failed assert *)
Arguments Ok {A}. Arguments Err {A}. Arguments Panic {A}.

Definition len {A} (l : list A) : Z := Z.of_nat (length l).

(* ---------- window-size rule ---------- *)

(* ark_std::log2: ceil(log2 x), 0 for x = 0 *)
Definition log2_ceil (x : Z) : Z :=
  if x <=? 0 then 0
  else if x =? 2 ^ Z.log2 x then Z.log2 x      (* is_power_of_two: trailing bit position *)
  else Z.log2 x + 1.                            (* 64 - leading_zeros *)
(* ec/src/scalar_mul/mod.rs ln_without_floats: log2(a) * 69 / 100 *)
Definition ln_without_floats (a : Z) : Z := log2_ceil a * 69 / 100.
Definition window_size (size : Z) : Z :=
  if size <? 32 then 3 else ln_without_floats size + 2.
(* usize::div_ceil *)
Definition div_ceil (a b : Z) : Z := a / b + (if a mod b =? 0 then 0 else 1).

(* ---------- make_digits ---------- *)

Definition limb (s : list Z) (i : Z) : Z := nth (Z.to_nat i) s 0.

(* the `bit_buf` of window i: bits of the scalar starting at bit i*w (at least the
   low w ones are meaningful), read from one limb or stitched from two *)
Definition bit_buf (s : list Z) (w i : Z) : Z :=
  let bit_offset := i * w in
  let u64_idx := bit_offset / 64 in
  let bit_idx := bit_offset mod 64 in
  if (bit_idx <? 64 - w) || (u64_idx =? len s - 1)
  then Z.shiftr (limb s u64_idx) bit_idx
  else Z.lor (Z.shiftr (limb s u64_idx) bit_idx)
             (Z.shiftl (limb s (1 + u64_idx)) (64 - bit_idx) mod W64).

(* the closure of the iterator, with its captured mutable `carry`; n = remaining count *)
Fixpoint digits_loop (s : list Z) (w dc : Z) (n : nat) (i carry : Z) : list Z :=
  match n with
  | O => []
  | S n' =>
      let radix := 2 ^ w in
      let coef := carry + Z.land (bit_buf s w i) (radix - 1) in
      let carry' := Z.shiftr (coef + radix / 2) w in
      let digit := coef - Z.shiftl carry' w in
      let digit := if i =? dc - 1 then digit + Z.shiftl carry' w else digit in
      digit :: digits_loop s w dc n' (i + 1) carry'
  end.

Definition bit_length (k : Z) : Z := if k <=? 0 then 0 else Z.log2 k + 1.

Definition digits_count (s : list Z) (w num_bits : Z) : Z :=
  let num_bits := if num_bits =? 0 then bit_length (val s) else num_bits in
  div_ceil num_bits w.

(* `scalar[u64_idx]` out of bounds for some window *)
Definition digits_oob (s : list Z) (w num_bits : Z) : bool :=
  let dc := digits_count s w num_bits in
  (0 <? dc) && (len s <=? ((dc - 1) * w) / 64).

Definition make_digits_list (s : list Z) (w num_bits : Z) : list Z :=
  let dc := digits_count s w num_bits in
  digits_loop s w dc (Z.to_nat dc) 0 0.

(* None = the iterator panics when consumed *)
Definition make_digits (s : list Z) (w num_bits : Z) : option (list Z) :=
  if digits_oob s w num_bits then None else Some (make_digits_list s w num_bits).

(* to BigInt<N> limbs *)
Fixpoint to_limbs (n : nat) (k : Z) : list Z :=
  match n with O => [] | S n' => k mod W64 :: to_limbs n' (k / W64) end.

Section Msm.
  Context {G B : Type} (GO : Gops G B).

  (* buckets[n] = f(buckets[n]) (no-op outside the vector: the digit bounds proved in
     DigitsProofs.v exclude that case for the callers below) *)
  Fixpoint upd (l : list G) (n : nat) (f : G -> G) : list G :=
    match l, n with
    | [], _ => []
    | x :: r, O => f x :: r
    | x :: r, S n' => x :: upd r n' f
    end.

  (* buckets.into_iter().rev().for_each(|b| { running_sum += &b; res += &running_sum; }) *)
  Definition running_sum (res0 : G) (buckets : list G) : G :=
    snd (fold_left (fun st b => let run := gadd GO (fst st) b in (run, gadd GO (snd st) run))
                   (rev buckets) (gzero GO, res0)).

  (* ---- signed-digit method (msm_bigint_wnaf) ---- *)

  Definition wnaf_bucket_step (i : nat) (buckets : list G) (p : list Z * B) : list G :=
    let d := nth i (fst p) 0 in
    if 0 <? d then upd buckets (Z.to_nat (d - 1)) (fun x => gmadd GO x (snd p))
    else if d <? 0 then upd buckets (Z.to_nat (- d - 1)) (fun x => gmsub GO x (snd p))
    else buckets.

  Definition wnaf_window_sum (c : Z) (pairs : list (list Z * B)) (i : nat) : G :=
    running_sum (gzero GO)
      (fold_left (wnaf_bucket_step i) pairs (repeat (gzero GO) (Z.to_nat (2 ^ c)))).

  Fixpoint dbl_n (n : nat) (x : G) : G :=
    match n with O => x | S n' => dbl_n n' (gdbl GO x) end.

  (* lowest + window_sums[1..].rev().fold(zero, |total, s| (total + s) doubled c times);
     None = `window_sums.first().unwrap()` on an empty vector *)
  Definition combine_windows (c : Z) (ws : list G) : option G :=
    match ws with
    | [] => None
    | lowest :: rest =>
        Some (gadd GO lowest
                (fold_left (fun total s => dbl_n (Z.to_nat c) (gadd GO total s)) (rev rest) (gzero GO)))
    end.

  Definition msm_bigint_wnaf (num_bits : Z) (bases : list B) (scalars : list (list Z)) : outcome G :=
    let size := Z.to_nat (Z.min (len bases) (len scalars)) in
    let scalars := firstn size scalars in
    let bases := firstn size bases in
    let c := window_size (Z.of_nat size) in
    let dc := div_ceil num_bits c in
    if existsb (fun s => digits_oob s c num_bits) scalars then Panic
    else
      (* scalar_digits.chunks(digits_count).zip(bases): every scalar contributes exactly
         digits_count digits, so the chunks are the per-scalar digit vectors *)
      let pairs := combine (map (fun s => make_digits_list s c num_bits) scalars) bases in
      let ws := map (wnaf_window_sum c pairs) (seq 0 (Z.to_nat dc)) in
      match combine_windows c ws with None => Panic | Some r => Ok r end.

  (* ---- plain bucket method (private msm_bigint) ---- *)

  Definition plain_bucket_step (c w_start : Z) (st : G * list G) (p : list Z * B) : G * list G :=
    let k := val (fst p) in
    if k =? 1 then
      (if w_start =? 0 then (gmadd GO (fst st) (snd p), snd st) else st)
    else
      let d := (Z.shiftr k w_start mod W64) mod 2 ^ c in     (* (scalar >> w_start).as_ref()[0] % (1 << c) *)
      if d =? 0 then st
      else (fst st, upd (snd st) (Z.to_nat (d - 1)) (fun x => gmadd GO x (snd p))).

  Definition plain_window_sum (c : Z) (pairs : list (list Z * B)) (w_start : Z) : G :=
    let st := fold_left (plain_bucket_step c w_start) pairs
                        (gzero GO, repeat (gzero GO) (Z.to_nat (2 ^ c - 1))) in
    running_sum (fst st) (snd st).

  Definition msm_bigint_plain (num_bits : Z) (bases : list B) (scalars : list (list Z)) : outcome G :=
    let size := Z.to_nat (Z.min (len bases) (len scalars)) in
    let scalars := firstn size scalars in
    let bases := firstn size bases in
    let pairs := filter (fun p => negb (val (fst p) =? 0)) (combine scalars bases) in
    let c := window_size (Z.of_nat size) in
    (* (0..num_bits).step_by(c) *)
    let window_starts := map (fun i => c * Z.of_nat i) (seq 0 (Z.to_nat (div_ceil num_bits c))) in
    let ws := map (plain_window_sum c pairs) window_starts in
    match combine_windows c ws with None => Panic | Some r => Ok r end.

  (* ---- trait entry points ---- *)

  (* VariableBaseMSM::msm_bigint *)
  Definition msm_bigint (cheap : bool) (num_bits : Z) (bases : list B) (scalars : list (list Z)) : outcome G :=
    if cheap then msm_bigint_wnaf num_bits bases scalars else msm_bigint_plain num_bits bases scalars.

  (* msm_unchecked: scalars are field elements (canonical residues), N limbs each *)
  Definition msm_unchecked (cheap : bool) (num_bits : Z) (N : nat) (bases : list B) (scalars : list Z) : outcome G :=
    msm_bigint cheap num_bits bases (map (to_limbs N) scalars).

  (* msm: equal lengths or Err(min) *)
  Definition msm_checked (cheap : bool) (num_bits : Z) (N : nat) (bases : list B) (scalars : list Z) : outcome G :=
    if len bases =? len scalars then msm_unchecked cheap num_bits N bases scalars
    else Err (Z.min (len bases) (len scalars)).

  (* msm_chunks with chunk size [step] (2^20 in the code): the LAST len(scalars) bases are
     used; every chunk goes through msm_bigint *)
  Definition takeZ {A} (n : Z) (l : list A) : list A := firstn (Z.to_nat (Z.min n (len l))) l.
  Definition dropZ {A} (n : Z) (l : list A) : list A := skipn (Z.to_nat (Z.min n (len l))) l.

  Fixpoint chunks_loop (cheap : bool) (num_bits : Z) (N : nat) (step : Z) (n : nat)
           (bases : list B) (scalars : list Z) (result : G) : outcome G :=
    match n with
    | O => Ok result
    | S n' =>
        match msm_bigint cheap num_bits (takeZ step bases) (map (to_limbs N) (takeZ step scalars)) with
        | Ok m => chunks_loop cheap num_bits N step n' (dropZ step bases) (dropZ step scalars) (gadd GO result m)
        | Err e => Err e
        | Panic => Panic
        end
    end.

  Definition msm_chunks (cheap : bool) (num_bits : Z) (N : nat) (step : Z) (bases : list B) (scalars : list Z) : outcome G :=
    if len bases <? len scalars then Panic      (* assert!(scalars_stream.len() <= bases_stream.len()) *)
    else
      let bases := dropZ (len bases - len scalars) bases in
      chunks_loop cheap num_bits N step (Z.to_nat (div_ceil (len scalars) step)) bases scalars (gzero GO).
End Msm.
