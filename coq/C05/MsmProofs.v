(* C05 -- the bucket methods compute sum k_i * P_i, for every length and every scalar in range.
   The group is abstract: (A, add, neg, zero) with [group_laws]; the dictionary operations of
   [Gops] are tied to it by an interpretation (den, denB) with [gops_hom] (for the curve
   instances: "to affine", homomorphic by C03 + the classical associativity of the affine law). *)
From V Require Import Base.Word C15.BitsProofs C05.MsmModel C05.GroupProofs C05.DigitsProofs.
Require Import Lia Znumtheory.

Record gops_hom {G B A : Type} (GO : Gops G B) (add : A -> A -> A) (neg : A -> A) (zero : A)
       (den : G -> A) (denB : B -> A) : Prop := mkGopsHom {
  h_zero : den (gzero GO) = zero;
  h_add : forall x y, den (gadd GO x y) = add (den x) (den y);
  h_madd : forall x b, den (gmadd GO x b) = add (den x) (denB b);
  h_msub : forall x b, den (gmsub GO x b) = add (den x) (neg (denB b));
  h_dbl : forall x, den (gdbl GO x) = add (den x) (den x)
}.

Lemma fold_left_rev {X S} (g : S -> X -> S) l a :
  fold_left g (rev l) a = fold_right (fun x s => g s x) a l.
Proof.
  induction l as [|x l IH]; [reflexivity|]. cbn [rev fold_right]. rewrite fold_left_app. cbn [fold_left].
  rewrite IH. reflexivity.
Qed.

Lemma combine_map_l {X Y Z'} (f : X -> Z') (l : list X) (m : list Y) :
  combine (map f l) m = map (fun q => (f (fst q), snd q)) (combine l m).
Proof.
  revert m; induction l as [|x l IH]; intros [|y m]; cbn [map combine]; try reflexivity.
  rewrite IH. reflexivity.
Qed.

Lemma combine_firstn_min {X Y} (l : list X) (m : list Y) :
  let n := Z.to_nat (Z.min (len l) (len m)) in combine (firstn n l) (firstn n m) = combine l m.
Proof.
  cbn zeta. rewrite <- combine_firstn. apply firstn_all2. rewrite combine_length. unfold len. lia.
Qed.

Lemma combine_firstn_lengths {X Y} (l : list X) : forall (m : list Y),
  combine (firstn (length m) l) (firstn (length l) m) = combine l m.
Proof.
  induction l as [|x l IH]; intros [|y m]; cbn [length firstn combine]; try reflexivity.
  rewrite IH. reflexivity.
Qed.

Lemma existsb_false {X} (f : X -> bool) l : (forall x, In x l -> f x = false) -> existsb f l = false.
Proof.
  induction l as [|x l IH]; intros H; [reflexivity|]. cbn [existsb].
  rewrite (H x (or_introl eq_refl)), IH; [reflexivity|]. intros; apply H; right; auto.
Qed.

(* window-size rule: a usize length gives 3 <= c <= 46 *)
Lemma window_size_bounds n : 0 <= n < 2 ^ 64 -> 3 <= window_size n <= 46.
Proof.
  intros Hn. unfold window_size. destruct (Z.ltb_spec n 32); [lia|].
  unfold ln_without_floats, log2_ceil. destruct (Z.leb_spec n 0); [lia|].
  assert (Z.log2 n < 64) by (apply Z.log2_lt_pow2; lia).
  assert (5 <= Z.log2 n) by (change 5 with (Z.log2 32); apply Z.log2_le_mono; lia).
  destruct (n =? 2 ^ Z.log2 n); Z.div_mod_to_equations; lia.
Qed.

Lemma to_limbs_spec N : forall k, wf (to_limbs N k) /\ length (to_limbs N k) = N /\
                                   val (to_limbs N k) = k mod Wn N.
Proof.
  induction N as [|N IH]; intros k; cbn [to_limbs].
  - repeat split; [constructor|]. rewrite Wn_0, Z.mod_1_r. reflexivity.
  - destruct (IH (k / W64)) as (Hw & Hl & Hv). repeat split.
    + constructor; [apply mod_u64|exact Hw].
    + cbn [length]. congruence.
    + cbn [val]. rewrite Hv, Wn_S. pose proof (Wn_pos N). rewrite Z.rem_mul_r by (unfold W64; lia).
      reflexivity.
Qed.

Section MsmProofs.
  Context {G B A : Type} (GO : Gops G B) (add : A -> A -> A) (neg : A -> A) (zero : A)
          (den : G -> A) (denB : B -> A).
  Hypothesis grp : group_laws add neg zero.
  Hypothesis hom : gops_hom GO add neg zero den denB.
  Local Notation smul := (smul add neg zero).
  Local Notation msum := (msum add zero).
  Local Notation horner := (horner add neg zero).

  Let add_assoc := g_assoc _ _ _ grp.
  Let add_comm := g_comm _ _ _ grp.
  Let add_0_l := g_0_l _ _ _ grp.
  Let add_0_r := add_0_r _ _ _ grp.
  Let add_rot := add_rot _ _ _ grp.
  Let add_shuffle := add_shuffle _ _ _ grp.
  Let smul_add_l := smul_add_l _ _ _ grp.
  Let smul_add_r := smul_add_r _ _ _ grp.
  Let smul_0_r := smul_0_r _ _ _ grp.
  Let smul_1_l := smul_1_l _ _ _ grp.
  Let smul_mul := smul_mul _ _ _ grp.
  Let smul_2 := smul_2 _ _ _ grp.
  Let smul_neg_r := smul_neg_r _ _ _ grp.
  Let smul_opp_l := smul_opp_l _ _ _ grp.
  Let neg_neg := neg_neg _ _ _ grp.
  Let den_zero := h_zero _ _ _ _ _ _ hom.
  Let den_add := h_add _ _ _ _ _ _ hom.
  Let den_madd := h_madd _ _ _ _ _ _ hom.
  Let den_msub := h_msub _ _ _ _ _ _ hom.
  Let den_dbl := h_dbl _ _ _ _ _ _ hom.

  (* weighted sum  o*l_0 + (o+1)*l_1 + ... *)
  Fixpoint wsum (o : Z) (l : list A) : A :=
    match l with [] => zero | x :: r => add (smul o x) (wsum (o + 1) r) end.

  Lemma wsum_shift : forall l o, wsum (o + 1) l = add (msum l) (wsum o l).
  Proof.
    induction l as [|x l IH]; intros o; cbn [wsum].
    - cbn. symmetry; apply add_0_l.
    - rewrite msum_cons, IH, smul_add_l, smul_1_l.
      rewrite (add_comm (smul o x) x). apply add_shuffle.
  Qed.

  (* ---------- running-sum reduction ---------- *)
  Theorem running_sum_spec res0 bs :
    den (running_sum GO res0 bs) = add (den res0) (wsum 1 (map den bs)).
  Proof.
    unfold running_sum. rewrite fold_left_rev.
    set (step := fun (x : G) (s : G * G) => _).
    assert (H : den (fst (fold_right step (gzero GO, res0) bs)) = msum (map den bs) /\
                den (snd (fold_right step (gzero GO, res0) bs)) = add (den res0) (wsum 1 (map den bs))).
    { induction bs as [|b bs IH]; cbn [fold_right map wsum].
      - cbn [fst snd]. split; [exact den_zero | symmetry; apply add_0_r].
      - destruct IH as [IH1 IH2]. unfold step at 1 3. cbn [fst snd]. rewrite !den_add, IH1, IH2.
        split; [rewrite msum_cons; apply add_comm|].
        rewrite smul_1_l. change 2 with (1 + 1). rewrite wsum_shift.
        rewrite <- !add_assoc. f_equal.
        rewrite (add_comm (msum (map den bs)) (den b)).
        rewrite add_rot. f_equal. apply add_comm. }
    apply H.
  Qed.

  Lemma wsum_repeat_zero n : forall o, wsum o (map den (repeat (gzero GO) n)) = zero.
  Proof.
    induction n as [|n IH]; intros o; cbn [repeat map wsum]; [reflexivity|].
    rewrite den_zero, smul_0_r, IH. apply add_0_l.
  Qed.

  Lemma upd_length f : forall (bs : list G) n, length (upd bs n f) = length bs.
  Proof. induction bs as [|x bs IH]; intros [|n]; cbn [upd length]; auto. Qed.

  Lemma wsum_upd (f : G -> G) delta : (forall x, den (f x) = add (den x) delta) ->
    forall bs n o, (n < length bs)%nat ->
    wsum o (map den (upd bs n f)) = add (wsum o (map den bs)) (smul (o + Z.of_nat n) delta).
  Proof.
    intros Hf. induction bs as [|x bs IH]; intros [|n] o Hn; cbn [length] in Hn; try lia; cbn [upd map wsum].
    - rewrite Hf, smul_add_r. replace (o + Z.of_nat 0) with o by lia.
      rewrite <- !add_assoc. f_equal. apply add_comm.
    - rewrite IH by lia. replace (o + 1 + Z.of_nat n) with (o + Z.of_nat (S n)) by lia.
      apply add_assoc.
  Qed.

  (* ---------- signed-digit buckets ---------- *)
  Definition dig (i : nat) (p : list Z * B) : Z := nth i (fst p) 0.

  Lemma wnaf_step_phi i bs p : - len bs <= dig i p <= len bs ->
    length (wnaf_bucket_step GO i bs p) = length bs /\
    wsum 1 (map den (wnaf_bucket_step GO i bs p)) =
    add (wsum 1 (map den bs)) (smul (dig i p) (denB (snd p))).
  Proof.
    unfold wnaf_bucket_step, len. fold (dig i p). set (d := dig i p). intros Hd.
    destruct (Z.ltb_spec 0 d); [|destruct (Z.ltb_spec d 0)].
    - split; [apply upd_length|]. rewrite (wsum_upd _ (denB (snd p))) by (auto; lia).
      do 2 f_equal. lia.
    - split; [apply upd_length|]. rewrite (wsum_upd _ (neg (denB (snd p)))) by (auto; lia).
      f_equal. replace (1 + Z.of_nat (Z.to_nat (- d - 1))) with (- d) by lia.
      rewrite smul_neg_r, smul_opp_l, neg_neg. reflexivity.
    - split; [reflexivity|]. replace d with 0 by lia. cbn [GroupProofs.smul]. symmetry; apply add_0_r.
  Qed.

  Lemma wnaf_fold_phi i pairs : forall bs,
    Forall (fun p => - len bs <= dig i p <= len bs) pairs ->
    length (fold_left (wnaf_bucket_step GO i) pairs bs) = length bs /\
    wsum 1 (map den (fold_left (wnaf_bucket_step GO i) pairs bs)) =
    add (wsum 1 (map den bs)) (msum (map (fun p => smul (dig i p) (denB (snd p))) pairs)).
  Proof.
    induction pairs as [|p pairs IH]; intros bs HF; cbn [fold_left map].
    - split; [reflexivity|]. cbn. symmetry; apply add_0_r.
    - inversion HF as [|? ? Hp HF']; subst.
      destruct (wnaf_step_phi i bs p Hp) as [Hl He].
      destruct (IH (wnaf_bucket_step GO i bs p)) as [IHl IHe].
      { unfold len in *. rewrite Hl. exact HF'. }
      split; [congruence|]. rewrite IHe, He, msum_cons. symmetry; apply add_assoc.
  Qed.

  Lemma wnaf_window_sum_spec c pairs i : 0 <= c ->
    Forall (fun p => - 2 ^ c <= dig i p <= 2 ^ c) pairs ->
    den (wnaf_window_sum GO c pairs i) = msum (map (fun p => smul (dig i p) (denB (snd p))) pairs).
  Proof.
    intros Hc HF. unfold wnaf_window_sum. rewrite running_sum_spec.
    assert (Hp : 0 < 2 ^ c) by (apply Z.pow_pos_nonneg; lia).
    destruct (wnaf_fold_phi i pairs (repeat (gzero GO) (Z.to_nat (2 ^ c)))) as [_ He].
    { unfold len. rewrite repeat_length, Z2Nat.id by lia. exact HF. }
    rewrite He, wsum_repeat_zero, den_zero, !add_0_l. reflexivity.
  Qed.

  (* ---------- windows combined by c doublings ---------- *)
  Lemma dbl_n_spec n : forall x, den (dbl_n GO n x) = smul (2 ^ Z.of_nat n) (den x).
  Proof.
    induction n as [|n IH]; intros x; cbn [dbl_n].
    - cbn. symmetry; apply smul_1_l.
    - rewrite IH, den_dbl, <- smul_2, <- smul_mul. f_equal. rewrite Nat2Z.inj_succ, Z.pow_succ_r by lia. lia.
  Qed.

  Lemma combine_windows_spec c ws : 0 <= c -> ws <> [] ->
    exists g, combine_windows GO c ws = Some g /\ den g = horner c (map den ws).
  Proof.
    intros Hc Hne. destruct ws as [|lowest rest]; [congruence|]. cbn [combine_windows].
    eexists; split; [reflexivity|]. rewrite den_add, fold_left_rev. cbn [map]. rewrite horner_cons. f_equal.
    clear Hne. induction rest as [|s rest IH]; cbn [fold_right map].
    - rewrite den_zero. cbn. symmetry; apply smul_0_r.
    - rewrite dbl_n_spec, den_add, IH, horner_cons, Z2Nat.id by lia. f_equal. apply add_comm.
  Qed.

  (* the shape shared by both bucket methods: per-window sums over the pairs, then Horner *)
  Lemma bucket_method_sum {X I} c (wsumf : I -> G) (D : I -> X -> Z) (P : X -> A) (pairs : list X) (idx : list I) :
    (forall i, In i idx -> den (wsumf i) = msum (map (fun p => smul (D i p) (P p)) pairs)) ->
    horner c (map den (map wsumf idx)) =
    msum (map (fun p => horner c (map (fun i => smul (D i p) (P p)) idx)) pairs).
  Proof.
    intros H. rewrite map_map. rewrite <- (horner_msum _ _ _ grp).
    f_equal. apply map_ext_in. exact H.
  Qed.

  Definition good_scalar (nb : Z) (s : list Z) : Prop := wf s /\ nb <= 64 * len s /\ val s < 2 ^ nb.
  (* the specification: sum over the zipped (scalar, base) pairs -- the zip stops at the shorter input *)
  Definition msm_sum (scalars : list (list Z)) (bases : list B) : A :=
    msum (map (fun p => smul (val (fst p)) (denB (snd p))) (combine scalars bases)).

  Theorem msm_wnaf_spec nb bases scalars :
    1 <= nb -> Z.min (len bases) (len scalars) < 2 ^ 64 -> Forall (good_scalar nb) scalars ->
    exists g, msm_bigint_wnaf GO nb bases scalars = Ok g /\ den g = msm_sum scalars bases.
  Proof.
    intros Hnb Hsz Hgood. unfold msm_bigint_wnaf, msm_sum.
    rewrite <- (combine_firstn_min scalars bases). rewrite (Z.min_comm (len scalars)).
    set (size := Z.to_nat (Z.min (len bases) (len scalars))).
    set (sc := firstn size scalars). set (bs := firstn size bases).
    assert (Hgs : Forall (good_scalar nb) sc) by (apply Forall_firstn; exact Hgood).
    rewrite Forall_forall in Hgs.
    pose proof (window_size_bounds (Z.of_nat size)) as Hc.
    assert (Hsz' : 0 <= Z.of_nat size < 2 ^ 64) by (unfold size, len in *; lia).
    specialize (Hc Hsz'). set (c := window_size (Z.of_nat size)) in *.
    assert (Hmd : forall s, In s sc ->
              digits_oob s c nb = false /\ len (make_digits_list s c nb) = div_ceil nb c /\
              evalc c (make_digits_list s c nb) = val s /\
              Forall (fun d => - 2 ^ c <= d <= 2 ^ c) (make_digits_list s c nb)).
    { intros s Hs. destruct (Hgs s Hs) as (Hwf & Hlen & Hv).
      destruct (make_digits_spec s c nb Hwf ltac:(lia) ltac:(lia) Hv) as (Hm & Hl & He & Hf).
      repeat split; auto. unfold make_digits in Hm. destruct (digits_oob s c nb); [discriminate|reflexivity]. }
    rewrite existsb_false by (intros s Hs; apply (Hmd s Hs)).
    pose proof (div_ceil_pos nb c ltac:(lia) ltac:(lia)) as Hdc.
    set (dcn := Z.to_nat (div_ceil nb c)).
    set (pairs := combine (map (fun s => make_digits_list s c nb) sc) bs).
    destruct (combine_windows_spec c (map (wnaf_window_sum GO c pairs) (seq 0 dcn)) ltac:(lia)) as (g & Hg & Hden).
    { destruct dcn eqn:E; [unfold dcn in E; lia|]. cbn. congruence. }
    rewrite Hg. exists g. split; [reflexivity|]. rewrite Hden.
    assert (Hpairs : forall p, In p pairs -> exists s, In s sc /\ fst p = make_digits_list s c nb).
    { intros p Hp. unfold pairs in Hp. rewrite combine_map_l in Hp. apply in_map_iff in Hp.
      destruct Hp as (q & <- & Hq). exists (fst q). split; [|reflexivity].
      destruct q as [s b]. apply in_combine_l in Hq. exact Hq. }
    rewrite (bucket_method_sum c _ (fun i p => dig i p) (fun p => denB (snd p)) pairs).
    2:{ intros i _. apply wnaf_window_sum_spec; [lia|]. apply Forall_forall. intros p Hp.
        destruct (Hpairs p Hp) as (s & Hs & Hfst). destruct (Hmd s Hs) as (_ & _ & _ & Hf).
        unfold dig. rewrite Hfst. destruct (nth_in_or_default i (make_digits_list s c nb) 0) as [Hin|Hd].
        - rewrite Forall_forall in Hf. apply Hf. exact Hin.
        - rewrite Hd. assert (0 < 2 ^ c) by (apply Z.pow_pos_nonneg; lia). lia. }
    unfold pairs. rewrite combine_map_l, map_map. f_equal. apply map_ext_in.
    intros [s b] Hq. cbn [fst snd]. apply in_combine_l in Hq. destruct (Hmd s Hq) as (_ & Hl & He & _).
    unfold dig. cbn [fst snd].
    replace dcn with (length (make_digits_list s c nb)) by (unfold dcn, len in *; lia).
    rewrite (map_nth_seq (fun d => smul d (denB b))). rewrite (horner_digits _ _ _ grp). rewrite He. reflexivity.
  Qed.

  (* ---------- plain buckets ---------- *)
  Definition pdig (c : Z) (w_start : Z) (p : list Z * B) : Z := (val (fst p) / 2 ^ w_start) mod 2 ^ c.
  Definition psi (st : G * list G) : A := add (den (fst st)) (wsum 1 (map den (snd st))).

  Lemma plain_step_psi c ws st p : 1 <= c <= 64 -> 0 <= ws -> len (snd st) = 2 ^ c - 1 ->
    length (snd (plain_bucket_step GO c ws st p)) = length (snd st) /\
    psi (plain_bucket_step GO c ws st p) = add (psi st) (smul (pdig c ws p) (denB (snd p))).
  Proof.
    intros Hc Hws Hlen. unfold plain_bucket_step, pdig, psi. set (k := val (fst p)).
    assert (Hp : 2 <= 2 ^ c) by (change 2 with (2 ^ 1) at 1; apply Z.pow_le_mono_r; lia).
    destruct (Z.eqb_spec k 1) as [E|E].
    - rewrite E. destruct (Z.eqb_spec ws 0) as [E0|E0].
      + cbn [fst snd]. split; [reflexivity|]. rewrite E0, Z.pow_0_r, Z.div_1_r, Z.mod_small, smul_1_l, den_madd by lia.
        rewrite <- !add_assoc. f_equal. apply add_comm.
      + split; [reflexivity|]. rewrite Z.div_small, Z.mod_0_l by (try split; try lia; apply Z.pow_gt_1; lia).
        cbn [GroupProofs.smul]. symmetry; apply add_0_r.
    - rewrite Z.shiftr_div_pow2 by lia. rewrite <- W64_eq.
      rewrite <- (Zmod_div_mod (2 ^ c) (2 ^ 64)); try lia.
      2:{ exists (2 ^ (64 - c)). rewrite <- Z.pow_add_r by lia. f_equal; lia. }
      set (d := (k / 2 ^ ws) mod 2 ^ c).
      assert (Hd : 0 <= d < 2 ^ c) by (apply Z.mod_pos_bound; lia).
      destruct (Z.eqb_spec d 0) as [D0|D0].
      + split; [reflexivity|]. rewrite D0. cbn [GroupProofs.smul]. symmetry; apply add_0_r.
      + cbn [fst snd]. split; [apply upd_length|].
        rewrite (wsum_upd _ (denB (snd p))) by (auto; unfold len in Hlen; lia).
        replace (1 + Z.of_nat (Z.to_nat (d - 1))) with d by lia. apply add_assoc.
  Qed.

  Lemma plain_fold_psi c ws pairs : 1 <= c <= 64 -> 0 <= ws -> forall st, len (snd st) = 2 ^ c - 1 ->
    psi (fold_left (plain_bucket_step GO c ws) pairs st) =
    add (psi st) (msum (map (fun p => smul (pdig c ws p) (denB (snd p))) pairs)).
  Proof.
    intros Hc Hws. induction pairs as [|p pairs IH]; intros st Hlen; cbn [fold_left map].
    - cbn. symmetry; apply add_0_r.
    - destruct (plain_step_psi c ws st p Hc Hws Hlen) as [Hl He].
      rewrite IH by (unfold len in *; rewrite Hl; exact Hlen).
      rewrite He, msum_cons. symmetry; apply add_assoc.
  Qed.

  Lemma plain_window_sum_spec c pairs ws : 1 <= c <= 64 -> 0 <= ws ->
    den (plain_window_sum GO c pairs ws) = msum (map (fun p => smul (pdig c ws p) (denB (snd p))) pairs).
  Proof.
    intros Hc Hws. unfold plain_window_sum. rewrite running_sum_spec.
    assert (Hp : 2 <= 2 ^ c) by (change 2 with (2 ^ 1) at 1; apply Z.pow_le_mono_r; lia).
    fold (psi (fold_left (plain_bucket_step GO c ws) pairs (gzero GO, repeat (gzero GO) (Z.to_nat (2 ^ c - 1))))).
    rewrite plain_fold_psi; auto.
    - unfold psi. cbn [fst snd]. rewrite wsum_repeat_zero, den_zero, !add_0_l. reflexivity.
    - cbn [snd]. unfold len. rewrite repeat_length. lia.
  Qed.

  (* the n low radix-2^c digits of k *)
  Lemma plain_digits_eval c k : 0 < c -> forall n s,
    evalc c (map (fun i => (k / 2 ^ (c * Z.of_nat i)) mod 2 ^ c) (seq s n)) =
    (k / 2 ^ (c * Z.of_nat s)) mod 2 ^ (c * Z.of_nat n).
  Proof.
    intros Hc. induction n as [|n IH]; intros s; cbn [seq map evalc fold_right].
    - rewrite Z.mul_0_r, Z.pow_0_r, Z.mod_1_r. reflexivity.
    - fold (evalc c (map (fun i => (k / 2 ^ (c * Z.of_nat i)) mod 2 ^ c) (seq (S s) n))). rewrite IH.
      assert (0 < 2 ^ c) by (apply Z.pow_pos_nonneg; lia).
      replace (c * Z.of_nat (S n)) with (c + c * Z.of_nat n) by lia.
      rewrite Z.pow_add_r, Z.rem_mul_r by (try apply Z.pow_pos_nonneg; nia).
      replace (c * Z.of_nat (S s)) with (c * Z.of_nat s + c) by lia.
      rewrite Z.pow_add_r, <- Z.div_div by (try apply Z.pow_pos_nonneg; nia). reflexivity.
  Qed.

  Theorem msm_plain_spec nb bases scalars :
    1 <= nb -> Z.min (len bases) (len scalars) < 2 ^ 64 -> Forall (good_scalar nb) scalars ->
    exists g, msm_bigint_plain GO nb bases scalars = Ok g /\ den g = msm_sum scalars bases.
  Proof.
    intros Hnb Hsz Hgood. unfold msm_bigint_plain, msm_sum.
    rewrite <- (combine_firstn_min scalars bases). rewrite (Z.min_comm (len scalars)).
    set (size := Z.to_nat (Z.min (len bases) (len scalars))).
    set (sc := firstn size scalars). set (bs := firstn size bases).
    assert (Hgs : Forall (good_scalar nb) sc) by (apply Forall_firstn; exact Hgood).
    rewrite Forall_forall in Hgs.
    pose proof (window_size_bounds (Z.of_nat size)) as Hc.
    assert (Hsz' : 0 <= Z.of_nat size < 2 ^ 64) by (unfold size, len in *; lia).
    specialize (Hc Hsz'). set (c := window_size (Z.of_nat size)) in *.
    pose proof (div_ceil_pos nb c ltac:(lia) ltac:(lia)) as Hdc.
    pose proof (div_ceil_bounds nb c ltac:(lia) ltac:(lia)) as Hdcb.
    set (dcn := Z.to_nat (div_ceil nb c)).
    set (pairs := filter (fun p : list Z * B => negb (val (fst p) =? 0)) (combine sc bs)).
    set (starts := map (fun i => c * Z.of_nat i) (seq 0 dcn)).
    destruct (combine_windows_spec c (map (plain_window_sum GO c pairs) starts) ltac:(lia)) as (g & Hg & Hden).
    { unfold starts. destruct dcn eqn:E; [unfold dcn in E; lia|]. cbn. congruence. }
    rewrite Hg. exists g. split; [reflexivity|]. rewrite Hden.
    rewrite (bucket_method_sum c _ (fun ws p => pdig c ws p) (fun p => denB (snd p)) pairs).
    2:{ intros ws Hws. apply plain_window_sum_spec; [lia|]. unfold starts in Hws. apply in_map_iff in Hws.
        destruct Hws as (i & <- & _). nia. }
    rewrite <- (msum_filter _ _ _ grp (fun p => smul (val (fst p)) (denB (snd p)))
                 (fun p => negb (val (fst p) =? 0)) (combine sc bs)).
    2:{ intros p Hp. apply Bool.negb_false_iff, Z.eqb_eq in Hp. rewrite Hp. reflexivity. }
    fold pairs. f_equal. apply map_ext_in. intros [s b] Hq.
    unfold pairs in Hq. apply filter_In in Hq. destruct Hq as [Hq _]. apply in_combine_l in Hq.
    destruct (Hgs s Hq) as (Hwf & Hlen & Hv). cbn [fst snd].
    unfold starts. rewrite map_map. unfold pdig. cbn [fst].
    rewrite <- (map_map (fun i => (val s / 2 ^ (c * Z.of_nat i)) mod 2 ^ c) (fun d => smul d (denB b))).
    rewrite (horner_digits _ _ _ grp). f_equal.
    rewrite plain_digits_eval by lia. rewrite Z.mul_0_r, Z.pow_0_r, Z.div_1_r.
    apply Z.mod_small. pose proof (val_bound s Hwf). split; [lia|].
    apply Z.lt_le_trans with (2 ^ nb); [lia|]. apply Z.pow_le_mono_r; [lia|]. unfold dcn. rewrite Z2Nat.id by lia. lia.
  Qed.

  (* ---------- trait entry points ---------- *)
  Theorem msm_bigint_spec cheap nb bases scalars :
    1 <= nb -> Z.min (len bases) (len scalars) < 2 ^ 64 -> Forall (good_scalar nb) scalars ->
    exists g, msm_bigint GO cheap nb bases scalars = Ok g /\ den g = msm_sum scalars bases.
  Proof. unfold msm_bigint. destruct cheap; [apply msm_wnaf_spec | apply msm_plain_spec]. Qed.

  (* field-element scalars: canonical residues below 2^nb, N limbs *)
  Definition msm_sum_z (ks : list Z) (bases : list B) : A :=
    msum (map (fun p => smul (fst p) (denB (snd p))) (combine ks bases)).

  Lemma good_to_limbs nb N k : nb <= 64 * Z.of_nat N -> 0 <= k < 2 ^ nb ->
    good_scalar nb (to_limbs N k) /\ val (to_limbs N k) = k.
  Proof.
    intros HN Hk. destruct (to_limbs_spec N k) as (Hw & Hl & Hv).
    assert (Hkk : k mod Wn N = k).
    { apply Z.mod_small. unfold Wn. rewrite <- W64_eq, <- Z.pow_mul_r by lia. split; [lia|].
      apply Z.lt_le_trans with (2 ^ nb); [lia|]. apply Z.pow_le_mono_r; lia. }
    split; [|congruence]. repeat split; auto; unfold len; rewrite ?Hl, ?Hv, ?Hkk; lia.
  Qed.

  Lemma msm_sum_limbs nb N ks bases : nb <= 64 * Z.of_nat N -> Forall (fun k => 0 <= k < 2 ^ nb) ks ->
    Forall (good_scalar nb) (map (to_limbs N) ks) /\ msm_sum (map (to_limbs N) ks) bases = msm_sum_z ks bases.
  Proof.
    intros HN HF. split.
    - apply Forall_map. eapply Forall_impl; [|exact HF]. intros k Hk. apply good_to_limbs; auto.
    - unfold msm_sum, msm_sum_z. rewrite combine_map_l, map_map. f_equal. apply map_ext_in.
      intros [k b] Hq. cbn [fst snd]. apply in_combine_l in Hq. rewrite Forall_forall in HF.
      destruct (good_to_limbs nb N k HN (HF k Hq)) as [_ ->]. reflexivity.
  Qed.

  Theorem msm_unchecked_truncates cheap nb N bases ks :
    1 <= nb <= 64 * Z.of_nat N -> Z.min (len bases) (len ks) < 2 ^ 64 -> Forall (fun k => 0 <= k < 2 ^ nb) ks ->
    exists g, msm_unchecked GO cheap nb N bases ks = Ok g /\
              den g = msm_sum_z (firstn (length bases) ks) (firstn (length ks) bases).
  Proof.
    intros Hnb Hsz HF. unfold msm_unchecked.
    destruct (msm_sum_limbs nb N ks bases ltac:(lia) HF) as [Hg Hs].
    destruct (msm_bigint_spec cheap nb bases (map (to_limbs N) ks) ltac:(lia)) as (g & Hg1 & Hg2); auto.
    { unfold len in *. rewrite map_length. exact Hsz. }
    exists g. split; [exact Hg1|]. rewrite Hg2, Hs. unfold msm_sum_z. f_equal. f_equal.
    symmetry. apply combine_firstn_lengths.
  Qed.

  Theorem msm_checked_spec cheap nb N bases ks :
    1 <= nb <= 64 * Z.of_nat N -> len bases < 2 ^ 64 -> Forall (fun k => 0 <= k < 2 ^ nb) ks ->
    (length bases = length ks ->
       exists g, msm_checked GO cheap nb N bases ks = Ok g /\ den g = msm_sum_z ks bases) /\
    (length bases <> length ks ->
       msm_checked GO cheap nb N bases ks = Err (Z.min (len bases) (len ks))).
  Proof.
    intros Hnb Hsz HF. unfold msm_checked, len. split; intros Hl.
    - rewrite Hl, Z.eqb_refl. destruct (msm_unchecked_truncates cheap nb N bases ks Hnb) as (g & Hg1 & Hg2); auto.
      { unfold len in *. lia. }
      exists g. split; [exact Hg1|]. rewrite Hg2.
      replace (firstn (length bases) ks) with ks by (rewrite Hl, firstn_all; reflexivity).
      replace (firstn (length ks) bases) with bases by (rewrite <- Hl, firstn_all; reflexivity). reflexivity.
    - destruct (Z.eqb_spec (Z.of_nat (length bases)) (Z.of_nat (length ks))); [lia|reflexivity].
  Qed.
End MsmProofs.
