(* Uniform case interpreter for C05.  Argument layout of every case:
     a[0] = [cfg_id; kind]     kind 0 = short Weierstrass, 1 = twisted Edwards (cfg_id: harness only)
     a[1] = [p]                base field F_p (prime fields only)
     a[2] = [coeff a]   a[3] = [coeff b (SW) | d (TE)]
     a[4] = [r; MODULUS_BIT_SIZE of F_r; limbs N of its BigInt]
     a[5] = op parameters   a[6] = scalars (integers)   a[7] = bases, flat affine coordinates
            (SW: x, y, infinity-flag per point; TE: x, y per point)
   Result: one affine point (hash-map order is not observable).
   Pairing target groups (`PairingOutput<P>`, kind 2 = Fp12 = Fp6[w]/(w^2 - v), kind 3 = Fp4 = Fp2[v]/(v^2 - u)):
     a[2] = [nr2]              Fp2 = Fp[u]/(u^2 - nr2)
     a[3] = [c0; c1]           Fp6 = Fp2[v]/(v^3 - (c0 + c1 u))   (kind 3: unused)
     a[7] = bases, 12 (4) base-prime-field coordinates per element; result: the coordinates of one element.
     op 1 (params): a[7] = the generator e(G1, G2) the generator of prop.py builds its bases from. *)
From V Require Import Base.Field Base.Word C03.CurveExec C05.MsmModel C05.StreamModel C05.GtModel.

Definition unsupported : list (list Z) := [[9]].
Definition arg (n : nat) (a : list (list Z)) : list Z := nth n a [].

Fixpoint chunk (k : nat) (fuel : nat) (l : list Z) : list (list Z) :=
  match fuel with
  | O => []
  | S f => match l with [] => [] | _ => firstn k l :: chunk k f (skipn k l) end
  end.

Definition sw_gops {T} (F : Fops T) (a : T) : Gops (sw_jac (T := T)) (sw_aff (T := T)) :=
  mkGops _ _ (sw_zero F) (sw_add F a) (sw_madd F a) (sw_msub F a) (sw_double F a).
Definition te_gops {T} (F : Fops T) (a d : T) : Gops (te_ext (T := T)) (te_aff (T := T)) :=
  mkGops _ _ (te_zero F) (te_add F a d) (te_madd F a d) (te_msub F a d) (te_double F a).

(* derived Eq of the affine types *)
Definition sw_aff_beq {T} (F : Fops T) (A C : sw_aff (T := T)) : bool :=
  match A, C with
  | None, None => true
  | Some (x, y), Some (x', y') => feqb F x x' && feqb F y y'
  | _, _ => false
  end.
Definition te_aff_beq {T} (F : Fops T) (A C : te_aff (T := T)) : bool :=
  feqb F (fst A) (fst C) && feqb F (snd A) (snd C).

(* a list of [fuel] elements f i, f (i+1), ... ; (index, value) association in a flat list [i0; v0; i1; v1; ...] *)
Fixpoint long_stream {A} (fuel : nat) (i : Z) (f : Z -> A) : list A :=
  match fuel with O => [] | S fu => f i :: long_stream fu (i + 1) f end.
(* indices (NOT reduced modulo r: par[2..]) interleaved with the scalar values (field elements) *)
Fixpoint interleave (idx vals : list Z) : list Z :=
  match idx, vals with
  | i :: idx', v :: vals' => i :: v :: interleave idx' vals'
  | _, _ => []
  end.
Fixpoint sparse_lookup (i : Z) (l : list Z) : Z :=
  match l with
  | j :: v :: r => if i =? j then v else sparse_lookup i r
  | _ => 0
  end.

Section RunG.
  Context {G B : Type} (GO : Gops G B) (beq : B -> B -> bool)
          (bases_of : list Z -> list B) (out : G -> list (list Z)).

  Definition fin (o : outcome G) : list (list Z) :=
    match o with Ok g => out g | Err e => [[1; 1]; [e]] | Panic => [[2]] end.

  Definition run_ops (op : Z) (args : list (list Z)) : list (list Z) :=
    let r := nth 0 (arg 4 args) 0 in
    let nb := nth 1 (arg 4 args) 0 in
    let N := Z.to_nat (nth 2 (arg 4 args) 0) in
    let par := arg 5 args in
    let ks := arg 6 args in
    let bs := bases_of (arg 7 args) in
    let fks := map (fun k => k mod r) ks in          (* field elements *)
    let lks := map (to_limbs N) ks in                (* big integers *)
    match op with
    | 2 => fin (msm_checked GO true nb N bs fks)
    | 3 => fin (msm_unchecked GO true nb N bs fks)
    | 4 => fin (msm_bigint GO true nb bs lks)
    | 5 => fin (msm_bigint_wnaf GO nb bs lks)
    | 6 => fin (msm_bigint_plain GO nb bs lks)
    | 7 => fin (msm_chunks GO true nb N (2 ^ 20) bs fks)
    (* 11 msm_chunks_long: a stream of par[0] (> 2^20) elements given intensionally -- base i = pool[i mod |pool|],
       scalar i = 0 except at index par[2+j] where it is ks[j] -- so that the chunk loop runs more than once *)
    | 11 => match bs with
            | [] => unsupported
            | b0 :: _ =>
                let n := nth 0 par 0 in
                fin (msm_chunks GO true nb N (2 ^ 20)
                       (* par[1] more bases than scalars: the stream alignment skips them ONCE, before the first chunk *)
                       (long_stream (Z.to_nat (n + nth 1 par 0)) 0 (fun i => nth (Z.to_nat (i mod Z.of_nat (length bs))) bs b0))
                       (long_stream (Z.to_nat n) 0 (fun i => sparse_lookup i (interleave (skipn 2 par) fks))))
            end
    | 9 => fin (cp_run GO (msm_bigint GO true nb) (nth 0 par 0) (combine bs lks))
    | 10 => fin (hm_run GO (msm_bigint GO true nb) beq r N (nth 0 par 0) (combine bs fks))
    | _ => unsupported
    end.
End RunG.

Definition run_C05_curves (op : Z) (a : list (list Z)) : list (list Z) :=
  let kind := nth 1 (arg 0 a) 0 in
  let p := nth 0 (arg 1 a) 0 in
  let F := ZpOps p in
  let ca := fof F (arg 2 a) in
  let cb := fof F (arg 3 a) in
  match op with
  | 1 => [[0]; [p]; fcoords F ca; fcoords F cb; arg 4 a; [1]]
  | 8 => match make_digits (arg 6 a) (nth 0 (arg 5 a) 0) (nth 1 (arg 5 a) 0) with
         | Some ds => [[0]; ds]
         | None => [[2]]
         end
  | _ =>
    if kind =? 0 then
      run_ops (sw_gops F ca) (sw_aff_beq F)
              (fun l => map (sw_aff_of_list F) (chunk 3 (length l) l))
              (fun P => [[0]; sw_aff_to_list F (sw_to_affine F P)]) op a
    else
      run_ops (te_gops F ca cb) (te_aff_beq F)
              (fun l => map (te_aff_of_list F) (chunk 2 (length l) l))
              (fun P => match te_to_affine_opt F P with
                        | Some A => [[0]; te_aff_to_list F A]
                        | None => [[2]]
                        end) op a
  end.

(* ---------- pairing target groups: the dictionary [gt_gops] over the executed tower ---------- *)
Section RunGT.
  Context {T : Type} (B : Fops T) (nr : T).
  Local Notation Q := (QuadOps B nr).

  Definition gt_unit (i : nat) : T * T :=
    fof Q (map (fun j => if Nat.eqb j i then 1 else 0) (seq 0 (fdeg Q))).

  Definition run_gt (op : Z) (a : list (list Z)) : list (list Z) :=
    match op with
    | 1 => let u := gt_unit 1 in
           let v := gt_unit 2 in
           let w := gt_unit (Nat.div2 (fdeg Q)) in
           let g := fof Q (arg 7 a) in
           (* tower constants as products of basis elements (compared with the real field), the scalar-field
              parameters, NEGATION_IS_CHEAP = INVERSE_IS_FAST = true, the generator and g * conj g (= 1) *)
           [[0]; [fchar Q]; fcoords Q (fmul Q u u); fcoords Q (fmul Q v v); fcoords Q (fmul Q (fmul Q v v) v);
            fcoords Q (fmul Q w w); arg 4 a; [1]; fcoords Q g; fcoords Q (fmul Q g (gt_conj B g))]
    | _ => run_ops (gt_gops B nr) (feqb Q)
                   (fun l => map (fof Q) (chunk (fdeg Q) (length l) l))
                   (fun g => [[0]; fcoords Q g]) op a
    end.
End RunGT.

Definition run_C05 (op : Z) (a : list (list Z)) : list (list Z) :=
  let kind := nth 1 (arg 0 a) 0 in
  let p := nth 0 (arg 1 a) 0 in
  if (op =? 8) || (kind <? 2) then run_C05_curves op a
  else
    let F2 := QuadOps (ZpOps p) (nth 0 (arg 2 a) 0 mod p) in
    if kind =? 2 then
      let F6 := CubicOps F2 (nth 0 (arg 3 a) 0 mod p, nth 1 (arg 3 a) 0 mod p) in
      run_gt F6 ((0, 0), (1 mod p, 0), (0, 0)) op a
    else if kind =? 3 then run_gt F2 (0, 1 mod p) op a
    else unsupported.
