(* C05 -- the incremental accumulators of
   ec/src/scalar_mul/variable_base/stream_pippenger.rs, over any MSM routine [msmf]
   (instantiated with MsmModel.msm_bigint in Run.v and in the theorems).
   No proofs in this file. *)
From V Require Import Base.Word C05.MsmModel.

Section Stream.
  Context {G B : Type} (GO : Gops G B).
  Variable msmf : list B -> list (list Z) -> outcome G.     (* G::msm_bigint *)

  (* ---------- ChunkedPippenger ---------- *)
  Record chunked := mkChunked {
    cp_scalars : list (list Z);      (* scalars_buffer *)
    cp_bases : list B;               (* bases_buffer *)
    cp_result : G;
    cp_size : Z                      (* buf_size *)
  }.

  (* new(max_msm_buffer) and with_size(buf_size) build the same state *)
  Definition cp_new (size : Z) : chunked := mkChunked [] [] (gzero GO) size.

  (* add: push, then flush when the buffer length EQUALS buf_size (so buf_size = 0 never
     flushes before finalize: the length is at least 1 after the push) *)
  Definition cp_add (st : outcome chunked) (p : B * list Z) : outcome chunked :=
    match st with
    | Ok s =>
        let scalars := cp_scalars s ++ [snd p] in
        let bases := cp_bases s ++ [fst p] in
        if len scalars =? cp_size s then
          match msmf bases scalars with
          | Ok m => Ok (mkChunked [] [] (gadd GO (cp_result s) m) (cp_size s))
          | Err e => Err e
          | Panic => Panic
          end
        else Ok (mkChunked scalars bases (cp_result s) (cp_size s))
    | Err e => Err e
    | Panic => Panic
    end.

  Definition cp_finalize (st : outcome chunked) : outcome G :=
    match st with
    | Ok s =>
        match cp_scalars s with
        | [] => Ok (cp_result s)
        | _ => match msmf (cp_bases s) (cp_scalars s) with
               | Ok m => Ok (gadd GO (cp_result s) m)
               | Err e => Err e
               | Panic => Panic
               end
        end
    | Err e => Err e
    | Panic => Panic
    end.

  Definition cp_run (size : Z) (ops : list (B * list Z)) : outcome G :=
    cp_finalize (fold_left cp_add ops (Ok (cp_new size))).

  (* ---------- HashMapPippenger ---------- *)
  Variable beq : B -> B -> bool.       (* Eq on MulBase *)
  Variable r : Z.                      (* scalar-field modulus *)
  Variable N : nat.                    (* limbs of the scalar field's BigInt *)

  Record hashmap := mkHashmap {
    hm_buffer : list (B * Z);          (* the map, as an association list in insertion order;
                                          the iteration order of the real map is not observable
                                          in the returned group element *)
    hm_result : G;
    hm_size : Z
  }.
  Definition hm_new (size : Z) : hashmap := mkHashmap [] (gzero GO) size.

  (* entry(base).or_insert(0) += scalar *)
  Fixpoint hm_upsert (buf : list (B * Z)) (b : B) (s : Z) : list (B * Z) :=
    match buf with
    | [] => [(b, (0 + s) mod r)]
    | (b', v) :: rest => if beq b' b then (b', (v + s) mod r) :: rest
                         else (b', v) :: hm_upsert rest b s
    end.

  Definition hm_flush (buf : list (B * Z)) : outcome G :=
    msmf (map fst buf) (map (fun e => to_limbs N (snd e)) buf).

  Definition hm_add (st : outcome hashmap) (p : B * Z) : outcome hashmap :=
    match st with
    | Ok s =>
        let buf := hm_upsert (hm_buffer s) (fst p) (snd p) in
        if len buf =? hm_size s then
          match hm_flush buf with
          | Ok m => Ok (mkHashmap [] (gadd GO (hm_result s) m) (hm_size s))
          | Err e => Err e
          | Panic => Panic
          end
        else Ok (mkHashmap buf (hm_result s) (hm_size s))
    | Err e => Err e
    | Panic => Panic
    end.

  Definition hm_finalize (st : outcome hashmap) : outcome G :=
    match st with
    | Ok s =>
        match hm_buffer s with
        | [] => Ok (hm_result s)
        | _ => match hm_flush (hm_buffer s) with
               | Ok m => Ok (gadd GO (hm_result s) m)
               | Err e => Err e
               | Panic => Panic
               end
        end
    | Err e => Err e
    | Panic => Panic
    end.

  Definition hm_run (size : Z) (ops : list (B * Z)) : outcome G :=
    hm_finalize (fold_left hm_add ops (Ok (hm_new size))).
End Stream.
