(* C05 -- the incremental accumulators return the sum of the whole history, for every
   sequence of add calls and every buffer size (invariant over fold_left). *)
From V Require Import Base.Word C05.MsmModel C05.StreamModel C05.GroupProofs C05.MsmProofs.
Require Import Lia.

Lemma combine_snoc {X Y} (l : list X) : forall (m : list Y) x y, length l = length m ->
  combine (l ++ [x]) (m ++ [y]) = combine l m ++ [(x, y)].
Proof.
  induction l as [|a l IH]; intros [|b m] x y H; cbn [length] in H; try discriminate; cbn [app combine].
  - reflexivity.
  - rewrite IH by lia. reflexivity.
Qed.

Lemma combine_map_map {X Y Z'} (f : X -> Y) (g : X -> Z') l :
  combine (map f l) (map g l) = map (fun e => (f e, g e)) l.
Proof. induction l as [|x l IH]; cbn [map combine]; [reflexivity|]. rewrite IH. reflexivity. Qed.

Section StreamProofs.
  Context {G B A : Type} (GO : Gops G B) (add : A -> A -> A) (neg : A -> A) (zero : A)
          (den : G -> A) (denB : B -> A).
  Hypothesis grp : group_laws add neg zero.
  Hypothesis hom : gops_hom GO add neg zero den denB.
  Local Notation smul := (smul add neg zero).
  Local Notation msum := (msum add zero).
  Local Notation msm_sum := (msm_sum add neg zero denB).

  (* any MSM routine that is correct on well-formed inputs (instantiated with msm_bigint below) *)
  Variable msmf : list B -> list (list Z) -> outcome G.
  Variable good : list Z -> Prop.
  Hypothesis msmf_ok : forall bs ss, length bs = length ss -> len ss < 2 ^ 64 -> Forall good ss ->
    exists g, msmf bs ss = Ok g /\ den g = msm_sum ss bs.

  Let add_assoc := g_assoc _ _ _ grp.
  Let add_comm := g_comm _ _ _ grp.
  Let add_0_l := g_0_l _ _ _ grp.
  Let add_0_r := add_0_r _ _ _ grp.
  Let msum_app := msum_app _ _ _ grp.
  Let den_zero := h_zero _ _ _ _ _ _ hom.
  Let den_add := h_add _ _ _ _ _ _ hom.

  (* ---------- ChunkedPippenger ---------- *)
  Definition hist (ops : list (B * list Z)) : A :=
    msum (map (fun p => smul (val (snd p)) (denB (fst p))) ops).

  Lemma hist_snoc ops p : hist (ops ++ [p]) = add (hist ops) (smul (val (snd p)) (denB (fst p))).
  Proof. unfold hist. rewrite map_app, msum_app. cbn [map]. rewrite msum_cons. cbn. rewrite add_0_r. reflexivity. Qed.

  Lemma msm_sum_snoc sc bs s b : length sc = length bs ->
    msm_sum (sc ++ [s]) (bs ++ [b]) = add (msm_sum sc bs) (smul (val s) (denB b)).
  Proof.
    intros H. unfold MsmProofs.msm_sum. rewrite combine_snoc by exact H. rewrite map_app, msum_app.
    cbn [map fst snd]. rewrite msum_cons. cbn. rewrite add_0_r. reflexivity.
  Qed.

  (* the invariant:  result + sum(buffer) = sum(history) *)
  Definition cp_inv (size : Z) (s : chunked) (done : list (B * list Z)) : Prop :=
    length (cp_scalars s) = length (cp_bases s) /\ Forall good (cp_scalars s) /\
    len (cp_scalars s) <= len done /\ cp_size s = size /\
    add (den (cp_result s)) (msm_sum (cp_scalars s) (cp_bases s)) = hist done.

  Lemma cp_add_inv size s done p : cp_inv size s done -> good (snd p) -> len done + 1 < 2 ^ 64 ->
    exists s', cp_add GO msmf (Ok s) p = Ok s' /\ cp_inv size s' (done ++ [p]).
  Proof.
    intros (Hl & Hg & Hb & Hs & Hinv) Hp Hbound. unfold cp_add.
    assert (Hl' : length (cp_bases s ++ [fst p]) = length (cp_scalars s ++ [snd p])) by (rewrite !app_length; cbn; lia).
    assert (Hg' : Forall good (cp_scalars s ++ [snd p])) by (apply Forall_app; split; [exact Hg|constructor; [exact Hp|constructor]]).
    assert (Hlen' : len (cp_scalars s ++ [snd p]) <= len (done ++ [p])) by (unfold len in *; rewrite !app_length; cbn; lia).
    assert (Hsum : add (den (cp_result s)) (msm_sum (cp_scalars s ++ [snd p]) (cp_bases s ++ [fst p])) = hist (done ++ [p])).
    { rewrite msm_sum_snoc, hist_snoc, <- Hinv by exact Hl. apply add_assoc. }
    destruct (len (cp_scalars s ++ [snd p]) =? cp_size s).
    - destruct (msmf_ok _ _ Hl') as (m & Hm & Hdm); [unfold len in *; rewrite app_length in *; cbn in *; lia | exact Hg'|].
      rewrite Hm. eexists; split; [reflexivity|]. unfold cp_inv. cbn [cp_scalars cp_bases cp_result cp_size].
      repeat split; auto; [unfold len; cbn; lia|].
      rewrite den_add, Hdm. unfold MsmProofs.msm_sum at 2. cbn. rewrite add_0_r. exact Hsum.
    - eexists; split; [reflexivity|]. unfold cp_inv. cbn [cp_scalars cp_bases cp_result cp_size]. repeat split; auto.
  Qed.

  Lemma cp_fold_inv size : forall ops s done, cp_inv size s done -> Forall (fun p => good (snd p)) ops ->
    len done + len ops < 2 ^ 64 ->
    exists s', fold_left (cp_add GO msmf) ops (Ok s) = Ok s' /\ cp_inv size s' (done ++ ops).
  Proof.
    induction ops as [|p ops IH]; intros s done Hinv HF Hb.
    - exists s. rewrite app_nil_r. auto.
    - inversion HF as [|? ? Hp HF']; subst. cbn [fold_left].
      destruct (cp_add_inv size s done p Hinv Hp) as (s1 & H1 & Hinv1); [unfold len in *; cbn [length] in *; lia|].
      rewrite H1. destruct (IH s1 (done ++ [p]) Hinv1 HF') as (s' & H2 & Hinv2).
      { unfold len in *. rewrite app_length. cbn [length] in *. lia. }
      exists s'. split; [exact H2|]. rewrite <- app_assoc in Hinv2. exact Hinv2.
  Qed.

  (* chunked_refines_sum: every buffer size (0 = never flush before finalize), every history *)
  Theorem chunked_refines_sum size ops : len ops < 2 ^ 64 -> Forall (fun p => good (snd p)) ops ->
    exists g, cp_run GO msmf size ops = Ok g /\ den g = hist ops.
  Proof.
    intros Hb HF. unfold cp_run.
    destruct (cp_fold_inv size ops (cp_new GO size) []) as (s & Hs & (Hl & Hg & Hbd & Hsz & Hinv)); auto.
    { unfold cp_inv, cp_new. cbn. repeat split; auto; [unfold len; cbn; lia|].
      rewrite den_zero. unfold MsmProofs.msm_sum, hist. cbn. apply add_0_l. }
    rewrite Hs. cbn [app] in Hinv, Hbd. unfold cp_finalize.
    destruct (cp_scalars s) as [|x sc] eqn:E.
    - eexists; split; [reflexivity|]. rewrite <- Hinv. unfold MsmProofs.msm_sum. cbn. symmetry; apply add_0_r.
    - destruct (msmf_ok (cp_bases s) (cp_scalars s)) as (m & Hm & Hdm); rewrite ?E;
        [symmetry; exact Hl | unfold len in *; lia | exact Hg |].
      rewrite E in Hm. rewrite Hm. eexists; split; [reflexivity|]. rewrite den_add, Hdm. rewrite E. exact Hinv.
  Qed.

  (* ---------- HashMapPippenger ---------- *)
  Variable beq : B -> B -> bool.
  Variable r : Z.
  Variable N : nat.
  Hypothesis beq_sound : forall b b', beq b' b = true -> denB b' = denB b.
  Hypothesis r_pos : 0 < r.
  Hypothesis limbs_ok : forall v, 0 <= v < r -> good (to_limbs N v) /\ val (to_limbs N v) = v.

  Let smul_add_l := smul_add_l _ _ _ grp.
  Let smul_mul := smul_mul _ _ _ grp.
  Let smul_0_r := smul_0_r _ _ _ grp.
  Let smul_opp_l := smul_opp_l _ _ _ grp.

  Definition histz (ops : list (B * Z)) : A := msum (map (fun p => smul (snd p) (denB (fst p))) ops).
  Definition torsion (b : B) : Prop := smul r (denB b) = zero.       (* r * P = 0 *)

  Lemma smul_mod k P : smul r P = zero -> smul (k mod r) P = smul k P.
  Proof.
    intros H. rewrite Z.mod_eq by lia. replace (k - r * (k / r)) with (k + (- (k / r)) * r) by lia.
    rewrite smul_add_l, smul_mul, H, smul_0_r. apply add_0_r.
  Qed.

  Lemma upsert_spec b s : torsion b -> 0 <= s < r -> forall buf, Forall (fun e => 0 <= snd e < r) buf ->
    Forall (fun e => 0 <= snd e < r) (hm_upsert beq r buf b s) /\
    (length (hm_upsert beq r buf b s) <= S (length buf))%nat /\
    histz (hm_upsert beq r buf b s) = add (histz buf) (smul s (denB b)).
  Proof.
    intros Ht Hs. induction buf as [|[b' v] buf IH]; intros HF; cbn [hm_upsert].
    - split; [constructor; [cbn; apply Z.mod_pos_bound; lia|constructor]|]. split; [cbn; lia|].
      unfold histz. cbn [map fst snd]. rewrite !msum_cons. cbn [GroupProofs.msum fold_right].
      rewrite Z.add_0_l, Z.mod_small by lia. rewrite add_0_l. apply add_0_r.
    - inversion HF as [|? ? Hv HF']; subst. cbn [snd] in Hv.
      destruct (beq b' b) eqn:E.
      + split; [constructor; [cbn; apply Z.mod_pos_bound; lia|exact HF']|]. split; [cbn; lia|].
        unfold histz. cbn [map fst snd]. rewrite !msum_cons.
        rewrite (beq_sound _ _ E). rewrite smul_mod by exact Ht. rewrite smul_add_l.
        rewrite <- !add_assoc. f_equal. apply add_comm.
      + destruct (IH HF') as (IH1 & IH2 & IH3). split; [constructor; auto|]. split; [cbn [length]; lia|].
        unfold histz in *. cbn [map fst snd]. rewrite !msum_cons, IH3. apply add_assoc.
  Qed.

  Lemma flush_spec buf : Forall (fun e => 0 <= snd e < r) buf -> len buf < 2 ^ 64 ->
    exists m, hm_flush msmf N buf = Ok m /\ den m = histz buf.
  Proof.
    intros HF Hb. unfold hm_flush.
    destruct (msmf_ok (map fst buf) (map (fun e => to_limbs N (snd e)) buf)) as (m & Hm & Hdm).
    - rewrite !map_length. reflexivity.
    - unfold len in *. rewrite map_length. exact Hb.
    - apply Forall_map. eapply Forall_impl; [|exact HF]. intros e He. apply limbs_ok. exact He.
    - exists m. split; [exact Hm|]. rewrite Hdm. unfold MsmProofs.msm_sum, histz.
      rewrite combine_map_map, map_map. f_equal. apply map_ext_in. intros e He. cbn [fst snd].
      rewrite Forall_forall in HF. destruct (limbs_ok (snd e) (HF e He)) as [_ ->]. reflexivity.
  Qed.

  Definition hm_inv (size : Z) (s : hashmap) (done : list (B * Z)) : Prop :=
    Forall (fun e => 0 <= snd e < r) (hm_buffer s) /\ len (hm_buffer s) <= len done /\ hm_size s = size /\
    add (den (hm_result s)) (histz (hm_buffer s)) = histz done.

  Lemma histz_snoc ops p : histz (ops ++ [p]) = add (histz ops) (smul (snd p) (denB (fst p))).
  Proof. unfold histz. rewrite map_app, msum_app. cbn [map]. rewrite msum_cons. cbn. rewrite add_0_r. reflexivity. Qed.

  Definition good_op (p : B * Z) : Prop := torsion (fst p) /\ 0 <= snd p < r.

  Lemma hm_add_inv size s done p : hm_inv size s done -> good_op p -> len done + 1 < 2 ^ 64 ->
    exists s', hm_add GO msmf beq r N (Ok s) p = Ok s' /\ hm_inv size s' (done ++ [p]).
  Proof.
    intros (HF & Hb & Hs & Hinv) [Ht Hr] Hbound. unfold hm_add.
    destruct (upsert_spec (fst p) (snd p) Ht Hr (hm_buffer s) HF) as (U1 & U2 & U3).
    assert (Hlen : len (hm_upsert beq r (hm_buffer s) (fst p) (snd p)) <= len (done ++ [p])).
    { unfold len in *. rewrite app_length. cbn [length]. lia. }
    assert (Hsum : add (den (hm_result s)) (histz (hm_upsert beq r (hm_buffer s) (fst p) (snd p))) = histz (done ++ [p])).
    { rewrite U3, histz_snoc, <- Hinv. apply add_assoc. }
    destruct (len (hm_upsert beq r (hm_buffer s) (fst p) (snd p)) =? hm_size s).
    - destruct (flush_spec _ U1) as (m & Hm & Hdm); [unfold len in *; rewrite app_length in Hlen; cbn [length] in Hlen; lia|].
      rewrite Hm. eexists; split; [reflexivity|]. unfold hm_inv. cbn [hm_buffer hm_result hm_size].
      repeat split; auto; [unfold len; cbn; lia|]. rewrite den_add, Hdm. unfold histz at 2. cbn. rewrite add_0_r. exact Hsum.
    - eexists; split; [reflexivity|]. unfold hm_inv. cbn [hm_buffer hm_result hm_size]. repeat split; auto.
  Qed.

  Lemma hm_fold_inv size : forall ops s done, hm_inv size s done -> Forall good_op ops ->
    len done + len ops < 2 ^ 64 ->
    exists s', fold_left (hm_add GO msmf beq r N) ops (Ok s) = Ok s' /\ hm_inv size s' (done ++ ops).
  Proof.
    induction ops as [|p ops IH]; intros s done Hinv HF Hb.
    - exists s. rewrite app_nil_r. auto.
    - inversion HF as [|? ? Hp HF']; subst. cbn [fold_left].
      destruct (hm_add_inv size s done p Hinv Hp) as (s1 & H1 & Hinv1); [unfold len in *; cbn [length] in *; lia|].
      rewrite H1. destruct (IH s1 (done ++ [p]) Hinv1 HF') as (s' & H2 & Hinv2).
      { unfold len in *. rewrite app_length. cbn [length] in *. lia. }
      exists s'. split; [exact H2|]. rewrite <- app_assoc in Hinv2. exact Hinv2.
  Qed.

  (* hashmap_refines_sum: equal bases merged by adding scalars modulo r; premise r * P = 0 *)
  Theorem hashmap_refines_sum size ops : len ops < 2 ^ 64 -> Forall good_op ops ->
    exists g, hm_run GO msmf beq r N size ops = Ok g /\ den g = histz ops.
  Proof.
    intros Hb HF. unfold hm_run.
    destruct (hm_fold_inv size ops (hm_new GO size) []) as (s & Hs & (HFb & Hbd & Hsz & Hinv)); auto.
    { unfold hm_inv, hm_new. cbn. repeat split; auto; [unfold len; cbn; lia|].
      rewrite den_zero. unfold histz. cbn. apply add_0_l. }
    rewrite Hs. cbn [app] in Hinv, Hbd. unfold hm_finalize.
    destruct (hm_buffer s) as [|x buf] eqn:E.
    - eexists; split; [reflexivity|]. rewrite <- Hinv. unfold histz. cbn. symmetry; apply add_0_r.
    - destruct (flush_spec (x :: buf)) as (m & Hm & Hdm); auto; [unfold len in *; lia|].
      rewrite Hm. eexists; split; [reflexivity|]. rewrite den_add, Hdm. exact Hinv.
  Qed.
End StreamProofs.
