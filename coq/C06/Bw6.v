(* C06 model -- BW6 (ec/src/models/bw6/{mod,g2}.rs) over the Fp6 = Fp3[W]/(W^2-V) tower of
   package C02: `G2Prepared::from` (two coefficient streams: f_{u,Q} then the line through
   [u]Q and Q, f_{u^2-u-1,[u]Q}), `ell` (mul_by_014 / mul_by_034), `multi_miller_loop`
   (chunked first loop giving f_u, f_1 = f_u times one more line per pair, second loop over
   the signed digits of ATE_LOOP_COUNT_2 started from f_u and multiplied by f_u / f_u^-1,
   sign handling, T_MOD_R_IS_ZERO Frobenius switch), `final_exponentiation` (easy part +
   hard part: Algorithm 4.3 / 4.4 by T_MOD_R_IS_ZERO, or the override of
   curves/bw6_761/src/curves/mod.rs).
   Executable definitions only; all constants are arguments.  Panics = None. *)
From V Require Import Base.Word Base.Field C15.BigIntModel C02.Quad C02.Cubic C02.Towers C02.Inst.
From V Require Import C06.Miller C06.FinalExp C06.Tower12.

(* ---------- G2HomProjective over the prime field (bw6/g2.rs) ---------- *)
Section Bw6Hom.
  Context {T0 : Type} (Fp : Fops T0).
  Variable coeff_b : T0.                     (* G2Config::COEFF_B *)
  Variable twD : bool.                       (* TWIST_TYPE == D *)
  Local Notation "a + b" := (fadd Fp a b). Local Notation "a - b" := (fsub Fp a b).
  Local Notation "a * b" := (fmul Fp a b). Local Notation "- a" := (fneg Fp a).
  Definition bdbl (a : T0) : T0 := a + a.    (* .double() *)
  Definition bsq (a : T0) : T0 := a * a.     (* Fp::square *)
  Definition bhom : Type := (T0 * T0 * T0)%type.
  Definition bcoeff : Type := (T0 * T0 * T0)%type.

  Definition bw6_double (r : bhom) : bhom * bcoeff :=
    let '(x, y, z) := r in
    let a := x * y in
    let b := bsq y in
    let b4 := bdbl (bdbl b) in
    let c := bsq z in
    let e := coeff_b * (bdbl c + c) in
    let f := bdbl e + e in
    let g := b + f in
    let h := bsq (y + z) - (b + c) in
    let i := e - b in
    let j := bsq x in
    let e2_square := bsq (bdbl e) in
    let x' := bdbl a * (b - f) in
    let y' := bsq g - (bdbl e2_square + e2_square) in
    let z' := b4 * h in
    ((x', y', z'), if twD then (- h, bdbl j + j, i) else (i, bdbl j + j, - h)).

  Definition bw6_add (r : bhom) (q : T0 * T0) : bhom * bcoeff :=
    let '(x, y, z) := r in
    let '(qx, qy) := q in
    let theta := y - (qy * z) in
    let lambda := x - (qx * z) in
    let c := bsq theta in
    let d := bsq lambda in
    let e := lambda * d in
    let f := z * c in
    let g := x * d in
    let h := e + f - bdbl g in
    let x' := lambda * h in
    let y' := theta * (g - h) - (e * y) in
    let z' := z * e in
    let j := theta * qx - (lambda * qy) in
    ((x', y', z'), if twD then (lambda, - theta, j) else (j, - theta, lambda)).

  (* `for digit { push(double); match digit { 1 => push(add q), -1 => push(add nq), _ => {} } }` *)
  Fixpoint bw6_prep_loop (ds : list Z) (q nq : T0 * T0) (r : bhom) : bhom * list bcoeff :=
    match ds with
    | [] => (r, [])
    | d :: ds' =>
        let '(r1, c1) := bw6_double r in
        if d =? 1 then
          let '(r2, c2) := bw6_add r1 q in
          let '(r3, cs) := bw6_prep_loop ds' q nq r2 in (r3, c1 :: c2 :: cs)
        else if d =? -1 then
          let '(r2, c2) := bw6_add r1 nq in
          let '(r3, cs) := bw6_prep_loop ds' q nq r2 in (r3, c1 :: c2 :: cs)
        else
          let '(r3, cs) := bw6_prep_loop ds' q nq r1 in (r3, c1 :: cs)
    end.

  Variable ate1 : list Z.                    (* ATE_LOOP_COUNT_1 (u64 limbs) *)
  Variable ate1_neg : bool.
  Variable ate2 : list Z.                    (* ATE_LOOP_COUNT_2 (i8, least significant first) *)
  Definition bw6_digits2 : list Z := tl (rev ate2).
  (* G2Prepared {ell_coeffs_1, ell_coeffs_2, infinity}; None = panic (`z.inverse().unwrap()`) *)
  Definition bw6_g2p : Type := (list bcoeff * list bcoeff * bool)%type.
  Definition bw6_prepare (q : option (T0 * T0)) : option bw6_g2p :=
    match q with
    | None => Some ([], [], true)
    | Some xy =>
        (* `for i in BitIteratorBE::new(ATE_LOOP_COUNT_1).skip(1)` *)
        let ds1 := map digit_of_bit (tl (bits_be_full ate1)) in
        let '(r, cs1) := bw6_prep_loop ds1 xy xy (fst xy, snd xy, f1 Fp) in
        let '(rx, ry, rz) := r in
        if fis0 Fp rz then None
        else
          let z_inv := finv Fp rz in
          let ra : T0 * T0 := (rx * z_inv, ry * z_inv) in
          let nra : T0 * T0 := (fst ra, - snd ra) in
          let '(qu, neg_qu) := if ate1_neg then (nra, ra) else (ra, nra) in
          let r0 : bhom := (fst qu, snd qu, f1 Fp) in
          let '(_, cl) := bw6_add r0 xy in            (* r.clone().add_in_place(&q) *)
          let '(_, cs2) := bw6_prep_loop bw6_digits2 qu neg_qu r0 in
          Some (cs1 ++ [cl], cs2, false)
    end.
End Bw6Hom.

(* ---------- the second loop of multi_miller_loop, on the skeleton types of Miller.v ---------- *)
Section Bw6Loop2.
  Context {T C P : Type}.
  Variables (tmul : T -> T -> T) (tsq : T -> T).
  Variable ell : T -> C -> P -> T.
  Variables (f_u f_u_inv : T).
  (* `for i in (1..ATE_LOOP_COUNT_2.len()).rev() { f.square_in_place(); ell over pairs;
        match ATE_LOOP_COUNT_2[i-1] { 1 => f *= f_u, -1 => f *= f_u_inv, _ => continue }; ell over pairs }` *)
  Fixpoint bw6_loop2 (ds : list Z) (f : T) (ps : list (pstate (C := C) (P := P))) : option (T * list pstate) :=
    match ds with
    | [] => Some (f, ps)
    | d :: ds' =>
        match ell_all ell (tsq f) ps with
        | None => None
        | Some (fa, ps1) =>
            if d =? 1 then
              match ell_all ell (tmul fa f_u) ps1 with
              | None => None
              | Some (fb, ps2) => bw6_loop2 ds' fb ps2
              end
            else if d =? -1 then
              match ell_all ell (tmul fa f_u_inv) ps1 with
              | None => None
              | Some (fb, ps2) => bw6_loop2 ds' fb ps2
              end
            else bw6_loop2 ds' fa ps1
        end
    end.
End Bw6Loop2.

(* ---------- multi_miller_loop after the identity filter, on the skeleton types ---------- *)
Section Bw6Skel.
  Context {T C P : Type}.
  Variables (tone : T) (tmul : T -> T -> T) (tsq : T -> T).
  Variable ell : T -> C -> P -> T.
  Variables (conj frob1 : T -> T).           (* cyclotomic_inverse_in_place, frobenius_map_in_place(1) *)
  Variable cinv : T -> option T.             (* cyclotomic_inverse() *)
  Variable bits1 : list bool.                (* bits of ATE_LOOP_COUNT_1 after the leading one *)
  Variable ate1_neg : bool.
  Variable ds2 : list Z.                     (* ATE_LOOP_COUNT_2[len-2], ..., [0] *)
  Variables (ate2_neg t_mod_r_is_zero : bool).
  Local Notation pst := (pstate (C := C) (P := P)).
  (* a surviving pair: the G1 point and its two coefficient streams *)
  Definition kept2 : Type := (P * list C * list C)%type.
  Definition stream1 (l : list kept2) : list pst := map (fun t => ((fst (fst t), snd (fst t)) : pst)) l.
  Definition stream2 (l : list kept2) : list pst := map (fun t => ((fst (fst t), snd t) : pst)) l.

  (* f_u: the chunked first loop, `.product()` of the chunk values; the iterators stay advanced *)
  Definition skel_loop1 : T -> list pst -> option (T * list pst) := bits_loop tsq ell bits1.
  Definition skel_fu (ps1 : list pst) : option (T * list pst) :=
    run_chunks tone tmul skel_loop1 (chunks4 ps1) tone [].
  (* (f_u, f_u_inv) *)
  Definition skel_signs (f_u0 : T) : option (T * T) :=
    if ate1_neg then Some (conj f_u0, f_u0)
    else match cinv f_u0 with Some i => Some (f_u0, i) | None => None end.
  Definition skel_post (f_1 f2v : T) : T :=
    let f_2 := tmul tone f2v in              (* `.product()` of the one-element iterator *)
    let f_2 := if ate2_neg then conj f_2 else f_2 in
    let f_1' := if t_mod_r_is_zero then frob1 f_1 else f_1 in
    let f_2' := if t_mod_r_is_zero then f_2 else frob1 f_2 in
    tmul f_1' f_2'.
  (* everything after f_u *)
  Definition skel_after_fu (f_u0 : T) (st1 ps2 : list pst) : option T :=
    match skel_signs f_u0 with
    | None => None
    | Some (f_u, f_u_inv) =>
        (* f_1 = f_u * l([u]q, q)(P): `pairs_1.iter_mut().fold(f_u, ...)` *)
        match ell_all ell f_u st1 with
        | None => None
        | Some (f_1, _) =>
            (* `once(&mut pairs_2[..]).map(loop from f_u).product()` *)
            match bw6_loop2 tmul tsq ell f_u f_u_inv ds2 f_u ps2 with
            | None => None
            | Some (f2v, _) => Some (skel_post f_1 f2v)
            end
        end
    end.
  Definition skel_multi (kept : list kept2) : option T :=
    match skel_fu (stream1 kept) with
    | None => None
    | Some (f_u0, st1) => skel_after_fu f_u0 st1 (stream2 kept)
    end.
End Bw6Skel.

(* ---------- curves/bw6_761/src/curves/mod.rs: final_exponentiation_hard_part override
   (eprint 2020/351 Alg. 6: f^R0(u) * (f^q)^R1(u)), over the operations it uses:
   mul, conj = cyclotomic_inverse_in_place, fr = frobenius_map_in_place(1), ex = exp_by_x,
   sq = Field::square ---------- *)
Section Bw6_761Chain.
  Context {T : Type}.
  Variable mul : T -> T -> T.
  Variables (conj fr ex sq : T -> T).
  Definition bw6_761_chain (f : T) : T :=
    let f0 := f in let f0p := fr f0 in
    let f1 := ex f0 in let f1p := fr f1 in
    let f2 := ex f1 in let f2p := fr f2 in
    let f3 := ex f2 in let f3p := fr f3 in
    let f4 := ex f3 in let f4p := fr f4 in
    let f5 := ex f4 in let f5p := fr f5 in
    let f6 := ex f5 in let f6p := fr f6 in
    let f7 := ex f6 in let f7p := fr f7 in
    let f8p := ex f7p in
    let f9p := ex f8p in
    let result1 := mul (mul f3p f6p) (conj f5p) in
    let result2 := sq result1 in
    let f4_2p := mul f4 f2p in
    let tmp1_p3 := conj (mul (mul (mul (mul f0 f1) f3) f4_2p) f8p) in
    let result3 := mul (mul (mul result2 f5) f0p) tmp1_p3 in
    let result4 := sq result3 in
    let result5 := mul (mul result4 f9p) (conj f7) in
    let result6 := sq result5 in
    let f2_4p := mul f2 f4p in
    let f4_2p_5p := mul f4_2p f5p in
    let tmp2_p3 := conj (mul (mul f2_4p f3) f3p) in
    let result7 := mul (mul (mul (mul result6 f4_2p_5p) f6) f7p) tmp2_p3 in
    let result8 := sq result7 in
    let tmp3_p3 := conj (mul f0p f9p) in
    let result9 := mul (mul (mul (mul result8 f0) f7) f1p) tmp3_p3 in
    let result10 := sq result9 in
    let f6p_8p := mul f6p f8p in
    let f5_7p := mul f5 f7p in
    let tmp4_p3 := conj f6p_8p in
    let result11 := mul (mul (mul result10 f5_7p) f2p) tmp4_p3 in
    let result12 := sq result11 in
    let f3_6 := mul f3 f6 in
    let f1_7 := mul f1 f7 in
    let tmp5_p3 := conj (mul f1_7 f2) in
    let result13 := mul (mul (mul result12 f3_6) f9p) tmp5_p3 in
    let result14 := sq result13 in
    let tmp6_p3 := conj (mul (mul f4_2p f5_7p) f6p_8p) in
    let result15 := mul (mul (mul (mul (mul result14 f0) f0p) f3p) f5p) tmp6_p3 in
    let result16 := sq result15 in
    let tmp7_p3 := conj f3_6 in
    let result17 := mul (mul result16 f1p) tmp7_p3 in
    let result18 := sq result17 in
    let tmp8_p3 := conj (mul (mul f2_4p f4_2p_5p) f9p) in
    mul (mul (mul (mul result18 f1_7) f5_7p) f0p) tmp8_p3.
End Bw6_761Chain.

Section Bw6.
  Variable cid : Z.
  Context {T0 : Type} (Fp : Fops T0).
  Variables (nr3 : T0) (tab3_1 tab3_2 : list T0) (nr6b : T0 * T0 * T0) (tab6b : list T0).
  Definition B3 : Type := (T0 * T0 * T0)%type.
  Definition B6 : Type := (B3 * B3)%type.
  Definition BLT : level T0 B6 := L6b cid Fp nr3 tab3_1 tab3_2 nr6b tab6b.
  Definition BF3 : Fops B3 := Fp3 cid Fp nr3.
  Definition btone : B6 := f1 (lF BLT).
  Definition btmul : B6 -> B6 -> B6 := fmul (lF BLT).
  Definition btsq : B6 -> B6 := lsquare BLT.
  Definition btinv (f : B6) : option B6 :=
    match linverse BLT f with Some (Some g) => Some g | _ => None end.
  Definition bconj (f : B6) : B6 := quad_conjugate BF3 f.
  Definition bfrob : Z -> B6 -> B6 := lfrob BLT.
  Definition bcyc_inverse (f : B6) : option B6 :=              (* cyclotomic_inverse().unwrap() *)
    match lcyc_inverse BLT f with Some (Some g) => Some g | _ => None end.

  Variable twD : bool.
  (* BW6::ell *)
  Definition bw6_ell (f : B6) (c : T0 * T0 * T0) (p : T0 * T0) : B6 :=
    let '(c0, c1, c2) := c in
    let '(px, py) := p in
    if twD then fp6b_mul_by_034 Fp nr3 f (fmul Fp c0 py) (fmul Fp c1 px) c2
    else fp6b_mul_by_014 Fp nr3 f c0 (fmul Fp c1 px) (fmul Fp c2 py).

  Variable ate1 : list Z.
  Variable ate1_neg : bool.
  Variable ate2 : list Z.
  Variable ate2_neg : bool.
  Variable t_mod_r_is_zero : bool.

  Definition bw6_pair : Type := (option (T0 * T0) * bw6_g2p (T0 := T0))%type.
  (* filter_map + unzip: the two streams of the surviving pairs *)
  Definition bw6_keep (pr : bw6_pair) : list (kept2 (C := T0 * T0 * T0) (P := T0 * T0)) :=
    match pr with
    | (Some xy, (cs1, cs2, false)) => [(xy, cs1, cs2)]
    | _ => []
    end.
  Definition bw6_filter (l : list bw6_pair) := flat_map bw6_keep l.
  Definition bw6_bits1 : list bool := tl (bits_be_nlz ate1).

  Definition bw6_multi_kept (kept : list (kept2 (C := T0 * T0 * T0) (P := T0 * T0))) : option B6 :=
    skel_multi btone btmul btsq bw6_ell bconj (bfrob 1) bcyc_inverse bw6_bits1 ate1_neg
               (bw6_digits2 ate2) ate2_neg t_mod_r_is_zero kept.
  Definition bw6_multi_miller_prepared (pairs : list bw6_pair) : option B6 :=
    bw6_multi_kept (bw6_filter pairs).

  Variable coeff_b : T0.
  Fixpoint bw6_prepare_pairs (pairs : list (option (T0 * T0) * option (T0 * T0))) : option (list bw6_pair) :=
    match pairs with
    | [] => Some []
    | (p, q) :: l =>
        match bw6_prepare Fp coeff_b twD ate1 ate1_neg ate2 q, bw6_prepare_pairs l with
        | Some qp, Some r => Some ((p, qp) :: r)
        | _, _ => None
        end
    end.
  Definition bw6_multi_miller (pairs : list (option (T0 * T0) * option (T0 * T0))) : option B6 :=
    match bw6_prepare_pairs pairs with
    | Some l => bw6_multi_miller_prepared l
    | None => None
    end.

  (* ---------------- final exponentiation ---------------- *)
  Variable X : list Z.                     (* BW6Config::X *)
  Variable xneg : bool.
  Variable xm1d3 : list Z.                 (* X_MINUS_1_DIV_3 *)
  Variables (h_t h_y : Z).
  Definition bcyc_exp (f : B6) (e : list Z) : B6 :=
    match cyclotomic_exp BLT f e with Some r => r | None => f end.
  (* cyclotomic_exp_signed *)
  Definition bw6_exp_signed (f : B6) (e : list Z) (invert : bool) : B6 :=
    let r := bcyc_exp f e in if invert then bconj r else r.
  Definition bw6_exp_by_x (f : B6) : B6 := bw6_exp_signed f X xneg.
  Definition bw6_exp_xm1d3 (f : B6) : B6 := bw6_exp_signed f xm1d3 xneg.
  Definition u64 (z : Z) : Z := z mod 2 ^ 64.          (* `as u64` *)
  (* d1 = (ht - hy) / 2 (Alg. 4.3) or (ht + hy) / 2 (Alg. 4.4), i64 division truncates *)
  Definition bw6_d1 : Z := if t_mod_r_is_zero then Z.quot (h_t - h_y) 2 else Z.quot (h_t + h_y) 2.
  Definition bw6_d2 : Z := u64 (Z.quot (h_t * h_t + 3 * h_y * h_y) 4).
  Definition bw6_exp_d1 (f : B6) : B6 := bw6_exp_signed f [u64 bw6_d1] (bw6_d1 <? 0).
  Definition bw6_exp_d2 (f : B6) : B6 := bcyc_exp f [bw6_d2].

  (* `bconj` is used for both `cyclotomic_inverse().unwrap()` of the generic hard part
     (non-zero after the easy part) and `cyclotomic_inverse_in_place` *)
  Definition bw6_761_hard (f : B6) : B6 :=
    bw6_761_chain btmul bconj (bfrob 1) bw6_exp_by_x btsq f.

  Definition bw6_hard (f : B6) : B6 :=
    if cid =? 7 then bw6_761_hard f
    else if t_mod_r_is_zero then
      bw6_hard_a btmul bconj bfrob bw6_exp_by_x bw6_exp_xm1d3 bw6_exp_d1 bw6_exp_d2 btsq f
    else
      bw6_hard_b btmul bconj bfrob bw6_exp_by_x bw6_exp_xm1d3 bw6_exp_d1 bw6_exp_d2 btsq f.

  (* outer None: panic (`f.inverse().unwrap()` on zero) or model fuel; the Rust function
     never returns None itself *)
  Definition bw6_final_exponentiation (f : B6) : option B6 :=
    match find_naf X, find_naf xm1d3, find_naf [u64 bw6_d1], find_naf [bw6_d2] with
    | Some _, Some _, Some _, Some _ =>
        match bw6_easy btmul btinv bconj bfrob f with
        | None => None
        | Some g => Some (bw6_hard g)
        end
    | _, _, _, _ => None
    end.
End Bw6.
