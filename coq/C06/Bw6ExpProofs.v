(* C06 proofs -- the bw6_761 override of `final_exponentiation_hard_part`
   (curves/bw6_761/src/curves/mod.rs, model Bw6.bw6_761_chain) computes
   f^(R0(x) + p * R1(x)) for every f of the cyclotomic subgroup, with R0, R1 the
   polynomials of eprint 2020/351 Alg. 6 quoted in the source.  Same setting and premises as
   FinalExpProofs.v (conj = inverse on Cy, frobenius_map(1) = p-power, exp_by_x = x-th power
   on Cy, square = multiplication). *)
From Coq Require Import ZArith Lia Ring.
From V Require Import Base.Field C06.ExpAlgebra C06.FinalExp C06.FinalExpProofs C06.Miller C06.Bw6.
Open Scope Z_scope.

Section Bw6_761.
  Context {T : Type}.
  Variables (one : T) (mul : T -> T -> T) (inv : T -> T).
  Variable U : T -> Prop.
  Hypothesis G : cgroup one mul inv U.
  Variable Cy : T -> Prop.
  Hypothesis Cy_U : forall a, Cy a -> U a.
  Hypothesis Cy_one : Cy one.
  Hypothesis Cy_mul : forall a b, Cy a -> Cy b -> Cy (mul a b).
  Hypothesis Cy_inv : forall a, Cy a -> Cy (inv a).
  Variable conj : T -> T.
  Variable frob : Z -> T -> T.
  Variable p : Z.
  Hypothesis conj_Cy : forall a, Cy a -> conj a = inv a.
  Hypothesis frob_spec : forall k a, U a -> frob k a = pow one mul inv a (p ^ k).
  Variables (x : Z) (expx tsq : T -> T).
  Hypothesis expx_spec : forall a, Cy a -> expx a = pow one mul inv a x.
  Hypothesis tsq_spec : forall a, tsq a = mul a a.
  Local Notation pw := (pow one mul inv).

  Definition bw6_761_R0 : Z :=
    -103 * x ^ 7 + 70 * x ^ 6 + 269 * x ^ 5 - 197 * x ^ 4 - 314 * x ^ 3 - 73 * x ^ 2 - 263 * x - 220.
  Definition bw6_761_R1 : Z :=
    103 * x ^ 9 - 276 * x ^ 8 + 77 * x ^ 7 + 492 * x ^ 6 - 445 * x ^ 5 - 65 * x ^ 4 + 452 * x ^ 3
    - 181 * x ^ 2 + 34 * x + 229.
  Definition bw6_761_hard_E : Z := bw6_761_R0 + p * bw6_761_R1.

  Lemma bw6_761_chain_gen f e : Cy f ->
    bw6_761_chain mul conj (frob 1) expx tsq (pw f e) = pw f (e * bw6_761_hard_E).
  Proof.
    intros Hf. unfold bw6_761_chain, bw6_761_hard_E, bw6_761_R0, bw6_761_R1. cbv zeta.
    repeat (progress rewrite
              ?(R_mul one mul inv U G Cy Cy_U f Hf),
              ?(R_conj one mul inv U G Cy Cy_U Cy_one Cy_mul Cy_inv conj conj_Cy f Hf),
              ?(R_frob one mul inv U G Cy Cy_U frob p frob_spec f Hf),
              ?(R_exp one mul inv U G Cy Cy_U Cy_one Cy_mul Cy_inv f Hf expx x expx_spec),
              ?(R_fsq one mul inv U G Cy Cy_U f Hf tsq tsq_spec)).
    f_equal. ring.
  Qed.
  Theorem bw6_761_hard_exponent f : Cy f ->
    bw6_761_chain mul conj (frob 1) expx tsq f = pw f bw6_761_hard_E.
  Proof.
    intros Hf. rewrite <- (pow_1 one mul inv U G f) at 1. rewrite bw6_761_chain_gen by assumption.
    f_equal; lia.
  Qed.
End Bw6_761.
