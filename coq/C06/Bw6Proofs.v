(* C06 proofs -- BW6 multi_miller_loop (the skeleton `skel_multi` of Bw6.v that the executed
   `bw6_multi_miller_prepared` instantiates), in a commutative monoid (tone, tmul) with
   tsq f = f * f, ell f c p = f * line c p, conj / frob1 multiplicative:
   (1) chunk independence of stage 1: the chunked computation of f_u over any list of pairs
       equals the unchunked first loop over the whole list (`skel_fu_unchunked`) and equals the
       product of the single-pair values (`skel_fu_app`);
   (2) f_u enters f_1 exactly once: f_1 = f_u * (product of one line per pair)
       (`skel_f1_factor`), the product of lines not depending on f_u;
   (3) the second loop, started from and multiplied by f_u / f_u^-1, is multiplicative in
       (f_u, f_u^-1, f, pairs) jointly (`bw6_loop2_splits`);
   (4) hence the whole function over a list = product of its values on the single pairs
       (`skel_multi_equals_product`), for every list length; with the identity filter in
       front: `bw6_multi_equals_product` on the executed function. *)
From V Require Import Base.Field C02.Quad C02.Cubic C02.Towers C02.Inst C06.Miller C06.MillerProofs C06.Bw6.

Section Bw6SkelProofs.
  Context {T C P : Type}.
  Variables (tone : T) (tmul : T -> T -> T) (tsq : T -> T).
  Variable ell : T -> C -> P -> T.
  Variable line : C -> P -> T.
  Variables (conj frob1 : T -> T).
  Variable cinv : T -> option T.
  Hypothesis tmul_assoc : forall a b c, tmul a (tmul b c) = tmul (tmul a b) c.
  Hypothesis tmul_comm : forall a b, tmul a b = tmul b a.
  Hypothesis tmul_1_l : forall a, tmul tone a = a.
  Hypothesis tsq_is_mul : forall f, tsq f = tmul f f.
  Hypothesis ell_is_mul : forall f c p, ell f c p = tmul f (line c p).
  Hypothesis conj_mul : forall a b, conj (tmul a b) = tmul (conj a) (conj b).
  Hypothesis frob1_mul : forall a b, frob1 (tmul a b) = tmul (frob1 a) (frob1 b).
  (* cyclotomic_inverse of a product: a field fact (no zero divisors, conjugation multiplicative) *)
  Hypothesis cinv_mul : forall a b a' b', cinv a = Some a' -> cinv b = Some b' ->
    cinv (tmul a b) = Some (tmul a' b').

  Variable bits1 : list bool.
  Variable ate1_neg : bool.
  Variable ds2 : list Z.
  Variables (ate2_neg tmodr : bool).

  Local Infix "*" := tmul.
  Local Notation pst := (pstate (C := C) (P := P)).
  Local Notation L := (skel_loop1 tsq ell bits1).
  Local Notation fu := (skel_fu tone tmul tsq ell bits1).
  Local Notation signs := (skel_signs conj cinv ate1_neg).
  Local Notation post := (skel_post tone tmul conj frob1 ate2_neg tmodr).
  Local Notation after := (skel_after_fu tone tmul tsq ell conj frob1 cinv ate1_neg ds2 ate2_neg tmodr).
  Local Notation multi := (skel_multi tone tmul tsq ell conj frob1 cinv bits1 ate1_neg ds2 ate2_neg tmodr).
  Local Notation m4 := (mul4 tmul tmul_assoc tmul_comm).

  Lemma L_splits : splits tmul L.
  Proof. apply (bits_loop_splits tmul tsq ell line); assumption. Qed.
  Lemma L_nil : L tone [] = Some (tone, []).
  Proof. apply (bits_loop_nil tone tmul tsq ell); assumption. Qed.
  Lemma E_splits : splits tmul (ell_all ell).
  Proof. apply (ell_all_splits tmul ell line); assumption. Qed.

  Definition idstage : stage (T := T) (C := C) (P := P) := fun f ps => Some (f, ps).

  (* (1) chunk independence: when the single-pair first loops succeed, the chunked f_u is the
     unchunked loop over the whole list *)
  Theorem skel_fu_unchunked (ps : list pst) g r :
    collect tone tmul L ps = Some (g, r) ->
    fu ps = Some (g, r) /\ L tone ps = Some (g, r).
  Proof.
    intros H. split.
    - unfold skel_fu.
      rewrite (run_chunks_collect tone tmul tmul_assoc tmul_comm tmul_1_l L idstage L_splits L_nil eq_refl
                 (chunks4 ps) tone [] g r) by (rewrite concat_chunks4; exact H).
      rewrite tmul_1_l. reflexivity.
    - exact (collect_L tone tmul tmul_1_l L idstage L_splits L_nil eq_refl ps g r H).
  Qed.
  (* ... and multiplicative over concatenation *)
  Theorem skel_fu_app (a b : list pst) ga ra gb rb :
    L tone a = Some (ga, ra) -> L tone b = Some (gb, rb) ->
    L tone (a ++ b) = Some (ga * gb, ra ++ rb).
  Proof.
    intros Ha Hb. pose proof (L_splits _ _ _ _ _ _ _ _ Ha Hb) as H. rewrite tmul_1_l in H. exact H.
  Qed.

  (* (2) f_u enters f_1 exactly once: f_1 = f_u * (lines evaluated from one) *)
  Theorem skel_f1_factor (f_u : T) (st : list pst) g r :
    ell_all ell tone st = Some (g, r) -> ell_all ell f_u st = Some (f_u * g, r).
  Proof.
    intros H. pose proof (ell_all_scale tmul ell line tmul_assoc ell_is_mul f_u st tone g r H) as Hs.
    rewrite (tmul_1_r tone tmul tmul_comm tmul_1_l) in Hs. exact Hs.
  Qed.

  (* (3) the second loop is jointly multiplicative *)
  Lemma bw6_loop2_splits : forall ds ua ia ub ib fa fb a b ga gb a' b',
    bw6_loop2 tmul tsq ell ua ia ds fa a = Some (ga, a') ->
    bw6_loop2 tmul tsq ell ub ib ds fb b = Some (gb, b') ->
    bw6_loop2 tmul tsq ell (ua * ub) (ia * ib) ds (fa * fb) (a ++ b) = Some (ga * gb, a' ++ b').
  Proof.
    induction ds as [|d ds IH]; intros ua ia ub ib fa fb a b ga gb a' b' Ha Hb; cbn [bw6_loop2] in *.
    - inversion Ha; inversion Hb; subst. reflexivity.
    - destruct (ell_all ell (tsq fa) a) as [[fa1 a1]|] eqn:Ea; [|discriminate].
      destruct (ell_all ell (tsq fb) b) as [[fb1 b1]|] eqn:Eb; [|discriminate].
      rewrite (tsq_mul tmul tsq tmul_assoc tmul_comm tsq_is_mul), (E_splits _ _ _ _ _ _ _ _ Ea Eb).
      destruct (d =? 1).
      + destruct (ell_all ell (fa1 * ua) a1) as [[fa2 a2]|] eqn:Ea2; [|discriminate].
        destruct (ell_all ell (fb1 * ub) b1) as [[fb2 b2]|] eqn:Eb2; [|discriminate].
        rewrite m4, (E_splits _ _ _ _ _ _ _ _ Ea2 Eb2). apply IH; assumption.
      + destruct (d =? -1).
        * destruct (ell_all ell (fa1 * ia) a1) as [[fa2 a2]|] eqn:Ea2; [|discriminate].
          destruct (ell_all ell (fb1 * ib) b1) as [[fb2 b2]|] eqn:Eb2; [|discriminate].
          rewrite m4, (E_splits _ _ _ _ _ _ _ _ Ea2 Eb2). apply IH; assumption.
        * apply IH; assumption.
  Qed.

  Lemma signs_mul ua ub fa ia fb ib :
    signs ua = Some (fa, ia) -> signs ub = Some (fb, ib) -> signs (ua * ub) = Some (fa * fb, ia * ib).
  Proof.
    unfold skel_signs. destruct ate1_neg.
    - intros Ha Hb. inversion Ha; inversion Hb; subst. rewrite conj_mul. reflexivity.
    - destruct (cinv ua) as [xa|] eqn:Ea; [|discriminate].
      destruct (cinv ub) as [xb|] eqn:Eb; [|discriminate].
      intros Ha Hb. inversion Ha; inversion Hb; subst. rewrite (cinv_mul _ _ _ _ Ea Eb). reflexivity.
  Qed.

  Lemma post_mul a1 a2 b1 b2 : post (a1 * b1) (a2 * b2) = post a1 a2 * post b1 b2.
  Proof.
    unfold skel_post. rewrite !tmul_1_l.
    destruct ate2_neg, tmodr; rewrite ?conj_mul, ?frob1_mul, ?conj_mul; apply m4.
  Qed.

  (* the unchunked function: first loop over all pairs at once *)
  Definition flat_multi (l : list (kept2 (C := C) (P := P))) : option T :=
    match L tone (stream1 l) with
    | None => None
    | Some (f_u0, st1) => after f_u0 st1 (stream2 l)
    end.

  Lemma stream1_app (a b : list (kept2 (C := C) (P := P))) : stream1 (a ++ b) = stream1 a ++ stream1 b.
  Proof. apply map_app. Qed.
  Lemma stream2_app (a b : list (kept2 (C := C) (P := P))) : stream2 (a ++ b) = stream2 a ++ stream2 b.
  Proof. apply map_app. Qed.

  Lemma flat_multi_app a b A B :
    flat_multi a = Some A -> flat_multi b = Some B -> flat_multi (a ++ b) = Some (A * B).
  Proof.
    unfold flat_multi, skel_after_fu. rewrite stream1_app, stream2_app.
    destruct (L tone (stream1 a)) as [[ua ra]|] eqn:La; [|discriminate].
    destruct (L tone (stream1 b)) as [[ub rb]|] eqn:Lb; [|discriminate].
    rewrite (skel_fu_app _ _ _ _ _ _ La Lb).
    destruct (signs ua) as [[fa ia]|] eqn:Sa; [|discriminate].
    destruct (signs ub) as [[fb ib]|] eqn:Sb; [|discriminate].
    rewrite (signs_mul _ _ _ _ _ _ Sa Sb).
    destruct (ell_all ell fa ra) as [[f1a xa]|] eqn:Ea; [|discriminate].
    destruct (ell_all ell fb rb) as [[f1b xb]|] eqn:Eb; [|discriminate].
    rewrite (E_splits _ _ _ _ _ _ _ _ Ea Eb).
    destruct (bw6_loop2 tmul tsq ell fa ia ds2 fa (stream2 a)) as [[f2a ya]|] eqn:Ta; [|discriminate].
    destruct (bw6_loop2 tmul tsq ell fb ib ds2 fb (stream2 b)) as [[f2b yb]|] eqn:Tb; [|discriminate].
    rewrite (bw6_loop2_splits _ _ _ _ _ _ _ _ _ _ _ _ _ Ta Tb).
    intros HA HB. inversion HA; inversion HB; subst. rewrite post_mul. reflexivity.
  Qed.

  (* chunked = unchunked whenever the single-pair first loops succeed *)
  Lemma multi_flat l g r : collect tone tmul L (stream1 l) = Some (g, r) -> multi l = flat_multi l.
  Proof.
    intros H. destruct (skel_fu_unchunked _ _ _ H) as [H1 H2].
    unfold skel_multi, flat_multi. rewrite H1, H2. reflexivity.
  Qed.

  Fixpoint skel_product (l : list (kept2 (C := C) (P := P))) : option T :=
    match l with
    | [] => Some tone
    | q :: l' =>
        match multi [q], skel_product l' with
        | Some g, Some g' => Some (g * g')
        | _, _ => None
        end
    end.

  Hypothesis conj_one : conj tone = tone.
  Hypothesis frob1_one : frob1 tone = tone.
  Hypothesis cinv_one : cinv tone = Some tone.

  Lemma loop2_nil : bw6_loop2 tmul tsq ell tone tone ds2 tone [] = Some (tone, []).
  Proof.
    induction ds2 as [|d ds IH]; cbn [bw6_loop2 ell_all]; [reflexivity|].
    rewrite (tsq_one tone tmul tsq tmul_1_l tsq_is_mul).
    destruct (d =? 1); [|destruct (d =? -1)]; rewrite ?tmul_1_l; exact IH.
  Qed.
  Lemma signs_one : signs tone = Some (tone, tone).
  Proof. unfold skel_signs. destruct ate1_neg; [rewrite conj_one | rewrite cinv_one]; reflexivity. Qed.
  Lemma post_one : post tone tone = tone.
  Proof.
    unfold skel_post. rewrite !tmul_1_l.
    destruct ate2_neg, tmodr; rewrite ?conj_one, ?frob1_one, ?tmul_1_l; reflexivity.
  Qed.
  (* the empty list (and hence a list of identity pairs only) gives one *)
  Theorem skel_multi_nil : multi [] = Some tone.
  Proof.
    unfold skel_multi, skel_fu. cbn [stream1 stream2 map chunks4 run_chunks].
    unfold skel_after_fu. rewrite signs_one. cbn [ell_all]. rewrite loop2_nil, post_one. reflexivity.
  Qed.
  Lemma flat_multi_nil : flat_multi [] = Some tone.
  Proof.
    unfold flat_multi. cbn [stream1 stream2 map]. rewrite L_nil.
    unfold skel_after_fu. rewrite signs_one. cbn [ell_all]. rewrite loop2_nil, post_one. reflexivity.
  Qed.

  Lemma single_flat q g : multi [q] = Some g ->
    exists u r, L tone (stream1 [q]) = Some (u, r) /\ flat_multi [q] = Some g.
  Proof.
    intros H. destruct (L tone (stream1 [q])) as [[u r]|] eqn:E.
    - exists u, r. split; [reflexivity|].
      rewrite <- (multi_flat [q] (u * tone) (r ++ [])); [exact H|].
      cbn [stream1 map collect] in *. rewrite E. reflexivity.
    - exfalso. unfold skel_multi, skel_fu in H. cbn [stream1 map chunks4 run_chunks] in *.
      rewrite E in H. discriminate.
  Qed.

  Lemma product_flat l : forall G, skel_product l = Some G ->
    exists g r, collect tone tmul L (stream1 l) = Some (g, r) /\ flat_multi l = Some G.
  Proof.
    induction l as [|q l IH]; intros G H; cbn [skel_product] in H.
    - inversion H; subst. exists tone, []. split; [reflexivity | exact flat_multi_nil].
    - destruct (multi [q]) as [g1|] eqn:E1; [|discriminate].
      destruct (skel_product l) as [G2|] eqn:E2; [|discriminate].
      inversion H; subst.
      destruct (single_flat _ _ E1) as (u & r & HL & HF).
      destruct (IH _ eq_refl) as (g2 & r2 & Hc & HF2).
      exists (u * g2), (r ++ r2). split.
      + change (collect tone tmul L (stream1 (q :: l))) with
          (match L tone (stream1 [q]), collect tone tmul L (stream1 l) with
           | Some (g, r), Some (g', r') => Some (g * g', r ++ r')
           | _, _ => None
           end).
        rewrite HL, Hc. reflexivity.
      + change (q :: l) with ([q] ++ l). apply flat_multi_app; assumption.
  Qed.

  (* (4) for every list of surviving pairs: if the single-pair runs succeed, the function on the
     list returns the product of their values *)
  Theorem skel_multi_equals_product l G : skel_product l = Some G -> multi l = Some G.
  Proof.
    intros H. destruct (product_flat _ _ H) as (g & r & Hc & HF).
    rewrite (multi_flat _ _ _ Hc). exact HF.
  Qed.
End Bw6SkelProofs.

(* ---------------- the executed function (Bw6.v over the C02 tower) ---------------- *)
Section Bw6Exec.
  Variable cid : Z.
  Context {T0 : Type} (Fp : Fops T0).
  Variables (nr3 : T0) (tab3_1 tab3_2 : list T0) (nr6b : T0 * T0 * T0) (tab6b : list T0).
  Variable twD : bool.
  Variable ate1 : list Z.
  Variable ate1_neg : bool.
  Variable ate2 : list Z.
  Variables (ate2_neg tmodr : bool).

  Local Notation tone := (btone cid Fp nr3 tab3_1 tab3_2 nr6b tab6b).
  Local Notation tmul := (btmul cid Fp nr3 tab3_1 tab3_2 nr6b tab6b).
  Local Notation tsq := (btsq cid Fp nr3 tab3_1 tab3_2 nr6b tab6b).
  Local Notation conj := (bconj cid Fp nr3).
  Local Notation frob1 := (bfrob cid Fp nr3 tab3_1 tab3_2 nr6b tab6b 1).
  Local Notation cinv := (bcyc_inverse cid Fp nr3 tab3_1 tab3_2 nr6b tab6b).
  Local Notation ell := (bw6_ell Fp nr3 twD).
  Local Notation z := (f0 Fp).

  (* field-arithmetic premises about the Fp6 (2 over 3) tower (C02: zp_fp6b_mul, fp6b_square_spec,
     C02_fp6b_mul_by_014/034_spec, quadops ring); not statements about the pairing code *)
  Hypothesis tmul_assoc : forall a b c, tmul a (tmul b c) = tmul (tmul a b) c.
  Hypothesis tmul_comm : forall a b, tmul a b = tmul b a.
  Hypothesis tmul_1_l : forall a, tmul tone a = a.
  Hypothesis tsq_is_mul : forall f, tsq f = tmul f f.
  Hypothesis mul_by_014_is_mul : forall f x0 x1 x4,
    fp6b_mul_by_014 Fp nr3 f x0 x1 x4 = tmul f ((x0, x1, z), (z, x4, z)).
  Hypothesis mul_by_034_is_mul : forall f x0 x3 x4,
    fp6b_mul_by_034 Fp nr3 f x0 x3 x4 = tmul f ((x0, z, z), (x3, x4, z)).
  Hypothesis conj_mul : forall a b, conj (tmul a b) = tmul (conj a) (conj b).
  Hypothesis frob1_mul : forall a b, frob1 (tmul a b) = tmul (frob1 a) (frob1 b).
  Hypothesis cinv_mul : forall a b a' b', cinv a = Some a' -> cinv b = Some b' ->
    cinv (tmul a b) = Some (tmul a' b').
  Hypothesis conj_one : conj tone = tone.
  Hypothesis frob1_one : frob1 tone = tone.
  Hypothesis cinv_one : cinv tone = Some tone.

  Definition line6 (c : T0 * T0 * T0) (p : T0 * T0) : B6 (T0 := T0) :=
    let '(c0, c1, c2) := c in
    let '(px, py) := p in
    if twD then ((fmul Fp c0 py, z, z), (fmul Fp c1 px, c2, z))
    else ((c0, fmul Fp c1 px, z), (z, fmul Fp c2 py, z)).
  Lemma bw6_ell_is_mul f c p : ell f c p = tmul f (line6 c p).
  Proof.
    destruct c as [[c0 c1] c2]. destruct p as [px py]. unfold bw6_ell, line6.
    destruct twD; [apply mul_by_034_is_mul | apply mul_by_014_is_mul].
  Qed.

  Local Notation multi := (bw6_multi_miller_prepared cid Fp nr3 tab3_1 tab3_2 nr6b tab6b twD ate1 ate1_neg ate2 ate2_neg tmodr).
  Local Notation kept := (bw6_multi_kept cid Fp nr3 tab3_1 tab3_2 nr6b tab6b twD ate1 ate1_neg ate2 ate2_neg tmodr).

  (* product of the values on the single pairs, as the caller passes them *)
  Fixpoint bw6_product_of_pairs (pairs : list (bw6_pair (T0 := T0))) : option (B6 (T0 := T0)) :=
    match pairs with
    | [] => Some tone
    | pr :: l =>
        match multi [pr], bw6_product_of_pairs l with
        | Some g, Some g' => Some (tmul g g')
        | _, _ => None
        end
    end.

  Theorem bw6_empty_is_one : multi [] = Some tone.
  Proof.
    unfold bw6_multi_miller_prepared, bw6_multi_kept. cbn [bw6_filter flat_map].
    apply (skel_multi_nil tone tmul tsq ell conj frob1 cinv tmul_1_l tsq_is_mul); assumption.
  Qed.
  Theorem bw6_identity_pair_dropped pr : bw6_keep pr = [] -> multi [pr] = Some tone.
  Proof.
    intros H. unfold bw6_multi_miller_prepared, bw6_filter. cbn [flat_map]. rewrite H. exact bw6_empty_is_one.
  Qed.

  Lemma bw6_keep_cases (pr : bw6_pair (T0 := T0)) : bw6_keep pr = [] \/ exists q, bw6_keep pr = [q].
  Proof.
    destruct pr as [[xy|] [[cs1 cs2] [|]]]; cbn [bw6_keep]; auto. right. eexists. reflexivity.
  Qed.

  Lemma bw6_product_filter pairs : forall G, bw6_product_of_pairs pairs = Some G ->
    skel_product tone tmul tsq ell conj frob1 cinv (bw6_bits1 ate1) ate1_neg (bw6_digits2 ate2) ate2_neg tmodr
                 (bw6_filter pairs) = Some G.
  Proof.
    induction pairs as [|pr l IH]; intros G H; cbn [bw6_product_of_pairs] in H.
    - exact H.
    - unfold bw6_filter. cbn [flat_map]. fold (bw6_filter l).
      destruct (bw6_keep_cases pr) as [E|[q E]].
      + rewrite (bw6_identity_pair_dropped pr E) in H. rewrite E. cbn [app].
        destruct (bw6_product_of_pairs l) as [G2|] eqn:E2; [|discriminate].
        rewrite tmul_1_l in H. rewrite <- H. apply IH. reflexivity.
      + unfold bw6_multi_miller_prepared, bw6_filter in H. cbn [flat_map] in H.
        rewrite E in *. cbn [app skel_product] in *. unfold bw6_multi_kept in H.
        destruct (skel_multi _ _ _ _ _ _ _ _ _ _ _ _ [q]) as [g1|]; [|discriminate].
        destruct (bw6_product_of_pairs l) as [G2|] eqn:E2; [|discriminate].
        rewrite (IH _ eq_refl). exact H.
  Qed.

  (* BW6 multi_miller_loop of any list of pairs (identities anywhere, any length: one chunk, exactly
     four, more than four) = product of its values on the single pairs *)
  Theorem bw6_multi_equals_product pairs G :
    bw6_product_of_pairs pairs = Some G -> multi pairs = Some G.
  Proof.
    intros H. unfold bw6_multi_miller_prepared, bw6_multi_kept.
    apply (skel_multi_equals_product tone tmul tsq ell line6 conj frob1 cinv
             tmul_assoc tmul_comm tmul_1_l tsq_is_mul bw6_ell_is_mul conj_mul frob1_mul cinv_mul
             _ _ _ _ _ conj_one frob1_one cinv_one).
    apply bw6_product_filter, H.
  Qed.

  (* prepared = unprepared: `Into<G2Prepared>` is G2Prepared::from *)
  Theorem bw6_prepared_equals_unprepared coeff_b pairs :
    bw6_multi_miller cid Fp nr3 tab3_1 tab3_2 nr6b tab6b twD ate1 ate1_neg ate2 ate2_neg tmodr coeff_b pairs =
    match bw6_prepare_pairs Fp twD ate1 ate1_neg ate2 coeff_b pairs with
    | Some l => multi l
    | None => None
    end.
  Proof. reflexivity. Qed.
  Theorem bw6_prepare_identity coeff_b : bw6_prepare Fp coeff_b twD ate1 ate1_neg ate2 None = Some ([], [], true).
  Proof. reflexivity. Qed.
End Bw6Exec.
