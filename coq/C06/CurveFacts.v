(* C06 proofs -- closed integer facts about the shipped curves (constants: CurveConsts.v,
   regenerated from the Rust configurations): the exponent E(x, p) that the modelled
   final exponentiation computes (FinalExpProofs.v / Bw6ExpProofs.v) satisfies
   E * r = c * (p^k - 1) with gcd(c, r) = 1, k the embedding degree.  Together with
   `output_order_divides` (order of the output divides r) and, because c is prime to r, no
   r-torsion information is lost.  Kernel computations on Z (the numbers have < 10^4 bits). *)
From Coq Require Import ZArith.
From V Require Import C06.ExpAlgebra C06.FinalExp C06.FinalExpProofs C06.Bw6ExpProofs C06.CurveConsts.
Open Scope Z_scope.

Definition exponent_fact (E r c p k : Z) : Prop := E * r = c * (p ^ k - 1) /\ Z.gcd c r = 1.

Lemma fact_bls12_381 :
  exponent_fact (easy12_E bls12_381_p 6 * bls12_hard_E bls12_381_p bls12_381_x) bls12_381_r bls12_381_c bls12_381_p 12.
Proof. vm_compute. split; reflexivity. Qed.
Lemma fact_bls12_377 :
  exponent_fact (easy12_E bls12_377_p 6 * bls12_hard_E bls12_377_p bls12_377_x) bls12_377_r bls12_377_c bls12_377_p 12.
Proof. vm_compute. split; reflexivity. Qed.
Lemma fact_bn254 :
  exponent_fact (easy12_E bn254_p 6 * bn_hard_E bn254_p bn254_x) bn254_r bn254_c bn254_p 12.
Proof. vm_compute. split; reflexivity. Qed.
Lemma fact_mnt4_298 :
  exponent_fact (mnt4_first_E mnt4_298_p 2 * mnt_last_E mnt4_298_p mnt4_298_w1 mnt4_298_w0 mnt4_298_w0_is_neg)
                mnt4_298_r mnt4_298_c mnt4_298_p 4.
Proof. vm_compute. split; reflexivity. Qed.
Lemma fact_mnt4_753 :
  exponent_fact (mnt4_first_E mnt4_753_p 2 * mnt_last_E mnt4_753_p mnt4_753_w1 mnt4_753_w0 mnt4_753_w0_is_neg)
                mnt4_753_r mnt4_753_c mnt4_753_p 4.
Proof. vm_compute. split; reflexivity. Qed.
Lemma fact_mnt6_298 :
  exponent_fact (mnt6_first_E mnt6_298_p 3 * mnt_last_E mnt6_298_p mnt6_298_w1 mnt6_298_w0 mnt6_298_w0_is_neg)
                mnt6_298_r mnt6_298_c mnt6_298_p 6.
Proof. vm_compute. split; reflexivity. Qed.
Lemma fact_mnt6_753 :
  exponent_fact (mnt6_first_E mnt6_753_p 3 * mnt_last_E mnt6_753_p mnt6_753_w1 mnt6_753_w0 mnt6_753_w0_is_neg)
                mnt6_753_r mnt6_753_c mnt6_753_p 6.
Proof. vm_compute. split; reflexivity. Qed.
(* bw6_761: easy part (p^3-1)(p+1), hard part = the override f^(R0(x) + p R1(x)) *)
Lemma fact_bw6_761 :
  exponent_fact ((bw6_761_p ^ 3 - 1) * (bw6_761_p + 1) * bw6_761_hard_E bw6_761_p bw6_761_x)
                bw6_761_r bw6_761_c bw6_761_p 6.
Proof. vm_compute. split; reflexivity. Qed.
(* bw6_767: T_MOD_R_IS_ZERO, Algorithm 4.3, m = (x-1)/3, d1 = (H_T - H_Y)/2, d2 = (H_T^2 + 3 H_Y^2)/4 *)
Lemma fact_bw6_767 :
  exponent_fact ((bw6_767_p ^ 3 - 1) * (bw6_767_p + 1) * bw6a_E bw6_767_p bw6_767_x bw6_767_m bw6_767_d1 bw6_767_d2)
                bw6_767_r bw6_767_c bw6_767_p 6.
Proof. vm_compute. split; reflexivity. Qed.
(* the generic Algorithm 4.4 chain with bw6_761's constants (d1 = (H_T + H_Y)/2): the function
   `BW6::final_exponentiation_hard_part` the override replaces computes an exponent of the same form *)
Lemma fact_bw6_761_generic_b :
  exists c, exponent_fact ((bw6_761_p ^ 3 - 1) * (bw6_761_p + 1) * bw6b_E bw6_761_p bw6_761_x bw6_761_m bw6_761_d1 bw6_761_d2)
                bw6_761_r c bw6_761_p 6.
Proof.
  exists (((bw6_761_p ^ 3 - 1) * (bw6_761_p + 1) * bw6b_E bw6_761_p bw6_761_x bw6_761_m bw6_761_d1 bw6_761_d2) * bw6_761_r / (bw6_761_p ^ 6 - 1)).
  vm_compute. split; reflexivity.
Qed.
