(* C06 -- instances showing that the section hypotheses are satisfiable. *)
From Coq Require Import ZArith Lia List.
From V Require Import Base.Field C06.Miller C06.Laws C06.ExpAlgebra C06.Bw6.
Import ListNotations.
Open Scope Z_scope.

Lemma cgroup_Z : cgroup 0 Z.add Z.opp (fun _ => True).
Proof. constructor; intros; auto; lia. Qed.

Lemma law_model_all_true : forall op r, law_model op = Some r -> forallb (fun b => b) r = true.
Proof.
  intros op r H. unfold law_model in H.
  repeat match type of H with
         | match ?x with _ => _ end = _ => destruct x; try discriminate
         end; inversion H; reflexivity.
Qed.

Definition ex_ell (f c p : Z) : Z := f * (c + p).
Definition ex_pairs : list (option Z * (list Z * bool)) :=
  [(Some 2, ([1; 2; 3; 4; 5], false)); (None, ([7; 7; 7], false)); (Some 3, ([2; 1; 0; 5], false));
   (Some 5, ([], true)); (Some 1, ([1; 1; 1], false))].

Lemma ex_additive :
  (forall P P' Q, (P + P') * Q = P * Q + P' * Q) /\ (forall P Q Q', P * (Q + Q') = P * Q + P * Q').
Proof. split; intros; ring. Qed.

(* six surviving BW6 pairs: (G1 value, first stream: 3 + 1 coefficients, second stream: 5 coefficients) *)
Definition ex_bw6_pairs : list (Z * list Z * list Z) :=
  [(2, [1; 2; 3; 4], [1; 0; 2; 1; 3]); (3, [2; 1; 0; 5], [2; 2; 1; 0; 1]); (1, [1; 1; 1; 1], [3; 1; 2; 2; 0]);
   (5, [0; 2; 1; 1], [1; 1; 1; 1; 1]); (4, [3; 0; 2; 2], [0; 1; 0; 1; 2]); (2, [1; 3; 1; 0], [2; 0; 2; 0; 2])].
