(* C06 proofs -- exponent algebra: integer powers in an abstract commutative group.
   Carrier T with a commutative monoid (one, mul) (the multiplication of the target
   field) and a unary `inv`; U is the group of units (x * inv x = one on U; U is closed).
   pow x z for z : Z; the usual laws hold on U.  Used by FinalExpProofs.v to track every
   intermediate of a final-exponentiation chain as `pow f e_i`. *)
From Coq Require Import ZArith Lia.
Open Scope Z_scope.

Record cgroup {T : Type} (one : T) (mul : T -> T -> T) (inv : T -> T) (U : T -> Prop) : Prop := mk_cgroup {
  cg_assoc : forall a b c, mul a (mul b c) = mul (mul a b) c;
  cg_comm : forall a b, mul a b = mul b a;
  cg_1_l : forall a, mul one a = a;
  cg_U_one : U one;
  cg_U_mul : forall a b, U a -> U b -> U (mul a b);
  cg_U_inv : forall a, U a -> U (inv a);
  cg_inv_l : forall a, U a -> mul (inv a) a = one
}.

Section ExpAlgebra.
  Context {T : Type}.
  Variables (one : T) (mul : T -> T -> T) (inv : T -> T).
  Variable U : T -> Prop.
  Hypothesis G : cgroup one mul inv U.
  Let mul_assoc := cg_assoc _ _ _ _ G.
  Let mul_comm := cg_comm _ _ _ _ G.
  Let mul_1_l := cg_1_l _ _ _ _ G.
  Let U_one := cg_U_one _ _ _ _ G.
  Let U_mul := cg_U_mul _ _ _ _ G.
  Let U_inv := cg_U_inv _ _ _ _ G.
  Let inv_l := cg_inv_l _ _ _ _ G.

  Local Infix "*" := mul.

  Lemma mul_1_r a : a * one = a.
  Proof. rewrite mul_comm. apply mul_1_l. Qed.
  Lemma inv_r a : U a -> a * inv a = one.
  Proof. intros Ha. rewrite mul_comm. apply inv_l, Ha. Qed.
  Lemma inv_unique a c : U a -> c * a = one -> c = inv a.
  Proof.
    intros Ha Hc.
    rewrite <- (mul_1_r c), <- (inv_r a Ha), mul_assoc, Hc. apply mul_1_l.
  Qed.
  Lemma inv_one : inv one = one.
  Proof. symmetry. apply inv_unique; [exact U_one | apply mul_1_l]. Qed.
  Lemma inv_mul a b : U a -> U b -> inv (a * b) = inv a * inv b.
  Proof.
    intros Ha Hb. symmetry. apply inv_unique; [apply U_mul; assumption|].
    transitivity ((inv a * a) * (inv b * b)).
    - rewrite !mul_assoc. f_equal. rewrite <- !mul_assoc. f_equal. apply mul_comm.
    - rewrite !inv_l by assumption. apply mul_1_l.
  Qed.
  Lemma inv_inv a : U a -> inv (inv a) = a.
  Proof. intros Ha. symmetry. apply inv_unique; [apply U_inv, Ha | apply inv_r, Ha]. Qed.

  Fixpoint npow (x : T) (n : nat) : T := match n with O => one | S k => x * npow x k end.
  Definition pow (x : T) (z : Z) : T :=
    if 0 <=? z then npow x (Z.to_nat z) else inv (npow x (Z.to_nat (- z))).

  Lemma U_npow x n : U x -> U (npow x n).
  Proof. intros Hx. induction n; cbn [npow]; auto. Qed.
  Lemma U_pow x z : U x -> U (pow x z).
  Proof. intros Hx. unfold pow. destruct (0 <=? z); [|apply U_inv]; apply U_npow, Hx. Qed.

  Lemma pow_0 x : pow x 0 = one.
  Proof. reflexivity. Qed.
  Lemma pow_1 x : pow x 1 = x.
  Proof. change (x * one = x). apply mul_1_r. Qed.

  Lemma pow_succ x z : U x -> pow x (z + 1) = pow x z * x.
  Proof.
    intros Hx. unfold pow.
    destruct (0 <=? z) eqn:Hz; [apply Z.leb_le in Hz | apply Z.leb_gt in Hz].
    - replace (0 <=? z + 1) with true by (symmetry; apply Z.leb_le; lia).
      replace (Z.to_nat (z + 1)) with (S (Z.to_nat z)) by lia. cbn [npow]. apply mul_comm.
    - destruct (0 <=? z + 1) eqn:Hz1; [apply Z.leb_le in Hz1 | apply Z.leb_gt in Hz1].
      + assert (z = -1) by lia. subst z. change (one = inv (x * one) * x). rewrite mul_1_r. symmetry. apply inv_l, Hx.
      + replace (Z.to_nat (- z)) with (S (Z.to_nat (- (z + 1)))) by lia. cbn [npow].
        rewrite inv_mul by (auto using U_npow).
        rewrite (mul_comm (inv x)), <- mul_assoc, inv_l by assumption. symmetry. apply mul_1_r.
  Qed.
  Lemma pow_pred x z : U x -> pow x (z - 1) = pow x z * inv x.
  Proof.
    intros Hx. replace z with ((z - 1) + 1) at 2 by lia. rewrite pow_succ by assumption.
    rewrite <- mul_assoc, inv_r by assumption. symmetry. apply mul_1_r.
  Qed.

  Lemma pow_add x a b : U x -> pow x (a + b) = pow x a * pow x b.
  Proof.
    intros Hx. revert b. apply Z.peano_ind.
    - rewrite Z.add_0_r, pow_0. symmetry. apply mul_1_r.
    - intros b IH. unfold Z.succ. rewrite Z.add_assoc, !pow_succ, IH by assumption. symmetry; apply mul_assoc.
    - intros b IH. unfold Z.pred. replace (a + (b + -1)) with ((a + b) - 1) by lia.
      replace (b + -1) with (b - 1) by lia. rewrite !pow_pred, IH by assumption. symmetry; apply mul_assoc.
  Qed.
  Lemma pow_opp x a : U x -> pow x (- a) = inv (pow x a).
  Proof.
    intros Hx. apply inv_unique; [apply U_pow, Hx|].
    rewrite <- pow_add by assumption. replace (- a + a) with 0 by lia. apply pow_0.
  Qed.
  Lemma pow_mul x a b : U x -> pow (pow x a) b = pow x (a * b).
  Proof.
    intros Hx. revert b. apply Z.peano_ind.
    - rewrite Z.mul_0_r. reflexivity.
    - intros b IH. unfold Z.succ. rewrite pow_succ, IH by (apply U_pow, Hx).
      rewrite <- pow_add by assumption. f_equal. lia.
    - intros b IH. unfold Z.pred. replace (b + -1) with (b - 1) by lia.
      rewrite pow_pred, IH by (apply U_pow, Hx).
      rewrite <- pow_opp, <- pow_add by assumption. f_equal. lia.
  Qed.
  Lemma pow_sq x a : U x -> pow x a * pow x a = pow x (2 * a).
  Proof. intros Hx. rewrite <- pow_add by assumption. f_equal. lia. Qed.
  Lemma pow_one_base z : pow one z = one.
  Proof.
    assert (Hn : forall n, npow one n = one) by (induction n; cbn [npow]; [reflexivity | rewrite IHn; apply mul_1_l]).
    unfold pow. destruct (0 <=? z); rewrite Hn; [reflexivity | apply inv_one].
  Qed.
  Lemma pow_mul_base x y z : U x -> U y -> pow (x * y) z = pow x z * pow y z.
  Proof.
    intros Hx Hy. revert z. apply Z.peano_ind.
    - rewrite !pow_0. symmetry. apply mul_1_l.
    - intros z IH. unfold Z.succ. rewrite !pow_succ, IH by auto.
      rewrite !mul_assoc. f_equal. rewrite <- !mul_assoc. f_equal. apply mul_comm.
    - intros z IH. unfold Z.pred. replace (z + -1) with (z - 1) by lia.
      rewrite !pow_pred, IH, inv_mul by auto.
      rewrite !mul_assoc. f_equal. rewrite <- !mul_assoc. f_equal. apply mul_comm.
  Qed.
End ExpAlgebra.
