(* C06 model -- the `final_exponentiation` addition chains of every family, written once
   over the operations they use (so that Run.v instantiates them with the C02 tower
   functions and FinalExpProofs.v reasons about the very same definitions in an abstract
   commutative group).  Executable definitions only.
     tmul    : multiplication of the target field
     conj    : cyclotomic_inverse_in_place (conjugation over the half-degree subfield)
     frob k  : frobenius_map_in_place(k)
     cyc_sq  : cyclotomic_square
     expx    : the family's "exponentiate by the curve parameter" helper *)
From V Require Import Base.Field.

Section Chains.
  Context {T : Type}.
  Variable tmul : T -> T -> T.
  Variable tinv : T -> option T.            (* Field::inverse *)
  Variable conj : T -> T.
  Variable frob : Z -> T -> T.
  Variable cyc_sq : T -> T.
  Local Notation "a * b" := (tmul a b).

  (* ---- BLS12 and BN share the easy part f^((p^6-1)(p^2+1)) ---- *)
  Definition easy12 (f : T) : option T :=
    let f1 := conj f in
    match tinv f with
    | None => None
    | Some f2 =>
        let r := f1 * f2 in
        let f2' := r in
        let r := frob 2 r in
        Some (r * f2')
    end.

  (* ---- BLS12: ec/src/models/bls12/mod.rs final_exponentiation, hard part ---- *)
  Section BLS12.
    Variable expx : T -> T.               (* Bls12::exp_by_x *)
    Definition bls12_hard (r : T) : T :=
      let y0 := cyc_sq r in
      let y1 := expx r in
      let y2 := conj r in
      let y1 := y1 * y2 in
      let y2 := expx y1 in
      let y1 := conj y1 in
      let y1 := y1 * y2 in
      let y2 := expx y1 in
      let y1 := frob 1 y1 in
      let y1 := y1 * y2 in
      let r := r * y0 in
      let y0 := expx y1 in
      let y2 := expx y0 in
      let y0 := frob 2 y1 in
      let y1 := conj y1 in
      let y1 := y1 * y2 in
      let y1 := y1 * y0 in
      r * y1.
    Definition bls12_final_exp (f : T) : option T :=
      match easy12 f with Some r => Some (bls12_hard r) | None => None end.
  End BLS12.

  (* ---- BN: ec/src/models/bn/mod.rs ---- *)
  Section BN.
    Variable exp_neg_x : T -> T.           (* Bn::exp_by_neg_x *)
    Definition bn_hard (r : T) : T :=
      let y0 := exp_neg_x r in
      let y1 := cyc_sq y0 in
      let y2 := cyc_sq y1 in
      let y3 := y2 * y1 in
      let y4 := exp_neg_x y3 in
      let y5 := cyc_sq y4 in
      let y6 := exp_neg_x y5 in
      let y3 := conj y3 in
      let y6 := conj y6 in
      let y7 := y6 * y4 in
      let y8 := y7 * y3 in
      let y9 := y8 * y1 in
      let y10 := y8 * y4 in
      let y11 := y10 * r in
      let y12 := frob 1 y9 in
      let y13 := y12 * y11 in
      let y8 := frob 2 y8 in
      let y14 := y8 * y13 in
      let r := conj r in
      let y15 := r * y9 in
      let y15 := frob 3 y15 in
      y15 * y14.
    Definition bn_final_exp (f : T) : option T :=
      match easy12 f with Some r => Some (bn_hard r) | None => None end.
  End BN.

  (* ---- MNT4 / MNT6: first chunk, then w1 * q + w0 ---- *)
  Section MNT.
    Variable exp_w1 : T -> T.              (* cyclotomic_exp(FINAL_EXPONENT_LAST_CHUNK_1) *)
    Variable exp_w0 : T -> T.              (* cyclotomic_exp(FINAL_EXPONENT_LAST_CHUNK_ABS_OF_W0) *)
    Variable w0_is_neg : bool.
    (* MNT4: elt^(q^2-1) *)
    Definition mnt4_first_chunk (elt elt_inv : T) : T := conj elt * elt_inv.
    (* MNT6: elt^((q^3-1)(q+1)) *)
    Definition mnt6_first_chunk (elt elt_inv : T) : T :=
      let e := conj elt * elt_inv in
      frob 1 e * e.
    Definition mnt_last_chunk (elt elt_inv : T) : T :=
      let elt_q := frob 1 elt in
      let w1_part := exp_w1 elt_q in
      let w0_part := if w0_is_neg then exp_w0 elt_inv else exp_w0 elt in
      w1_part * w0_part.
    Definition mnt_final_exp (first_chunk : T -> T -> T) (value : T) : option T :=
      match tinv value with
      | None => None
      | Some value_inv =>
          let a := first_chunk value value_inv in
          let b := first_chunk value_inv value in
          Some (mnt_last_chunk a b)
      end.
  End MNT.

  (* ---- BW6: ec/src/models/bw6/mod.rs ---- *)
  Section BW6.
    Variable expx : T -> T.                (* BW6Config::exp_by_x *)
    Variable exp_xm1_div3 : T -> T.        (* exp_by_x_minus_1_div_3 *)
    Variable exp_d1 : T -> T.              (* cyclotomic_exp_signed(., [|d1|], d1 < 0) *)
    Variable exp_d2 : T -> T.              (* cyclotomic_exp([d2]) *)
    Variable tsq : T -> T.                 (* Field::square *)
    Definition bw6_xp1 (f : T) : T := expx f * f.
    Definition bw6_xm1 (f : T) : T := expx f * conj f.
    (* f^((p^3-1)(p+1)); `f.inverse().unwrap()` panics on zero = None *)
    Definition bw6_easy (f : T) : option T :=
      match tinv f with
      | None => None
      | Some f_inv =>
          let g := conj f * f_inv in
          Some (frob 1 g * g)
      end.
    (* T_MOD_R_IS_ZERO branch (Algorithm 4.3) *)
    Definition bw6_hard_a (f : T) : T :=
      let a := bw6_xm1 f in
      let a := bw6_xm1 a in
      let a := conj (f * a) * frob 1 f in
      let b := bw6_xp1 a * f in
      let a := tsq a * a in
      let a := conj a in
      let c := exp_xm1_div3 b in
      let d := bw6_xm1 c in
      let e := bw6_xm1 (bw6_xm1 d) * d in
      let ff := conj (bw6_xp1 e * c) * d in
      let g := conj (bw6_xp1 (ff * d)) * c * b in
      let h := exp_d1 ff * e in
      let h := tsq h * h * b * exp_d2 g in
      a * h.
    (* else branch (Algorithm 4.4) *)
    Definition bw6_hard_b (f : T) : T :=
      let a := bw6_xm1 f in
      let a := bw6_xm1 a in
      let a := a * frob 1 f in
      let b := bw6_xp1 a * conj f in
      let a := tsq a * a in
      let c := exp_xm1_div3 b in
      let d := bw6_xm1 c in
      let e := bw6_xm1 (bw6_xm1 d) * d in
      let d := conj d in
      let fc := d * b in
      let g := bw6_xp1 e * fc in
      let h := g * c in
      let i := bw6_xp1 (g * d) * conj fc in
      let j := exp_d1 h * e in
      let k := tsq j * j * b * exp_d2 i in
      a * k.
  End BW6.
End Chains.
