(* C06 proofs -- the final-exponentiation chains of FinalExp.v compute f^E for explicit
   integer polynomials E(x, p).  Setting: the multiplicative monoid of the target field
   (one, mul), `inv`, U = the units (non-zero elements), Cy = the cyclotomic subgroup the
   easy part maps into.  The operation specifications are premises (they are statements
   about the C02 tower: conjugation = p^h-power Frobenius on U and = inverse on Cy,
   cyclotomic_square = square on Cy, frobenius_map(k) = p^k-power, cyclotomic_exp(e) =
   e-th power on Cy); what is proved is that the *chain* -- the part that differs from
   family to family and that a transcription error would break -- has the claimed
   exponent. *)
From Coq Require Import ZArith Lia Ring.
From V Require Import C06.ExpAlgebra C06.FinalExp.
Open Scope Z_scope.

Section FinalExpProofs.
  Context {T : Type}.
  Variables (one : T) (mul : T -> T -> T) (inv : T -> T).
  Variable U : T -> Prop.
  Hypothesis G : cgroup one mul inv U.
  Let U_mul := cg_U_mul _ _ _ _ G.

  Variable Cy : T -> Prop.
  Hypothesis Cy_U : forall a, Cy a -> U a.
  Hypothesis Cy_one : Cy one.
  Hypothesis Cy_mul : forall a b, Cy a -> Cy b -> Cy (mul a b).
  Hypothesis Cy_inv : forall a, Cy a -> Cy (inv a).

  Variable tinv : T -> option T.
  Variable conj : T -> T.
  Variable frob : Z -> T -> T.
  Variable cyc_sq : T -> T.
  Variables (p h : Z).                      (* characteristic; conj = Frobenius^h *)
  Hypothesis tinv_spec : forall a, U a -> tinv a = Some (inv a).
  Hypothesis conj_U : forall a, U a -> conj a = pow one mul inv a (p ^ h).
  Hypothesis conj_Cy : forall a, Cy a -> conj a = inv a.
  Hypothesis cyc_sq_spec : forall a, Cy a -> cyc_sq a = mul a a.
  Hypothesis frob_spec : forall k a, U a -> frob k a = pow one mul inv a (p ^ k).

  Local Notation pw := (pow one mul inv).
  Local Notation pow_add := (pow_add one mul inv U G).
  Local Notation pow_mul := (pow_mul one mul inv U G).
  Local Notation pow_opp := (pow_opp one mul inv U G).
  Local Notation pow_1 := (pow_1 one mul inv U G).
  Local Notation U_pow := (U_pow one mul inv U G).
  Local Notation pow_one_base := (pow_one_base one mul inv U G).

  Lemma Cy_npow a n : Cy a -> Cy (npow one mul a n).
  Proof. intros Ha. induction n; cbn [npow]; auto. Qed.
  Lemma Cy_pow a z : Cy a -> Cy (pw a z).
  Proof. intros Ha. unfold pow. destruct (0 <=? z); [|apply Cy_inv]; apply Cy_npow, Ha. Qed.

  (* ---------- rewriting rules: every intermediate is a power of one base ---------- *)
  Section BaseU.
    Variable v : T.
    Hypothesis Hv : U v.
    Lemma RU_mul a b : mul (pw v a) (pw v b) = pw v (a + b).
    Proof. symmetry. apply pow_add, Hv. Qed.
    Lemma RU_conj a : conj (pw v a) = pw v (a * p ^ h).
    Proof. rewrite conj_U by (apply U_pow, Hv). apply pow_mul, Hv. Qed.
    Lemma RU_frob k a : frob k (pw v a) = pw v (a * p ^ k).
    Proof. rewrite frob_spec by (apply U_pow, Hv). apply pow_mul, Hv. Qed.
    Lemma RU_inv a : inv (pw v a) = pw v (- a).
    Proof. symmetry. apply pow_opp, Hv. Qed.
  End BaseU.

  Section BaseCy.
    Variable r : T.
    Hypothesis Hr : Cy r.
    Let Hu : U r := Cy_U r Hr.
    Lemma R_mul a b : mul (pw r a) (pw r b) = pw r (a + b).
    Proof. apply RU_mul, Hu. Qed.
    Lemma R_conj a : conj (pw r a) = pw r (- a).
    Proof. rewrite conj_Cy by (apply Cy_pow, Hr). apply RU_inv, Hu. Qed.
    Lemma R_frob k a : frob k (pw r a) = pw r (a * p ^ k).
    Proof. apply RU_frob, Hu. Qed.
    Lemma R_sq a : cyc_sq (pw r a) = pw r (2 * a).
    Proof. rewrite cyc_sq_spec by (apply Cy_pow, Hr). rewrite R_mul. f_equal. lia. Qed.
    Lemma R_exp (ex : T -> T) (x : Z) (Hex : forall a, Cy a -> ex a = pw a x) a : ex (pw r a) = pw r (a * x).
    Proof. rewrite Hex by (apply Cy_pow, Hr). apply pow_mul, Hu. Qed.
    Lemma R_fsq (tsq : T -> T) (Hsq : forall a, tsq a = mul a a) a : tsq (pw r a) = pw r (2 * a).
    Proof. rewrite Hsq, R_mul. f_equal. lia. Qed.
  End BaseCy.

  Ltac chain r Hr :=
    repeat (progress rewrite ?(R_mul r Hr), ?(R_conj r Hr), ?(R_frob r Hr), ?(R_sq r Hr)).

  (* ---------- BLS12 ---------- *)
  Section BLS12.
    Variables (x : Z) (expx : T -> T).
    Hypothesis expx_spec : forall a, Cy a -> expx a = pw a x.
    Definition bls12_hard_E : Z := (x - 1) ^ 2 * (x + p) * (x ^ 2 + p ^ 2 - 1) + 3.
    Lemma bls12_hard_gen r e : Cy r ->
      bls12_hard mul conj frob cyc_sq expx (pw r e) = pw r (e * bls12_hard_E).
    Proof.
      intros Hr. unfold bls12_hard, bls12_hard_E. cbv zeta.
      repeat (progress rewrite ?(R_mul r Hr), ?(R_conj r Hr), ?(R_frob r Hr), ?(R_sq r Hr),
                ?(R_exp r Hr expx x expx_spec)).
      f_equal. ring.
    Qed.
    Theorem bls12_hard_exponent r : Cy r ->
      bls12_hard mul conj frob cyc_sq expx r = pw r bls12_hard_E.
    Proof.
      intros Hr. rewrite <- (pow_1 r) at 1. rewrite bls12_hard_gen by assumption. f_equal. lia.
    Qed.
  End BLS12.

  (* ---------- BN ---------- *)
  Section BN.
    Variables (x : Z) (exp_neg_x : T -> T).
    Hypothesis exp_neg_x_spec : forall a, Cy a -> exp_neg_x a = pw a (- x).
    Definition bn_hard_E : Z :=
      p ^ 3 * (12 * x ^ 3 + 6 * x ^ 2 + 4 * x - 1) + p ^ 2 * (12 * x ^ 3 + 6 * x ^ 2 + 6 * x)
      + p * (12 * x ^ 3 + 6 * x ^ 2 + 4 * x) + (12 * x ^ 3 + 12 * x ^ 2 + 6 * x + 1).
    Lemma bn_hard_gen r e : Cy r ->
      bn_hard mul conj frob cyc_sq exp_neg_x (pw r e) = pw r (e * bn_hard_E).
    Proof.
      intros Hr. unfold bn_hard, bn_hard_E. cbv zeta.
      repeat (progress rewrite ?(R_mul r Hr), ?(R_conj r Hr), ?(R_frob r Hr), ?(R_sq r Hr),
                ?(R_exp r Hr exp_neg_x (- x) exp_neg_x_spec)).
      f_equal. ring.
    Qed.
    Theorem bn_hard_exponent r : Cy r ->
      bn_hard mul conj frob cyc_sq exp_neg_x r = pw r bn_hard_E.
    Proof.
      intros Hr. rewrite <- (pow_1 r) at 1. rewrite bn_hard_gen by assumption. f_equal. lia.
    Qed.
  End BN.

  (* ---------- the easy part shared by BLS12 and BN (h = 6) ---------- *)
  Definition easy12_E : Z := (p ^ h - 1) * (p ^ 2 + 1).
  Lemma easy12_gen v e : U v -> easy12 mul tinv conj frob (pw v e) = Some (pw v (e * easy12_E)).
  Proof.
    intros Hv. unfold easy12, easy12_E. rewrite tinv_spec by (apply U_pow, Hv). cbv zeta.
    rewrite (RU_inv v Hv).
    rewrite ?(RU_conj v Hv), ?(RU_mul v Hv), ?(RU_frob v Hv), ?(RU_mul v Hv).
    do 2 f_equal. ring.
  Qed.
  Theorem easy12_exponent f : U f -> easy12 mul tinv conj frob f = Some (pw f easy12_E).
  Proof.
    intros Hf. rewrite <- (pow_1 f) at 1. rewrite easy12_gen by assumption. do 2 f_equal. lia.
  Qed.
  Theorem bls12_final_exp_exponent x expx (Hex : forall a, Cy a -> expx a = pw a x) f :
    U f -> Cy (pw f easy12_E) ->
    bls12_final_exp mul tinv conj frob cyc_sq expx f = Some (pw f (easy12_E * bls12_hard_E x)).
  Proof.
    intros Hf Hc. unfold bls12_final_exp. rewrite easy12_exponent by assumption.
    rewrite (bls12_hard_exponent x expx Hex) by assumption. f_equal. apply pow_mul, Hf.
  Qed.
  Theorem bn_final_exp_exponent x en (Hex : forall a, Cy a -> en a = pw a (- x)) f :
    U f -> Cy (pw f easy12_E) ->
    bn_final_exp mul tinv conj frob cyc_sq en f = Some (pw f (easy12_E * bn_hard_E x)).
  Proof.
    intros Hf Hc. unfold bn_final_exp. rewrite easy12_exponent by assumption.
    rewrite (bn_hard_exponent x en Hex) by assumption. f_equal. apply pow_mul, Hf.
  Qed.
  (* zero has no inverse: final_exponentiation returns None (tinv = Field::inverse) *)
  Theorem final_exp_none_12 expx f : tinv f = None ->
    bls12_final_exp mul tinv conj frob cyc_sq expx f = None /\ bn_final_exp mul tinv conj frob cyc_sq expx f = None.
  Proof. intros H0. unfold bls12_final_exp, bn_final_exp, easy12. rewrite H0. split; reflexivity. Qed.

  (* the easy part lands in the subgroup where conjugation inverts (unitary elements),
     given Fermat's little theorem of the extension field for f *)
  Theorem unitary_after_easy f : U f -> pw f (p ^ (2 * h) - 1) = one -> 0 <= h ->
    mul (conj (pw f easy12_E)) (pw f easy12_E) = one.
  Proof.
    intros Hf Hfermat Hh. rewrite (RU_conj f Hf), (RU_mul f Hf).
    replace (easy12_E * p ^ h + easy12_E) with ((p ^ (2 * h) - 1) * (p ^ 2 + 1)).
    - rewrite <- pow_mul by assumption. rewrite Hfermat. apply pow_one_base.
    - unfold easy12_E. replace (2 * h) with (h + h) by lia. rewrite Z.pow_add_r by assumption. ring.
  Qed.

  (* order of the output: E * r = c * (p^k - 1) and Fermat give (f^E)^r = 1 *)
  Theorem output_order_divides f E r c N : U f -> E * r = c * N -> pw f N = one -> pw (pw f E) r = one.
  Proof.
    intros Hf HE HN. rewrite pow_mul, HE, Z.mul_comm, <- pow_mul by assumption. rewrite HN. apply pow_one_base.
  Qed.

  (* ---------- MNT4 (h = 2) / MNT6 (h = 3) ---------- *)
  Section MNT.
    Variables (w1 w0 : Z) (exp_w1 exp_w0 : T -> T) (w0_is_neg : bool).
    Hypothesis exp_w1_spec : forall a, Cy a -> exp_w1 a = pw a w1.
    Hypothesis exp_w0_spec : forall a, Cy a -> exp_w0 a = pw a w0.
    Definition mnt_w0_signed : Z := if w0_is_neg then - w0 else w0.
    Definition mnt_last_E : Z := p * w1 + mnt_w0_signed.
    Lemma mnt_last_chunk_exponent a : Cy a ->
      mnt_last_chunk mul frob exp_w1 exp_w0 w0_is_neg a (inv a) = pw a mnt_last_E.
    Proof.
      intros Ha. unfold mnt_last_chunk, mnt_last_E, mnt_w0_signed. cbv zeta.
      replace (inv a) with (pw a (-1)) by (rewrite <- (pow_1 a) at 2; rewrite (RU_inv a (Cy_U a Ha)); reflexivity).
      rewrite <- (pow_1 a) at 1 3.
      destruct w0_is_neg;
        rewrite ?(R_frob a Ha), ?(R_exp a Ha exp_w1 w1 exp_w1_spec), ?(R_exp a Ha exp_w0 w0 exp_w0_spec), ?(R_mul a Ha);
        f_equal; ring.
    Qed.
    Definition mnt4_first_E : Z := p ^ h - 1.
    Definition mnt6_first_E : Z := (p ^ h - 1) * (p + 1).
    Lemma mnt4_first_chunk_exponent v e : U v ->
      mnt4_first_chunk mul conj (pw v e) (pw v (- e)) = pw v (e * mnt4_first_E).
    Proof.
      intros Hv. unfold mnt4_first_chunk, mnt4_first_E. rewrite (RU_conj v Hv), (RU_mul v Hv). f_equal. ring.
    Qed.
    Lemma mnt6_first_chunk_exponent v e : U v ->
      mnt6_first_chunk mul conj frob (pw v e) (pw v (- e)) = pw v (e * mnt6_first_E).
    Proof.
      intros Hv. unfold mnt6_first_chunk, mnt6_first_E. cbv zeta.
      rewrite ?(RU_conj v Hv), ?(RU_mul v Hv), ?(RU_frob v Hv), ?(RU_mul v Hv). f_equal. ring.
    Qed.
    Theorem mnt4_final_exp_exponent v : U v -> Cy (pw v mnt4_first_E) ->
      mnt_final_exp mul tinv frob exp_w1 exp_w0 w0_is_neg (mnt4_first_chunk mul conj) v
      = Some (pw v (mnt4_first_E * mnt_last_E)).
    Proof.
      intros Hv Hc. unfold mnt_final_exp. rewrite tinv_spec by assumption.
      assert (Ha : mnt4_first_chunk mul conj v (inv v) = pw v mnt4_first_E).
      { rewrite <- (pow_1 v) at 1 2. rewrite (RU_inv v Hv), mnt4_first_chunk_exponent by assumption. f_equal; lia. }
      assert (Hb : mnt4_first_chunk mul conj (inv v) v = inv (pw v mnt4_first_E)).
      { rewrite <- (pow_1 v) at 1 2. rewrite (RU_inv v Hv). replace (pw v 1) with (pw v (- -1)) by (f_equal; lia).
        rewrite mnt4_first_chunk_exponent, (RU_inv v Hv) by assumption. f_equal; lia. }
      rewrite Ha, Hb, mnt_last_chunk_exponent by assumption. f_equal. apply pow_mul, Hv.
    Qed.
    Theorem mnt6_final_exp_exponent v : U v -> Cy (pw v mnt6_first_E) ->
      mnt_final_exp mul tinv frob exp_w1 exp_w0 w0_is_neg (mnt6_first_chunk mul conj frob) v
      = Some (pw v (mnt6_first_E * mnt_last_E)).
    Proof.
      intros Hv Hc. unfold mnt_final_exp. rewrite tinv_spec by assumption.
      assert (Ha : mnt6_first_chunk mul conj frob v (inv v) = pw v mnt6_first_E).
      { rewrite <- (pow_1 v) at 1 2. rewrite (RU_inv v Hv), mnt6_first_chunk_exponent by assumption. f_equal; lia. }
      assert (Hb : mnt6_first_chunk mul conj frob (inv v) v = inv (pw v mnt6_first_E)).
      { rewrite <- (pow_1 v) at 1 2. rewrite (RU_inv v Hv). replace (pw v 1) with (pw v (- -1)) by (f_equal; lia).
        rewrite mnt6_first_chunk_exponent, (RU_inv v Hv) by assumption. f_equal; lia. }
      rewrite Ha, Hb, mnt_last_chunk_exponent by assumption. f_equal. apply pow_mul, Hv.
    Qed.
  End MNT.

  (* ---------- BW6 ---------- *)
  Section BW6.
    Variables (x m d1 d2 : Z) (expx exp_m exp_d1 exp_d2 tsq : T -> T).
    Hypothesis expx_spec : forall a, Cy a -> expx a = pw a x.
    Hypothesis exp_m_spec : forall a, Cy a -> exp_m a = pw a m.        (* m = (x-1)/3 *)
    Hypothesis exp_d1_spec : forall a, Cy a -> exp_d1 a = pw a d1.
    Hypothesis exp_d2_spec : forall a, Cy a -> exp_d2 a = pw a d2.
    Hypothesis tsq_spec : forall a, tsq a = mul a a.
    (* the exponents, written with the structure of Algorithms 4.3 / 4.4 of
       https://yelhousni.github.io/phd.pdf (A, B, ... = exponents of the variables) *)
    Definition bw6a_E : Z :=
      let A0 := (x - 1) ^ 2 in
      let A1 := - (1 + A0) + p in
      let B := A1 * (x + 1) + 1 in
      let A := - (3 * A1) in
      let C := B * m in
      let D := C * (x - 1) in
      let E := D * (x - 1) ^ 2 + D in
      let F := - (E * (x + 1) + C) + D in
      let G := - ((F + D) * (x + 1)) + C + B in
      let H := F * d1 + E in
      A + (3 * H + B + G * d2).
    Definition bw6b_E : Z :=
      let A1 := (x - 1) ^ 2 + p in
      let B := A1 * (x + 1) - 1 in
      let A := 3 * A1 in
      let C := B * m in
      let D0 := C * (x - 1) in
      let E := D0 * (x - 1) ^ 2 + D0 in
      let D := - D0 in
      let Fc := D + B in
      let G := E * (x + 1) + Fc in
      let H := G + C in
      let I := (G + D) * (x + 1) - Fc in
      let J := H * d1 + E in
      A + (3 * J + B + I * d2).
    Lemma bw6_hard_a_gen f e : Cy f ->
      bw6_hard_a mul conj frob expx exp_m exp_d1 exp_d2 tsq (pw f e) = pw f (e * bw6a_E).
    Proof.
      intros Hf. unfold bw6_hard_a, bw6_xm1, bw6_xp1, bw6a_E. cbv zeta.
      repeat (progress rewrite ?(R_mul f Hf), ?(R_conj f Hf), ?(R_frob f Hf),
                ?(R_exp f Hf expx x expx_spec), ?(R_exp f Hf exp_m m exp_m_spec),
                ?(R_exp f Hf exp_d1 d1 exp_d1_spec), ?(R_exp f Hf exp_d2 d2 exp_d2_spec),
                ?(R_fsq f Hf tsq tsq_spec)).
      f_equal. ring.
    Qed.
    Theorem bw6_hard_a_exponent f : Cy f ->
      bw6_hard_a mul conj frob expx exp_m exp_d1 exp_d2 tsq f = pw f bw6a_E.
    Proof.
      intros Hf. rewrite <- (pow_1 f) at 1. rewrite bw6_hard_a_gen by assumption. f_equal; lia.
    Qed.
    Lemma bw6_hard_b_gen f e : Cy f ->
      bw6_hard_b mul conj frob expx exp_m exp_d1 exp_d2 tsq (pw f e) = pw f (e * bw6b_E).
    Proof.
      intros Hf. unfold bw6_hard_b, bw6_xm1, bw6_xp1, bw6b_E. cbv zeta.
      repeat (progress rewrite ?(R_mul f Hf), ?(R_conj f Hf), ?(R_frob f Hf),
                ?(R_exp f Hf expx x expx_spec), ?(R_exp f Hf exp_m m exp_m_spec),
                ?(R_exp f Hf exp_d1 d1 exp_d1_spec), ?(R_exp f Hf exp_d2 d2 exp_d2_spec),
                ?(R_fsq f Hf tsq tsq_spec)).
      f_equal. ring.
    Qed.
    Theorem bw6_hard_b_exponent f : Cy f ->
      bw6_hard_b mul conj frob expx exp_m exp_d1 exp_d2 tsq f = pw f bw6b_E.
    Proof.
      intros Hf. rewrite <- (pow_1 f) at 1. rewrite bw6_hard_b_gen by assumption. f_equal; lia.
    Qed.
    Lemma bw6_easy_gen v e : U v ->
      bw6_easy mul tinv conj frob (pw v e) = Some (pw v (e * ((p ^ h - 1) * (p + 1)))).
    Proof.
      intros Hv. unfold bw6_easy. rewrite tinv_spec by (apply U_pow, Hv). cbv zeta.
      rewrite (RU_inv v Hv).
      rewrite ?(RU_conj v Hv), ?(RU_mul v Hv), ?(RU_frob v Hv), ?(RU_mul v Hv).
      do 2 f_equal. ring.
    Qed.
    Theorem bw6_easy_exponent f : U f ->
      bw6_easy mul tinv conj frob f = Some (pw f ((p ^ h - 1) * (p + 1))).
    Proof.
      intros Hf. rewrite <- (pow_1 f) at 1. rewrite bw6_easy_gen by assumption. do 2 f_equal. lia.
    Qed.
  End BW6.
End FinalExpProofs.
