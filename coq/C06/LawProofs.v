(* C06 proofs -- what the law-level operations mean, and (d): bilinearity.
   G1, G2 : commutative groups written with (zero, add, neg); GT : the target group (one, mul,
   inv); n.P and g^n are `ExpAlgebra.pow`.  `e` is the reduced pairing.  The section
   hypotheses `tate_additive_l/r` say that e is additive in each argument: this is the
   theorem of the mathematical Tate/ate pairing (Weil reciprocity on divisors), which cannot
   be formalised with the libraries installed here.  Everything the property statement lists
   is *derived* from it: e(aP, bQ) = e(P,Q)^(ab) for all integers, identity in either slot
   gives 1, order of every output divides r, multi-pairing = product.  That the value
   computed by the model (Tower12.v: Miller loop + final exponentiation) IS this
   mathematical pairing is not proved: `bilinear_partial`. *)
From Coq Require Import ZArith Lia List.
From V Require Import C06.ExpAlgebra.
Import ListNotations.
Open Scope Z_scope.

Section Laws.
  Context {G1 G2 GT : Type}.
  Variables (zero1 : G1) (add1 : G1 -> G1 -> G1) (neg1 : G1 -> G1).
  Variables (zero2 : G2) (add2 : G2 -> G2 -> G2) (neg2 : G2 -> G2).
  Variables (oneT : GT) (mulT : GT -> GT -> GT) (invT : GT -> GT).
  Let all {A : Type} (_ : A) : Prop := True.
  Hypothesis grp1 : cgroup zero1 add1 neg1 all.
  Hypothesis grp2 : cgroup zero2 add2 neg2 all.
  Hypothesis grpT : cgroup oneT mulT invT all.
  Variable e : G1 -> G2 -> GT.
  Hypothesis tate_additive_l : forall P P' Q, e (add1 P P') Q = mulT (e P Q) (e P' Q).
  Hypothesis tate_additive_r : forall P Q Q', e P (add2 Q Q') = mulT (e P Q) (e P Q').

  Local Notation smul1 := (pow zero1 add1 neg1).
  Local Notation smul2 := (pow zero2 add2 neg2).
  Local Notation powT := (pow oneT mulT invT).
  Let I' {A : Type} (a : A) : all a := I.

  Lemma idem_is_one g : g = mulT g g -> g = oneT.
  Proof.
    intros H.
    transitivity (mulT (invT g) (mulT g g)).
    - rewrite (cg_assoc _ _ _ _ grpT), (cg_inv_l _ _ _ _ grpT) by exact I. symmetry. apply (cg_1_l _ _ _ _ grpT).
    - rewrite <- H. apply (cg_inv_l _ _ _ _ grpT). exact I.
  Qed.

  (* identity in either slot gives the identity of the target group *)
  Theorem pairing_identity_l Q : e zero1 Q = oneT.
  Proof.
    apply idem_is_one. rewrite <- tate_additive_l. f_equal. symmetry. apply (cg_1_l _ _ _ _ grp1).
  Qed.
  Theorem pairing_identity_r P : e P zero2 = oneT.
  Proof.
    apply idem_is_one. rewrite <- tate_additive_r. f_equal. symmetry. apply (cg_1_l _ _ _ _ grp2).
  Qed.

  Lemma pairing_neg_l P Q : e (neg1 P) Q = invT (e P Q).
  Proof.
    apply (inv_unique oneT mulT invT all grpT); [exact I|].
    rewrite <- tate_additive_l, (cg_inv_l _ _ _ _ grp1) by exact I. apply pairing_identity_l.
  Qed.
  Lemma pairing_neg_r P Q : e P (neg2 Q) = invT (e P Q).
  Proof.
    apply (inv_unique oneT mulT invT all grpT); [exact I|].
    rewrite <- tate_additive_r, (cg_inv_l _ _ _ _ grp2) by exact I. apply pairing_identity_r.
  Qed.

  Theorem pairing_smul_l P Q : forall a, e (smul1 P a) Q = powT (e P Q) a.
  Proof.
    apply Z.peano_ind.
    - rewrite !pow_0. apply pairing_identity_l.
    - intros a IH. unfold Z.succ.
      rewrite (pow_succ zero1 add1 neg1 all grp1), (pow_succ oneT mulT invT all grpT) by exact I.
      rewrite tate_additive_l, IH. reflexivity.
    - intros a IH. unfold Z.pred. replace (a + -1) with (a - 1) by lia.
      rewrite (pow_pred zero1 add1 neg1 all grp1), (pow_pred oneT mulT invT all grpT) by exact I.
      rewrite tate_additive_l, IH, pairing_neg_l. reflexivity.
  Qed.
  Theorem pairing_smul_r P Q : forall b, e P (smul2 Q b) = powT (e P Q) b.
  Proof.
    apply Z.peano_ind.
    - rewrite !pow_0. apply pairing_identity_r.
    - intros a IH. unfold Z.succ.
      rewrite (pow_succ zero2 add2 neg2 all grp2), (pow_succ oneT mulT invT all grpT) by exact I.
      rewrite tate_additive_r, IH. reflexivity.
    - intros a IH. unfold Z.pred. replace (a + -1) with (a - 1) by lia.
      rewrite (pow_pred zero2 add2 neg2 all grp2), (pow_pred oneT mulT invT all grpT) by exact I.
      rewrite tate_additive_r, IH, pairing_neg_r. reflexivity.
  Qed.

  (* (d) e(aP, bQ) = e(P, Q)^(ab) for all integers a, b *)
  Theorem bilinear_partial P Q a b : e (smul1 P a) (smul2 Q b) = powT (e P Q) (a * b).
  Proof.
    rewrite pairing_smul_l, pairing_smul_r, Z.mul_comm.
    apply (pow_mul oneT mulT invT all grpT). exact I.
  Qed.
  Theorem pairing_swap_scalar P Q a : e (smul1 P a) Q = e P (smul2 Q a).
  Proof. rewrite pairing_smul_l, pairing_smul_r. reflexivity. Qed.

  (* every output has order dividing r when r.P = 0 *)
  Theorem output_order_divides_r P Q r : smul1 P r = zero1 -> powT (e P Q) r = oneT.
  Proof. intros H. rewrite <- pairing_smul_l, H. apply pairing_identity_l. Qed.

  (* multi-pairing: the specification is the product of the pairings *)
  Fixpoint multi_pairing_spec (l : list (G1 * G2)) : GT :=
    match l with [] => oneT | (P, Q) :: l' => mulT (e P Q) (multi_pairing_spec l') end.
  Theorem multi_pairing_identity_dropped l1 l2 P Q : P = zero1 \/ Q = zero2 ->
    multi_pairing_spec (l1 ++ (P, Q) :: l2) = multi_pairing_spec (l1 ++ l2).
  Proof.
    intros H. induction l1 as [|[P1 Q1] l1 IH]; cbn [multi_pairing_spec app].
    - destruct H as [-> | ->]; [rewrite pairing_identity_l | rewrite pairing_identity_r]; apply (cg_1_l _ _ _ _ grpT).
    - rewrite IH. reflexivity.
  Qed.
  (* a non-degenerate pairing of generators: if e(G1,G2) = 1 then every e(aG1, bG2) = 1 *)
  Theorem degenerate_generators_kill_everything g1 g2 : e g1 g2 = oneT ->
    forall a b, e (smul1 g1 a) (smul2 g2 b) = oneT.
  Proof.
    intros H a b. rewrite bilinear_partial, H. apply (pow_one_base oneT mulT invT all grpT).
  Qed.
End Laws.
