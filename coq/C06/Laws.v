(* C06 model -- the specified answers of the law-level operations.  These operations
   evaluate, on the Rust side and with the public API only, a relation that the property
   demands to hold (every component is the truth value of one equation); the model is the
   constant "all true".  What each component means is stated in LawProofs.v
   (`*_spec` definitions over an abstract bilinear pairing) and Props/C06.v.
     10 bilinearity_check [s;t;x;y]        e(x sG1, y tG2) = e(sG1,tG2)^(xy);  e(xP,Q) = e(P,xQ)
     11 additivity_check [s;s';t;t']       e(P+P',Q) = e(P,Q)e(P',Q);  e(P,Q+Q') = e(P,Q)e(P,Q')
     12 multi_pairing_vs_product           multi_pairing(Ps,Qs) = prod_i pairing(P_i,Q_i)
     13 pairing_with_identity_is_one       e(P,Q) = 1 in both views when P = 0 or Q = 0
     14 output_order_divides_r             e(P,Q)^r = 1
     15 generators_nondegenerate           e(G1,G2) <> 1;  PairingOutput::generator() = e(G1,G2)
     16 prepared_vs_unprepared             affine = projective = prepared = prepare_g1/g2 = multi *)
From V Require Import Base.Field.

Definition law_model (op : Z) : option (list bool) :=
  match op with
  | 10 => Some [true; true]
  | 11 => Some [true; true]
  | 12 => Some [true]
  | 13 => Some [true; true]
  | 14 => Some [true]
  | 15 => Some [true; true]
  | 16 => Some [true; true; true; true]
  | 17 => Some [true; true; true; true]      (* pairing_with_decoded_identity: G1 / G2 x Validate::Yes / No *)
  | _ => None
  end.
