(* C06 model -- the family-independent skeleton of `multi_miller_loop`
   (ec/src/models/{bls12,bn,bw6}/mod.rs): pairs containing an identity are dropped,
   the remaining pairs are processed in chunks of 4 (`cfg_chunks_mut!(pairs, 4)`), every
   chunk runs the loop from f = 1 consuming the precomputed line coefficients of each
   pair in lock-step (`coeffs.next().unwrap()`: exhaustion = panic = None here), the chunk
   values are multiplied (`.product()` = fold from one) and a family specific tail is
   applied to the product and to the *advanced* coefficient iterators.
   Executable definitions only; generic in the target field T, the coefficient type C and
   the prepared G1 type P. *)
From V Require Import Base.Field.

Section Skeleton.
  Context {T C P : Type}.
  Variables (tone : T) (tmul : T -> T -> T) (tsq : T -> T).
  Variable ell : T -> C -> P -> T.          (* Bls12::ell / Bn::ell / BW6::ell *)

  (* a pair that survived the filter: the G1 point and the not yet consumed coefficients *)
  Definition pstate : Type := (P * list C)%type.

  (* `for (p, coeffs) in pairs.iter_mut() { ell(&mut f, &coeffs.next().unwrap(), &p.0) }` *)
  Fixpoint ell_all (f : T) (ps : list pstate) : option (T * list pstate) :=
    match ps with
    | [] => Some (f, [])
    | (p, cs) :: ps' =>
        match cs with
        | [] => None
        | c :: cs' =>
            match ell_all (ell f c p) ps' with
            | Some (f', r) => Some (f', (p, cs') :: r)
            | None => None
            end
        end
    end.

  (* BLS12 (and the first BW6 loop): `for i in BitIteratorBE::without_leading_zeros(X).skip(1)`;
     bits = the bits after the leading one, most significant first *)
  Fixpoint bits_loop (bits : list bool) (f : T) (ps : list pstate) : option (T * list pstate) :=
    match bits with
    | [] => Some (f, ps)
    | b :: bits' =>
        match ell_all (tsq f) ps with
        | None => None
        | Some (f1, ps1) =>
            if b then
              match ell_all f1 ps1 with
              | None => None
              | Some (f2, ps2) => bits_loop bits' f2 ps2
              end
            else bits_loop bits' f1 ps1
        end
    end.

  (* BN: `for i in (1..ATE_LOOP_COUNT.len()).rev()`; ds = ATE_LOOP_COUNT[len-2], ..., [0];
     the squaring is skipped in the first iteration (`i != len - 1`) *)
  Fixpoint digits_loop (ds : list Z) (first : bool) (f : T) (ps : list pstate) : option (T * list pstate) :=
    match ds with
    | [] => Some (f, ps)
    | d :: ds' =>
        match ell_all (if first then f else tsq f) ps with
        | None => None
        | Some (f1, ps1) =>
            if (d =? 1) || (d =? -1) then
              match ell_all f1 ps1 with
              | None => None
              | Some (f2, ps2) => digits_loop ds' false f2 ps2
              end
            else digits_loop ds' false f1 ps1
        end
    end.

  (* `pairs.chunks_mut(4)` *)
  Fixpoint chunks4 {A : Type} (l : list A) : list (list A) :=
    match l with
    | [] => []
    | a :: l1 =>
        match l1 with
        | [] => [[a]]
        | b :: l2 =>
            match l2 with
            | [] => [[a; b]]
            | c :: l3 =>
                match l3 with
                | [] => [[a; b; c]]
                | d :: l4 => [a; b; c; d] :: chunks4 l4
                end
            end
        end
    end.

  (* `.map(|pairs| loop from one).product()`; the iterators advanced inside the chunks stay
     advanced in `pairs` (the chunks are mutable borrows of it) *)
  Section Chunks.
    Variable loop : T -> list pstate -> option (T * list pstate).
    Fixpoint run_chunks (chs : list (list pstate)) (acc : T) (st : list pstate) : option (T * list pstate) :=
      match chs with
      | [] => Some (acc, st)
      | c :: chs' =>
          match loop tone c with
          | Some (g, r) => run_chunks chs' (tmul acc g) (st ++ r)
          | None => None
          end
      end.
    (* the whole function: chunked loop, then the tail stage on product and iterators *)
    Variable tail : T -> list pstate -> option (T * list pstate).
    Definition multi_loop (ps : list pstate) : option (T * list pstate) :=
      match run_chunks (chunks4 ps) tone [] with
      | Some (f, st) => tail f st
      | None => None
      end.
  End Chunks.
End Skeleton.

(* `filter_map`: a pair is kept iff neither side is the identity.  G1Prepared = affine G1
   point (None = infinity), G2Prepared = (coefficients, infinity flag). *)
Definition keep_pair {A C : Type} (pr : option A * (list C * bool)) : list (A * list C) :=
  match pr with
  | (Some xy, (cs, false)) => [(xy, cs)]
  | _ => []
  end.
Definition filter_pairs {A C : Type} (l : list (option A * (list C * bool))) : list (A * list C) :=
  flat_map keep_pair l.

Definition opt_fst {A B : Type} (o : option (A * B)) : option A :=
  match o with Some (a, _) => Some a | None => None end.
