(* C06 proofs -- multi_miller_loop = product of the single-pair Miller loops, for every
   list of pairs, for the chunked skeleton of Miller.v (BLS12 bit loop, BN signed-digit
   loop with its tail of two extra line evaluations, and any tail stage that is
   multiplicative).  Pairs containing an identity are dropped and contribute the factor 1;
   the empty list gives 1.
   Setting: the target field as a commutative monoid (tone, tmul); the only facts used
   about the field operations are  tsq f = f * f  and  ell f c p = f * line c p
   (the sparse multiplication is a multiplication: C02_fp12_mul_by_014/034_spec). *)
From V Require Import Base.Field C06.Miller.

Section MillerProofs.
  Context {T C P : Type}.
  Variables (tone : T) (tmul : T -> T -> T) (tsq : T -> T).
  Variable ell : T -> C -> P -> T.
  Variable line : C -> P -> T.
  Hypothesis tmul_assoc : forall a b c, tmul a (tmul b c) = tmul (tmul a b) c.
  Hypothesis tmul_comm : forall a b, tmul a b = tmul b a.
  Hypothesis tmul_1_l : forall a, tmul tone a = a.
  Hypothesis tsq_is_mul : forall f, tsq f = tmul f f.
  Hypothesis ell_is_mul : forall f c p, ell f c p = tmul f (line c p).

  Local Infix "*" := tmul.
  Local Notation pst := (pstate (C := C) (P := P)).
  Definition stage : Type := T -> list pst -> option (T * list pst).

  Lemma mul4 a b c d : (a * b) * (c * d) = (a * c) * (b * d).
  Proof.
    rewrite <- !tmul_assoc. f_equal. rewrite !tmul_assoc. f_equal. apply tmul_comm.
  Qed.
  Lemma tmul_1_r a : a * tone = a.
  Proof. rewrite tmul_comm. apply tmul_1_l. Qed.
  Lemma tsq_mul a b : tsq (a * b) = tsq a * tsq b.
  Proof. rewrite !tsq_is_mul. apply mul4. Qed.
  Lemma tsq_one : tsq tone = tone.
  Proof. rewrite tsq_is_mul. apply tmul_1_l. Qed.

  (* a stage splits: running it on the concatenation of two lists of pairs, started from
     the product of two values, gives the product of the two separate runs *)
  Definition splits (L : stage) : Prop :=
    forall fa fb a b ga gb a' b',
      L fa a = Some (ga, a') -> L fb b = Some (gb, b') ->
      L (fa * fb) (a ++ b) = Some (ga * gb, a' ++ b').

  Lemma ell_all_scale k : forall b fb gb b',
    ell_all ell fb b = Some (gb, b') -> ell_all ell (k * fb) b = Some (k * gb, b').
  Proof.
    induction b as [|[p cs] b IH]; intros fb gb b' H; cbn [ell_all] in *.
    - inversion H; subst. reflexivity.
    - destruct cs as [|c cs']; [discriminate|].
      destruct (ell_all ell (ell fb c p) b) as [[f' r]|] eqn:E; [|discriminate].
      inversion H; subst.
      replace (ell (k * fb) c p) with (k * ell fb c p) by (rewrite !ell_is_mul; apply tmul_assoc).
      rewrite (IH _ _ _ E). reflexivity.
  Qed.

  Lemma ell_all_splits : splits (ell_all ell).
  Proof.
    intros fa fb a. revert fa fb.
    induction a as [|[p cs] a IH]; intros fa fb b ga gb a' b' Ha Hb; cbn [ell_all app] in *.
    - inversion Ha; subst. cbn [app]. apply ell_all_scale, Hb.
    - destruct cs as [|c cs']; [discriminate|].
      destruct (ell_all ell (ell fa c p) a) as [[f' r]|] eqn:E; [|discriminate].
      inversion Ha; subst.
      replace (ell (fa * fb) c p) with (ell fa c p * fb).
      + rewrite (IH _ _ _ _ _ _ _ E Hb). reflexivity.
      + rewrite !ell_is_mul, <- !tmul_assoc. f_equal. apply tmul_comm.
  Qed.

  Lemma bits_loop_splits bits : splits (bits_loop tsq ell bits).
  Proof.
    induction bits as [|b bits IH]; intros fa fb a b0 ga gb a' b' Ha Hb; cbn [bits_loop] in *.
    - inversion Ha; inversion Hb; subst. reflexivity.
    - destruct (ell_all ell (tsq fa) a) as [[fa1 a1]|] eqn:Ea; [|discriminate].
      destruct (ell_all ell (tsq fb) b0) as [[fb1 b1]|] eqn:Eb; [|discriminate].
      rewrite tsq_mul, (ell_all_splits _ _ _ _ _ _ _ _ Ea Eb).
      destruct b.
      + destruct (ell_all ell fa1 a1) as [[fa2 a2]|] eqn:Ea2; [|discriminate].
        destruct (ell_all ell fb1 b1) as [[fb2 b2]|] eqn:Eb2; [|discriminate].
        rewrite (ell_all_splits _ _ _ _ _ _ _ _ Ea2 Eb2). apply IH; assumption.
      + apply IH; assumption.
  Qed.

  Lemma digits_loop_splits ds : forall first, splits (digits_loop tsq ell ds first).
  Proof.
    induction ds as [|d ds IH]; intros first fa fb a b0 ga gb a' b' Ha Hb; cbn [digits_loop] in *.
    - inversion Ha; inversion Hb; subst. reflexivity.
    - destruct (ell_all ell (if first then fa else tsq fa) a) as [[fa1 a1]|] eqn:Ea; [|discriminate].
      destruct (ell_all ell (if first then fb else tsq fb) b0) as [[fb1 b1]|] eqn:Eb; [|discriminate].
      replace (if first then fa * fb else tsq (fa * fb))
        with ((if first then fa else tsq fa) * (if first then fb else tsq fb))
        by (destruct first; [reflexivity | symmetry; apply tsq_mul]).
      rewrite (ell_all_splits _ _ _ _ _ _ _ _ Ea Eb).
      destruct ((d =? 1) || (d =? -1)).
      + destruct (ell_all ell fa1 a1) as [[fa2 a2]|] eqn:Ea2; [|discriminate].
        destruct (ell_all ell fb1 b1) as [[fb2 b2]|] eqn:Eb2; [|discriminate].
        rewrite (ell_all_splits _ _ _ _ _ _ _ _ Ea2 Eb2). apply IH; assumption.
      + apply IH; assumption.
  Qed.

  Lemma bits_loop_nil bits : bits_loop tsq ell bits tone [] = Some (tone, []).
  Proof.
    induction bits as [|b bits IH]; cbn [bits_loop ell_all]; [reflexivity|].
    rewrite tsq_one. destruct b; exact IH.
  Qed.
  Lemma digits_loop_nil ds : forall first, digits_loop tsq ell ds first tone [] = Some (tone, []).
  Proof.
    induction ds as [|d ds IH]; intros first; cbn [digits_loop ell_all]; [reflexivity|].
    replace (if first then tone else tsq tone) with tone by (destruct first; [reflexivity | symmetry; apply tsq_one]).
    destruct ((d =? 1) || (d =? -1)); apply IH.
  Qed.

  (* tails *)
  Lemma splits_comp (L1 L2 : stage) : splits L1 -> splits L2 ->
    splits (fun f ps => match L1 f ps with Some (g, r) => L2 g r | None => None end).
  Proof.
    intros H1 H2 fa fb a b ga gb a' b' Ha Hb.
    destruct (L1 fa a) as [[g1 r1]|] eqn:Ea; [|discriminate].
    destruct (L1 fb b) as [[g2 r2]|] eqn:Eb; [|discriminate].
    rewrite (H1 _ _ _ _ _ _ _ _ Ea Eb). apply H2; assumption.
  Qed.
  Lemma splits_map (phi : T -> T) : (forall a b, phi (a * b) = phi a * phi b) ->
    splits (fun f ps => Some (phi f, ps)).
  Proof.
    intros Hphi fa fb a b ga gb a' b' Ha Hb. inversion Ha; inversion Hb; subst. rewrite Hphi. reflexivity.
  Qed.

  Lemma concat_chunks4 {A : Type} : forall l : list A, concat (chunks4 l) = l.
  Proof.
    fix IH 1. intros [|a [|b [|c [|d l]]]]; cbn [chunks4 concat app]; try reflexivity.
    rewrite IH. reflexivity.
  Qed.

  Section Product.
    Variables L S : stage.
    Hypothesis L_splits : splits L.
    Hypothesis L_nil : L tone [] = Some (tone, []).
    Hypothesis S_splits : splits S.
    Hypothesis S_nil : S tone [] = Some (tone, []).

    Fixpoint collect (l : list pst) : option (T * list pst) :=
      match l with
      | [] => Some (tone, [])
      | q :: l' =>
          match L tone [q], collect l' with
          | Some (g, r), Some (g', r') => Some (g * g', r ++ r')
          | _, _ => None
          end
      end.

    Lemma collect_L l : forall g r, collect l = Some (g, r) -> L tone l = Some (g, r).
    Proof.
      induction l as [|q l IH]; intros g r H; cbn [collect] in H.
      - inversion H; subst. exact L_nil.
      - destruct (L tone [q]) as [[g1 r1]|] eqn:E1; [|discriminate].
        destruct (collect l) as [[g2 r2]|] eqn:E2; [|discriminate].
        inversion H; subst.
        pose proof (L_splits _ _ _ _ _ _ _ _ E1 (IH _ _ eq_refl)) as Hs.
        rewrite tmul_1_l in Hs. exact Hs.
    Qed.

    Lemma collect_app a : forall b ga ra gb rb,
      collect a = Some (ga, ra) -> collect b = Some (gb, rb) ->
      collect (a ++ b) = Some (ga * gb, ra ++ rb).
    Proof.
      induction a as [|q a IH]; intros b ga ra gb rb Ha Hb; cbn [collect app] in *.
      - inversion Ha; subst. rewrite tmul_1_l. exact Hb.
      - destruct (L tone [q]) as [[g1 r1]|] eqn:E1; [|discriminate].
        destruct (collect a) as [[g2 r2]|] eqn:E2; [|discriminate].
        inversion Ha; subst. rewrite (IH _ _ _ _ _ eq_refl Hb), tmul_assoc, app_assoc. reflexivity.
    Qed.
    Lemma collect_app_inv a : forall b g r, collect (a ++ b) = Some (g, r) ->
      exists ga ra gb rb, collect a = Some (ga, ra) /\ collect b = Some (gb, rb).
    Proof.
      induction a as [|q a IH]; intros b g r H; cbn [collect app] in *.
      - exists tone, [], g, r. split; [reflexivity | exact H].
      - destruct (L tone [q]) as [[g1 r1]|] eqn:E1; [|discriminate].
        destruct (collect (a ++ b)) as [[g2 r2]|] eqn:E2; [|discriminate].
        destruct (IH _ _ _ E2) as (ga & ra & gb & rb & Ha & Hb).
        rewrite Ha. exists (g1 * ga), (r1 ++ ra), gb, rb. split; [reflexivity | exact Hb].
    Qed.

    Lemma run_chunks_collect chs : forall acc st g r,
      collect (concat chs) = Some (g, r) ->
      run_chunks tone tmul L chs acc st = Some (acc * g, st ++ r).
    Proof.
      induction chs as [|c chs IH]; intros acc st g r H; cbn [run_chunks concat] in *.
      - inversion H; subst. rewrite tmul_1_r, app_nil_r. reflexivity.
      - destruct (collect_app_inv _ _ _ _ H) as (ga & ra & gb & rb & Ha & Hb).
        rewrite (collect_app _ _ _ _ _ _ Ha Hb) in H. inversion H; subst.
        rewrite (collect_L _ _ _ Ha), (IH _ _ _ _ Hb), tmul_assoc, app_assoc. reflexivity.
    Qed.

    Definition single (q : pst) : option (T * list pst) := multi_loop tone tmul L S [q].
    Fixpoint product_of_singles (l : list pst) : option (T * list pst) :=
      match l with
      | [] => Some (tone, [])
      | q :: l' =>
          match single q, product_of_singles l' with
          | Some (g, r), Some (g', r') => Some (g * g', r ++ r')
          | _, _ => None
          end
      end.

    Lemma single_unfold q : single q = match L tone [q] with Some (g, r) => S g r | None => None end.
    Proof.
      unfold single, multi_loop. cbn [chunks4 run_chunks].
      destruct (L tone [q]) as [[g r]|]; [|reflexivity]. rewrite tmul_1_l. reflexivity.
    Qed.

    Lemma product_collect l : forall G R, product_of_singles l = Some (G, R) ->
      exists g r, collect l = Some (g, r) /\ S g r = Some (G, R).
    Proof.
      induction l as [|q l IH]; intros G R H; cbn [product_of_singles collect] in *.
      - injection H as <- <-. exists tone, []. split; [reflexivity | exact S_nil].
      - rewrite single_unfold in H.
        destruct (L tone [q]) as [[g1 r1]|] eqn:E1; [|discriminate].
        destruct (S g1 r1) as [[G1 R1]|] eqn:ES; [|discriminate].
        destruct (product_of_singles l) as [[G2 R2]|] eqn:E2; [|discriminate].
        inversion H; subst.
        destruct (IH _ _ eq_refl) as (g2 & r2 & Hc & HS). rewrite Hc.
        exists (g1 * g2), (r1 ++ r2). split; [reflexivity|]. apply S_splits; assumption.
    Qed.

    (* the chunked function on every list = the product of the single-pair runs *)
    Theorem multi_equals_product_states l G R :
      product_of_singles l = Some (G, R) -> multi_loop tone tmul L S l = Some (G, R).
    Proof.
      intros H. destruct (product_collect _ _ _ H) as (g & r & Hc & HS).
      unfold multi_loop. rewrite (run_chunks_collect (chunks4 l) tone [] g r) by (rewrite concat_chunks4; exact Hc).
      rewrite tmul_1_l. exact HS.
    Qed.

    (* with the identity filter in front: pairs as the caller passes them *)
    Definition multi_pairs (pairs : list (option P * (list C * bool))) : option (T * list pst) :=
      multi_loop tone tmul L S (filter_pairs pairs).
    Fixpoint product_of_pairs (pairs : list (option P * (list C * bool))) : option (T * list pst) :=
      match pairs with
      | [] => Some (tone, [])
      | pr :: l =>
          match multi_pairs [pr], product_of_pairs l with
          | Some (g, r), Some (g', r') => Some (g * g', r ++ r')
          | _, _ => None
          end
      end.

    Lemma multi_nil : multi_loop tone tmul L S [] = Some (tone, []).
    Proof. unfold multi_loop. cbn [chunks4 run_chunks]. exact S_nil. Qed.

    Lemma keep_pair_cases (pr : option P * (list C * bool)) :
      keep_pair pr = [] \/ exists q, keep_pair pr = [q].
    Proof.
      destruct pr as [[xy|] [cs [|]]]; cbn [keep_pair]; auto. right. eexists. reflexivity.
    Qed.

    (* (c) a pair with an identity on either side contributes the factor 1; empty list -> 1 *)
    Theorem identity_pair_dropped pr : keep_pair pr = [] -> multi_pairs [pr] = Some (tone, []).
    Proof.
      intros H. unfold multi_pairs, filter_pairs. cbn [flat_map]. rewrite H. cbn [app]. exact multi_nil.
    Qed.
    Theorem empty_list_is_one : multi_pairs [] = Some (tone, []).
    Proof. exact multi_nil. Qed.

    Lemma product_of_pairs_singles pairs : forall G R,
      product_of_pairs pairs = Some (G, R) -> product_of_singles (filter_pairs pairs) = Some (G, R).
    Proof.
      induction pairs as [|pr l IH]; intros G R H; cbn [product_of_pairs] in H.
      - exact H.
      - unfold multi_pairs, filter_pairs in H. cbn [flat_map] in H. rewrite app_nil_r in H.
        unfold filter_pairs. cbn [flat_map]. fold (filter_pairs l).
        destruct (keep_pair_cases pr) as [E|[q E]]; rewrite E in *.
        + unfold multi_loop in H. cbn [chunks4 run_chunks] in H. rewrite S_nil in H.
          destruct (product_of_pairs l) as [[G2 R2]|] eqn:E2; [|discriminate].
          inversion H; subst. rewrite tmul_1_l. cbn [app]. apply IH. reflexivity.
        + change (multi_loop tone tmul L S [q]) with (single q) in H.
          cbn [app product_of_singles].
          destruct (single q) as [[g1 r1]|]; [|discriminate].
          destruct (product_of_pairs l) as [[G2 R2]|] eqn:E2; [|discriminate].
          rewrite (IH _ _ eq_refl). exact H.
    Qed.

    (* (b) multi_miller_loop of any list of pairs = product of the single-pair values *)
    Theorem multi_equals_product pairs G R :
      product_of_pairs pairs = Some (G, R) -> multi_pairs pairs = Some (G, R).
    Proof.
      intros H. apply multi_equals_product_states, product_of_pairs_singles, H.
    Qed.
  End Product.
End MillerProofs.
