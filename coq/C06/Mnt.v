(* C06 model -- MNT4 and MNT6 (ec/src/models/mnt4/{mod,g1,g2}.rs, mnt6 likewise; the two
   families are the same code over a different twist field): `G1Prepared::from`,
   `G2Prepared::from` (extended coordinates, `doubling_for_flipped_miller_loop`,
   `mixed_addition_for_flipped_miller_loop`, the ATE_IS_LOOP_COUNT_NEG tail, the identity
   case = empty coefficient lists), `ate_miller_loop`, `multi_miller_loop` (product over
   the pairs, no chunking, no filter), `final_exponentiation` (first chunk, last chunk
   w1 * q + w0).
   Executable definitions only.  Generic in the twist-field level LE (Fp2 for MNT4, Fp3 for
   MNT6) and the target level LT (Fp4 = Fp2[W]/(W^2-U), Fp6 = Fp3[W]/(W^2-V)) of package
   C02 (coq/C02/Inst.v); all constants are arguments.
   `mnt6 = true` selects the three places where mnt6/mod.rs associates a sum differently
   from mnt4/mod.rs (same field value; modelled as written).
   Panics (`unwrap` on None, `assert_eq!`, index out of bounds, `unreachable!`) = None. *)
From V Require Import Base.Word Base.Field C15.BigIntModel C02.Quad C02.Cubic C02.Towers C02.Inst.
From V Require Import C06.FinalExp.

Section Mnt.
  Context {T0 E : Type}.
  Variable Fp : Fops T0.                  (* the prime field *)
  Variable LE : level T0 E.               (* twist field: Fp2 (MNT4) / Fp3 (MNT6) *)
  Variable LT : level T0 (E * E).         (* target field: Fp4 / Fp6 (2 over 3) *)
  Variable embed : T0 -> E.               (* Fp2::new(x, 0) / Fp3::new(x, 0, 0) *)
  Variable mnt6 : bool.
  Variables (twist twist_a : E).          (* P::TWIST, P::TWIST_COEFF_A *)
  Variable ate : list Z.                  (* P::ATE_LOOP_COUNT, as stored (most significant first) *)
  Variable ate_neg : bool.                (* P::ATE_IS_LOOP_COUNT_NEG *)

  Let Fe := lF LE.
  Local Notation "a + b" := (fadd Fe a b). Local Notation "a - b" := (fsub Fe a b).
  Local Notation "a * b" := (fmul Fe a b). Local Notation "- a" := (fneg Fe a).
  Definition esq (a : E) : E := lsquare LE a.                 (* .square() *)
  Definition edbl (a : E) : E := a + a.                       (* .double() *)
  Definition einv (a : E) : option E :=                       (* .inverse().unwrap(): None = panic *)
    match linverse LE a with Some (Some r) => Some r | _ => None end.

  Definition T : Type := (E * E)%type.
  Definition mtone : T := f1 (lF LT).
  Definition mtmul : T -> T -> T := fmul (lF LT).
  Definition mtsq : T -> T := lsquare LT.
  Definition mtinv (f : T) : option T :=
    match linverse LT f with Some (Some g) => Some g | _ => None end.
  Definition mconj (f : T) : T := quad_conjugate Fe f.          (* cyclotomic_inverse_in_place *)
  Definition mfrob : Z -> T -> T := lfrob LT.

  (* G2ProjectiveExtended {x, y, z, t}; AteDoubleCoefficients {c_h, c_4c, c_j, c_l};
     AteAdditionCoefficients {c_l1, c_rz} *)
  Definition ext : Type := (E * E * E * E)%type.
  Definition dcoef : Type := (E * E * E * E)%type.
  Definition acoef : Type := (E * E)%type.

  Definition mnt_double (r : ext) : ext * dcoef :=
    let '(rx, ry, rz, rt) := r in
    let a := esq rt in
    let b := esq rx in
    let c := esq ry in
    let d := esq c in
    let e := esq (rx + c) - b - d in
    let f := (b + b + b) + (twist_a * a) in
    let g := esq f in
    let d_eight := edbl (edbl (edbl d)) in
    let x := if mnt6 then g - edbl (edbl e) else (- (e + e + e + e)) + g in
    let y := if mnt6 then (- d_eight) + (f * (edbl e - x)) else (- d_eight) + (f * (e + e - x)) in
    let z := esq (ry + rz) - c - esq rz in
    let t := esq z in
    ((x, y, z, t),
     (esq (z + rt) - t - a, c + c + c + c, esq (f + rt) - g - a, esq (f + rx) - g - b)).

  Definition mnt_add (x y : E) (r : ext) : ext * acoef :=
    let '(rx, ry, rz, rt) := r in
    let a := esq y in
    let b := rt * x in
    let d := (esq (rz + y) - a - rt) * rt in
    let h := b - rx in
    let i := esq h in
    let e := i + i + i + i in
    let j := h * e in
    let v := rx * e in
    let ry2 := if mnt6 then edbl ry else ry + ry in
    let l1 := d - ry2 in
    let x' := esq l1 - j - (v + v) in
    let y' := l1 * (v - x') - (j * ry2) in
    let z' := esq (rz + h) - rt - i in
    let t' := esq z' in
    ((x', y', z', t'), (l1, z')).

  (* `for bit in ATE_LOOP_COUNT.iter().skip(1) { double; match bit { 1 => add g, -1 => add -g, 0 => continue, _ => unreachable!() } }` *)
  Fixpoint mnt_prep_loop (ds : list Z) (q nq : E * E) (r : ext) : option (ext * list dcoef * list acoef) :=
    match ds with
    | [] => Some (r, [], [])
    | d :: ds' =>
        let '(r2, dc) := mnt_double r in
        if d =? 1 then
          let '(r3, ac) := mnt_add (fst q) (snd q) r2 in
          match mnt_prep_loop ds' q nq r3 with
          | Some (r4, dcs, acs) => Some (r4, dc :: dcs, ac :: acs)
          | None => None
          end
        else if d =? -1 then
          let '(r3, ac) := mnt_add (fst nq) (snd nq) r2 in
          match mnt_prep_loop ds' q nq r3 with
          | Some (r4, dcs, acs) => Some (r4, dc :: dcs, ac :: acs)
          | None => None
          end
        else if d =? 0 then
          match mnt_prep_loop ds' q nq r2 with
          | Some (r4, dcs, acs) => Some (r4, dc :: dcs, acs)
          | None => None
          end
        else None
    end.

  (* G2Prepared {x, y, x_over_twist, y_over_twist, double_coefficients, addition_coefficients} *)
  Definition g2p : Type := (E * E * E * E * list dcoef * list acoef)%type.
  (* G1Prepared {x, y, x_twist, y_twist} *)
  Definition g1p : Type := (T0 * T0 * E * E)%type.

  (* affine input: None = the point at infinity, whose stored coordinates are (0, 0) *)
  Definition aff_xy {A : Type} (zero : A) (q : option (A * A)) : A * A :=
    match q with Some xy => xy | None => (zero, zero) end.

  Definition mnt_g2_prepare (q : option (E * E)) : option g2p :=
    match einv twist with
    | None => None
    | Some twist_inv =>
        let '(gx, gy) := aff_xy (f0 Fe) q in
        let xot := gx * twist_inv in
        let yot := gy * twist_inv in
        match q with
        | None => Some (gx, gy, xot, yot, [], [])
        | Some _ =>
            let one := f1 Fe in
            match mnt_prep_loop (tl ate) (gx, gy) (gx, - gy) (gx, gy, one, one) with
            | None => None
            | Some (r, dcs, acs) =>
                if ate_neg then
                  let '(rx, ry, rz, rt) := r in
                  match einv rz with
                  | None => None
                  | Some rz_inv =>
                      let rz2_inv := esq rz_inv in
                      let rz3_inv := rz_inv * rz2_inv in
                      let mx := rx * rz2_inv in
                      let my := (- ry) * rz3_inv in
                      let '(_, ac) := mnt_add mx my r in
                      Some (gx, gy, xot, yot, dcs, acs ++ [ac])
                  end
                else Some (gx, gy, xot, yot, dcs, acs)
            end
        end
    end.

  Definition mnt_g1_prepare (p : option (T0 * T0)) : g1p :=
    let '(x, y) := aff_xy (f0 Fp) p in (x, y, lmulfp LE twist x, lmulfp LE twist y).

  (* ---------------- ate_miller_loop ---------------- *)
  Section Loop.
    Variables (xtw ytw : E).               (* p.x_twist, p.y_twist *)
    Variables (yot yotn l1_coeff : E).     (* q.y_over_twist, its negation, l1_coeff *)
    Definition g_rq (y : E) (ac : acoef) : T :=
      let '(l1, rz) := ac in (rz * ytw, - ((y * rz) + (l1_coeff * l1))).
    (* `for (bit, dc) in ATE_LOOP_COUNT.iter().skip(1).zip(&q.double_coefficients)`;
       `addition_coefficients[add_idx]` with add_idx counting up = head of the remaining list *)
    Fixpoint mnt_loop (ds : list Z) (dcs : list dcoef) (acs : list acoef) (f : T) : option (T * list acoef) :=
      match ds, dcs with
      | d :: ds', dc :: dcs' =>
          let '(ch, c4c, cj, cl) := dc in
          let g_rr : T :=
            ((if mnt6 then cl - c4c - (cj * xtw) else (- c4c) - (cj * xtw) + cl), ch * ytw) in
          let f1 := mtmul (mtsq f) g_rr in
          if d =? 1 then
            match acs with
            | [] => None
            | ac :: acs' => mnt_loop ds' dcs' acs' (mtmul f1 (g_rq yot ac))
            end
          else if d =? -1 then
            match acs with
            | [] => None
            | ac :: acs' => mnt_loop ds' dcs' acs' (mtmul f1 (g_rq yotn ac))
            end
          else if d =? 0 then mnt_loop ds' dcs' acs f1
          else None
      | _, _ => Some (f, acs)
      end.
  End Loop.

  Definition mnt_ate_miller_loop (p : g1p) (q : g2p) : option T :=
    let '(px, py, xtw, ytw) := p in
    let '(qx, qy, xot, yot, dcs, acs) := q in
    let l1_coeff := embed px - xot in
    let yotn := - yot in
    match dcs with
    | [] => Some mtone
    | _ :: _ =>
        if negb (Nat.eqb (Nat.pred (length ate)) (length dcs)) then None
        else
          match mnt_loop xtw ytw yot yotn l1_coeff (tl ate) dcs acs mtone with
          | None => None
          | Some (f, acs') =>
              if ate_neg then
                match acs' with
                | [] => None
                | ac :: _ => mtinv (mtmul f (g_rq ytw l1_coeff yot ac))
                end
              else Some f
          end
    end.

  (* multi_miller_loop: `.map(|(a, b)| ate_miller_loop(&a, &b)).product()` (fold from one) *)
  Definition mnt_mul_opt (acc : option T) (v : option T) : option T :=
    match acc, v with Some a, Some b => Some (mtmul a b) | _, _ => None end.
  Definition mnt_multi_miller_prepared (pairs : list (g1p * g2p)) : option T :=
    fold_left (fun acc pq => mnt_mul_opt acc (mnt_ate_miller_loop (fst pq) (snd pq))) pairs (Some mtone).
  (* `.map(|(a, b)| (a.into(), b.into()))` *)
  Fixpoint mnt_prepare_pairs (pairs : list (option (T0 * T0) * option (E * E))) : option (list (g1p * g2p)) :=
    match pairs with
    | [] => Some []
    | (p, q) :: l =>
        match mnt_g2_prepare q, mnt_prepare_pairs l with
        | Some qp, Some r => Some ((mnt_g1_prepare p, qp) :: r)
        | _, _ => None
        end
    end.
  Definition mnt_multi_miller (pairs : list (option (T0 * T0) * option (E * E))) : option T :=
    match mnt_prepare_pairs pairs with
    | Some l => mnt_multi_miller_prepared l
    | None => None
    end.

  (* ---------------- final_exponentiation ---------------- *)
  Variables (w1 w0 : list Z).              (* FINAL_EXPONENT_LAST_CHUNK_1, .._ABS_OF_W0 (limbs) *)
  Variable w0_neg : bool.
  Definition mcyc_exp (f : T) (e : list Z) : T :=
    match cyclotomic_exp LT f e with Some r => r | None => f end.
  Definition mnt_first_chunk (elt elt_inv : T) : T :=
    if mnt6 then mnt6_first_chunk mtmul mconj mfrob elt elt_inv
    else mnt4_first_chunk mtmul mconj elt elt_inv.
  (* outer None: model fuel of find_naf (never); inner None: `value.inverse()?` *)
  Definition mnt_final_exponentiation (f : T) : option (option T) :=
    match find_naf w1, find_naf w0 with
    | Some _, Some _ =>
        Some (mnt_final_exp mtmul mtinv mfrob (fun x => mcyc_exp x w1) (fun x => mcyc_exp x w0) w0_neg
                            mnt_first_chunk f)
    | _, _ => None
    end.
End Mnt.
