(* C06 proofs -- MNT4 / MNT6 (Mnt.v, the functions Run.v executes): multi_miller_loop is the
   product of the single-pair `ate_miller_loop` values for every list (no chunking, no
   filter), in particular it equals the product of its own values on the one-element lists;
   a pair whose G2 side is the point at infinity (`G2Prepared::from(identity)` = empty
   coefficient lists) contributes the factor one; the empty list gives one; prepared =
   unprepared.  Only the commutative-monoid laws of the target-field multiplication are
   used (premises; C02 establishes them for the towers over Z_p). *)
From V Require Import Base.Word Base.Field C15.BigIntModel C02.Quad C02.Cubic C02.Towers C02.Inst.
From V Require Import C06.FinalExp C06.Mnt.

Section MntProofs.
  Context {T0 E : Type}.
  Variable Fp : Fops T0.
  Variable LE : level T0 E.
  Variable LT : level T0 (E * E).
  Variable embed : T0 -> E.
  Variable mnt6 : bool.
  Variables (twist twist_a : E).
  Variable ate : list Z.
  Variable ate_neg : bool.

  Local Notation tone := (mtone LT).
  Local Notation tmul := (mtmul LT).
  Local Notation ate_loop := (mnt_ate_miller_loop LE LT embed mnt6 ate ate_neg).
  Local Notation multi := (mnt_multi_miller_prepared LE LT embed mnt6 ate ate_neg).
  Local Notation mul_opt := (mnt_mul_opt LT).
  Local Notation g2_prepare := (mnt_g2_prepare LE mnt6 twist twist_a ate ate_neg).

  Hypothesis tmul_assoc : forall a b c, tmul a (tmul b c) = tmul (tmul a b) c.
  Hypothesis tmul_comm : forall a b, tmul a b = tmul b a.
  Hypothesis tmul_1_l : forall a, tmul tone a = a.

  Lemma mul_opt_1_l v : mul_opt (Some tone) v = v.
  Proof. destruct v as [b|]; cbn [mnt_mul_opt]; [rewrite tmul_1_l|]; reflexivity. Qed.
  Lemma mul_opt_1_r v : mul_opt v (Some tone) = v.
  Proof. destruct v as [b|]; cbn [mnt_mul_opt]; [rewrite tmul_comm, tmul_1_l|]; reflexivity. Qed.
  Lemma mul_opt_assoc a b c : mul_opt a (mul_opt b c) = mul_opt (mul_opt a b) c.
  Proof. destruct a, b, c; cbn [mnt_mul_opt]; try reflexivity. rewrite tmul_assoc. reflexivity. Qed.

  Local Notation step := (fun acc (pq : g1p (T0 := T0) (E := E) * g2p (E := E)) => mul_opt acc (ate_loop (fst pq) (snd pq))).
  Lemma fold_acc l : forall acc, fold_left step l acc = mul_opt acc (fold_left step l (Some tone)).
  Proof.
    induction l as [|pq l IH]; intros acc; cbn [fold_left].
    - symmetry. apply mul_opt_1_r.
    - rewrite IH, (IH (mul_opt (Some tone) _)), mul_opt_1_l, mul_opt_assoc. reflexivity.
  Qed.

  (* one pair: the multi loop is the single-pair ate Miller loop *)
  Theorem mnt_multi_single p q : multi [(p, q)] = ate_loop p q.
  Proof. unfold mnt_multi_miller_prepared. cbn [fold_left fst snd]. apply mul_opt_1_l. Qed.
  Theorem mnt_multi_nil : multi [] = Some tone.
  Proof. reflexivity. Qed.
  (* multiplicative over concatenation *)
  Theorem mnt_multi_app a b : multi (a ++ b) = mul_opt (multi a) (multi b).
  Proof. unfold mnt_multi_miller_prepared. rewrite fold_left_app. apply fold_acc. Qed.

  (* product of the values of the function on the single pairs (None = some pair panics) *)
  Fixpoint mnt_product_of_pairs (pairs : list (g1p (T0 := T0) (E := E) * g2p (E := E))) : option (T (E := E)) :=
    match pairs with
    | [] => Some tone
    | pq :: l => mul_opt (multi [pq]) (mnt_product_of_pairs l)
    end.
  (* multi_miller_loop over any list = product of the single-pair values *)
  Theorem mnt_multi_equals_product pairs : multi pairs = mnt_product_of_pairs pairs.
  Proof.
    induction pairs as [|pq l IH]; [reflexivity|].
    change (pq :: l) with ([pq] ++ l). rewrite mnt_multi_app, IH. reflexivity.
  Qed.

  (* G2 identity: prepared to empty coefficient lists (whenever TWIST is invertible), and such a
     prepared point pairs to one with every G1 point *)
  Theorem mnt_g2_prepare_identity ti : einv LE twist = Some ti ->
    g2_prepare None =
    Some (f0 (lF LE), f0 (lF LE), fmul (lF LE) (f0 (lF LE)) ti, fmul (lF LE) (f0 (lF LE)) ti, [], []).
  Proof. intros H. unfold mnt_g2_prepare. rewrite H. reflexivity. Qed.
  Theorem mnt_ate_identity p x y xot yot acs : ate_loop p (x, y, xot, yot, [], acs) = Some tone.
  Proof. destruct p as [[[px py] xt] yt]. reflexivity. Qed.
  (* hence a pair with the G2 identity can be dropped from any list *)
  Theorem mnt_identity_pair_dropped a b p x y xot yot acs :
    multi (a ++ (p, (x, y, xot, yot, [], acs)) :: b) = multi (a ++ b).
  Proof.
    change ((p, (x, y, xot, yot, [], acs)) :: b) with ([(p, (x, y, xot, yot, [], acs))] ++ b).
    rewrite !mnt_multi_app, mnt_multi_single, mnt_ate_identity, mul_opt_1_l. reflexivity.
  Qed.

  (* prepared = unprepared *)
  Theorem mnt_prepared_equals_unprepared pairs :
    mnt_multi_miller Fp LE LT embed mnt6 twist twist_a ate ate_neg pairs =
    match mnt_prepare_pairs Fp LE mnt6 twist twist_a ate ate_neg pairs with
    | Some l => multi l
    | None => None
    end.
  Proof. reflexivity. Qed.
End MntProofs.
