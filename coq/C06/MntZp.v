(* C06 proofs -- the monoid premises of MntProofs.v discharged for the towers over the integers
   modulo p (C02.ZpInst.ZpS p): Fp4 = Fp2[W]/(W^2 - U) (MNT4) and Fp6 = Fp3[W]/(W^2 - V)
   (MNT6) with the fast formulas are commutative rings (C02: fp2_ring, fp4_nrops_ok, fp3_ring,
   fp6b_nrops_ok, quadM_ring).  Result: MNT multi_miller_loop = product of the single-pair
   values with no premise left except those on the constants. *)
From V Require Import Base.Word Base.Field C15.BigIntModel C02.Quad C02.Cubic C02.Towers C02.Inst.
From V Require Import C02.QuadProofs C02.InstProofs C02.ZpInst.
From V Require Import C06.FinalExp C06.Mnt C06.MntProofs.

Section MntZp.
  Variables (p cid : Z).
  Local Notation K := (ZpS p).

  Section MNT4.
    Variables (nr2 : Zp p) (tab2 : list (Zp p)) (tab4 : list (Zp p)).
    Hypothesis C2 : fp2_consts_ok cid K nr2.
    Local Notation LE := (L2 cid K nr2 tab2).
    Local Notation LT := (L4 cid K nr2 tab2 (f0 K, f1 K) tab4).
    Let R4 := quadM_ring (Fp2 cid K nr2) (fp2_ring cid K (ZpS_ring p) nr2 C2)
                (fp4_nrops cid K nr2 (f0 K, f1 K)) (fp4_nrops_ok cid K (ZpS_ring p) nr2 C2).
    Theorem mnt4_multi_equals_product_zp embed ate ate_neg pairs :
      mnt_multi_miller_prepared LE LT embed false ate ate_neg pairs =
      mnt_product_of_pairs LE LT embed false ate ate_neg pairs.
    Proof.
      exact (mnt_multi_equals_product LE LT embed false ate ate_neg
               (Rmul_assoc R4) (Rmul_comm R4) (Rmul_1_l R4) pairs).
    Qed.
    Theorem mnt4_identity_pair_dropped_zp embed ate ate_neg a b q x y xot yot acs :
      mnt_multi_miller_prepared LE LT embed false ate ate_neg (a ++ (q, (x, y, xot, yot, [], acs)) :: b) =
      mnt_multi_miller_prepared LE LT embed false ate ate_neg (a ++ b).
    Proof.
      exact (mnt_identity_pair_dropped LE LT embed false ate ate_neg
               (Rmul_assoc R4) (Rmul_comm R4) (Rmul_1_l R4) a b q x y xot yot acs).
    Qed.
  End MNT4.

  Section MNT6.
    Variables (nr3 : Zp p) (t1 t2 : list (Zp p)) (tab6b : list (Zp p)).
    Hypothesis C3 : fp3_consts_ok cid K nr3.
    Local Notation LE := (L3 cid K nr3 t1 t2).
    Local Notation LT := (L6b cid K nr3 t1 t2 (f0 K, f1 K, f0 K) tab6b).
    Let R6 := quadM_ring (Fp3 cid K nr3) (fp3_ring cid K (ZpS_ring p) nr3 C3)
                (fp6b_nrops cid K nr3 (f0 K, f1 K, f0 K)) (fp6b_nrops_ok cid K (ZpS_ring p) nr3 C3).
    Theorem mnt6_multi_equals_product_zp embed ate ate_neg pairs :
      mnt_multi_miller_prepared LE LT embed true ate ate_neg pairs =
      mnt_product_of_pairs LE LT embed true ate ate_neg pairs.
    Proof.
      exact (mnt_multi_equals_product LE LT embed true ate ate_neg
               (Rmul_assoc R6) (Rmul_comm R6) (Rmul_1_l R6) pairs).
    Qed.
    Theorem mnt6_identity_pair_dropped_zp embed ate ate_neg a b q x y xot yot acs :
      mnt_multi_miller_prepared LE LT embed true ate ate_neg (a ++ (q, (x, y, xot, yot, [], acs)) :: b) =
      mnt_multi_miller_prepared LE LT embed true ate ate_neg (a ++ b).
    Proof.
      exact (mnt_identity_pair_dropped LE LT embed true ate ate_neg
               (Rmul_assoc R6) (Rmul_comm R6) (Rmul_1_l R6) a b q x y xot yot acs).
    Qed.
  End MNT6.
End MntZp.
