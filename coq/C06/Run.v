(* Uniform case interpreter for the C06 model.
   a0 = [engine; tower_cid; family]  (family 0 = BLS12, 1 = BN; others: law ops only)
   model ops: a1 = Fp12 tower parameters (layout of C02 kind 12), a2 = family constants
   ([twist D?; X negative?; COEFF_B c0 c1] ++ BN: [TWIST_MUL_BY_Q_X c0 c1; _Y c0 c1]),
   a3 = X limbs, a4 = ATE_LOOP_COUNT digits (BN), a5 = [mode] (input form: ignored, see
   prepared_equals_unprepared), a6.. = operands.
   First result list is the status: [0] ok, [2] panic, [9] unsupported. *)
From V Require Import Base.Word Base.Field C15.BigIntModel C02.Quad C02.Cubic C02.Towers C02.Inst.
From V Require Import C06.Miller C06.FinalExp C06.Tower12 C06.Laws.

Definition ok (r : list (list Z)) : list (list Z) := [0] :: r.
Definition panic : list (list Z) := [[2]].
Definition unsupported : list (list Z) := [[9]].
Definition arg (n : nat) (a : list (list Z)) : list Z := nth n a [].
Definition arg0 (n : nat) (a : list (list Z)) : Z := hd 0 (arg n a).
Definition drop (n : nat) (l : list Z) := skipn n l.
Definition take (n : nat) (l : list Z) := firstn n l.
Definition pr (l : list Z) : Z * Z := (nth 0 l 0, nth 1 l 0).
Definition bz (b : bool) : Z := if b then 1 else 0.

Section Decode.
  Variable p : Z.
  Let Fp := ZpOps p.
  Definition fp_of (z : Z) : Z := fof Fp [z].
  Definition fp2_of (l : list Z) : Z * Z := (fp_of (nth 0 l 0), fp_of (nth 1 l 0)).
  (* [inf1; x; y; inf2; x'c0; x'c1; y'c0; y'c1] *)
  Definition pair_of (l : list Z) : option (Z * Z) * option ((Z * Z) * (Z * Z)) :=
    ((if nth 0 l 0 =? 1 then None else Some (fp_of (nth 1 l 0), fp_of (nth 2 l 0))),
     (if nth 3 l 0 =? 1 then None else Some (fp2_of (drop 4 l), fp2_of (drop 6 l)))).
  Definition g2_of (l : list Z) : option ((Z * Z) * (Z * Z)) :=
    if nth 0 l 0 =? 1 then None else Some (fp2_of (drop 1 l), fp2_of (drop 3 l)).
  Definition co2 (x : Z * Z) : list Z := [fst x; snd x].
  Definition co_coeff (c : (Z * Z) * (Z * Z) * (Z * Z)) : list Z :=
    co2 (fst (fst c)) ++ co2 (snd (fst c)) ++ co2 (snd c).
End Decode.

Definition run_tower12 (op : Z) (a : list (list Z)) : list (list Z) :=
  let cid := nth 1 (arg 0 a) 0 in
  let fam := nth 2 (arg 0 a) 0 in
  let P := arg 1 a in
  let p := nth 0 P 0 in
  let Fp := ZpOps p in
  let nr2 := nth 1 P 0 in
  let tab2 := take 2 (drop 2 P) in
  let nr6 := pr (drop 4 P) in
  let t1 := pairs_of (take 12 (drop 6 P)) in
  let t2 := pairs_of (take 12 (drop 18 P)) in
  let nr12 : @E6 Z := (pr (drop 30 P), pr (drop 32 P), pr (drop 34 P)) in
  let tab12 := pairs_of (take 24 (drop 36 P)) in
  let Fc := arg 2 a in
  let twD := nth 0 Fc 0 =? 1 in
  let xneg := nth 1 Fc 0 =? 1 in
  let coeff_b := fp2_of p (drop 2 Fc) in
  let tqx := fp2_of p (drop 4 Fc) in
  let tqy := fp2_of p (drop 6 Fc) in
  let X := arg 3 a in
  let ate := arg 4 a in
  let F12d := F12 cid Fp nr2 tab2 nr6 t1 t2 nr12 tab12 in
  let co := fcoords F12d in
  let miller pairs :=
    if fam =? 0 then bls12_multi_miller cid Fp nr2 tab2 nr6 t1 t2 nr12 tab12 twD coeff_b X xneg pairs
    else bn_multi_miller cid Fp nr2 tab2 nr6 t1 t2 nr12 tab12 twD coeff_b xneg ate tqx tqy pairs in
  let fexp f :=
    if fam =? 0 then bls12_final_exponentiation cid Fp nr2 tab2 nr6 t1 t2 nr12 tab12 X xneg f
    else bn_final_exponentiation cid Fp nr2 tab2 nr6 t1 t2 nr12 tab12 X xneg f in
  let prep q :=
    if fam =? 0 then bls12_prepare cid Fp nr2 twD coeff_b X q
    else bn_prepare cid Fp nr2 tab2 twD coeff_b xneg ate tqx tqy q in
  match op with
  | 1 => (* multi_pairing: Miller loop output, final exponentiation, multi_pairing *)
      match miller (map (pair_of p) (skipn 6 a)) with
      | None => panic
      | Some ml =>
          match fexp ml with
          | Some (Some r) => ok [co ml; co r; co r]
          | _ => panic
          end
      end
  | 2 => match miller (map (pair_of p) (skipn 6 a)) with
         | None => panic
         | Some ml => ok [co ml]
         end
  | 3 => match fexp (fof F12d (arg 6 a)) with
         | None => panic
         | Some None => ok [[0]]
         | Some (Some r) => ok [[1]; co r]
         end
  | 4 => let '(cs, inf) := prep (g2_of p (arg 6 a)) in
         ok [[bz inf]; [Z.of_nat (length cs)]; flat_map co_coeff cs]
  | _ => unsupported
  end.

Definition run_C06 (op : Z) (a : list (list Z)) : list (list Z) :=
  if op <? 10 then
    (if nth 2 (arg 0 a) 0 <? 2 then run_tower12 op a else unsupported)
  else
    match law_model op with
    | Some r => ok (map (fun b : bool => [bz b]) r)
    | None => unsupported
    end.
