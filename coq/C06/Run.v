(* Uniform case interpreter for the C06 model.
   a0 = [engine; tower_cid; family]  (family 0 = BLS12, 1 = BN, 2 = MNT4, 3 = MNT6, 4 = BW6)
   model ops: a1 = Fp12 tower parameters (layout of C02 kind 12), a2 = family constants
   ([twist D?; X negative?; COEFF_B c0 c1] ++ BN: [TWIST_MUL_BY_Q_X c0 c1; _Y c0 c1]),
   a3 = X limbs, a4 = ATE_LOOP_COUNT digits (BN), a5 = [mode] (input form: ignored, see
   prepared_equals_unprepared), a6.. = operands.
   MNT4 / MNT6: a1 = tower parameters (C02 kind 4 / kind 7 layout), a2 = [ATE_IS_LOOP_COUNT_NEG;
   W0_IS_NEG] ++ TWIST ++ TWIST_COEFF_A, a3 = LAST_CHUNK_1 limbs ++ ABS_OF_W0 limbs (halves),
   a4 = ATE_LOOP_COUNT (as stored), a5 = [mode], a6.. = operands.
   BW6: a1 = tower parameters (C02 kind 7 layout), a2 = [twist D?; X negative?; ATE_LOOP_COUNT_1
   negative?; ATE_LOOP_COUNT_2 negative?; T_MOD_R_IS_ZERO; H_T; H_Y; G2 COEFF_B],
   a3 = [n] ++ X (n limbs) ++ X_MINUS_1_DIV_3 (n limbs) ++ ATE_LOOP_COUNT_1 limbs,
   a4 = ATE_LOOP_COUNT_2, a5 = [mode], a6.. = operands.
   First result list is the status: [0] ok, [2] panic, [9] unsupported. *)
From V Require Import Base.Word Base.Field C15.BigIntModel C02.Quad C02.Cubic C02.Towers C02.Inst.
From V Require Import C06.Miller C06.FinalExp C06.Tower12 C06.Mnt C06.Bw6 C06.Laws.

Definition ok (r : list (list Z)) : list (list Z) := [0] :: r.
Definition panic : list (list Z) := [[2]].
Definition unsupported : list (list Z) := [[9]].
Definition arg (n : nat) (a : list (list Z)) : list Z := nth n a [].
Definition arg0 (n : nat) (a : list (list Z)) : Z := hd 0 (arg n a).
Definition drop (n : nat) (l : list Z) := skipn n l.
Definition take (n : nat) (l : list Z) := firstn n l.
Definition pr (l : list Z) : Z * Z := (nth 0 l 0, nth 1 l 0).
Definition bz (b : bool) : Z := if b then 1 else 0.

Section Decode.
  Variable p : Z.
  Let Fp := ZpOps p.
  Definition fp_of (z : Z) : Z := fof Fp [z].
  Definition fp2_of (l : list Z) : Z * Z := (fp_of (nth 0 l 0), fp_of (nth 1 l 0)).
  (* [inf1; x; y; inf2; x'c0; x'c1; y'c0; y'c1] *)
  Definition pair_of (l : list Z) : option (Z * Z) * option ((Z * Z) * (Z * Z)) :=
    ((if nth 0 l 0 =? 1 then None else Some (fp_of (nth 1 l 0), fp_of (nth 2 l 0))),
     (if nth 3 l 0 =? 1 then None else Some (fp2_of (drop 4 l), fp2_of (drop 6 l)))).
  Definition g2_of (l : list Z) : option ((Z * Z) * (Z * Z)) :=
    if nth 0 l 0 =? 1 then None else Some (fp2_of (drop 1 l), fp2_of (drop 3 l)).
  Definition co2 (x : Z * Z) : list Z := [fst x; snd x].
  Definition co_coeff (c : (Z * Z) * (Z * Z) * (Z * Z)) : list Z :=
    co2 (fst (fst c)) ++ co2 (snd (fst c)) ++ co2 (snd c).
End Decode.

Definition run_tower12 (op : Z) (a : list (list Z)) : list (list Z) :=
  let cid := nth 1 (arg 0 a) 0 in
  let fam := nth 2 (arg 0 a) 0 in
  let P := arg 1 a in
  let p := nth 0 P 0 in
  let Fp := ZpOps p in
  let nr2 := nth 1 P 0 in
  let tab2 := take 2 (drop 2 P) in
  let nr6 := pr (drop 4 P) in
  let t1 := pairs_of (take 12 (drop 6 P)) in
  let t2 := pairs_of (take 12 (drop 18 P)) in
  let nr12 : @E6 Z := (pr (drop 30 P), pr (drop 32 P), pr (drop 34 P)) in
  let tab12 := pairs_of (take 24 (drop 36 P)) in
  let Fc := arg 2 a in
  let twD := nth 0 Fc 0 =? 1 in
  let xneg := nth 1 Fc 0 =? 1 in
  let coeff_b := fp2_of p (drop 2 Fc) in
  let tqx := fp2_of p (drop 4 Fc) in
  let tqy := fp2_of p (drop 6 Fc) in
  let X := arg 3 a in
  let ate := arg 4 a in
  let F12d := F12 cid Fp nr2 tab2 nr6 t1 t2 nr12 tab12 in
  let co := fcoords F12d in
  let miller pairs :=
    if fam =? 0 then bls12_multi_miller cid Fp nr2 tab2 nr6 t1 t2 nr12 tab12 twD coeff_b X xneg pairs
    else bn_multi_miller cid Fp nr2 tab2 nr6 t1 t2 nr12 tab12 twD coeff_b xneg ate tqx tqy pairs in
  let fexp f :=
    if fam =? 0 then bls12_final_exponentiation cid Fp nr2 tab2 nr6 t1 t2 nr12 tab12 X xneg f
    else bn_final_exponentiation cid Fp nr2 tab2 nr6 t1 t2 nr12 tab12 X xneg f in
  let prep q :=
    if fam =? 0 then bls12_prepare cid Fp nr2 twD coeff_b X q
    else bn_prepare cid Fp nr2 tab2 twD coeff_b xneg ate tqx tqy q in
  match op with
  | 1 => (* multi_pairing: Miller loop output, final exponentiation, multi_pairing *)
      match miller (map (pair_of p) (skipn 6 a)) with
      | None => panic
      | Some ml =>
          match fexp ml with
          | Some (Some r) => ok [co ml; co r; co r]
          | _ => panic
          end
      end
  | 2 => match miller (map (pair_of p) (skipn 6 a)) with
         | None => panic
         | Some ml => ok [co ml]
         end
  | 3 => match fexp (fof F12d (arg 6 a)) with
         | None => panic
         | Some None => ok [[0]]
         | Some (Some r) => ok [[1]; co r]
         end
  | 4 => let '(cs, inf) := prep (g2_of p (arg 6 a)) in
         ok [[bz inf]; [Z.of_nat (length cs)]; flat_map co_coeff cs]
  | _ => unsupported
  end.

(* ---------------- MNT4 / MNT6 ---------------- *)
Section RunMnt.
  Context {E : Type}.
  Variable p : Z.
  Variable LE : level Z E.
  Variable LT : level Z (E * E).
  Variable embed : Z -> E.
  Variable mnt6 : bool.
  Variable d : nat.                       (* degree of the twist field *)
  Definition run_mnt (op : Z) (a : list (list Z)) : list (list Z) :=
    let Fp := ZpOps p in
    let Fe := lF LE in
    let Fc := arg 2 a in
    let ate_neg := nth 0 Fc 0 =? 1 in
    let w0_neg := nth 1 Fc 0 =? 1 in
    let twist := fof Fe (drop 2 Fc) in
    let twist_a := fof Fe (drop (2 + d) Fc) in
    let W := arg 3 a in
    let h := Nat.div2 (length W) in
    let w1 := take h W in
    let w0 := drop h W in
    let ate := arg 4 a in
    let coE := fcoords Fe in
    let coT := fcoords (lF LT) in
    let g1_of (l : list Z) : option (Z * Z) :=
      if nth 0 l 0 =? 1 then None else Some (fp_of p (nth 1 l 0), fp_of p (nth 2 l 0)) in
    let g2_of (l : list Z) : option (E * E) :=
      if nth 0 l 0 =? 1 then None else Some (fof Fe (drop 1 l), fof Fe (drop (1 + d) l)) in
    let pair (l : list Z) := (g1_of l, g2_of (drop 3 l)) in
    let miller pairs := mnt_multi_miller Fp LE LT embed mnt6 twist twist_a ate ate_neg pairs in
    let fexp f := mnt_final_exponentiation LE LT mnt6 w1 w0 w0_neg f in
    match op with
    | 1 =>
        match miller (map pair (skipn 6 a)) with
        | None => panic
        | Some ml =>
            match fexp ml with
            | Some (Some r) => ok [coT ml; coT r; coT r]
            | _ => panic
            end
        end
    | 2 => match miller (map pair (skipn 6 a)) with
           | None => panic
           | Some ml => ok [coT ml]
           end
    | 3 => match fexp (fof (lF LT) (arg 6 a)) with
           | None => panic
           | Some None => ok [[0]]
           | Some (Some r) => ok [[1]; coT r]
           end
    | 4 => match mnt_g2_prepare LE mnt6 twist twist_a ate ate_neg (g2_of (arg 6 a)) with
           | None => panic
           | Some (x, y, xot, yot, dcs, acs) =>
               ok [coE x ++ coE y ++ coE xot ++ coE yot;
                   [Z.of_nat (length dcs); Z.of_nat (length acs)];
                   flat_map (fun c : E * E * E * E =>
                               let '(ch, c4c, cj, cl) := c in coE ch ++ coE c4c ++ coE cj ++ coE cl) dcs;
                   flat_map (fun c : E * E => coE (fst c) ++ coE (snd c)) acs]
           end
    | 5 => let '(x, y, xt, yt) := mnt_g1_prepare Fp LE twist (g1_of (arg 6 a)) in
           ok [[x; y] ++ coE xt ++ coE yt]
    | _ => unsupported
    end.
End RunMnt.

Definition tr (l : list Z) : Z * Z * Z := (nth 0 l 0, nth 1 l 0, nth 2 l 0).

Definition run_mnt4 (op : Z) (a : list (list Z)) : list (list Z) :=
  let cid := nth 1 (arg 0 a) 0 in
  let P := arg 1 a in
  let p := nth 0 P 0 in
  let Fp := ZpOps p in
  (* [p; nr2; fp2c1 x2; nr4 x2; c1 x4] *)
  let nr2 := nth 1 P 0 in
  let tab2 := take 2 (drop 2 P) in
  let nr4 := pr (drop 4 P) in
  let tab4 := take 4 (drop 6 P) in
  run_mnt p (L2 cid Fp nr2 tab2) (L4 cid Fp nr2 tab2 nr4 tab4) (fun x => (x, f0 Fp)) false 2 op a.

Definition run_mnt6 (op : Z) (a : list (list Z)) : list (list Z) :=
  let cid := nth 1 (arg 0 a) 0 in
  let P := arg 1 a in
  let p := nth 0 P 0 in
  let Fp := ZpOps p in
  (* [p; nr3; fp3c1 x3; fp3c2 x3; nr6 x3; c1 x6] *)
  let nr3 := nth 1 P 0 in
  let t1 := take 3 (drop 2 P) in
  let t2 := take 3 (drop 5 P) in
  let nr6b := tr (drop 8 P) in
  let tab6b := take 6 (drop 11 P) in
  run_mnt p (L3 cid Fp nr3 t1 t2) (L6b cid Fp nr3 t1 t2 nr6b tab6b) (fun x => (x, f0 Fp, f0 Fp)) true 3 op a.

(* ---------------- BW6 ---------------- *)
Definition run_bw6 (op : Z) (a : list (list Z)) : list (list Z) :=
  let cid := nth 1 (arg 0 a) 0 in
  let P := arg 1 a in
  let p := nth 0 P 0 in
  let Fp := ZpOps p in
  let nr3 := nth 1 P 0 in
  let t1 := take 3 (drop 2 P) in
  let t2 := take 3 (drop 5 P) in
  let nr6b := tr (drop 8 P) in
  let tab6b := take 6 (drop 11 P) in
  let Fc := arg 2 a in
  let twD := nth 0 Fc 0 =? 1 in
  let xneg := nth 1 Fc 0 =? 1 in
  let ate1_neg := nth 2 Fc 0 =? 1 in
  let ate2_neg := nth 3 Fc 0 =? 1 in
  let tmodr := nth 4 Fc 0 =? 1 in
  let h_t := nth 5 Fc 0 in
  let h_y := nth 6 Fc 0 in
  let coeff_b := fp_of p (nth 7 Fc 0) in
  let XS := arg 3 a in
  let n := Z.to_nat (nth 0 XS 0) in
  let X := take n (drop 1 XS) in
  let xm1d3 := take n (drop (1 + n) XS) in
  let ate1 := drop (1 + n + n) XS in
  let ate2 := arg 4 a in
  let F6 := lF (BLT cid Fp nr3 t1 t2 nr6b tab6b) in
  let co := fcoords F6 in
  let pt (inf x y : Z) : option (Z * Z) := if inf =? 1 then None else Some (fp_of p x, fp_of p y) in
  let pair (l : list Z) := (pt (nth 0 l 0) (nth 1 l 0) (nth 2 l 0), pt (nth 3 l 0) (nth 4 l 0) (nth 5 l 0)) in
  let miller pairs :=
    bw6_multi_miller cid Fp nr3 t1 t2 nr6b tab6b twD ate1 ate1_neg ate2 ate2_neg tmodr coeff_b pairs in
  let fexp f := bw6_final_exponentiation cid Fp nr3 t1 t2 nr6b tab6b tmodr X xneg xm1d3 h_t h_y f in
  let co3 (c : Z * Z * Z) : list Z := let '(c0, c1, c2) := c in [c0; c1; c2] in
  match op with
  | 1 =>
      match miller (map pair (skipn 6 a)) with
      | None => panic
      | Some ml =>
          match fexp ml with
          | Some r => ok [co ml; co r; co r]
          | None => panic
          end
      end
  | 2 => match miller (map pair (skipn 6 a)) with
         | None => panic
         | Some ml => ok [co ml]
         end
  | 3 => match fexp (fof F6 (arg 6 a)) with
         | None => panic
         | Some r => ok [[1]; co r]
         end
  | 4 => let l := arg 6 a in
         match bw6_prepare Fp coeff_b twD ate1 ate1_neg ate2 (pt (nth 0 l 0) (nth 1 l 0) (nth 2 l 0)) with
         | None => panic
         | Some (cs1, cs2, inf) =>
             ok [[bz inf]; [Z.of_nat (length cs1); Z.of_nat (length cs2)]; flat_map co3 cs1; flat_map co3 cs2]
         end
  | _ => unsupported
  end.

Definition run_C06 (op : Z) (a : list (list Z)) : list (list Z) :=
  if op <? 10 then
    (let fam := nth 2 (arg 0 a) 0 in
     if fam <? 2 then run_tower12 op a
     else if fam =? 2 then run_mnt4 op a
     else if fam =? 3 then run_mnt6 op a
     else if fam =? 4 then run_bw6 op a
     else unsupported)
  else
    match law_model op with
    | Some r => ok (map (fun b : bool => [bz b]) r)
    | None => unsupported
    end.
