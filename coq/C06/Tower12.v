(* C06 model -- BLS12 and BN over the Fp12 = Fp6[W]/(W^2-V), Fp6 = Fp2[V]/(V^3-xi) tower of
   package C02 (coq/C02/Inst.v): `G2Prepared::from` with the homogeneous-projective line
   functions `double_in_place` / `add_in_place` (ec/src/models/{bls12,bn}/g2.rs), `ell`
   (mul_by_014 / mul_by_034 by twist type), `multi_miller_loop`, `exp_by_x`,
   `final_exponentiation`.  Executable definitions only; generic in the prime-field
   dictionary Fp (Run.v passes ZpOps p); all constants are arguments. *)
From V Require Import Base.Word Base.Field C15.BigIntModel C02.Quad C02.Cubic C02.Towers C02.Inst.
From V Require Import C06.Miller C06.FinalExp.

(* ---------- bit iterators of ff/src/bits.rs on a limb slice ---------- *)
(* BitIteratorBE::new: all 64*len bits, most significant first *)
Definition bits_be_full (limbs : list Z) : list bool :=
  map (fun i => Z.testbit (val limbs) (Z.of_nat i)) (rev (seq 0 (64 * length limbs))).
Fixpoint drop_false (l : list bool) : list bool :=
  match l with false :: l' => drop_false l' | _ => l end.
(* BitIteratorBE::without_leading_zeros *)
Definition bits_be_nlz (limbs : list Z) : list bool := drop_false (bits_be_full limbs).
Definition digit_of_bit (b : bool) : Z := if b then 1 else 0.

(* ---------- G2HomProjective (shared verbatim by bls12/g2.rs and bn/g2.rs) ---------- *)
Section G2Hom.
  Context {T0 E2 : Type} (F2 : Fops E2).
  Variable sq2 : E2 -> E2.                  (* Fp2::square *)
  Variable mulfp : E2 -> T0 -> E2.          (* Fp2::mul_assign_by_fp *)
  Variable coeff_b : E2.                    (* G2Config::COEFF_B *)
  Variable two_inv : T0.
  Variable twD : bool.                      (* TWIST_TYPE == D *)
  Local Notation "a + b" := (fadd F2 a b). Local Notation "a - b" := (fsub F2 a b).
  Local Notation "a * b" := (fmul F2 a b). Local Notation "- a" := (fneg F2 a).
  Definition dbl2 (a : E2) : E2 := a + a.
  Definition hom : Type := (E2 * E2 * E2)%type.
  Definition coeff : Type := (E2 * E2 * E2)%type.

  Definition hom_double (r : hom) : hom * coeff :=
    let '(x, y, z) := r in
    let a := mulfp (x * y) two_inv in
    let b := sq2 y in
    let c := sq2 z in
    let e := coeff_b * (dbl2 c + c) in
    let f := dbl2 e + e in
    let g := mulfp (b + f) two_inv in
    let h := sq2 (y + z) - (b + c) in
    let i := e - b in
    let j := sq2 x in
    let e_square := sq2 e in
    let x' := a * (b - f) in
    let y' := sq2 g - (dbl2 e_square + e_square) in
    let z' := b * h in
    ((x', y', z'), if twD then (- h, dbl2 j + j, i) else (i, dbl2 j + j, - h)).

  Definition hom_add (r : hom) (q : E2 * E2) : hom * coeff :=
    let '(x, y, z) := r in
    let '(qx, qy) := q in
    let theta := y - (qy * z) in
    let lambda := x - (qx * z) in
    let c := sq2 theta in
    let d := sq2 lambda in
    let e := lambda * d in
    let f := z * c in
    let g := x * d in
    let h := (e + f) - dbl2 g in
    let x' := lambda * h in
    let y' := theta * (g - h) - (e * y) in
    let z' := z * e in
    let j := theta * qx - (lambda * qy) in
    ((x', y', z'), if twD then (lambda, - theta, j) else (j, - theta, lambda)).

  (* `for digit { push(double); match digit { 1 => push(add q), -1 => push(add neg_q), _ => {} } }` *)
  Fixpoint prep_loop (ds : list Z) (q nq : E2 * E2) (r : hom) : hom * list coeff :=
    match ds with
    | [] => (r, [])
    | d :: ds' =>
        let '(r1, c1) := hom_double r in
        if d =? 1 then
          let '(r2, c2) := hom_add r1 q in
          let '(r3, cs) := prep_loop ds' q nq r2 in (r3, c1 :: c2 :: cs)
        else if d =? -1 then
          let '(r2, c2) := hom_add r1 nq in
          let '(r3, cs) := prep_loop ds' q nq r2 in (r3, c1 :: c2 :: cs)
        else
          let '(r3, cs) := prep_loop ds' q nq r1 in (r3, c1 :: cs)
    end.
End G2Hom.

Section Tower12.
  Variable cid : Z.
  Context {T0 : Type} (Fp : Fops T0).
  Variables (nr2 : T0) (tab2 : list T0) (nr6 : T0 * T0) (tab6_1 tab6_2 : list (T0 * T0)).
  Variables (nr12 : @E6 T0) (tab12 : list (T0 * T0)).

  Definition E2 : Type := (T0 * T0)%type.
  Definition E12 : Type := (@E6 T0 * @E6 T0)%type.
  Definition F2 : Fops E2 := Fp2 cid Fp nr2.
  Definition F6 : Fops (@E6 T0) := Fp6a cid Fp nr2 nr6.
  Definition LT : level T0 E12 := L12 cid Fp nr2 tab2 nr6 tab6_1 tab6_2 nr12 tab12.
  Definition F12 : Fops E12 := lF LT.
  Definition sq2 (a : E2) : E2 := quad_square Fp (fp2_nrops cid Fp nr2) a.
  Definition mulfp2 (a : E2) (e : T0) : E2 := quad_mul_by_basefield Fp a e.
  Definition frob2 (k : Z) (a : E2) : E2 := fp2_frob Fp tab2 k a.
  Definition two_inv : T0 := finv Fp (fadd Fp (f1 Fp) (f1 Fp)).

  Definition mul_by_014 (f : E12) (c0 c1 c4 : E2) : E12 :=
    fp12_mul_by_014 F2 (fp6a_mul_nr cid Fp nr2 nr6) F6 (fp12_mul_nr cid Fp nr2 nr6) f c0 c1 c4.
  Definition mul_by_034 (f : E12) (c0 c3 c4 : E2) : E12 :=
    fp12_mul_by_034 F2 (fp6a_mul_nr cid Fp nr2 nr6) F6 (fp12_mul_nr cid Fp nr2 nr6) f c0 c3 c4.

  Definition tone : E12 := f1 F12.
  Definition tmul : E12 -> E12 -> E12 := fmul F12.
  Definition tsq : E12 -> E12 := lsquare LT.
  Definition conj12 (f : E12) : E12 := quad_conjugate F6 f.     (* cyclotomic_inverse_in_place *)
  Definition tinv (f : E12) : option E12 :=
    match linverse LT f with Some (Some g) => Some g | _ => None end.
  Definition frob12 : Z -> E12 -> E12 := lfrob LT.
  Definition cyc_sq12 : E12 -> E12 := lcyc_square LT.

  Variable twD : bool.
  Variable coeff_b : E2.

  (* Bls12::ell / Bn::ell *)
  Definition ell12 (f : E12) (c : E2 * E2 * E2) (p : T0 * T0) : E12 :=
    let '(c0, c1, c2) := c in
    let '(px, py) := p in
    if twD then mul_by_034 f (mulfp2 c0 py) (mulfp2 c1 px) c2
    else mul_by_014 f c0 (mulfp2 c1 px) (mulfp2 c2 py).

  Definition g2aff : Type := option (E2 * E2).
  Definition g2prep : Type := (list (E2 * E2 * E2) * bool)%type.   (* ell_coeffs, infinity *)
  Definition neg_pt (q : E2 * E2) : E2 * E2 := (fst q, fneg F2 (snd q)).
  Definition hom_of (q : E2 * E2) : E2 * E2 * E2 := (fst q, snd q, f1 F2).

  (* ---------------- BLS12 ---------------- *)
  Section BLS12.
    Variable X : list Z.                   (* Bls12Config::X, limbs *)
    Variable xneg : bool.
    (* G2Prepared::from: `for i in BitIteratorBE::new(P::X).skip(1)` *)
    Definition bls12_prepare (q : g2aff) : g2prep :=
      match q with
      | None => ([], true)
      | Some xy =>
          let ds := map digit_of_bit (tl (bits_be_full X)) in
          (snd (prep_loop F2 sq2 mulfp2 coeff_b two_inv twD ds xy xy (hom_of xy)), false)
      end.
    (* multi_miller_loop: `for i in BitIteratorBE::without_leading_zeros(X).skip(1)` *)
    Definition bls12_tail (f : E12) (st : list (pstate (C := E2 * E2 * E2) (P := T0 * T0))) :=
      Some (if xneg then conj12 f else f, st).
    Definition bls12_multi_miller_prepared (pairs : list (option (T0 * T0) * g2prep)) : option E12 :=
      opt_fst (multi_loop tone tmul (bits_loop tsq ell12 (tl (bits_be_nlz X))) bls12_tail
                          (filter_pairs pairs)).
    Definition bls12_multi_miller (pairs : list (option (T0 * T0) * g2aff)) : option E12 :=
      bls12_multi_miller_prepared (map (fun pq => (fst pq, bls12_prepare (snd pq))) pairs).
    (* exp_by_x: cyclotomic_exp(X), conjugated when X is negative.  `None` of the C02
       model (find_naf out of fuel) is excluded by the guard in bls12_final_exp. *)
    Definition cyc_exp (f : E12) (e : list Z) : E12 :=
      match cyclotomic_exp LT f e with Some r => r | None => f end.
    Definition bls12_exp_by_x (f : E12) : E12 :=
      let r := cyc_exp f X in if xneg then conj12 r else r.
    Definition bls12_final_exponentiation (f : E12) : option (option E12) :=
      match find_naf X with
      | None => None                                           (* model fuel: never *)
      | Some _ => Some (bls12_final_exp tmul tinv conj12 frob12 cyc_sq12 bls12_exp_by_x f)
      end.
  End BLS12.

  (* ---------------- BN ---------------- *)
  Section BN.
    Variable X : list Z.
    Variable xneg : bool.
    Variable ate : list Z.                  (* ATE_LOOP_COUNT, least significant digit first *)
    Variables (twist_q_x twist_q_y : E2).   (* TWIST_MUL_BY_Q_X / _Y *)
    Definition bn_digits : list Z := tl (rev ate).
    Definition mul_by_char (q : E2 * E2) : E2 * E2 :=
      (fmul F2 (frob2 1 (fst q)) twist_q_x, fmul F2 (frob2 1 (snd q)) twist_q_y).
    Definition bn_prepare (q : g2aff) : g2prep :=
      match q with
      | None => ([], true)
      | Some xy =>
          let '(r, cs) := prep_loop F2 sq2 mulfp2 coeff_b two_inv twD bn_digits xy (neg_pt xy) (hom_of xy) in
          let q1 := mul_by_char xy in
          let q2 := mul_by_char q1 in
          let r := if xneg then let '(x, y, z) := r in (x, fneg F2 y, z) else r in
          let q2 := neg_pt q2 in
          let '(r1, c1) := hom_add F2 sq2 twD r q1 in
          let '(r2, c2) := hom_add F2 sq2 twD r1 q2 in
          (cs ++ [c1; c2], false)
      end.
    Definition bn_tail (f : E12) (st : list (pstate (C := E2 * E2 * E2) (P := T0 * T0))) :=
      let f := if xneg then conj12 f else f in
      match ell_all ell12 f st with
      | None => None
      | Some (f1, st1) => ell_all ell12 f1 st1
      end.
    Definition bn_multi_miller_prepared (pairs : list (option (T0 * T0) * g2prep)) : option E12 :=
      opt_fst (multi_loop tone tmul (digits_loop tsq ell12 bn_digits true) bn_tail (filter_pairs pairs)).
    Definition bn_multi_miller (pairs : list (option (T0 * T0) * g2aff)) : option E12 :=
      bn_multi_miller_prepared (map (fun pq => (fst pq, bn_prepare (snd pq))) pairs).
    Definition bn_exp_by_neg_x (f : E12) : E12 :=
      let r := cyc_exp f X in if xneg then r else conj12 r.
    Definition bn_final_exponentiation (f : E12) : option (option E12) :=
      match find_naf X with
      | None => None
      | Some _ => Some (bn_final_exp tmul tinv conj12 frob12 cyc_sq12 bn_exp_by_neg_x f)
      end.
  End BN.
End Tower12.
