(* C06 proofs -- the BLS12 / BN multi_miller_loop of Tower12.v (the functions Run.v
   executes) equal the product of the single-pair Miller loops; identity pairs are dropped;
   prepared = unprepared.  Instance of MillerProofs.v.  The facts about the Fp12 tower
   operations that are used are premises named after the C02 theorems that establish them
   for the tower over Z_p (C02_zp_fp12_mul, C02_zp_fp12_square, C02_zp_fp12_mul_by_014/034,
   C02_quadops_ring): they are statements about field arithmetic, not about the pairing
   code. *)
From V Require Import Base.Word Base.Field C15.BigIntModel C02.Quad C02.Cubic C02.Towers C02.Inst.
From V Require Import C06.Miller C06.FinalExp C06.Tower12 C06.MillerProofs.

Section Tower12Proofs.
  Variable cid : Z.
  Context {T0 : Type} (Fp : Fops T0).
  Variables (nr2 : T0) (tab2 : list T0) (nr6 : T0 * T0) (tab6_1 tab6_2 : list (T0 * T0)).
  Variables (nr12 : @E6 T0) (tab12 : list (T0 * T0)).
  Variable twD : bool.
  Variable coeff_b : T0 * T0.

  Local Notation tone := (tone cid Fp nr2 tab2 nr6 tab6_1 tab6_2 nr12 tab12).
  Local Notation tmul := (tmul cid Fp nr2 tab2 nr6 tab6_1 tab6_2 nr12 tab12).
  Local Notation tsq := (tsq cid Fp nr2 tab2 nr6 tab6_1 tab6_2 nr12 tab12).
  Local Notation conj12 := (conj12 cid Fp nr2 nr6).
  Local Notation ell12 := (ell12 cid Fp nr2 nr6 twD).
  Local Notation mul_by_014 := (mul_by_014 cid Fp nr2 nr6).
  Local Notation mul_by_034 := (mul_by_034 cid Fp nr2 nr6).
  Local Notation mulfp2 := (mulfp2 Fp).
  Local Notation z2 := (f0 Fp, f0 Fp).

  (* field-arithmetic premises (C02) *)
  Hypothesis tmul_assoc : forall a b c, tmul a (tmul b c) = tmul (tmul a b) c.
  Hypothesis tmul_comm : forall a b, tmul a b = tmul b a.
  Hypothesis tmul_1_l : forall a, tmul tone a = a.
  Hypothesis tsq_is_mul : forall f, tsq f = tmul f f.
  Hypothesis mul_by_014_is_mul : forall f c0 c1 c4,
    mul_by_014 f c0 c1 c4 = tmul f ((c0, c1, z2), (z2, c4, z2)).
  Hypothesis mul_by_034_is_mul : forall f c0 c3 c4,
    mul_by_034 f c0 c3 c4 = tmul f ((c0, z2, z2), (c3, c4, z2)).
  Hypothesis conj_mul : forall a b, conj12 (tmul a b) = tmul (conj12 a) (conj12 b).
  Hypothesis conj_one : conj12 tone = tone.

  (* the line function value that `ell` multiplies into f *)
  Definition line12 (c : (T0 * T0) * (T0 * T0) * (T0 * T0)) (p : T0 * T0) : E12 (T0 := T0) :=
    let '(c0, c1, c2) := c in
    let '(px, py) := p in
    if twD then ((mulfp2 c0 py, z2, z2), (mulfp2 c1 px, c2, z2))
    else ((c0, mulfp2 c1 px, z2), (z2, mulfp2 c2 py, z2)).

  Lemma ell12_is_mul f c p : ell12 f c p = tmul f (line12 c p).
  Proof.
    destruct c as [[c0 c1] c2]. destruct p as [px py]. unfold Tower12.ell12, line12.
    destruct twD; [apply mul_by_034_is_mul | apply mul_by_014_is_mul].
  Qed.

  Local Notation pst := (pstate (C := (T0 * T0) * (T0 * T0) * (T0 * T0)) (P := T0 * T0)).

  (* ---------------- BLS12 ---------------- *)
  Section BLS12.
    Variable X : list Z.
    Variable xneg : bool.
    Local Notation loop := (bits_loop tsq ell12 (tl (bits_be_nlz X))).
    Local Notation tail := (bls12_tail cid Fp nr2 nr6 xneg).

    Lemma bls12_tail_splits : splits tmul tail.
    Proof.
      unfold bls12_tail. apply splits_map. intros a b. destruct xneg; [apply conj_mul | reflexivity].
    Qed.
    Lemma bls12_tail_nil : tail tone [] = Some (tone, []).
    Proof. unfold bls12_tail. destruct xneg; [rewrite conj_one|]; reflexivity. Qed.

    (* (b) for every list of (G1 point, prepared G2 point): if the single-pair Miller loops
       succeed (no coefficient-iterator exhaustion), the multi Miller loop returns their
       product *)
    Theorem bls12_multi_equals_product pairs G R :
      product_of_pairs tone tmul loop tail pairs = Some (G, R) ->
      bls12_multi_miller_prepared cid Fp nr2 tab2 nr6 tab6_1 tab6_2 nr12 tab12 twD X xneg pairs = Some G.
    Proof.
      intros H. unfold bls12_multi_miller_prepared.
      pose proof (multi_equals_product tone tmul tmul_assoc tmul_comm tmul_1_l loop tail
                    (bits_loop_splits tmul tsq ell12 line12 tmul_assoc tmul_comm tsq_is_mul ell12_is_mul _)
                    (bits_loop_nil tone tmul tsq ell12 tmul_1_l tsq_is_mul _)
                    bls12_tail_splits bls12_tail_nil pairs G R H) as Hm.
      exact (f_equal opt_fst Hm).
    Qed.
    (* (c) a pair with an identity in either slot contributes 1; the empty list gives 1 *)
    Theorem bls12_identity_pair_dropped pr : keep_pair pr = [] ->
      bls12_multi_miller_prepared cid Fp nr2 tab2 nr6 tab6_1 tab6_2 nr12 tab12 twD X xneg [pr] = Some tone.
    Proof.
      intros H. unfold bls12_multi_miller_prepared.
      pose proof (identity_pair_dropped tone tmul loop tail bls12_tail_nil pr H) as Hm.
      exact (f_equal opt_fst Hm).
    Qed.
    Theorem bls12_empty_is_one :
      bls12_multi_miller_prepared cid Fp nr2 tab2 nr6 tab6_1 tab6_2 nr12 tab12 twD X xneg [] = Some tone.
    Proof.
      unfold bls12_multi_miller_prepared.
      pose proof (empty_list_is_one tone tmul loop tail bls12_tail_nil) as Hm.
      exact (f_equal opt_fst Hm).
    Qed.
    (* prepared = unprepared: `Into<G2Prepared>` is G2Prepared::from *)
    Theorem bls12_prepared_equals_unprepared pairs :
      bls12_multi_miller cid Fp nr2 tab2 nr6 tab6_1 tab6_2 nr12 tab12 twD coeff_b X xneg pairs =
      bls12_multi_miller_prepared cid Fp nr2 tab2 nr6 tab6_1 tab6_2 nr12 tab12 twD X xneg
        (map (fun pq => (fst pq, bls12_prepare cid Fp nr2 twD coeff_b X (snd pq))) pairs).
    Proof. reflexivity. Qed.
    (* G2 identity is prepared to "infinity", hence dropped *)
    Theorem bls12_prepare_identity : bls12_prepare cid Fp nr2 twD coeff_b X None = ([], true).
    Proof. reflexivity. Qed.
  End BLS12.

  (* ---------------- BN ---------------- *)
  Section BN.
    Variable xneg : bool.
    Variable ate : list Z.
    Variables (tqx tqy : T0 * T0).
    Local Notation loop := (digits_loop tsq ell12 (bn_digits ate) true).
    Local Notation tail := (bn_tail cid Fp nr2 nr6 twD xneg).

    Lemma bn_tail_splits : splits tmul tail.
    Proof.
      unfold bn_tail.
      pose proof (ell_all_splits tmul ell12 line12 tmul_assoc tmul_comm ell12_is_mul) as He.
      pose proof (splits_comp tmul _ _ He He) as H2.
      pose proof (splits_comp tmul (fun f ps => Some (if xneg then conj12 f else f, ps)) _
                    (splits_map tmul (fun f => if xneg then conj12 f else f)
                       (fun a b => match xneg as x return ((if x then conj12 (tmul a b) else tmul a b) = tmul (if x then conj12 a else a) (if x then conj12 b else b)) with true => conj_mul a b | false => eq_refl end))
                    H2) as H3.
      exact H3.
    Qed.
    Lemma bn_tail_nil : tail tone [] = Some (tone, []).
    Proof. unfold bn_tail. cbn [ell_all]. destruct xneg; [rewrite conj_one|]; reflexivity. Qed.

    Theorem bn_multi_equals_product pairs G R :
      product_of_pairs tone tmul loop tail pairs = Some (G, R) ->
      bn_multi_miller_prepared cid Fp nr2 tab2 nr6 tab6_1 tab6_2 nr12 tab12 twD xneg ate pairs = Some G.
    Proof.
      intros H. unfold bn_multi_miller_prepared.
      pose proof (multi_equals_product tone tmul tmul_assoc tmul_comm tmul_1_l loop tail
                    (digits_loop_splits tmul tsq ell12 line12 tmul_assoc tmul_comm tsq_is_mul ell12_is_mul _ true)
                    (digits_loop_nil tone tmul tsq ell12 tmul_1_l tsq_is_mul _ true)
                    bn_tail_splits bn_tail_nil pairs G R H) as Hm.
      exact (f_equal opt_fst Hm).
    Qed.
    Theorem bn_identity_pair_dropped pr : keep_pair pr = [] ->
      bn_multi_miller_prepared cid Fp nr2 tab2 nr6 tab6_1 tab6_2 nr12 tab12 twD xneg ate [pr] = Some tone.
    Proof.
      intros H. unfold bn_multi_miller_prepared.
      pose proof (identity_pair_dropped tone tmul loop tail bn_tail_nil pr H) as Hm.
      exact (f_equal opt_fst Hm).
    Qed.
    Theorem bn_empty_is_one :
      bn_multi_miller_prepared cid Fp nr2 tab2 nr6 tab6_1 tab6_2 nr12 tab12 twD xneg ate [] = Some tone.
    Proof.
      unfold bn_multi_miller_prepared.
      pose proof (empty_list_is_one tone tmul loop tail bn_tail_nil) as Hm.
      exact (f_equal opt_fst Hm).
    Qed.
    Theorem bn_prepared_equals_unprepared pairs :
      bn_multi_miller cid Fp nr2 tab2 nr6 tab6_1 tab6_2 nr12 tab12 twD coeff_b xneg ate tqx tqy pairs =
      bn_multi_miller_prepared cid Fp nr2 tab2 nr6 tab6_1 tab6_2 nr12 tab12 twD xneg ate
        (map (fun pq => (fst pq, bn_prepare cid Fp nr2 tab2 twD coeff_b xneg ate tqx tqy (snd pq))) pairs).
    Proof. reflexivity. Qed.
  End BN.
End Tower12Proofs.
