(* C06 proofs -- the field-arithmetic premises of Tower12Proofs.v discharged for the tower
   over the integers modulo p (C02.ZpInst.ZpS p: canonical residues with the operations of
   the executed dictionary ZpOps p on the underlying integers, lemmas zp_*_val), from the
   C02 theorems zp_fp12_mul, zp_fp12_square, zp_fp12_mul_by_014 / _034, fp6a_ring,
   quadM_ring.  Result: BLS12 / BN multi_miller_loop = product of the single-pair loops with
   no premise left except the ones on the *constants* that the per-curve override bodies
   hard-wire (fp2_consts_ok / fp6a_consts_ok, e.g. bls12_381: Fq2 non-residue -1, Fq6
   non-residue 1 + u) and Fp12 non-residue = V. *)
From V Require Import Base.Word Base.Field C15.BigIntModel C02.Quad C02.Cubic C02.Towers C02.Inst.
From V Require Import C02.QuadProofs C02.InstProofs C02.ZpInst.
From V Require Import C06.Miller C06.FinalExp C06.Tower12 C06.MillerProofs C06.Tower12Proofs.
Require Import Ring.

(* conjugation of a quadratic extension is multiplicative (any commutative base ring) *)
Section QuadConj.
  Context {T : Type} (B : Fops T).
  Hypothesis Rth : ring_theory (f0 B) (f1 B) (fadd B) (fmul B) (fsub B) (fneg B) eq.
  Add Ring BRingConj : Rth.
  Lemma quad_conj_qmul nr a b :
    quad_conjugate B (qmul B nr a b) = qmul B nr (quad_conjugate B a) (quad_conjugate B b).
  Proof.
    destruct a as [a0 a1], b as [b0 b1]. unfold quad_conjugate, qmul; cbn [fst snd]. f_equal; ring.
  Qed.
  Lemma quad_conj_one : quad_conjugate B (f1 B, f0 B) = (f1 B, f0 B).
  Proof. unfold quad_conjugate; cbn [fst snd]. f_equal. ring. Qed.
End QuadConj.

Section Tower12Zp.
  Variables (p cid : Z).
  Local Notation K := (ZpS p).
  Variables (nr2 : Zp p) (tab2 : list (Zp p)) (nr6 : Zp p * Zp p) (tab6_1 tab6_2 : list (Zp p * Zp p)).
  Variable tab12 : list (Zp p * Zp p).
  Hypothesis C2 : fp2_consts_ok cid K nr2.
  Hypothesis C6 : fp6a_consts_ok cid K nr6.
  Local Notation z2 := ((f0 K, f0 K) : Zp p * Zp p).
  Local Notation V6 := ((z2, (f1 K, f0 K), z2) : @E6 (Zp p)).

  Local Notation tone := (tone cid K nr2 tab2 nr6 tab6_1 tab6_2 V6 tab12).
  Local Notation tmul := (tmul cid K nr2 tab2 nr6 tab6_1 tab6_2 V6 tab12).
  Local Notation tsq := (tsq cid K nr2 tab2 nr6 tab6_1 tab6_2 V6 tab12).
  Local Notation conj12 := (conj12 cid K nr2 nr6).

  Let R6 := fp6a_ring cid K (ZpS_ring p) nr2 C2 nr6 C6.
  Let N12 := fp12_nrops_ok cid K (ZpS_ring p) nr2 C2 nr6 C6.
  Let R12 := quadM_ring (Fp6a cid K nr2 nr6) R6 (fp12_nrops cid K nr2 nr6 V6) N12.

  Lemma zp_tmul_assoc a b c : tmul a (tmul b c) = tmul (tmul a b) c.
  Proof. exact (Rmul_assoc R12 a b c). Qed.
  Lemma zp_tmul_comm a b : tmul a b = tmul b a.
  Proof. exact (Rmul_comm R12 a b). Qed.
  Lemma zp_tmul_1_l a : tmul tone a = a.
  Proof. exact (Rmul_1_l R12 a). Qed.
  Lemma zp_tsq_is_mul f : tsq f = tmul f f.
  Proof.
    unfold Tower12.tsq, Tower12.tmul, F12, LT. cbn [lsquare lF L12].
    rewrite (zp_fp12_square p cid nr2 nr6 C2 C6), (zp_fp12_mul p cid nr2 nr6 C2 C6). reflexivity.
  Qed.
  Lemma zp_mul_by_014_is_mul f c0 c1 c4 :
    mul_by_014 cid K nr2 nr6 f c0 c1 c4 = tmul f ((c0, c1, z2), (z2, c4, z2)).
  Proof.
    unfold Tower12.mul_by_014, Tower12.tmul, F12, LT, F2, F6. cbn [lF L12].
    rewrite (zp_fp12_mul_by_014 p cid nr2 nr6 C2 C6), (zp_fp12_mul p cid nr2 nr6 C2 C6). reflexivity.
  Qed.
  Lemma zp_mul_by_034_is_mul f c0 c3 c4 :
    mul_by_034 cid K nr2 nr6 f c0 c3 c4 = tmul f ((c0, z2, z2), (c3, c4, z2)).
  Proof.
    unfold Tower12.mul_by_034, Tower12.tmul, F12, LT, F2, F6. cbn [lF L12].
    rewrite (zp_fp12_mul_by_034 p cid nr2 nr6 C2 C6), (zp_fp12_mul p cid nr2 nr6 C2 C6). reflexivity.
  Qed.
  Lemma zp_conj_mul a b : conj12 (tmul a b) = tmul (conj12 a) (conj12 b).
  Proof.
    unfold Tower12.conj12, Tower12.tmul, F12, LT, F6. cbn [lF L12 fmul Fp12 QuadM].
    rewrite !(quad_mul_spec (Fp6a cid K nr2 nr6) R6 _ N12).
    apply (quad_conj_qmul (Fp6a cid K nr2 nr6) R6).
  Qed.
  Lemma zp_conj_one : conj12 tone = tone.
  Proof.
    unfold Tower12.conj12, Tower12.tone, F12, LT, F6. cbn [lF L12 f1 Fp12 QuadM].
    apply (quad_conj_one (Fp6a cid K nr2 nr6) R6).
  Qed.

  Variable twD : bool.
  (* BLS12 over Z_p: no field-arithmetic premise left *)
  Theorem bls12_multi_equals_product_zp X xneg pairs G R :
    product_of_pairs tone tmul (bits_loop tsq (ell12 cid K nr2 nr6 twD) (tl (bits_be_nlz X)))
                     (bls12_tail cid K nr2 nr6 xneg) pairs = Some (G, R) ->
    bls12_multi_miller_prepared cid K nr2 tab2 nr6 tab6_1 tab6_2 V6 tab12 twD X xneg pairs = Some G.
  Proof.
    exact (bls12_multi_equals_product cid K nr2 tab2 nr6 tab6_1 tab6_2 V6 tab12 twD
             zp_tmul_assoc zp_tmul_comm zp_tmul_1_l zp_tsq_is_mul zp_mul_by_014_is_mul zp_mul_by_034_is_mul
             zp_conj_mul zp_conj_one X xneg pairs G R).
  Qed.
  Theorem bn_multi_equals_product_zp xneg ate pairs G R :
    product_of_pairs tone tmul (digits_loop tsq (ell12 cid K nr2 nr6 twD) (bn_digits ate) true)
                     (bn_tail cid K nr2 nr6 twD xneg) pairs = Some (G, R) ->
    bn_multi_miller_prepared cid K nr2 tab2 nr6 tab6_1 tab6_2 V6 tab12 twD xneg ate pairs = Some G.
  Proof.
    exact (bn_multi_equals_product cid K nr2 tab2 nr6 tab6_1 tab6_2 V6 tab12 twD
             zp_tmul_assoc zp_tmul_comm zp_tmul_1_l zp_tsq_is_mul zp_mul_by_014_is_mul zp_mul_by_034_is_mul
             zp_conj_mul zp_conj_one xneg ate pairs G R).
  Qed.
  Theorem bls12_identity_pair_dropped_zp X xneg pr : keep_pair pr = [] ->
    bls12_multi_miller_prepared cid K nr2 tab2 nr6 tab6_1 tab6_2 V6 tab12 twD X xneg [pr] = Some tone.
  Proof. exact (bls12_identity_pair_dropped cid K nr2 tab2 nr6 tab6_1 tab6_2 V6 tab12 twD zp_conj_one X xneg pr). Qed.
  Theorem bn_identity_pair_dropped_zp xneg ate pr : keep_pair pr = [] ->
    bn_multi_miller_prepared cid K nr2 tab2 nr6 tab6_1 tab6_2 V6 tab12 twD xneg ate [pr] = Some tone.
  Proof. exact (bn_identity_pair_dropped cid K nr2 tab2 nr6 tab6_1 tab6_2 V6 tab12 twD zp_conj_one xneg ate pr). Qed.
End Tower12Zp.
