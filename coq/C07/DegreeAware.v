(* C07 proofs, part 4: skipping the lowest levels of the decimation-in-time network
   (degree_aware_fft_in_place) is sound. *)
From V Require Import Base.Field C07.Dft C07.Radix2 C07.DftProofs C07.Radix2Proofs.
Require Import Lia Field Ring.
Local Open Scope nat_scope.

Lemma nth_evens {A} (d : A) : forall (c : list A) i, nth i (evens c) d = nth (2 * i) c d.
Proof.
  intros c. remember (length c) as n eqn:Hn. revert c Hn.
  induction n as [n IH] using lt_wf_ind. intros c Hn i.
  destruct c as [|a [|b t]].
  - destruct i; reflexivity.
  - destruct i as [|[|i]]; reflexivity.
  - destruct i as [|i]; [reflexivity|].
    replace (2 * S i) with (S (S (2 * i))) by lia. cbn [evens nth].
    apply (IH (length t)); [cbn [length] in Hn; lia | reflexivity].
Qed.
Lemma nth_odds {A} (d : A) : forall (c : list A) i, nth i (odds c) d = nth (2 * i + 1) c d.
Proof.
  intros c i. unfold odds. rewrite nth_evens. destruct c as [|a t].
  - destruct i; reflexivity.
  - cbn [tl]. replace (2 * i + 1) with (S (2 * i)) by lia. reflexivity.
Qed.

Lemma map_const_seq {A} (v : A) : forall n s, map (fun _ => v) (seq s n) = repeat v n.
Proof. induction n; intros; cbn [seq map repeat]; [reflexivity | now rewrite IHn]. Qed.

Section DA.
  Context {T : Type} (F : Fops T).
  Hypothesis Fth : field_theory (f0 F) (f1 F) (fadd F) (fmul F) (fsub F) (fneg F) (fdiv F) (finv F) eq.
  Add Field Ff5 : Fth.
  Local Notation zero := (f0 F).
  Local Notation one := (f1 F).
  Local Notation add := (fadd F).
  Local Notation sub := (fsub F).
  Local Notation mul := (fmul F).
  Local Notation neg := (fneg F).
  Local Notation pw := (pown F).
  Local Notation ev := (eval F).

  (* the array degree_aware_fft hands to oi_helper(start_gap = 2^s): the bit-reversed input in
     which every aligned block of 2^s positions holds copies of its first element *)
  Fixpoint dupA (k s : nat) (c : list T) : list T :=
    match k with
    | O => c
    | S k' => if Nat.leb k s then repeat (hd zero c) (2 ^ k)
              else dupA k' s (evens c) ++ dupA k' s (odds c)
    end.

  Lemma dupA_length : forall k s c, length c = 2 ^ k -> length (dupA k s c) = 2 ^ k.
  Proof.
    induction k as [|k IH]; intros s c H; [exact H|]. cbn [dupA].
    destruct (Nat.leb (S k) s); [apply repeat_length|].
    rewrite pow2_S in H. destruct (evens_odds_length _ _ H) as [H1 H2].
    rewrite app_length, !IH by assumption. rewrite pow2_S. lia.
  Qed.

  Lemma eval_all_zero : forall t x, (forall i, nth i t zero = zero) -> ev t x = zero.
  Proof.
    induction t as [|a t IH]; intros x H; [reflexivity|].
    rewrite (eval_cons F). rewrite IH by (intros i; apply (H (S i))).
    specialize (H 0). cbn in H. rewrite H. ring.
  Qed.
  Lemma eval_head_only : forall c x, (forall i, 1 <= i -> nth i c zero = zero) -> ev c x = hd zero c.
  Proof.
    intros [|a t] x H; [reflexivity|]. rewrite (eval_cons F).
    rewrite eval_all_zero by (intros i; apply (H (S i)); lia). cbn [hd]. ring.
  Qed.

  (* one decimation-in-time level *)
  Lemma oi_step : forall g w c, length c = 2 * g -> pw w g = neg one ->
    let E := dft F g (mul w w) (evens c) in
    let O := dft F g (mul w w) (odds c) in
    let t := zipw mul O (powers F g w one) in
    zipw add E t ++ zipw sub E t = dft F (2 * g) w c.
  Proof.
    intros g w c H Hw E O t. unfold t, E, O, dft. rewrite (powers_spec F Fth).
    replace (2 * g) with (g + g) by lia. rewrite seq_app, map_app. cbn [Nat.add].
    rewrite !zipw_map_map. f_equal.
    - apply map_ext. intros i.
      rewrite (eval_evens_odds F Fth c (pw w i)), <- (pown_mulbase F Fth). ring.
    - rewrite <- (seq_shift_add g). rewrite map_map. apply map_ext. intros i.
      rewrite (eval_evens_odds F Fth c (pw w (g + i))).
      rewrite <- (pown_mulbase F Fth w w (g + i)), !(pown_add F Fth), (pown_mulbase F Fth w w g), Hw.
      replace (mul (mul (neg one) (neg one)) (pw (mul w w) i)) with (pw (mul w w) i) by ring.
      ring.
  Qed.

  (* oi_helper started at gap 2^s on the duplicated array = DFT of an input whose
     coefficients beyond 2^(k-s) vanish *)
  Theorem oi_skip_spec : forall k s w c, length c = 2 ^ k -> prim_root F k w ->
    (forall i, 2 ^ (k - s) <= i -> nth i c zero = zero) ->
    oi_aux F k s w (dupA k s c) = dft F (2 ^ k) w c.
  Proof.
    induction k as [|k IH]; intros s w c H Hw Hz.
    - destruct c as [|a [|]]; cbn in H; try lia. cbn [oi_aux dupA Nat.pow]. now rewrite (dft_one F Fth).
    - cbn [oi_aux dupA]. destruct (Nat.leb (S k) s) eqn:E.
      + apply Nat.leb_le in E. replace (S k - s) with 0 in Hz by lia. cbn [Nat.pow] in Hz.
        unfold dft. rewrite <- (map_const_seq (hd zero c) (2 ^ S k) 0). apply map_ext. intros i.
        symmetry. now apply eval_head_only.
      + apply Nat.leb_gt in E. rewrite pow2_S in H. destruct (evens_odds_length _ _ H) as [He Ho].
        set (g := 2 ^ k) in *.
        assert (L1 : length (dupA k s (evens c)) = g) by (apply dupA_length; exact He).
        assert (Ef : firstn g (dupA k s (evens c) ++ dupA k s (odds c)) = dupA k s (evens c)).
        { rewrite <- L1. rewrite firstn_app, Nat.sub_diag, firstn_O, app_nil_r. apply firstn_all. }
        assert (Es : skipn g (dupA k s (evens c) ++ dupA k s (odds c)) = dupA k s (odds c)).
        { rewrite <- L1. rewrite skipn_app, Nat.sub_diag, skipn_O, skipn_all. reflexivity. }
        rewrite Ef, Es.
        assert (Hk : S k - s = S (k - s)) by lia. rewrite Hk, pow2_S in Hz.
        rewrite !IH; auto using (prim_root_sqr F Fth).
        * rewrite pow2_S. fold g. apply oi_step; [exact H | exact Hw].
        * intros i Hi. rewrite nth_odds. apply Hz. lia.
        * intros i Hi. rewrite nth_evens. apply Hz. lia.
  Qed.
End DA.
