(* C07 proofs, part 5: degree_aware_fft_in_place end to end.
   (a) the index bookkeeping: the partial bit-reversal swap followed by duplicate_initials
       builds exactly the array `dupA k s c2` of DegreeAware.v;
   (b) degree_aware_fft = the coset DFT for every input not longer than the domain;
   (c) Radix2EvaluationDomain::fft_in_place = the coset DFT on both sides of the
       DEGREE_AWARE_FFT_THRESHOLD_FACTOR threshold. *)
From V Require Import Base.Field C07.Dft C07.Radix2 C07.DftProofs C07.Radix2Proofs C07.DegreeAware C07.DomainProofs.
Require Import Lia Field Ring.
Local Open Scope nat_scope.

(* ---------- chunks: the fuel (= length) is irrelevant once it suffices ---------- *)
Lemma chunks_aux_fuel {A} (m : nat) : 0 < m -> forall f f' (l : list A),
  length l <= f -> length l <= f' -> chunks_aux f m l = chunks_aux f' m l.
Proof.
  intros Hm. induction f as [|f IH]; intros f' l Hf Hf'.
  - destruct l as [|a l]; [|cbn [length] in Hf; lia]. destruct f'; reflexivity.
  - destruct l as [|a l]; [destruct f'; reflexivity|].
    destruct f' as [|f']; [cbn [length] in Hf'; lia|].
    cbn [chunks_aux]. f_equal. apply IH; rewrite skipn_length; cbn [length] in *; lia.
Qed.

Lemma chunks_aux_step {A} : forall f m (l : list A), l <> [] ->
  chunks_aux (S f) m l = firstn m l :: chunks_aux f m (skipn m l).
Proof. intros f m l H. destruct l; [congruence | reflexivity]. Qed.

Lemma hd_nth0 {A} (d : A) : forall l, hd d l = nth 0 l d.
Proof. destruct l; reflexivity. Qed.

Lemma nth_repeat_same {A} (a : A) : forall m n, nth n (repeat a m) a = a.
Proof. induction m as [|m IH]; intros [|n]; cbn [repeat nth]; auto. Qed.

Lemma hd_evens {A} (d : A) : forall c, hd d (evens c) = hd d c.
Proof. intros [|a [|b t]]; reflexivity. Qed.

Lemma hd_bl {A} (d : A) : forall k (c : list A), length c = 2 ^ k -> hd d (bl k c) = hd d c.
Proof.
  induction k as [|k IH]; intros c H; [reflexivity|].
  rewrite pow2_S in H. destruct (evens_odds_length _ _ H) as [He Ho].
  cbn [bl]. pose proof (bl_length k (evens c) He) as L. pose proof (IH (evens c) He) as IHe.
  destruct (bl k (evens c)) as [|x t].
  - cbn [length] in L. pose proof (Nat.pow_nonzero 2 k). lia.
  - cbn [app hd] in *. rewrite IHe. apply hd_evens.
Qed.

(* multiples of 2^s: the s low zero bits become s high zero bits *)
Lemma bitreverse_shift : forall s l m,
  bitreverse (m * 2 ^ Z.of_nat s)%Z (s + l) = bitreverse m l.
Proof.
  induction s as [|s IH]; intros l m.
  - change (Z.of_nat 0) with 0%Z. rewrite Z.pow_0_r, Z.mul_1_r. reflexivity.
  - cbn [Nat.add]. rewrite bitreverse_S.
    rewrite Nat2Z.inj_succ, Z.pow_succ_r by lia.
    replace (m * (2 * 2 ^ Z.of_nat s))%Z with ((m * 2 ^ Z.of_nat s) * 2)%Z by ring.
    rewrite Z.mod_mul, Z.div_mul by lia. rewrite IH. lia.
Qed.

(* next_power_of_two / log2 bookkeeping of degree_aware_fft *)
Lemma npow2_log : forall L k : nat, L <= 2 ^ k ->
  npow2 (Z.of_nat L) = Z.of_nat (2 ^ Z.to_nat (log2c (npow2 (Z.of_nat L)))) /\
  Z.to_nat (log2c (npow2 (Z.of_nat L))) <= k /\
  L <= 2 ^ Z.to_nat (log2c (npow2 (Z.of_nat L))).
Proof.
  intros L k HL. unfold npow2. destruct (Z.leb_spec (Z.of_nat L) 1) as [H|H].
  - unfold log2c. change (1 <=? 1)%Z with true. cbv iota. change (Z.to_nat 0) with 0.
    cbn [Nat.pow]. repeat split; lia.
  - pose proof (Z.log2_up_pos _ H) as He.
    pose proof (Z.log2_up_spec _ H) as [_ Hu].
    set (e := Z.log2_up (Z.of_nat L)) in *.
    assert (H2 : (2 ^ 1 <= 2 ^ e)%Z) by (apply Z.pow_le_mono_r; lia).
    change (2 ^ 1)%Z with 2%Z in H2.
    unfold log2c. destruct (Z.leb_spec (2 ^ e) 1) as [H3|_]; [lia|].
    rewrite Z.log2_up_pow2 by lia.
    assert (Ee : Z.of_nat (2 ^ Z.to_nat e) = (2 ^ e)%Z) by (rewrite pow2_Z, Z2Nat.id by lia; reflexivity).
    repeat split.
    + symmetry. exact Ee.
    + assert (Hk : (e <= Z.of_nat k)%Z).
      { unfold e. apply Z.log2_up_le_pow2; [lia|]. rewrite <- pow2_Z. lia. }
      lia.
    + apply Nat2Z.inj_le. rewrite Ee. exact Hu.
Qed.

Section DAF.
  Context {T : Type} (F : Fops T).
  Hypothesis Fth : field_theory (f0 F) (f1 F) (fadd F) (fmul F) (fsub F) (fneg F) (fdiv F) (finv F) eq.
  Hypothesis feqb_ok : forall a b, feqb F a b = true <-> a = b.
  Add Field Ff7 : Fth.
  Local Notation zero := (f0 F).
  Local Notation one := (f1 F).
  Local Notation add := (fadd F).
  Local Notation sub := (fsub F).
  Local Notation mul := (fmul F).
  Local Notation neg := (fneg F).
  Local Notation pw := (pown F).
  Local Notation ev := (eval F).
  Local Notation dup := (duplicate_initials F).

  (* ---------- gather ---------- *)
  Lemma gather_length : forall idx (x : list T), length (gather F idx x) = length x.
  Proof. intros. unfold gather. now rewrite map_length, seq_length. Qed.

  Lemma nth_gather : forall idx (x : list T) j, j < length x ->
    nth j (gather F idx x) zero = nth (idx j) x zero.
  Proof.
    intros idx x j H. unfold gather. set (g := fun i => nth (idx i) x zero).
    rewrite (nth_indep _ zero (g 0)) by (rewrite map_length, seq_length; exact H).
    rewrite map_nth, seq_nth by exact H. reflexivity.
  Qed.

  (* ---------- duplicate_initials, structurally ---------- *)
  Lemma dup_nil : forall m, dup [] m = [].
  Proof. reflexivity. Qed.

  Lemma dup_chunk : forall m (a b : list T), 0 < m -> length a = m ->
    dup (a ++ b) m = repeat (hd zero a) m ++ dup b m.
  Proof.
    intros m a b Hm Ha. unfold duplicate_initials, chunks.
    assert (Ef : firstn m (a ++ b) = a).
    { subst m. rewrite firstn_app, Nat.sub_diag, firstn_O, app_nil_r. apply firstn_all. }
    assert (Es : skipn m (a ++ b) = b).
    { subst m. rewrite skipn_app, Nat.sub_diag, skipn_O, skipn_all. reflexivity. }
    assert (Hne : a ++ b <> []).
    { destruct a; [cbn [length] in Ha; lia | discriminate]. }
    rewrite app_length. replace (length a + length b) with (S (m - 1 + length b)) by lia.
    rewrite chunks_aux_step by exact Hne. rewrite Ef, Es. cbn [flat_map]. rewrite Ha.
    f_equal. f_equal. apply chunks_aux_fuel; lia.
  Qed.

  Lemma dup_app : forall q m (a b : list T), 0 < m -> length a = q * m ->
    dup (a ++ b) m = dup a m ++ dup b m.
  Proof.
    induction q as [|q IH]; intros m a b Hm Ha.
    - destruct a; [reflexivity | cbn [length] in Ha; lia].
    - assert (Hx : a = firstn m a ++ skipn m a) by (symmetry; apply firstn_skipn).
      assert (H1 : length (firstn m a) = m) by (rewrite firstn_length; lia).
      assert (H2 : length (skipn m a) = q * m) by (rewrite skipn_length; lia).
      set (a1 := firstn m a) in *. set (a2 := skipn m a) in *. rewrite Hx.
      rewrite <- app_assoc. rewrite (dup_chunk m a1 (a2 ++ b) Hm H1), (dup_chunk m a1 a2 Hm H1).
      rewrite (IH m a2 b Hm H2). now rewrite app_assoc.
  Qed.

  (* the result only depends on the first element of every block *)
  Lemma dup_ext : forall q m (x y : list T), 0 < m -> length x = q * m -> length y = q * m ->
    (forall i, i < q -> nth (i * m) x zero = nth (i * m) y zero) -> dup x m = dup y m.
  Proof.
    induction q as [|q IH]; intros m x y Hm Lx Ly H.
    - destruct x; [|cbn [length] in Lx; lia]. destruct y; [reflexivity | cbn [length] in Ly; lia].
    - assert (Hx : x = firstn m x ++ skipn m x) by (symmetry; apply firstn_skipn).
      assert (Hy : y = firstn m y ++ skipn m y) by (symmetry; apply firstn_skipn).
      assert (X1 : length (firstn m x) = m) by (rewrite firstn_length; lia).
      assert (X2 : length (skipn m x) = q * m) by (rewrite skipn_length; lia).
      assert (Y1 : length (firstn m y) = m) by (rewrite firstn_length; lia).
      assert (Y2 : length (skipn m y) = q * m) by (rewrite skipn_length; lia).
      set (x1 := firstn m x) in *. set (x2 := skipn m x) in *.
      set (y1 := firstn m y) in *. set (y2 := skipn m y) in *.
      rewrite Hx, Hy in H |- *.
      rewrite (dup_chunk m x1 x2 Hm X1), (dup_chunk m y1 y2 Hm Y1). f_equal.
      + f_equal. rewrite !hd_nth0. specialize (H 0 ltac:(lia)). cbn [Nat.mul] in H.
        rewrite !app_nth1 in H by lia. exact H.
      + apply (IH m x2 y2 Hm X2 Y2). intros i Hi. specialize (H (S i) ltac:(lia)).
        rewrite !app_nth2 in H by (rewrite ?X1, ?Y1; cbn [Nat.mul]; lia).
        rewrite X1, Y1 in H. replace (S i * m - m) with (i * m) in H by (cbn [Nat.mul]; lia).
        exact H.
  Qed.

  (* ---------- dupA = block duplication of the bit-reversed array ---------- *)
  Lemma dupA_0 : forall k (c : list T), dupA F k 0 c = bl k c.
  Proof.
    induction k as [|k IH]; intros c; [reflexivity|].
    cbn [dupA bl Nat.leb]. now rewrite !IH.
  Qed.

  Lemma dupA_dup_bl : forall k s (c : list T), 1 <= s -> s <= k -> length c = 2 ^ k ->
    dupA F k s c = dup (bl k c) (2 ^ s).
  Proof.
    induction k as [|k IH]; intros s c Hs Hk H; [lia|].
    assert (Hpos : forall e, 0 < 2 ^ e) by (intros e; pose proof (Nat.pow_nonzero 2 e); lia).
    cbn [dupA]. destruct (Nat.leb (S k) s) eqn:E.
    - apply Nat.leb_le in E. assert (s = S k) by lia. subst s.
      rewrite <- (app_nil_r (bl (S k) c)).
      rewrite dup_chunk by (auto using bl_length).
      rewrite dup_nil, app_nil_r, hd_bl by exact H. reflexivity.
    - apply Nat.leb_gt in E. rewrite pow2_S in H. destruct (evens_odds_length _ _ H) as [He Ho].
      rewrite !IH by (assumption || lia). cbn [bl].
      rewrite (dup_app (2 ^ (k - s))); [reflexivity | apply Hpos |].
      rewrite bl_length by exact He. rewrite <- Nat.pow_add_r. f_equal. lia.
  Qed.

  (* ---------- (a) partial swap + duplication = dupA ---------- *)
  (* NB: holds for every c2 of length 2^k; that c2 vanishes beyond 2^log_d is not needed here
     (only the first element of every 2^s-block of the swapped array is read, and those
     positions are always exchanged with their bit-reversal) *)
  Lemma pbs_dup_spec : forall k log_d (c2 : list T) (num : Z),
    length c2 = 2 ^ k -> log_d <= k -> num = Z.of_nat (2 ^ log_d) ->
    (if Nat.ltb 1 (2 ^ (k - log_d))
     then dup (partial_bitrev_swap F c2 num k) (2 ^ (k - log_d))
     else partial_bitrev_swap F c2 num k) = dupA F k (k - log_d) c2.
  Proof.
    intros k log_d c2 num Hlen Hlk Hnum.
    assert (Hpos : forall e, 0 < 2 ^ e) by (intros e; pose proof (Nat.pow_nonzero 2 e); lia).
    destruct (Nat.eq_dec (k - log_d) 0) as [Hs|Hs].
    - rewrite Hs. cbn [Nat.pow Nat.ltb Nat.leb]. rewrite dupA_0.
      rewrite <- (derange_bl F) by exact Hlen.
      assert (log_d = k) by lia. subst log_d.
      unfold partial_bitrev_swap, derange, gather. apply map_ext_in. intros j Hj.
      apply in_seq in Hj. cbv beta zeta.
      replace (Z.of_nat j <? num)%Z with true by (symmetry; apply Z.ltb_lt; lia).
      reflexivity.
    - set (s := k - log_d) in *.
      assert (Hs1 : 1 <= s) by lia. assert (Hsk : s <= k) by lia.
      assert (Hk : k = s + log_d) by lia.
      assert (Hp2 : 2 <= 2 ^ s).
      { destruct s as [|s']; [lia|]. rewrite pow2_S. specialize (Hpos s'). lia. }
      replace (Nat.ltb 1 (2 ^ s)) with true by (symmetry; apply Nat.ltb_lt; lia).
      rewrite dupA_dup_bl by assumption.
      rewrite <- (derange_bl F) by exact Hlen.
      assert (Hkk : 2 ^ k = 2 ^ log_d * 2 ^ s) by (rewrite <- Nat.pow_add_r; f_equal; lia).
      apply (dup_ext (2 ^ log_d)); [apply Hpos | | |].
      + unfold partial_bitrev_swap. rewrite gather_length. lia.
      + unfold derange. rewrite gather_length. lia.
      + intros i Hi.
        assert (Hj : i * 2 ^ s < length c2) by (rewrite Hlen, Hkk; specialize (Hpos s); nia).
        unfold partial_bitrev_swap, derange. rewrite !nth_gather by exact Hj. cbv zeta.
        assert (Hb : forall a, bitrev a k = bitreverse a k) by (destruct k; [lia | reflexivity]).
        rewrite Hb.
        assert (Hr : bitreverse (Z.of_nat (i * 2 ^ s)) k = bitreverse (Z.of_nat i) log_d).
        { rewrite Nat2Z.inj_mul, pow2_Z, Hk. apply bitreverse_shift. }
        rewrite Hr. pose proof (bitreverse_range log_d (Z.of_nat i)) as Hrg.
        rewrite <- pow2_Z, <- Hnum in Hrg.
        replace (bitreverse (Z.of_nat i) log_d <? num)%Z with true by (symmetry; apply Z.ltb_lt; lia).
        rewrite orb_true_r. reflexivity.
  Qed.

  (* the same statement in the form asked for in Props/C07.v (with the unused vanishing premise) *)
  Corollary pbs_dup_spec_vanishing : forall k log_d (c2 : list T) (num : Z),
    length c2 = 2 ^ k -> log_d <= k -> num = (2 ^ Z.of_nat log_d)%Z ->
    (forall i, 2 ^ log_d <= i -> nth i c2 zero = zero) ->
    (if Nat.ltb 1 (2 ^ (k - log_d))
     then dup (partial_bitrev_swap F c2 num k) (2 ^ (k - log_d))
     else partial_bitrev_swap F c2 num k) = dupA F k (k - log_d) c2.
  Proof.
    intros k log_d c2 num Hlen Hlk Hnum _. apply pbs_dup_spec; [exact Hlen | exact Hlk |].
    now rewrite pow2_Z.
  Qed.

  (* ---------- (b) degree_aware_fft_in_place = coset DFT ---------- *)
  Lemma resize_length : forall n (c : list T), length c <= n -> length (resize F n c) = n.
  Proof.
    intros n c H. rewrite (resize_pad F) by exact H. rewrite app_length, repeat_length. lia.
  Qed.

  Lemma resize_tail_zero : forall n (c : list T) i, length c <= n -> length c <= i ->
    nth i (resize F n c) zero = zero.
  Proof.
    intros n c i H Hi. rewrite (resize_pad F) by exact H. rewrite app_nth2 by lia.
    apply nth_repeat_same.
  Qed.

  Theorem degree_aware_fft_spec : forall k gen offset (c : list T), length c <= 2 ^ k ->
    prim_root F k gen ->
    degree_aware_fft F k gen offset c = Some (dft_coset F (2 ^ k) offset gen c).
  Proof.
    intros k gen offset c Hlen Hw.
    pose (c1 := if is_one F offset then c else distribute_powers F c offset).
    assert (L1 : length c1 = length c).
    { unfold c1. destruct (is_one F offset); [reflexivity|].
      unfold distribute_powers. apply (distribute_length F Fth). }
    unfold degree_aware_fft. cbv zeta. fold c1. rewrite L1.
    destruct (npow2_log (length c) k Hlen) as (Hnum & Hlk & HL).
    set (num := npow2 (Z.of_nat (length c))) in *.
    set (log_d := Z.to_nat (log2c num)) in *.
    replace (Nat.ltb k log_d) with false by (symmetry; apply Nat.ltb_ge; exact Hlk).
    assert (L2 : length (resize F (2 ^ k) c1) = 2 ^ k) by (apply resize_length; lia).
    rewrite (pbs_dup_spec k log_d (resize F (2 ^ k) c1) num L2 Hlk Hnum).
    rewrite (oi_skip_spec F Fth) by
      (try assumption; intros i Hi; replace (k - (k - log_d)) with log_d in Hi by lia;
       apply resize_tail_zero; lia).
    f_equal. unfold dft, dft_coset. apply map_ext. intros i.
    rewrite (resize_pad F) by lia. rewrite (eval_app_zeros F Fth).
    unfold c1. destruct (is_one F offset) eqn:E.
    - apply (is_one_true F feqb_ok) in E. subst offset. f_equal. ring.
    - unfold distribute_powers. rewrite (eval_distribute F Fth). ring.
  Qed.

  (* ---------- (c) Radix2EvaluationDomain::fft_in_place, both sides of the threshold ---------- *)
  Theorem radix2_fft_spec : forall (d : domain T) k (coeffs : list T),
    d_size d = Z.of_nat (2 ^ k) -> d_log d = Z.of_nat k -> prim_root F k (d_gen d) ->
    length coeffs <= 2 ^ k ->
    radix2_fft F d coeffs = Some (dft_coset F (2 ^ k) (d_offset d) (d_gen d) coeffs).
  Proof.
    intros d k coeffs Hsz Hlg Hw Hlen. unfold radix2_fft. rewrite Hsz, Hlg, !Nat2Z.id.
    destruct (Z.of_nat (length coeffs) * 4 <=? Z.of_nat (2 ^ k))%Z.
    - apply degree_aware_fft_spec; assumption.
    - f_equal. apply (in_order_fft_padded F Fth feqb_ok); assumption.
  Qed.
End DAF.
