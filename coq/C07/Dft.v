(* C07 model, part 1: list helpers, polynomial evaluation, the naive DFT (the specification),
   power tables and distribute_powers.  Field-generic: everything takes a dictionary
   [F : Fops T] (coq/Base/Field.v); proofs (C07/DftProofs.v ...) assume [field_theory] for
   the dictionary's operations.  No proofs in this file. *)
From V Require Import Base.Field.
Require Import Lia.

Section Dft.
  Context {T : Type} (F : Fops T).
  Local Notation zero := (f0 F).
  Local Notation one := (f1 F).
  Local Notation add := (fadd F).
  Local Notation sub := (fsub F).
  Local Notation mul := (fmul F).

  (* zip-with, truncating to the shorter list (Rust: lo.iter_mut().zip(hi).zip(roots)) *)
  Fixpoint zipw {A B C : Type} (f : A -> B -> C) (l1 : list A) (l2 : list B) : list C :=
    match l1, l2 with
    | a :: t1, b :: t2 => f a b :: zipw f t1 t2
    | _, _ => []
    end.

  (* elements at even / odd positions *)
  Fixpoint evens {A : Type} (l : list A) : list A :=
    match l with
    | a :: _ :: t => a :: evens t
    | [a] => [a]
    | [] => []
    end.
  Definition odds {A : Type} (l : list A) : list A := evens (tl l).

  (* Vec::resize(n, zero): truncate or pad *)
  Definition resize (n : nat) (l : list T) : list T :=
    firstn n l ++ repeat zero (n - length l).

  (* specification-level power x^n *)
  Fixpoint pown (x : T) (n : nat) : T :=
    match n with O => one | S n' => mul x (pown x n') end.

  (* utils.rs compute_powers_and_mul_by_const_serial(size, root, c) = [c, c*root, c*root^2, ...] *)
  Fixpoint powers (n : nat) (g c : T) : list T :=
    match n with O => [] | S n' => c :: powers n' g (mul c g) end.

  (* value of the polynomial with coefficient list c (low degree first) at x *)
  Definition eval (c : list T) (x : T) : T :=
    fold_right (fun a acc => add a (mul x acc)) zero c.

  (* SPEC: naive evaluation at the n points h * w^i, i = 0..n-1, in domain order *)
  Definition dft_coset (n : nat) (h w : T) (c : list T) : list T :=
    map (fun i => eval c (mul h (pown w i))) (seq 0 n).
  Definition dft (n : nat) (w : T) (c : list T) : list T :=
    map (fun i => eval c (pown w i)) (seq 0 n).

  (* EvaluationDomain::distribute_powers_and_mul_by_const (serial): coeff_i *= c * g^i *)
  Definition distribute_powers_and_mul_by_const (coeffs : list T) (g c : T) : list T :=
    zipw mul coeffs (powers (length coeffs) g c).
  Definition distribute_powers (coeffs : list T) (g : T) : list T :=
    distribute_powers_and_mul_by_const coeffs g one.

  (* split a list into consecutive chunks of m elements (slice::chunks_mut) *)
  Fixpoint chunks_aux {A : Type} (fuel m : nat) (l : list A) : list (list A) :=
    match fuel with
    | O => []
    | S f => match l with
             | [] => []
             | _ => firstn m l :: chunks_aux f m (skipn m l)
             end
    end.
  Definition chunks {A : Type} (m : nat) (l : list A) : list (list A) :=
    chunks_aux (length l) m l.

  (* DensePolynomial::from_coefficients_vec: drop trailing zeros *)
  Fixpoint trim_rev (l : list T) : list T :=
    match l with
    | a :: t => if feqb F a zero then trim_rev t else l
    | [] => []
    end.
  Definition trim (l : list T) : list T := rev (trim_rev (rev l)).
End Dft.
