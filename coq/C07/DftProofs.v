(* C07 proofs, part 1: evaluation / DFT algebra over an abstract field. *)
From V Require Import Base.Field C07.Dft.
Require Import Lia Field Ring.
Local Open Scope nat_scope.

(* ---------- generic list lemmas ---------- *)
Lemma zipw_length {A B C} (f : A -> B -> C) : forall a b,
  length (zipw f a b) = Nat.min (length a) (length b).
Proof. induction a as [|x a IH]; intros [|y b]; cbn [zipw length Nat.min]; auto. Qed.

Lemma zipw_map_map {A B C D} (f : B -> C -> D) (g : A -> B) (h : A -> C) : forall l,
  zipw f (map g l) (map h l) = map (fun i => f (g i) (h i)) l.
Proof. induction l as [|x l IH]; cbn [map zipw]; congruence. Qed.

Lemma zipw_map_l {A B C D} (f : B -> C -> D) (g : A -> B) : forall l m,
  zipw f (map g l) m = zipw (fun a c => f (g a) c) l m.
Proof. induction l as [|x l IH]; intros [|y m]; cbn [map zipw]; auto. now rewrite IH. Qed.

Lemma as_map_nth {A} (d : A) : forall (l : list A) n, length l = n ->
  l = map (fun i => nth i l d) (seq 0 n).
Proof.
  induction l as [|x l IH]; intros n Hn; cbn [length] in Hn; subst n; cbn [seq map]; [reflexivity|].
  f_equal. rewrite <- seq_shift, map_map. now apply IH.
Qed.

Lemma evens_cons {A} (b : A) t : evens (b :: t) = b :: evens (tl t).
Proof. destruct t; reflexivity. Qed.

Lemma evens_odds_length {A} : forall g (c : list A), length c = 2 * g ->
  length (evens c) = g /\ length (odds c) = g.
Proof.
  induction g as [|g IH]; intros c Hc.
  - destruct c; [now split | cbn in Hc; lia].
  - destruct c as [|a [|b t]]; cbn [length] in Hc; try lia.
    destruct (IH t) as [H1 H2]; [lia|].
    split.
    + cbn [evens length]. now rewrite H1.
    + unfold odds in *. cbn [tl]. rewrite evens_cons. cbn [length]. now rewrite H2.
Qed.

Lemma evens_map_seq {A} (f : nat -> A) : forall g s,
  evens (map f (seq s (2 * g))) = map (fun i => f (s + 2 * i)) (seq 0 g).
Proof.
  induction g as [|g IH]; intros s; [reflexivity|].
  replace (2 * S g) with (S (S (2 * g))) by lia. cbn [seq map evens].
  rewrite IH. f_equal; [f_equal; lia|].
  rewrite <- seq_shift, map_map. apply map_ext. intros i. f_equal. lia.
Qed.

Lemma odds_map_seq {A} (f : nat -> A) : forall g s,
  odds (map f (seq s (2 * g))) = map (fun i => f (s + 2 * i + 1)) (seq 0 g).
Proof.
  induction g as [|g IH]; intros s; [reflexivity|].
  replace (2 * S g) with (S (S (2 * g))) by lia. unfold odds. cbn [seq map tl].
  rewrite evens_cons. fold (odds (map f (seq (S (S s)) (2 * g)))). rewrite IH.
  cbn [seq map]. f_equal; [f_equal; lia|].
  rewrite <- seq_shift, map_map. apply map_ext. intros i. f_equal. lia.
Qed.

Section P.
  Context {T : Type} (F : Fops T).
  Hypothesis Fth : field_theory (f0 F) (f1 F) (fadd F) (fmul F) (fsub F) (fneg F) (fdiv F) (finv F) eq.
  Add Field Ff : Fth.
  Local Notation zero := (f0 F).
  Local Notation one := (f1 F).
  Local Notation add := (fadd F).
  Local Notation sub := (fsub F).
  Local Notation mul := (fmul F).
  Local Notation neg := (fneg F).
  Local Notation pw := (pown F).
  Local Notation ev := (eval F).

  (* ---------- powers ---------- *)
  Lemma pown_add : forall x a b, pw x (a + b) = mul (pw x a) (pw x b).
  Proof. induction a; intros; cbn [pown Nat.add]; [ring | rewrite IHa; ring]. Qed.
  Lemma pown_one : forall n, pw one n = one.
  Proof. induction n; cbn [pown]; [reflexivity | rewrite IHn; ring]. Qed.
  Lemma pown_mulbase : forall x y n, pw (mul x y) n = mul (pw x n) (pw y n).
  Proof. induction n; cbn [pown]; [ring | rewrite IHn; ring]. Qed.
  Lemma pown_mul : forall x a b, pw x (a * b) = pw (pw x a) b.
  Proof.
    intros x a b. induction b; [rewrite Nat.mul_0_r; reflexivity|].
    rewrite Nat.mul_succ_r, Nat.add_comm, pown_add, IHb. cbn [pown]. ring.
  Qed.
  Lemma pown_sqr : forall x n, pw (mul x x) n = pw x (2 * n).
  Proof. intros. rewrite pown_mulbase. replace (2 * n) with (n + n) by lia. now rewrite pown_add. Qed.
  Lemma pown_neg1_even : forall i, pw (neg one) (2 * i) = one.
  Proof.
    induction i; [reflexivity|]. replace (2 * S i) with (S (S (2 * i))) by lia.
    cbn [pown]. rewrite IHi. ring.
  Qed.
  Lemma pown_neg1_odd : forall i, pw (neg one) (2 * i + 1) = neg one.
  Proof. intros. rewrite pown_add, pown_neg1_even. cbn [pown]. ring. Qed.

  Lemma powers_spec : forall n g c,
    powers F n g c = map (fun i => mul c (pw g i)) (seq 0 n).
  Proof.
    induction n; intros; cbn [powers seq map]; [reflexivity|]. f_equal; [cbn [pown]; ring|].
    rewrite IHn, <- seq_shift, map_map. apply map_ext. intros; cbn [pown]; ring.
  Qed.
  Lemma powers_length : forall n g c, length (powers F n g c) = n.
  Proof. intros. now rewrite powers_spec, map_length, seq_length. Qed.

  (* ---------- evaluation ---------- *)
  Lemma eval_cons : forall a c x, ev (a :: c) x = add a (mul x (ev c x)).
  Proof. reflexivity. Qed.
  Lemma eval_nil : forall x, ev [] x = zero.
  Proof. reflexivity. Qed.

  Lemma eval_app : forall a b x, ev (a ++ b) x = add (ev a x) (mul (pw x (length a)) (ev b x)).
  Proof.
    induction a as [|u a IH]; intros; cbn [app length pown].
    - rewrite eval_nil. ring.
    - rewrite !eval_cons, IH. ring.
  Qed.

  Lemma eval_zipw_add : forall a b x, length a = length b ->
    ev (zipw add a b) x = add (ev a x) (ev b x).
  Proof.
    induction a as [|u a IH]; intros [|v b] x H; cbn [length] in H; try discriminate; cbn [zipw].
    - rewrite eval_nil. ring.
    - rewrite !eval_cons, IH by lia. ring.
  Qed.
  Lemma eval_zipw_sub : forall a b x, length a = length b ->
    ev (zipw sub a b) x = sub (ev a x) (ev b x).
  Proof.
    induction a as [|u a IH]; intros [|v b] x H; cbn [length] in H; try discriminate; cbn [zipw].
    - rewrite eval_nil. ring.
    - rewrite !eval_cons, IH by lia. ring.
  Qed.

  (* distribute_powers: scaling coefficient i by k g^i = evaluating at g x, times k *)
  Lemma eval_distribute : forall c g k x,
    ev (distribute_powers_and_mul_by_const F c g k) x = mul k (ev c (mul g x)).
  Proof.
    unfold distribute_powers_and_mul_by_const.
    induction c as [|u c IH]; intros; cbn [length powers zipw].
    - rewrite !eval_nil. ring.
    - rewrite !eval_cons, IH. ring.
  Qed.

  Lemma eval_evens_odds_aux : forall n c x, length c <= n ->
    ev c x = add (ev (evens c) (mul x x)) (mul x (ev (odds c) (mul x x))).
  Proof.
    induction n as [|n IH]; intros c x H.
    - destruct c; [|cbn in H; lia]. cbn. ring.
    - destruct c as [|a [|b t]].
      + cbn. ring.
      + cbn. ring.
      + unfold odds. cbn [tl]. change (evens (a :: b :: t)) with (a :: evens t).
        rewrite (evens_cons b t). fold (odds t).
        rewrite !eval_cons. rewrite (IH t x) by (cbn [length] in H; lia). ring.
  Qed.
  Lemma eval_evens_odds : forall c x,
    ev c x = add (ev (evens c) (mul x x)) (mul x (ev (odds c) (mul x x))).
  Proof. intros. now apply (eval_evens_odds_aux (length c)). Qed.

  (* zero padding does not change the value *)
  Lemma eval_app_zeros : forall c n x, ev (c ++ repeat zero n) x = ev c x.
  Proof.
    intros. rewrite eval_app.
    assert (Hz : ev (repeat zero n) x = zero).
    { induction n; cbn [repeat]; [reflexivity | rewrite eval_cons, IHn; ring]. }
    rewrite Hz. ring.
  Qed.

  (* ---------- the even / odd output split of a DFT (decimation in frequency) ---------- *)
  Lemma dif_even : forall g w lo hi i, length lo = g -> length hi = g -> pw w g = neg one ->
    ev (lo ++ hi) (pw w (2 * i)) = ev (zipw add lo hi) (pw (mul w w) i).
  Proof.
    intros g w lo hi i Hlo Hhi Hw.
    rewrite eval_app, eval_zipw_add by lia. rewrite Hlo.
    assert (Hx : pw (pw w (2 * i)) g = one).
    { rewrite <- pown_mul, (Nat.mul_comm (2 * i) g), (pown_mul w g (2 * i)), Hw. apply pown_neg1_even. }
    rewrite Hx, pown_sqr. ring.
  Qed.

  Lemma dif_odd : forall g w lo hi i, length lo = g -> length hi = g -> pw w g = neg one ->
    ev (lo ++ hi) (pw w (2 * i + 1)) =
    ev (zipw mul (zipw sub lo hi) (powers F g w one)) (pw (mul w w) i).
  Proof.
    intros g w lo hi i Hlo Hhi Hw.
    assert (Hl : length (zipw sub lo hi) = g) by (rewrite zipw_length; lia).
    pose proof (eval_distribute (zipw sub lo hi) w one (pw (mul w w) i)) as Hd.
    unfold distribute_powers_and_mul_by_const in Hd. rewrite Hl in Hd. rewrite Hd.
    rewrite eval_zipw_sub by lia.
    rewrite eval_app, Hlo.
    assert (Hx : pw (pw w (2 * i + 1)) g = neg one).
    { rewrite <- pown_mul, (Nat.mul_comm (2 * i + 1) g), (pown_mul w g (2 * i + 1)), Hw. apply pown_neg1_odd. }
    rewrite Hx, pown_sqr. replace (2 * i + 1) with (S (2 * i)) by lia. cbn [pown]. ring.
  Qed.
End P.
