(* C07 model, part 4: domain construction and the EvaluationDomain trait's provided methods.
   ff/src/fields/fft_friendly.rs get_root_of_unity; radix2/mod.rs, mixed_radix.rs, general.rs
   new / get_coset / compute_size_of_domain; domain/mod.rs element, elements,
   evaluate_vanishing_polynomial, vanishing_polynomial, evaluate_all_lagrange_coefficients;
   evaluations/univariate/mod.rs interpolate.  No proofs in this file. *)
From V Require Import Base.Field C07.Dft C07.Radix2 C07.MixedRadix.

(* the FftField constants of a field *)
Record fftcfg (T : Type) := mkCfg {
  c_two_adicity : Z;
  c_two_adic_root : T;
  c_small_base : option Z;            (* SMALL_SUBGROUP_BASE *)
  c_small_adicity : option Z;         (* SMALL_SUBGROUP_BASE_ADICITY *)
  c_large_root : option T             (* LARGE_SUBGROUP_ROOT_OF_UNITY *)
}.
Arguments mkCfg {T}. Arguments c_two_adicity {T}. Arguments c_two_adic_root {T}.
Arguments c_small_base {T}. Arguments c_small_adicity {T}. Arguments c_large_root {T}.

(* result of a constructor: the Rust code can return Some, None, or panic (unwrap) *)
Inductive res (A : Type) := RSome (a : A) | RNone | RPanic.
Arguments RSome {A}. Arguments RNone {A}. Arguments RPanic {A}.

Section Domain.
  Context {T : Type} (F : Fops T).
  Local Notation zero := (f0 F).
  Local Notation one := (f1 F).
  Local Notation add := (fadd F).
  Local Notation sub := (fsub F).
  Local Notation mul := (fmul F).

  Definition sqr_iter (n : nat) (x : T) : T := Nat.iter n (fun y => mul y y) x.
  Definition powq_iter (n : nat) (q : Z) (x : T) : T := Nat.iter n (fun y => fpow F y q) x.

  (* FftField::get_root_of_unity(n); RPanic = one of the expect()s *)
  Definition get_root_of_unity (c : fftcfg T) (n : Z) : res T :=
    match c_large_root c with
    | Some large =>
        match c_small_base c, c_small_adicity c with
        | Some q, Some qa =>
            let q_adicity := k_adicity q n in
            let q_part := q ^ q_adicity in
            let two_adicity := k_adicity 2 n in
            let two_part := 2 ^ two_adicity in
            if negb (n =? two_part * q_part) || (c_two_adicity c <? two_adicity) || (qa <? q_adicity)
            then RNone
            else
              let om1 := powq_iter (Z.to_nat (qa - q_adicity)) q large in
              RSome (sqr_iter (Z.to_nat (c_two_adicity c - two_adicity)) om1)
        | _, _ => RPanic
        end
    | None =>
        let size := npow2 n in
        let lg := log2c size in
        if negb (n =? size) || (c_two_adicity c <? lg) then RNone
        else RSome (sqr_iter (Z.to_nat (c_two_adicity c - lg)) (c_two_adic_root c))
    end.

  (* Option<F>::inverse *)
  Definition inverse (a : T) : option T := if fis0 F a then None else Some (finv F a).

  Definition build_domain (mixed : bool) (size lg : Z) (gen : T) : res (domain T) :=
    let size_fe := fof F [size] in
    match inverse size_fe, inverse gen with
    | Some si, Some gi => RSome (mkDomain mixed size lg size_fe si gen gi one one one)
    | _, _ => RNone
    end.

  (* Radix2EvaluationDomain::new (num_coeffs < 2^63) *)
  Definition radix2_new (c : fftcfg T) (num_coeffs : Z) : res (domain T) :=
    let size := npow2 num_coeffs in
    let lg := Z.log2 size in                       (* trailing_zeros of a power of two *)
    if c_two_adicity c <? lg then RNone else
    match get_root_of_unity c size with
    | RSome g => build_domain false size lg g
    | RNone => RNone
    | RPanic => RPanic
    end.
  Definition radix2_compute_size (c : fftcfg T) (num_coeffs : Z) : option Z :=
    let size := npow2 num_coeffs in
    if Z.log2 size <=? c_two_adicity c then Some size else None.

  (* MixedRadixEvaluationDomain::new: best_mixed_domain_size unwraps the small-subgroup
     constants before new()'s own `?`, hence RPanic for fields without them *)
  Definition mixed_new (c : fftcfg T) (num_coeffs : Z) : res (domain T) :=
    match c_small_base c, c_small_adicity c with
    | Some q, Some qa =>
        let size := best_mixed_domain_size q qa (c_two_adicity c) num_coeffs in
        let q_adicity := k_adicity q size in
        let q_part := q ^ q_adicity in
        let two_adicity := k_adicity 2 size in
        let two_part := 2 ^ two_adicity in
        if negb (size =? q_part * two_part) then RNone else
        match get_root_of_unity c size with
        | RSome g => build_domain true size two_adicity g
        | RNone => RNone
        | RPanic => RPanic
        end
    | _, _ => RPanic
    end.
  Definition mixed_compute_size (c : fftcfg T) (num_coeffs : Z) : res Z :=
    match c_small_base c with
    | None => RNone
    | Some q =>
        match c_small_adicity c with
        | None => RPanic
        | Some qa =>
            let n := best_mixed_domain_size q qa (c_two_adicity c) num_coeffs in
            let q_part := q ^ k_adicity q n in
            let two_part := 2 ^ k_adicity 2 n in
            if n =? q_part * two_part then RSome n else RNone
        end
    end.

  (* GeneralEvaluationDomain::new *)
  Definition general_new (c : fftcfg T) (num_coeffs : Z) : res (domain T) :=
    match radix2_new c num_coeffs with
    | RSome d => RSome d
    | RPanic => RPanic
    | RNone => match c_small_base c with
               | Some _ => mixed_new c num_coeffs
               | None => RNone
               end
    end.
  Definition general_compute_size (c : fftcfg T) (num_coeffs : Z) : res Z :=
    match radix2_compute_size c num_coeffs with
    | Some s => RSome s
    | None => match c_small_base c with
              | Some _ => mixed_compute_size c num_coeffs
              | None => RNone
              end
    end.

  (* get_coset (identical for the three kinds) *)
  Definition get_coset (d : domain T) (offset : T) : option (domain T) :=
    match inverse offset with
    | None => None
    | Some oi =>
        Some (mkDomain (d_mixed d) (d_size d) (d_log d) (d_size_fe d) (d_size_inv d) (d_gen d)
                       (d_gen_inv d) offset oi (fpow F offset (d_size d)))
    end.

  (* element(i) *)
  Definition element (d : domain T) (i : Z) : T :=
    let r := fpow F (d_gen d) i in
    if is_one F (d_offset d) then r else mul r (d_offset d).

  (* elements(): cur = offset; repeat size times { yield cur; cur *= gen } *)
  Definition elements (d : domain T) : list T :=
    powers F (Z.to_nat (d_size d)) (d_gen d) (d_offset d).

  (* evaluate_vanishing_polynomial *)
  Definition evaluate_vanishing_polynomial (d : domain T) (tau : T) : T :=
    sub (fpow F tau (d_size d)) (d_offset_pow_size d).

  (* vanishing_polynomial: sparse [(0, -offset^size), (size, 1)] *)
  Definition vanishing_polynomial (d : domain T) : list (Z * T) :=
    [(0, fneg F (d_offset_pow_size d)); (d_size d, one)].

  (* the tau-in-domain branch: scan for the index whose element equals tau *)
  Fixpoint lagrange_scan (n : nat) (cur tau gen : T) : list T :=
    match n with
    | O => []
    | S n' => if feqb F cur tau then one :: repeat zero n'
              else zero :: lagrange_scan n' (mul cur gen) tau gen
    end.
  (* the generic branch: coeff_i = l_i * (tau - h g^i), then batch inversion *)
  Fixpoint lagrange_inv_coeffs (n : nat) (l negcur tau gen gen_inv : T) : list T :=
    match n with
    | O => []
    | S n' => mul l (add tau negcur)
              :: lagrange_inv_coeffs n' (mul l gen_inv) (mul negcur gen) tau gen gen_inv
    end.
  Definition evaluate_all_lagrange_coefficients (d : domain T) (tau : T) : list T :=
    let size := d_size d in
    let z := evaluate_vanishing_polynomial d tau in
    if fis0 F z then lagrange_scan (Z.to_nat size) (d_offset d) tau (d_gen d)
    else
      let v0inv := mul (d_size_fe d) (fpow F (d_offset d) (size - 1)) in
      let l0 := mul (finv F z) v0inv in
      (* batch_inversion: non-zero entries inverted, zero entries left (finv 0 = 0) *)
      map (finv F) (lagrange_inv_coeffs (Z.to_nat size) l0 (fneg F (d_offset d)) tau (d_gen d) (d_gen_inv d)).

  (* fft_in_place / ifft_in_place of GeneralEvaluationDomain (dispatch on the variant);
     q = SMALL_SUBGROUP_BASE (only read in the mixed variant).  None = panic *)
  Definition domain_fft (q : Z) (d : domain T) (coeffs : list T) : option (list T) :=
    if d_mixed d then mixed_fft F q d coeffs else radix2_fft F d coeffs.
  Definition domain_ifft (q : Z) (d : domain T) (evals : list T) : option (list T) :=
    if d_mixed d then mixed_ifft F q d evals else Some (radix2_ifft F d evals).

  (* Evaluations::interpolate = from_coefficients_vec(ifft(evals)) *)
  Definition interpolate (q : Z) (d : domain T) (evals : list T) : option (list T) :=
    match domain_ifft q d evals with Some c => Some (trim F c) | None => None end.

  (* SPEC used by the `fft_naive` correspondence op: values at element(i), by Horner *)
  Definition naive_fft (d : domain T) (coeffs : list T) : list T :=
    dft_coset F (Z.to_nat (d_size d)) (d_offset d) (d_gen d) coeffs.
End Domain.
