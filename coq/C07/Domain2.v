(* C07 model, part 5: the remaining provided methods of trait EvaluationDomain (poly/src/domain/mod.rs):
   reindex_by_subdomain, filter_polynomial (with the sparse-times-scalar and the
   DenseOrSparsePolynomial::divide_with_q_and_r it is built from), evaluate_filter_polynomial,
   mul_polynomials_in_evaluation_domain, sample_element_outside_domain.  No proofs in this file. *)
From V Require Import Base.Field C07.Dft C07.Radix2 C07.MixedRadix C07.Domain.

Section Domain2.
  Context {T : Type} (F : Fops T).
  Local Notation zero := (f0 F).
  Local Notation one := (f1 F).
  Local Notation add := (fadd F).
  Local Notation sub := (fsub F).
  Local Notation mul := (fmul F).

  (* reindex_by_subdomain(self, other, index); None = panic (the assert, or the division by
     zero of `i / x` when period = 1).  The period is size / size -- NOT derived from
     log_size_of_group, which for a mixed-radix domain is only the two-adicity of the size.
     usize arithmetic: no wrap for sizes < 2^63 and index < |self| *)
  Definition reindex_by_subdomain (d o : domain T) (index : Z) : option Z :=
    if d_size d <? d_size o then None else
    if d_size o =? 0 then None else
    let period := d_size d / d_size o in
    if index <? d_size o then Some (index * period)
    else
      let i := index - d_size o in
      let x := period - 1 in
      if x =? 0 then None else Some (i + i / x + 1).

  (* ---- dense / sparse polynomial helpers used by filter_polynomial ---- *)
  Fixpoint set_nth (n : nat) (v : T) (l : list T) : list T :=
    match l with
    | [] => []
    | a :: t => match n with O => v :: t | S n' => a :: set_nth n' v t end
    end.

  (* &SparsePolynomial * F *)
  Definition sparse_scale (k : T) (s : list (Z * T)) : list (Z * T) :=
    if fis0 F k then [] else map (fun '(e, v) => (e, mul v k)) s.

  (* From<SparsePolynomial> for DensePolynomial: vec![0; degree+1], result[i] = coeff, then trim
     (exponents ascending: the degree is the last exponent) *)
  Definition sparse_to_dense (s : list (Z * T)) : list T :=
    match s with
    | [] => []
    | _ =>
      let deg := Z.to_nat (fst (last s (0, zero))) in
      trim F (fold_left (fun acc '(e, v) => set_nth (Z.to_nat e) v acc) s (repeat zero (S deg)))
    end.

  (* remainder[sh + i] -= q * dv[i] *)
  Fixpoint psub_scaled (rem dv : list T) (q : T) : list T :=
    match rem, dv with
    | r :: rt, d :: dt => sub r (mul q d) :: psub_scaled rt dt q
    | _, _ => rem
    end.
  Fixpoint psub_shift (sh : nat) (rem dv : list T) (q : T) : list T :=
    match sh with
    | O => psub_scaled rem dv q
    | S sh' => match rem with [] => [] | r :: rt => r :: psub_shift sh' rt dv q end
    end.

  (* the while loop of divide_with_q_and_r; None = fuel exhausted (never with fuel > deg) *)
  Fixpoint divide_loop (fuel : nat) (quot rem dv : list T) (linv : T) : option (list T * list T) :=
    match fuel with
    | O => None
    | S f =>
        if (Nat.eqb (length rem) 0 || Nat.ltb (length rem) (length dv))%bool then Some (quot, rem)
        else
          let cq := mul (last rem zero) linv in
          let deg := (length rem - length dv)%nat in
          divide_loop f (set_nth deg cq quot) (trim F (psub_shift deg rem dv cq)) dv linv
    end.

  (* DenseOrSparsePolynomial::divide_with_q_and_r on trimmed dense coefficient lists;
     None = panic ("Dividing by zero polynomial") *)
  Definition divide_with_q_and_r (num dv : list T) : option (list T * list T) :=
    match num with
    | [] => Some ([], [])
    | _ =>
      match dv with
      | [] => None
      | _ =>
        if Nat.ltb (length num) (length dv) then Some ([], num)
        else
          match divide_loop (S (length num)) (repeat zero (length num - length dv + 1)) num dv
                            (finv F (last dv zero)) with
          | Some (q, r) => Some (trim F q, r)
          | None => None
          end
      end
    end.

  (* filter_polynomial(self, subdomain); None = panic (assert!(remainder.is_zero())) *)
  Definition filter_polynomial (d s : domain T) : option (list T) :=
    let k1 := mul (d_size_fe s) (fpow F (d_offset s) (d_size s)) in
    let num := sparse_to_dense (sparse_scale k1 (vanishing_polynomial F d)) in
    let den := sparse_to_dense (sparse_scale (d_size_fe d) (vanishing_polynomial F s)) in
    match divide_with_q_and_r num den with
    | Some (q, []) => Some q
    | _ => None
    end.

  (* evaluate_filter_polynomial(self, subdomain, tau): the value at tau of the filter polynomial
     (1 on the subdomain, 0 on the rest of the domain), i.e. of what filter_polynomial returns:
     |S| h_S^|S| Z_G(tau) / (|G| Z_S(tau)), and 1 where Z_S(tau) = 0.
     DEFECT-1 (NOTES.md): the Rust code omits the factor h_S^|S| = subdomain.coset_offset_pow_size();
     `evaluate_filter_polynomial_as_coded` below is what it computes (equal when that factor is 1
     or when Z_G(tau) = 0) *)
  Definition evaluate_filter_polynomial (d s : domain T) (tau : T) : T :=
    let v := evaluate_vanishing_polynomial F s tau in
    if fis0 F v then one
    else fdiv F (mul (mul (d_size_fe s) (d_offset_pow_size s)) (evaluate_vanishing_polynomial F d tau))
                (mul (d_size_fe d) v).
  Definition evaluate_filter_polynomial_as_coded (d s : domain T) (tau : T) : T :=
    let v := evaluate_vanishing_polynomial F s tau in
    if fis0 F v then one
    else fdiv F (mul (d_size_fe s) (evaluate_vanishing_polynomial F d tau)) (mul (d_size_fe d) v).

  (* mul_polynomials_in_evaluation_domain; None = panic (assert_eq on the lengths) *)
  Definition mul_polynomials_in_evaluation_domain (a b : list T) : option (list T) :=
    if Nat.eqb (length a) (length b) then Some (zipw mul a b) else None.

  (* schoolbook product of coefficient lists (specification of what the pointwise product means) *)
  Fixpoint padd (a b : list T) : list T :=
    match a, b with
    | x :: a', y :: b' => add x y :: padd a' b'
    | [], _ => b
    | _, [] => a
    end.
  Fixpoint pmul (a b : list T) : list T :=
    match a with
    | [] => []
    | x :: a' => padd (map (mul x) b) (zero :: pmul a' b)
    end.

  (* sample_element_outside_domain: the first candidate drawn from the rng whose vanishing value is
     non-zero; the candidates are the rng's draws (the distribution is not part of the property) *)
  Fixpoint sample_element_outside_domain (d : domain T) (cands : list T) : option T :=
    match cands with
    | [] => None
    | t :: r => if fis0 F (evaluate_vanishing_polynomial F d t)
                then sample_element_outside_domain d r else Some t
    end.
  Definition in_domain (d : domain T) (t : T) : bool := existsb (feqb F t) (elements F d).
End Domain2.
