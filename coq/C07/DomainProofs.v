(* C07 proofs, part 3: inverse transform, zero padding, domain elements, vanishing polynomial,
   domain size. *)
From V Require Import Base.Field C07.Dft C07.Radix2 C07.MixedRadix C07.Domain C07.DftProofs C07.Radix2Proofs.
Require Import Lia Field Ring.
Local Open Scope nat_scope.

Section D.
  Context {T : Type} (F : Fops T).
  Hypothesis Fth : field_theory (f0 F) (f1 F) (fadd F) (fmul F) (fsub F) (fneg F) (fdiv F) (finv F) eq.
  Hypothesis feqb_ok : forall a b, feqb F a b = true <-> a = b.
  Add Field Ff4 : Fth.
  Local Notation zero := (f0 F).
  Local Notation one := (f1 F).
  Local Notation add := (fadd F).
  Local Notation sub := (fsub F).
  Local Notation mul := (fmul F).
  Local Notation neg := (fneg F).
  Local Notation pw := (pown F).
  Local Notation ev := (eval F).
  Local Notation two := (fadd F (f1 F) (f1 F)).

  (* ---------- ifft (fft x) = x ---------- *)
  Theorem ifft_fft_id : forall k w wi h hi si x, length x = 2 ^ k ->
    mul w wi = one -> mul h hi = one -> mul (pw two k) si = one ->
    in_order_ifft F k wi h hi si (in_order_fft F k w h x) = x.
  Proof.
    intros k w wi h hi si x H Hw Hh Hs. unfold in_order_ifft, in_order_fft.
    set (x1 := if is_one F h then x else distribute_powers F x h).
    assert (L1 : length x1 = 2 ^ k).
    { unfold x1. destruct (is_one F h); [exact H|]. unfold distribute_powers. now rewrite (distribute_length F Fth). }
    assert (Lio : length (io_aux F k w x1) = 2 ^ k) by (apply (io_aux_length F Fth); exact L1).
    rewrite (derange_bl F k (io_aux F k w x1)) by exact Lio.
    rewrite (derange_bl F) by (apply bl_length; exact Lio).
    rewrite bl_involutive by exact Lio.
    rewrite (oi_io F Fth) by assumption.
    unfold x1. destruct (is_one F h) eqn:E.
    - rewrite map_map. rewrite <- (map_id x) at 2. apply map_ext. intros a.
      transitivity (mul a (mul (pw two k) si)); [ring | rewrite Hs; ring].
    - unfold distribute_powers, distribute_powers_and_mul_by_const.
      rewrite !map_length, !zipw_length, !(powers_length F Fth), Nat.min_id.
      remember (length x) as n eqn:Hn.
      pose proof (as_map_nth zero x n (eq_sym Hn)) as Hx.
      set (fx := fun i => nth i x zero) in *. rewrite Hx.
      rewrite !(powers_spec F Fth), !zipw_map_map, map_map, zipw_map_map.
      apply map_ext. intros i.
      assert (Hp : mul (pw h i) (pw hi i) = one).
      { rewrite <- (pown_mulbase F Fth), Hh. apply (pown_one F Fth). }
      set (a := pw h i) in *. set (b := pw hi i) in *.
      transitivity (mul (fx i) (mul (mul (pw two k) si) (mul a b))); [ring|].
      rewrite Hs, Hp. ring.
  Qed.

  (* ---------- zero padding: the in-order branch of Radix2EvaluationDomain::fft_in_place ---------- *)
  Lemma resize_pad : forall n c, length c <= n -> resize F n c = c ++ repeat zero (n - length c).
  Proof. intros. unfold resize. now rewrite firstn_all2 by lia. Qed.

  Lemma dft_coset_resize : forall n m h w c, length c <= m ->
    dft_coset F n h w (resize F m c) = dft_coset F n h w c.
  Proof.
    intros. rewrite resize_pad by assumption. unfold dft_coset. apply map_ext. intros i.
    apply (eval_app_zeros F Fth).
  Qed.

  Theorem in_order_fft_padded : forall k w h c, length c <= 2 ^ k -> prim_root F k w ->
    in_order_fft F k w h (resize F (2 ^ k) c) = dft_coset F (2 ^ k) h w c.
  Proof.
    intros. rewrite (in_order_fft_spec F Fth feqb_ok); [apply dft_coset_resize; assumption | | assumption].
    rewrite resize_pad by assumption. rewrite app_length, repeat_length. lia.
  Qed.

  (* ---------- square-and-multiply power = iterated product ---------- *)
  Lemma fpow_pos_spec : forall a e, fpow_pos F a e = pw a (Pos.to_nat e).
  Proof.
    induction e as [e IH|e IH|]; cbn [fpow_pos].
    - rewrite Pos2Nat.inj_xI. cbn [pown]. replace (2 * Pos.to_nat e) with (Pos.to_nat e + Pos.to_nat e) by lia.
      rewrite (pown_add F Fth), IH. ring.
    - rewrite Pos2Nat.inj_xO. replace (2 * Pos.to_nat e) with (Pos.to_nat e + Pos.to_nat e) by lia.
      rewrite (pown_add F Fth), IH. ring.
    - change (Pos.to_nat 1) with 1. cbn [pown]. ring.
  Qed.
  Lemma fpow_spec : forall a n, fpow F a (Z.of_nat n) = pw a n.
  Proof.
    intros a [|n]; [reflexivity|]. cbn [Z.of_nat fpow]. rewrite fpow_pos_spec.
    now rewrite SuccNat2Pos.id_succ.
  Qed.

  (* ---------- elements / element ---------- *)
  Theorem elements_spec : forall d n, d_size d = Z.of_nat n ->
    elements F d = map (fun i => mul (d_offset d) (pw (d_gen d) i)) (seq 0 n).
  Proof. intros d n H. unfold elements. rewrite H, Nat2Z.id. apply (powers_spec F Fth). Qed.

  Theorem element_spec : forall d i,
    element F d (Z.of_nat i) = mul (d_offset d) (pw (d_gen d) i).
  Proof.
    intros. unfold element. rewrite fpow_spec. destruct (is_one F (d_offset d)) eqn:E; [|ring].
    apply (is_one_true F feqb_ok) in E. rewrite E. ring.
  Qed.

  (* ---------- vanishing polynomial ---------- *)
  Theorem vanishing_eval_spec : forall d n tau, d_size d = Z.of_nat n ->
    d_offset_pow_size d = pw (d_offset d) n ->
    evaluate_vanishing_polynomial F d tau = sub (pw tau n) (pw (d_offset d) n).
  Proof. intros d n tau H Ho. unfold evaluate_vanishing_polynomial. now rewrite H, fpow_spec, Ho. Qed.

  Theorem vanishing_at_domain_points : forall d n i, d_size d = Z.of_nat n ->
    d_offset_pow_size d = pw (d_offset d) n -> pw (d_gen d) n = one ->
    evaluate_vanishing_polynomial F d (element F d (Z.of_nat i)) = zero.
  Proof.
    intros d n i H Ho Hg. rewrite (vanishing_eval_spec d n) by assumption. rewrite element_spec.
    rewrite (pown_mulbase F Fth), <- (pown_mul F Fth), (Nat.mul_comm i n), (pown_mul F Fth), Hg, (pown_one F Fth).
    ring.
  Qed.

  (* get_coset stores offset^size *)
  Theorem get_coset_spec : forall d n h d', d_size d = Z.of_nat n -> get_coset F d h = Some d' ->
    d_offset d' = h /\ d_offset_pow_size d' = pw h n /\ mul h (d_offset_inv d') = one /\
    d_size d' = d_size d /\ d_gen d' = d_gen d /\ d_gen_inv d' = d_gen_inv d /\ d_size_inv d' = d_size_inv d.
  Proof.
    intros d n h d' H Hc. unfold get_coset, inverse in Hc.
    destruct (fis0 F h) eqn:E; [discriminate|]. inversion Hc; subst d'; clear Hc. cbn.
    rewrite H, fpow_spec. repeat split; auto.
    assert (Hn : h <> zero).
    { intros ->. unfold fis0 in E. assert (feqb F zero zero = true) by now apply feqb_ok. congruence. }
    field. exact Hn.
  Qed.
End D.

(* ---------- domain size (pure arithmetic) ---------- *)
Local Open Scope Z_scope.

Lemma npow2_spec : forall m, 0 <= m ->
  m <= npow2 m /\ (exists k, 0 <= k /\ npow2 m = 2 ^ k) /\
  (forall j, 0 <= j -> m <= 2 ^ j -> npow2 m <= 2 ^ j).
Proof.
  intros m Hm. unfold npow2. destruct (Z.leb_spec m 1) as [H|H].
  - repeat split; [lia | exists 0; split; [lia | reflexivity] |].
    intros j Hj _. pose proof (Z.pow_pos_nonneg 2 j ltac:(lia) Hj). lia.
  - pose proof (Z.log2_up_spec m ltac:(lia)) as [_ Hu].
    repeat split; [exact Hu | exists (Z.log2_up m); split; [apply Z.log2_up_nonneg | reflexivity] |].
    intros j Hj Hmj. apply Z.pow_le_mono_r; [lia|].
    apply Z.log2_up_le_pow2; lia.
Qed.

(* Radix2EvaluationDomain::compute_size_of_domain: at least m, a power of two, minimal;
   None exactly when that power of two exceeds 2^TWO_ADICITY *)
Theorem radix2_size_minimal : forall {T} (c : fftcfg T) m, 0 <= m -> 0 <= c_two_adicity c ->
  match radix2_compute_size c m with
  | Some s => m <= s /\ (exists k, 0 <= k <= c_two_adicity c /\ s = 2 ^ k) /\
              (forall j, 0 <= j -> m <= 2 ^ j -> s <= 2 ^ j)
  | None => forall k, 0 <= k <= c_two_adicity c -> 2 ^ k < m
  end.
Proof.
  intros T c m Hm Hs. unfold radix2_compute_size.
  destruct (npow2_spec m Hm) as (H1 & (k & Hk & Hk2) & H3).
  rewrite Hk2, Z.log2_pow2 by lia.
  destruct (Z.leb_spec k (c_two_adicity c)) as [H|H].
  - repeat split; [lia | exists k; split; [lia | reflexivity] | ].
    intros j Hj Hmj. rewrite <- Hk2. now apply H3.
  - intros k' Hk'. destruct (Z.lt_ge_cases (2 ^ k') m) as [Hlt|Hge]; [exact Hlt|].
    specialize (H3 k' ltac:(lia) Hge). rewrite Hk2 in H3.
    apply Z.pow_le_mono_r_iff in H3; lia.
Qed.

(* the named premises of the property theorems *)
Definition is_field {T} (F : Fops T) : Prop :=
  field_theory (f0 F) (f1 F) (fadd F) (fmul F) (fsub F) (fneg F) (fdiv F) (finv F) eq.
Definition eqb_correct {T} (F : Fops T) : Prop := forall a b, feqb F a b = true <-> a = b.
